(* C04 (t2): gatherCBData (tile_decoder.go) accumulates, per code-block, the data and the pass
   count of all packets of a component in packet order. *)
From V Require Import Common.Base T2.T2Bio T2.T2Header T2.T2Packets T2.T2ProofsBio T2.T2ProofsCodes T2.T2ProofsPackets1
  T2.T2ProofsPackets2.

Lemma key2_eqb_refl : forall k, key2_eqb k k = true.
Proof. intros [a b]. unfold key2_eqb. cbn. rewrite !Z.eqb_refl. reflexivity. Qed.

Lemma key2_eqb_eq : forall a b, key2_eqb a b = true -> a = b.
Proof.
  intros [a1 a2] [b1 b2] H. unfold key2_eqb in H. cbn in H. apply andb_prop in H as [H1 H2].
  apply Z.eqb_eq in H1, H2. congruence.
Qed.

Lemma aget2_aset_same : forall {V} (s : list ((Z * Z) * V)) k v, aget key2_eqb (aset key2_eqb s k v) k = Some v.
Proof.
  intros V s k v. induction s as [|[k' v'] s IH]; cbn [aset aget].
  - rewrite key2_eqb_refl. reflexivity.
  - destruct (key2_eqb k' k) eqn:E; cbn [aget]; [rewrite key2_eqb_refl; reflexivity | rewrite E; exact IH].
Qed.

Lemma aget2_aset_other : forall {V} (s : list ((Z * Z) * V)) k k' v, k <> k' ->
  aget key2_eqb (aset key2_eqb s k v) k' = aget key2_eqb s k'.
Proof.
  intros V s k k' v Hne.
  assert (Hf : key2_eqb k k' = false) by (destruct (key2_eqb k k') eqn:E; [apply key2_eqb_eq in E; contradiction | reflexivity]).
  induction s as [|[k0 v0] s IH]; cbn [aset aget].
  - rewrite Hf. reflexivity.
  - destruct (key2_eqb k0 k) eqn:E; cbn [aget].
    + apply key2_eqb_eq in E. subst k0. rewrite Hf. reflexivity.
    + destruct (key2_eqb k0 k'); [reflexivity | exact IH].
Qed.

(* what is observed of a block: accumulated data and total passes *)
Definition obs (o : option cbinfo) : list Z * Z :=
  match o with Some e => (ci_data e, ci_passes e) | None => ([], 0) end.

Definition trip : Type := (dincl * list Z * bool)%type.
Definition t_inc (t : trip) : bool := di_included (fst (fst t)).
Definition t_data (t : trip) : list Z := snd (fst t).
Definition t_np (t : trip) : Z := di_np (fst (fst t)).

Definition obs_add (o : list Z * Z) (t : trip) : list Z * Z :=
  if t_inc t then (fst o ++ t_data t, snd o + t_np t) else o.

(* included entries carry their length, the others carry no data *)
Definition trip_wf (t : trip) : Prop :=
  (t_inc t = true -> di_len (fst (fst t)) = zlen (t_data t)) /\ (t_inc t = false -> t_data t = []).

Lemma znth_nodup : forall (l : list Z) i j, NoDup l -> 0 <= i < zlen l -> 0 <= j < zlen l -> i <> j ->
  znth l i 0 <> znth l j 0.
Proof.
  intros l i j Hnd Hi Hj Hne E. unfold znth in E. destruct (Z.ltb_spec i 0); [lia|]. destruct (Z.ltb_spec j 0); [lia|].
  unfold zlen in *. apply (proj1 (NoDup_nth l 0) Hnd) in E; lia.
Qed.

Lemma firstn_skipn_app : forall (pre d post : list Z),
  firstn (Z.to_nat (zlen d)) (skipn (Z.to_nat (zlen pre)) (pre ++ d ++ post)) = d.
Proof.
  intros pre d post. rewrite skipn_zlen_app. unfold zlen. rewrite Nat2Z.id.
  rewrite firstn_app, firstn_all, Nat.sub_diag. cbn [firstn]. apply app_nil_r.
Qed.

(* the CodeBlockIncls loop of one packet *)
Lemma gather_incls_spec : forall (ts : list trip) (m : list ((Z * Z) * cbinfo)) r cbOrder cbIdx pre post,
  Forall trip_wf ts -> NoDup cbOrder -> 0 <= cbIdx -> cbIdx + zlen ts <= zlen cbOrder ->
  let body := pre ++ flat_map t_data ts ++ post in
  let m' := gather_incls m r cbOrder body (map (fun t => fst (fst t)) ts) cbIdx (zlen pre) in
  (forall j t, nth_error ts j = Some t ->
     obs (aget key2_eqb m' (r, znth cbOrder (cbIdx + Z.of_nat j) 0)) =
     obs_add (obs (aget key2_eqb m (r, znth cbOrder (cbIdx + Z.of_nat j) 0))) t) /\
  (forall key, (forall j, 0 <= j < zlen ts -> key <> (r, znth cbOrder (cbIdx + j) 0)) ->
     aget key2_eqb m' key = aget key2_eqb m key).
Proof.
  induction ts as [|t ts IH]; intros m r cbOrder cbIdx pre post Hwf Hnd Hc Hlen body m'.
  - subst m'. cbn [map gather_incls]. split; [intros j t H; destruct j; discriminate | intros; reflexivity].
  - pose proof (Forall_inv Hwf) as [Hw1 Hw2]. pose proof (Forall_inv_tail Hwf) as Hwf'.
    rewrite zlen_cons in Hlen. pose proof (zlen_nonneg ts) as Hts.
    subst m' body. cbn [map gather_incls flat_map].
    set (key0 := (r, znth cbOrder cbIdx 0)).
    assert (Hkeys : forall j, 0 <= j < zlen ts -> (r, znth cbOrder (cbIdx + 1 + j) 0) <> key0).
    { intros j Hj E. unfold key0 in E. assert (E2 : znth cbOrder (cbIdx + 1 + j) 0 = znth cbOrder cbIdx 0) by congruence.
      revert E2. apply znth_nodup; try assumption; lia. }
    change (di_included (fst (fst t))) with (t_inc t).
    destruct (t_inc t) eqn:Einc; cbn [negb].
    + (* included *)
      destruct (Z.geb_spec cbIdx (zlen cbOrder)); [lia|].
      specialize (Hw1 eq_refl). rewrite Hw1.
      set (cbData := if (0 <? zlen (t_data t)) && (zlen pre + zlen (t_data t) <=? zlen (pre ++ (t_data t ++ flat_map t_data ts) ++ post))
                     then firstn (Z.to_nat (zlen (t_data t))) (skipn (Z.to_nat (zlen pre)) (pre ++ (t_data t ++ flat_map t_data ts) ++ post))
                     else []).
      assert (Hcb : cbData = t_data t).
      { unfold cbData. destruct (Z.ltb_spec 0 (zlen (t_data t))) as [Hp|Hz]; cbn [andb].
        - rewrite !zlen_app. pose proof (zlen_nonneg (flat_map t_data ts)). pose proof (zlen_nonneg post).
          destruct (Z.leb_spec (zlen pre + zlen (t_data t)) (zlen pre + (zlen (t_data t) + zlen (flat_map t_data ts) + zlen post))); [|lia].
          rewrite <- app_assoc. apply firstn_skipn_app.
        - pose proof (zlen_nonneg (t_data t)). destruct (t_data t) as [|x l]; [reflexivity|]. rewrite zlen_cons in *. pose proof (zlen_nonneg l). lia. }
      fold key0.
      set (ex := match aget key2_eqb m key0 with Some e => e | None => cbinfo_zero end).
      match goal with |- context [gather_incls (aset key2_eqb m key0 ?e) _ _ _ _ _ _] => set (ex' := e) end.
      assert (Hobs : obs (Some ex') = obs_add (obs (aget key2_eqb m key0)) t).
      { unfold obs_add. rewrite Einc. unfold ex', obs. cbn [ci_data ci_passes]. fold cbData. rewrite Hcb.
        unfold ex. destruct (aget key2_eqb m key0) as [e|]; cbn [fst snd cbinfo_zero ci_data ci_passes].
        - f_equal. destruct (Z.ltb_spec 0 (zlen (ci_data e))); [reflexivity|].
          pose proof (zlen_nonneg (ci_data e)). destruct (ci_data e) as [|x l]; [reflexivity|]. rewrite zlen_cons in *. pose proof (zlen_nonneg l). lia.
        - change (zlen (@nil Z)) with 0. cbn. f_equal. }
      replace (pre ++ (t_data t ++ flat_map t_data ts) ++ post) with ((pre ++ t_data t) ++ flat_map t_data ts ++ post)
        by (rewrite <- !app_assoc; reflexivity).
      replace (zlen pre + zlen (t_data t)) with (zlen (pre ++ t_data t)) by (rewrite zlen_app; reflexivity).
      destruct (IH (aset key2_eqb m key0 ex') r cbOrder (cbIdx + 1) (pre ++ t_data t) post Hwf' Hnd ltac:(lia) ltac:(lia))
        as [IH1 IH2].
      split.
      * intros j t' Hj. destruct j as [|j]; cbn [nth_error] in Hj.
        -- inversion Hj; subst t'. change (Z.of_nat 0) with 0. rewrite Z.add_0_r. fold key0.
           rewrite IH2 by (intros j Hj' E; apply (Hkeys j Hj'); symmetry; exact E).
           rewrite aget2_aset_same. exact Hobs.
        -- replace (cbIdx + Z.of_nat (S j)) with (cbIdx + 1 + Z.of_nat j) by lia.
           rewrite (IH1 j t' Hj). rewrite aget2_aset_other; [reflexivity|].
           intros E. apply (Hkeys (Z.of_nat j)); [|symmetry; exact E].
           assert (Hlt : (j < length ts)%nat) by (apply nth_error_Some; congruence).
           unfold zlen. lia.
      * intros key Hkey0.
        assert (Hkey : forall j, 0 <= j < zlen ts + 1 -> key <> (r, znth cbOrder (cbIdx + j) 0))
          by (intros j Hj; apply Hkey0; rewrite zlen_cons; exact Hj).
        rewrite IH2.
        -- apply aget2_aset_other. intros E. apply (Hkey 0 ltac:(lia)). rewrite Z.add_0_r. symmetry. exact E.
        -- intros j Hj. replace (cbIdx + 1 + j) with (cbIdx + (j + 1)) by lia. apply Hkey. lia.
    + (* not included: nothing happens for this block *)
      rewrite (Hw2 eq_refl). cbn [app].
      destruct (IH m r cbOrder (cbIdx + 1) pre post Hwf' Hnd ltac:(lia) ltac:(lia)) as [IH1 IH2].
      split.
      * intros j t' Hj. destruct j as [|j]; cbn [nth_error] in Hj.
        -- inversion Hj; subst t'. change (Z.of_nat 0) with 0. rewrite Z.add_0_r. fold key0.
           rewrite IH2 by (intros j Hj' E; apply (Hkeys j Hj'); symmetry; exact E).
           unfold obs_add. rewrite Einc. reflexivity.
        -- replace (cbIdx + Z.of_nat (S j)) with (cbIdx + 1 + Z.of_nat j) by lia. apply (IH1 j t' Hj).
      * intros key Hkey0.
        assert (Hkey : forall j, 0 <= j < zlen ts + 1 -> key <> (r, znth cbOrder (cbIdx + j) 0))
          by (intros j Hj; apply Hkey0; rewrite zlen_cons; exact Hj).
        apply IH2. intros j Hj. replace (cbIdx + 1 + j) with (cbIdx + (j + 1)) by lia. apply Hkey. lia.
Qed.

(* ---------- all packets of a component ---------- *)

Definition dp_wf (dp : dpacket) : Prop :=
  Forall trip_wf (dp_incls dp) /\ dp_body dp = flat_map t_data (dp_incls dp).

(* the contribution of the packets of cell k to its block number j, in packet order *)
Fixpoint total (k : key3) (j : nat) (dps : list dpacket) (o : list Z * Z) : list Z * Z :=
  match dps with
  | [] => o
  | dp :: rest =>
    total k j rest (if key3_eqb (item_key (dp_item dp)) k
                    then match nth_error (dp_incls dp) j with Some t => obs_add o t | None => o end
                    else o)
  end.

(* gather_delivers: for the cell k = (comp, r, p) whose blocks have the global indices cbOrder,
   provided no other packet of the component writes the same (resolution, index) keys, the
   entry of block j holds the concatenation of its contributions and the sum of its passes. *)
Theorem gather_delivers : forall comp order dps m r p cbOrder j,
  order r p = Some cbOrder -> NoDup cbOrder -> (j < length cbOrder)%nat ->
  Forall dp_wf dps ->
  (forall dp, In dp dps -> item_key (dp_item dp) = (comp, r, p) -> zlen (dp_incls dp) <= zlen cbOrder) ->
  (* packets of other cells of this component use other keys *)
  (forall dp l' r' c' p' ord, In dp dps -> dp_item dp = (l', r', c', p') -> c' = comp -> (r', p') <> (r, p) ->
     order r' p' = Some ord ->
     zlen (dp_incls dp) <= zlen ord /\ NoDup ord /\
     forall i, 0 <= i < zlen ord -> (r', znth ord i 0) <> (r, znth cbOrder (Z.of_nat j) 0)) ->
  obs (aget key2_eqb (gather comp order m dps) (r, znth cbOrder (Z.of_nat j) 0)) =
  total (comp, r, p) j dps (obs (aget key2_eqb m (r, znth cbOrder (Z.of_nat j) 0))).
Proof.
  intros comp order dps. induction dps as [|dp dps IH]; intros m r p cbOrder j Ho Hnd Hj Hwf Hlen Hoth.
  - reflexivity.
  - pose proof (Forall_inv Hwf) as [Hw Hb]. pose proof (Forall_inv_tail Hwf) as Hwf'.
    cbn [gather total]. destruct (dp_item dp) as [[[l' r'] c'] p'] eqn:Eit. cbn [item_key].
    assert (IHa : forall m1, obs (aget key2_eqb (gather comp order m1 dps) (r, znth cbOrder (Z.of_nat j) 0)) =
                        total (comp, r, p) j dps (obs (aget key2_eqb m1 (r, znth cbOrder (Z.of_nat j) 0)))).
    { intros m1. apply (IH m1 r p cbOrder j Ho Hnd Hj Hwf').
      - intros dp0 Hin. apply Hlen. right. exact Hin.
      - intros dp0 l0 r0 c0 p0 ord Hin. apply Hoth. right. exact Hin. }
    destruct (Z.eqb_spec c' comp) as [->|Hc]; cbn [negb].
    2:{ rewrite key3_eqb_neq by congruence. apply IHa. }
    destruct (key3_eqb (comp, r', p') (comp, r, p)) eqn:Ek.
    + apply key3_eqb_eq in Ek. assert (r' = r /\ p' = p) as [-> ->] by (split; congruence).
      rewrite Ho. rewrite IHa. f_equal.
      assert (Hl : zlen (dp_incls dp) <= zlen cbOrder) by (apply Hlen; [left; reflexivity | rewrite Eit; reflexivity]).
      rewrite Hb.
      destruct (gather_incls_spec (dp_incls dp) m r cbOrder 0 [] [] Hw Hnd ltac:(lia) ltac:(unfold trip; lia)) as [G1 G2].
      cbn [app] in G1, G2. rewrite app_nil_r in G1, G2. change (zlen (@nil Z)) with 0 in G1, G2.
      destruct (nth_error (dp_incls dp) j) as [t|] eqn:En.
      * specialize (G1 j t En). rewrite Z.add_0_l in G1. exact G1.
      * rewrite G2; [reflexivity|]. intros i Hi E.
        assert (E2 : znth cbOrder (Z.of_nat j) 0 = znth cbOrder (0 + i) 0) by congruence.
        revert E2. apply nth_error_None in En. unfold trip in *. unfold zlen in *.
        apply znth_nodup; try assumption; unfold zlen; lia.
    + assert (Hne : (r', p') <> (r, p)).
      { intros E. assert (r' = r /\ p' = p) as [-> ->] by (split; congruence). rewrite key3_eqb_refl in Ek. discriminate. }
      destruct (order r' p') as [ord|] eqn:Eo; [|apply IHa].
      rewrite IHa. f_equal.
      destruct (Hoth dp l' r' comp p' ord ltac:(left; reflexivity) Eit eq_refl Hne Eo) as [Hl2 [Hnd2 Hdisj]].
      rewrite Hb.
      destruct (gather_incls_spec (dp_incls dp) m r' ord 0 [] [] Hw Hnd2 ltac:(lia) ltac:(unfold trip; lia)) as [_ G2].
      cbn [app] in G2. rewrite app_nil_r in G2. change (zlen (@nil Z)) with 0 in G2.
      rewrite G2; [reflexivity|]. intros i Hi E. apply (Hdisj (0 + i)); [unfold trip in *; lia|]. symmetry. exact E.
Qed.

(* ---------- from the encoder's packets to the accumulated blocks ---------- *)

Lemma enc_items_body : forall items cells eps cells', enc_items cells items = Ok (eps, cells') ->
  Forall (fun ep => ep_body ep = packet_body (ep_incls ep)) eps.
Proof.
  induction items as [|[[[l r] c] p] items IH]; intros cells eps cells' H; cbn [enc_items] in H.
  - apply ok_inj in H. assert (eps = []) by congruence. subst. constructor.
  - destruct (aget key3_eqb cells (c, r, p)) as [[|b0 bl0]|]; try (eapply IH; exact H).
    destruct (enc_packet (b0 :: bl0) l r) as [[[[hdr body] incs] bands']| | |] eqn:Ep; cbn [obind] in H; try discriminate.
    destruct (enc_items _ items) as [[eps2 cells2]| | |] eqn:E2; cbn [obind] in H; try discriminate.
    apply ok_inj in H. cbn [fst snd] in H.
    assert (eps = {| ep_item := (l, r, c, p); ep_header := hdr; ep_body := body; ep_incls := incs |} :: eps2) by congruence.
    subst eps. constructor; [|eapply IH; exact E2]. cbn [ep_body ep_incls].
    unfold enc_packet in Ep. destruct (enc_header _ l) as [[[h i] u]| | |]; cbn [obind] in Ep; try discriminate.
    apply ok_inj in Ep. assert (body = packet_body i /\ incs = i) as [-> ->] by (split; congruence). reflexivity.
Qed.

Lemma pktmatch_wf : forall ep dp, PktMatch ep dp -> ep_body ep = packet_body (ep_incls ep) -> dp_wf dp.
Proof.
  intros ep dp [_ [HM Hb]] Hbody. unfold dp_wf. rewrite Hb, Hbody. clear Hb Hbody.
  unfold packet_body. induction HM as [|e d es ds [H1 [H2 H3]] _ [IH1 IH2]]; [split; [constructor | reflexivity]|].
  split.
  - constructor; [|exact IH1]. unfold trip_wf, t_inc, t_data. rewrite H1. split.
    + intros Hi. destruct (H2 Hi) as [_ [A B]]. rewrite B. exact A.
    + exact H3.
  - cbn [flat_map]. rewrite IH2. f_equal. unfold t_data.
    destruct (ei_included e) eqn:Ei; [destruct (H2 eq_refl) as [_ [_ B]]; symmetry; exact B | symmetry; apply H3; reflexivity].
Qed.

(* the same totals, read off the encoder's packets *)
Fixpoint total_e (k : key3) (j : nat) (eps : list epacket) (o : list Z * Z) : list Z * Z :=
  match eps with
  | [] => o
  | ep :: rest =>
    total_e k j rest (if key3_eqb (item_key (ep_item ep)) k
                      then match nth_error (ep_incls ep) j with
                           | Some e => if ei_included e then (fst o ++ ei_data e, snd o + ei_np e) else o
                           | None => o end
                      else o)
  end.

Lemma total_match : forall eps dps k j o, Forall2 PktMatch eps dps -> total k j dps o = total_e k j eps o.
Proof.
  intros eps dps k j o H. revert o. induction H as [|ep dp eps dps [Hit [HM _]] _ IH]; intros o; [reflexivity|].
  cbn [total total_e]. rewrite Hit. rewrite IH. f_equal.
  destruct (key3_eqb (item_key (ep_item ep)) k); [|reflexivity].
  clear - HM. revert j. induction HM as [|e d es ds [H1 [H2 H3]] _ IHm]; intros j; [destruct j; reflexivity|].
  destruct j as [|j]; cbn [nth_error]; [|apply IHm].
  unfold obs_add, t_inc, t_data, t_np. rewrite H1. destruct (ei_included e); [|reflexivity].
  destruct (H2 eq_refl) as [A [_ B]]. rewrite A, B. reflexivity.
Qed.
