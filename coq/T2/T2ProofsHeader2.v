(* C04 (t2): packet headers round trip.  Part 2: the code-block loop of one band, the SetValue
   preparation of a layer, the band loop, the whole header of one layer, all layers. *)
From V Require Import Common.Base Framing.FrmWriters T2.T2Bio T2.T2TagTree T2.T2Header J2KGeo.GeoLayers
  T2.T2ProofsBio T2.T2ProofsCodes T2.T2ProofsStore T2.T2ProofsTagTree T2.T2ProofsTagTree2 T2.T2ProofsSafe
  T2.T2ProofsHeader.

Definition pos_of (b : eblock) : Z * Z := (eb_cbx b, eb_cby b).
Definition idx_of (w : Z) (b : eblock) : Z := eb_cby b * w + eb_cbx b.
Definition in_grid (w h : Z) (b : eblock) : Prop := 0 <= eb_cbx b < w /\ 0 <= eb_cby b < h.

Lemma in_grid_range : forall t w h b, tt_w t = w -> tt_h t = h -> in_grid w h b ->
  tt_in_range t (eb_cbx b) (eb_cby b) = true.
Proof.
  intros t w h b Hw Hh [[A B] [C D]]. unfold tt_in_range. rewrite Hw, Hh.
  apply andb_true_intro; split; [apply andb_true_intro; split; [apply andb_true_intro; split|]|];
    try apply Z.leb_le; try apply Z.ltb_lt; lia.
Qed.

Lemma idx_inj : forall w h a b, in_grid w h a -> in_grid w h b -> idx_of w a = idx_of w b -> pos_of a = pos_of b.
Proof.
  intros w h a b [[A1 A2] [A3 A4]] [[B1 B2] [B3 B4]] E. unfold idx_of in E. unfold pos_of.
  assert (eb_cby a = eb_cby b) by nia. assert (eb_cbx a = eb_cbx b) by nia. congruence.
Qed.

Lemma nth_opt_upd_same : forall {A} (l : list A) i v, 0 <= i < zlen l -> nth_opt (upd_z l i v) i = Some v.
Proof.
  intros A l i v Hi. unfold nth_opt, upd_z. destruct (Z.ltb_spec i 0); [lia|].
  apply nth_error_upd_same. unfold zlen in Hi. lia.
Qed.

Lemma nth_opt_upd_other : forall {A} (l : list A) i j v, i <> j -> nth_opt (upd_z l i v) j = nth_opt l j.
Proof.
  intros A l i j v Hne. unfold nth_opt, upd_z. destruct (Z.ltb_spec j 0); [reflexivity|].
  destruct (Z.ltb_spec i 0); [reflexivity|]. apply nth_error_upd_other. lia.
Qed.

Lemma nth_opt_some_lt : forall {A} (l : list A) i a, nth_opt l i = Some a -> 0 <= i < zlen l.
Proof.
  intros A l i a H. unfold nth_opt in H. destruct (Z.ltb_spec i 0); [discriminate|].
  assert (Hn : nth_error l (Z.to_nat i) <> None) by congruence. apply nth_error_Some in Hn. unfold zlen. lia.
Qed.

(* static facts survive the state updates *)
Lemma same_static_fields : forall b b', same_static b b' ->
  eb_cbx b' = eb_cbx b /\ eb_cby b' = eb_cby b /\ eb_zbp b' = eb_zbp b /\
  (forall l, contrib b' l = contrib b l) /\ block_pass_lens b' = block_pass_lens b /\
  block_terms b' = block_terms b /\ eb_termall b' = eb_termall b /\ eb_lp b' = eb_lp b /\ eb_npt b' = eb_npt b.
Proof. intros b b' H. unfold same_static in H. rewrite H. cbn. repeat split; reflexivity. Qed.

Lemma layer_ok_static : forall t b b' l, same_static b b' -> block_layer_ok t b l -> block_layer_ok t b' l.
Proof.
  intros t b b' l Hs H. unfold same_static in Hs. rewrite Hs. exact H.
Qed.

Lemma pos_of_static : forall b b', same_static b b' -> pos_of b' = pos_of b.
Proof. intros b b' H. destruct (same_static_fields b b' H) as [A [B _]]. unfold pos_of. congruence. Qed.

(* ---------- the code-block loop of one band ---------- *)

Definition leaf_facts (l : Z) (it zt : ttree) (b : eblock) : Prop :=
  eb_included b = false ->
    nu it (leaf_of it b) = negb (b_inc b l) /\ (b_inc b l = true -> nv it (leaf_of it b) = l) /\
    nu zt (leaf_of zt b) = false /\ nv zt (leaf_of zt b) = eb_zbp b.

Definition blk_pre (termAll : bool) (l w h : Z) (it zt : ttree) (sts : list dblock) (b : eblock) : Prop :=
  in_grid w h b /\ 0 <= eb_zbp b < 32 /\ block_layer_ok termAll b l /\
  (exists st, nth_opt sts (idx_of w b) = Some st /\ BlkRel b st) /\ leaf_facts l it zt b.

Definition blk_post (l w : Z) (sts' : list dblock) (b b' : eblock) : Prop :=
  same_static b b' /\ eb_included b' = eb_included b || b_inc b l /\
  exists st', nth_opt sts' (idx_of w b) = Some st' /\ BlkRel b' st'.

Lemma leaf_of_geom : forall t t' b, same_geom t t' -> leaf_of t' b = leaf_of t b.
Proof. intros t t' b [G1 _]. unfold leaf_of. rewrite G1. reflexivity. Qed.

Lemma blocks_sync : forall termAll l w h bl it zt itd ztd sts tI tZ bs incs bl' it' zt' rest r more,
  TTInv it itd tI -> tI <= l + 1 -> TTInv zt ztd tZ ->
  tt_w it = w -> tt_h it = h -> tt_w zt = w -> tt_h zt = h -> zlen sts = w * h ->
  NoDup (map pos_of bl) -> Forall (blk_pre termAll l w h it zt sts) bl ->
  enc_blocks it zt bl l = Ok (bs, incs, bl', it', zt') -> BitsAt rest r (bs ++ more) ->
  exists itd' ztd' sts' r',
    dec_positions r w h itd ztd sts (map pos_of bl) l termAll =
      Ok (map (fun b => expect_dincl termAll b l) bl, itd', ztd', sts', r') /\
    BitsAt rest r' more /\ incs = map (fun b => expect_eincl b l) bl /\
    TTInv it' itd' (l + 1) /\ (exists tZ', TTInv zt' ztd' tZ') /\
    tt_nodes it' = tt_nodes it /\ tt_nodes zt' = tt_nodes zt /\
    tt_unset it' = tt_unset it /\ tt_unset zt' = tt_unset zt /\
    same_geom it it' /\ same_geom zt zt' /\ zlen sts' = w * h /\
    (forall i, (forall b, In b bl -> idx_of w b <> i) -> nth_opt sts' i = nth_opt sts i) /\
    Forall2 (blk_post l w sts') bl bl'.
Proof.
  intros termAll l w h bl. induction bl as [|b bl IH];
    intros it zt itd ztd sts tI tZ bs incs bl' it' zt' rest r more HTi HtI HTz Hwi Hhi Hwz Hhz Hlen Hnd Hpre He HB.
  - cbn [enc_blocks] in He. apply ok_inj in He.
    assert (bs = [] /\ incs = [] /\ bl' = [] /\ it' = it /\ zt' = zt) as [-> [-> [-> [-> ->]]]]
      by (repeat split; congruence).
    cbn [app] in HB. exists itd, ztd, sts, r. cbn [map dec_positions].
    split; [reflexivity|]. split; [exact HB|]. split; [reflexivity|].
    split; [apply (TTInv_weaken it itd tI); assumption|]. split; [exists tZ; exact HTz|].
    split; [reflexivity|]. split; [reflexivity|]. split; [reflexivity|]. split; [reflexivity|].
    split; [apply same_geom_refl; apply wf_same_shapes; apply HTi|].
    split; [apply same_geom_refl; apply wf_same_shapes; apply HTz|].
    split; [exact Hlen|]. split; [intros; reflexivity | constructor].
  - cbn [enc_blocks] in He.
    destruct (enc_block it zt b l) as [[[[[bs1 ei] b1] it1] zt1]| | |] eqn:E1; cbn [obind] in He; try discriminate.
    destruct (enc_blocks it1 zt1 bl l) as [[[[[bs2 incs2] bl2] it2] zt2]| | |] eqn:E2; cbn [obind] in He; try discriminate.
    apply ok_inj in He.
    assert (bs = bs1 ++ bs2 /\ incs = ei :: incs2 /\ bl' = b1 :: bl2 /\ it' = it2 /\ zt' = zt2)
      as [-> [-> [-> [-> ->]]]] by (repeat split; congruence).
    pose proof (Forall_inv Hpre) as Hb. pose proof (Forall_inv_tail Hpre) as Hpre'.
    destruct Hb as [Hgrid [Hzbp [Hok [[st [Est HR]] Hleaf]]]].
    cbn [map] in Hnd. apply NoDup_cons_iff in Hnd as [Hnotin Hnd'].
    rewrite <- app_assoc in HB.
    destruct (block_sync termAll it zt itd ztd b st l tI tZ bs1 ei b1 it1 zt1 rest r (bs2 ++ more)
                Hzbp Hok HTi HTz (in_grid_range it w h b Hwi Hhi Hgrid) (in_grid_range zt w h b Hwz Hhz Hgrid)
                Hleaf HR E1 HB)
      as [st1 [itd1 [ztd1 [r1 [Ed1 [HB1 [Hei [HTi1 [[tZ1 HTz1] [Hn1 [Hnz1 [Hu1 [Huz1 [Hg1 [Hgz1 [HR1 [Hst1 Hinc1]]]]]]]]]]]]]]]]].
    assert (Hidx : 0 <= idx_of w b < zlen sts) by (apply (nth_opt_some_lt sts _ st Est)).
    set (sts1 := upd_z sts (idx_of w b) st1).
    assert (Hother : forall c, In c bl -> in_grid w h c -> idx_of w c <> idx_of w b).
    { intros c Hc Hgc E. apply Hnotin. rewrite <- (idx_inj w h c b Hgc Hgrid E). apply in_map. exact Hc. }
    assert (Hnv1 : forall i, nv it1 i = nv it i) by (intros i; unfold nv; rewrite Hn1; reflexivity).
    assert (Hnu1 : forall i, nu it1 i = nu it i) by (intros i; unfold nu; rewrite Hu1; reflexivity).
    assert (Hnvz1 : forall i, nv zt1 i = nv zt i) by (intros i; unfold nv; rewrite Hnz1; reflexivity).
    assert (Hnuz1 : forall i, nu zt1 i = nu zt i) by (intros i; unfold nu; rewrite Huz1; reflexivity).
    destruct (IH it1 zt1 itd1 ztd1 sts1 (Z.max tI (l + 1)) tZ1 bs2 incs2 bl2 it2 zt2 rest r1 more HTi1
                ltac:(lia) HTz1) as
      [itd2 [ztd2 [sts2 [r2 [Ed2 [HB2 [Hincs2 [HTi2 [HTz2 [Hn2 [Hnz2 [Hu2 [Huz2 [Hg2 [Hgz2 [Hlen2 [Hfr2 Hpost2]]]]]]]]]]]]]]]]];
      try assumption.
    + destruct Hg1 as [G _]. congruence.
    + destruct Hg1 as [_ [G _]]. congruence.
    + destruct Hgz1 as [G _]. congruence.
    + destruct Hgz1 as [_ [G _]]. congruence.
    + unfold sts1. rewrite upd_z_len. exact Hlen.
    + apply Forall_forall. intros c Hc. rewrite Forall_forall in Hpre'.
      destruct (Hpre' c Hc) as [Hgc [Hzc [Hokc [[stc [Estc HRc]] Hleafc]]]].
      split; [exact Hgc|]. split; [exact Hzc|]. split; [exact Hokc|]. split.
      * exists stc. split; [|exact HRc]. unfold sts1. rewrite nth_opt_upd_other; [exact Estc|].
        intros E. apply (Hother c Hc Hgc). symmetry. exact E.
      * unfold leaf_facts. rewrite (leaf_of_geom it it1 c Hg1), (leaf_of_geom zt zt1 c Hgz1).
        rewrite Hnv1, Hnu1, Hnvz1, Hnuz1. exact Hleafc.
    + exists itd2, ztd2, sts2, r2.
      split.
      { cbn [map dec_positions]. unfold pos_of at 1. destruct Hgrid as [[A1 A2] [A3 A4]].
        destruct (Z.ltb_spec (eb_cbx b) 0); [lia|]. destruct (Z.geb_spec (eb_cbx b) w); [lia|].
        destruct (Z.ltb_spec (eb_cby b) 0); [lia|]. destruct (Z.geb_spec (eb_cby b) h); [lia|]. cbn [orb].
        fold (idx_of w b). rewrite Est. rewrite Ed1. cbn [obind]. fold sts1. rewrite Ed2. cbn [obind]. reflexivity. }
      split; [exact HB2|]. split; [rewrite Hei, Hincs2; reflexivity|]. split; [exact HTi2|]. split; [exact HTz2|].
      split; [congruence|]. split; [congruence|]. split; [congruence|]. split; [congruence|].
      split; [apply (same_geom_trans it it1 it2); assumption|].
      split; [apply (same_geom_trans zt zt1 zt2); assumption|].
      split; [exact Hlen2|].
      split.
      { intros i Hi. rewrite Hfr2 by (intros c Hc; apply Hi; right; exact Hc).
        unfold sts1. apply nth_opt_upd_other. apply Hi. left. reflexivity. }
      constructor; [|exact Hpost2].
      split; [exact Hst1|]. split; [exact Hinc1|]. exists st1. split; [|exact HR1].
      rewrite Hfr2.
      * unfold sts1. apply nth_opt_upd_same. exact Hidx.
      * intros c Hc. rewrite Forall_forall in Hpre'. destruct (Hpre' c Hc) as [Hgc _]. apply (Hother c Hc Hgc).
Qed.

(* ---------- SetValue preparation of a layer ---------- *)

(* state of the two encoder trees before the preparation: blocks not yet included have an
   unset inclusion leaf; their zero-bit-plane leaf is unset at layer 0 and holds the value later *)
Definition pre_leaf (l : Z) (it zt : ttree) (b : eblock) : Prop :=
  eb_included b = false ->
    nu it (leaf_of it b) = true /\ (l = 0 -> nu zt (leaf_of zt b) = true) /\
    (l <> 0 -> nu zt (leaf_of zt b) = false /\ nv zt (leaf_of zt b) = eb_zbp b).

Lemma prepare_values_spec : forall l w h bl it zt itd ztd tZ,
  0 <= l -> TTInv it itd l -> TTInv zt ztd tZ -> (l = 0 -> tZ = 0) ->
  tt_w it = w -> tt_h it = h -> tt_w zt = w -> tt_h zt = h ->
  NoDup (map pos_of bl) -> Forall (fun b => in_grid w h b /\ 0 <= eb_zbp b /\ pre_leaf l it zt b) bl ->
  let it' := fst (prepare_values bl l it zt) in
  let zt' := snd (prepare_values bl l it zt) in
  TTInv it' itd l /\ TTInv zt' ztd tZ /\ same_geom it it' /\ same_geom zt zt' /\
  (forall x y, tt_in_range it x y = true -> ~ In (x, y) (map pos_of bl) ->
     nv it' (0, y * w + x) = nv it (0, y * w + x) /\ nu it' (0, y * w + x) = nu it (0, y * w + x) /\
     nv zt' (0, y * w + x) = nv zt (0, y * w + x) /\ nu zt' (0, y * w + x) = nu zt (0, y * w + x)) /\
  Forall (leaf_facts l it' zt') bl.
Proof.
  intros l w h bl. induction bl as [|b bl IH]; intros it zt itd ztd tZ Hl HTi HTz HtZ Hwi Hhi Hwz Hhz Hnd Hpre it' zt'.
  - subst it' zt'. cbn [prepare_values fst snd].
    split; [exact HTi|]. split; [exact HTz|].
    split; [apply same_geom_refl; apply wf_same_shapes; apply HTi|].
    split; [apply same_geom_refl; apply wf_same_shapes; apply HTz|].
    split; [intros; repeat split; reflexivity | constructor].
  - subst it' zt'. cbn [prepare_values].
    pose proof (Forall_inv Hpre) as [Hgrid [Hz0 Hpl]]. pose proof (Forall_inv_tail Hpre) as Hpre'.
    cbn [map] in Hnd. apply NoDup_cons_iff in Hnd as [Hnotin Hnd'].
    fold (contrib b l). fold (b_inc b l).
    set (it1 := if negb (eb_included b) && b_inc b l then tt_setvalue it (eb_cbx b) (eb_cby b) l else it).
    set (zt1 := if l =? 0 then tt_setvalue zt (eb_cbx b) (eb_cby b) (eb_zbp b) else zt).
    pose proof (in_grid_range it w h b Hwi Hhi Hgrid) as Hri.
    pose proof (in_grid_range zt w h b Hwz Hhz Hgrid) as Hrz.
    (* the inclusion tree after this block *)
    assert (Hit1 : TTInv it1 itd l /\ same_geom it it1 /\
              (eb_included b = false -> nu it1 (leaf_of it b) = negb (b_inc b l) /\
                                        (b_inc b l = true -> nv it1 (leaf_of it b) = l)) /\
              (forall x1 y1, tt_in_range it x1 y1 = true -> (x1, y1) <> pos_of b ->
                 nv it1 (0, y1 * w + x1) = nv it (0, y1 * w + x1) /\ nu it1 (0, y1 * w + x1) = nu it (0, y1 * w + x1))).
    { unfold it1. destruct (negb (eb_included b) && b_inc b l) eqn:Ec.
      - apply andb_prop in Ec as [Ec1 Ec2]. apply Bool.negb_true_iff in Ec1.
        destruct (tt_setvalue_inv it itd l (eb_cbx b) (eb_cby b) l HTi ltac:(lia)) as [A [B C]].
        destruct (C Hri) as [C1 [C2 C3]]. fold (leaf_of it b) in C1, C2.
        destruct (Hpl Ec1) as [P1 _]. rewrite P1 in C2. cbn [orb] in C2.
        split; [exact A|]. split; [exact B|]. split.
        + intros _. rewrite Ec2. cbn [negb]. split; [exact C1 | intros _; exact C2].
        + intros x1 y1 Hr1 Hne. rewrite <- Hwi. apply C3; [exact Hr1 | exact Hne].
      - split; [exact HTi|]. split; [apply same_geom_refl; apply wf_same_shapes; apply HTi|]. split.
        + intros Hni. rewrite Hni in Ec. cbn [negb andb] in Ec. rewrite Ec. cbn [negb].
          destruct (Hpl Hni) as [P1 _]. split; [exact P1 | discriminate].
        + intros; split; reflexivity. }
    destruct Hit1 as [HTi1 [Hgi1 [Hleaf_i Hfr_i]]].
    assert (Hzt1 : TTInv zt1 ztd tZ /\ same_geom zt zt1 /\
              (eb_included b = false -> nu zt1 (leaf_of zt b) = false /\ nv zt1 (leaf_of zt b) = eb_zbp b) /\
              (forall x1 y1, tt_in_range zt x1 y1 = true -> (x1, y1) <> pos_of b ->
                 nv zt1 (0, y1 * w + x1) = nv zt (0, y1 * w + x1) /\ nu zt1 (0, y1 * w + x1) = nu zt (0, y1 * w + x1))).
    { unfold zt1. destruct (Z.eqb_spec l 0) as [E0|E0].
      - destruct (tt_setvalue_inv zt ztd tZ (eb_cbx b) (eb_cby b) (eb_zbp b) HTz ltac:(rewrite (HtZ E0); lia)) as [A [B C]].
        destruct (C Hrz) as [C1 [C2 C3]]. fold (leaf_of zt b) in C1, C2.
        split; [exact A|]. split; [exact B|]. split.
        + intros Hni. destruct (Hpl Hni) as [_ [P2 _]]. rewrite (P2 E0) in C2. cbn [orb] in C2. split; assumption.
        + intros x1 y1 Hr1 Hne. rewrite <- Hwz. apply C3; [exact Hr1 | exact Hne].
      - split; [exact HTz|]. split; [apply same_geom_refl; apply wf_same_shapes; apply HTz|]. split.
        + intros Hni. destruct (Hpl Hni) as [_ [_ P3]]. apply (P3 E0).
        + intros; split; reflexivity. }
    destruct Hzt1 as [HTz1 [Hgz1 [Hleaf_z Hfr_z]]].
    assert (Hwi1 : tt_w it1 = w /\ tt_h it1 = h) by (destruct Hgi1 as [G1 [G2 _]]; split; congruence).
    assert (Hwz1 : tt_w zt1 = w /\ tt_h zt1 = h) by (destruct Hgz1 as [G1 [G2 _]]; split; congruence).
    destruct Hwi1 as [Hwi1 Hhi1]. destruct Hwz1 as [Hwz1 Hhz1].
    destruct (IH it1 zt1 itd ztd tZ Hl HTi1 HTz1 HtZ Hwi1 Hhi1 Hwz1 Hhz1 Hnd') as [A [B [C [D [F G]]]]].
    { apply Forall_forall. intros c Hc. rewrite Forall_forall in Hpre'. destruct (Hpre' c Hc) as [Hgc [Hzc Hplc]].
      split; [exact Hgc|]. split; [exact Hzc|]. unfold pre_leaf.
      rewrite (leaf_of_geom it it1 c Hgi1), (leaf_of_geom zt zt1 c Hgz1).
      assert (Hne : (eb_cbx c, eb_cby c) <> pos_of b).
      { intros E. apply Hnotin. rewrite <- E. apply (in_map pos_of bl c Hc). }
      unfold leaf_of. rewrite Hwi, Hwz.
      destruct (Hfr_i _ _ (in_grid_range it w h c Hwi Hhi Hgc) Hne) as [I1 I2].
      destruct (Hfr_z _ _ (in_grid_range zt w h c Hwz Hhz Hgc) Hne) as [Z1 Z2].
      rewrite I2, Z1, Z2. unfold pre_leaf, leaf_of in Hplc. rewrite Hwi, Hwz in Hplc. exact Hplc. }
    split; [exact A|]. split; [exact B|].
    split; [apply (same_geom_trans it it1); assumption|]. split; [apply (same_geom_trans zt zt1); assumption|].
    split.
    { intros x y Hr Hnin.
      assert (Hne : (x, y) <> pos_of b) by (intros E; apply Hnin; left; symmetry; exact E).
      assert (Hnin' : ~ In (x, y) (map pos_of bl)) by (intros E; apply Hnin; right; exact E).
      assert (Hr1 : tt_in_range it1 x y = true) by (rewrite (in_range_geom it it1 x y Hgi1); exact Hr).
      destruct (F x y Hr1 Hnin') as [F1 [F2 [F3 F4]]].
      destruct (Hfr_i x y Hr Hne) as [I1 I2].
      assert (Hrz' : tt_in_range zt x y = true).
      { unfold tt_in_range in Hr |- *. rewrite Hwz, Hhz. rewrite Hwi, Hhi in Hr. exact Hr. }
      destruct (Hfr_z x y Hrz' Hne) as [Z1 Z2].
      repeat split; congruence. }
    constructor; [|exact G].
    (* the head block: its leaves are not touched by the rest of the preparation *)
    unfold leaf_facts. intros Hni.
    destruct (F (eb_cbx b) (eb_cby b) ltac:(rewrite (in_range_geom it it1 _ _ Hgi1); exact Hri) Hnotin) as [F1 [F2 [F3 F4]]].
    destruct (Hleaf_i Hni) as [L1 L2]. destruct (Hleaf_z Hni) as [L3 L4].
    assert (Eli : leaf_of (fst (prepare_values bl l it1 zt1)) b = (0, eb_cby b * w + eb_cbx b)).
    { unfold leaf_of. destruct C as [G1 _]. rewrite G1, Hwi1. reflexivity. }
    assert (Elz : leaf_of (snd (prepare_values bl l it1 zt1)) b = (0, eb_cby b * w + eb_cbx b)).
    { unfold leaf_of. destruct D as [G1 _]. rewrite G1, Hwz1. reflexivity. }
    unfold leaf_of in L1, L2, L3, L4. rewrite Hwi in L1, L2. rewrite Hwz in L3, L4.
    rewrite Eli, Elz, F1, F2, F3, F4. split; [exact L1|]. split; [exact L2|]. split; assumption.
Qed.

(* ---------- sorted positions: sort.Slice changes nothing ---------- *)

Definition pos_blt (p q : Z * Z) : bool := if snd p =? snd q then fst p <? fst q else snd p <? snd q.

Fixpoint pos_sorted (l : list (Z * Z)) : Prop :=
  match l with
  | a :: ((b :: _) as r) => pos_blt a b = true /\ pos_sorted r
  | _ => True
  end.

Lemma block_lt_pos : forall a b, block_lt a b = pos_blt (pos_of a) (pos_of b).
Proof. reflexivity. Qed.

Lemma pos_blt_asym : forall p q, pos_blt p q = true -> pos_blt q p = false.
Proof.
  intros [px py] [qx qy]. unfold pos_blt. cbn [fst snd].
  destruct (Z.eqb_spec py qy); destruct (Z.eqb_spec qy py); try congruence; intros H;
    apply Z.ltb_lt in H; apply Z.ltb_ge; lia.
Qed.

Lemma sort_sorted : forall bl, pos_sorted (map pos_of bl) -> sort_blocks bl = bl.
Proof.
  induction bl as [|a bl IH]; intros Hs; [reflexivity|].
  unfold sort_blocks in *. cbn [fold_right].
  assert (Hs' : pos_sorted (map pos_of bl)) by (destruct bl as [|b l]; [exact I | cbn [map pos_sorted] in Hs; tauto]).
  rewrite (IH Hs'). destruct bl as [|b l]; [reflexivity|].
  cbn [insert_block]. cbn [map pos_sorted] in Hs. destruct Hs as [Hab _].
  rewrite block_lt_pos. rewrite (pos_blt_asym _ _ Hab). reflexivity.
Qed.

(* ---------- one band: from the state between layers to the state after the layer ---------- *)

Definition Core (l w h : Z) (it zt itd ztd : ttree) (sts : list dblock) (bl : list eblock) : Prop :=
  TTInv it itd l /\ (exists tZ, TTInv zt ztd tZ /\ (l = 0 -> tZ = 0)) /\
  tt_w it = w /\ tt_h it = h /\ tt_w zt = w /\ tt_h zt = h /\ zlen sts = w * h /\
  Forall (fun b => (exists st, nth_opt sts (idx_of w b) = Some st /\ BlkRel b st) /\ pre_leaf l it zt b) bl.

Definition blocks_static (termAll : bool) (L l w h : Z) (bl : list eblock) : Prop :=
  NoDup (map pos_of bl) /\
  Forall (fun b => in_grid w h b /\ 0 <= eb_zbp b < 32 /\ forall l', l <= l' < L -> block_layer_ok termAll b l') bl.

Lemma forall2_static_pos : forall l w sts bl bl', Forall2 (blk_post l w sts) bl bl' -> map pos_of bl' = map pos_of bl.
Proof.
  intros l w sts bl bl' H. induction H as [|b b' bl bl' [Hs _] _ IH]; [reflexivity|].
  cbn [map]. rewrite IH, (pos_of_static b b' Hs). reflexivity.
Qed.

Lemma core_step : forall termAll L l w h it zt itd ztd sts bl,
  0 <= l < L -> Core l w h it zt itd ztd sts bl -> blocks_static termAll L l w h bl ->
  let it1 := fst (prepare_values bl l it zt) in
  let zt1 := snd (prepare_values bl l it zt) in
  forall bs incs bl' it' zt' rest r more,
  enc_blocks it1 zt1 bl l = Ok (bs, incs, bl', it', zt') -> BitsAt rest r (bs ++ more) ->
  exists itd' ztd' sts' r',
    dec_positions r w h itd ztd sts (map pos_of bl) l termAll =
      Ok (map (fun b => expect_dincl termAll b l) bl, itd', ztd', sts', r') /\
    BitsAt rest r' more /\ incs = map (fun b => expect_eincl b l) bl /\
    Core (l + 1) w h it' zt' itd' ztd' sts' bl' /\ blocks_static termAll L (l + 1) w h bl' /\
    map pos_of bl' = map pos_of bl /\
    (forall l', map (fun b => expect_eincl b l') bl' = map (fun b => expect_eincl b l') bl).
Proof.
  intros termAll L l w h it zt itd ztd sts bl Hl [HTi [[tZ [HTz HtZ]] [Hwi [Hhi [Hwz [Hhz [Hlen Hbl]]]]]]] [Hnd Hst]
         it1 zt1 bs incs bl' it' zt' rest r more He HB.
  destruct (prepare_values_spec l w h bl it zt itd ztd tZ ltac:(lia) HTi HTz HtZ Hwi Hhi Hwz Hhz Hnd)
    as [HTi1 [HTz1 [Hgi1 [Hgz1 [_ Hleaf]]]]].
  { apply Forall_forall. intros b Hb. rewrite Forall_forall in Hst, Hbl.
    destruct (Hst b Hb) as [Hg [Hz _]]. destruct (Hbl b Hb) as [_ Hp]. split; [exact Hg|]. split; [lia | exact Hp]. }
  fold it1 zt1 in HTi1, HTz1, Hgi1, Hgz1, Hleaf.
  assert (Hd1 : tt_w it1 = w /\ tt_h it1 = h /\ tt_w zt1 = w /\ tt_h zt1 = h).
  { destruct Hgi1 as [A [B _]]. destruct Hgz1 as [C [D _]]. repeat split; congruence. }
  destruct Hd1 as [Hwi1 [Hhi1 [Hwz1 Hhz1]]].
  destruct (blocks_sync termAll l w h bl it1 zt1 itd ztd sts l tZ bs incs bl' it' zt' rest r more
              HTi1 ltac:(lia) HTz1 Hwi1 Hhi1 Hwz1 Hhz1 Hlen Hnd) as
    [itd' [ztd' [sts' [r' [Ed [HB' [Hincs [HTi' [[tZ' HTz'] [Hn' [Hnz' [Hu' [Huz' [Hg' [Hgz' [Hlen' [_ Hpost]]]]]]]]]]]]]]]]];
    try assumption.
  { apply Forall_forall. intros b Hb. rewrite Forall_forall in Hst, Hbl, Hleaf.
    destruct (Hst b Hb) as [Hg [Hz Hok]]. destruct (Hbl b Hb) as [Hs _].
    split; [exact Hg|]. split; [exact Hz|]. split; [apply Hok; lia|]. split; [exact Hs | apply Hleaf; exact Hb]. }
  exists itd', ztd', sts', r'. split; [exact Ed|]. split; [exact HB'|]. split; [exact Hincs|].
  pose proof (forall2_static_pos l w sts' bl bl' Hpost) as Hpos.
  split; [|split; [|split; [exact Hpos|]]].
  3:{ intros l'. clear - Hpost. induction Hpost as [|b b' bl bl' [Hs _] _ IH]; [reflexivity|].
      cbn [map]. rewrite IH. f_equal. unfold same_static in Hs. rewrite Hs. reflexivity. }
  - unfold Core. split; [exact HTi'|]. split; [exists tZ'; split; [exact HTz' | lia]|].
    destruct Hg' as [G1 [G2 _]]. destruct Hgz' as [G3 [G4 _]].
    split; [congruence|]. split; [congruence|]. split; [congruence|]. split; [congruence|]. split; [exact Hlen'|].
    assert (Hnv' : forall i, nv it' i = nv it1 i) by (intros i; unfold nv; rewrite Hn'; reflexivity).
    assert (Hnu' : forall i, nu it' i = nu it1 i) by (intros i; unfold nu; rewrite Hu'; reflexivity).
    assert (Hnvz' : forall i, nv zt' i = nv zt1 i) by (intros i; unfold nv; rewrite Hnz'; reflexivity).
    assert (Hnuz' : forall i, nu zt' i = nu zt1 i) by (intros i; unfold nu; rewrite Huz'; reflexivity).
    clearbody it1 zt1. clear - Hpost Hleaf Hnv' Hnu' Hnvz' Hnuz' G1 G3 Hl.
    induction Hpost as [|b b' bl bl' [Hs [Hinc [st' [Est HR]]]] _ IH]; [constructor|].
    pose proof (Forall_inv Hleaf) as Hlb. pose proof (Forall_inv_tail Hleaf) as Hleaf'.
    constructor; [|apply IH; exact Hleaf'].
    destruct (same_static_fields b b' Hs) as [Ex [Ey [Ez _]]].
    split.
    + exists st'. split; [|exact HR]. unfold idx_of. rewrite Ex, Ey. exact Est.
    + intros Hni. rewrite Hinc in Hni. apply Bool.orb_false_iff in Hni as [Hni1 Hni2].
      destruct (Hlb Hni1) as [L1 [_ [L3 L4]]]. rewrite Hni2 in L1. cbn [negb] in L1.
      unfold leaf_of in *. rewrite Ex, Ey, Ez, G1, G3, Hnu', Hnuz', Hnvz'.
      split; [exact L1|]. split; [intros; lia|]. intros _. split; assumption.
  - unfold blocks_static. rewrite Hpos. split; [exact Hnd|].
    clear - Hpost Hst. induction Hpost as [|b b' bl bl' [Hs _] _ IH]; [constructor|].
    pose proof (Forall_inv Hst) as [Hg [Hz Hok]]. pose proof (Forall_inv_tail Hst) as Hst'.
    constructor; [|apply IH; exact Hst'].
    destruct (same_static_fields b b' Hs) as [Ex [Ey [Ez _]]].
    unfold in_grid. rewrite Ex, Ey, Ez. split; [exact Hg|]. split; [exact Hz|].
    intros l' Hl'. apply (layer_ok_static termAll b b' l' Hs). apply Hok. lia.
Qed.

(* ---------- the persistent state of one band on both sides ---------- *)

Definition eff_pos (d : dband) : list (Z * Z) :=
  match dbn_pos d with [] => grid_positions (dbn_w d) (dbn_h d) | p => p end.

Definition band_static (termAll : bool) (L l : Z) (p : eband) (d : dband) : Prop :=
  dbn_w d = ebn_w p /\ dbn_h d = ebn_h p /\ 0 < ebn_w p /\ 0 < ebn_h p /\ ebn_blocks p <> [] /\
  pos_sorted (map pos_of (ebn_blocks p)) /\ eff_pos d = map pos_of (ebn_blocks p) /\
  blocks_static termAll L l (ebn_w p) (ebn_h p) (ebn_blocks p).

(* before layer 0: what ResetState / a new PacketEncoder and a new PacketDecoder hold *)
Definition band_fresh (p : eband) (d : dband) : Prop :=
  ebn_trees p = None /\ dbn_incl d = None /\ dbn_zbp d = None /\ dbn_states d = None /\
  Forall (fun b => eb_included b = false /\ norm_nlb (eb_nlb b) = 3) (ebn_blocks p).

Definition band_running (l : Z) (p : eband) (d : dband) : Prop :=
  exists it zt itd ztd sts,
    ebn_trees p = Some (it, zt) /\ dbn_incl d = Some itd /\ dbn_zbp d = Some ztd /\ dbn_states d = Some sts /\
    Core l (ebn_w p) (ebn_h p) it zt itd ztd sts (ebn_blocks p).

Definition BandRel (termAll : bool) (L l : Z) (p : eband) (d : dband) : Prop :=
  band_static termAll L l p d /\ ((l = 0 /\ band_fresh p d) \/ (0 < l /\ band_running l p d)).

Lemma nth_opt_zrep : forall {A} (x : A) n i, 0 <= i < n -> nth_opt (zrep x n) i = Some x.
Proof.
  intros A x n i Hi. unfold nth_opt, zrep. destruct (Z.ltb_spec i 0); [lia|].
  apply nth_error_repeat. lia.
Qed.

Lemma tt_new_dims : forall w h, 0 < w -> 0 < h -> tt_w (tt_new w h) = w /\ tt_h (tt_new w h) = h.
Proof.
  intros w h Hw Hh. unfold tt_new. cbn [tt_w tt_h].
  destruct (Z.leb_spec w 0); [lia|]. destruct (Z.leb_spec h 0); [lia|]. cbn [orb]. split; reflexivity.
Qed.

Lemma leaf_vid : forall t x y, wf_tree t -> tt_in_range t x y = true -> vid t (0, y * tt_w t + x).
Proof.
  intros t x y Hwf Hr. destruct (wf_leaf_id t x y Hwf) as [rest Hp].
  apply (wf_path_valid t x y _ Hwf Hr). rewrite Hp. left. reflexivity.
Qed.

Lemma prepare_band_unfold : forall p l, ebn_blocks p <> [] ->
  prepare_band p l =
    let blocks := sort_blocks (ebn_blocks p) in
    let fresh := (tt_new (ebn_w p) (ebn_h p), tt_new (ebn_w p) (ebn_h p)) in
    let '(it0, zt0) :=
      match ebn_trees p with
      | None => fresh
      | Some (it, zt) => if negb (tt_w it =? ebn_w p) || negb (tt_h it =? ebn_h p) then fresh else (it, zt)
      end in
    let '(it1, zt1) := if l =? 0 then (tt_reset it0, tt_reset zt0) else (it0, zt0) in
    ebn_with p blocks (Some (prepare_values blocks l it1 zt1)).
Proof. intros p l H. unfold prepare_band. destruct (ebn_blocks p); [congruence | reflexivity]. Qed.

(* both sides, after preparePacketHeaderPrecinct's tree set-up and normalizePacketHeaderBand *)
Lemma band_core : forall termAll L l p d, 0 <= l -> BandRel termAll L l p d ->
  let w := ebn_w p in let h := ebn_h p in
  exists it0 zt0 itd0 ztd0 sts0,
    Core l w h it0 zt0 itd0 ztd0 sts0 (ebn_blocks p) /\
    prepare_band p l = ebn_with p (ebn_blocks p) (Some (prepare_values (ebn_blocks p) l it0 zt0)) /\
    norm_tree (dbn_incl d) w h = itd0 /\ norm_tree (dbn_zbp d) w h = ztd0 /\
    norm_states (dbn_states d) (w * h) = sts0.
Proof.
  intros termAll L l p d Hl0 [[Hdw [Hdh [Hw [Hh [Hne [Hsorted [Heff [Hnd Hst]]]]]]]] Hdyn] w h.
  assert (Hprep : forall it0 zt0,
            (match ebn_trees p with
             | None => (tt_new w h, tt_new w h)
             | Some (it, zt) => if negb (tt_w it =? w) || negb (tt_h it =? h) then (tt_new w h, tt_new w h) else (it, zt)
             end) = (it0, zt0) ->
            prepare_band p l = ebn_with p (ebn_blocks p)
              (Some (prepare_values (ebn_blocks p) l (if l =? 0 then tt_reset it0 else it0)
                                                      (if l =? 0 then tt_reset zt0 else zt0)))).
  { intros it0 zt0 E. rewrite (prepare_band_unfold p l Hne). cbv zeta.
    rewrite (sort_sorted _ Hsorted). fold w h. rewrite E.
    destruct (l =? 0); reflexivity. }
  destruct Hdyn as [[-> [Ht [Hi [Hz [Hs Hbl]]]]] | [Hlpos [it [zt [itd [ztd [sts [Ht [Hi [Hz [Hs HC]]]]]]]]]]].
  - (* layer 0 *)
    destruct (tt_new_dims w h Hw Hh) as [Nw Nh].
    pose proof (tt_new_wf w h) as Nwf. pose proof (wf_same_shapes _ Nwf) as Nss.
    set (te := tt_reset (tt_new w h)).
    assert (Hge : same_geom te (tt_new w h)).
    { apply (same_geom_sym (tt_new w h) te Nss). apply reset_geom. exact Nss. }
    assert (Hfresh : TTInv te (tt_new w h) 0).
    { apply TTInv_fresh; [apply tt_reset_wf; exact Nwf | exact Hge|].
      intros id Hv. assert (Hv' : vid (tt_new w h) id) by (apply (vid_geom te (tt_new w h) id Hge); exact Hv).
      destruct (reset_values (tt_new w h) id Nss Hv') as [A [B C]].
      destruct (new_values w h id Hv') as [D [E _]]. repeat split; assumption. }
    assert (Htw : tt_w te = w /\ tt_h te = h) by (unfold te, tt_reset; cbn [tt_w tt_h]; split; assumption).
    destruct Htw as [Htw Hth].
    exists te, te, (tt_new w h), (tt_new w h), (zrep dblock_init (w * h)).
    split.
    { unfold Core. split; [exact Hfresh|]. split; [exists 0; split; [exact Hfresh | reflexivity]|].
      split; [exact Htw|]. split; [exact Hth|]. split; [exact Htw|]. split; [exact Hth|].
      split; [unfold zlen, zrep; rewrite repeat_length; nia|].
      apply Forall_forall. intros b Hb. rewrite Forall_forall in Hst, Hbl.
      destruct (Hst b Hb) as [Hg _]. destruct (Hbl b Hb) as [Hni Hn3]. split.
      - exists dblock_init. split; [apply nth_opt_zrep; destruct Hg as [[? ?] [? ?]]; unfold idx_of; nia|].
        unfold BlkRel, dblock_init. cbn [db_included db_nlb db_zbp]. rewrite Hni, Hn3.
        split; [reflexivity|]. split; [reflexivity|]. split; [lia|]. split; [discriminate | reflexivity].
      - intros _. pose proof (in_grid_range te w h b Htw Hth Hg) as Hr.
        pose proof (leaf_vid te _ _ (tt_reset_wf _ Nwf) Hr) as Hv. fold (leaf_of te b) in Hv.
        assert (Hv' : vid (tt_new w h) (leaf_of te b)) by (apply (vid_geom te (tt_new w h) _ Hge); exact Hv).
        destruct (reset_values (tt_new w h) _ Nss Hv') as [A _].
        split; [exact A|]. split; [intros _; exact A | intros; lia]. }
    split; [rewrite (Hprep (tt_new w h) (tt_new w h)) by (rewrite Ht; reflexivity); reflexivity|].
    rewrite Hi, Hz, Hs. unfold norm_tree, norm_states. repeat split; reflexivity.
  - (* a later layer *)
    pose proof HC as [HTi [HTz [Hwi [Hhi [Hwz [Hhz [Hlen _]]]]]]].
    exists it, zt, itd, ztd, sts. split; [exact HC|].
    assert (El : (l =? 0) = false) by (apply Z.eqb_neq; lia).
    split.
    { rewrite (Hprep it zt); [rewrite El; reflexivity|]. rewrite Ht. fold w h in Hwi, Hhi.
      rewrite Hwi, Hhi, !Z.eqb_refl. reflexivity. }
    rewrite Hi, Hz, Hs. unfold norm_tree, norm_states.
    assert (Gi : tt_w itd = w /\ tt_h itd = h)
      by (destruct HTi as [_ [[G1 [G2 _]] _]]; split; [rewrite G1; exact Hwi | rewrite G2; exact Hhi]).
    destruct HTz as [tZ [HTz _]].
    assert (Gz : tt_w ztd = w /\ tt_h ztd = h)
      by (destruct HTz as [_ [[G1 [G2 _]] _]]; split; [rewrite G1; exact Hwz | rewrite G2; exact Hhz]).
    destruct Gi as [-> ->]. destruct Gz as [Gz1 Gz2]. rewrite Gz1, Gz2, !Z.eqb_refl. cbn [negb orb].
    fold w h in Hlen. rewrite Hlen, Z.eqb_refl. repeat split; reflexivity.
Qed.
