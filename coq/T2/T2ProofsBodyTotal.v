(* C09 (t2): over a whole tile, the packet bodies the decoder copies add up to at most the tile
   length - for ANY tile bytes, geometry tables, layer/resolution/component counts and style. *)
From V Require Import Common.Base T2.T2Bio T2.T2TagTree T2.T2Header T2.T2Packets
  T2.T2ProofsBio T2.T2ProofsCodes T2.T2ProofsStore T2.T2ProofsSafe T2.T2ProofsSafe2 T2.T2ProofsBodySize.

Definition bodies_total (ps : list dpacket) : Z := fold_right (fun pk acc => zlen (dp_body pk) + acc) 0 ps.

(* one packet, with the strengthened postcondition: body <= off' - offset *)
Lemma dec_packet_body_le : forall data offset geo store termAll strict resilient it,
  0 <= offset -> store_wf store ->
  good (fun res => let '(pk, off', store') := res in
          offset <= off' /\ (offset <= zlen data -> off' <= zlen data) /\ store_wf store' /\
          zlen (dp_body pk) <= off' - offset)
       (dec_packet data offset geo store termAll strict resilient it).
Proof.
  intros data offset geo store termAll strict resilient [[[l r] c] p] Ho Hs. unfold dec_packet.
  destruct (Z.geb_spec offset (zlen data)) as [Hge|Hlt].
  { cbn [good dp_body]. repeat split; try lia; try exact Hs. unfold zlen; cbn; lia. }
  destruct (Z.ltb_spec offset 0); [lia|].
  set (kb := dec_band_states geo store c r p (band_order r)).
  eapply good_bind.
  - apply (packet_parser_no_panic (skipn (Z.to_nat offset) data) l (map snd kb) termAll).
    apply band_states_wf. exact Hs.
  - intros [[[bytesRead present] incs] bands'] [Hbr Hbw].
    rewrite zlen_skipn in Hbr by lia.
    destruct present; cbn [negb].
    + destruct (dec_body data (offset + bytesRead) strict resilient false incs) as [[[incs' off'] partial]| | |] eqn:Eb;
        cbn [obind good].
      * assert (H0 : 0 <= offset + bytesRead) by lia.
        destruct (dec_body_size _ _ _ _ _ _ _ _ _ H0 Eb) as [A [B C]].
        fold (body_bytes incs'). cbn [dp_body].
        split; [lia|]. split; [intros _; apply C; lia|]. split; [apply store_back_wf; assumption|].
        fold (body_bytes incs'). lia.
      * exact I.
      * pose proof (packet_body_no_panic incs data (offset + bytesRead) strict resilient false) as G.
        rewrite Eb in G. apply G. lia.
      * pose proof (packet_body_no_panic incs data (offset + bytesRead) strict resilient false) as G.
        rewrite Eb in G. apply G. lia.
    + cbn [good dp_body]. split; [lia|]. split; [intros _; lia|]. split; [exact Hs|]. unfold zlen; cbn; lia.
Qed.

Lemma dec_items_bodies : forall items data offset geo store termAll strict resilient ps,
  0 <= offset <= zlen data -> store_wf store ->
  dec_items data offset geo store termAll strict resilient items = Ok ps ->
  bodies_total ps <= zlen data - offset.
Proof.
  induction items as [|it items IH]; intros data offset geo store termAll strict resilient ps Ho Hs H; cbn [dec_items] in H.
  - apply ok_inj in H. subst ps. cbn. lia.
  - destruct (offset >=? zlen data); [apply ok_inj in H; subst ps; cbn; lia|].
    pose proof (dec_packet_body_le data offset geo store termAll strict resilient it (proj1 Ho) Hs) as G.
    destruct (dec_packet data offset geo store termAll strict resilient it) as [[[pk off'] store']| | |];
      cbn [obind] in H; try discriminate.
    cbn [good] in G. destruct G as [G1 [G2 [G3 G4]]].
    destruct (dec_items data off' geo store' termAll strict resilient items) as [ps'| | |] eqn:E; cbn [obind] in H; try discriminate.
    apply ok_inj in H. subst ps. cbn [bodies_total fold_right].
    assert (Hb : bodies_total ps' <= zlen data - off').
    { eapply IH; [|exact G3|exact E]. split; [lia|apply G2; lia]. }
    unfold bodies_total in Hb. lia.
Qed.

Theorem packet_decoder_bodies_bounded : forall data order nl nr nc g dpidx geo style strict resilient ps,
  dec_packets data order nl nr nc g dpidx geo style strict resilient = Ok ps ->
  bodies_total ps <= zlen data.
Proof.
  intros data order nl nr nc g dpidx geo style strict resilient ps H. unfold dec_packets in H.
  destruct (prog_seq order nl nr nc dpidx (precinct_position_key g nr)); [|discriminate].
  pose proof (zlen_nonneg data).
  apply dec_items_bodies in H; [lia | lia | intros k c Hk; discriminate].
Qed.
