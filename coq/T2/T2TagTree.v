(* EXTRACT *)
(* JPEG 2000 tier-2 tag trees (jpeg2000/t2/tagtree.go): NewTagTree, SetValue, ResetEncoding /
   Reset, Encode (opj_tgt_encode), Decode (opj_tgt_decode), DecodeInclusion,
   DecodeZeroBitPlanes.

   As in the Go code the tree is a stack of per-level arrays nodes[level][idx], low[level][idx],
   known[level][idx], unset[level][idx] with level 0 = leaves (w x h) and level i = ceil-halved
   i times; the parent of (level, px, py) is (level+1, px/2, py/2) and
   idx = py*levelWidths[level] + px.  unset[..] = the node still holds the reset placeholder
   999 and not a value (inclusion trees carry layer numbers up to 65534).
   (`states` is written by Reset only and read nowhere: not modelled.)

   Index checks.  Every index expression of Encode / Decode is [level][idx] for a node of the
   leaf-to-root stack; the model computes that stack first and reports Panic when one of its
   entries is outside the arrays (tt_valid_id), otherwise it runs the loops with total
   accessors.  Array shapes never change after NewTagTree, so this is the same outcome class
   as checking at each access. *)
From V Require Import Common.Base T2.T2Bio.

Record ttree : Type := {
  tt_w : Z; tt_h : Z;
  tt_lw : list Z; tt_lh : list Z;                  (* levelWidths / levelHeights *)
  tt_nodes : list (list Z); tt_low : list (list Z); tt_known : list (list bool);
  tt_unset : list (list bool)
}.

(* ---------- two-level arrays ---------- *)

Definition get2 {A} (l : list (list A)) (lv idx : Z) (d : A) : A := znth (znth l lv []) idx d.

Fixpoint upd_nat {A} (l : list A) (i : nat) (v : A) : list A :=
  match l, i with
  | [], _ => []
  | _ :: t, O => v :: t
  | x :: t, S k => x :: upd_nat t k v
  end.

Definition set2 {A} (l : list (list A)) (lv idx : Z) (v : A) : list (list A) :=
  if (lv <? 0) || (idx <? 0) then l
  else upd_nat l (Z.to_nat lv) (upd_nat (nth (Z.to_nat lv) l []) (Z.to_nat idx) v).

Definition valid2 {A} (l : list (list A)) (lv idx : Z) : bool :=
  (0 <=? lv) && (lv <? zlen l) && (0 <=? idx) && (idx <? zlen (znth l lv [])).

(* ---------- NewTagTree ---------- *)

(* levels: for w > 1 || h > 1 { levels++; w = (w+1)/2; h = (h+1)/2 }; levels++.
   A Go int is below 2^63, so 64 entries always reach the 1x1 root. *)
Fixpoint tt_dims (fuel : nat) (w h : Z) : list (Z * Z) :=
  match fuel with
  | O => []
  | S f => (w, h) :: (if (w >? 1) || (h >? 1) then tt_dims f ((w + 1) / 2) ((h + 1) / 2) else [])
  end.

Definition zrep {A} (x : A) (n : Z) : list A := repeat x (Z.to_nat n).

Definition tt_new (w0 h0 : Z) : ttree :=
  let bad := (w0 <=? 0) || (h0 <=? 0) in
  let w := if bad then 1 else w0 in
  let h := if bad then 1 else h0 in
  let dims := tt_dims 64 w h in
  {| tt_w := w; tt_h := h; tt_lw := map fst dims; tt_lh := map snd dims;
     tt_nodes := map (fun d => zrep 999 (fst d * snd d)) dims;
     tt_low := map (fun d => zrep 0 (fst d * snd d)) dims;
     tt_known := map (fun d => zrep false (fst d * snd d)) dims;
     tt_unset := map (fun d => zrep true (fst d * snd d)) dims |}.

(* ResetEncoding (and Reset, which additionally clears `states`): every node 999 and unset,
   low 0, known false *)
Definition tt_reset (t : ttree) : ttree :=
  {| tt_w := tt_w t; tt_h := tt_h t; tt_lw := tt_lw t; tt_lh := tt_lh t;
     tt_nodes := map (map (fun _ => 999)) (tt_nodes t);
     tt_low := map (map (fun _ => 0)) (tt_low t);
     tt_known := map (map (fun _ => false)) (tt_known t);
     tt_unset := map (map (fun _ => true)) (tt_unset t) |}.

(* ---------- the leaf-to-root stack ---------- *)

Fixpoint tt_path_lv (lws : list Z) (level px py : Z) : list (Z * Z) :=
  match lws with
  | [] => []
  | lw :: r => (level, py * lw + px) :: tt_path_lv r (level + 1) (px / 2) (py / 2)
  end.

Definition tt_path (t : ttree) (x y : Z) : list (Z * Z) := tt_path_lv (tt_lw t) 0 x y.

Definition tt_in_range (t : ttree) (x y : Z) : bool :=
  (0 <=? x) && (x <? tt_w t) && (0 <=? y) && (y <? tt_h t).

Definition tt_valid_id (t : ttree) (id : Z * Z) : bool :=
  valid2 (tt_nodes t) (fst id) (snd id) && valid2 (tt_low t) (fst id) (snd id)
  && valid2 (tt_known t) (fst id) (snd id) && valid2 (tt_unset t) (fst id) (snd id).

Definition tt_with (t : ttree) (nodes : list (list Z)) (low : list (list Z)) (known unset : list (list bool))
  : ttree :=
  {| tt_w := tt_w t; tt_h := tt_h t; tt_lw := tt_lw t; tt_lh := tt_lh t;
     tt_nodes := nodes; tt_low := low; tt_known := known; tt_unset := unset |}.

(* ---------- SetValue ---------- *)

(* for level < levels { idx; if idx >= len(nodes[level]) break;
     if unset[level][idx] || nodes[level][idx] > value { nodes[level][idx] = value; unset = false }
     else break; level++; px/=2; py/=2 } *)
Fixpoint tt_setvalue_ids (nodes : list (list Z)) (unset : list (list bool)) (ids : list (Z * Z)) (v : Z)
  : list (list Z) * list (list bool) :=
  match ids with
  | [] => (nodes, unset)
  | (lv, idx) :: r =>
    if idx >=? zlen (znth nodes lv []) then (nodes, unset)
    else if get2 unset lv idx false || (get2 nodes lv idx 0 >? v)
         then tt_setvalue_ids (set2 nodes lv idx v) (set2 unset lv idx false) r v
    else (nodes, unset)
  end.

Definition tt_setvalue (t : ttree) (x y v : Z) : ttree :=
  if tt_in_range t x y
  then let nu := tt_setvalue_ids (tt_nodes t) (tt_unset t) (tt_path t x y) v in
       tt_with t (fst nu) (tt_low t) (tt_known t) (snd nu)
  else t.

(* GetValue *)
Definition tt_getvalue (t : ttree) (x y : Z) : Z :=
  if tt_in_range t x y then
    let idx := y * tt_w t + x in
    if idx >=? zlen (znth (tt_nodes t) 0 []) then 0 else get2 (tt_nodes t) 0 idx 0
  else 0.

(* ---------- Encode ---------- *)

(* for low < threshold { if !unset && low >= node { if !known { WriteBit(1); known = true }; break };
                         WriteBit(0); low++ }
   runs at most threshold - low + 1 times *)
Fixpoint tt_enc_loop (fuel : nat) (low thr v : Z) (u known : bool) : list Z * Z * bool :=
  match fuel with
  | O => ([], low, known)
  | S f =>
    if low <? thr then
      if negb u && (low >=? v) then ((if known then [] else [1]), low, true)
      else let '(bs, l', k') := tt_enc_loop f (low + 1) thr v u known in (0 :: bs, l', k')
    else ([], low, known)
  end.

Definition loop_fuel (low thr : Z) : nat := S (S (Z.to_nat (thr - low))).

(* root to leaf: if low > tt.low[n] { tt.low[n] = low } else { low = tt.low[n] }; loop;
   tt.low[n] = low.  (The first store is overwritten by the last before anything reads it.) *)
Fixpoint tt_enc_nodes (t : ttree) (ids : list (Z * Z)) (low thr : Z) : list Z * ttree :=
  match ids with
  | [] => ([], t)
  | (lv, idx) :: r =>
    let nlow := get2 (tt_low t) lv idx 0 in
    let low1 := if low >? nlow then low else nlow in
    let '(bs, low2, k2) := tt_enc_loop (loop_fuel low1 thr) low1 thr (get2 (tt_nodes t) lv idx 0)
                             (get2 (tt_unset t) lv idx false) (get2 (tt_known t) lv idx false) in
    let t2 := tt_with t (tt_nodes t) (set2 (tt_low t) lv idx low2) (set2 (tt_known t) lv idx k2) (tt_unset t) in
    let '(bs', t3) := tt_enc_nodes t2 r low2 thr in
    (bs ++ bs', t3)
  end.

(* Encode(bw, x, y, threshold): error when (x, y) is outside the leaf grid *)
Definition tt_encode (t : ttree) (x y thr : Z) : outcome (list Z * ttree) :=
  if negb (tt_in_range t x y) then Err else
  let p := tt_path t x y in
  if negb (forallb (tt_valid_id t) p) then Panic else Ok (tt_enc_nodes t (rev p) 0 thr).

(* ---------- Decode ---------- *)

(* for low < threshold && (unset || low < node) { bit := ReadBit();
     if bit != 0 { node = low; unset = false } else { low++ } } *)
Fixpoint tt_dec_loop (fuel : nat) (r : rd) (low thr v : Z) (u : bool) : outcome (Z * Z * bool * rd) :=
  match fuel with
  | O => OutOfFuel
  | S f =>
    if (low <? thr) && (u || (low <? v)) then
      obind (rd_read_bit r) (fun br =>
        if fst br =? 0 then tt_dec_loop f (snd br) (low + 1) thr v u
        else tt_dec_loop f (snd br) low thr low false)
    else Ok (low, v, u, r)
  end.

Fixpoint tt_dec_nodes (t : ttree) (ids : list (Z * Z)) (low thr : Z) (r : rd) : outcome (ttree * rd) :=
  match ids with
  | [] => Ok (t, r)
  | (lv, idx) :: rest =>
    let nlow := get2 (tt_low t) lv idx 0 in
    let low1 := if low >? nlow then low else nlow in
    obind (tt_dec_loop (loop_fuel low1 thr) r low1 thr (get2 (tt_nodes t) lv idx 0)
                       (get2 (tt_unset t) lv idx false)) (fun res =>
      let '(low2, v2, u2, r2) := res in
      let t2 := tt_with t (set2 (tt_nodes t) lv idx v2) (set2 (tt_low t) lv idx low2) (tt_known t)
                        (set2 (tt_unset t) lv idx u2) in
      tt_dec_nodes t2 rest low2 thr r2)
  end.

(* Decode(br, x, y, threshold): the leaf node's value, or the threshold when the leaf is still
   unset and the threshold exceeds the placeholder *)
Definition tt_decode (t : ttree) (r : rd) (x y thr : Z) : outcome (Z * ttree * rd) :=
  if negb (tt_in_range t x y) then Err else
  let p := tt_path t x y in
  if negb (forallb (tt_valid_id t) p) then Panic else
  match p with
  | [] => Panic                                             (* stack[0] of an empty stack *)
  | (llv, lidx) :: _ =>
    obind (tt_dec_nodes t (rev p) 0 thr r) (fun tr =>
      let t' := fst tr in
      let nd := get2 (tt_nodes t') llv lidx 0 in
      Ok ((if get2 (tt_unset t') llv lidx false && (thr >? nd) then thr else nd), t', snd tr))
  end.

(* DecodeInclusion(x, y, currentLayer): value > currentLayer -> (false, -1) else (true, value) *)
Definition tt_decode_inclusion (t : ttree) (r : rd) (x y layer : Z) : outcome (bool * Z * ttree * rd) :=
  obind (tt_decode t r x y (layer + 1)) (fun res =>
    let '(v, t', r') := res in
    if v >? layer then Ok (false, -1, t', r') else Ok (true, v, t', r')).

(* DecodeZeroBitPlanes(x, y): Decode with threshold 32 *)
Definition tt_decode_zbp (t : ttree) (r : rd) (x y : Z) : outcome (Z * ttree * rd) :=
  tt_decode t r x y 32.

(* ---------- drivers for the correspondence run ---------- *)

(* encoder-side operations in call order: SetValue (x, y, v) / Encode (x, y, threshold) /
   ResetEncoding *)
Inductive tt_op : Type :=
| TSet (x y v : Z)
| TEnc (x y thr : Z)
| TReset.

Fixpoint tt_run_enc (t : ttree) (ops : list tt_op) : outcome (list Z * ttree) :=
  match ops with
  | [] => Ok ([], t)
  | TSet x y v :: r => tt_run_enc (tt_setvalue t x y v) r
  | TReset :: r => tt_run_enc (tt_reset t) r
  | TEnc x y thr :: r =>
    obind (tt_encode t x y thr) (fun bt =>
    obind (tt_run_enc (snd bt) r) (fun bt' => Ok (fst bt ++ fst bt', snd bt')))
  end.

(* decoder-side: the Decode calls (x, y, threshold) in order; returns the values *)
Fixpoint tt_run_dec (t : ttree) (r : rd) (qs : list (Z * Z * Z)) : outcome (list Z * ttree * rd) :=
  match qs with
  | [] => Ok ([], t, r)
  | (x, y, thr) :: rest =>
    obind (tt_decode t r x y thr) (fun res =>
      let '(v, t', r') := res in
      obind (tt_run_dec t' r' rest) (fun res' =>
        let '(vs, t'', r'') := res' in Ok (v :: vs, t'', r'')))
  end.
