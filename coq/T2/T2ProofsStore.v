(* C04/C08 (t2): two-level arrays of the tag tree and the geometry of NewTagTree:
   every node of a leaf-to-root stack lies inside the arrays, stacks have one node per level,
   two stacks that meet stay together, SetValue / Encode / Decode never change array shapes. *)
From V Require Import Common.Base T2.T2Bio T2.T2TagTree T2.T2ProofsBio.

(* ---------- upd_nat ---------- *)

Lemma upd_nat_length : forall {A} (l : list A) i v, length (upd_nat l i v) = length l.
Proof.
  induction l as [|x l IH]; intros [|i] v; cbn [upd_nat length]; try reflexivity. rewrite IH. reflexivity.
Qed.

Lemma nth_upd_same : forall {A} (l : list A) i v d, (i < length l)%nat -> nth i (upd_nat l i v) d = v.
Proof.
  induction l as [|x l IH]; intros [|i] v d H; cbn [length] in H; try lia; cbn [upd_nat nth].
  - reflexivity.
  - apply IH. lia.
Qed.

Lemma nth_upd_other : forall {A} (l : list A) i j v d, i <> j -> nth j (upd_nat l i v) d = nth j l d.
Proof.
  induction l as [|x l IH]; intros [|i] [|j] v d H; cbn [upd_nat nth]; try reflexivity; try congruence.
  apply IH. congruence.
Qed.

Lemma nth_error_upd_same : forall {A} (l : list A) i v, (i < length l)%nat ->
  nth_error (upd_nat l i v) i = Some v.
Proof.
  induction l as [|x l IH]; intros [|i] v H; cbn [length] in H; try lia; cbn [upd_nat nth_error].
  - reflexivity.
  - apply IH. lia.
Qed.

Lemma nth_error_upd_other : forall {A} (l : list A) i j v, i <> j ->
  nth_error (upd_nat l i v) j = nth_error l j.
Proof.
  induction l as [|x l IH]; intros [|i] [|j] v H; cbn [upd_nat nth_error]; try reflexivity; try congruence.
  apply IH. congruence.
Qed.

(* ---------- get2 / set2 / valid2 ---------- *)

Definition shape {A} (l : list (list A)) : list nat := map (@length A) l.

Lemma znth_nth : forall {A} (l : list A) i d, 0 <= i -> znth l i d = nth (Z.to_nat i) l d.
Proof. intros A l i d H. unfold znth. destruct (Z.ltb_spec i 0); [lia | reflexivity]. Qed.

Lemma valid2_spec : forall {A} (l : list (list A)) lv idx,
  valid2 l lv idx = true <->
  0 <= lv /\ 0 <= idx /\ (Z.to_nat lv < length l)%nat /\ (Z.to_nat idx < length (nth (Z.to_nat lv) l []))%nat.
Proof.
  intros A l lv idx. unfold valid2, zlen. split.
  - intros H. apply andb_prop in H as [H H4]. apply andb_prop in H as [H H3]. apply andb_prop in H as [H1 H2].
    apply Z.leb_le in H1, H3. apply Z.ltb_lt in H2, H4. rewrite znth_nth in H4 by lia. lia.
  - intros [H1 [H2 [H3 H4]]]. rewrite znth_nth by lia.
    apply andb_true_intro; split; [apply andb_true_intro; split; [apply andb_true_intro; split|]|];
      try apply Z.leb_le; try apply Z.ltb_lt; lia.
Qed.

Lemma valid2_shape : forall {A B} (l : list (list A)) (m : list (list B)) lv idx,
  shape l = shape m -> valid2 l lv idx = valid2 m lv idx.
Proof.
  intros A B l m lv idx H.
  assert (Hn : forall i, length (nth i l []) = length (nth i m [])).
  { intros i. change (length (nth i l [])) with (length (nth i l [])).
    rewrite <- (map_nth (@length A) l [] i), <- (map_nth (@length B) m [] i).
    fold (shape l) (shape m). rewrite H. reflexivity. }
  assert (Hl : length l = length m).
  { unfold shape in H. apply (f_equal (@length nat)) in H. rewrite !map_length in H. exact H. }
  unfold valid2, zlen. rewrite Hl.
  destruct (Z.leb_spec 0 lv); [|reflexivity].
  rewrite !znth_nth by lia. rewrite Hn. reflexivity.
Qed.

Lemma set2_shape : forall {A} (l : list (list A)) lv idx v, shape (set2 l lv idx v) = shape l.
Proof.
  intros A l lv idx v. unfold set2. destruct ((lv <? 0) || (idx <? 0)); [reflexivity|].
  unfold shape. generalize (Z.to_nat lv) as i. generalize (Z.to_nat idx) as j. intros j.
  induction l as [|x l IH]; intros [|i]; cbn [upd_nat map nth]; try reflexivity.
  - rewrite upd_nat_length. reflexivity.
  - f_equal. apply IH.
Qed.

Lemma get2_set2_same : forall {A} (l : list (list A)) lv idx v d, valid2 l lv idx = true ->
  get2 (set2 l lv idx v) lv idx d = v.
Proof.
  intros A l lv idx v d H. apply valid2_spec in H as [H1 [H2 [H3 H4]]].
  unfold get2, set2. destruct (Z.ltb_spec lv 0); [lia|]. destruct (Z.ltb_spec idx 0); [lia|]. cbn [orb].
  rewrite !znth_nth by lia. rewrite nth_upd_same by lia. apply nth_upd_same. lia.
Qed.

Lemma get2_set2_other : forall {A} (l : list (list A)) lv idx lv' idx' v d,
  (lv, idx) <> (lv', idx') -> get2 (set2 l lv idx v) lv' idx' d = get2 l lv' idx' d.
Proof.
  intros A l lv idx lv' idx' v d Hne. unfold get2, set2.
  destruct (Z.ltb_spec lv 0); [reflexivity|]. destruct (Z.ltb_spec idx 0); [reflexivity|]. cbn [orb].
  unfold znth. destruct (Z.ltb_spec lv' 0); [reflexivity|].
  destruct (Z.ltb_spec idx' 0); [reflexivity|].
  destruct (Nat.eq_dec (Z.to_nat lv) (Z.to_nat lv')) as [E|E].
  - assert (lv = lv') by lia. subst lv'.
    destruct (Nat.lt_ge_cases (Z.to_nat lv) (length l)) as [Hl|Hl].
    + rewrite nth_upd_same by lia.
      apply nth_upd_other. intros E2. apply Hne. f_equal. lia.
    + assert (Hid : forall (m : list (list A)) i w, (length m <= i)%nat -> upd_nat m i w = m).
      { induction m as [|y m IHm]; intros [|i] w Hi; cbn [length] in Hi; try lia; cbn [upd_nat]; try reflexivity.
        rewrite IHm by lia. reflexivity. }
      rewrite Hid by lia. reflexivity.
  - rewrite nth_upd_other by exact E. reflexivity.
Qed.

(* ---------- node accessors ---------- *)

Definition nv (t : ttree) (id : Z * Z) : Z := get2 (tt_nodes t) (fst id) (snd id) 0.
Definition nl (t : ttree) (id : Z * Z) : Z := get2 (tt_low t) (fst id) (snd id) 0.
Definition nk (t : ttree) (id : Z * Z) : bool := get2 (tt_known t) (fst id) (snd id) false.
Definition nu (t : ttree) (id : Z * Z) : bool := get2 (tt_unset t) (fst id) (snd id) false.

(* the four arrays have the same shape *)
Definition same_shapes (t : ttree) : Prop :=
  shape (tt_low t) = shape (tt_nodes t) /\ shape (tt_known t) = shape (tt_nodes t) /\
  shape (tt_unset t) = shape (tt_nodes t).

Definition vid (t : ttree) (id : Z * Z) : Prop := valid2 (tt_nodes t) (fst id) (snd id) = true.

Lemma valid_id_vid : forall t id, same_shapes t -> (tt_valid_id t id = true <-> vid t id).
Proof.
  intros t id [H1 [H2 H3]]. unfold tt_valid_id, vid.
  rewrite (valid2_shape (tt_low t) (tt_nodes t)) by exact H1.
  rewrite (valid2_shape (tt_known t) (tt_nodes t)) by exact H2.
  rewrite (valid2_shape (tt_unset t) (tt_nodes t)) by exact H3.
  destruct (valid2 (tt_nodes t) (fst id) (snd id)); cbn; split; auto.
Qed.

(* ---------- geometry of NewTagTree ---------- *)

(* consecutive levels are ceil-halves *)
Fixpoint halving (dims : list (Z * Z)) : Prop :=
  match dims with
  | (w, h) :: (((w', h') :: _) as r) => w' = (w + 1) / 2 /\ h' = (h + 1) / 2 /\ halving r
  | _ => True
  end.

Lemma tt_dims_halving : forall fuel w h, halving (tt_dims fuel w h).
Proof.
  induction fuel as [|f IH]; intros w h; cbn [tt_dims halving]; [exact I|].
  destruct ((w >? 1) || (h >? 1)); [|exact I].
  destruct f as [|f']; [exact I|]. cbn [tt_dims]. split; [reflexivity|]. split; [reflexivity|].
  apply (IH ((w + 1) / 2) ((h + 1) / 2)).
Qed.

(* a tree whose arrays have the sizes of a halving list of level dimensions *)
Definition wf_dims (t : ttree) (dims : list (Z * Z)) : Prop :=
  halving dims /\ tt_lw t = map fst dims /\
  (exists d0 r, dims = d0 :: r /\ fst d0 = tt_w t /\ snd d0 = tt_h t) /\
  1 <= tt_w t /\ 1 <= tt_h t /\
  shape (tt_nodes t) = map (fun d => Z.to_nat (fst d * snd d)) dims /\ same_shapes t.

Definition wf_tree (t : ttree) : Prop := exists dims, wf_dims t dims.

Lemma repeat_shape : forall {A} (x : A) (dims : list (Z * Z)),
  shape (map (fun d => zrep x (fst d * snd d)) dims) = map (fun d => Z.to_nat (fst d * snd d)) dims.
Proof.
  intros A x dims. unfold shape. rewrite map_map. apply map_ext. intros d. unfold zrep. apply repeat_length.
Qed.

Lemma tt_new_wf : forall w h, wf_tree (tt_new w h).
Proof.
  intros w0 h0. unfold tt_new.
  set (bad := (w0 <=? 0) || (h0 <=? 0)).
  set (w := if bad then 1 else w0). set (h := if bad then 1 else h0).
  assert (Hwh : 1 <= w /\ 1 <= h).
  { unfold w, h, bad. destruct (Z.leb_spec w0 0); destruct (Z.leb_spec h0 0); cbn [orb]; lia. }
  exists (tt_dims 64 w h). unfold wf_dims. cbn [tt_w tt_h tt_lw tt_nodes tt_low tt_known tt_unset].
  split; [apply tt_dims_halving|]. split; [reflexivity|].
  split.
  { change 64%nat with (S 63). cbn [tt_dims]. eexists; eexists; split; [reflexivity|]. cbn [fst snd]. split; reflexivity. }
  split; [lia|]. split; [lia|].
  split; [apply repeat_shape|].
  unfold same_shapes. cbn [tt_nodes tt_low tt_known tt_unset]. rewrite !repeat_shape. repeat split; reflexivity.
Qed.

Lemma map_shape : forall {A B} (f : A -> B) (l : list (list A)), shape (map (map f) l) = shape l.
Proof. intros. unfold shape. rewrite map_map. apply map_ext. intros. apply map_length. Qed.

Lemma tt_reset_wf : forall t, wf_tree t -> wf_tree (tt_reset t).
Proof.
  intros t [dims [H1 [H2 [H3 [H4 [H5 [H6 [H7 [H8 H9]]]]]]]]]. exists dims. unfold wf_dims, tt_reset, same_shapes.
  cbn [tt_w tt_h tt_lw tt_nodes tt_low tt_known tt_unset]. rewrite !map_shape.
  repeat split; try assumption; congruence.
Qed.

(* ---------- stacks ---------- *)

Lemma half_lt : forall x w, 0 <= x < w -> 0 <= x / 2 < (w + 1) / 2.
Proof. intros x w H. split; Z.div_mod_to_equations; lia. Qed.

(* every node of the stack is inside a tree with these dims *)
Lemma path_valid : forall dims level px py (nodes : list (list Z)) pre,
  halving dims ->
  (forall d0 r, dims = d0 :: r -> 0 <= px < fst d0 /\ 0 <= py < snd d0) ->
  shape nodes = pre ++ map (fun d => Z.to_nat (fst d * snd d)) dims -> level = Z.of_nat (length pre) ->
  forall id, In id (tt_path_lv (map fst dims) level px py) -> valid2 nodes (fst id) (snd id) = true.
Proof.
  induction dims as [|[w h] dims IH]; intros level px py nodes pre Hh Hr Hs Hl id Hin; [contradiction|].
  cbn [map tt_path_lv fst] in Hin.
  destruct (Hr (w, h) dims eq_refl) as [Hx Hy]. cbn [fst snd] in Hx, Hy.
  destruct Hin as [<-|Hin].
  - cbn [fst snd]. apply valid2_spec.
    assert (Hlen : length nodes = (length pre + S (length dims))%nat).
    { apply (f_equal (@length nat)) in Hs. unfold shape in Hs.
      rewrite map_length, app_length in Hs. cbn [map length] in Hs. rewrite map_length in Hs. exact Hs. }
    assert (Hn : length (nth (length pre) nodes []) = Z.to_nat (w * h)).
    { rewrite <- (map_nth (@length Z) nodes [] (length pre)). fold (shape nodes). rewrite Hs.
      rewrite app_nth2 by lia. rewrite Nat.sub_diag. reflexivity. }
    subst level. rewrite Nat2Z.id. rewrite Hn. repeat split; try lia; nia.
  - destruct dims as [|[w' h'] dims'] eqn:Ed; [contradiction|].
    cbn [halving] in Hh. destruct Hh as [Hw' [Hh' Hh]].
    apply (IH (level + 1) (px / 2) (py / 2) nodes (pre ++ [Z.to_nat (w * h)])).
    + exact Hh.
    + intros d0 r E. inversion E; subst d0 r. cbn [fst snd]. subst w' h'. split; apply half_lt; lia.
    + rewrite <- app_assoc. exact Hs.
    + rewrite app_length. cbn [length]. lia.
    + exact Hin.
Qed.

Lemma path_levels : forall lws level px py id,
  In id (tt_path_lv lws level px py) -> level <= fst id < level + Z.of_nat (length lws).
Proof.
  induction lws as [|lw lws IH]; intros level px py id Hin; [contradiction|].
  cbn [tt_path_lv length] in Hin |- *. destruct Hin as [<-|Hin]; [cbn; lia|].
  apply IH in Hin. lia.
Qed.

Lemma path_nodup : forall lws level px py, NoDup (tt_path_lv lws level px py).
Proof.
  induction lws as [|lw lws IH]; intros level px py; cbn [tt_path_lv]; constructor.
  - intros Hin. apply path_levels in Hin. cbn [fst] in Hin. lia.
  - apply IH.
Qed.

(* two stacks of the same tree that share the node of some level share all higher nodes *)
Lemma path_merge : forall dims level px py qx qy,
  halving dims ->
  (forall d0 r, dims = d0 :: r -> 0 <= px < fst d0 /\ 0 <= qx < fst d0 /\ 0 <= py /\ 0 <= qy) ->
  forall pre1 a1 post1 pre2 a2 post2,
  tt_path_lv (map fst dims) level px py = pre1 ++ a1 :: post1 ->
  tt_path_lv (map fst dims) level qx qy = pre2 ++ a2 :: post2 ->
  a1 = a2 -> post1 = post2 /\ length pre1 = length pre2.
Proof.
  induction dims as [|[w h] dims IH]; intros level px py qx qy Hh Hr pre1 a1 post1 pre2 a2 post2 H1 H2 Ea.
  - cbn in H1. destruct pre1; discriminate.
  - cbn [map tt_path_lv fst] in H1, H2.
    destruct (Hr (w, h) dims eq_refl) as [Hpx [Hqx [Hpy Hqy]]]. cbn [fst] in Hpx, Hqx.
    assert (Hnext : forall d0 r, dims = d0 :: r ->
              0 <= px / 2 < fst d0 /\ 0 <= qx / 2 < fst d0 /\ 0 <= py / 2 /\ 0 <= qy / 2).
    { intros [w' h'] r E. subst dims. cbn [halving] in Hh. destruct Hh as [Hw' _]. cbn [fst]. subst w'.
      split; [apply half_lt; lia|]. split; [apply half_lt; lia|]. split; Z.div_mod_to_equations; lia. }
    assert (Hh' : halving dims).
    { destruct dims as [|[w' h'] r]; [exact I|]. cbn [halving] in Hh. tauto. }
    destruct pre1 as [|p1 pre1]; destruct pre2 as [|p2 pre2]; cbn [app] in H1, H2.
    + (* both at this level: the same (px, py) *)
      assert (E1 : a1 = (level, py * w + px)) by congruence.
      assert (E2 : a2 = (level, qy * w + qx)) by congruence.
      assert (Eidx : py * w + px = qy * w + qx) by congruence.
      assert (py = qy) by nia. subst qy. assert (px = qx) by lia. subst qx.
      split; [congruence | reflexivity].
    + assert (E1 : a1 = (level, py * w + px)) by congruence.
      assert (H4 : tt_path_lv (map fst dims) (level + 1) (qx / 2) (qy / 2) = pre2 ++ a2 :: post2) by congruence.
      assert (Hin : In a2 (tt_path_lv (map fst dims) (level + 1) (qx / 2) (qy / 2))).
      { rewrite H4. apply in_or_app. right. left. reflexivity. }
      apply path_levels in Hin. rewrite <- Ea, E1 in Hin. cbn [fst] in Hin. lia.
    + assert (E2 : a2 = (level, qy * w + qx)) by congruence.
      assert (H4 : tt_path_lv (map fst dims) (level + 1) (px / 2) (py / 2) = pre1 ++ a1 :: post1) by congruence.
      assert (Hin : In a1 (tt_path_lv (map fst dims) (level + 1) (px / 2) (py / 2))).
      { rewrite H4. apply in_or_app. right. left. reflexivity. }
      apply path_levels in Hin. rewrite Ea, E2 in Hin. cbn [fst] in Hin. lia.
    + assert (H4 : tt_path_lv (map fst dims) (level + 1) (px / 2) (py / 2) = pre1 ++ a1 :: post1) by congruence.
      assert (H6 : tt_path_lv (map fst dims) (level + 1) (qx / 2) (qy / 2) = pre2 ++ a2 :: post2) by congruence.
      destruct (IH (level + 1) (px / 2) (py / 2) (qx / 2) (qy / 2) Hh' Hnext
                   pre1 a1 post1 pre2 a2 post2 H4 H6 Ea) as [Hp Hl].
      split; [exact Hp | cbn [length]; lia].
Qed.

(* the leaf node of the stack *)
Lemma path_head : forall lw lws level px py,
  tt_path_lv (lw :: lws) level px py = (level, py * lw + px) :: tt_path_lv lws (level + 1) (px / 2) (py / 2).
Proof. reflexivity. Qed.

(* ---------- the facts about a well-formed tree used by the protocol proofs ---------- *)

Lemma wf_path_valid : forall t x y id, wf_tree t -> tt_in_range t x y = true ->
  In id (tt_path t x y) -> vid t id.
Proof.
  intros t x y id [dims [Hh [Hlw [[d0 [r [Ed [Hw Hhh]]]] [Hw1 [Hh1 [Hs _]]]]]]] Hr Hin.
  unfold tt_in_range in Hr. apply andb_prop in Hr as [Hr Hy2]. apply andb_prop in Hr as [Hr Hy1].
  apply andb_prop in Hr as [Hx1 Hx2]. apply Z.leb_le in Hx1, Hy1. apply Z.ltb_lt in Hx2, Hy2.
  unfold vid, tt_path in *. rewrite Hlw in Hin.
  apply (path_valid dims 0 x y (tt_nodes t) []); try assumption; try reflexivity.
  intros d0' r' E. rewrite Ed in E. inversion E; subst d0' r'. lia.
Qed.

Lemma wf_path_nodup : forall t x y, NoDup (tt_path t x y).
Proof. intros. apply path_nodup. Qed.

Lemma wf_path_nonempty : forall t, wf_tree t -> exists lw lws, tt_lw t = lw :: lws /\ lw = tt_w t.
Proof.
  intros t [dims [Hh [Hlw [[d0 [r [Ed [Hw Hhh]]]] _]]]]. subst dims. cbn [map] in Hlw.
  exists (fst d0), (map fst r). split; [exact Hlw | exact Hw].
Qed.

Lemma wf_path_merge : forall t x y x' y', wf_tree t -> tt_in_range t x y = true -> tt_in_range t x' y' = true ->
  forall pre1 a post1 pre2 post2,
  tt_path t x y = pre1 ++ a :: post1 -> tt_path t x' y' = pre2 ++ a :: post2 ->
  post1 = post2 /\ length pre1 = length pre2.
Proof.
  intros t x y x' y' [dims [Hh [Hlw [[d0 [r [Ed [Hw Hhh]]]] _]]]] Hr Hr' pre1 a post1 pre2 post2 H1 H2.
  unfold tt_in_range in Hr, Hr'.
  apply andb_prop in Hr as [Hr Hy2]. apply andb_prop in Hr as [Hr Hy1].
  apply andb_prop in Hr as [Hx1 Hx2]. apply Z.leb_le in Hx1, Hy1. apply Z.ltb_lt in Hx2, Hy2.
  apply andb_prop in Hr' as [Hr' Hy2']. apply andb_prop in Hr' as [Hr' Hy1'].
  apply andb_prop in Hr' as [Hx1' Hx2']. apply Z.leb_le in Hx1', Hy1'. apply Z.ltb_lt in Hx2', Hy2'.
  unfold tt_path in H1, H2. rewrite Hlw in H1, H2.
  apply (path_merge dims 0 x y x' y' Hh) with (pre1 := pre1) (a1 := a) (pre2 := pre2) (a2 := a);
    try assumption; try reflexivity.
  intros d0' r' E. rewrite Ed in E. inversion E; subst d0' r'. lia.
Qed.

(* the leaf ids of different leaves differ *)
Lemma wf_leaf_id : forall t x y, wf_tree t -> exists rest, tt_path t x y = (0, y * tt_w t + x) :: rest.
Proof.
  intros t x y Hwf. destruct (wf_path_nonempty t Hwf) as [lw [lws [E ->]]].
  unfold tt_path. rewrite E. rewrite path_head. eexists. reflexivity.
Qed.

Lemma leaf_id_inj : forall t x y x' y', tt_in_range t x y = true -> tt_in_range t x' y' = true ->
  y * tt_w t + x = y' * tt_w t + x' -> x = x' /\ y = y'.
Proof.
  intros t x y x' y' Hr Hr' E. unfold tt_in_range in Hr, Hr'.
  apply andb_prop in Hr as [Hr Hy2]. apply andb_prop in Hr as [Hr Hy1].
  apply andb_prop in Hr as [Hx1 Hx2]. apply Z.leb_le in Hx1, Hy1. apply Z.ltb_lt in Hx2, Hy2.
  apply andb_prop in Hr' as [Hr' Hy2']. apply andb_prop in Hr' as [Hr' Hy1'].
  apply andb_prop in Hr' as [Hx1' Hx2']. apply Z.leb_le in Hx1', Hy1'. apply Z.ltb_lt in Hx2', Hy2'.
  assert (y = y') by nia. subst y'. split; [lia | reflexivity].
Qed.
