(* C04 (t2): packets_deliver_blocks - the `t2_rt` hypothesis of the pipeline theorem.
   EncodePackets followed by DecodePackets, for each of the five progression orders, delivers
   for every cell (component, resolution, precinct), every layer and every code-block of the
   cell exactly the encoder's contribution: included flag, number of new passes, data bytes. *)
From V Require Import Common.Base Framing.FrmWriters T2.T2Bio T2.T2TagTree T2.T2Header T2.T2Packets
  T2.T2ProofsBio T2.T2ProofsHeader T2.T2ProofsHeader2 T2.T2ProofsHeader3
  T2.T2ProofsPackets1 T2.T2ProofsPackets2 T2.T2ProofsProg.

(* prog_seq only looks at the values of its precinct-index function *)
Lemma prog_seq_ext : forall order nl nr nc f g pk, (forall c r, f c r = g c r) ->
  prog_seq order nl nr nc f pk = prog_seq order nl nr nc g pk.
Proof.
  intros order nl nr nc f g pk H.
  assert (Hcr : forall c r, cr_positions pk f c r = cr_positions pk g c r)
    by (intros c r; unfold cr_positions; rewrite H; reflexivity).
  assert (Hlk : forall c r pos, lookup_pos pk f c r pos = lookup_pos pk g c r pos)
    by (intros c r pos; unfold lookup_pos; rewrite H; reflexivity).
  assert (Hbr : forall r, by_res pk f nc r = by_res pk g nc r).
  { intros r. unfold by_res. f_equal. apply flat_map_ext. intros c. apply Hcr. }
  assert (Hbc : forall c, by_comp pk f nr c = by_comp pk g nr c).
  { intros c. unfold by_comp. f_equal. apply flat_map_ext. intros r. apply Hcr. }
  assert (Hall : all_positions pk f nr nc = all_positions pk g nr nc).
  { unfold all_positions. f_equal. apply flat_map_ext. intros c. apply flat_map_ext. intros r. apply Hcr. }
  unfold prog_seq.
  destruct (order =? 0).
  { f_equal. apply flat_map_ext. intros l. apply flat_map_ext. intros r. apply flat_map_ext. intros c.
    rewrite H. reflexivity. }
  destruct (order =? 1).
  { f_equal. apply flat_map_ext. intros r. apply flat_map_ext. intros l. apply flat_map_ext. intros c.
    rewrite H. reflexivity. }
  destruct (order =? 2).
  { f_equal. apply flat_map_ext. intros r. rewrite Hbr. apply flat_map_ext. intros pos. apply flat_map_ext. intros c.
    rewrite Hlk. reflexivity. }
  destruct (order =? 3).
  { f_equal. rewrite Hall. apply flat_map_ext. intros pos. apply flat_map_ext. intros c. apply flat_map_ext. intros r.
    rewrite Hlk. reflexivity. }
  destruct (order =? 4); [|reflexivity].
  f_equal. apply flat_map_ext. intros c. rewrite Hbc. apply flat_map_ext. intros pos. apply flat_map_ext. intros r.
  rewrite Hlk. reflexivity.
Qed.

Section Deliver.
Variables (termAll : bool) (style : Z) (nl nr nc order : Z) (g : pgeom) (pidx : Z -> Z -> list Z)
          (geo : dgeo) (strict resilient : bool) (cells0 : ecells).

(* What is assumed about the geometry of the two sides (the geometry itself - which
   code-block lies in which precinct at which grid position - is the subject of the j2kgeo
   area and of the end-to-end search):
   G1  the decoder's TERMALL switch is bit 2 of the code-block style;
   G2  both sides see the same precinct indices: sortedPrecincts (encoder, from AddCodeBlock)
       equals precinctIndicesForResolution (decoder, from buildPrecinctOrder), without
       duplicates; they share counts, bounds, sampling and precinct sizes (the same `g`);
   G3  for the position-driven orders every precinct index has a position key and different
       indices have different keys (one precinct per resolution: prog_single);
   G4  for every cell the encoder's Precinct objects, in the order they are stored, and the
       band list the decoder derives from cbPrecinctDims / cbPrecinctPositions are related by
       BandsRel at layer 0 (same grids, same positions sorted by (CBY, CBX), contributions in
       the domain of the codes, new state), and the stored order is the band order. *)
Hypothesis G1 : termAll = negb (Z.land style 4 =? 0).
Hypothesis G2 : forall c r, enc_pidx cells0 c r = pidx c r.
Hypothesis G2' : forall c r, NoDup (pidx c r).
Hypothesis G3 : 2 <= order -> pk_ok nr nc pidx (precinct_position_key g nr).
Hypothesis G4 : forall k, In k (cell_keys nr nc pidx) -> CellRel termAll nl geo 0 k cells0 [].
Hypothesis Ho : 0 <= order <= 4.
Hypothesis Hnl : 0 < nl.                                    (* at least one quality layer *)

Theorem packets_deliver_blocks : forall eps cells',
  enc_packets order nl nr nc g cells0 = Ok (eps, cells') -> small_packets eps ->
  exists dps items,
    dec_packets (packets_bytes eps) order nl nr nc g pidx geo style strict resilient = Ok dps /\
    prog_seq order nl nr nc pidx (precinct_position_key g nr) = Some items /\
    Sched nl (cell_keys nr nc pidx) (fun _ => 0) items /\
    map ep_item eps = items /\ Forall2 PktMatch eps dps /\ Forall (incls_ok cells0) eps.
Proof.
  intros eps cells' He Hsmall.
  destruct (prog_seq_sched nl nr nc pidx (precinct_position_key g nr) G2' order Ho G3) as [items [Eseq Hsched]].
  unfold enc_packets in He. rewrite (prog_seq_ext order nl nr nc _ pidx _ G2), Eseq in He.
  assert (Hst0 : forall k, In k (cell_keys nr nc pidx) ->
            exists b b0, aget key3_eqb cells0 k = Some b /\ aget key3_eqb cells0 k = Some b0 /\
                         forall l', exp_e l' b = exp_e l' b0).
  { intros k Hk. destruct (G4 k Hk) as [E|[Hn [bands [Hget _]]]]; [lia|].
    exists bands, bands. split; [exact Hget|]. split; [exact Hget | reflexivity]. }
  destruct (packet_stream_roundtrip termAll nl geo strict resilient (cell_keys nr nc pidx) items cells0 cells0 []
              (fun _ => 0) [] eps cells' G4 Hst0 Hsched He Hsmall) as [dps [Ed [HM [Hitems Hok]]]].
  exists dps, items. split.
  { unfold dec_packets. rewrite Eseq. rewrite <- G1. cbn [app] in Ed. change (zlen (@nil Z)) with 0 in Ed. exact Ed. }
  split; [exact Eseq|]. split; [exact Hsched|]. split; [exact Hitems|]. split; assumption.
Qed.

End Deliver.
