(* C08 (t2): the packet-header parser and the packet-body extraction never panic.
   For ANY bytes, any layer number, any band grids and any persistent per-band state whose
   tag trees are well-formed (produced by NewTagTree and only changed by Decode — band_wf),
   parsePacketHeaderMulti returns Ok or Err (never Panic / OutOfFuel), consumes at most the
   input, and leaves a state satisfying the same invariant; the tag-tree decoders never index
   outside their node arrays; decodePacket's body loop never slices outside the tile data.
   The same lemmas give the byte bookkeeping (rd_pos + unread = constant) used by the
   round-trip proofs. *)
From V Require Import Common.Base Framing.FrmWriters T2.T2Bio T2.T2TagTree T2.T2Header T2.T2Packets
  T2.T2ProofsBio T2.T2ProofsStore T2.T2ProofsTagTree T2.T2ProofsTagTree2.

Lemma zlen_nonneg' : forall {A} (l : list A), 0 <= zlen l.
Proof. intros. unfold zlen. lia. Qed.

(* ---------- outcomes ---------- *)

Definition good {A} (P : A -> Prop) (o : outcome A) : Prop :=
  match o with Ok a => P a | Err => True | Panic => False | OutOfFuel => False end.

Lemma good_bind : forall {A B} (P : A -> Prop) (Q : B -> Prop) (o : outcome A) (f : A -> outcome B),
  good P o -> (forall a, P a -> good Q (f a)) -> good Q (obind o f).
Proof. intros A B P Q [a| | |] f H Hf; cbn in *; auto. Qed.

Lemma good_weaken : forall {A} (P Q : A -> Prop) (o : outcome A), good P o -> (forall a, P a -> Q a) -> good Q o.
Proof. intros A P Q [a| | |] H HPQ; cbn in *; auto. Qed.

(* ---------- reader states reachable from r0 ---------- *)

Definition rd_ok (r : rd) : Prop := 0 <= rd_ct r <= 8 /\ 0 <= rd_pos r.
Definition RS (r0 r : rd) : Prop :=
  rd_ok r /\ rd_total r = rd_total r0 /\ rd_pos r0 <= rd_pos r.

Lemma RS_refl : forall r, rd_ok r -> RS r r.
Proof. intros r H. unfold RS. repeat split; try apply H; lia. Qed.

Lemma RS_trans : forall a b c, RS a b -> RS b c -> RS a c.
Proof. intros a b c [A1 [A2 A3]] [B1 [B2 B3]]. unfold RS. repeat split; try apply B1; lia. Qed.

Lemma rd_init_ok : forall data, rd_ok (rd_init data).
Proof. intros. unfold rd_ok, rd_init. cbn. lia. Qed.

Lemma bytein_good : forall r, rd_ok r -> good (fun r' => RS r r' /\ 7 <= rd_ct r' <= 8) (rd_bytein r).
Proof.
  intros r [Hc Hp]. unfold rd_bytein. destruct (rd_data r) as [|b t] eqn:E; cbn [good]; [exact I|].
  unfold RS, rd_ok, rd_total. cbn [rd_ct rd_pos rd_data]. rewrite E, zlen_cons.
  destruct (wrapU 16 (rd_buf r * 256) =? 65280); repeat split; lia.
Qed.

Lemma read_bit_good : forall r, rd_ok r -> good (fun br => RS r (snd br)) (rd_read_bit r).
Proof.
  intros r Hr. unfold rd_read_bit.
  apply (good_bind (fun r1 => RS r r1 /\ 1 <= rd_ct r1 <= 8)).
  - destruct (Z.eqb_spec (rd_ct r) 0) as [E|E].
    + eapply good_weaken; [apply bytein_good; exact Hr|]. intros a [H1 H2]. split; [exact H1 | lia].
    + cbn [good]. split; [apply RS_refl; exact Hr|]. destruct Hr as [Hc _]. lia.
  - intros r1 [[[Hc Hp] [Ht Hpp]] Hc1]. cbn [good snd].
    unfold RS, rd_ok, rd_total in *. cbn [rd_ct rd_pos rd_data]. repeat split; lia.
Qed.

Lemma read_bits_nat_good : forall n v r, rd_ok r -> good (fun vr => RS r (snd vr)) (rd_read_bits_nat n v r).
Proof.
  induction n as [|n IH]; intros v r Hr; cbn [rd_read_bits_nat].
  - cbn [good snd]. apply RS_refl. exact Hr.
  - eapply good_bind; [apply read_bit_good; exact Hr|].
    intros [b r1] H1. cbn [fst snd] in *.
    eapply good_weaken; [apply IH; apply H1|]. intros a H2. eapply RS_trans; eassumption.
Qed.

Lemma read_bits_good : forall r n, rd_ok r -> good (fun vr => RS r (snd vr)) (rd_read_bits r n).
Proof.
  intros r n Hr. unfold rd_read_bits. destruct ((n <=? 0) || (n >? 32)); [exact I|].
  apply read_bits_nat_good. exact Hr.
Qed.

Lemma align_good : forall r, rd_ok r -> good (fun r' => RS r r') (rd_align r).
Proof.
  intros r Hr. unfold rd_align.
  apply (good_bind (fun r1 => RS r r1)).
  - destruct ((rd_pos r >? 0) && (Z.land (rd_buf r) 255 =? 255)).
    + eapply good_weaken; [apply bytein_good; exact Hr|]. intros a [H _]. exact H.
    + cbn [good]. apply RS_refl. exact Hr.
  - intros r1 [[Hc Hp] [Ht Hpp]]. cbn [good]. unfold RS, rd_ok, rd_total in *. cbn [rd_ct rd_pos rd_data].
    repeat split; lia.
Qed.

(* ---------- numeric codes ---------- *)

Lemma dec_numpasses_good : forall r, rd_ok r ->
  good (fun nr => RS r (snd nr) /\ 1 <= fst nr <= 164) (dec_numpasses r).
Proof.
  intros r Hr. unfold dec_numpasses.
  eapply good_bind; [apply read_bit_good; exact Hr|]. intros [b1 r1] H1. cbn [fst snd] in *.
  destruct (b1 =? 0); [cbn [good fst snd]; split; [exact H1 | lia]|].
  eapply good_bind; [apply read_bit_good; apply H1|]. intros [b2 r2] H2. cbn [fst snd] in *.
  pose proof (RS_trans _ _ _ H1 H2) as H12.
  destruct (b2 =? 0); [cbn [good fst snd]; split; [exact H12 | lia]|].
  assert (Hrange : forall rr n, rd_ok rr -> 1 <= n <= 32 ->
            good (fun vr => RS rr (snd vr) /\ 0 <= fst vr < 2 ^ n) (rd_read_bits rr n)).
  { intros rr n Hrr Hn. unfold rd_read_bits.
    destruct (Z.leb_spec n 0); [lia|]. destruct (Z.gtb_spec n 32); [lia|]. cbn [orb].
    assert (G : forall k v rq, rd_ok rq -> 0 <= v ->
              good (fun vr => RS rq (snd vr) /\ 0 <= fst vr < (v + 1) * 2 ^ Z.of_nat k) (rd_read_bits_nat k v rq)).
    { induction k as [|k IHk]; intros v rq Hq Hv; cbn [rd_read_bits_nat].
      - cbn [good fst snd]. split; [apply RS_refl; exact Hq|]. change (2 ^ Z.of_nat 0) with 1. lia.
      - pose proof (read_bit_good rq Hq) as Gb.
        destruct (rd_read_bit rq) as [[b rq1]| | |] eqn:Eb; cbn [good obind] in *; try tauto.
        cbn [fst snd] in *. destruct (read_bit_total _ _ _ Eb) as [_ [_ Hb01]].
        rewrite lor_shift_bit by exact Hb01.
        eapply good_weaken; [apply IHk; [apply Gb | destruct Hb01; lia]|].
        intros [v' r'] [Ha Hb]. cbn [fst snd] in *. split; [eapply RS_trans; eassumption|].
        rewrite Nat2Z.inj_succ, Z.pow_succ_r by lia. destruct Hb01 as [-> | ->]; nia. }
    eapply good_weaken; [apply (G (Z.to_nat n) 0 rr Hrr); lia|].
    intros a [Ha Hb]. split; [exact Ha|]. rewrite Z2Nat.id in Hb by lia. lia. }
  eapply good_bind; [apply (Hrange r2 2); [apply H2 | lia]|]. intros [v2 r3] [H3 Hv2]. cbn [fst snd] in *.
  change (2 ^ 2) with 4 in Hv2.
  pose proof (RS_trans _ _ _ H12 H3) as H13.
  destruct (v2 =? 3); cbn [negb]; [|cbn [good fst snd]; split; [exact H13 | lia]].
  eapply good_bind; [apply (Hrange r3 5); [apply H3 | lia]|]. intros [v5 r4] [H4 Hv5]. cbn [fst snd] in *.
  change (2 ^ 5) with 32 in Hv5.
  pose proof (RS_trans _ _ _ H13 H4) as H14.
  destruct (v5 =? 31); cbn [negb]; [|cbn [good fst snd]; split; [exact H14 | lia]].
  eapply good_bind; [apply (Hrange r4 7); [apply H4 | lia]|]. intros [v7 r5] [H5 Hv7]. cbn [fst snd] in *.
  change (2 ^ 7) with 128 in Hv7. cbn [good fst snd]. split; [eapply RS_trans; eassumption | lia].
Qed.

Definition rd_mu (r : rd) : Z := rd_ct r + 8 * zlen (rd_data r).

Lemma read_bit_mu : forall r b r', rd_ok r -> rd_read_bit r = Ok (b, r') -> rd_mu r' <= rd_mu r - 1.
Proof.
  intros r b r' [Hc _] H. unfold rd_read_bit in H.
  destruct (Z.eqb_spec (rd_ct r) 0) as [E|E].
  - unfold rd_bytein in H. destruct (rd_data r) as [|x t] eqn:Ed; cbn [obind] in H; [discriminate|].
    inversion H; subst. unfold rd_mu. cbn [rd_ct rd_data]. rewrite Ed, zlen_cons.
    destruct (wrapU 16 (rd_buf r * 256) =? 65280); lia.
  - cbn [obind] in H. inversion H; subst. unfold rd_mu. cbn [rd_ct rd_data]. lia.
Qed.

Lemma comma_loop_good : forall fuel r n, rd_ok r -> rd_mu r < Z.of_nat fuel ->
  good (fun nr => RS r (snd nr) /\ n <= fst nr) (dec_comma_loop fuel r n).
Proof.
  induction fuel as [|f IH]; intros r n Hr Hm.
  - unfold rd_mu in Hm. destruct Hr as [Hc _]. pose proof (zlen_nonneg' (rd_data r)). lia.
  - cbn [dec_comma_loop]. pose proof (read_bit_good r Hr) as Gb.
    destruct (rd_read_bit r) as [[b r1]| | |] eqn:Eb; cbn [good obind] in *; try tauto. cbn [fst snd] in *.
    destruct (b =? 0); [cbn [good fst snd]; split; [exact Gb | lia]|].
    pose proof (read_bit_mu _ _ _ Hr Eb) as Hmu.
    eapply good_weaken; [apply (IH r1 (n + 1)); [apply Gb | lia]|].
    intros a [Ha Hb]. split; [eapply RS_trans; eassumption | lia].
Qed.

Lemma dec_comma_good : forall r, rd_ok r -> good (fun nr => RS r (snd nr) /\ 0 <= fst nr) (dec_comma r).
Proof.
  intros r Hr. unfold dec_comma. apply comma_loop_good; [exact Hr|].
  unfold comma_fuel, rd_mu, zlen. destruct Hr as [Hc _]. lia.
Qed.

Lemma dec_seglens_good : forall k r nlb, rd_ok r -> good (fun lr => RS r (snd lr)) (dec_seglens k r nlb).
Proof.
  induction k as [|k IH]; intros r nlb Hr; cbn [dec_seglens].
  - cbn [good snd]. apply RS_refl. exact Hr.
  - eapply good_bind; [apply read_bits_good; exact Hr|]. intros [v r1] H1. cbn [fst snd] in *.
    eapply good_bind; [apply IH; apply H1|]. intros [l r2] H2. cbn [good fst snd] in *.
    eapply RS_trans; eassumption.
Qed.

Lemma dec_lengths_good : forall r np nlb termAll, rd_ok r ->
  good (fun res => RS r (snd res)) (dec_lengths r np nlb termAll).
Proof.
  intros r np nlb termAll Hr. unfold dec_lengths. destruct (np <=? 0); [cbn [good snd]; apply RS_refl; exact Hr|].
  eapply good_bind; [apply dec_comma_good; exact Hr|]. intros [inc r1] [H1 _]. cbn [fst snd] in *.
  destruct termAll.
  - eapply good_bind; [apply dec_seglens_good; apply H1|]. intros [l r2] H2. cbn [good fst snd] in *.
    eapply RS_trans; eassumption.
  - eapply good_bind; [apply read_bits_good; apply H1|]. intros [v r2] H2. cbn [good fst snd] in *.
    eapply RS_trans; eassumption.
Qed.

(* ---------- tag-tree decoders ---------- *)

Lemma dec_loop_good : forall fuel r low thr v u, rd_ok r -> (Z.to_nat (thr - low) + 2 <= fuel)%nat ->
  good (fun res => RS r (snd res)) (tt_dec_loop fuel r low thr v u).
Proof.
  induction fuel as [|f IH]; intros r low thr v u Hr Hf; [lia|].
  cbn [tt_dec_loop]. destruct (Z.ltb_spec low thr) as [Hlt|Hge]; cbn [andb].
  2:{ cbn [good snd]. apply RS_refl. exact Hr. }
  destruct (u || (low <? v)); [|cbn [good snd]; apply RS_refl; exact Hr].
  eapply good_bind; [apply read_bit_good; exact Hr|]. intros [b r1] H1. cbn [fst snd] in *.
  destruct (b =? 0).
  - eapply good_weaken; [apply IH; [apply H1 | lia]|]. intros a Ha. eapply RS_trans; eassumption.
  - (* the node value becomes low and the node is set: the next test fails *)
    destruct f as [|f']; [lia|]. cbn [tt_dec_loop].
    destruct (Z.ltb_spec low low); [lia|]. cbn [orb]. rewrite Bool.andb_false_r. cbn [good snd]. exact H1.
Qed.

(* the decoder-side walk keeps the geometry *)
Lemma dec_nodes_good : forall ids t low thr r, rd_ok r -> same_shapes t -> (forall id, In id ids -> vid t id) ->
  good (fun tr => RS r (snd tr) /\ same_geom t (fst tr)) (tt_dec_nodes t ids low thr r).
Proof.
  induction ids as [|[lv idx] ids IH]; intros t low thr r Hr Hs Hv; cbn [tt_dec_nodes].
  - cbn [good fst snd]. split; [apply RS_refl; exact Hr | apply same_geom_refl; exact Hs].
  - set (low1 := if low >? get2 (tt_low t) lv idx 0 then low else get2 (tt_low t) lv idx 0).
    eapply good_bind; [apply dec_loop_good; [exact Hr | unfold loop_fuel; lia]|].
    intros [[[low2 v2] u2] r2] H2. cbn [snd] in H2.
    change (tt_with t (set2 (tt_nodes t) lv idx v2) (set2 (tt_low t) lv idx low2) (tt_known t)
                    (set2 (tt_unset t) lv idx u2))
      with (dec_upd t (lv, idx) v2 low2 u2).
    destruct (dec_upd_facts t (lv, idx) v2 low2 u2 Hs (Hv (lv, idx) ltac:(left; reflexivity)))
      as [Gn [Gs [Gw [Gh [Glw _]]]]].
    eapply good_weaken.
    + apply IH; [apply H2 | exact Gs|]. intros id Hin.
      apply (vid_shape t); [exact Gn | apply Hv; right; exact Hin].
    + intros [t' r'] [Ha Hb]. cbn [fst snd] in *. split; [eapply RS_trans; eassumption|].
      eapply same_geom_trans; [|exact Hb]. unfold same_geom.
      split; [exact Gw|]. split; [exact Gh|]. split; [exact Glw|]. split; [exact Gn | exact Gs].
Qed.

Lemma tt_decode_good : forall t r x y thr, rd_ok r -> wf_tree t ->
  good (fun res => RS r (snd res) /\ same_geom t (snd (fst res))) (tt_decode t r x y thr).
Proof.
  intros t r x y thr Hr Hwf. unfold tt_decode.
  destruct (tt_in_range t x y) eqn:Hrg; cbn [negb]; [|exact I].
  rewrite (forallb_valid t x y Hwf Hrg). cbn [negb].
  destruct (wf_leaf_id t x y Hwf) as [prest Hp]. rewrite Hp. rewrite <- Hp.
  eapply good_bind.
  - apply dec_nodes_good; [exact Hr | apply wf_same_shapes; exact Hwf|].
    intros id Hin. apply in_rev in Hin. apply (wf_path_valid t x y id Hwf Hrg Hin).
  - intros [t' r'] [Ha Hb]. cbn [good fst snd] in *. split; assumption.
Qed.

(* ---------- one band ---------- *)

Definition tree_ok (w h : Z) (t : ttree) : Prop := wf_tree t /\ tt_w t = w /\ tt_h t = h.

Lemma tree_ok_geom : forall w h t t', tree_ok w h t -> same_geom t t' -> tree_ok w h t'.
Proof.
  intros w h t t' [Hwf [Hw Hh]] Hg. split; [apply (wf_tree_geom t t' Hwf Hg)|].
  destruct Hg as [G1 [G2 _]]. split; congruence.
Qed.

Lemma norm_tree_ok : forall o w h, 0 < w -> 0 < h -> (forall t, o = Some t -> wf_tree t) ->
  tree_ok w h (norm_tree o w h).
Proof.
  intros o w h Hw Hh Ho. unfold norm_tree.
  assert (Hnew : tree_ok w h (tt_new w h)).
  { split; [apply tt_new_wf|]. unfold tt_new. cbn [tt_w tt_h].
    destruct (Z.leb_spec w 0); [lia|]. destruct (Z.leb_spec h 0); [lia|]. cbn [orb]. split; reflexivity. }
  destruct o as [t|]; [|exact Hnew].
  destruct (Z.eqb_spec (tt_w t) w); destruct (Z.eqb_spec (tt_h t) h); cbn [negb orb]; try exact Hnew.
  split; [apply Ho; reflexivity | split; assumption].
Qed.

Lemma norm_states_len : forall o n, 0 <= n -> zlen (norm_states o n) = n.
Proof.
  intros o n Hn. unfold norm_states.
  assert (Hz : zlen (zrep dblock_init n) = n) by (unfold zlen, zrep; rewrite repeat_length; lia).
  destruct o as [l|]; [|exact Hz]. destruct (Z.eqb_spec (zlen l) n); [assumption | exact Hz].
Qed.

Lemma upd_z_len : forall {A} (l : list A) i v, zlen (upd_z l i v) = zlen l.
Proof. intros A l i v. unfold upd_z, zlen. destruct (i <? 0); [reflexivity|]. rewrite upd_nat_length. reflexivity. Qed.

(* the tail of dec_block after the inclusion decision *)
Definition dec_block_cont (termAll : bool) (r1 : rd) (st1 : dblock) (first : bool) (zbp : Z) (it1 zt1 : ttree)
  : outcome (dincl * dblock * ttree * ttree * rd) :=
  obind (dec_numpasses r1) (fun nr =>
  obind (dec_lengths (snd nr) (fst nr) (db_nlb st1) termAll) (fun lr =>
    let '(len, pls, nlb, r2) := lr in
    Ok ({| di_included := true; di_first := first; di_np := fst nr; di_len := len; di_zbp := zbp;
           di_pl := pls; di_termall := if 0 <? zlen pls then termAll else false |},
        db_set st1 (db_included st1) (db_first st1) (db_zbp st1) (db_passes st1 + fst nr) nlb,
        it1, zt1, r2))).

Lemma dec_block_unfold : forall r it zt st x y layer termAll,
  dec_block r it zt st x y layer termAll =
  if negb (db_included st) then
    obind (tt_decode_inclusion it r x y layer) (fun res =>
      let '(included, first, it1, r1) := res in
      if negb included then Ok (dincl_skip, st, it1, zt, r1) else
      obind (tt_decode_zbp zt r1 x y) (fun zres =>
        let '(zbp, zt1, r2) := zres in
        dec_block_cont termAll r2 (db_set st true first zbp (db_passes st) 3) true zbp it1 zt1))
  else
    obind (rd_read_bit r) (fun br =>
      if negb (fst br =? 1) then Ok (dincl_skip, st, it, zt, snd br)
      else dec_block_cont termAll (snd br) st false (db_zbp st) it zt).
Proof. reflexivity. Qed.

Lemma dec_block_good : forall r it zt st x y layer termAll w h, rd_ok r -> tree_ok w h it -> tree_ok w h zt ->
  good (fun res => let '(_, _, it', zt', r') := res in RS r r' /\ tree_ok w h it' /\ tree_ok w h zt')
       (dec_block r it zt st x y layer termAll).
Proof.
  intros r it zt st x y layer termAll w h Hr Hit Hzt. rewrite dec_block_unfold.
  assert (Hcont : forall r1 st1 first zbp it1 zt1, RS r r1 -> tree_ok w h it1 -> tree_ok w h zt1 ->
            good (fun res => let '(_, _, it', zt', r') := res in RS r r' /\ tree_ok w h it' /\ tree_ok w h zt')
                 (dec_block_cont termAll r1 st1 first zbp it1 zt1)).
  { intros r1 st1 first zbp it1 zt1 H1 Hi Hz. unfold dec_block_cont.
    eapply good_bind; [apply dec_numpasses_good; apply H1|]. intros [np r2] [H2 _]. cbn [fst snd] in *.
    eapply good_bind; [apply dec_lengths_good; apply H2|]. intros [[[len pls] nlb] r3] H3. cbn [good snd] in *.
    split; [eapply RS_trans; [exact H1|]; eapply RS_trans; eassumption|]. split; assumption. }
  destruct (db_included st); cbn [negb].
  - eapply good_bind; [apply read_bit_good; exact Hr|]. intros [b r1] H1. cbn [fst snd] in *.
    destruct (b =? 1); cbn [negb].
    + apply Hcont; assumption.
    + cbn [good]. split; [exact H1|]. split; assumption.
  - unfold tt_decode_inclusion.
    apply (good_bind (fun res => let '(_, _, it1, r1) := res in RS r r1 /\ tree_ok w h it1)).
    { eapply good_bind; [apply (tt_decode_good it r x y (layer + 1) Hr); apply Hit|].
      intros [[v it1] r1] [H1 Hg1]. cbn [fst snd] in *.
      destruct (v >? layer); cbn [good]; (split; [exact H1 | apply (tree_ok_geom w h it); assumption]). }
    intros [[[included first] it1] r1] [H1 Hi1].
    destruct included; cbn [negb].
    + unfold tt_decode_zbp.
      eapply good_bind; [apply (tt_decode_good zt r1 x y 32); [apply H1 | apply Hzt]|].
      intros [[zbp zt1] r2] [H2 Hg2]. cbn [fst snd] in *.
      apply Hcont; [eapply RS_trans; eassumption | exact Hi1 | apply (tree_ok_geom w h zt); assumption].
    + cbn [good]. split; [exact H1|]. split; assumption.
Qed.

Lemma nth_opt_some : forall {A} (l : list A) i, 0 <= i < zlen l -> exists a, nth_opt l i = Some a.
Proof.
  intros A l i Hi. unfold nth_opt. destruct (Z.ltb_spec i 0); [lia|].
  destruct (nth_error l (Z.to_nat i)) eqn:E; [eexists; reflexivity|].
  apply nth_error_None in E. unfold zlen in Hi. lia.
Qed.

Lemma dec_positions_good : forall pos r w h it zt sts layer termAll, rd_ok r -> 0 < w -> 0 < h ->
  tree_ok w h it -> tree_ok w h zt -> zlen sts = w * h ->
  good (fun res => let '(_, it', zt', sts', r') := res in
                   RS r r' /\ tree_ok w h it' /\ tree_ok w h zt' /\ zlen sts' = w * h)
       (dec_positions r w h it zt sts pos layer termAll).
Proof.
  induction pos as [|[x y] pos IH]; intros r w h it zt sts layer termAll Hr Hw Hh Hit Hzt Hl; cbn [dec_positions].
  - cbn [good]. split; [apply RS_refl; exact Hr|]. repeat split; try apply Hit; try apply Hzt; exact Hl.
  - destruct (Z.ltb_spec x 0); [apply IH; assumption|]. destruct (Z.geb_spec x w); [apply IH; assumption|].
    destruct (Z.ltb_spec y 0); [apply IH; assumption|]. destruct (Z.geb_spec y h); [apply IH; assumption|].
    cbn [orb].
    destruct (nth_opt_some sts (y * w + x) ltac:(nia)) as [st Est]. rewrite Est.
    eapply good_bind; [apply (dec_block_good r it zt st x y layer termAll w h); assumption|].
    intros [[[[inc st'] it'] zt'] r'] [Hb1 [Hi Hz]].
    eapply good_bind.
    + apply (IH r' w h it' zt' (upd_z sts (y * w + x) st')); try assumption; [apply Hb1|].
      rewrite upd_z_len. exact Hl.
    + intros [[[[incs it''] zt''] sts''] r''] [Hb2 [Hi2 [Hz2 Hl2]]]. cbn [good].
      split; [eapply RS_trans; eassumption|]. repeat split; try apply Hi2; try apply Hz2; exact Hl2.
Qed.

(* ---------- the whole header ---------- *)

(* the persistent per-band state: whatever tag trees are stored are well-formed *)
Definition band_wf (b : dband) : Prop :=
  (forall t, dbn_incl b = Some t -> wf_tree t) /\ (forall t, dbn_zbp b = Some t -> wf_tree t).

Lemma grid_positions_in : forall w h p, In p (grid_positions w h) -> 0 <= fst p < w /\ 0 <= snd p < h.
Proof.
  intros w h [x y] Hin. unfold grid_positions in Hin. apply in_flat_map in Hin as [y' [Hy Hin]].
  apply in_map_iff in Hin as [x' [E Hx]]. inversion E; subst.
  unfold zseq in *. apply in_map_iff in Hy as [ny [<- Hny]]. apply in_map_iff in Hx as [nx [<- Hnx]].
  apply in_seq in Hny, Hnx. cbn [fst snd]. lia.
Qed.

Lemma dec_bands_good : forall bands r layer termAll, rd_ok r -> Forall band_wf bands ->
  good (fun res => let '(_, bs, r') := res in RS r r' /\ Forall band_wf bs) (dec_bands r bands layer termAll).
Proof.
  induction bands as [|b bands IH]; intros r layer termAll Hr Hwf; cbn [dec_bands].
  - cbn [good]. split; [apply RS_refl; exact Hr | constructor].
  - inversion Hwf as [|? ? Hb Hbs]; subst.
    destruct (Z.leb_spec (dbn_w b) 0) as [Hw|Hw]; cbn [orb].
    { eapply good_bind; [apply IH; assumption|]. intros [[incs bs] r'] [H1 H2]. cbn [good].
      split; [exact H1 | constructor; assumption]. }
    destruct (Z.leb_spec (dbn_h b) 0) as [Hh|Hh].
    { eapply good_bind; [apply IH; assumption|]. intros [[incs bs] r'] [H1 H2]. cbn [good].
      split; [exact H1 | constructor; assumption]. }
    destruct Hb as [Hbi Hbz].
    eapply good_bind.
    + apply (dec_positions_good _ r (dbn_w b) (dbn_h b)); try assumption; try lia.
      * apply norm_tree_ok; try lia. exact Hbi.
      * apply norm_tree_ok; try lia. exact Hbz.
      * apply norm_states_len. nia.
    + intros [[[[incs it'] zt'] sts'] r'] [H1 [Hi [Hz Hl]]].
      eapply good_bind; [apply IH; [apply H1 | exact Hbs]|].
      intros [[incs2 bs] r''] [H2 H3]. cbn [good].
      split; [eapply RS_trans; eassumption|]. constructor; [|exact H3].
      unfold band_wf. cbn [dbn_incl dbn_zbp]. split; intros t E; inversion E; subst; [apply Hi | apply Hz].
Qed.

(* packet_parser_no_panic *)
Theorem packet_parser_no_panic : forall data layer bands termAll, Forall band_wf bands ->
  good (fun res => let '(bytesRead, _, _, bands') := res in
                   0 <= bytesRead <= zlen data /\ Forall band_wf bands')
       (parse_header data layer bands termAll).
Proof.
  intros data layer bands termAll Hwf. unfold parse_header.
  destruct data as [|d0 data']; [cbn [good]; split; [cbn; lia | exact Hwf]|].
  set (data := d0 :: data').
  assert (Htot : rd_total (rd_init data) = zlen data) by (unfold rd_total, rd_init; cbn [rd_pos rd_data]; lia).
  assert (Hfin : forall r', RS (rd_init data) r' -> 0 <= rd_pos r' <= zlen data).
  { intros r' [[_ Hp] [Ht _]]. rewrite Htot in Ht. unfold rd_total in Ht. pose proof (zlen_nonneg' (rd_data r')). lia. }
  eapply good_bind; [apply read_bit_good; apply rd_init_ok|]. intros [b r1] H1. cbn [fst snd] in *.
  destruct (b =? 1); cbn [negb].
  - eapply good_bind; [apply dec_bands_good; [apply H1 | exact Hwf]|].
    intros [[incs bs] r2] [H2 Hbs].
    eapply good_bind; [apply align_good; apply H2|]. intros r3 H3. cbn [good].
    split; [|exact Hbs]. apply Hfin. eapply RS_trans; [exact H1|]. eapply RS_trans; eassumption.
  - cbn [good]. split; [apply Hfin; exact H1 | exact Hwf].
Qed.

(* the tag-tree decoders alone: any well-formed tree, any reader, any position and threshold *)
Theorem tagtree_decode_no_panic : forall t r x y thr, rd_ok r -> wf_tree t ->
  good (fun res => wf_tree (snd (fst res))) (tt_decode t r x y thr).
Proof.
  intros t r x y thr Hr Hwf. eapply good_weaken; [apply tt_decode_good; assumption|].
  intros [[v t'] r'] [_ Hg]. cbn [fst snd] in *. apply (wf_tree_geom t t' Hwf Hg).
Qed.

(* ---------- packet body ---------- *)

Lemma slice_good : forall data a b, 0 <= a <= b -> b <= zlen data ->
  exists d, slice data a b = Ok d /\ zlen d = b - a.
Proof.
  intros data a b Hab Hb. unfold slice.
  destruct (Z.leb_spec 0 a); [|lia]. destruct (Z.leb_spec a b); [|lia]. destruct (Z.leb_spec b (zlen data)); [|lia].
  cbn [andb]. eexists. split; [reflexivity|]. unfold zlen in *. rewrite firstn_length, skipn_length. lia.
Qed.

(* packet_body_no_panic: the body loop of decodePacket, for ANY decoded lengths (also
   negative or huge ones), any data, any flags *)
Theorem packet_body_no_panic : forall incs data offset strict resilient partial, 0 <= offset ->
  good (fun res => let '(_, off', _) := res in offset <= off' /\ (offset <= zlen data -> off' <= zlen data))
       (dec_body data offset strict resilient partial incs).
Proof.
  induction incs as [|i incs IH]; intros data offset strict resilient partial Ho; cbn [dec_body].
  - cbn [good]. lia.
  - destruct (di_included i && (0 <? di_len i)) eqn:Einc.
    2:{ eapply good_bind; [apply IH; exact Ho|]. intros [[l off] pt] H. cbn [good]. exact H. }
    apply andb_prop in Einc as [_ Hlen]. apply Z.ltb_lt in Hlen.
    destruct (Z.geb_spec offset (zlen data)) as [Hge|Hlt]; [cbn [good]; lia|].
    set (over := offset + di_len i >? zlen data).
    destruct (over && strict); [exact I|].
    set (len1 := if over then zlen data - offset else di_len i).
    assert (Hlen1 : 0 < len1 <= zlen data - offset).
    { unfold len1, over. destruct (Z.gtb_spec (offset + di_len i) (zlen data)); lia. }
    destruct ((len1 >? 65535) && strict); [exact I|].
    set (len2 := if len1 >? 65535 then (if zlen data - offset <? 65535 then zlen data - offset else 65535) else len1).
    assert (Hlen2 : 0 < len2 <= zlen data - offset).
    { unfold len2. destruct (Z.gtb_spec len1 65535); [|lia].
      destruct (Z.ltb_spec (zlen data - offset) 65535); lia. }
    destruct (slice_good data offset (offset + len2) ltac:(lia) ltac:(lia)) as [d [Es _]].
    rewrite Es. cbn [obind].
    eapply good_bind; [apply (IH data (offset + len2)); lia|].
    intros [[l off] pt] [H1 H2]. cbn [good]. lia.
Qed.
