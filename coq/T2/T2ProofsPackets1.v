(* C04 (t2): packets of a tile.  Part 1: association lists, band order, the decoder's per-band
   store, body extraction. *)
From V Require Import Common.Base Framing.FrmWriters T2.T2Bio T2.T2TagTree T2.T2Header T2.T2Packets
  T2.T2ProofsBio T2.T2ProofsCodes T2.T2ProofsStore T2.T2ProofsTagTree T2.T2ProofsTagTree2 T2.T2ProofsSafe
  T2.T2ProofsSafe2 T2.T2ProofsHeader T2.T2ProofsHeader2 T2.T2ProofsHeader3.

Lemma Forall2_cons_iff : forall {A B} (R : A -> B -> Prop) x l y l',
  Forall2 R (x :: l) (y :: l') <-> R x y /\ Forall2 R l l'.
Proof. intros. split; [intros H; inversion H; subst; split; assumption | intros [H1 H2]; constructor; assumption]. Qed.

(* ---------- key3 association lists ---------- *)

Lemma key3_eqb_refl : forall k, key3_eqb k k = true.
Proof. intros [[a b] c]. unfold key3_eqb. rewrite !Z.eqb_refl. reflexivity. Qed.

Lemma key3_eqb_eq : forall a b, key3_eqb a b = true -> a = b.
Proof.
  intros [[a1 a2] a3] [[b1 b2] b3] H. unfold key3_eqb in H.
  apply andb_prop in H as [H H3]. apply andb_prop in H as [H1 H2].
  apply Z.eqb_eq in H1, H2, H3. congruence.
Qed.

Lemma key3_eqb_neq : forall a b, a <> b -> key3_eqb a b = false.
Proof. intros a b H. destruct (key3_eqb a b) eqn:E; [apply key3_eqb_eq in E; contradiction | reflexivity]. Qed.

Lemma aget3_aset_same : forall {V} (s : list (key3 * V)) k v, aget key3_eqb (aset key3_eqb s k v) k = Some v.
Proof.
  intros V s k v. induction s as [|[k' v'] s IH]; cbn [aset aget].
  - rewrite key3_eqb_refl. reflexivity.
  - destruct (key3_eqb k' k) eqn:E; cbn [aget].
    + rewrite key3_eqb_refl. reflexivity.
    + rewrite E. exact IH.
Qed.

Lemma aget3_aset_other : forall {V} (s : list (key3 * V)) k k' v, k <> k' ->
  aget key3_eqb (aset key3_eqb s k v) k' = aget key3_eqb s k'.
Proof.
  intros V s k k' v Hne. induction s as [|[k0 v0] s IH]; cbn [aset aget].
  - rewrite (key3_eqb_neq k k' Hne). reflexivity.
  - destruct (key3_eqb k0 k) eqn:E; cbn [aget].
    + apply key3_eqb_eq in E. subst k0. rewrite (key3_eqb_neq k k' Hne). reflexivity.
    + destruct (key3_eqb k0 k'); [reflexivity | exact IH].
Qed.

(* ---------- band order ---------- *)

(* the SubbandIdx values of the Precinct objects of one (component, resolution, precinct), in
   the order they are stored, are a subsequence of the resolution's band order.  (AddCodeBlock
   appends a Precinct the first time a band is seen; encoder.go adds the bands in order.) *)
Definition ids_ok (res : Z) (ids : list Z) : Prop :=
  if res =? 0 then ids = [] \/ ids = [0]
  else ids = [] \/ ids = [1] \/ ids = [2] \/ ids = [3] \/ ids = [1; 2] \/ ids = [1; 3] \/ ids = [2; 3] \/ ids = [1; 2; 3].

Ltac destr_bands bands :=
  repeat match goal with
  | H : map ebn_band ?l = _ :: _ |- _ => destruct l as [|? ?]; cbn [map] in H; [discriminate|]; injection H as ? H
  | H : map ebn_band ?l = [] |- _ => destruct l as [|? ?]; cbn [map] in H; [clear H | discriminate]
  end.

Lemma order_bands_id : forall res bands, ids_ok res (map ebn_band bands) -> order_bands bands res = bands.
Proof.
  intros res bands H. unfold ids_ok, order_bands, band_order in *.
  destruct (res =? 0).
  - destruct H as [H|H]; destr_bands bands; cbn [flat_map filter app]; try reflexivity.
    match goal with H : ebn_band _ = _ |- _ => rewrite H end. reflexivity.
  - destruct H as [H|[H|[H|[H|[H|[H|[H|H]]]]]]]; destr_bands bands; cbn [flat_map filter app]; try reflexivity;
      repeat match goal with H : ebn_band _ = _ |- _ => rewrite H; clear H end; reflexivity.
Qed.

Lemma ids_ok_nodup : forall res ids, ids_ok res ids -> NoDup ids.
Proof.
  intros res ids H. unfold ids_ok in H. destruct (res =? 0).
  - destruct H as [->| ->]; repeat constructor; cbn; tauto.
  - destruct H as [->|[->|[->|[->|[->|[->|[->| ->]]]]]]]; repeat constructor; cbn; intuition discriminate.
Qed.

Lemma write_back_same_ids : forall bands upd, NoDup (map ebn_band bands) ->
  map ebn_band upd = map ebn_band bands -> write_back bands upd = upd.
Proof.
  intros bands upd Hnd Hids. unfold write_back.
  revert upd Hids. induction bands as [|p bands IH]; intros upd Hids.
  - destruct upd; [reflexivity | discriminate].
  - destruct upd as [|q upd]; [discriminate|]. cbn [map] in Hids |- *. injection Hids as Hq Hids.
    cbn [map] in Hnd. apply NoDup_cons_iff in Hnd as [Hnotin Hnd].
    cbn [find]. rewrite Hq, Z.eqb_refl. f_equal.
    transitivity (map (fun p0 => match find (fun q0 => ebn_band q0 =? ebn_band p0) upd with
                                 | Some q0 => q0 | None => p0 end) bands); [|apply IH; assumption].
    apply map_ext_in. intros a Ha.
    cbn [find]. assert (Hne : ebn_band p <> ebn_band a).
    { intros E. apply Hnotin. rewrite E. apply in_map. exact Ha. }
    destruct (Z.eqb_spec (ebn_band p) (ebn_band a)); [contradiction | reflexivity].
Qed.

(* the header encoder keeps the SubbandIdx of every Precinct *)
Lemma enc_bands_ids : forall ps l bs incs ps', enc_bands ps l = Ok (bs, incs, ps') ->
  map ebn_band ps' = map ebn_band ps.
Proof.
  induction ps as [|p ps IH]; intros l bs incs ps' H; cbn [enc_bands] in H.
  - apply ok_inj in H. assert (ps' = []) by congruence. subst. reflexivity.
  - destruct (ebn_blocks p) as [|b0 bl0].
    + destruct (enc_bands ps l) as [[[bs2 incs2] ps2]| | |] eqn:E2; cbn [obind] in H; try discriminate.
      apply ok_inj in H. assert (ps' = p :: ps2) by congruence. subst. cbn [map]. rewrite (IH _ _ _ _ E2). reflexivity.
    + destruct (ebn_trees p) as [[it zt]|]; [|discriminate].
      destruct (enc_blocks it zt (b0 :: bl0) l) as [[[[[bs1 incs1] bl1] it1] zt1]| | |]; cbn [obind] in H; try discriminate.
      destruct (enc_bands ps l) as [[[bs2 incs2] ps2]| | |] eqn:E2; cbn [obind] in H; try discriminate.
      apply ok_inj in H. assert (ps' = ebn_with p bl1 (Some (it1, zt1)) :: ps2) by congruence. subst.
      cbn [map ebn_with ebn_band]. rewrite (IH _ _ _ _ E2). reflexivity.
Qed.

Lemma prepare_band_id : forall p l, ebn_band (prepare_band p l) = ebn_band p.
Proof.
  intros p l. unfold prepare_band. destruct (ebn_blocks p); [reflexivity|].
  destruct (ebn_trees p) as [[it zt]|].
  - destruct (negb (tt_w it =? ebn_w p) || negb (tt_h it =? ebn_h p)); destruct (l =? 0); reflexivity.
  - destruct (l =? 0); reflexivity.
Qed.

Lemma enc_header_ids : forall ps l hdr incs ps', enc_header ps l = Ok (hdr, incs, ps') ->
  map ebn_band ps' = map ebn_band ps.
Proof.
  intros ps l hdr incs ps' H. unfold enc_header, enc_header_bits in H.
  destruct (negb (has_code_blocks ps)).
  - cbn [obind] in H. apply ok_inj in H. assert (ps' = ps) by congruence. subst. reflexivity.
  - destruct (enc_bands (map (fun p => prepare_band p l) ps) l) as [[[bs incs0] ps0]| | |] eqn:E; cbn [obind] in H;
      try discriminate.
    apply ok_inj in H. assert (ps' = ps0) by congruence. subst.
    rewrite (enc_bands_ids _ _ _ _ _ E). rewrite map_map. apply map_ext. intros p. apply prepare_band_id.
Qed.

(* ---------- the decoder's store ---------- *)

Definition static_eq (d d' : dband) : Prop :=
  dbn_w d' = dbn_w d /\ dbn_h d' = dbn_h d /\ dbn_pos d' = dbn_pos d.

Lemma dec_bands_static : forall ds r l t incs ds' r', dec_bands r ds l t = Ok (incs, ds', r') ->
  Forall2 static_eq ds ds'.
Proof.
  induction ds as [|d ds IH]; intros r l t incs ds' r' H; cbn [dec_bands] in H.
  - apply ok_inj in H. assert (ds' = []) by congruence. subst. constructor.
  - destruct ((dbn_w d <=? 0) || (dbn_h d <=? 0)).
    + destruct (dec_bands r ds l t) as [[[i2 d2] r2]| | |] eqn:E; cbn [obind] in H; try discriminate.
      apply ok_inj in H. assert (ds' = d :: d2) by congruence. subst.
      constructor; [unfold static_eq; repeat split; reflexivity | eapply IH; exact E].
    + destruct (dec_positions _ _ _ _ _ _ _ _ _) as [[[[[i1 it'] zt'] sts'] r1]| | |]; cbn [obind] in H; try discriminate.
      destruct (dec_bands r1 ds l t) as [[[i2 d2] r2]| | |] eqn:E; cbn [obind] in H; try discriminate.
      apply ok_inj in H.
      match type of H with (_, ?b :: _, _) = _ => assert (ds' = b :: d2) by congruence end. subst.
      constructor; [unfold static_eq; cbn; repeat split; reflexivity | eapply IH; exact E].
Qed.

Definition ctx_of (d : dband) : dctx := (dbn_incl d, dbn_zbp d, dbn_states d).

Lemma store_back_get : forall keys ds store k, NoDup keys -> length ds = length keys ->
  aget key4_eqb (store_back store keys ds) k =
    match find (fun kd => key4_eqb (fst kd) k) (combine keys ds) with
    | Some kd => Some (ctx_of (snd kd))
    | None => aget key4_eqb store k
    end.
Proof.
  induction keys as [|k0 keys IH]; intros ds store k Hnd Hlen; cbn [store_back combine find]; [reflexivity|].
  destruct ds as [|d ds]; [discriminate|]. cbn [length] in Hlen. injection Hlen as Hlen.
  apply NoDup_cons_iff in Hnd as [Hnotin Hnd].
  rewrite (IH ds _ k Hnd Hlen). cbn [combine find fst snd].
  destruct (key4_eqb k0 k) eqn:E.
  - apply key4_eqb_eq in E. subst k0.
    assert (Hnone : find (fun kd => key4_eqb (fst kd) k) (combine keys ds) = None).
    { destruct (find _ (combine keys ds)) as [[k1 d1]|] eqn:Ef; [|reflexivity]. exfalso.
      apply find_some in Ef as [Hin Hk]. cbn [fst] in Hk. apply key4_eqb_eq in Hk. subst k1.
      apply Hnotin. apply (in_combine_l _ _ _ _ Hin). }
    rewrite Hnone. rewrite aget_aset_same. reflexivity.
  - destruct (find _ (combine keys ds)); [reflexivity|].
    apply aget_aset_other. intros ->. rewrite key4_eqb_refl in E. discriminate.
Qed.

(* the keys and the static part of the band list do not depend on the store *)
Lemma band_states_keys : forall geo s s' c r p ids,
  map fst (dec_band_states geo s c r p ids) = map fst (dec_band_states geo s' c r p ids) /\
  Forall2 static_eq (map snd (dec_band_states geo s c r p ids)) (map snd (dec_band_states geo s' c r p ids)).
Proof.
  intros geo s s' c r p ids. induction ids as [|b ids [IH1 IH2]]; cbn [dec_band_states map]; [split; constructor|].
  destruct (match aget key4_eqb geo (c, r, p, b) with Some d => d | None => (0, 0, []) end) as [[w h] pos].
  destruct ((w <=? 0) || (h <=? 0)); [split; assumption|].
  destruct (match aget key4_eqb s (c, r, p, b) with Some x => x | None => (None, None, None) end) as [[it zt] sts].
  destruct (match aget key4_eqb s' (c, r, p, b) with Some x => x | None => (None, None, None) end) as [[it' zt'] sts'].
  cbn [map fst snd]. split; [f_equal; exact IH1|]. constructor; [|exact IH2].
  unfold static_eq. cbn. repeat split; reflexivity.
Qed.

Lemma band_states_key_shape : forall geo s c r p ids k,
  In k (map fst (dec_band_states geo s c r p ids)) -> exists b, In b ids /\ k = (c, r, p, b).
Proof.
  intros geo s c r p ids. induction ids as [|b ids IH]; cbn [dec_band_states]; [intros k []|].
  destruct (match aget key4_eqb geo (c, r, p, b) with Some d => d | None => (0, 0, []) end) as [[w h] pos].
  destruct ((w <=? 0) || (h <=? 0)).
  - intros k Hk. destruct (IH k Hk) as [b' [Hb Ek]]. exists b'. split; [right; exact Hb | exact Ek].
  - destruct (match aget key4_eqb s (c, r, p, b) with Some x => x | None => (None, None, None) end) as [[it zt] sts].
    cbn [map fst]. intros k [<-|Hk]; [exists b; split; [left; reflexivity | reflexivity]|].
    destruct (IH k Hk) as [b' [Hb Ek]]. exists b'. split; [right; exact Hb | exact Ek].
Qed.

Lemma band_states_keys_nodup : forall geo s c r p ids, NoDup ids ->
  NoDup (map fst (dec_band_states geo s c r p ids)).
Proof.
  intros geo s c r p ids Hnd. induction ids as [|b ids IH]; cbn [dec_band_states]; [constructor|].
  apply NoDup_cons_iff in Hnd as [Hnotin Hnd].
  pose proof (band_states_key_shape geo s c r p ids) as Hshape.
  destruct (match aget key4_eqb geo (c, r, p, b) with Some d => d | None => (0, 0, []) end) as [[w h] pos].
  destruct ((w <=? 0) || (h <=? 0)); [apply IH; exact Hnd|].
  destruct (match aget key4_eqb s (c, r, p, b) with Some x => x | None => (None, None, None) end) as [[it zt] sts].
  cbn [map fst]. constructor; [|apply IH; exact Hnd].
  intros Hin. destruct (Hshape _ Hin) as [b' [Hb' E]]. assert (b' = b) by congruence. subst b'. contradiction.
Qed.

(* after the contexts of the visited bands are stored, building the band list again for the
   same cell yields the updated bands *)
Lemma band_states_after : forall geo c r p ids store ds',
  NoDup ids ->
  Forall2 static_eq (map snd (dec_band_states geo store c r p ids)) ds' ->
  map snd (dec_band_states geo (store_back store (map fst (dec_band_states geo store c r p ids)) ds') c r p ids) = ds'.
Proof.
  intros geo c r p ids. induction ids as [|b ids IH]; intros store ds' Hnd HF.
  - cbn [dec_band_states map] in *. inversion HF. reflexivity.
  - apply NoDup_cons_iff in Hnd as [Hnotin Hnd].
    pose proof (band_states_key_shape geo store c r p ids) as Hshape.
    cbn [dec_band_states] in *.
    destruct (match aget key4_eqb geo (c, r, p, b) with Some d => d | None => (0, 0, []) end) as [[w h] pos] eqn:Eg.
    destruct ((w <=? 0) || (h <=? 0)) eqn:Ewh; [apply (IH store ds' Hnd HF)|].
    destruct (match aget key4_eqb store (c, r, p, b) with Some x => x | None => (None, None, None) end)
      as [[it zt] sts] eqn:Es.
    cbn [map fst snd] in HF |- *.
    destruct ds' as [|d' ds']; [inversion HF|].
    apply Forall2_cons_iff in HF as [[Sw [Sh Sp]] HF]. cbn [dbn_w dbn_h dbn_pos] in Sw, Sh, Sp.
    cbn [store_back].
    set (store1 := aset key4_eqb store (c, r, p, b) (dbn_incl d', dbn_zbp d', dbn_states d')).
    set (keys := map fst (dec_band_states geo store c r p ids)) in *.
    assert (Hk1 : keys = map fst (dec_band_states geo store1 c r p ids)) by apply band_states_keys.
    assert (Hlen : length ds' = length keys).
    { apply forall2_len in HF. unfold keys. rewrite !map_length in *. symmetry. exact HF. }
    assert (Hknd : NoDup keys) by (apply band_states_keys_nodup; exact Hnd).
    (* the head band: its key is not written again *)
    rewrite (store_back_get keys ds' store1 (c, r, p, b) Hknd Hlen).
    assert (Hnone : find (fun kd => key4_eqb (fst kd) (c, r, p, b)) (combine keys ds') = None).
    { destruct (find _ (combine keys ds')) as [[k1 d1]|] eqn:Ef; [|reflexivity]. exfalso.
      apply find_some in Ef as [Hin Hk]. cbn [fst] in Hk. apply key4_eqb_eq in Hk. subst k1.
      apply in_combine_l in Hin. destruct (Hshape _ Hin) as [b' [Hb' E]].
      assert (b' = b) by congruence. subst b'. contradiction. }
    rewrite Hnone. unfold store1 at 1. rewrite aget_aset_same. cbn [map snd]. f_equal.
    + destruct d' as [w' h' pos' i' z' s']. cbn in *. subst. reflexivity.
    + rewrite Hk1. apply IH; [exact Hnd|].
      destruct (band_states_keys geo store store1 c r p ids) as [_ Hst].
      (* static_eq is transitive *)
      clear - HF Hst. revert ds' HF.
      generalize dependent (map snd (dec_band_states geo store1 c r p ids)).
      generalize (map snd (dec_band_states geo store c r p ids)).
      induction l as [|x l IHl]; intros l0 Hst ds' HF; inversion Hst; subst; inversion HF; subst; constructor.
      * match goal with H1 : static_eq x ?y, H2 : static_eq x ?z |- static_eq ?y ?z =>
          destruct H1 as [A1 [A2 A3]]; destruct H2 as [B1 [B2 B3]]; unfold static_eq; repeat split; congruence end.
      * eapply IHl; eassumption.
Qed.

(* the contexts of other cells are not touched *)
Lemma band_states_other : forall geo c r p ids store ds' c' r' p' ids',
  (c', r', p') <> (c, r, p) -> NoDup ids ->
  length ds' = length (map fst (dec_band_states geo store c r p ids)) ->
  dec_band_states geo (store_back store (map fst (dec_band_states geo store c r p ids)) ds') c' r' p' ids' =
  dec_band_states geo store c' r' p' ids'.
Proof.
  intros geo c r p ids store ds' c' r' p' ids' Hne Hnd Hlen.
  set (keys := map fst (dec_band_states geo store c r p ids)) in *.
  assert (Hknd : NoDup keys) by (apply band_states_keys_nodup; exact Hnd).
  induction ids' as [|b ids' IH]; cbn [dec_band_states]; [reflexivity|].
  rewrite IH.
  rewrite (store_back_get keys ds' store (c', r', p', b) Hknd Hlen).
  assert (Hnone : find (fun kd => key4_eqb (fst kd) (c', r', p', b)) (combine keys ds') = None).
  { destruct (find _ (combine keys ds')) as [[k1 d1]|] eqn:Ef; [|reflexivity]. exfalso.
    apply find_some in Ef as [Hin Hk]. cbn [fst] in Hk. apply key4_eqb_eq in Hk. subst k1.
    apply in_combine_l in Hin. destruct (band_states_key_shape geo store c r p ids _ Hin) as [b' [_ E]].
    apply Hne. congruence. }
  rewrite Hnone. reflexivity.
Qed.

(* ---------- body extraction ---------- *)

Lemma slice_app : forall (pre mid post : list Z),
  slice (pre ++ mid ++ post) (zlen pre) (zlen pre + zlen mid) = Ok mid.
Proof.
  intros pre mid post. unfold slice. pose proof (zlen_nonneg pre). pose proof (zlen_nonneg mid). pose proof (zlen_nonneg post).
  rewrite !zlen_app.
  destruct (Z.leb_spec 0 (zlen pre)); [|lia]. destruct (Z.leb_spec (zlen pre) (zlen pre + zlen mid)); [|lia].
  destruct (Z.leb_spec (zlen pre + zlen mid) (zlen pre + (zlen mid + zlen post))); [|lia]. cbn [andb].
  f_equal. unfold zlen. rewrite Nat2Z.id.
  rewrite skipn_app, skipn_all, Nat.sub_diag. cbn [skipn app].
  replace (Z.to_nat (Z.of_nat (length pre) + Z.of_nat (length mid) - Z.of_nat (length pre))) with (length mid) by lia.
  rewrite firstn_app, firstn_all, Nat.sub_diag. cbn [firstn]. apply app_nil_r.
Qed.

(* what the decoder must report for the code-blocks of one packet, given the encoder's list *)
Definition body_match (e : eincl) (d : dincl * list Z * bool) : Prop :=
  di_included (fst (fst d)) = ei_included e /\
  (ei_included e = true -> di_np (fst (fst d)) = ei_np e /\ di_len (fst (fst d)) = zlen (ei_data e) /\
                          snd (fst d) = ei_data e) /\
  (ei_included e = false -> snd (fst d) = []).

Lemma dec_body_spec : forall (es : list eincl) (ds : list dincl) pre post strict resilient,
  Forall2 (fun e d => di_included d = ei_included e /\ (ei_included e = true -> di_np d = ei_np e /\ di_len d = zlen (ei_data e))) es ds ->
  Forall (fun e => zlen (ei_data e) <= 65535) es ->
  exists out,
    dec_body (pre ++ packet_body es ++ post) (zlen pre) strict resilient false ds =
      Ok (out, zlen pre + zlen (packet_body es), false) /\
    Forall2 body_match es out /\ flat_map (fun x => snd (fst x)) out = packet_body es.
Proof.
  induction es as [|e es IH]; intros ds pre post strict resilient HF Hsmall.
  - inversion HF; subst. exists []. cbn [dec_body packet_body flat_map]. split; [f_equal; f_equal; f_equal; unfold zlen; cbn; lia|].
    split; constructor.
  - destruct ds as [|d ds]; [inversion HF|]. apply Forall2_cons_iff in HF as [[Hi Hd] HF].
    pose proof (Forall_inv Hsmall) as Hs. cbv beta in Hs. pose proof (Forall_inv_tail Hsmall) as Hsmall'.
    unfold packet_body. cbn [flat_map]. fold (packet_body es).
    cbn [dec_body]. rewrite Hi.
    destruct (ei_included e) eqn:Einc; cbn [andb].
    + destruct (Hd eq_refl) as [Hnp Hlen]. rewrite Hlen.
      destruct (Z.ltb_spec 0 (zlen (ei_data e))) as [Hpos|Hzero].
      * (* data to extract *)
        set (data := pre ++ (ei_data e ++ packet_body es) ++ post).
        assert (Hdl : zlen data = zlen pre + zlen (ei_data e) + zlen (packet_body es) + zlen post)
          by (unfold data; rewrite !zlen_app; lia).
        pose proof (zlen_nonneg (packet_body es)). pose proof (zlen_nonneg post). pose proof (zlen_nonneg pre).
        destruct (Z.geb_spec (zlen pre) (zlen data)); [lia|].
        destruct (Z.gtb_spec (zlen pre + zlen (ei_data e)) (zlen data)); [lia|]. cbn [andb].
        destruct (Z.gtb_spec (zlen (ei_data e)) 65535); [lia|]. cbn [andb].
        assert (Hsl : slice data (zlen pre) (zlen pre + zlen (ei_data e)) = Ok (ei_data e)).
        { unfold data. rewrite <- app_assoc. apply slice_app. }
        rewrite Hsl. cbn [obind].
        specialize (IH ds (pre ++ ei_data e) post strict resilient HF Hsmall').
        destruct IH as [out [E [HM Hb]]].
        assert (Edata : data = (pre ++ ei_data e) ++ packet_body es ++ post)
          by (unfold data; rewrite <- !app_assoc; reflexivity).
        rewrite Edata. rewrite zlen_app in E. rewrite E. cbn [obind].
        eexists. split; [rewrite (zlen_app (ei_data e)), Z.add_assoc; reflexivity|].
        split.
        -- constructor; [|exact HM]. unfold body_match. cbn [fst snd di_included di_np di_len].
           rewrite Einc. split; [reflexivity|]. split; [|discriminate]. intros _. split; [exact Hnp|]. split; reflexivity.
        -- cbn [flat_map fst snd]. rewrite Hb. reflexivity.
      * (* an included block with no bytes in this layer *)
        assert (Hz : zlen (ei_data e) = 0) by (pose proof (zlen_nonneg (ei_data e)); lia).
        assert (Hnil : ei_data e = []) by (destruct (ei_data e); [reflexivity | rewrite zlen_cons in Hz; pose proof (zlen_nonneg l); lia]).
        rewrite Hnil. cbn [app].
        destruct (IH ds pre post strict resilient HF Hsmall') as [out [E [HM Hb]]].
        rewrite E. cbn [obind]. eexists. split; [reflexivity|]. split.
        -- constructor; [|exact HM]. unfold body_match. cbn [fst snd]. rewrite Hi, Einc. split; [reflexivity|].
           split; [|discriminate]. intros _. rewrite Hnil in *. repeat split; assumption.
        -- cbn [flat_map fst snd app]. exact Hb.
    + cbn [app].
      destruct (IH ds pre post strict resilient HF Hsmall') as [out [E [HM Hb]]].
      rewrite E. cbn [obind]. eexists. split; [reflexivity|]. split.
      * constructor; [|exact HM]. unfold body_match. cbn [fst snd]. rewrite Hi, Einc. split; [reflexivity|].
        split; [discriminate | reflexivity].
      * cbn [flat_map fst snd app]. exact Hb.
Qed.
