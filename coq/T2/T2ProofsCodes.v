(* C04 (t2): the numeric codes of a packet header - number of coding passes, comma code,
   Lblock length coding - are inverted by the decoder, with NumLenBits kept in sync.
   All statements are in the composable form
     BitsAt rest r (code ++ more) -> decoder r = Ok (value, r') /\ BitsAt rest r' more
   (T2ProofsBio: the reader is positioned on bits the writer produced). *)
From V Require Import Common.Base Framing.FrmWriters T2.T2Bio T2.T2ProofsBio T2.T2TagTree T2.T2Header.

Lemma ok_inj : forall {A} (a b : A), Ok a = Ok b -> a = b.
Proof. intros A a b H. injection H. auto. Qed.

Lemma ok_pair_inj : forall {A B} (a c : A) (b d : B), Ok (a, b) = Ok (c, d) -> c = a /\ d = b.
Proof. intros A B a c b d H. injection H. auto. Qed.

(* ---------- reader measure: bits still available ---------- *)

Definition rd_mu (r : rd) : Z := rd_ct r + 8 * zlen (rd_data r).

Lemma bitsat_ct : forall rest r l, BitsAt rest r l -> 0 <= rd_ct r <= 8.
Proof.
  intros rest r l [_ [[_ ->] | [s [[Hc _] [Hct _]]]]]; [cbn; lia | lia].
Qed.

Lemma read_bit_mu : forall r b r', 0 <= rd_ct r <= 8 -> rd_read_bit r = Ok (b, r') ->
  rd_mu r' <= rd_mu r - 1 /\ 0 <= rd_ct r' <= 8.
Proof.
  intros r b r' Hc H. unfold rd_read_bit in H.
  destruct (Z.eqb_spec (rd_ct r) 0) as [E|E].
  - unfold rd_bytein in H. destruct (rd_data r) as [|x t] eqn:Ed; cbn [obind] in H; [discriminate|].
    inversion H; subst. unfold rd_mu. cbn [rd_ct rd_data]. rewrite Ed, zlen_cons.
    destruct (wrapU 16 (rd_buf r * 256) =? 65280); lia.
  - cbn [obind] in H. inversion H; subst. unfold rd_mu. cbn [rd_ct rd_data]. lia.
Qed.

Lemma zlen_nonneg : forall {A} (l : list A), 0 <= zlen l.
Proof. intros. unfold zlen. lia. Qed.

Lemma bitsat_len : forall l rest r, BitsAt rest r l -> zlen l <= rd_mu r.
Proof.
  induction l as [|b l IH]; intros rest r HB.
  - pose proof (bitsat_ct _ _ _ HB). unfold rd_mu. pose proof (zlen_nonneg (rd_data r)).
    change (zlen (@nil Z)) with 0. lia.
  - pose proof (bitsat_ct _ _ _ HB) as Hc.
    destruct (bitsat_step _ _ _ _ HB) as [r' [E HB']].
    destruct (read_bit_mu _ _ _ Hc E) as [Hm _]. specialize (IH _ _ HB'). rewrite zlen_cons. lia.
Qed.

(* ---------- floorLog2 ---------- *)

Lemma fl2_nonneg : forall x, 0 <= floor_log2 x.
Proof. intros x. unfold floor_log2. destruct (x <=? 1); [lia | apply Z.log2_nonneg]. Qed.

Lemma fl2_upper : forall x, 0 <= x -> x < 2 ^ (floor_log2 x + 1).
Proof.
  intros x Hx. unfold floor_log2. destruct (Z.leb_spec x 1).
  - change (2 ^ (0 + 1)) with 2. lia.
  - pose proof (Z.log2_spec x ltac:(lia)). unfold Z.succ in *. lia.
Qed.

Lemma fl2_bound : forall x K, 0 <= x < 2 ^ K -> 1 <= K -> floor_log2 x + 1 <= K.
Proof.
  intros x K Hx HK. unfold floor_log2. destruct (Z.leb_spec x 1); [lia|].
  assert (Z.log2 x < K) by (apply Z.log2_lt_pow2; lia). lia.
Qed.

Lemma fl2_passes : forall np, 1 <= np <= 164 -> 0 <= floor_log2 np <= 7.
Proof.
  intros np H. split; [apply fl2_nonneg|].
  pose proof (fl2_bound np 8 ltac:(change (2 ^ 8) with 256; lia) ltac:(lia)). lia.
Qed.

(* ---------- number of coding passes ---------- *)

Definition list_eqb (a b : list Z) : bool :=
  (length a =? length b)%nat && forallb (fun p => fst p =? snd p) (combine a b).

Lemma list_eqb_eq : forall a b, list_eqb a b = true -> a = b.
Proof.
  induction a as [|x a IH]; intros [|y b] H; try reflexivity; try discriminate.
  unfold list_eqb in H. cbn [length combine forallb fst snd] in H.
  apply andb_prop in H as [Hl H]. apply andb_prop in H as [Hx H].
  apply Z.eqb_eq in Hx. subst y. f_equal. apply IH. unfold list_eqb.
  rewrite Nat.eqb_eq in Hl. injection Hl as Hl. rewrite Hl, Nat.eqb_refl. exact H.
Qed.

Lemma np_mid_bits : forall m, 0 <= m <= 30 ->
  bits_of (Z.lor 480 m) 9 = [1; 1; 1; 1] ++ bits_of m 5.
Proof.
  assert (H : forallb (fun m => list_eqb (bits_of (Z.lor 480 m) 9) ([1; 1; 1; 1] ++ bits_of m 5))
                (zseq 31) = true) by (vm_compute; reflexivity).
  intros m Hm. rewrite forallb_forall in H. apply list_eqb_eq. apply H.
  unfold zseq. apply in_map_iff. exists (Z.to_nat m). split; [lia|]. apply in_seq. lia.
Qed.

Lemma np_high_bits : forall m, 0 <= m <= 127 ->
  bits_of (Z.lor 65408 m) 16 = [1; 1; 1; 1; 1; 1; 1; 1; 1] ++ bits_of m 7.
Proof.
  assert (H : forallb (fun m => list_eqb (bits_of (Z.lor 65408 m) 16)
                                  ([1; 1; 1; 1; 1; 1; 1; 1; 1] ++ bits_of m 7)) (zseq 128) = true)
    by (vm_compute; reflexivity).
  intros m Hm. rewrite forallb_forall in H. apply list_eqb_eq. apply H.
  unfold zseq. apply in_map_iff. exists (Z.to_nat m). split; [lia|]. apply in_seq. lia.
Qed.

Ltac step_bit HB r1 E HB1 :=
  let H := fresh in
  pose proof (bitsat_step _ _ _ _ HB) as H; destruct H as [r1 [E HB1]].

(* numpasses_code_exhaustive: every n in 1..164 is decoded to itself, whatever follows *)
Theorem numpasses_code_exhaustive : forall n bs rest r more, 1 <= n <= 164 ->
  enc_numpasses n = Ok bs -> BitsAt rest r (bs ++ more) ->
  exists r', dec_numpasses r = Ok (n, r') /\ BitsAt rest r' more.
Proof.
  intros n bs rest r more Hn He HB. unfold enc_numpasses in He. unfold dec_numpasses.
  destruct (Z.eqb_spec n 1) as [E1|E1].
  { apply ok_inj in He; subst bs. cbn [app] in HB. step_bit HB r1 Eb HB1.
    rewrite Eb. cbn [obind fst snd]. change (0 =? 0) with true. cbn iota.
    exists r1. split; [subst n; reflexivity | exact HB1]. }
  destruct (Z.eqb_spec n 2) as [E2|E2].
  { apply ok_inj in He; subst bs. change (bits_of 2 2) with [1; 0] in HB. cbn [app] in HB.
    step_bit HB r1 Eb HB1. step_bit HB1 r2 Eb2 HB2.
    rewrite Eb. cbn [obind fst snd]. change (1 =? 0) with false. cbn iota.
    rewrite Eb2. cbn [obind fst snd]. change (0 =? 0) with true. cbn iota.
    exists r2. split; [subst n; reflexivity | exact HB2]. }
  destruct (Z.leb_spec n 5) as [E5|E5].
  { apply ok_inj in He; subst bs.
    assert (Hb : bits_of (Z.lor 12 (n - 3)) 4 = [1; 1] ++ bits_of (n - 3) 2).
    { assert (C : n = 3 \/ n = 4 \/ n = 5) by lia. destruct C as [->|[->| ->]]; reflexivity. }
    rewrite Hb in HB. rewrite <- app_assoc in HB. cbn [app] in HB.
    step_bit HB r1 Eb HB1. step_bit HB1 r2 Eb2 HB2.
    destruct (bitsat_read_bits rest r2 (n - 3) 2 more ltac:(lia) ltac:(change (2 ^ 2) with 4; lia) HB2)
      as [r3 [E3 HB3]].
    rewrite Eb. cbn [obind fst snd]. change (1 =? 0) with false. cbn iota.
    rewrite Eb2. cbn [obind fst snd]. change (1 =? 0) with false. cbn iota.
    rewrite E3. cbn [obind fst snd].
    destruct (Z.eqb_spec (n - 3) 3); [lia|]. cbn [negb].
    exists r3. split; [f_equal; f_equal; lia | exact HB3]. }
  destruct (Z.leb_spec n 36) as [E36|E36].
  { apply ok_inj in He; subst bs. rewrite np_mid_bits in HB by lia.
    rewrite <- app_assoc in HB. cbn [app] in HB.
    step_bit HB r1 Eb HB1. step_bit HB1 r2 Eb2 HB2.
    change (1 :: 1 :: bits_of (n - 6) 5 ++ more) with (bits_of 3 2 ++ bits_of (n - 6) 5 ++ more) in HB2.
    destruct (bitsat_read_bits rest r2 3 2 _ ltac:(lia) ltac:(change (2 ^ 2) with 4; lia) HB2)
      as [r3 [E3 HB3]].
    destruct (bitsat_read_bits rest r3 (n - 6) 5 more ltac:(lia) ltac:(change (2 ^ 5) with 32; lia) HB3)
      as [r4 [E4 HB4]].
    rewrite Eb. cbn [obind fst snd]. change (1 =? 0) with false. cbn iota.
    rewrite Eb2. cbn [obind fst snd]. change (1 =? 0) with false. cbn iota.
    rewrite E3. cbn [obind fst snd]. change (3 =? 3) with true. cbn [negb].
    rewrite E4. cbn [obind fst snd].
    destruct (Z.eqb_spec (n - 6) 31); [lia|]. cbn [negb].
    exists r4. split; [f_equal; f_equal; lia | exact HB4]. }
  destruct (Z.leb_spec n 164) as [E164|E164]; [|lia].
  apply ok_inj in He; subst bs. rewrite np_high_bits in HB by lia.
  rewrite <- app_assoc in HB. cbn [app] in HB.
  step_bit HB r1 Eb HB1. step_bit HB1 r2 Eb2 HB2.
  change (1 :: 1 :: 1 :: 1 :: 1 :: 1 :: 1 :: bits_of (n - 37) 7 ++ more)
    with (bits_of 3 2 ++ bits_of 31 5 ++ bits_of (n - 37) 7 ++ more) in HB2.
  destruct (bitsat_read_bits rest r2 3 2 _ ltac:(lia) ltac:(change (2 ^ 2) with 4; lia) HB2)
    as [r3 [E3 HB3]].
  destruct (bitsat_read_bits rest r3 31 5 _ ltac:(lia) ltac:(change (2 ^ 5) with 32; lia) HB3)
    as [r4 [E4 HB4]].
  destruct (bitsat_read_bits rest r4 (n - 37) 7 more ltac:(lia) ltac:(change (2 ^ 7) with 128; lia) HB4)
    as [r5 [E5' HB5]].
  rewrite Eb. cbn [obind fst snd]. change (1 =? 0) with false. cbn iota.
  rewrite Eb2. cbn [obind fst snd]. change (1 =? 0) with false. cbn iota.
  rewrite E3. cbn [obind fst snd]. change (3 =? 3) with true. cbn [negb].
  rewrite E4. cbn [obind fst snd]. change (31 =? 31) with true. cbn [negb].
  rewrite E5'. cbn [obind fst snd].
  exists r5. split; [f_equal; f_equal; lia | exact HB5].
Qed.

Lemma enc_numpasses_ok : forall n, 1 <= n <= 164 -> exists bs, enc_numpasses n = Ok bs /\ Forall bit01 bs.
Proof.
  intros n Hn. unfold enc_numpasses.
  destruct (n =? 1); [eexists; split; [reflexivity | repeat constructor]|].
  destruct (n =? 2); [eexists; split; [reflexivity | apply bits_of_01]|].
  destruct (n <=? 5); [eexists; split; [reflexivity | apply bits_of_01]|].
  destruct (n <=? 36); [eexists; split; [reflexivity | apply bits_of_01]|].
  destruct (Z.leb_spec n 164); [eexists; split; [reflexivity | apply bits_of_01] | lia].
Qed.

(* the 164 codewords are pairwise prefix-free (finite check over the whole domain) *)
Fixpoint is_prefix (a b : list Z) : bool :=
  match a, b with
  | [], _ => true
  | x :: a', y :: b' => (x =? y) && is_prefix a' b'
  | _ :: _, [] => false
  end.

Definition np_bits (n : Z) : list Z := match enc_numpasses n with Ok bs => bs | _ => [] end.

Theorem numpasses_prefix_free :
  forallb (fun n => forallb (fun m => (n =? m) || negb (is_prefix (np_bits n) (np_bits m)))
                      (map (Z.add 1) (zseq 164))) (map (Z.add 1) (zseq 164)) = true.
Proof. vm_compute. reflexivity. Qed.

(* ---------- comma code ---------- *)

Lemma enc_comma_01 : forall n, Forall bit01 (enc_comma n).
Proof.
  intros n. unfold enc_comma. apply Forall_app. split.
  - apply Forall_forall. intros x Hx. apply repeat_spec in Hx. right. exact Hx.
  - repeat constructor.
Qed.

Lemma comma_loop_spec : forall k fuel rest r acc more,
  BitsAt rest r (repeat 1 k ++ 0 :: more) -> (k < fuel)%nat ->
  exists r', dec_comma_loop fuel r acc = Ok (acc + Z.of_nat k, r') /\ BitsAt rest r' more.
Proof.
  induction k as [|k IH]; intros fuel rest r acc more HB Hf.
  - destruct fuel as [|f]; [lia|]. cbn [repeat app] in HB. step_bit HB r1 Eb HB1.
    cbn [dec_comma_loop]. rewrite Eb. cbn [obind fst snd]. change (0 =? 0) with true. cbn iota.
    exists r1. split; [f_equal; f_equal; lia | exact HB1].
  - destruct fuel as [|f]; [lia|]. cbn [repeat app] in HB. step_bit HB r1 Eb HB1.
    cbn [dec_comma_loop]. rewrite Eb. cbn [obind fst snd]. change (1 =? 0) with false. cbn iota.
    destruct (IH f rest r1 (acc + 1) more HB1 ltac:(lia)) as [r' [E HB']].
    exists r'. split; [|exact HB']. rewrite E. f_equal. f_equal. lia.
Qed.

Theorem comma_roundtrip : forall n rest r more, 0 <= n ->
  BitsAt rest r (enc_comma n ++ more) ->
  exists r', dec_comma r = Ok (n, r') /\ BitsAt rest r' more.
Proof.
  intros n rest r more Hn HB. unfold enc_comma in HB. rewrite <- app_assoc in HB. cbn [app] in HB.
  pose proof (bitsat_len _ _ _ HB) as Hl. pose proof (bitsat_ct _ _ _ HB) as Hc.
  unfold dec_comma.
  destruct (comma_loop_spec (Z.to_nat n) (comma_fuel r) rest r 0 more HB) as [r' [E HB']].
  - unfold comma_fuel. unfold rd_mu in Hl. rewrite zlen_app in Hl. unfold zlen in Hl.
    rewrite repeat_length in Hl. cbn [length] in Hl. lia.
  - exists r'. split; [|exact HB']. rewrite E. f_equal. f_equal. lia.
Qed.

(* ---------- Lblock ---------- *)

Definition norm_nlb (n : Z) : Z := if n <=? 0 then 3 else n.

Lemma zsum_app : forall a b, zsum (a ++ b) = zsum a + zsum b.
Proof. unfold zsum. induction a as [|x a IH]; intros b; cbn [app fold_right]; [lia|]. rewrite IH. lia. Qed.

Lemma zsum_cons : forall x l, zsum (x :: l) = x + zsum l.
Proof. reflexivity. Qed.

(* one codeword segment: comma(inc), then the length in nlb + inc + floorLog2(np) bits *)
Lemma single_seg_rt : forall X np nlbD rest r more,
  0 <= X < 2 ^ 25 -> 1 <= np <= 164 -> 1 <= norm_nlb nlbD <= 25 ->
  let nlb := norm_nlb nlbD in
  let inc0 := (floor_log2 X + 1) - (nlb + floor_log2 np) in
  let inc := if inc0 <? 0 then 0 else inc0 in
  BitsAt rest r (enc_comma inc ++ bits_of X (nlb + inc + floor_log2 np) ++ more) ->
  exists r', dec_lengths r np nlbD false = Ok (X, [], nlb + inc, r') /\ BitsAt rest r' more /\
             1 <= nlb + inc <= 25.
Proof.
  intros X np nlbD rest r more HX Hnp Hnlb nlb inc0 inc HB.
  pose proof (fl2_passes np Hnp) as Hfp.
  pose proof (fl2_upper X ltac:(lia)) as Hup.
  pose proof (fl2_bound X 25 HX ltac:(lia)) as Hfb.
  pose proof (fl2_nonneg X) as Hfx.
  assert (Hinc : 0 <= inc) by (unfold inc; destruct (Z.ltb_spec inc0 0); lia).
  destruct (comma_roundtrip inc rest r _ Hinc HB) as [r1 [E1 HB1]].
  assert (Hbc : 1 <= nlb + inc + floor_log2 np <= 32 /\ floor_log2 X + 1 <= nlb + inc + floor_log2 np
                /\ nlb + inc <= 25).
  { unfold inc, inc0. destruct (Z.ltb_spec (floor_log2 X + 1 - (nlb + floor_log2 np)) 0); lia. }
  destruct Hbc as [Hbc [Hge Hle]].
  assert (HXb : 0 <= X < 2 ^ (nlb + inc + floor_log2 np)).
  { split; [lia|]. eapply Z.lt_le_trans; [exact Hup|]. apply Z.pow_le_mono_r; lia. }
  destruct (bitsat_read_bits rest r1 X _ more Hbc HXb HB1) as [r2 [E2 HB2]].
  exists r2. split; [|split; [exact HB2 | fold nlb in Hnlb; lia]].
  unfold dec_lengths. destruct (Z.leb_spec np 0); [lia|].
  fold (norm_nlb nlbD). fold nlb. rewrite E1. cbn [obind fst snd]. rewrite E2. cbn [obind fst snd].
  reflexivity.
Qed.

(* --- the per-segment loops when no pass of the range terminates before the last one --- *)

Definition seg_slice (pl : list Z) (prev np : Z) : list Z := firstn (Z.to_nat np) (skipn (Z.to_nat prev) pl).

Definition no_mid_term (terms : list bool) (prev last : Z) : Prop :=
  forall i, prev <= i < last -> pass_terminates terms false i = false.

Lemma znth_skipn_hd : forall (pl : list Z) i, 0 <= i < zlen pl ->
  skipn (Z.to_nat i) pl = znth pl i 0 :: skipn (Z.to_nat (i + 1)) pl.
Proof.
  intros pl i Hi. unfold znth. destruct (Z.ltb_spec i 0); [lia|].
  replace (Z.to_nat (i + 1)) with (S (Z.to_nat i)) by lia.
  unfold zlen in Hi. assert (Hn : (Z.to_nat i < length pl)%nat) by lia.
  revert Hn. generalize (Z.to_nat i). clear Hi H. intros n. revert pl.
  induction n as [|n IH]; intros [|x pl] Hn; cbn [length] in Hn; try lia.
  - reflexivity.
  - cbn [skipn nth]. apply IH. lia.
Qed.

Lemma seg_slice_zero : forall pl p, seg_slice pl p 0 = [].
Proof. reflexivity. Qed.

Lemma seg_slice_succ : forall pl p k, 0 <= p < zlen pl ->
  seg_slice pl p (Z.of_nat (S k)) = znth pl p 0 :: seg_slice pl (p + 1) (Z.of_nat k).
Proof.
  intros pl p k Hp. unfold seg_slice. rewrite znth_skipn_hd by lia. rewrite !Nat2Z.id. reflexivity.
Qed.

Lemma zsum_nil : zsum [] = 0.
Proof. reflexivity. Qed.

Lemma single_inc : forall k pl terms nlb last passIdx nump segLen inc,
  no_mid_term terms passIdx last -> passIdx + Z.of_nat k = last + 1 -> (0 < k)%nat ->
  0 <= passIdx -> last < zlen pl ->
  len_increment pl terms false nlb last k passIdx nump segLen inc =
  (let total := segLen + zsum (seg_slice pl passIdx (Z.of_nat k)) in
   let need := (floor_log2 total + 1) - (nlb + floor_log2 (nump + Z.of_nat k)) in
   if need >? inc then need else inc).
Proof.
  induction k as [|k IH]; intros pl terms nlb last passIdx nump segLen inc Hnt Hk Hpos Hp Hl; [lia|].
  cbn [len_increment]. cbv zeta.
  rewrite seg_slice_succ by lia. rewrite zsum_cons.
  destruct k as [|k'].
  - (* last pass *)
    assert (passIdx = last) by lia. subst passIdx.
    rewrite Z.eqb_refl, Bool.orb_true_r. cbn [len_increment].
    change (Z.of_nat 0) with 0. rewrite seg_slice_zero, zsum_nil, Z.add_0_r.
    change (Z.of_nat 1) with 1. reflexivity.
  - assert (Hlt : passIdx < last) by lia.
    rewrite (Hnt passIdx ltac:(lia)). destruct (Z.eqb_spec passIdx last); [lia|]. cbn [orb].
    rewrite IH; try lia.
    + cbv zeta.
      replace (segLen + znth pl passIdx 0 + zsum (seg_slice pl (passIdx + 1) (Z.of_nat (S k'))))
        with (segLen + (znth pl passIdx 0 + zsum (seg_slice pl (passIdx + 1) (Z.of_nat (S k'))))) by lia.
      replace (nump + 1 + Z.of_nat (S k')) with (nump + Z.of_nat (S (S k'))) by lia.
      reflexivity.
    + intros i Hi. apply Hnt. lia.
Qed.

Lemma single_segs : forall k pl terms nlb last passIdx nump segLen,
  no_mid_term terms passIdx last -> passIdx + Z.of_nat k = last + 1 -> (0 < k)%nat ->
  0 <= passIdx -> last < zlen pl ->
  len_segments pl terms false nlb last k passIdx nump segLen =
  bits_of (segLen + zsum (seg_slice pl passIdx (Z.of_nat k))) (nlb + floor_log2 (nump + Z.of_nat k)).
Proof.
  induction k as [|k IH]; intros pl terms nlb last passIdx nump segLen Hnt Hk Hpos Hp Hl; [lia|].
  cbn [len_segments].
  rewrite seg_slice_succ by lia. rewrite zsum_cons.
  destruct k as [|k'].
  - assert (passIdx = last) by lia. subst passIdx.
    rewrite Z.eqb_refl, Bool.orb_true_r. cbn [len_segments]. rewrite app_nil_r.
    change (Z.of_nat 0) with 0. rewrite seg_slice_zero, zsum_nil, Z.add_0_r.
    change (Z.of_nat 1) with 1. reflexivity.
  - assert (Hlt : passIdx < last) by lia.
    rewrite (Hnt passIdx ltac:(lia)). destruct (Z.eqb_spec passIdx last); [lia|]. cbn [orb].
    rewrite IH; try lia.
    + f_equal; [lia|]. f_equal. f_equal. lia.
    + intros i Hi. apply Hnt. lia.
Qed.

(* --- the per-segment loops under TERMALL: one segment per pass --- *)

Fixpoint max_need (nlb : Z) (l : list Z) (inc : Z) : Z :=
  match l with
  | [] => inc
  | x :: r => let need := floor_log2 x + 1 - nlb in max_need nlb r (if need >? inc then need else inc)
  end.

Lemma termall_inc : forall k pl terms nlb last passIdx inc,
  0 <= passIdx -> passIdx + Z.of_nat k <= zlen pl ->
  len_increment pl terms true nlb last k passIdx 0 0 inc =
  max_need nlb (seg_slice pl passIdx (Z.of_nat k)) inc.
Proof.
  induction k as [|k IH]; intros pl terms nlb last passIdx inc Hp Hl.
  - reflexivity.
  - cbn [len_increment]. unfold pass_terminates at 1. cbn [orb].
    rewrite seg_slice_succ by lia. cbn [max_need]. rewrite IH by lia.
    change (floor_log2 (0 + 1)) with 0. rewrite Z.add_0_l, Z.add_0_r. reflexivity.
Qed.

Lemma termall_segs : forall k pl terms nlb last passIdx,
  0 <= passIdx -> passIdx + Z.of_nat k <= zlen pl ->
  len_segments pl terms true nlb last k passIdx 0 0 =
  flat_map (fun x => bits_of x nlb) (seg_slice pl passIdx (Z.of_nat k)).
Proof.
  induction k as [|k IH]; intros pl terms nlb last passIdx Hp Hl.
  - reflexivity.
  - cbn [len_segments]. unfold pass_terminates at 1. cbn [orb].
    rewrite seg_slice_succ by lia. cbn [flat_map]. rewrite IH by lia.
    change (floor_log2 (0 + 1)) with 0. rewrite Z.add_0_l, Z.add_0_r. reflexivity.
Qed.

Lemma max_need_ge : forall l nlb inc, inc <= max_need nlb l inc.
Proof.
  induction l as [|x l IH]; intros nlb inc; cbn [max_need]; [lia|].
  destruct (Z.gtb_spec (floor_log2 x + 1 - nlb) inc); [|apply IH].
  eapply Z.le_trans; [|apply IH]. lia.
Qed.

Lemma max_need_covers : forall l nlb inc x, In x l -> floor_log2 x + 1 - nlb <= max_need nlb l inc.
Proof.
  induction l as [|y l IH]; intros nlb inc x Hin; [contradiction|].
  cbn [max_need]. destruct Hin as [->|Hin]; [|apply IH; exact Hin].
  eapply Z.le_trans; [|apply max_need_ge].
  destruct (Z.gtb_spec (floor_log2 x + 1 - nlb) inc); lia.
Qed.

Lemma max_need_upper : forall l nlb inc K, inc <= K -> (forall x, In x l -> floor_log2 x + 1 - nlb <= K) ->
  max_need nlb l inc <= K.
Proof.
  induction l as [|y l IH]; intros nlb inc K Hi H; cbn [max_need]; [exact Hi|].
  apply IH.
  - destruct (Z.gtb_spec (floor_log2 y + 1 - nlb) inc); [apply H; left; reflexivity | exact Hi].
  - intros x Hx. apply H. right. exact Hx.
Qed.

Lemma seglens_spec : forall l nlb rest r more, 1 <= nlb <= 32 ->
  (forall x, In x l -> 0 <= x < 2 ^ nlb) ->
  BitsAt rest r (flat_map (fun x => bits_of x nlb) l ++ more) ->
  exists r', dec_seglens (length l) r nlb = Ok (l, r') /\ BitsAt rest r' more.
Proof.
  induction l as [|x l IH]; intros nlb rest r more Hn Hx HB.
  - exists r. split; [reflexivity | exact HB].
  - cbn [flat_map] in HB. rewrite <- app_assoc in HB.
    destruct (bitsat_read_bits rest r x nlb _ Hn (Hx x ltac:(left; reflexivity)) HB) as [r1 [E1 HB1]].
    destruct (IH nlb rest r1 more Hn ltac:(intros y Hy; apply Hx; right; exact Hy) HB1) as [r' [E' HB']].
    exists r'. split; [|exact HB']. cbn [length dec_seglens]. rewrite E1. cbn [obind fst snd].
    rewrite E'. reflexivity.
Qed.

Lemma seg_slice_length : forall pl prev np, 0 <= prev -> 0 <= np -> prev + np <= zlen pl ->
  length (seg_slice pl prev np) = Z.to_nat np.
Proof.
  intros pl prev np Hp Hn Hl. unfold seg_slice. rewrite firstn_length, skipn_length. unfold zlen in Hl. lia.
Qed.

(* ---------- lblock_roundtrip ----------
   One contribution (np >= 1 new passes).  What the header announces:
     - single-segment variant (no per-pass lengths available for the range): dataLen;
     - per-segment variant without TERMALL and with no terminated pass before the last of the
       range: the sum of the per-pass lengths of the range, as ONE segment;
     - TERMALL (encoder and decoder): one length per pass, the decoder returns them and their sum.
   In all three the decoder's NumLenBits equals the encoder's afterwards and stays <= 25. *)
Definition announced (dataLen prev np : Z) (pl : option (list Z)) : Z :=
  match pl with
  | None => dataLen
  | Some l => if prev + np >? zlen l then dataLen else zsum (seg_slice l prev np)
  end.

Definition lengths_domain (dataLen prev np : Z) (termAll : bool) (pl : option (list Z)) (terms : list bool) : Prop :=
  1 <= np <= 164 /\ 0 <= dataLen < 2 ^ 25 /\
  match pl with
  | None => termAll = false
  | Some l =>
    if prev + np >? zlen l then termAll = false
    else 0 <= prev /\ (forall x, In x (seg_slice l prev np) -> 0 <= x < 2 ^ 25) /\
         zsum (seg_slice l prev np) < 2 ^ 25 /\
         (termAll = false -> no_mid_term terms prev (prev + np - 1))
  end.

Theorem lblock_roundtrip : forall nlbE nlbD dataLen prev np termAll pl terms bs nlbE' rest r more,
  lengths_domain dataLen prev np termAll pl terms ->
  norm_nlb nlbE = norm_nlb nlbD -> 1 <= norm_nlb nlbE <= 25 ->
  enc_lengths nlbE dataLen prev np termAll pl terms = Ok (bs, nlbE') ->
  BitsAt rest r (bs ++ more) ->
  exists pls r', dec_lengths r np nlbD termAll = Ok (announced dataLen prev np pl, pls, nlbE', r') /\
    BitsAt rest r' more /\ 1 <= nlbE' <= 25 /\ norm_nlb nlbE' = nlbE' /\
    (termAll = true -> pls = match pl with Some l => seg_slice l prev np | None => [] end) /\
    (termAll = false -> pls = []).
Proof.
  intros nlbE nlbD dataLen prev np termAll pl terms bs nlbE' rest r more
         [Hnp [Hdl Hdom]] Hnorm Hnlb He HB.
  unfold enc_lengths in He. destruct (Z.leb_spec np 0); [lia|].
  fold (norm_nlb nlbE) in He.
  assert (Hnn : forall n, 1 <= n -> norm_nlb n = n).
  { intros n Hn1. unfold norm_nlb. destruct (Z.leb_spec n 0); lia. }
  (* the single-segment form, for a length X *)
  assert (Hsingle : forall X, 0 <= X < 2 ^ 25 ->
    let nlb := norm_nlb nlbE in
    let inc0 := floor_log2 X + 1 - (nlb + floor_log2 np) in
    let inc := if inc0 <? 0 then 0 else inc0 in
    bs = enc_comma inc ++ bits_of X (nlb + inc + floor_log2 np) -> nlbE' = nlb + inc ->
    exists r', dec_lengths r np nlbD false = Ok (X, [], nlbE', r') /\ BitsAt rest r' more /\
               1 <= nlbE' <= 25 /\ norm_nlb nlbE' = nlbE').
  { intros X HX nlb inc0 inc Hbs Hn'. subst bs nlbE'. rewrite <- app_assoc in HB.
    subst inc inc0 nlb. rewrite Hnorm in *.
    destruct (single_seg_rt X np nlbD rest r more HX Hnp Hnlb HB) as [r' [E [HB' Hb]]].
    exists r'. split; [exact E|]. split; [exact HB'|]. split; [exact Hb|]. apply Hnn. lia. }
  destruct pl as [l|].
  2:{ (* passLens == nil *)
    subst termAll. destruct (ok_pair_inj _ _ _ _ He) as [Hbs Hn'].
    destruct (Hsingle dataLen Hdl Hbs Hn') as [r' [E [HB' [Hb Hnn']]]].
    exists [], r'. cbn [announced]. split; [exact E|]. split; [exact HB'|]. split; [exact Hb|].
    split; [exact Hnn'|]. split; [discriminate | reflexivity]. }
  cbn [announced]. destruct (Z.gtb_spec (prev + np) (zlen l)) as [Hgt|Hle].
  { subst termAll. destruct (ok_pair_inj _ _ _ _ He) as [Hbs Hn'].
    destruct (Hsingle dataLen Hdl Hbs Hn') as [r' [E [HB' [Hb Hnn']]]].
    exists [], r'. split; [exact E|]. split; [exact HB'|]. split; [exact Hb|].
    split; [exact Hnn'|]. split; [discriminate | reflexivity]. }
  destruct Hdom as [Hprev [Hxs [Hsum Hterm]]].
  destruct (Z.ltb_spec prev 0); [lia|].
  assert (Hk : prev + Z.of_nat (Z.to_nat np) = prev + np - 1 + 1) by lia.
  destruct termAll.
  - (* TERMALL: one segment per pass *)
    rewrite termall_inc in He by lia. rewrite termall_segs in He by lia.
    rewrite Z2Nat.id in He by lia.
    set (sl := seg_slice l prev np) in *.
    set (m0 := max_need (norm_nlb nlbE) sl 0) in *.
    assert (Hm0 : 0 <= m0) by apply max_need_ge.
    destruct (Z.ltb_spec m0 0); [lia|]. destruct (ok_pair_inj _ _ _ _ He) as [Hbs Hn']. subst bs nlbE'. clear He.
    rewrite <- app_assoc in HB.
    destruct (comma_roundtrip m0 rest r _ Hm0 HB) as [r1 [E1 HB1]].
    assert (Hup : norm_nlb nlbE + m0 <= 25).
    { assert (m0 <= 25 - norm_nlb nlbE); [|lia]. apply max_need_upper; [lia|].
      intros x Hx. pose proof (fl2_bound x 25 (Hxs x Hx) ltac:(lia)). lia. }
    assert (Hfit : forall x, In x sl -> 0 <= x < 2 ^ (norm_nlb nlbE + m0)).
    { intros x Hx. pose proof (Hxs x Hx) as Hx25. split; [lia|].
      pose proof (max_need_covers sl (norm_nlb nlbE) 0 x Hx). fold m0 in H1.
      eapply Z.lt_le_trans; [apply fl2_upper; lia|]. apply Z.pow_le_mono_r; lia. }
    destruct (seglens_spec sl (norm_nlb nlbE + m0) rest r1 more ltac:(lia) Hfit HB1) as [r2 [E2 HB2]].
    exists sl, r2.
    split.
    + unfold dec_lengths. destruct (Z.leb_spec np 0); [lia|]. fold (norm_nlb nlbD). rewrite <- Hnorm.
      rewrite E1. cbn [obind fst snd].
      unfold sl in E2 at 1. rewrite seg_slice_length in E2 by lia. rewrite E2. cbn [obind fst snd]. reflexivity.
    + split; [exact HB2|]. split; [lia|]. split; [apply Hnn; lia|]. split; [reflexivity | discriminate].
  - (* one segment ending at the last pass *)
    specialize (Hterm eq_refl).
    rewrite single_inc in He; try lia; try assumption.
    rewrite single_segs in He; try lia; try assumption.
    cbv zeta in He. rewrite Z2Nat.id in He by lia. rewrite !Z.add_0_l in He.
    fold (seg_slice l prev np) in He.
    set (X := zsum (seg_slice l prev np)) in *.
    assert (HX : 0 <= X < 2 ^ 25).
    { split; [|exact Hsum]. unfold X. clear - Hxs. induction (seg_slice l prev np) as [|a t IH]; [cbn; lia|].
      cbn [zsum fold_right]. fold (zsum t). pose proof (Hxs a ltac:(left; reflexivity)).
      assert (0 <= zsum t) by (apply IH; intros y Hy; apply Hxs; right; exact Hy). lia. }
    set (need := floor_log2 X + 1 - (norm_nlb nlbE + floor_log2 np)) in *.
    assert (Hincs : (if (if need >? 0 then need else 0) <? 0 then 0 else (if need >? 0 then need else 0))
                    = (if need <? 0 then 0 else need)).
    { destruct (Z.gtb_spec need 0) as [G|G]; [reflexivity|].
      change (0 <? 0) with false. cbn iota. destruct (Z.ltb_spec need 0); [reflexivity | lia]. }
    rewrite Hincs in He. destruct (ok_pair_inj _ _ _ _ He) as [Hbs Hn'].
    destruct (Hsingle X HX) as [r' [E [HB' [Hb Hnn']]]].
    { fold need. exact Hbs. }
    { fold need. exact Hn'. }
    exists [], r'. split; [exact E|]. split; [exact HB'|]. split; [exact Hb|].
    split; [exact Hnn'|]. split; [discriminate | reflexivity].
Qed.

(* a terminated pass in the middle of the range without TERMALL (selective bypass coding) is
   outside the domain above and really is not decodable by this decoder: the encoder writes
   two segment lengths, the decoder reads one.  (The encoder of /repo uses code-block style 0,
   where only the last pass terminates.) *)
Theorem lblock_midterm_refuted :
  exists dataLen pl terms bs nlb',
    enc_lengths 0 dataLen 0 2 false (Some pl) terms = Ok (bs, nlb') /\
    forall r', dec_lengths (rd_init (bio_encode bs)) 2 0 false <> Ok (announced dataLen 0 2 (Some pl), [], nlb', r').
Proof.
  exists 8, [4; 4], [true; false]. eexists. eexists. split; [vm_compute; reflexivity|].
  intros r' H. vm_compute in H. discriminate.
Qed.
