(* EXTRACT *)
(* JPEG 2000 tier-2, bit I/O of packet headers (jpeg2000/t2/packet_header_bitio.go).

   Writer.  bioWriter (out uint16, ct int; 7 usable bits after an FF byte) is modelled in
   Framing/FrmWriters.v (bio, bio_init, bio_byteout, bio_write_bit, bio_flush, bio_run,
   bio_encode) and re-used here; `bio_no_marker` is proved over that model.  The bit writer is a
   pure sink (no caller ever reads its state), so every header encoder of this area is a
   function producing the list of bits it hands to writeBit, and the header bytes are
   `bio_encode bits` = writeBit for every bit, then flush.  writeBits(value, n) is the bit list
   `bits_of value n`.

   Reader.  bioReader {data, pos, buf uint16, ct}.  The cursor only moves forward and the only
   index expression is data[pos] directly behind the test `pos >= len(data)`, so the state
   keeps the unread suffix data[pos:] and the count pos. *)
From V Require Import Common.Base Framing.FrmBase Framing.FrmWriters.

(* ---------- writer side ---------- *)

(* writeBits(value, n): for i := n-1; i >= 0; i-- { writeBit((value >> i) & 1) } *)
Fixpoint bits_of_nat (v : Z) (n : nat) : list Z :=
  match n with
  | O => []
  | S k => Z.land (Z.shiftr v (Z.of_nat k)) 1 :: bits_of_nat v k
  end.
Definition bits_of (v n : Z) : list Z := bits_of_nat v (Z.to_nat n).

(* a sequence of writeBits(value, n) calls followed by flush *)
Definition bio_encode_vals (l : list (Z * Z)) : list Z :=
  bio_encode (flat_map (fun p => bits_of (fst p) (snd p)) l).

(* ---------- reader side ---------- *)

Record rd : Type := { rd_buf : Z; rd_ct : Z; rd_data : list Z; rd_pos : Z }.

(* newBioReader(data) *)
Definition rd_init (data : list Z) : rd := {| rd_buf := 0; rd_ct := 0; rd_data := data; rd_pos := 0 |}.

(* byteIn: if pos >= len(data) { return errEndOfData }; buf = (buf << 8) & 0xffff;
   ct = 7 if buf == 0xff00 else 8; buf |= uint16(data[pos]); pos++ *)
Definition rd_bytein (r : rd) : outcome rd :=
  match rd_data r with
  | [] => Err
  | b :: t =>
    let buf := wrapU 16 (rd_buf r * 256) in
    Ok {| rd_buf := Z.lor buf b; rd_ct := if buf =? 65280 then 7 else 8; rd_data := t;
          rd_pos := rd_pos r + 1 |}
  end.

(* readBit: if ct == 0 { byteIn }; ct--; return (buf >> ct) & 1 *)
Definition rd_read_bit (r : rd) : outcome (Z * rd) :=
  obind (if rd_ct r =? 0 then rd_bytein r else Ok r) (fun r1 =>
    let ct := rd_ct r1 - 1 in
    Ok (Z.land (Z.shiftr (rd_buf r1) ct) 1,
        {| rd_buf := rd_buf r1; rd_ct := ct; rd_data := rd_data r1; rd_pos := rd_pos r1 |})).

(* the loop of readBits: v = (v << 1) | bit *)
Fixpoint rd_read_bits_nat (n : nat) (v : Z) (r : rd) : outcome (Z * rd) :=
  match n with
  | O => Ok (v, r)
  | S k => obind (rd_read_bit r) (fun br => rd_read_bits_nat k (Z.lor (v * 2) (fst br)) (snd br))
  end.

(* readBits(n): if n <= 0 || n > 32 { return errInvalidBitCount } *)
Definition rd_read_bits (r : rd) (n : Z) : outcome (Z * rd) :=
  if (n <=? 0) || (n >? 32) then Err else rd_read_bits_nat (Z.to_nat n) 0 r.

(* alignToByte: if pos > 0 && buf&0xff == 0xff { byteIn }; ct = 0 *)
Definition rd_align (r : rd) : outcome rd :=
  obind (if (rd_pos r >? 0) && (Z.land (rd_buf r) 255 =? 255) then rd_bytein r else Ok r) (fun r1 =>
    Ok {| rd_buf := rd_buf r1; rd_ct := 0; rd_data := rd_data r1; rd_pos := rd_pos r1 |}).

(* ---------- drivers used by the correspondence run and by bio_roundtrip ---------- *)

(* n single readBit calls *)
Fixpoint rd_read_list (n : nat) (r : rd) : outcome (list Z * rd) :=
  match n with
  | O => Ok ([], r)
  | S k => obind (rd_read_bit r) (fun br =>
           obind (rd_read_list k (snd br)) (fun lr => Ok (fst br :: fst lr, snd lr)))
  end.

(* readBits(n) for every n of the list, then alignToByte; reports the values and bytesRead *)
Fixpoint rd_read_vals (ns : list Z) (r : rd) : outcome (list Z * rd) :=
  match ns with
  | [] => Ok ([], r)
  | n :: t => obind (rd_read_bits r n) (fun vr =>
              obind (rd_read_vals t (snd vr)) (fun lr => Ok (fst vr :: fst lr, snd lr)))
  end.

Definition rd_session (data : list Z) (ns : list Z) : outcome (list Z * Z) :=
  obind (rd_read_vals ns (rd_init data)) (fun lr =>
  obind (rd_align (snd lr)) (fun r => Ok (fst lr, rd_pos r))).

(* floorLog2: n <= 1 -> 0; otherwise the number of halvings until n <= 1 *)
Definition floor_log2 (n : Z) : Z := if n <=? 1 then 0 else Z.log2 n.
