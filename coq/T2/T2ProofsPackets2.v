(* C04 (t2): packets of a tile.  Part 2: one packet (encodePacket against decodePacket), then
   the whole packet stream of a tile for any visiting sequence in which every cell
   (component, resolution, precinct) sees its layers in increasing order. *)
From V Require Import Common.Base Framing.FrmWriters T2.T2Bio T2.T2TagTree T2.T2Header T2.T2Packets
  T2.T2ProofsBio T2.T2ProofsCodes T2.T2ProofsStore T2.T2ProofsTagTree T2.T2ProofsTagTree2 T2.T2ProofsSafe
  T2.T2ProofsSafe2 T2.T2ProofsHeader T2.T2ProofsHeader2 T2.T2ProofsHeader3 T2.T2ProofsPackets1.

Lemma parse_header_static : forall data l ds t n pres incs ds',
  parse_header data l ds t = Ok (n, pres, incs, ds') -> Forall2 static_eq ds ds'.
Proof.
  intros data l ds t n pres incs ds' H. unfold parse_header in H.
  assert (Hrefl : Forall2 static_eq ds ds).
  { clear. induction ds; constructor; [unfold static_eq; repeat split; reflexivity | assumption]. }
  destruct data as [|d0 dl]; [apply ok_inj in H; assert (ds' = ds) by congruence; subst; exact Hrefl|].
  destruct (rd_read_bit (rd_init (d0 :: dl))) as [[b r1]| | |]; cbn [obind] in H; try discriminate.
  cbn [fst snd] in H. destruct (negb (b =? 1)).
  - apply ok_inj in H. assert (ds' = ds) by congruence. subst. exact Hrefl.
  - destruct (dec_bands r1 ds l t) as [[[i2 d2] r2]| | |] eqn:E; cbn [obind] in H; try discriminate.
    destruct (rd_align r2) as [r3| | |]; cbn [obind] in H; try discriminate.
    apply ok_inj in H. assert (ds' = d2) by congruence. subst. eapply dec_bands_static. exact E.
Qed.

Lemma skipn_zlen_app : forall (pre l : list Z), skipn (Z.to_nat (zlen pre)) (pre ++ l) = l.
Proof.
  intros pre l. unfold zlen. rewrite Nat2Z.id. rewrite skipn_app, skipn_all, Nat.sub_diag. reflexivity.
Qed.

Lemma bio_encode_nonempty : forall bits, Forall bit01 bits -> 1 <= zlen (bio_encode bits).
Proof.
  intros bits H. unfold bio_encode. destruct (run_head bits bio_init H winv_init) as [B [tl [E _]]].
  rewrite E, zlen_cons. pose proof (zlen_nonneg tl). lia.
Qed.

Lemma enc_header_nonempty : forall ps l hdr incs ps', enc_header ps l = Ok (hdr, incs, ps') -> 1 <= zlen hdr.
Proof.
  intros ps l hdr incs ps' H. unfold enc_header, enc_header_bits in H.
  destruct (negb (has_code_blocks ps)).
  - cbn [obind] in H. apply ok_inj in H. assert (hdr = bio_encode [0]) by congruence. subst.
    apply bio_encode_nonempty. repeat constructor.
  - destruct (enc_bands (map (fun p => prepare_band p l) ps) l) as [[[bs incs0] ps0]| | |] eqn:E; cbn [obind] in H;
      try discriminate.
    apply ok_inj in H. assert (hdr = bio_encode (1 :: bs)) by congruence. subst.
    apply bio_encode_nonempty. constructor; [right; reflexivity | eapply enc_bands_01; exact E].
Qed.

Section Tile.
Variables (termAll : bool) (L : Z) (geo : dgeo) (strict resilient : bool).

Definition cell_bands_d (store : dstore) (k : key3) : list dband :=
  let '(c, r, p) := k in map snd (dec_band_states geo store c r p (band_order r)).

(* the state of one cell on both sides when its next packet is layer n *)
Definition CellRel (n : Z) (k : key3) (cells : ecells) (store : dstore) : Prop :=
  n = L \/
  (0 <= n < L /\ exists bands, aget key3_eqb cells k = Some bands /\ bands <> [] /\
     ids_ok (snd (fst k)) (map ebn_band bands) /\ BandsRel termAll L n bands (cell_bands_d store k)).

Definition PktMatch (ep : epacket) (dp : dpacket) : Prop :=
  dp_item dp = ep_item ep /\ Forall2 body_match (ep_incls ep) (dp_incls dp) /\ dp_body dp = ep_body ep.

Lemma band_order_nodup : forall r, NoDup (band_order r).
Proof. intros r. unfold band_order. destruct (r =? 0); repeat constructor; cbn; intuition discriminate. Qed.

Lemma exp_match : forall l ps,
  Forall2 (fun e d => di_included d = ei_included e /\
                      (ei_included e = true -> di_np d = ei_np e /\ di_len d = zlen (ei_data e)))
          (exp_e l ps) (exp_d termAll l ps).
Proof.
  intros l ps. unfold exp_e, exp_d. induction ps as [|p ps IH]; cbn [flat_map]; [constructor|].
  apply Forall2_app; [|exact IH].
  induction (ebn_blocks p) as [|b bl IHb]; cbn [map]; constructor; [|exact IHb].
  unfold expect_eincl, expect_dincl. destruct (b_inc b l); cbn; [|split; [reflexivity | discriminate]].
  split; [reflexivity|]. intros _. split; reflexivity.
Qed.

(* one packet *)
Lemma packet_step : forall l c r p cells store bands hdr body incs bands' pre post,
  0 <= l < L -> aget key3_eqb cells (c, r, p) = Some bands -> bands <> [] ->
  ids_ok r (map ebn_band bands) -> BandsRel termAll L l bands (cell_bands_d store (c, r, p)) ->
  enc_packet bands l r = Ok (hdr, body, incs, bands') ->
  Forall (fun e => zlen (ei_data e) <= 65535) incs ->
  exists dp store',
    dec_packet (pre ++ (hdr ++ body) ++ post) (zlen pre) geo store termAll strict resilient (l, r, c, p) =
      Ok (dp, zlen pre + zlen hdr + zlen body, store') /\
    PktMatch {| ep_item := (l, r, c, p); ep_header := hdr; ep_body := body; ep_incls := incs |} dp /\
    CellRel (l + 1) (c, r, p) (aset key3_eqb cells (c, r, p) bands') store' /\
    (forall k', k' <> (c, r, p) -> cell_bands_d store' k' = cell_bands_d store k') /\
    1 <= zlen hdr /\ (forall l', exp_e l' bands' = exp_e l' bands).
Proof.
  intros l c r p cells store bands hdr body incs bands' pre post Hl Hget Hne Hids HR He Hsmall.
  unfold enc_packet in He. rewrite (order_bands_id r bands Hids) in He.
  destruct (enc_header bands l) as [[[hdr0 incs0] upd]| | |] eqn:Eh; cbn [obind] in He; try discriminate.
  apply ok_inj in He.
  assert (hdr0 = hdr /\ body = packet_body incs0 /\ incs0 = incs /\ bands' = write_back bands upd)
    as [-> [-> [-> ->]]] by (repeat split; congruence).
  pose proof (enc_header_ids _ _ _ _ _ Eh) as Hupd_ids.
  rewrite (write_back_same_ids bands upd (ids_ok_nodup _ _ Hids) Hupd_ids).
  pose proof (enc_header_nonempty _ _ _ _ _ Eh) as Hh1.
  destruct (packet_header_roundtrip termAll L l bands _ hdr incs upd (packet_body incs ++ post) HR Hl Eh)
    as [ds' [Ep [Hincs [HR' Hexp]]]].
  pose proof (parse_header_static _ _ _ _ _ _ _ _ Ep) as Hst.
  set (data := pre ++ (hdr ++ packet_body incs) ++ post).
  assert (Hdl : zlen data = zlen pre + zlen hdr + zlen (packet_body incs) + zlen post)
    by (unfold data; rewrite !zlen_app; lia).
  pose proof (zlen_nonneg pre). pose proof (zlen_nonneg post). pose proof (zlen_nonneg (packet_body incs)).
  set (kb := dec_band_states geo store c r p (band_order r)) in *.
  assert (Hskip : skipn (Z.to_nat (zlen pre)) data = hdr ++ packet_body incs ++ post).
  { unfold data. rewrite skipn_zlen_app, <- app_assoc. reflexivity. }
  unfold dec_packet.
  destruct (Z.geb_spec (zlen pre) (zlen data)); [lia|]. destruct (Z.ltb_spec (zlen pre) 0); [lia|].
  fold kb. rewrite Hskip. unfold cell_bands_d in Ep. fold kb in Ep. rewrite Ep. cbn [obind].
  destruct (has_code_blocks bands) eqn:Hcb; cbn [negb].
  - (* packet present: the body *)
    assert (Edata : data = (pre ++ hdr) ++ packet_body incs ++ post)
      by (unfold data; rewrite <- !app_assoc; reflexivity).
    rewrite Hincs in Hsmall.
    destruct (dec_body_spec (exp_e l bands) (exp_d termAll l bands) (pre ++ hdr) post strict resilient
                (exp_match l bands) Hsmall) as [out [Eb [HM Hbody]]].
    rewrite <- Hincs in Eb, HM, Hbody. rewrite <- Edata in Eb. rewrite zlen_app in Eb. rewrite Eb. cbn [obind].
    eexists; eexists. split; [reflexivity|].
    split; [unfold PktMatch; cbn [dp_item dp_incls dp_body ep_item ep_incls ep_body]; repeat split; assumption|].
    split.
    { destruct (Z.eq_dec (l + 1) L) as [EL|NL]; [left; exact EL|].
      right. split; [lia|]. exists upd. rewrite aget3_aset_same. split; [reflexivity|].
      split; [intros E; rewrite E in Hupd_ids; destruct bands; [congruence | discriminate]|].
      split; [cbn [fst snd]; rewrite Hupd_ids; exact Hids|].
      unfold cell_bands_d, kb.
      rewrite (band_states_after geo c r p (band_order r) store ds' (band_order_nodup r) Hst).
      exact HR'. }
    split.
    { intros [[c' r'] p'] Hk'. unfold cell_bands_d, kb. f_equal.
      apply band_states_other; [exact Hk' | apply band_order_nodup|].
      apply forall2_len in Hst. unfold cell_bands_d in Hst. rewrite map_length in Hst. rewrite map_length.
      symmetry. exact Hst. }
    split; [exact Hh1 | exact Hexp].
  - (* no code-block in this cell: nothing to store, empty body *)
    assert (Hno : exp_e l bands = []) by (apply (bandsrel_no_blocks termAll L l bands _ HR Hcb)).
    rewrite Hincs, Hno in *. cbn [packet_body flat_map] in *. change (zlen (@nil Z)) with 0. rewrite Z.add_0_r.
    eexists; eexists. split; [reflexivity|].
    split; [unfold PktMatch; cbn; repeat split; constructor|].
    assert (Eds : ds' = map snd kb).
    { unfold parse_header in Ep. unfold enc_header, enc_header_bits in Eh. rewrite Hcb in Eh. cbn [negb obind] in Eh.
      apply ok_inj in Eh. assert (hdr = bio_encode [0]) by congruence. subst hdr.
      change (bio_encode [0]) with [0] in Ep. cbn in Ep. congruence. }
    split.
    { destruct (Z.eq_dec (l + 1) L) as [EL|NL]; [left; exact EL|].
      right. split; [lia|]. exists upd. rewrite aget3_aset_same. split; [reflexivity|].
      split; [intros E; rewrite E in Hupd_ids; destruct bands; [congruence | discriminate]|].
      split; [cbn [fst snd]; rewrite Hupd_ids; exact Hids|].
      unfold cell_bands_d. fold kb. rewrite <- Eds. exact HR'. }
    split; [intros; reflexivity|]. split; [exact Hh1 | exact Hexp].
Qed.

(* ---------- the visiting sequence ---------- *)

Definition item_key (it : seq_item) : key3 := let '(l, r, c, p) := it in (c, r, p).
Definition item_layer (it : seq_item) : Z := let '(l, r, c, p) := it in l.

Definition visits (k : key3) (items : list seq_item) : list Z :=
  flat_map (fun it => if key3_eqb (item_key it) k then [item_layer it] else []) items.

Definition layers_from (n : Z) : list Z := map (Z.add n) (zseq (L - n)).

Lemma layers_from_cons : forall n, 0 <= n < L -> layers_from n = n :: layers_from (n + 1).
Proof.
  intros n Hn. unfold layers_from, zseq. replace (Z.to_nat (L - n)) with (S (Z.to_nat (L - (n + 1)))) by lia.
  cbn [seq map]. f_equal; [lia|]. rewrite <- seq_shift, !map_map. apply map_ext. intros a. lia.
Qed.

Lemma layers_from_end : layers_from L = [].
Proof. unfold layers_from. rewrite Z.sub_diag. reflexivity. Qed.

(* every cell of `keys` still has to see exactly the layers nxt k, nxt k + 1, .., L-1, in order *)
Definition Sched (keys : list key3) (nxt : key3 -> Z) (items : list seq_item) : Prop :=
  (forall it, In it items -> In (item_key it) keys) /\
  (forall k, In k keys -> visits k items = layers_from (nxt k)).

Definition small_packets (eps : list epacket) : Prop :=
  Forall (fun ep => Forall (fun e => zlen (ei_data e) <= 65535) (ep_incls ep)) eps.

(* what the encoder recorded for every packet: the contributions of the cell's blocks *)
Definition incls_ok (cells0 : ecells) (ep : epacket) : Prop :=
  exists bands0, aget key3_eqb cells0 (item_key (ep_item ep)) = Some bands0 /\
                 ep_incls ep = exp_e (item_layer (ep_item ep)) bands0.

Theorem packet_stream_roundtrip : forall keys items cells0 cells store nxt pre eps cells',
  (forall k, In k keys -> CellRel (nxt k) k cells store) ->
  (forall k, In k keys -> exists b b0, aget key3_eqb cells k = Some b /\ aget key3_eqb cells0 k = Some b0 /\
                                       forall l', exp_e l' b = exp_e l' b0) ->
  Sched keys nxt items ->
  enc_items cells items = Ok (eps, cells') -> small_packets eps ->
  exists dps,
    dec_items (pre ++ packets_bytes eps) (zlen pre) geo store termAll strict resilient items = Ok dps /\
    Forall2 PktMatch eps dps /\ map ep_item eps = items /\ Forall (incls_ok cells0) eps.
Proof.
  intros keys items. induction items as [|[[[l r] c] p] items IH];
    intros cells0 cells store nxt pre eps cells' Hcells Hst0 [Hin Hvis] He Hsmall.
  - cbn [enc_items] in He. apply ok_inj in He. assert (eps = []) by congruence. subst.
    exists []. cbn [dec_items]. split; [reflexivity|]. split; [constructor|]. split; [reflexivity | constructor].
  - set (k := (c, r, p)).
    assert (Hk : In k keys) by (apply (Hin (l, r, c, p)); left; reflexivity).
    pose proof (Hvis k Hk) as Hv. unfold visits in Hv. cbn [flat_map item_key item_layer] in Hv.
    fold k in Hv. rewrite key3_eqb_refl in Hv. cbn [app] in Hv. fold (visits k items) in Hv.
    destruct (Hcells k Hk) as [HnL | [Hn [bands [Hget [Hne [Hids HR]]]]]].
    { rewrite HnL, layers_from_end in Hv. discriminate. }
    rewrite (layers_from_cons _ Hn) in Hv.
    assert (l = nxt k /\ visits k items = layers_from (nxt k + 1)) as [El Hv'] by (split; congruence).
    subst l.
    cbn [enc_items] in He. fold k in He. rewrite Hget in He.
    destruct bands as [|b0 bl0] eqn:Eb; [congruence|]. rewrite <- Eb in *.
    assert (He' : obind (enc_packet bands (nxt k) r) (fun res => let '(hdr, body, incs, bands') := res in
              obind (enc_items (aset key3_eqb cells k bands') items) (fun res' =>
                Ok ({| ep_item := (nxt k, r, c, p); ep_header := hdr; ep_body := body; ep_incls := incs |} :: fst res',
                    snd res'))) = Ok (eps, cells')) by (rewrite Eb in He |- *; exact He).
    clear He.
    destruct (enc_packet bands (nxt k) r) as [[[[hdr body] incs] bands']| | |] eqn:Ep; cbn [obind] in He'; try discriminate.
    destruct (enc_items (aset key3_eqb cells k bands') items) as [[eps2 cells2]| | |] eqn:E2; cbn [obind] in He'; try discriminate.
    apply ok_inj in He'. cbn [fst snd] in He'.
    assert (eps = {| ep_item := (nxt k, r, c, p); ep_header := hdr; ep_body := body; ep_incls := incs |} :: eps2)
      by congruence. subst eps.
    pose proof (Forall_inv Hsmall) as Hs1. cbn [ep_incls] in Hs1. pose proof (Forall_inv_tail Hsmall) as Hs2.
    unfold packets_bytes. cbn [flat_map ep_header ep_body]. fold (packets_bytes eps2).
    destruct (packet_step (nxt k) c r p cells store bands hdr body incs bands' pre (packets_bytes eps2)
                Hn Hget Hne Hids HR Ep Hs1) as [dp [store' [Ed [HM [HC' [Hoth [Hh1 Hexp]]]]]]].
    set (nxt' := fun k' => if key3_eqb k' k then nxt k + 1 else nxt k').
    destruct (Hst0 k Hk) as [bb [bb0 [Gb [Gb0 Gexp]]]]. rewrite Hget in Gb. assert (bb = bands) by congruence. subst bb.
    destruct (IH cells0 (aset key3_eqb cells k bands') store' nxt' (pre ++ hdr ++ body) eps2 cells2) as
      [dps [Ed2 [HM2 [Hitems Hok]]]]; try assumption.
    + intros k' Hk'. unfold nxt'. destruct (key3_eqb k' k) eqn:Ek.
      * apply key3_eqb_eq in Ek. subst k'. exact HC'.
      * assert (Hne' : k' <> k) by (intros ->; rewrite key3_eqb_refl in Ek; discriminate).
        destruct (Hcells k' Hk') as [HL | [Hn' [bands2 [G1 [G2 [G3 G4]]]]]]; [left; exact HL|].
        right. split; [exact Hn'|]. exists bands2.
        rewrite aget3_aset_other by (intros E; apply Hne'; symmetry; exact E).
        split; [exact G1|]. split; [exact G2|]. split; [exact G3|]. rewrite (Hoth k' Hne'). exact G4.
    + intros k' Hk'. destruct (key3_eqb k' k) eqn:Ek.
      * apply key3_eqb_eq in Ek. subst k'. exists bands', bb0. rewrite aget3_aset_same.
        split; [reflexivity|]. split; [exact Gb0|]. intros l'. rewrite Hexp. apply Gexp.
      * assert (Hne' : k' <> k) by (intros ->; rewrite key3_eqb_refl in Ek; discriminate).
        destruct (Hst0 k' Hk') as [b1 [b2 [G1 [G2 G3]]]]. exists b1, b2.
        rewrite aget3_aset_other by (intros E; apply Hne'; symmetry; exact E). repeat split; assumption.
    + split; [intros it Hit; apply Hin; right; exact Hit|].
      intros k' Hk'. unfold nxt'. destruct (key3_eqb k' k) eqn:Ek.
      * apply key3_eqb_eq in Ek. subst k'. exact Hv'.
      * pose proof (Hvis k' Hk') as Hv2. unfold visits in Hv2. cbn [flat_map item_key item_layer] in Hv2.
        fold k in Hv2. assert (Ek' : key3_eqb k k' = false).
        { destruct (key3_eqb k k') eqn:E; [|reflexivity]. apply key3_eqb_eq in E. subst k'. rewrite key3_eqb_refl in Ek. discriminate. }
        rewrite Ek' in Hv2. cbn [app] in Hv2. exact Hv2.
    + exists (dp :: dps). split.
      { cbn [dec_items].
        assert (Hlt : (zlen pre >=? zlen (pre ++ (hdr ++ body) ++ packets_bytes eps2)) = false).
        { rewrite !zlen_app. pose proof (zlen_nonneg body). pose proof (zlen_nonneg (packets_bytes eps2)).
          destruct (Z.geb_spec (zlen pre) (zlen pre + (zlen hdr + zlen body + zlen (packets_bytes eps2)))); [lia | reflexivity]. }
        rewrite Hlt. rewrite Ed. cbn [obind].
        replace (pre ++ (hdr ++ body) ++ packets_bytes eps2) with ((pre ++ hdr ++ body) ++ packets_bytes eps2)
          by (rewrite <- !app_assoc; reflexivity).
        replace (zlen pre + zlen hdr + zlen body) with (zlen (pre ++ hdr ++ body)) by (rewrite !zlen_app; lia).
        rewrite Ed2. cbn [obind]. reflexivity. }
      split; [constructor; assumption|]. split; [cbn [map ep_item]; rewrite Hitems; reflexivity|].
      constructor; [|exact Hok].
      unfold incls_ok. cbn [ep_item ep_incls item_key item_layer]. exists bb0. split; [exact Gb0|].
      (* what the encoder recorded is the schedule of the cell's blocks *)
      unfold enc_packet in Ep. rewrite (order_bands_id r bands Hids) in Ep.
      destruct (enc_header bands (nxt k)) as [[[hdr0 incs0] upd]| | |] eqn:Eh; cbn [obind] in Ep; try discriminate.
      apply ok_inj in Ep. assert (incs0 = incs) by congruence. subst incs0.
      destruct (packet_header_roundtrip termAll L (nxt k) bands _ hdr0 incs upd [] HR Hn Eh) as [_ [_ [Hincs _]]].
      rewrite Hincs. apply Gexp.
Qed.

End Tile.
