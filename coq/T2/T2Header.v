(* EXTRACT *)
(* JPEG 2000 tier-2 packet headers.
   Encoder: jpeg2000/t2/packet_header_tagtree.go  encodeNumPasses, encodeCommaCode,
     encodeCodeBlockLengths, codeBlockPassTerminates, buildPassLengths, writeInclusionAndZBP,
     encodePacketHeaderCodeBlock, preparePacketHeaderPrecinct, hasCodeBlocks,
     encodePacketHeaderWithTagTreeMulti (classic mode; the HTJ2K variant belongs to C06).
   Decoder: jpeg2000/t2/packet_header.go  decodeNumPassesWithReader, decodeCommaCodeWithReader,
     decodeDataLengthWithReader, newCodeBlockStates, normalizePacketHeaderBand,
     parsePacketHeaderMulti.
   layerContribution / computePrevAndTotalPasses / buildPassLengths (cumulative form) are the
   models of J2KGeo/GeoLayers.v (tied to the Go code by that area's hook suites).

   Encoders return the bits they pass to writeBit/writeBits (see T2Bio.v); decoders run on the
   reader state.  A Go `error` return is Err; index expressions that could leave their slice
   are explicit checks returning Panic. *)
From V Require Import Common.Base Framing.FrmWriters T2.T2Bio T2.T2TagTree J2KGeo.GeoLayers.

Definition zseq (n : Z) : list Z := map Z.of_nat (seq 0 (Z.to_nat n)).

(* ------------------------------------------------------------------------------------ *)
(* number of coding passes                                                                *)

(* encodeNumPasses: 1 -> 0 | 2 -> 10 | 3..5 -> 11xx | 6..36 -> 1111xxxxx | 37..164 -> 1{9}x{7};
   n > 164 is an error; n <= 0 falls into the `n <= 5` arm as coded. *)
Definition enc_numpasses (n : Z) : outcome (list Z) :=
  if n =? 1 then Ok [0]
  else if n =? 2 then Ok (bits_of 2 2)
  else if n <=? 5 then Ok (bits_of (Z.lor 12 (n - 3)) 4)
  else if n <=? 36 then Ok (bits_of (Z.lor 480 (n - 6)) 9)
  else if n <=? 164 then Ok (bits_of (Z.lor 65408 (n - 37)) 16)
  else Err.

(* decodeNumPassesWithReader *)
Definition dec_numpasses (r : rd) : outcome (Z * rd) :=
  obind (rd_read_bit r) (fun b1 =>
  if fst b1 =? 0 then Ok (1, snd b1) else
  obind (rd_read_bit (snd b1)) (fun b2 =>
  if fst b2 =? 0 then Ok (2, snd b2) else
  obind (rd_read_bits (snd b2) 2) (fun v2 =>
  if negb (fst v2 =? 3) then Ok (3 + fst v2, snd v2) else
  obind (rd_read_bits (snd v2) 5) (fun v5 =>
  if negb (fst v5 =? 31) then Ok (6 + fst v5, snd v5) else
  obind (rd_read_bits (snd v5) 7) (fun v7 => Ok (37 + fst v7, snd v7)))))).

(* ------------------------------------------------------------------------------------ *)
(* comma code                                                                             *)

(* encodeCommaCode(n): n ones, then a zero *)
Definition enc_comma (n : Z) : list Z := repeat 1 (Z.to_nat n) ++ [0].

(* decodeCommaCodeWithReader: count ones up to the first zero.  Every iteration consumes a
   bit; a reader holds at most 8 bits per unread byte plus the rd_ct buffered ones. *)
Fixpoint dec_comma_loop (fuel : nat) (r : rd) (n : Z) : outcome (Z * rd) :=
  match fuel with
  | O => OutOfFuel
  | S f => obind (rd_read_bit r) (fun br =>
           if fst br =? 0 then Ok (n, snd br) else dec_comma_loop f (snd br) (n + 1))
  end.

Definition comma_fuel (r : rd) : nat := (8 * length (rd_data r) + 10)%nat.
Definition dec_comma (r : rd) : outcome (Z * rd) := dec_comma_loop (comma_fuel r) r 0.

(* ------------------------------------------------------------------------------------ *)
(* Lblock length coding                                                                   *)

(* codeBlockPassTerminates(cb, termAll, passIdx); terms = Passes[i].Terminated *)
Definition pass_terminates (terms : list bool) (termAll : bool) (i : Z) : bool :=
  if termAll then true
  else if (0 <=? i) && (i <? zlen terms) then znth terms i false else false.

(* first loop of the per-segment branch: the largest `need` over the codeword segments *)
Fixpoint len_increment (pl : list Z) (terms : list bool) (termAll : bool) (nlb lastPass : Z)
  (k : nat) (passIdx nump segLen inc : Z) : Z :=
  match k with
  | O => inc
  | S k' =>
    let nump1 := nump + 1 in
    let seg1 := segLen + znth pl passIdx 0 in
    if pass_terminates terms termAll passIdx || (passIdx =? lastPass) then
      let need := (floor_log2 seg1 + 1) - (nlb + floor_log2 nump1) in
      len_increment pl terms termAll nlb lastPass k' (passIdx + 1) 0 0 (if need >? inc then need else inc)
    else len_increment pl terms termAll nlb lastPass k' (passIdx + 1) nump1 seg1 inc
  end.

(* second loop: writeBits(segLen, NumLenBits + floorLog2(nump)) per segment *)
Fixpoint len_segments (pl : list Z) (terms : list bool) (termAll : bool) (nlb lastPass : Z)
  (k : nat) (passIdx nump segLen : Z) : list Z :=
  match k with
  | O => []
  | S k' =>
    let nump1 := nump + 1 in
    let seg1 := segLen + znth pl passIdx 0 in
    if pass_terminates terms termAll passIdx || (passIdx =? lastPass) then
      bits_of seg1 (nlb + floor_log2 nump1)
      ++ len_segments pl terms termAll nlb lastPass k' (passIdx + 1) 0 0
    else len_segments pl terms termAll nlb lastPass k' (passIdx + 1) nump1 seg1
  end.

(* encodeCodeBlockLengths(bw, cb, dataLen, prevPasses, newPasses, termAll, passLens):
   returns the bits and the new cb.NumLenBits.  passLens = None is nil.  passLens[passIdx]
   needs 0 <= prevPasses (Go would panic on a negative index): reported as Panic. *)
Definition enc_lengths (nlb0 dataLen prev np : Z) (termAll : bool) (pl : option (list Z))
  (terms : list bool) : outcome (list Z * Z) :=
  if np <=? 0 then Ok (enc_comma 0, nlb0) else
  let nlb := if nlb0 <=? 0 then 3 else nlb0 in
  let fallback :=
    let inc0 := (floor_log2 dataLen + 1) - (nlb + floor_log2 np) in
    let inc := if inc0 <? 0 then 0 else inc0 in
    Ok (enc_comma inc ++ bits_of dataLen (nlb + inc + floor_log2 np), nlb + inc) in
  match pl with
  | None => fallback
  | Some l =>
    if prev + np >? zlen l then fallback else
    if prev <? 0 then Panic else
    let last := prev + np - 1 in
    let inc0 := len_increment l terms termAll nlb last (Z.to_nat np) prev 0 0 0 in
    let inc := if inc0 <? 0 then 0 else inc0 in
    Ok (enc_comma inc ++ len_segments l terms termAll (nlb + inc) last (Z.to_nat np) prev 0 0, nlb + inc)
  end.

(* the TERMALL loop of decodeDataLengthWithReader: numPasses times readBits(NumLenBits) *)
Fixpoint dec_seglens (k : nat) (r : rd) (nlb : Z) : outcome (list Z * rd) :=
  match k with
  | O => Ok ([], r)
  | S k' => obind (rd_read_bits r nlb) (fun vr =>
            obind (dec_seglens k' (snd vr) nlb) (fun lr => Ok (fst vr :: fst lr, snd lr)))
  end.

Definition zsum (l : list Z) : Z := fold_right Z.add 0 l.

(* decodeDataLengthWithReader(reader, numPasses, cbState, termAll)
   -> (totalLen, passLens, new NumLenBits, reader) *)
Definition dec_lengths (r : rd) (np nlb0 : Z) (termAll : bool) : outcome (Z * list Z * Z * rd) :=
  if np <=? 0 then Ok (0, [], nlb0, r) else
  let nlb := if nlb0 <=? 0 then 3 else nlb0 in
  obind (dec_comma r) (fun ir =>
    let nlb1 := nlb + fst ir in
    if termAll then
      obind (dec_seglens (Z.to_nat np) (snd ir) nlb1) (fun lr =>
        Ok (zsum (fst lr), fst lr, nlb1, snd lr))
    else
      obind (rd_read_bits (snd ir) (nlb1 + floor_log2 np)) (fun vr =>
        Ok (fst vr, [], nlb1, snd vr))).

(* ------------------------------------------------------------------------------------ *)
(* encoder: one code-block of one precinct band                                           *)

(* PrecinctCodeBlock: the fields the packet-header code reads, and the two it writes
   (Included, NumLenBits).  eb_passes = (Len, ActualBytes, Terminated) of cb.Passes. *)
Record eblock : Type := {
  eb_cbx : Z; eb_cby : Z; eb_zbp : Z;
  eb_lp : list Z;                          (* LayerPasses (cumulative) *)
  eb_ld : option (list (list Z));          (* LayerData; None = nil *)
  eb_data : list Z; eb_npt : Z;            (* Data, NumPassesTotal (single-layer fallback) *)
  eb_pl : list Z;                          (* PassLengths (cumulative) *)
  eb_passes : list (Z * Z * bool);
  eb_termall : bool;                       (* UseTERMALL *)
  eb_included : bool; eb_nlb : Z
}.

Definition eb_with (b : eblock) (included : bool) (nlb : Z) : eblock :=
  {| eb_cbx := eb_cbx b; eb_cby := eb_cby b; eb_zbp := eb_zbp b; eb_lp := eb_lp b; eb_ld := eb_ld b;
     eb_data := eb_data b; eb_npt := eb_npt b; eb_pl := eb_pl b; eb_passes := eb_passes b;
     eb_termall := eb_termall b; eb_included := included; eb_nlb := nlb |}.

(* buildPassLengths(cb.PassLengths, cb.Passes): nil when both are empty *)
Definition block_pass_lens (b : eblock) : option (list Z) :=
  if 0 <? zlen (eb_pl b) then Some (build_pass_lengths 0 (eb_pl b))
  else if 0 <? zlen (eb_passes b) then
    Some (map (fun p => let '(len, act, _) := p in
                        if len >? 0 then len else if act >? 0 then act else 0) (eb_passes b))
  else None.

Definition block_terms (b : eblock) : list bool := map (fun p => snd p) (eb_passes b).

(* what a packet records per code-block on the encoder side *)
Record eincl : Type := { ei_included : bool; ei_np : Z; ei_len : Z; ei_data : list Z }.
Definition eincl_skip (inc : bool) : eincl := {| ei_included := inc; ei_np := 0; ei_len := 0; ei_data := [] |}.

(* encodePacketHeaderCodeBlock with writeInclusionAndZBP inlined.
   Result: bits, CodeBlockIncl, the block, the inclusion tree, the zero-bit-plane tree. *)
Definition enc_block (itree ztree : ttree) (b : eblock) (layer : Z)
  : outcome (list Z * eincl * eblock * ttree * ttree) :=
  let '(included, np, data) := layer_contribution (eb_ld b) (eb_lp b) (eb_data b) (eb_npt b) layer in
  let continue (bs : list Z) (b1 : eblock) (it zt : ttree) :=
    obind (enc_numpasses np) (fun bs3 =>
      let dataLen := zlen data in
      let '(prev, total) := prev_and_total_passes false (eb_lp b1) (eb_npt b1) layer np in
      let pl := block_pass_lens b1 in
      let termAll := eb_termall b1
                     && negb (match pl with None => true | Some l => total >? zlen l end) in
      obind (enc_lengths (eb_nlb b1) dataLen prev np termAll pl (block_terms b1)) (fun ln =>
        Ok (bs ++ bs3 ++ fst ln,
            {| ei_included := included; ei_np := np; ei_len := dataLen; ei_data := data |},
            eb_with b1 (eb_included b1) (snd ln), it, zt))) in
  if negb (eb_included b) then
    obind (tt_encode itree (eb_cbx b) (eb_cby b) (layer + 1)) (fun e1 =>
      if negb included then Ok (fst e1, eincl_skip included, b, snd e1, ztree) else
      obind (tt_encode ztree (eb_cbx b) (eb_cby b) 999) (fun e2 =>
        continue (fst e1 ++ fst e2) (eb_with b true (eb_nlb b)) (snd e1) (snd e2)))
  else if included then continue [1] b itree ztree
  else Ok ([0], eincl_skip included, b, itree, ztree).

(* ------------------------------------------------------------------------------------ *)
(* encoder: a precinct band (t2.Precinct) and the whole header                            *)

Record eband : Type := {
  ebn_band : Z;                            (* SubbandIdx *)
  ebn_w : Z; ebn_h : Z;                    (* NumCodeBlocksX / NumCodeBlocksY *)
  ebn_blocks : list eblock;
  ebn_trees : option (ttree * ttree)       (* InclTree, ZBPTree; None = nil *)
}.

Definition ebn_with (p : eband) (blocks : list eblock) (trees : option (ttree * ttree)) : eband :=
  {| ebn_band := ebn_band p; ebn_w := ebn_w p; ebn_h := ebn_h p; ebn_blocks := blocks; ebn_trees := trees |}.

(* sort.Slice by (CBY, CBX).  Positions of one precinct band are distinct, so the order is
   the unique sorted one; insertion sort. *)
Definition block_lt (a b : eblock) : bool :=
  if eb_cby a =? eb_cby b then eb_cbx a <? eb_cbx b else eb_cby a <? eb_cby b.
Fixpoint insert_block (b : eblock) (l : list eblock) : list eblock :=
  match l with
  | [] => [b]
  | x :: r => if block_lt x b then x :: insert_block b r else b :: l
  end.
Definition sort_blocks (l : list eblock) : list eblock := fold_right insert_block [] l.

(* the SetValue loop of preparePacketHeaderPrecinct *)
Fixpoint prepare_values (blocks : list eblock) (layer : Z) (it zt : ttree) : ttree * ttree :=
  match blocks with
  | [] => (it, zt)
  | b :: r =>
    let included := fst (fst (layer_contribution (eb_ld b) (eb_lp b) (eb_data b) (eb_npt b) layer)) in
    let it1 := if negb (eb_included b) && included then tt_setvalue it (eb_cbx b) (eb_cby b) layer else it in
    let zt1 := if layer =? 0 then tt_setvalue zt (eb_cbx b) (eb_cby b) (eb_zbp b) else zt in
    prepare_values r layer it1 zt1
  end.

(* preparePacketHeaderPrecinct *)
Definition prepare_band (p : eband) (layer : Z) : eband :=
  match ebn_blocks p with
  | [] => p
  | _ =>
    let blocks := sort_blocks (ebn_blocks p) in
    let fresh := (tt_new (ebn_w p) (ebn_h p), tt_new (ebn_w p) (ebn_h p)) in
    let '(it0, zt0) :=
      match ebn_trees p with
      | None => fresh
      | Some (it, zt) => if negb (tt_w it =? ebn_w p) || negb (tt_h it =? ebn_h p) then fresh else (it, zt)
      end in
    let '(it1, zt1) := if layer =? 0 then (tt_reset it0, tt_reset zt0) else (it0, zt0) in
    ebn_with p blocks (Some (prepare_values blocks layer it1 zt1))
  end.

(* the code-block loop over one band *)
Fixpoint enc_blocks (it zt : ttree) (blocks : list eblock) (layer : Z)
  : outcome (list Z * list eincl * list eblock * ttree * ttree) :=
  match blocks with
  | [] => Ok ([], [], [], it, zt)
  | b :: r =>
    obind (enc_block it zt b layer) (fun res =>
      let '(bs, inc, b', it', zt') := res in
      obind (enc_blocks it' zt' r layer) (fun res' =>
        let '(bs2, incs, bl, it'', zt'') := res' in
        Ok (bs ++ bs2, inc :: incs, b' :: bl, it'', zt'')))
  end.

Fixpoint enc_bands (bands : list eband) (layer : Z) : outcome (list Z * list eincl * list eband) :=
  match bands with
  | [] => Ok ([], [], [])
  | p :: r =>
    match ebn_blocks p with
    | [] => obind (enc_bands r layer) (fun res => let '(bs, incs, ps) := res in Ok (bs, incs, p :: ps))
    | _ =>
      match ebn_trees p with
      | None => Panic                        (* nil tree dereference; prepare_band always sets it *)
      | Some (it, zt) =>
        obind (enc_blocks it zt (ebn_blocks p) layer) (fun res =>
          let '(bs, incs, bl, it', zt') := res in
          obind (enc_bands r layer) (fun res' =>
            let '(bs2, incs2, ps) := res' in
            Ok (bs ++ bs2, incs ++ incs2, ebn_with p bl (Some (it', zt')) :: ps)))
      end
    end
  end.

Definition has_code_blocks (bands : list eband) : bool :=
  existsb (fun p => 0 <? zlen (ebn_blocks p)) bands.

(* encodePacketHeaderWithTagTreeMulti (classic mode): the bits of the header *)
Definition enc_header_bits (bands : list eband) (layer : Z) : outcome (list Z * list eincl * list eband) :=
  if negb (has_code_blocks bands) then Ok ([0], [], bands) else
  obind (enc_bands (map (fun p => prepare_band p layer) bands) layer) (fun res =>
    let '(bs, incs, ps) := res in Ok (1 :: bs, incs, ps)).

(* header bytes = writeBit for every bit, flush *)
Definition enc_header (bands : list eband) (layer : Z) : outcome (list Z * list eincl * list eband) :=
  obind (enc_header_bits bands layer) (fun res =>
    let '(bs, incs, ps) := res in Ok (bio_encode bs, incs, ps)).

(* ------------------------------------------------------------------------------------ *)
(* decoder                                                                                *)

(* CodeBlockState (DataAccum is never touched by the packet parser) *)
Record dblock : Type := {
  db_included : bool; db_first : Z; db_zbp : Z; db_passes : Z; db_nlb : Z
}.
Definition dblock_init : dblock :=
  {| db_included := false; db_first := -1; db_zbp := 0; db_passes := 0; db_nlb := 0 |}.

(* packetHeaderBand *)
Record dband : Type := {
  dbn_w : Z; dbn_h : Z;
  dbn_pos : list (Z * Z);                  (* cbPositions (X, Y); [] = row-major grid *)
  dbn_incl : option ttree; dbn_zbp : option ttree;
  dbn_states : option (list dblock)        (* None = nil *)
}.

(* CodeBlockIncl as the parser fills it *)
Record dincl : Type := {
  di_included : bool; di_first : bool; di_np : Z; di_len : Z; di_zbp : Z;
  di_pl : list Z; di_termall : bool
}.
Definition dincl_skip : dincl :=
  {| di_included := false; di_first := false; di_np := 0; di_len := 0; di_zbp := 0; di_pl := [];
     di_termall := false |}.

(* normalizePacketHeaderBand (called with numCBX, numCBY > 0) *)
Definition norm_tree (o : option ttree) (w h : Z) : ttree :=
  match o with
  | Some t => if negb (tt_w t =? w) || negb (tt_h t =? h) then tt_new w h else t
  | None => tt_new w h
  end.
Definition norm_states (o : option (list dblock)) (n : Z) : list dblock :=
  match o with
  | Some l => if zlen l =? n then l else zrep dblock_init n
  | None => zrep dblock_init n
  end.

Definition grid_positions (w h : Z) : list (Z * Z) :=
  flat_map (fun y => map (fun x => (x, y)) (zseq w)) (zseq h).

Definition nth_opt {A} (l : list A) (i : Z) : option A :=
  if i <? 0 then None else nth_error l (Z.to_nat i).

Definition db_set (b : dblock) (included : bool) (first zbp passes nlb : Z) : dblock :=
  {| db_included := included; db_first := first; db_zbp := zbp; db_passes := passes; db_nlb := nlb |}.

(* the body of `for _, pos := range positions` for one in-range position *)
Definition dec_block (r : rd) (it zt : ttree) (st : dblock) (x y layer : Z) (termAll : bool)
  : outcome (dincl * dblock * ttree * ttree * rd) :=
  let continue (r1 : rd) (st1 : dblock) (first : bool) (zbp : Z) (it1 zt1 : ttree) :=
    obind (dec_numpasses r1) (fun nr =>
    obind (dec_lengths (snd nr) (fst nr) (db_nlb st1) termAll) (fun lr =>
      let '(len, pls, nlb, r2) := lr in
      Ok ({| di_included := true; di_first := first; di_np := fst nr; di_len := len; di_zbp := zbp;
             di_pl := pls; di_termall := if 0 <? zlen pls then termAll else false |},
          db_set st1 (db_included st1) (db_first st1) (db_zbp st1) (db_passes st1 + fst nr) nlb,
          it1, zt1, r2))) in
  if negb (db_included st) then
    obind (tt_decode_inclusion it r x y layer) (fun res =>
      let '(included, first, it1, r1) := res in
      if negb included then Ok (dincl_skip, st, it1, zt, r1) else
      obind (tt_decode_zbp zt r1 x y) (fun zres =>
        let '(zbp, zt1, r2) := zres in
        continue r2 (db_set st true first zbp (db_passes st) 3) true zbp it1 zt1))
  else
    obind (rd_read_bit r) (fun br =>
      if negb (fst br =? 1) then Ok (dincl_skip, st, it, zt, snd br)
      else continue (snd br) st false (db_zbp st) it zt).

Definition upd_z {A} (l : list A) (i : Z) (v : A) : list A :=
  if i <? 0 then l else upd_nat l (Z.to_nat i) v.

(* positions of one band; out-of-grid positions are skipped; band.codeBlockStates[cbIdx] is
   an explicit check *)
Fixpoint dec_positions (r : rd) (w h : Z) (it zt : ttree) (sts : list dblock) (pos : list (Z * Z))
  (layer : Z) (termAll : bool) : outcome (list dincl * ttree * ttree * list dblock * rd) :=
  match pos with
  | [] => Ok ([], it, zt, sts, r)
  | (x, y) :: rest =>
    if (x <? 0) || (x >=? w) || (y <? 0) || (y >=? h) then dec_positions r w h it zt sts rest layer termAll
    else
      let idx := y * w + x in
      match nth_opt sts idx with
      | None => Panic
      | Some st =>
        obind (dec_block r it zt st x y layer termAll) (fun res =>
          let '(inc, st', it', zt', r') := res in
          obind (dec_positions r' w h it' zt' (upd_z sts idx st') rest layer termAll) (fun res' =>
            let '(incs, it'', zt'', sts'', r'') := res' in
            Ok (inc :: incs, it'', zt'', sts'', r'')))
      end
  end.

Fixpoint dec_bands (r : rd) (bands : list dband) (layer : Z) (termAll : bool)
  : outcome (list dincl * list dband * rd) :=
  match bands with
  | [] => Ok ([], [], r)
  | b :: rest =>
    if (dbn_w b <=? 0) || (dbn_h b <=? 0) then
      obind (dec_bands r rest layer termAll) (fun res =>
        let '(incs, bs, r') := res in Ok (incs, b :: bs, r'))
    else
      let it := norm_tree (dbn_incl b) (dbn_w b) (dbn_h b) in
      let zt := norm_tree (dbn_zbp b) (dbn_w b) (dbn_h b) in
      let sts := norm_states (dbn_states b) (dbn_w b * dbn_h b) in
      let pos := match dbn_pos b with [] => grid_positions (dbn_w b) (dbn_h b) | p => p end in
      obind (dec_positions r (dbn_w b) (dbn_h b) it zt sts pos layer termAll) (fun res =>
        let '(incs, it', zt', sts', r') := res in
        let b' := {| dbn_w := dbn_w b; dbn_h := dbn_h b; dbn_pos := dbn_pos b; dbn_incl := Some it';
                     dbn_zbp := Some zt'; dbn_states := Some sts' |} in
        obind (dec_bands r' rest layer termAll) (fun res' =>
          let '(incs2, bs, r'') := res' in Ok (incs ++ incs2, b' :: bs, r'')))
  end.

(* parsePacketHeaderMulti(data, layer, bands, termAll)
   -> (bytesRead, headerPresent, cbIncls, bands with their updated state).
   The returned header slice is data[0:bytesRead]. *)
Definition parse_header (data : list Z) (layer : Z) (bands : list dband) (termAll : bool)
  : outcome (Z * bool * list dincl * list dband) :=
  match data with
  | [] => Ok (0, false, [], bands)
  | _ =>
    obind (rd_read_bit (rd_init data)) (fun br =>
      if negb (fst br =? 1) then Ok (rd_pos (snd br), false, [], bands) else
      obind (dec_bands (snd br) bands layer termAll) (fun res =>
        let '(incs, bs, r) := res in
        obind (rd_align r) (fun r' => Ok (rd_pos r', true, incs, bs))))
  end.
