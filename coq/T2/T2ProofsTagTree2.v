(* C04 (t2): tag-tree coding is inverted by the decoder.  Part 2: whole trees.
   TTInv te td tmax relates an encoder tree and a decoder tree after any history of
   SetValue / Encode / Decode that follows the discipline
     - every SetValue(x, y, v) has v >= every threshold used before on that tree (tmax), and
     - every query (x, y) is encoded with threshold the and decoded with threshold thd where
       the = thd, or the leaf has a value and it is below both.
   No bound on the values is needed (nodes that hold the reset placeholder are `unset`).
   tt_query_sync: under the invariant the decoder consumes exactly the encoder's bits and
   returns the leaf value when it is set and below the threshold, and some number >= its
   threshold otherwise.
   tt_setvalue_inv: SetValue keeps the invariant. *)
From V Require Import Common.Base T2.T2Bio T2.T2TagTree T2.T2ProofsBio T2.T2ProofsStore T2.T2ProofsTagTree.

Lemma ok_inj : forall {A} (a b : A), Ok a = Ok b -> a = b.
Proof. intros A a b H. injection H. auto. Qed.

Lemma pair_eq_dec : forall a b : Z * Z, {a = b} + {a <> b}.
Proof. decide equality; apply Z.eq_dec. Qed.

(* from the leaf to the root: a set node has a set parent with a value not above its own *)
Definition decr_adj (t : ttree) (P : list (Z * Z)) : Prop :=
  forall pre a b post, P = pre ++ a :: b :: post -> nu t a = false -> nu t b = false /\ nv t b <= nv t a.

Lemma adj_incr : forall t l,
  (forall pre a b post, l = pre ++ a :: b :: post -> nu t b = false -> nu t a = false /\ nv t a <= nv t b) ->
  incr_chain t l.
Proof.
  intros t l. induction l as [|a l IH]; intros H; [exact I|]. destruct l as [|b l']; [exact I|].
  change ((nu t b = false -> nu t a = false /\ nv t a <= nv t b) /\ incr_chain t (b :: l')). split.
  - apply (H [] a b l'). reflexivity.
  - apply IH. intros pre x y post E. apply (H (a :: pre) x y post). rewrite E. reflexivity.
Qed.

Lemma decr_adj_rev : forall t P, decr_adj t P -> incr_chain t (rev P).
Proof.
  intros t P H. apply adj_incr. intros pre a b post E.
  apply (H (rev post) b a (rev pre)).
  rewrite <- (rev_involutive P), E. rewrite rev_app_distr. cbn [rev]. rewrite <- !app_assoc. reflexivity.
Qed.

Lemma decr_adj_tail : forall t a l, decr_adj t (a :: l) -> decr_adj t l.
Proof. intros t a l H pre x y post E. apply (H (a :: pre) x y post). rewrite E. reflexivity. Qed.

Lemma decr_adj_le_head : forall t l a, decr_adj t (a :: l) -> nu t a = false ->
  forall id, In id l -> nu t id = false /\ nv t id <= nv t a.
Proof.
  intros t l. induction l as [|b l IH]; intros a H Hu id Hin; [contradiction|].
  assert (Hb : nu t b = false /\ nv t b <= nv t a) by (apply (H [] a b l); [reflexivity | exact Hu]).
  destruct Hb as [Hub Hb].
  destruct Hin as [<-|Hin]; [split; assumption|].
  destruct (IH b (decr_adj_tail _ _ _ H) Hub id Hin) as [A B]. split; [exact A | lia].
Qed.

(* ---------- the invariant ---------- *)

Definition TTInv (te td : ttree) (tmax : Z) : Prop :=
  wf_tree te /\ same_geom te td /\ 0 <= tmax /\
  (forall id, vid te id -> NodeRel te td id /\ NodeInv te id /\ nl te id <= tmax /\
                           (nu te id = false -> 0 <= nv te id)) /\
  (forall x y, tt_in_range te x y = true -> decr_adj te (tt_path te x y)).

Lemma wf_tree_geom : forall t t', wf_tree t -> same_geom t t' -> wf_tree t'.
Proof.
  intros t t' [dims [H1 [H2 [[d0 [r [Ed [Hw Hh]]]] [H4 [H5 [H6 H7]]]]]]] [G1 [G2 [G3 [G4 G5]]]].
  exists dims. unfold wf_dims. rewrite G1, G2, G3, G4.
  split; [exact H1|]. split; [exact H2|]. split; [exists d0, r; auto|].
  split; [exact H4|]. split; [exact H5|]. split; [exact H6 | exact G5].
Qed.

Lemma in_range_geom : forall t t' x y, same_geom t t' -> tt_in_range t' x y = tt_in_range t x y.
Proof. intros t t' x y [G1 [G2 _]]. unfold tt_in_range. rewrite G1, G2. reflexivity. Qed.

Lemma path_geom : forall t t' x y, same_geom t t' -> tt_path t' x y = tt_path t x y.
Proof. intros t t' x y [_ [_ [G3 _]]]. unfold tt_path. rewrite G3. reflexivity. Qed.

Lemma vid_geom : forall t t' id, same_geom t t' -> (vid t' id <-> vid t id).
Proof.
  intros t t' id [_ [_ [_ [G4 _]]]]. unfold vid. rewrite (valid2_shape _ (tt_nodes t)) by exact G4. tauto.
Qed.

Lemma same_geom_sym : forall a b, same_shapes a -> same_geom a b -> same_geom b a.
Proof.
  intros a b Ha [B1 [B2 [B3 [B4 B5]]]]. unfold same_geom.
  split; [congruence|]. split; [congruence|]. split; [congruence|]. split; [congruence | exact Ha].
Qed.

Lemma wf_same_shapes : forall t, wf_tree t -> same_shapes t.
Proof. intros t [dims H]. apply H. Qed.

(* ---------- fresh trees ---------- *)

Lemma get2_const : forall {A} (l : list (list A)) lv idx d c,
  (forall row, In row l -> forall x, In x row -> x = c) -> valid2 l lv idx = true -> get2 l lv idx d = c.
Proof.
  intros A l lv idx d c H Hv. apply valid2_spec in Hv as [H1 [H2 [H3 H4]]].
  unfold get2. rewrite !znth_nth by lia.
  apply (H (nth (Z.to_nat lv) l [])); apply nth_In; assumption.
Qed.

Definition all_fresh (te td : ttree) : Prop :=
  forall id, vid te id -> nu te id = true /\ nl te id = 0 /\ nk te id = false /\ nu td id = true /\ nl td id = 0.

Lemma TTInv_fresh : forall te td, wf_tree te -> same_geom te td -> all_fresh te td -> TTInv te td 0.
Proof.
  intros te td Hwf Hg Hf. unfold TTInv. split; [exact Hwf|]. split; [exact Hg|]. split; [lia|]. split.
  - intros id Hv. destruct (Hf id Hv) as [A [B [C [D E]]]].
    unfold NodeRel, NodeInv. rewrite A, B, C, D, E.
    split; [split; [reflexivity | split; [reflexivity | discriminate]]|].
    split; [split; [discriminate | discriminate]|]. split; [lia | discriminate].
  - intros x y Hr pre a b post E Hua.
    assert (Ha : In a (tt_path te x y)) by (rewrite E; apply in_or_app; right; left; reflexivity).
    destruct (Hf a (wf_path_valid te x y a Hwf Hr Ha)) as [A _]. congruence.
Qed.

Lemma new_values : forall w h id, vid (tt_new w h) id ->
  nu (tt_new w h) id = true /\ nl (tt_new w h) id = 0 /\ nk (tt_new w h) id = false.
Proof.
  intros w h id Hv. pose proof (wf_same_shapes _ (tt_new_wf w h)) as Hs.
  pose proof (same_shapes_vid_low _ _ Hs Hv) as Hl. pose proof (same_shapes_vid_known _ _ Hs Hv) as Hk.
  pose proof (same_shapes_vid_unset _ _ Hs Hv) as Hu.
  unfold nu, nl, nk, tt_new in *. cbn [tt_nodes tt_low tt_known tt_unset] in *.
  repeat split; (apply get2_const; [|assumption]); intros row Hrow x Hx;
    apply in_map_iff in Hrow as [d [<- _]]; unfold zrep in Hx; apply repeat_spec in Hx; exact Hx.
Qed.

Lemma reset_values : forall t id, same_shapes t -> vid t id ->
  nu (tt_reset t) id = true /\ nl (tt_reset t) id = 0 /\ nk (tt_reset t) id = false.
Proof.
  intros t id Hs Hv.
  pose proof (same_shapes_vid_low _ _ Hs Hv) as Hl. pose proof (same_shapes_vid_known _ _ Hs Hv) as Hk.
  pose proof (same_shapes_vid_unset _ _ Hs Hv) as Hu.
  unfold nu, nl, nk, tt_reset. cbn [tt_nodes tt_low tt_known tt_unset].
  repeat split; (apply get2_const;
    [intros row Hrow x Hx; apply in_map_iff in Hrow as [row0 [<- _]]; apply in_map_iff in Hx as [x0 [<- _]]; reflexivity
    | rewrite (valid2_shape _ _ _ _ (map_shape _ _)); assumption]).
Qed.

Lemma reset_geom : forall t, same_shapes t -> same_geom t (tt_reset t).
Proof.
  intros t [H1 [H2 H3]]. unfold same_geom, same_shapes, tt_reset. cbn [tt_w tt_h tt_lw tt_nodes tt_low tt_known tt_unset].
  rewrite !map_shape. repeat split; assumption.
Qed.

(* ---------- Encode / Decode of one leaf ---------- *)

Lemma forallb_valid : forall t x y, wf_tree t -> tt_in_range t x y = true ->
  forallb (tt_valid_id t) (tt_path t x y) = true.
Proof.
  intros t x y Hwf Hr. apply forallb_forall. intros id Hin.
  apply (valid_id_vid t id (wf_same_shapes t Hwf)). apply (wf_path_valid t x y id Hwf Hr Hin).
Qed.

Theorem tt_query_sync : forall te td tmax x y the thd bs te' rest r more,
  TTInv te td tmax -> tt_in_range te x y = true ->
  let leaf := (0, y * tt_w te + x) in
  (the = thd \/ (nu te leaf = false /\ nv te leaf < the /\ nv te leaf < thd)) ->
  tt_encode te x y the = Ok (bs, te') -> BitsAt rest r (bs ++ more) ->
  exists res td' r', tt_decode td r x y thd = Ok (res, td', r') /\ BitsAt rest r' more /\
    TTInv te' td' (Z.max tmax the) /\ tt_nodes te' = tt_nodes te /\ tt_unset te' = tt_unset te /\
    same_geom te te' /\
    (nk te' leaf = true -> res = nv te leaf) /\ (nk te' leaf = false -> thd <= res) /\
    (nu te leaf = false -> nv te leaf < the -> nk te' leaf = true) /\
    (nk te' leaf = true -> nu te leaf = false).
Proof.
  intros te td tmax x y the thd bs te' rest r more [Hwf [Hg [Ht0 [Hids Hchain]]]] Hr leaf Hc He HB.
  pose proof (wf_same_shapes te Hwf) as Hse.
  assert (Hsd : same_shapes td) by apply Hg.
  destruct (wf_leaf_id te x y Hwf) as [prest Hp]. fold leaf in Hp.
  pose proof (Hchain x y Hr) as Hdec. rewrite Hp in Hdec.
  (* the encoder *)
  unfold tt_encode in He. rewrite Hr in He. cbn [negb] in He.
  rewrite (forallb_valid te x y Hwf Hr) in He. cbn [negb] in He.
  apply ok_inj in He.
  set (ids := rev (tt_path te x y)) in *.
  assert (Hin_ids : forall id, In id ids -> In id (tt_path te x y)) by (intros id H; apply in_rev; exact H).
  assert (Hle : forall id, In id ids -> nu te leaf = false -> nu te id = false /\ nv te id <= nv te leaf).
  { intros id Hin Hul. apply Hin_ids in Hin. rewrite Hp in Hin. destruct Hin as [<-|Hin]; [split; [exact Hul | lia]|].
    apply (decr_adj_le_head te prest leaf Hdec Hul id Hin). }
  assert (Hleaf_in : In leaf ids) by (apply in_rev; unfold ids; rewrite rev_involutive, Hp; left; reflexivity).
  destruct (nodes_sync ids te td 0 the thd tmax bs te' rest r more) as
    [td' [r' [Edec [HB' [Hn' [Hu' [Hge [Hgd [Hfr Hpost]]]]]]]]]; try assumption.
  - apply NoDup_rev. apply wf_path_nodup.
  - apply Hg.
  - intros id Hin. pose proof (wf_path_valid te x y id Hwf Hr (Hin_ids id Hin)) as Hv.
    destruct (Hids id Hv) as [A [B [C D]]].
    unfold node_pre. split; [exact Hv|]. split; [exact A|]. split; [exact B|]. split; [|exact C].
    destruct Hc as [Hc|[Hc0 [Hc1 Hc2]]]; [left; exact Hc|]. right.
    destruct (Hle id Hin Hc0) as [Hu Hl]. split; [exact Hu | lia].
  - apply decr_adj_rev. rewrite Hp. exact Hdec.
  - intros a l E Hua. assert (Ha : In a ids) by (rewrite E; left; reflexivity).
    pose proof (wf_path_valid te x y a Hwf Hr (Hin_ids a Ha)) as Hv. destruct (Hids a Hv) as [_ [_ [_ D]]].
    apply D. exact Hua.
  - (* the decoder *)
    assert (Hvalid_d : forallb (tt_valid_id td) (tt_path td x y) = true).
    { apply forallb_valid; [apply (wf_tree_geom te td Hwf Hg) | rewrite (in_range_geom te td x y Hg); exact Hr]. }
    assert (Hnv' : forall i, nv te' i = nv te i) by (intros i; unfold nv; rewrite Hn'; reflexivity).
    assert (Hnu' : forall i, nu te' i = nu te i) by (intros i; unfold nu; rewrite Hu'; reflexivity).
    destruct (Hpost leaf Hleaf_in) as [[_ [Hru Hrv]] [[_ Pk] [P3 _]]].
    set (nd := nv td' leaf).
    exists (if nu td' leaf && (thd >? nd) then thd else nd), td', r'.
    split.
    { unfold tt_decode. rewrite (in_range_geom te td x y Hg), Hr. cbn [negb].
      rewrite Hvalid_d. cbn [negb]. rewrite (path_geom te td x y Hg). rewrite Hp.
      rewrite <- Hp. fold ids. rewrite Edec. cbn [obind fst snd]. reflexivity. }
    split; [exact HB'|].
    split.
    { unfold TTInv. split; [apply (wf_tree_geom te te' Hwf Hge)|].
      split.
      { apply (same_geom_trans te' te td'); [apply same_geom_sym; assumption|].
        apply (same_geom_trans te td td'); assumption. }
      split; [lia|]. split.
      - intros id Hv. apply (vid_geom te te' id Hge) in Hv.
        destruct (in_dec pair_eq_dec id ids) as [Hin|Hnin].
        + destruct (Hpost id Hin) as [P1 [P2 [_ P4]]]. destruct (Hids id Hv) as [_ [_ [_ D]]].
          split; [exact P1|]. split; [exact P2|]. split; [exact P4 | rewrite Hnv', Hnu'; exact D].
        + destruct (Hfr id Hnin) as [A1 [A2 [A3 [A4 A5]]]].
          destruct (Hids id Hv) as [[R1 [R2 R3]] [[I1 I2] [I4 I5]]].
          unfold NodeRel, NodeInv. rewrite !Hnv', !Hnu', A1, A2, A3, A4, A5.
          split; [split; [exact R1 | split; [exact R2 | exact R3]]|].
          split; [split; [exact I1 | exact I2]|]. split; [lia | exact I5].
      - intros x1 y1 Hr1. rewrite (in_range_geom te te' x1 y1 Hge) in Hr1.
        rewrite (path_geom te te' x1 y1 Hge). intros pre a b post E. rewrite !Hnv', !Hnu'.
        apply (Hchain x1 y1 Hr1 pre a b post E). }
    split; [exact Hn'|]. split; [exact Hu'|]. split; [exact Hge|].
    rewrite Hnv' in Hrv.
    split.
    { intros Hk. rewrite Hru, Hk. cbn [negb andb]. unfold nd. apply Hrv. exact Hk. }
    split.
    { intros Hk. rewrite Hru, Hk. cbn [negb andb]. destruct (Z.gtb_spec thd nd); lia. }
    split; [exact P3|].
    intros Hk. destruct (Pk Hk) as [A _]. rewrite Hnu' in A. exact A.
Qed.

(* encoding a leaf inside the grid of a well-formed tree never fails *)
Lemma tt_encode_ok : forall te x y thr, wf_tree te -> tt_in_range te x y = true ->
  exists bs te', tt_encode te x y thr = Ok (bs, te').
Proof.
  intros te x y thr Hwf Hr. unfold tt_encode. rewrite Hr. cbn [negb].
  rewrite (forallb_valid te x y Hwf Hr). cbn [negb].
  destruct (tt_enc_nodes te (rev (tt_path te x y)) 0 thr) as [bs te']. exists bs, te'. reflexivity.
Qed.

Lemma enc_loop_01 : forall fuel L thr v u k bs L' k', tt_enc_loop fuel L thr v u k = (bs, L', k') -> Forall bit01 bs.
Proof.
  induction fuel as [|f IH]; intros L thr v u k bs L' k' H; cbn [tt_enc_loop] in H.
  - inversion H. constructor.
  - destruct (L <? thr).
    + destruct (negb u && (L >=? v)).
      * inversion H. destruct k; [constructor | constructor; [right; reflexivity | constructor]].
      * destruct (tt_enc_loop f (L + 1) thr v u k) as [[bs1 l1] k1] eqn:E. inversion H; subst.
        constructor; [left; reflexivity | eapply IH; exact E].
    + inversion H. constructor.
Qed.

Lemma enc_nodes_01 : forall ids t low thr bs t', tt_enc_nodes t ids low thr = (bs, t') -> Forall bit01 bs.
Proof.
  induction ids as [|[lv idx] ids IH]; intros t low thr bs t' H; cbn [tt_enc_nodes] in H.
  - inversion H. constructor.
  - destruct (tt_enc_loop _ _ _ _ _ _) as [[bs1 l2] k2] eqn:E1.
    destruct (tt_enc_nodes _ ids l2 thr) as [bs2 t3] eqn:E2. inversion H; subst.
    apply Forall_app. split; [eapply enc_loop_01; exact E1 | eapply IH; exact E2].
Qed.

Lemma tt_encode_01 : forall te x y thr bs te', tt_encode te x y thr = Ok (bs, te') -> Forall bit01 bs.
Proof.
  intros te x y thr bs te' H. unfold tt_encode in H.
  destruct (negb (tt_in_range te x y)); [discriminate|].
  destruct (negb (forallb (tt_valid_id te) (tt_path te x y))); [discriminate|].
  apply ok_inj in H. eapply enc_nodes_01. exact H.
Qed.

(* ---------- SetValue ---------- *)

Definition gv (nodes : list (list Z)) (id : Z * Z) : Z := get2 nodes (fst id) (snd id) 0.
Definition gu (unset : list (list bool)) (id : Z * Z) : bool := get2 unset (fst id) (snd id) false.

Lemma setvalue_ids_spec : forall ids nodes unset v, NoDup ids ->
  (forall id, In id ids -> valid2 nodes (fst id) (snd id) = true /\ valid2 unset (fst id) (snd id) = true) ->
  let nodes' := fst (tt_setvalue_ids nodes unset ids v) in
  let unset' := snd (tt_setvalue_ids nodes unset ids v) in
  shape nodes' = shape nodes /\ shape unset' = shape unset /\
  exists ch un, ids = ch ++ un /\
    (forall id, In id ch -> (gu unset id = true \/ gv nodes id > v) /\ gv nodes' id = v /\ gu unset' id = false) /\
    (forall id, ~ In id ch -> gv nodes' id = gv nodes id /\ gu unset' id = gu unset id) /\
    (forall u l, un = u :: l -> gu unset u = false /\ gv nodes u <= v).
Proof.
  induction ids as [|[lv idx] ids IH]; intros nodes unset v Hnd Hval nodes' unset'.
  - subst nodes' unset'. cbn [tt_setvalue_ids fst snd]. split; [reflexivity|]. split; [reflexivity|]. exists [], [].
    split; [reflexivity|]. split; [intros id []|]. split; [intros; split; reflexivity | intros u l E; discriminate].
  - subst nodes' unset'. cbn [tt_setvalue_ids].
    destruct (Hval (lv, idx) ltac:(left; reflexivity)) as [Hv0 Hvu0]. cbn [fst snd] in Hv0, Hvu0.
    pose proof Hv0 as Hv0'. apply valid2_spec in Hv0' as [V1 [V2 [V3 V4]]].
    assert (Hnb : (idx >=? zlen (znth nodes lv [])) = false).
    { destruct (Z.geb_spec idx (zlen (znth nodes lv []))) as [H|H]; [|reflexivity].
      rewrite znth_nth in H by lia. unfold zlen in H. lia. }
    rewrite Hnb.
    apply NoDup_cons_iff in Hnd as [Hnotin Hnd'].
    destruct (get2 unset lv idx false || (get2 nodes lv idx 0 >? v)) eqn:Econd.
    + set (nodes1 := set2 nodes lv idx v). set (unset1 := set2 unset lv idx false).
      assert (Hval1 : forall id, In id ids -> valid2 nodes1 (fst id) (snd id) = true /\ valid2 unset1 (fst id) (snd id) = true).
      { intros id Hin. unfold nodes1, unset1.
        rewrite (valid2_shape (set2 nodes lv idx v) nodes) by apply set2_shape.
        rewrite (valid2_shape (set2 unset lv idx false) unset) by apply set2_shape.
        apply Hval. right. exact Hin. }
      destruct (IH nodes1 unset1 v Hnd' Hval1) as [Hs [Hsu [ch [un [E [Hch [Hun Hu]]]]]]].
      assert (Hg1 : forall id, id <> (lv, idx) -> gv nodes1 id = gv nodes id /\ gu unset1 id = gu unset id).
      { intros id Hne. unfold gv, gu, nodes1, unset1.
        assert (Hp : (lv, idx) <> (fst id, snd id)).
        { intros Heq. apply Hne. destruct id as [i1 i2]. cbn [fst snd] in Heq. congruence. }
        split; apply get2_set2_other; exact Hp. }
      assert (Hg0 : gv nodes1 (lv, idx) = v /\ gu unset1 (lv, idx) = false).
      { unfold gv, gu, nodes1, unset1; cbn [fst snd]. split; apply get2_set2_same; assumption. }
      assert (Hnch : ~ In (lv, idx) ch) by (intros H; apply Hnotin; rewrite E; apply in_or_app; left; exact H).
      split; [rewrite Hs; apply set2_shape|]. split; [rewrite Hsu; apply set2_shape|].
      exists ((lv, idx) :: ch), un. split; [rewrite E; reflexivity|]. split.
      * intros id [<-|Hin].
        -- split.
           { unfold gu, gv. cbn [fst snd]. apply Bool.orb_true_iff in Econd as [Ec|Ec]; [left; exact Ec|].
             right. apply Z.gtb_lt in Ec. lia. }
           destruct (Hun (lv, idx) Hnch) as [A B]. rewrite A, B. exact Hg0.
        -- assert (Hne : id <> (lv, idx)) by (intros ->; contradiction).
           destruct (Hch id Hin) as [A [B C]]. destruct (Hg1 id Hne) as [G1 G2]. rewrite G1, G2 in A.
           split; [exact A | split; assumption].
      * split.
        -- intros id Hn. assert (Hne : id <> (lv, idx)) by (intros ->; apply Hn; left; reflexivity).
           destruct (Hun id ltac:(intros H; apply Hn; right; exact H)) as [A B]. destruct (Hg1 id Hne) as [G1 G2].
           split; congruence.
        -- intros u l Eu. assert (Hne : u <> (lv, idx)).
           { intros ->. apply Hnotin. rewrite E, Eu. apply in_or_app. right. left. reflexivity. }
           destruct (Hg1 u Hne) as [G1 G2]. rewrite <- G1, <- G2. apply (Hu u l Eu).
    + apply Bool.orb_false_iff in Econd as [Ec1 Ec2].
      cbn [fst snd]. split; [reflexivity|]. split; [reflexivity|].
      exists [], ((lv, idx) :: ids). split; [reflexivity|].
      split; [intros id []|]. split; [intros; split; reflexivity|].
      intros u l E. inversion E; subst. unfold gv, gu. cbn [fst snd]. split; [exact Ec1|].
      destruct (Z.gtb_spec (get2 nodes lv idx 0) v); [discriminate | lia].
Qed.

Theorem tt_setvalue_inv : forall te td tmax x y v, TTInv te td tmax -> tmax <= v ->
  let te' := tt_setvalue te x y v in
  TTInv te' td tmax /\ same_geom te te' /\
  (tt_in_range te x y = true ->
     let leaf := (0, y * tt_w te + x) in
     nu te' leaf = false /\
     nv te' leaf = (if nu te leaf || (nv te leaf >? v) then v else nv te leaf) /\
     (forall x1 y1, tt_in_range te x1 y1 = true -> (x1, y1) <> (x, y) ->
        nv te' (0, y1 * tt_w te + x1) = nv te (0, y1 * tt_w te + x1) /\
        nu te' (0, y1 * tt_w te + x1) = nu te (0, y1 * tt_w te + x1))).
Proof.
  intros te td tmax x y v [Hwf [Hg [Ht0 [Hids Hchain]]]] Hv te'. subst te'. unfold tt_setvalue.
  pose proof (wf_same_shapes te Hwf) as Hse.
  destruct (tt_in_range te x y) eqn:Hr.
  2:{ split; [unfold TTInv; auto|]. split; [apply same_geom_refl; exact Hse | discriminate]. }
  set (P := tt_path te x y) in *.
  destruct (setvalue_ids_spec P (tt_nodes te) (tt_unset te) v (wf_path_nodup te x y))
    as [Hs [Hsu [ch [un [E [Hch [Hun Hu]]]]]]].
  { intros id Hin. pose proof (wf_path_valid te x y id Hwf Hr Hin) as Hvid.
    split; [exact Hvid | apply same_shapes_vid_unset; assumption]. }
  set (nodes' := fst (tt_setvalue_ids (tt_nodes te) (tt_unset te) P v)) in *.
  set (unset' := snd (tt_setvalue_ids (tt_nodes te) (tt_unset te) P v)) in *.
  set (te' := tt_with te nodes' (tt_low te) (tt_known te) unset').
  assert (Hge : same_geom te te').
  { unfold same_geom, te', tt_with, same_shapes. cbn [tt_w tt_h tt_lw tt_nodes tt_low tt_known tt_unset].
    destruct Hse as [S1 [S2 S3]]. repeat split; congruence. }
  assert (Hnv : forall id, nv te' id = gv nodes' id) by reflexivity.
  assert (Hnu : forall id, nu te' id = gu unset' id) by reflexivity.
  assert (Hnv0 : forall id, nv te id = gv (tt_nodes te) id) by reflexivity.
  assert (Hnu0 : forall id, nu te id = gu (tt_unset te) id) by reflexivity.
  assert (Hnl : forall id, nl te' id = nl te id) by reflexivity.
  assert (Hnk : forall id, nk te' id = nk te id) by reflexivity.
  assert (HPnd : NoDup (ch ++ un)) by (rewrite <- E; apply wf_path_nodup).
  split.
  { unfold TTInv. split; [apply (wf_tree_geom te te' Hwf Hge)|].
    split; [apply (same_geom_trans te' te td); [apply same_geom_sym; assumption | exact Hg]|].
    split; [exact Ht0|]. split.
    - intros id Hvid. apply (vid_geom te te' id Hge) in Hvid.
      destruct (Hids id Hvid) as [[R1 [R2 R3]] [[I1 I2] [I4 I5]]].
      unfold NodeRel, NodeInv. rewrite Hnl, Hnk, Hnv, Hnu.
      destruct (in_dec pair_eq_dec id ch) as [Hin|Hnin].
      + destruct (Hch id Hin) as [A [B C]]. rewrite B, C. rewrite <- Hnv0, <- Hnu0 in A.
        assert (Hnk0 : nk te id = false).
        { destruct (nk te id) eqn:Ek; [|reflexivity]. destruct (I2 eq_refl) as [J1 J2].
          destruct A as [A|A]; [congruence | lia]. }
        rewrite Hnk0 in *.
        split; [split; [exact R1 | split; [exact R2 | discriminate]]|].
        split; [split; [intros _; lia | discriminate]|]. split; [exact I4 | intros _; lia].
      + destruct (Hun id Hnin) as [A B]. rewrite A, B, <- Hnv0, <- Hnu0.
        split; [split; [exact R1 | split; [exact R2 | exact R3]]|].
        split; [split; [exact I1 | exact I2]|]. split; [exact I4 | exact I5].
    - intros x1 y1 Hr1. rewrite (in_range_geom te te' x1 y1 Hge) in Hr1.
      rewrite (path_geom te te' x1 y1 Hge). intros pre a b post E1 Hua.
      destruct (in_dec pair_eq_dec a ch) as [Hin|Hnin].
      + destruct (Hch a Hin) as [_ [Ba _]]. rewrite (Hnv a), Ba.
        apply in_split in Hin as [c1 [c2 Ec]].
        assert (EP : P = c1 ++ a :: (c2 ++ un)) by (rewrite E, Ec, <- app_assoc; reflexivity).
        destruct (wf_path_merge te x1 y1 x y Hwf Hr1 Hr pre a (b :: post) c1 (c2 ++ un) E1 EP) as [Epost _].
        destruct c2 as [|b' c2'].
        * cbn [app] in Epost. assert (Hbn : ~ In b ch).
          { intros Hb. rewrite <- Epost in HPnd. apply NoDup_remove_2 in HPnd. apply HPnd.
            apply in_or_app. left. exact Hb. }
          destruct (Hun b Hbn) as [Bv Bu]. rewrite Hnv, Hnu, Bv, Bu.
          apply (Hu b post). symmetry. exact Epost.
        * cbn [app] in Epost. assert (b = b') by congruence. subst b'.
          assert (Hb : In b ch) by (rewrite Ec; apply in_or_app; right; right; left; reflexivity).
          destruct (Hch b Hb) as [_ [Bb Bu]]. rewrite Hnv, Hnu, Bb, Bu. split; [reflexivity | lia].
      + destruct (Hun a Hnin) as [Av Au]. rewrite (Hnv a), Av, <- Hnv0. rewrite Hnu, Au, <- Hnu0 in Hua.
        destruct (Hchain x1 y1 Hr1 pre a b post E1 Hua) as [Hub Hle].
        destruct (in_dec pair_eq_dec b ch) as [Hb|Hb].
        * destruct (Hch b Hb) as [Bc [Bv Bu]]. rewrite Hnv, Hnu, Bv, Bu. split; [reflexivity|].
          rewrite <- Hnv0, <- Hnu0 in Bc. destruct Bc as [Bc|Bc]; [congruence | lia].
        * destruct (Hun b Hb) as [Bv Bu]. rewrite Hnv, Hnu, Bv, Bu, <- Hnv0, <- Hnu0. split; assumption. }
  split; [exact Hge|].
  intros _. set (leaf := (0, y * tt_w te + x)). destruct (wf_leaf_id te x y Hwf) as [prest Hp]. fold P in Hp. fold leaf in Hp.
  assert (Hleaf : (nu te leaf || (nv te leaf >? v) = true -> In leaf ch) /\
                  (nu te leaf || (nv te leaf >? v) = false -> ~ In leaf ch)).
  { split.
    - intros Hc. destruct ch as [|c ch'].
      + cbn [app] in E. rewrite Hp in E. destruct (Hu leaf prest (eq_sym E)) as [U1 U2].
        rewrite <- Hnu0 in U1. rewrite <- Hnv0 in U2. rewrite U1 in Hc. cbn [orb] in Hc. apply Z.gtb_lt in Hc. lia.
      + assert (c = leaf) by (rewrite Hp in E; cbn [app] in E; congruence). subst c. left. reflexivity.
    - intros Hc Hin. destruct (Hch leaf Hin) as [A _]. rewrite <- Hnv0, <- Hnu0 in A.
      apply Bool.orb_false_iff in Hc as [C1 C2]. destruct A as [A|A]; [congruence|].
      destruct (Z.gtb_spec (nv te leaf) v); [discriminate | lia]. }
  destruct Hleaf as [HL1 HL2].
  split.
  { rewrite Hnu. destruct (nu te leaf || (nv te leaf >? v)) eqn:Ec.
    - destruct (Hch leaf (HL1 eq_refl)) as [_ [_ C]]. exact C.
    - destruct (Hun leaf (HL2 eq_refl)) as [_ B]. rewrite B, <- Hnu0.
      apply Bool.orb_false_iff in Ec as [C1 _]. exact C1. }
  split.
  - rewrite Hnv. destruct (nu te leaf || (nv te leaf >? v)) eqn:Ec.
    + destruct (Hch leaf (HL1 eq_refl)) as [_ [B _]]. exact B.
    + destruct (Hun leaf (HL2 eq_refl)) as [A _]. rewrite A. reflexivity.
  - intros x1 y1 Hr1 Hne. rewrite Hnv, Hnu, Hnv0, Hnu0. apply Hun. intros Hin.
    assert (HinP : In (0, y1 * tt_w te + x1) P) by (rewrite E; apply in_or_app; left; exact Hin).
    rewrite Hp in HinP. destruct HinP as [Eq|HinP].
    + unfold leaf in Eq. assert (y * tt_w te + x = y1 * tt_w te + x1) by congruence.
      destruct (leaf_id_inj te x y x1 y1 Hr Hr1 H) as [-> ->]. apply Hne. reflexivity.
    + (* the other nodes of the stack are above level 0 *)
      destruct (wf_path_nonempty te Hwf) as [lw [lws [Elw _]]].
      unfold P, tt_path in Hp. rewrite Elw, path_head in Hp.
      assert (prest = tt_path_lv lws (0 + 1) (x / 2) (y / 2)) by congruence. subst prest.
      apply path_levels in HinP. cbn [fst] in HinP. lia.
Qed.
