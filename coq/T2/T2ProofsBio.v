(* C04 (t2): the packet-header bit reader inverts the bit writer.
   bio_roundtrip: for any non-empty list of bits, bioReader on (writeBit*; flush) ++ rest
   returns the bits and, after alignToByte, stands exactly at `rest` - also when the header
   ends in 0xFF with ct = 0 (finding F19).
   The interface used by the rest of the area is the predicate BitsAt with three lemmas:
   bitsat_init, bitsat_step, bitsat_final (+ bitsat_read_bits). *)
From V Require Import Common.Base Framing.FrmBase Framing.FrmWriters Framing.FrmProofsBio T2.T2Bio.

Definition bit01 (b : Z) : Prop := b = 0 \/ b = 1.

(* replace closed powers of two by their value (cbn would unfold mod/div on variables) *)
Ltac norm_pow :=
  repeat match goal with
  | |- context [2 ^ ?k] =>
    let v := eval vm_compute in (2 ^ k) in
    lazymatch v with Z.pos _ => change (2 ^ k) with v end
  | H : context [2 ^ ?k] |- _ =>
    let v := eval vm_compute in (2 ^ k) in
    lazymatch v with Z.pos _ => change (2 ^ k) with v in H end
  end.

(* ---------- arithmetic ---------- *)

Lemma lor_pow2_add : forall a k, 0 <= k -> Z.testbit a k = false -> Z.lor a (2 ^ k) = a + 2 ^ k.
Proof.
  intros a k Hk Hb.
  assert (HL : Z.land a (2 ^ k) = 0).
  { apply Z.bits_inj'. intros n Hn. rewrite Z.land_spec, Z.bits_0, Z.pow2_bits_eqb by lia.
    destruct (Z.eqb_spec k n) as [->|]; [rewrite Hb; reflexivity | apply Bool.andb_false_r]. }
  rewrite <- Z.lxor_lor by exact HL. symmetry. apply Z.add_nocarry_lxor. exact HL.
Qed.

Lemma land1_mod2 : forall a, Z.land a 1 = a mod 2.
Proof. intros a. change 1 with (Z.ones 1). rewrite Z.land_ones by lia. reflexivity. Qed.

Lemma bit_extract : forall a k, 0 <= k -> Z.land (Z.shiftr a k) 1 = (a / 2 ^ k) mod 2.
Proof. intros a k Hk. rewrite land1_mod2, Z.shiftr_div_pow2 by lia. reflexivity. Qed.

Lemma bit_extract_01 : forall a k, 0 <= k -> bit01 (Z.land (Z.shiftr a k) 1).
Proof.
  intros a k Hk. rewrite bit_extract by lia. unfold bit01.
  pose proof (Z.mod_pos_bound (a / 2 ^ k) 2 ltac:(lia)). lia.
Qed.

Lemma wrap16_shift : forall x, wrapU 16 (x * 256) = (x mod 256) * 256.
Proof.
  intros x. unfold wrapU. change (2 ^ 16) with (256 * 256).
  rewrite Z.mul_mod_distr_r by lia. reflexivity.
Qed.

Lemma lor_low_byte : forall m b, 0 <= b < 256 -> Z.lor (m * 256) b mod 256 = b.
Proof.
  intros m b Hb. change 256 with (2 ^ 8).
  rewrite <- Z.land_ones by lia. rewrite Z.land_lor_distr_l.
  rewrite !Z.land_ones by lia. rewrite Z.mod_mul by lia. rewrite Z.lor_0_l.
  apply Z.mod_small. exact Hb.
Qed.

(* ---------- writer: arithmetic form of writeBit ---------- *)

Definition WInv (s : bio) : Prop :=
  0 <= bo_ct s <= 8 /\ 0 <= bo_out s < 65536 /\ lo s mod 2 ^ bo_ct s = 0.

Lemma winv_init : WInv bio_init.
Proof. unfold WInv, lo, bio_init; cbn. repeat split; lia. Qed.

Definition cap_of (b : Z) : Z := if b =? 255 then 7 else 8.

(* state after byteOut *)
Definition after_byteout (s : bio) : bio := {| bo_out := lo s * 256; bo_ct := cap_of (lo s) |}.

Lemma byteout_eq : forall s, 0 <= bo_out s < 65536 -> bio_byteout s = ([lo s], after_byteout s).
Proof. intros s H. rewrite byteout_spec by exact H. reflexivity. Qed.

Lemma lo_after_byteout : forall s, lo (after_byteout s) = 0.
Proof. intros s. unfold after_byteout, lo. cbn [bo_out]. apply Z.mod_mul. lia. Qed.

Lemma winv_after_byteout : forall s, WInv (after_byteout s).
Proof.
  intros s. pose proof (lo_bound s) as Hl. unfold WInv. rewrite lo_after_byteout.
  unfold after_byteout, cap_of. cbn [bo_ct bo_out].
  destruct (lo s =? 255); repeat split; try lia; apply Z.mod_0_l; lia.
Qed.

Lemma ct_cases : forall c, 0 <= c <= 8 ->
  c = 0 \/ c = 1 \/ c = 2 \/ c = 3 \/ c = 4 \/ c = 5 \/ c = 6 \/ c = 7 \/ c = 8.
Proof. intros; lia. Qed.

(* the low byte has its bit ct-1 clear *)
Lemma winv_bit_clear : forall s, WInv s -> 0 < bo_ct s -> Z.testbit (bo_out s) (bo_ct s - 1) = false.
Proof.
  intros s [Hct [Ho Hm]] Hp.
  rewrite <- (Z.mod_pow2_bits_low (bo_out s) 8) by lia. change (2 ^ 8) with 256. fold (lo s).
  assert (E : lo s = lo s / 2 ^ bo_ct s * 2 ^ bo_ct s).
  { pose proof (Z.div_mod (lo s) (2 ^ bo_ct s)) as D.
    assert (0 < 2 ^ bo_ct s) by (apply Z.pow_pos_nonneg; lia). lia. }
  rewrite E. apply Z.mul_pow2_bits_low. lia.
Qed.

(* one writeBit with room in the current byte *)
Lemma write_bit_room : forall s b, WInv s -> bo_ct s <> 0 -> bit01 b ->
  bio_write_bit s b = ([], {| bo_out := bo_out s + b * 2 ^ (bo_ct s - 1); bo_ct := bo_ct s - 1 |}).
Proof.
  intros s b HW Hc Hb. pose proof HW as [Hct [Ho Hm]]. unfold bio_write_bit.
  destruct (Z.eqb_spec (bo_ct s) 0) as [E|_]; [contradiction|].
  destruct Hb as [-> | ->].
  - change (0 =? 0) with true. cbn iota. rewrite Z.mul_0_l, Z.add_0_r. reflexivity.
  - change (1 =? 0) with false. cbn iota. rewrite Z.mul_1_l.
    rewrite lor_pow2_add; [| lia | apply winv_bit_clear; [exact HW | lia]].
    f_equal. f_equal. unfold wrapU. apply Z.mod_small.
    (* lo + 2^(ct-1) < 256 because lo is a multiple of 2^ct below 256 *)
    unfold lo in Hm.
    destruct (ct_cases _ Hct) as [E|[E|[E|[E|[E|[E|[E|[E|E]]]]]]]]; rewrite E in *; try lia;
      norm_pow; Z.div_mod_to_equations; lia.
Qed.

Lemma lo_hi_split : forall s, bo_out s = hi s * 256 + lo s.
Proof. intros s. unfold hi, lo. pose proof (Z.div_mod (bo_out s) 256). lia. Qed.

Lemma winv_after_room : forall s b, WInv s -> bo_ct s <> 0 -> bit01 b ->
  let s' := {| bo_out := bo_out s + b * 2 ^ (bo_ct s - 1); bo_ct := bo_ct s - 1 |} in
  WInv s' /\ lo s' = lo s + b * 2 ^ (bo_ct s - 1).
Proof.
  intros s b [Hct [Ho Hm]] Hc Hb s'. subst s'. unfold WInv, lo in *. cbn [bo_out bo_ct].
  destruct (ct_cases _ Hct) as [E|[E|[E|[E|[E|[E|[E|[E|E]]]]]]]]; rewrite E in *; try lia;
    destruct Hb as [-> | ->]; norm_pow; repeat split; try lia; Z.div_mod_to_equations; lia.
Qed.

(* ---------- writer: shape of the output ---------- *)

Lemma flush_eq : forall s, 0 <= bo_out s < 65536 ->
  bio_flush s = if lo s =? 255 then [255; 0] else [lo s].
Proof.
  intros s Ho. unfold bio_flush. rewrite byteout_eq by exact Ho.
  unfold after_byteout, cap_of. cbn [bo_ct].
  destruct (Z.eqb_spec (lo s) 255) as [E|E].
  - change (7 =? 7) with true. cbn iota.
    pose proof (lo_bound s).
    rewrite byteout_eq by (cbn [bo_out]; lia).
    cbn [fst app]. rewrite lo_of_shifted. rewrite E. reflexivity.
  - change (8 =? 7) with false. reflexivity.
Qed.

Lemma run_cons_room : forall s b fb, WInv s -> bo_ct s <> 0 -> bit01 b ->
  bio_run s (b :: fb) = bio_run {| bo_out := bo_out s + b * 2 ^ (bo_ct s - 1); bo_ct := bo_ct s - 1 |} fb.
Proof. intros s b fb HW Hc Hb. cbn [bio_run]. rewrite write_bit_room by assumption. reflexivity. Qed.

Lemma write_bit_full : forall s b, WInv s -> bo_ct s = 0 ->
  bio_write_bit s b = ([lo s], snd (bio_write_bit (after_byteout s) b)) /\
  fst (bio_write_bit (after_byteout s) b) = [].
Proof.
  intros s b [Hct [Ho Hm]] Hc. unfold bio_write_bit at 1. rewrite Hc. change (0 =? 0) with true.
  cbn iota. rewrite byteout_eq by exact Ho.
  unfold bio_write_bit.
  assert (Hne : (bo_ct (after_byteout s) =? 0) = false).
  { unfold after_byteout, cap_of. cbn [bo_ct]. destruct (lo s =? 255); reflexivity. }
  rewrite Hne. cbn iota. split; reflexivity.
Qed.

Lemma run_cons_full : forall s b fb, WInv s -> bo_ct s = 0 ->
  bio_run s (b :: fb) = lo s :: bio_run (after_byteout s) (b :: fb).
Proof.
  intros s b fb HW Hc. cbn [bio_run].
  destruct (write_bit_full s b HW Hc) as [E1 E2]. rewrite E1.
  destruct (bio_write_bit (after_byteout s) b) as [o s'] eqn:E. cbn [fst snd] in *. subst o. reflexivity.
Qed.

Lemma after_byteout_ct : forall s, bo_ct (after_byteout s) <> 0.
Proof. intros s. unfold after_byteout, cap_of. cbn [bo_ct]. destruct (lo s =? 255); lia. Qed.

(* the first byte of the remaining output already fixes the bits written so far *)
Lemma run_head : forall fb s, Forall bit01 fb -> WInv s ->
  exists B tl, bio_run s fb = B :: tl /\ 0 <= B < 256 /\ B / 2 ^ bo_ct s = lo s / 2 ^ bo_ct s.
Proof.
  induction fb as [|b r IH]; intros s HF HW.
  - cbn [bio_run]. pose proof HW as [Hct [Ho Hm]]. rewrite flush_eq by exact Ho.
    pose proof (lo_bound s) as Hl.
    destruct (Z.eqb_spec (lo s) 255) as [E|E].
    + exists 255, [0]. rewrite E. repeat split; lia.
    + exists (lo s), []. repeat split; lia.
  - inversion HF as [|? ? Hb HF']; subst.
    destruct (Z.eq_dec (bo_ct s) 0) as [Hc|Hc].
    + rewrite run_cons_full by assumption. pose proof (lo_bound s).
      eexists; eexists; split; [reflexivity|]. split; [lia|reflexivity].
    + rewrite run_cons_room by assumption.
      destruct (winv_after_room s b HW Hc Hb) as [HW' Hlo'].
      destruct (IH _ HF' HW') as [B [tl [E [HB Hd]]]].
      exists B, tl. split; [exact E|]. split; [exact HB|].
      cbn [bo_ct] in Hd. rewrite Hlo' in Hd.
      pose proof HW as [Hct [Ho Hm]].
      destruct (ct_cases _ Hct) as [E0|[E0|[E0|[E0|[E0|[E0|[E0|[E0|E0]]]]]]]]; rewrite E0 in *; try lia;
        destruct Hb as [-> | ->]; norm_pow; Z.div_mod_to_equations; lia.
Qed.

(* ---------- reader ---------- *)

Definition rd_total (r : rd) : Z := rd_pos r + zlen (rd_data r).

Lemma zlen_cons : forall {A} (x : A) l, zlen (x :: l) = zlen l + 1.
Proof. intros. unfold zlen. cbn [length]. lia. Qed.

Lemma bytein_total : forall r r', rd_bytein r = Ok r' -> rd_total r' = rd_total r /\ rd_pos r' = rd_pos r + 1.
Proof.
  intros r r' H. unfold rd_bytein in H. destruct (rd_data r) as [|b t] eqn:E; [discriminate|].
  inversion H; subst. unfold rd_total. cbn [rd_pos rd_data]. rewrite E, zlen_cons. lia.
Qed.

Lemma read_bit_total : forall r b r', rd_read_bit r = Ok (b, r') ->
  rd_total r' = rd_total r /\ rd_pos r <= rd_pos r' /\ bit01 b.
Proof.
  intros r b r' H. unfold rd_read_bit in H.
  destruct (rd_ct r =? 0).
  - destruct (rd_bytein r) as [r1| | |] eqn:E; cbn [obind] in H; try discriminate.
    inversion H; subst. destruct (bytein_total _ _ E) as [Ht Hp].
    unfold rd_total in *. cbn [rd_pos rd_data]. repeat split; try lia.
    unfold bit01. rewrite land1_mod2. pose proof (Z.mod_pos_bound (Z.shiftr (rd_buf r1) (rd_ct r1 - 1)) 2 ltac:(lia)). lia.
  - cbn [obind] in H. inversion H; subst. unfold rd_total. cbn [rd_pos rd_data]. repeat split; try lia.
    unfold bit01. rewrite land1_mod2. pose proof (Z.mod_pos_bound (Z.shiftr (rd_buf r) (rd_ct r - 1)) 2 ltac:(lia)). lia.
Qed.

Lemma align_total : forall r r', rd_align r = Ok r' -> rd_total r' = rd_total r /\ rd_pos r <= rd_pos r'.
Proof.
  intros r r' H. unfold rd_align in H.
  destruct ((rd_pos r >? 0) && (Z.land (rd_buf r) 255 =? 255)).
  - destruct (rd_bytein r) as [r1| | |] eqn:E; cbn [obind] in H; try discriminate.
    inversion H; subst. destruct (bytein_total _ _ E). unfold rd_total in *. cbn [rd_pos rd_data]. lia.
  - cbn [obind] in H. inversion H; subst. unfold rd_total. cbn [rd_pos rd_data]. lia.
Qed.

(* ---------- synchronisation of reader and writer ---------- *)

Definition Sync (rest : list Z) (r : rd) (s : bio) (fb : list Z) : Prop :=
  WInv s /\ rd_ct r = bo_ct s /\ 0 < rd_pos r /\
  exists tl, bio_run s fb = (rd_buf r mod 256) :: tl /\ rd_data r = tl ++ rest.

Definition BitsAt (rest : list Z) (r : rd) (l : list Z) : Prop :=
  Forall bit01 l /\
  ((l <> [] /\ r = rd_init (bio_encode l ++ rest)) \/ exists s, Sync rest r s l).

Definition rd_dec_ct (r : rd) : rd :=
  {| rd_buf := rd_buf r; rd_ct := rd_ct r - 1; rd_data := rd_data r; rd_pos := rd_pos r |}.

Lemma read_bit_unfold_room : forall r, rd_ct r <> 0 ->
  rd_read_bit r = Ok (Z.land (Z.shiftr (rd_buf r) (rd_ct r - 1)) 1, rd_dec_ct r).
Proof.
  intros r H. unfold rd_read_bit. destruct (Z.eqb_spec (rd_ct r) 0); [contradiction|]. reflexivity.
Qed.

Lemma extract_sync : forall rest r s b l, Sync rest r s (b :: l) -> bo_ct s <> 0 -> bit01 b ->
  Forall bit01 l ->
  Z.land (Z.shiftr (rd_buf r) (rd_ct r - 1)) 1 = b /\
  Sync rest (rd_dec_ct r) {| bo_out := bo_out s + b * 2 ^ (bo_ct s - 1); bo_ct := bo_ct s - 1 |} l.
Proof.
  intros rest r s b l [HW [Hct [Hpos [tl [Hrun Hdata]]]]] Hc Hb HF.
  rewrite run_cons_room in Hrun by assumption.
  destruct (winv_after_room s b HW Hc Hb) as [HW' Hlo'].
  destruct (run_head l _ HF HW') as [B [tl' [E [HB Hd]]]].
  rewrite E in Hrun. assert (HBeq : B = rd_buf r mod 256) by congruence.
  assert (Htl : tl' = tl) by congruence. subst tl'.
  cbn [bo_ct] in Hd. rewrite Hlo' in Hd.
  split.
  - pose proof HW as [Hr [Ho Hm]]. rewrite Hct.
    rewrite bit_extract by lia.
    set (q := rd_buf r) in *. clearbody q.
    destruct (ct_cases _ Hr) as [E0|[E0|[E0|[E0|[E0|[E0|[E0|[E0|E0]]]]]]]]; rewrite E0 in *; try lia;
      destruct Hb as [-> | ->]; subst B; norm_pow; Z.div_mod_to_equations; lia.
  - unfold Sync, rd_dec_ct. cbn [rd_ct rd_buf rd_data rd_pos bo_ct].
    split; [exact HW'|]. split; [lia|]. split; [exact Hpos|].
    exists tl. split; [rewrite E; congruence | exact Hdata].
Qed.

Lemma load_sync : forall rest r s b l, Sync rest r s (b :: l) -> bo_ct s = 0 -> Forall bit01 (b :: l) ->
  exists r1, rd_bytein r = Ok r1 /\ Sync rest r1 (after_byteout s) (b :: l).
Proof.
  intros rest r s b l [HW [Hct [Hpos [tl [Hrun Hdata]]]]] Hc HF.
  rewrite run_cons_full in Hrun by assumption.
  assert (Hlo : lo s = rd_buf r mod 256) by congruence.
  assert (Htl : bio_run (after_byteout s) (b :: l) = tl) by congruence.
  destruct (run_head (b :: l) _ HF (winv_after_byteout s)) as [B [tl' [E [HB Hd]]]].
  rewrite E in Htl. subst tl.
  unfold rd_bytein. rewrite Hdata. cbn [app].
  eexists; split; [reflexivity|].
  unfold Sync. cbn [rd_ct rd_buf rd_data rd_pos].
  split; [apply winv_after_byteout|].
  rewrite wrap16_shift, <- Hlo.
  split.
  - unfold after_byteout, cap_of. cbn [bo_ct]. pose proof (lo_bound s).
    destruct (Z.eqb_spec (lo s * 256) 65280); destruct (Z.eqb_spec (lo s) 255); try reflexivity; lia.
  - split; [lia|]. exists tl'. split; [|reflexivity].
    rewrite lor_low_byte by exact HB. exact E.
Qed.

(* the initial reader state: the first readBit loads the first byte *)
Lemma init_sync : forall rest l, l <> [] -> Forall bit01 l ->
  exists r1, rd_bytein (rd_init (bio_encode l ++ rest)) = Ok r1 /\ Sync rest r1 bio_init l /\
             rd_ct (rd_init (bio_encode l ++ rest)) = 0.
Proof.
  intros rest l Hne HF. unfold bio_encode.
  destruct (run_head l bio_init HF winv_init) as [B [tl [E [HB Hd]]]].
  unfold rd_bytein, rd_init. cbn [rd_data rd_buf rd_pos rd_ct]. rewrite E. cbn [app].
  eexists; split; [reflexivity|]. split; [|reflexivity].
  unfold Sync. cbn [rd_ct rd_buf rd_data rd_pos].
  split; [apply winv_init|]. split; [reflexivity|]. split; [lia|].
  exists tl. split; [|reflexivity].
  change (wrapU 16 (0 * 256)) with 0. rewrite Z.lor_0_l. rewrite Z.mod_small by exact HB. exact E.
Qed.

(* bitsat_step: the reader delivers the next bit and stays synchronised *)
Theorem bitsat_step : forall rest r b l, BitsAt rest r (b :: l) ->
  exists r', rd_read_bit r = Ok (b, r') /\ BitsAt rest r' l.
Proof.
  intros rest r b l [HF H].
  inversion HF as [|? ? Hb HF']; subst.
  assert (Hmain : forall r1 s, Sync rest r1 s (b :: l) -> bo_ct s <> 0 ->
            exists r', rd_read_bit r1 = Ok (b, r') /\ BitsAt rest r' l).
  { intros r1 s HS Hc. destruct (extract_sync rest r1 s b l HS Hc Hb HF') as [Hbit HS'].
    pose proof HS as [_ [Hct _]].
    rewrite read_bit_unfold_room by lia. rewrite Hbit.
    eexists; split; [reflexivity|]. split; [exact HF'|]. right. eexists. exact HS'. }
  destruct H as [[Hne ->] | [s HS]].
  - destruct (init_sync rest (b :: l) Hne HF) as [r1 [E [HS Hct0]]].
    destruct (Hmain r1 bio_init HS ltac:(cbn; lia)) as [r' [Hr HB]].
    exists r'. split; [|exact HB].
    unfold rd_read_bit. rewrite Hct0. change (0 =? 0) with true. cbn iota. rewrite E. cbn [obind].
    pose proof HS as [_ [Hct _]]. cbn [bo_ct bio_init] in Hct.
    unfold rd_read_bit in Hr. rewrite Hct in Hr. change (8 =? 0) with false in Hr. cbn iota in Hr.
    cbn [obind] in Hr. exact Hr.
  - destruct (Z.eq_dec (bo_ct s) 0) as [Hc|Hc].
    + destruct (load_sync rest r s b l HS Hc HF) as [r1 [E HS1]].
      destruct (Hmain r1 _ HS1 (after_byteout_ct s)) as [r' [Hr HB]].
      exists r'. split; [|exact HB].
      pose proof HS as [_ [Hct _]].
      unfold rd_read_bit. rewrite Hct, Hc. change (0 =? 0) with true. cbn iota. rewrite E. cbn [obind].
      pose proof HS1 as [_ [Hct1 _]].
      unfold rd_read_bit in Hr.
      destruct (Z.eqb_spec (rd_ct r1) 0) as [E0|E0]; [pose proof (after_byteout_ct s); lia|].
      cbn [obind] in Hr. exact Hr.
    + apply (Hmain r s HS Hc).
Qed.

(* bitsat_final: after the last bit, alignToByte leaves the reader exactly at `rest` *)
Theorem bitsat_final : forall rest r, BitsAt rest r [] ->
  exists r', rd_align r = Ok r' /\ rd_data r' = rest /\ rd_ct r' = 0.
Proof.
  intros rest r [_ [[Hne _] | [s [HW [Hct [Hpos [tl [Hrun Hdata]]]]]]]]; [contradiction|].
  cbn [bio_run] in Hrun. pose proof HW as [Hc [Ho Hm]]. rewrite flush_eq in Hrun by exact Ho.
  unfold rd_align.
  assert (Hl : Z.land (rd_buf r) 255 = rd_buf r mod 256).
  { change 255 with (Z.ones 8). rewrite Z.land_ones by lia. reflexivity. }
  rewrite Hl.
  destruct (Z.gtb_spec (rd_pos r) 0) as [_|]; [|lia]. cbn [andb].
  destruct (Z.eqb_spec (lo s) 255) as [E|E].
  - assert (Hb : rd_buf r mod 256 = 255) by congruence.
    assert (Htl : tl = [0]) by congruence. subst tl. rewrite Hb. change (255 =? 255) with true. cbn iota.
    unfold rd_bytein. rewrite Hdata. cbn [app obind].
    eexists; split; [reflexivity|]. cbn [rd_data rd_ct]. split; reflexivity.
  - assert (Hb : rd_buf r mod 256 = lo s) by congruence.
    assert (Htl : tl = []) by congruence. subst tl. rewrite Hb.
    destruct (Z.eqb_spec (lo s) 255); [contradiction|]. cbn [obind].
    eexists; split; [reflexivity|]. cbn [rd_data rd_ct]. split; [exact Hdata | reflexivity].
Qed.

Theorem bitsat_init : forall rest l, l <> [] -> Forall bit01 l -> BitsAt rest (rd_init (bio_encode l ++ rest)) l.
Proof. intros rest l Hne HF. split; [exact HF|]. left. split; [exact Hne | reflexivity]. Qed.

Lemma bitsat_forall : forall rest r l, BitsAt rest r l -> Forall bit01 l.
Proof. intros rest r l [H _]. exact H. Qed.

(* ---------- readBits ---------- *)

Lemma bits_of_nat_01 : forall n v, Forall bit01 (bits_of_nat v n).
Proof.
  induction n as [|k IH]; intros v; cbn [bits_of_nat]; constructor; [|apply IH].
  apply bit_extract_01. lia.
Qed.

Lemma bits_of_01 : forall v n, Forall bit01 (bits_of v n).
Proof. intros. apply bits_of_nat_01. Qed.

Lemma mod_pow2_split : forall v k, 0 <= k ->
  v mod 2 ^ (k + 1) = (v / 2 ^ k) mod 2 * 2 ^ k + v mod 2 ^ k.
Proof.
  intros v k Hk. rewrite Z.pow_add_r by lia. change (2 ^ 1) with 2.
  assert (0 < 2 ^ k) by (apply Z.pow_pos_nonneg; lia).
  rewrite Z.rem_mul_r by lia. lia.
Qed.

Lemma lor_shift_bit : forall a b, bit01 b -> Z.lor (a * 2) b = a * 2 + b.
Proof.
  intros a b [-> | ->]; [rewrite Z.lor_0_r; lia|].
  change 1 with (2 ^ 0) at 1. rewrite lor_pow2_add; [reflexivity | lia |].
  rewrite Z.mul_comm. apply Z.testbit_even_0.
Qed.

Lemma read_bits_nat_spec : forall n rest r v acc more,
  BitsAt rest r (bits_of_nat v n ++ more) ->
  exists r', rd_read_bits_nat n acc r = Ok (acc * 2 ^ Z.of_nat n + v mod 2 ^ Z.of_nat n, r') /\
             BitsAt rest r' more.
Proof.
  induction n as [|k IH]; intros rest r v acc more HB.
  - cbn [bits_of_nat app] in HB. cbn [rd_read_bits_nat]. exists r. split; [|exact HB].
    change (Z.of_nat 0) with 0. rewrite Z.pow_0_r, Z.mod_1_r. f_equal. f_equal. lia.
  - cbn [bits_of_nat app] in HB.
    destruct (bitsat_step _ _ _ _ HB) as [r1 [E HB1]].
    cbn [rd_read_bits_nat]. rewrite E. cbn [obind fst snd].
    destruct (IH rest r1 v (Z.lor (acc * 2) (Z.land (Z.shiftr v (Z.of_nat k)) 1)) more HB1) as [r' [E' HB']].
    exists r'. split; [|exact HB']. rewrite E'. f_equal. f_equal.
    rewrite lor_shift_bit by (apply bit_extract_01; lia).
    rewrite bit_extract by lia.
    rewrite Nat2Z.inj_succ. unfold Z.succ.
    rewrite (mod_pow2_split v (Z.of_nat k)) by lia.
    rewrite Z.pow_add_r by lia. change (2 ^ 1) with 2. ring.
Qed.

(* readBits(n) returns what writeBits(v, n) wrote, for 1 <= n <= 32 and 0 <= v < 2^n *)
Theorem bitsat_read_bits : forall rest r v n more, 1 <= n <= 32 -> 0 <= v < 2 ^ n ->
  BitsAt rest r (bits_of v n ++ more) ->
  exists r', rd_read_bits r n = Ok (v, r') /\ BitsAt rest r' more.
Proof.
  intros rest r v n more Hn Hv HB. unfold rd_read_bits.
  destruct (Z.leb_spec n 0); [lia|]. destruct (Z.gtb_spec n 32); [lia|]. cbn [orb].
  unfold bits_of in HB.
  destruct (read_bits_nat_spec (Z.to_nat n) rest r v 0 more HB) as [r' [E HB']].
  exists r'. split; [|exact HB']. rewrite E. rewrite Z2Nat.id by lia.
  rewrite Z.mul_0_l, Z.add_0_l, Z.mod_small by exact Hv. reflexivity.
Qed.

(* ---------- bio_roundtrip ---------- *)

Lemma read_list_spec : forall l rest r more, BitsAt rest r (l ++ more) ->
  exists r', rd_read_list (length l) r = Ok (l, r') /\ BitsAt rest r' more.
Proof.
  induction l as [|b l IH]; intros rest r more HB.
  - exists r. split; [reflexivity | exact HB].
  - cbn [app] in HB. destruct (bitsat_step _ _ _ _ HB) as [r1 [E HB1]].
    destruct (IH rest r1 more HB1) as [r' [E' HB']].
    exists r'. split; [|exact HB']. cbn [length rd_read_list]. rewrite E. cbn [obind fst snd].
    rewrite E'. reflexivity.
Qed.

Lemma read_list_total : forall n r l r', rd_read_list n r = Ok (l, r') -> rd_total r' = rd_total r.
Proof.
  induction n as [|k IH]; intros r l r' H; cbn [rd_read_list] in H.
  - inversion H; subst. reflexivity.
  - destruct (rd_read_bit r) as [[b r1]| | |] eqn:E; cbn [obind] in H; try discriminate. cbn [fst snd] in H.
    destruct (rd_read_list k r1) as [[l1 r2]| | |] eqn:E2; cbn [obind] in H; try discriminate.
    inversion H; subst. destruct (read_bit_total _ _ _ E) as [Ht _]. rewrite (IH _ _ _ E2). exact Ht.
Qed.

Lemma zlen_app : forall {A} (a b : list A), zlen (a ++ b) = zlen a + zlen b.
Proof. intros. unfold zlen. rewrite app_length. lia. Qed.

(* For ANY non-empty list of bits: the reader on (writeBit for every bit; flush) ++ rest
   returns the bits; alignToByte then succeeds and leaves the reader at `rest`, having
   consumed exactly the writer's bytes. *)
Theorem bio_roundtrip : forall (bits rest : list Z), bits <> [] -> Forall bit01 bits ->
  exists r r',
    rd_read_list (length bits) (rd_init (bio_encode bits ++ rest)) = Ok (bits, r) /\
    rd_align r = Ok r' /\ rd_data r' = rest /\ rd_pos r' = zlen (bio_encode bits) /\ rd_ct r' = 0.
Proof.
  intros bits rest Hne HF.
  pose proof (bitsat_init rest bits Hne HF) as HB.
  rewrite <- (app_nil_r bits) in HB at 2.
  destruct (read_list_spec bits rest _ [] HB) as [r [E HB']].
  destruct (bitsat_final rest r HB') as [r' [Ea [Hd Hc]]].
  exists r, r'. repeat split; try assumption.
  pose proof (read_list_total _ _ _ _ E) as Ht.
  destruct (align_total _ _ Ea) as [Ht' _].
  unfold rd_total in *. rewrite Hd in Ht'. cbn [rd_init rd_pos rd_data] in Ht.
  rewrite zlen_app in Ht. lia.
Qed.

(* The empty bit list is outside the theorem and really behaves differently: flush emits one
   00 byte, and alignToByte on a reader that has read nothing does not consume it.  (Every
   packet header writes at least the packet-present bit.) *)
Theorem bio_roundtrip_empty_refuted :
  exists rest r', rd_align (rd_init (bio_encode [] ++ rest)) = Ok r' /\ rd_data r' <> rest.
Proof. exists [7]. eexists. split; [vm_compute; reflexivity|]. cbn. discriminate. Qed.

(* bio_no_marker is Framing.FrmProofsBio.bio_no_marker (same writer model). *)
