(* RLE Lossless: the frame-level theorems (round trip, Annex G validity, independent reader,
   plane bijection) assembled from RleEncProofs / RleDecProofs / RleFrameEnc / RleFrameDec. *)
From V Require Import Common.Base RLE.RleModel RLE.RleSpec RLE.RleEncProofs RLE.RleDecProofs
  RLE.RleFrameLemmas RLE.RleFrameEnc RLE.RleFrameDec.

Definition pad_of (g : geom) : list Z := if Z.odd (frame_len g) then [0] else [].

(* ---------------------------------------------------------------- planes of a byte frame *)

Lemma plane_bytes : forall g src s, bytesP src -> bytesP (plane g src s).
Proof. intros. unfold plane. apply bytesP_stride. apply bytesP_zskip. assumption. Qed.

Lemma plane_zlen : forall g (src : list Z) s, geom_wide g -> zlen src = frame_len g -> 0 <= s < nseg g ->
  zlen (plane g src s) = g_npix g.
Proof.
  intros g src s Hg Hlen Hs. destruct (plane_fits g src s Hg Hlen Hs) as [Hfit _].
  destruct (stride_spec _ _ _ (seg_off_pos g Hg) Hfit) as [Hl _].
  unfold plane. rewrite Hl. destruct Hg as (_ & _ & _ & Hn). lia.
Qed.

(* packet lists for the encoder's own segments *)
Lemma seg_list_chunks : forall g src ss, bytesP src ->
  exists css, length css = length ss /\
    forall j, (j < length ss)%nat ->
      encode_segment (plane g src (nth j ss 0)) = enc_chunks (nth j css []) /\
      Forall chunk_ok (nth j css []) /\
      dat_chunks (nth j css []) = plane g src (nth j ss 0).
Proof.
  intros g src ss Hb. induction ss as [|s ss IH].
  - exists []. split; [reflexivity|]. intros j Hj. cbn in Hj. lia.
  - destruct IH as (css & Hl & Hc).
    destruct (encode_segment_chunks (plane g src s) (plane_bytes g src s Hb)) as (cs & E & Hok & Hd).
    exists (cs :: css). split; [cbn; rewrite Hl; reflexivity|].
    intros [|j] Hj; cbn [nth]; [auto|]. apply Hc. cbn in Hj. lia.
Qed.

Lemma seg_list_nth : forall g src j, (j < Z.to_nat (nseg g))%nat ->
  nth j (seg_list g src) [] = encode_segment (plane g src (Z.of_nat j)).
Proof.
  intros g src j Hj. unfold seg_list.
  rewrite (nth_indep _ [] (encode_segment (plane g src 0))) by (rewrite map_length, zrange_length; assumption).
  rewrite (map_nth (fun s => encode_segment (plane g src s))). rewrite zrange_nth by assumption.
  reflexivity.
Qed.

Lemma seg_list_length : forall g src, length (seg_list g src) = Z.to_nat (nseg g).
Proof. intros. unfold seg_list. rewrite map_length, zrange_length. reflexivity. Qed.

Lemma seg_list_hyp : forall g src, bytesP src ->
  exists css, length css = length (seg_list g src) /\
    forall j, (j < length (seg_list g src))%nat ->
      nth j (seg_list g src) [] = enc_chunks (nth j css []) /\
      Forall chunk_ok (nth j css []) /\
      dat_chunks (nth j css []) = plane g src (Z.of_nat j).
Proof.
  intros g src Hb.
  destruct (seg_list_chunks g src (zrange 0 (Z.to_nat (nseg g))) Hb) as (css & Hl & Hc).
  rewrite zrange_length in *. exists css. rewrite seg_list_length. split; [assumption|].
  intros j Hj. specialize (Hc j Hj). rewrite zrange_nth in Hc by assumption. cbn [Z.add] in Hc.
  rewrite seg_list_nth by assumption. exact Hc.
Qed.

(* ---------------------------------------------------------------- encodeFrame outcome *)

(* encodeFrame either refuses the frame (a segment offset does not fit 32 bits) or returns
   the closed-form stream; it never panics or runs out of fuel on an accepted description. *)
Lemma encode_ok_inv : forall g frame enc, geom_wide g -> zlen frame = frame_len g ->
  rle_encode g frame = Ok enc ->
  overflows (seg_list g frame) = false /\ enc = stream_of (seg_list g frame).
Proof.
  intros g frame enc Hg Hlen He. rewrite (rle_encode_closed g frame Hg Hlen) in He.
  destruct (overflows (seg_list g frame)); [discriminate|]. apply Ok_inj in He. auto.
Qed.

(* Err exactly when an offset overflows *)
Theorem rle_encode_err_iff : forall g frame, geom_ok g -> zlen frame = frame_len g ->
  (rle_encode g frame = Err <-> overflows (seg_list g frame) = true) /\
  (overflows (seg_list g frame) = false -> rle_encode g frame = Ok (stream_of (seg_list g frame))).
Proof.
  intros g frame Hg Hlen. rewrite (rle_encode_closed g frame (geom_ok_wide g Hg) Hlen).
  destruct (overflows (seg_list g frame)); split; try split; intros; try reflexivity; try discriminate.
Qed.

(* what "overflows" means: the offset recorded for some segment j, i.e. 64 plus the padded
   lengths of the segments before it, exceeds MaxUint32 *)
Theorem overflows_iff : forall segs,
  overflows segs = true <->
  exists j, (j < length segs)%nat /\ 64 + zlen (body (firstn j segs)) > 4294967295.
Proof.
  intros segs. unfold overflows. rewrite existsb_exists. split.
  - intros (o & Ho & Hgt). destruct (In_nth _ _ 0 Ho) as (j & Hj & <-).
    rewrite offsets_from_length in Hj. rewrite offsets_from_nth in Hgt by assumption.
    exists j. split; [assumption|]. destruct (Z.gtb_spec (64 + zlen (body (firstn j segs))) 4294967295); [lia|discriminate].
  - intros (j & Hj & Hgt). exists (nth j (offsets_from 64 segs) 0). split.
    + apply nth_In. rewrite offsets_from_length. assumption.
    + rewrite offsets_from_nth by assumption.
      destruct (Z.gtb_spec (64 + zlen (body (firstn j segs))) 4294967295); [reflexivity|lia].
Qed.

(* ---------------------------------------------------------------- round trip *)

(* Whenever Encode succeeds on an accepted description, Decode of its output returns the
   frame (+ one zero byte when the native frame length is odd). No size hypothesis: the
   encoded frame may even exceed 4 GiB as long as the last segment STARTS below 2^32. *)
Theorem rle_roundtrip_wide : forall g frame enc, geom_wide g -> bytesP frame -> zlen frame = frame_len g ->
  rle_encode g frame = Ok enc -> rle_decode g enc = Ok (frame ++ pad_of g).
Proof.
  intros g frame enc Hg Hb Hlen He. destruct (encode_ok_inv g frame enc Hg Hlen He) as [Hno ->].
  destruct (seg_list_hyp g frame Hb) as (css & Hl & Hc).
  apply (rle_decode_stream g frame (seg_list g frame) css); try assumption. apply seg_list_length.
Qed.

(* size of the encoded frame: every packet is at most twice its content *)
Lemma enc_chunks_size : forall cs, Forall chunk_ok cs -> zlen (enc_chunks cs) <= 2 * zlen (dat_chunks cs).
Proof.
  induction 1 as [|c cs Hc _ IH]; [cbn; lia|].
  rewrite enc_chunks_cons, dat_chunks_cons, !zlen_app.
  destruct c as [l|b n]; cbn [chunk_bytes chunk_data chunk_ok] in *.
  - rewrite zlen_cons. lia.
  - rewrite !zlen_cons, zlen_nil, zlen_zrep by lia. lia.
Qed.

Lemma body_size : forall (segs : list (list Z)) B, Forall (fun sg => zlen sg <= B) segs ->
  zlen (body segs) <= zlen segs * (B + 1).
Proof.
  induction 1 as [|sg r Hsg _ IH]; [cbn; lia|].
  rewrite body_cons, zlen_app, zlen_cons.
  assert (zlen (padseg sg) <= zlen sg + 1).
  { unfold padseg. rewrite zlen_app. destruct (Z.odd (zlen sg)); [rewrite zlen_cons, zlen_nil|rewrite zlen_nil]; lia. }
  lia.
Qed.

Lemma offsets_from_le : forall segs base,
  Forall (fun o => o <= base + zlen (body segs)) (offsets_from base segs).
Proof.
  induction segs as [|sg r IH]; intros base; [constructor|].
  cbn [offsets_from]. rewrite body_cons, zlen_app.
  pose proof (zlen_nonneg _ (padseg sg)). pose proof (zlen_nonneg _ (body r)).
  constructor; [lia|]. eapply Forall_impl; [|apply IH]. cbv beta. intros; lia.
Qed.

Lemma seg_list_body_size : forall g frame, geom_wide g -> bytesP frame -> zlen frame = frame_len g ->
  zlen (body (seg_list g frame)) <= nseg g * (2 * g_npix g + 1).
Proof.
  intros g frame Hg Hb Hlen.
  assert (Hn : 1 <= nseg g <= 15). { unfold nseg. destruct Hg as (? & ? & ? & ?). nia. }
  assert (zlen (body (seg_list g frame)) <= zlen (seg_list g frame) * (2 * g_npix g + 1)).
  { apply body_size. apply Forall_forall. intros sg Hsg.
    destruct (In_nth _ _ [] Hsg) as (j & Hj & <-). rewrite seg_list_length in Hj.
    rewrite seg_list_nth by assumption.
    destruct (encode_segment_chunks _ (plane_bytes g frame (Z.of_nat j) Hb)) as (cs & -> & Hok & Hd).
    pose proof (enc_chunks_size cs Hok). rewrite Hd in H. rewrite plane_zlen in H; try assumption; lia. }
  unfold zlen at 2 in H. rewrite seg_list_length in H. lia.
Qed.

(* Encode succeeds on every frame whose worst-case encoding stays within 4 GiB, in
   particular on every native frame of at most 2^31 - 40 bytes. (The last offset is at most
   64 + body - 2; the bound below is not tight.) *)
Theorem rle_encode_ok_below_4GiB : forall g frame, geom_ok g -> bytesP frame -> zlen frame = frame_len g ->
  64 + nseg g * (2 * g_npix g + 1) <= 2 ^ 32 ->
  exists enc, rle_encode g frame = Ok enc.
Proof.
  intros g frame Hg Hb Hlen Hbound. pose proof (geom_ok_wide g Hg) as Hw.
  exists (stream_of (seg_list g frame)). apply (rle_encode_err_iff g frame Hg Hlen).
  destruct (overflows (seg_list g frame)) eqn:E; [|reflexivity]. exfalso.
  apply overflows_iff in E. destruct E as (j & Hj & Hgt).
  (* offset j + (padded) segment j <= 64 + body, and segment j is not empty *)
  pose proof (seg_list_body_size g frame Hw Hb Hlen) as Hsz.
  rewrite (body_split _ j Hj), !zlen_app in Hsz.
  pose proof (zlen_nonneg _ (body (skipn (S j) (seg_list g frame)))).
  rewrite seg_list_length in Hj. rewrite seg_list_nth in Hsz by assumption.
  assert (Hs : 0 <= Z.of_nat j < nseg g) by lia.
  destruct (encode_segment_chunks _ (plane_bytes g frame (Z.of_nat j) Hb)) as (cs & E & Hok & Hd).
  assert (Hne : cs <> []).
  { intros ->. cbn in Hd. pose proof (plane_zlen g frame (Z.of_nat j) Hw Hlen Hs) as Hp.
    rewrite <- Hd, zlen_nil in Hp. destruct Hw as (_ & _ & _ & ?). lia. }
  pose proof (enc_chunks_len2 cs Hok Hne) as H2. rewrite <- E in H2.
  assert (zlen (encode_segment (plane g frame (Z.of_nat j))) <= zlen (padseg (encode_segment (plane g frame (Z.of_nat j))))).
  { unfold padseg. rewrite zlen_app. pose proof (zlen_nonneg _ (if Z.odd (zlen (encode_segment (plane g frame (Z.of_nat j)))) then [0] else [])). lia. }
  change (2 ^ 32) with 4294967296 in Hbound. lia.
Qed.

(* ---------------------------------------------------------------- Annex G validity *)

Theorem rle_stream_valid : forall g frame enc, geom_ok g -> bytesP frame -> zlen frame = frame_len g ->
  rle_encode g frame = Ok enc -> annexG_valid (g_ba g * g_spp g) enc = true.
Proof.
  intros g frame enc Hg Hb Hlen He. pose proof (geom_ok_wide g Hg) as Hw.
  destruct (encode_ok_inv g frame enc Hw Hlen He) as [Hno ->].
  destruct (seg_list_hyp g frame Hb) as (css & Hl & Hc).
  apply (stream_valid g frame (seg_list g frame) css); try assumption. apply seg_list_length.
Qed.

(* C01, frame level: for every accepted geometry and every byte frame, if Encode returns a
   stream then Decode of it is the frame (+ pad) and the stream is valid Annex G. *)
Theorem rle_roundtrip : forall g frame enc, geom_ok g -> bytesP frame -> zlen frame = frame_len g ->
  rle_encode g frame = Ok enc ->
  rle_decode g enc = Ok (frame ++ pad_of g) /\ annexG_valid (g_ba g * g_spp g) enc = true.
Proof.
  intros g frame enc Hg Hb Hlen He. split.
  - apply (rle_roundtrip_wide g frame enc); try assumption. apply geom_ok_wide. exact Hg.
  - apply (rle_stream_valid g frame enc); assumption.
Qed.

(* Historical note (finding F26, fixed in /repo commit bc7f8bf). Before the fix NextSegment
   stored uint32(buffer.Len()) unchecked and encodeFrame returned the stream anyway; these
   theorems then carried the hypothesis zlen enc <= 2^32 and the unrestricted statement was
   false. Witness replayed on the old code: Rows = Columns = 20000, BitsAllocated 32,
   SamplesPerPixel 3, colour-by-pixel, xorshift64 content (seed 88172645463325252):
   encoded length 4837461078, 12th offset stored as 139372060 instead of 4434339356, Decode
   returned an error. With the fix Encode returns an error for that frame. *)

(* the independent Annex G reader recovers every byte plane from the encoded frame *)
Theorem rle_independent_reader : forall g frame enc s, geom_ok g -> bytesP frame -> zlen frame = frame_len g ->
  rle_encode g frame = Ok enc -> 0 <= s < g_ba g * g_spp g ->
  packbits_n (g_npix g) (nth (Z.to_nat s) (segments (g_ba g * g_spp g) enc) []) = Some (plane g frame s).
Proof.
  intros g frame enc s Hg Hb Hlen He Hs. pose proof (geom_ok_wide g Hg) as Hw.
  destruct (encode_ok_inv g frame enc Hw Hlen He) as [Hno ->].
  destruct (seg_list_hyp g frame Hb) as (css & Hl & Hc).
  apply (stream_planes g frame (seg_list g frame) css); try assumption. apply seg_list_length.
Qed.

(* what a plane is: byte k of plane s is frame[seg_pos s + k*offset] *)
Theorem plane_content : forall g frame s k, geom_ok g -> zlen frame = frame_len g ->
  0 <= s < nseg g -> 0 <= k < g_npix g ->
  zlen (plane g frame s) = g_npix g /\
  znth (plane g frame s) k 0 = znth frame (seg_pos g s + k * seg_off_dec g) 0.
Proof.
  intros g frame s k Hg Hlen Hs Hk. pose proof (geom_ok_wide g Hg) as Hw.
  split; [apply plane_zlen; assumption|].
  destruct (plane_fits g frame s Hw Hlen Hs) as [Hfit Hpos].
  destruct (stride_spec _ _ _ (seg_off_pos g Hw) Hfit) as [_ Hn].
  unfold plane. rewrite Hn by lia. apply znth_zskip; [lia|].
  pose proof (seg_off_pos g Hw). apply Z.mul_nonneg_nonneg; lia.
Qed.

(* ---------------------------------------------------------------- decoder on any legal split *)

(* Any Annex G stream whose segments are legal PackBits encodings of the planes (whatever
   the packet split) and whose offsets fit 32 bits decodes to the frame. *)
Theorem rle_decode_any_split : forall g frame (css : list (list chunk)), geom_ok g -> zlen frame = frame_len g ->
  length css = Z.to_nat (nseg g) ->
  (forall j, (j < length css)%nat -> Forall chunk_ok (nth j css []) /\
                                     dat_chunks (nth j css []) = plane g frame (Z.of_nat j)) ->
  overflows (map enc_chunks css) = false ->
  rle_decode g (stream_of (map enc_chunks css)) = Ok (frame ++ pad_of g).
Proof.
  intros g frame css Hg Hlen Hl Hc Hno. pose proof (geom_ok_wide g Hg) as Hw.
  apply (rle_decode_stream g frame (map enc_chunks css) css); try assumption.
  - rewrite map_length. assumption.
  - rewrite map_length. reflexivity.
  - intros j Hj. rewrite map_length in Hj. destruct (Hc j Hj) as [Hok Hd].
    split; [|split; assumption].
    change (@nil Z) with (enc_chunks []). apply map_nth.
Qed.

(* ---------------------------------------------------------------- plane mapping bijection *)

Theorem plane_bijection : forall g, geom_ok g ->
  (forall s k, 0 <= s < nseg g -> 0 <= k < g_npix g ->
     0 <= seg_pos g s + k * seg_off_dec g < frame_len g) /\
  (forall i, 0 <= i < frame_len g ->
     exists s k, 0 <= s < nseg g /\ 0 <= k < g_npix g /\ i = seg_pos g s + k * seg_off_dec g) /\
  (forall s1 k1 s2 k2, 0 <= s1 < nseg g -> 0 <= k1 < g_npix g -> 0 <= s2 < nseg g -> 0 <= k2 < g_npix g ->
     seg_pos g s1 + k1 * seg_off_dec g = seg_pos g s2 + k2 * seg_off_dec g -> s1 = s2 /\ k1 = k2) /\
  seg_off_enc g = seg_off_dec g.
Proof.
  intros g Hg. pose proof (geom_ok_wide g Hg) as Hw. split; [|split; [|split]].
  - intros. apply seg_pos_range; assumption.
  - intros. apply plane_map_surj; assumption.
  - intros. apply (plane_map_inj g s1 k1 s2 k2); assumption.
  - apply seg_off_same.
Qed.

(* ---------------------------------------------------------------- segment level, both readers *)

Theorem rle_segment_roundtrip : forall l, bytesP l ->
  packbits (encode_segment l) = Some l /\
  (l <> [] -> forall pad tail i pos off blen, zlen pad <= 1 -> 0 < off -> pos + (zlen l - 1) * off < blen ->
     dec_loop (S (length (encode_segment l ++ pad ++ tail))) (encode_segment l ++ pad ++ tail)
              i (i + (zlen (encode_segment l) + zlen pad)) pos off blen = Ok l).
Proof.
  intros l Hl. split; [apply rle_segment_packbits; assumption|].
  intros Hne pad tail i pos off blen Hp Ho Hr. apply rle_segment_decode; assumption.
Qed.

(* ---------------------------------------------------------------- FrameInfo level *)

Definition fi_ok (fi : frameinfo) : Prop :=
  1 <= fi_height fi <= 65535 /\ 1 <= fi_width fi <= 65535 /\
  (fi_bits fi = 8 \/ fi_bits fi = 16 \/ fi_bits fi = 32) /\
  (fi_spp fi = 1 \/ fi_spp fi = 3) /\ (fi_planarconf fi = 0 \/ fi_planarconf fi = 1).

Lemma fi_ok_geom : forall fi, fi_ok fi -> geom_ok (fi_geom fi) /\ frame_size (fi_geom fi) <= max_alloc.
Proof.
  intros fi (Hh & Hw & Hb & Hs & Hp).
  assert (Hba : fi_ba fi = 1 \/ fi_ba fi = 2 \/ fi_ba fi = 4).
  { unfold fi_ba. destruct Hb as [ -> | [ -> | -> ] ]; [left|right; left|right; right]; reflexivity. }
  assert (Hn : 1 <= fi_width fi * fi_height fi <= 65535 * 65535) by nia.
  split.
  - unfold geom_ok, fi_geom. cbn [g_ba g_spp g_npix]. split; [assumption|]. split; [assumption|lia].
  - unfold frame_size, frame_len, fi_geom, max_alloc. cbn [g_ba g_spp g_npix].
    set (np := fi_width fi * fi_height fi) in *. change (2 ^ 48) with 281474976710656.
    destruct (Z.odd (fi_ba fi * fi_spp fi * np)); destruct Hba as [ -> | [ -> | -> ] ]; destruct Hs as [ -> | -> ]; lia.
Qed.

Lemma rle_decode_gen_chk : forall g data, frame_size g <= max_alloc ->
  rle_decode_gen true g data = rle_decode_gen false g data.
Proof.
  intros g data H. unfold rle_decode_gen.
  destruct (zlen data =? 0); [reflexivity|]. destruct (g_npix g =? 0); [reflexivity|].
  destruct (new_decoder data) as [d| | |]; try reflexivity. cbn [obind].
  destruct (d_nseg d =? nseg g); [|reflexivity].
  destruct (Z.gtb_spec (frame_size g) max_alloc); [lia|reflexivity].
Qed.

Lemma fi_ok_not_rejected : forall fi, fi_ok fi -> fi_rejected fi = false.
Proof.
  intros fi (Hh & Hw & Hb & _). unfold fi_rejected.
  destruct (Z.eqb_spec (fi_width fi) 0); [lia|]. destruct (Z.eqb_spec (fi_height fi) 0); [lia|].
  destruct (Z.eqb_spec (fi_bits fi) 0); [lia|]. reflexivity.
Qed.

(* the FrameInfo-level entry points coincide with the geometry-level ones on accepted descriptions *)
Theorem rle_frame_entry : forall fi bytes, fi_ok fi ->
  rle_encode_frame fi bytes = rle_encode (fi_geom fi) bytes /\
  rle_decode_frame fi bytes = rle_decode (fi_geom fi) bytes.
Proof.
  intros fi bytes Hfi. destruct (fi_ok_geom fi Hfi) as [Hg Hsz].
  unfold rle_encode_frame, rle_decode_frame. rewrite (fi_ok_not_rejected fi Hfi). split.
  - unfold rle_encode. destruct (zlen bytes =? 0); reflexivity.
  - rewrite rle_decode_gen_chk by assumption. unfold rle_decode, rle_decode_gen.
    destruct (zlen bytes =? 0); reflexivity.
Qed.

(* C01 for the Go entry points encodeFrame / decodeFrame with their FrameInfo argument
   (description checks and allocation included) *)
Theorem rle_roundtrip_frameinfo : forall fi frame enc, fi_ok fi -> bytesP frame ->
  zlen frame = frame_len (fi_geom fi) ->
  rle_encode_frame fi frame = Ok enc ->
  rle_decode_frame fi enc = Ok (frame ++ pad_of (fi_geom fi)).
Proof.
  intros fi frame enc Hfi Hb Hlen He. destruct (fi_ok_geom fi Hfi) as [Hg Hsz].
  destruct (rle_frame_entry fi frame Hfi) as [Ee _]. destruct (rle_frame_entry fi enc Hfi) as [_ Ed].
  rewrite Ee in He. rewrite Ed.
  apply (rle_roundtrip (fi_geom fi) frame enc Hg Hb Hlen He).
Qed.
