(* RLE Lossless: the frame-level theorems (round trip, Annex G validity, independent reader,
   plane bijection) assembled from RleEncProofs / RleDecProofs / RleFrameEnc / RleFrameDec. *)
From V Require Import Common.Base RLE.RleModel RLE.RleSpec RLE.RleEncProofs RLE.RleDecProofs
  RLE.RleFrameLemmas RLE.RleFrameEnc RLE.RleFrameDec.

Definition pad_of (g : geom) : list Z := if Z.odd (frame_len g) then [0] else [].

(* ---------------------------------------------------------------- planes of a byte frame *)

Lemma plane_bytes : forall g src s, bytesP src -> bytesP (plane g src s).
Proof. intros. unfold plane. apply bytesP_stride. apply bytesP_zskip. assumption. Qed.

Lemma plane_zlen : forall g (src : list Z) s, geom_wide g -> zlen src = frame_len g -> 0 <= s < nseg g ->
  zlen (plane g src s) = g_npix g.
Proof.
  intros g src s Hg Hlen Hs. destruct (plane_fits g src s Hg Hlen Hs) as [Hfit _].
  destruct (stride_spec _ _ _ (seg_off_pos g Hg) Hfit) as [Hl _].
  unfold plane. rewrite Hl. destruct Hg as (_ & _ & _ & Hn). lia.
Qed.

(* packet lists for the encoder's own segments *)
Lemma seg_list_chunks : forall g src ss, bytesP src ->
  exists css, length css = length ss /\
    forall j, (j < length ss)%nat ->
      encode_segment (plane g src (nth j ss 0)) = enc_chunks (nth j css []) /\
      Forall chunk_ok (nth j css []) /\
      dat_chunks (nth j css []) = plane g src (nth j ss 0).
Proof.
  intros g src ss Hb. induction ss as [|s ss IH].
  - exists []. split; [reflexivity|]. intros j Hj. cbn in Hj. lia.
  - destruct IH as (css & Hl & Hc).
    destruct (encode_segment_chunks (plane g src s) (plane_bytes g src s Hb)) as (cs & E & Hok & Hd).
    exists (cs :: css). split; [cbn; rewrite Hl; reflexivity|].
    intros [|j] Hj; cbn [nth]; [auto|]. apply Hc. cbn in Hj. lia.
Qed.

Lemma seg_list_nth : forall g src j, (j < Z.to_nat (nseg g))%nat ->
  nth j (seg_list g src) [] = encode_segment (plane g src (Z.of_nat j)).
Proof.
  intros g src j Hj. unfold seg_list.
  rewrite (nth_indep _ [] (encode_segment (plane g src 0))) by (rewrite map_length, zrange_length; assumption).
  rewrite (map_nth (fun s => encode_segment (plane g src s))). rewrite zrange_nth by assumption.
  reflexivity.
Qed.

Lemma seg_list_length : forall g src, length (seg_list g src) = Z.to_nat (nseg g).
Proof. intros. unfold seg_list. rewrite map_length, zrange_length. reflexivity. Qed.

Lemma seg_list_hyp : forall g src, bytesP src ->
  exists css, length css = length (seg_list g src) /\
    forall j, (j < length (seg_list g src))%nat ->
      nth j (seg_list g src) [] = enc_chunks (nth j css []) /\
      Forall chunk_ok (nth j css []) /\
      dat_chunks (nth j css []) = plane g src (Z.of_nat j).
Proof.
  intros g src Hb.
  destruct (seg_list_chunks g src (zrange 0 (Z.to_nat (nseg g))) Hb) as (css & Hl & Hc).
  rewrite zrange_length in *. exists css. rewrite seg_list_length. split; [assumption|].
  intros j Hj. specialize (Hc j Hj). rewrite zrange_nth in Hc by assumption. cbn [Z.add] in Hc.
  rewrite seg_list_nth by assumption. exact Hc.
Qed.

(* ---------------------------------------------------------------- round trip *)

(* Encode always succeeds on an accepted description; Decode of its output returns the
   frame (+ one zero byte when the native frame length is odd), provided the encoded frame
   is at most 2^32 bytes long, i.e. every segment offset fits the 32-bit header field. *)
Theorem rle_roundtrip_wide : forall g frame, geom_wide g -> bytesP frame -> zlen frame = frame_len g ->
  exists enc, rle_encode g frame = Ok enc /\
    (zlen enc <= 2 ^ 32 -> rle_decode g enc = Ok (frame ++ pad_of g)).
Proof.
  intros g frame Hg Hb Hlen. exists (stream_of (seg_list g frame)).
  split; [apply rle_encode_closed; assumption|]. intros Hsize.
  destruct (seg_list_hyp g frame Hb) as (css & Hl & Hc).
  apply (rle_decode_stream g frame (seg_list g frame) css); try assumption. apply seg_list_length.
Qed.

Theorem rle_roundtrip : forall g frame, geom_ok g -> bytesP frame -> zlen frame = frame_len g ->
  exists enc, rle_encode g frame = Ok enc /\
    (zlen enc <= 2 ^ 32 -> rle_decode g enc = Ok (frame ++ pad_of g)).
Proof. intros g frame Hg. apply rle_roundtrip_wide. apply geom_ok_wide. exact Hg. Qed.

(* size of the encoded frame: every packet is at most twice its content *)
Lemma enc_chunks_size : forall cs, Forall chunk_ok cs -> zlen (enc_chunks cs) <= 2 * zlen (dat_chunks cs).
Proof.
  induction 1 as [|c cs Hc _ IH]; [cbn; lia|].
  rewrite enc_chunks_cons, dat_chunks_cons, !zlen_app.
  destruct c as [l|b n]; cbn [chunk_bytes chunk_data chunk_ok] in *.
  - rewrite zlen_cons. lia.
  - rewrite !zlen_cons, zlen_nil, zlen_zrep by lia. lia.
Qed.

Lemma body_size : forall (segs : list (list Z)) B, Forall (fun sg => zlen sg <= B) segs ->
  zlen (body segs) <= zlen segs * (B + 1).
Proof.
  induction 1 as [|sg r Hsg _ IH]; [cbn; lia|].
  rewrite body_cons, zlen_app, zlen_cons.
  assert (zlen (padseg sg) <= zlen sg + 1).
  { unfold padseg. rewrite zlen_app. destruct (Z.odd (zlen sg)); [rewrite zlen_cons, zlen_nil|rewrite zlen_nil]; lia. }
  lia.
Qed.

Lemma stream_size : forall g frame, geom_wide g -> bytesP frame -> zlen frame = frame_len g ->
  zlen (stream_of (seg_list g frame)) <= 64 + nseg g * (2 * g_npix g + 1).
Proof.
  intros g frame Hg Hb Hlen.
  assert (Hn : 1 <= nseg g <= 15). { unfold nseg. destruct Hg as (? & ? & ? & ?). nia. }
  unfold stream_of. rewrite zlen_app, zlen_header.
  2:{ rewrite zlen_app. unfold zlen. rewrite map_length, offsets_from_length, repeat_length, seg_list_length. lia. }
  assert (zlen (body (seg_list g frame)) <= zlen (seg_list g frame) * (2 * g_npix g + 1)).
  { apply body_size. apply Forall_forall. intros sg Hsg.
    destruct (In_nth _ _ [] Hsg) as (j & Hj & <-). rewrite seg_list_length in Hj.
    rewrite seg_list_nth by assumption.
    destruct (encode_segment_chunks _ (plane_bytes g frame (Z.of_nat j) Hb)) as (cs & -> & Hok & Hd).
    pose proof (enc_chunks_size cs Hok). rewrite Hd in H. rewrite plane_zlen in H; try assumption; lia. }
  unfold zlen at 2 in H. rewrite seg_list_length in H. lia.
Qed.

(* unconditional round trip for every frame whose worst-case encoding stays below 4 GiB
   (in particular every native frame of at most 2^31 - 40 bytes) *)
Theorem rle_roundtrip_bounded : forall g frame, geom_ok g -> bytesP frame -> zlen frame = frame_len g ->
  64 + nseg g * (2 * g_npix g + 1) <= 2 ^ 32 ->
  exists enc, rle_encode g frame = Ok enc /\ rle_decode g enc = Ok (frame ++ pad_of g).
Proof.
  intros g frame Hg Hb Hlen Hbound. pose proof (geom_ok_wide g Hg) as Hw.
  destruct (rle_roundtrip g frame Hg Hb Hlen) as (enc & He & Hd). exists enc. split; [assumption|].
  apply Hd. rewrite (rle_encode_closed g frame Hw Hlen) in He. apply Ok_inj in He. subst enc.
  pose proof (stream_size g frame Hw Hb Hlen). lia.
Qed.

(* The statement without any size hypothesis. It is NOT provable for the code as written:
   NextSegment stores uint32(buffer.Len()) and newRLEDecoder reads the offsets back as
   32-bit values, so once an offset reaches 2^32 (possible for Rows*Columns near 65535^2 or
   multi-plane frames above ~4 GiB of incompressible data) the stream no longer decodes. No
   vm_compute witness is feasible (the smallest counterexample is a 4 GiB frame); the Go-side
   replay is VERIF_RLE_GIANT in harness/suites/rle. *)
Definition rle_roundtrip_statement : Prop :=
  forall g frame, geom_ok g -> bytesP frame -> zlen frame = frame_len g ->
  exists enc, rle_encode g frame = Ok enc /\ rle_decode g enc = Ok (frame ++ pad_of g).

(* ---------------------------------------------------------------- Annex G validity *)

Theorem rle_stream_valid : forall g frame enc, geom_ok g -> bytesP frame -> zlen frame = frame_len g ->
  rle_encode g frame = Ok enc -> zlen enc <= 2 ^ 32 ->
  annexG_valid (g_ba g * g_spp g) enc = true.
Proof.
  intros g frame enc Hg Hb Hlen He Hsize. pose proof (geom_ok_wide g Hg) as Hw.
  rewrite (rle_encode_closed g frame Hw Hlen) in He. apply Ok_inj in He. subst enc.
  destruct (seg_list_hyp g frame Hb) as (css & Hl & Hc).
  apply (stream_valid g frame (seg_list g frame) css); try assumption. apply seg_list_length.
Qed.

(* Part of validity that holds for EVERY size: even length and a 64-byte header in front. *)
Theorem rle_stream_even : forall g frame enc, geom_ok g -> zlen frame = frame_len g ->
  rle_encode g frame = Ok enc -> Z.even (zlen enc) = true /\ 64 <= zlen enc.
Proof.
  intros g frame enc Hg Hlen He. pose proof (geom_ok_wide g Hg) as Hw.
  rewrite (rle_encode_closed g frame Hw Hlen) in He. apply Ok_inj in He. subst enc.
  assert (Hn : 1 <= nseg g <= 15). { unfold nseg. destruct Hw as (? & ? & ? & ?). nia. }
  unfold stream_of. rewrite zlen_app, zlen_header.
  2:{ rewrite zlen_app. unfold zlen. rewrite map_length, offsets_from_length, repeat_length, seg_list_length. lia. }
  pose proof (zlen_nonneg _ (body (seg_list g frame))).
  split; [|lia]. rewrite Z.even_add, zlen_body_even. reflexivity.
Qed.

(* the independent Annex G reader recovers every byte plane from the encoded frame *)
Theorem rle_independent_reader : forall g frame enc s, geom_ok g -> bytesP frame -> zlen frame = frame_len g ->
  rle_encode g frame = Ok enc -> zlen enc <= 2 ^ 32 -> 0 <= s < g_ba g * g_spp g ->
  packbits_n (g_npix g) (nth (Z.to_nat s) (segments (g_ba g * g_spp g) enc) []) = Some (plane g frame s).
Proof.
  intros g frame enc s Hg Hb Hlen He Hsize Hs. pose proof (geom_ok_wide g Hg) as Hw.
  rewrite (rle_encode_closed g frame Hw Hlen) in He. apply Ok_inj in He. subst enc.
  destruct (seg_list_hyp g frame Hb) as (css & Hl & Hc).
  apply (stream_planes g frame (seg_list g frame) css); try assumption. apply seg_list_length.
Qed.

(* what a plane is: byte k of plane s is frame[seg_pos s + k*offset] *)
Theorem plane_content : forall g frame s k, geom_ok g -> zlen frame = frame_len g ->
  0 <= s < nseg g -> 0 <= k < g_npix g ->
  zlen (plane g frame s) = g_npix g /\
  znth (plane g frame s) k 0 = znth frame (seg_pos g s + k * seg_off_dec g) 0.
Proof.
  intros g frame s k Hg Hlen Hs Hk. pose proof (geom_ok_wide g Hg) as Hw.
  split; [apply plane_zlen; assumption|].
  destruct (plane_fits g frame s Hw Hlen Hs) as [Hfit Hpos].
  destruct (stride_spec _ _ _ (seg_off_pos g Hw) Hfit) as [_ Hn].
  unfold plane. rewrite Hn by lia. apply znth_zskip; [lia|].
  pose proof (seg_off_pos g Hw). apply Z.mul_nonneg_nonneg; lia.
Qed.

(* ---------------------------------------------------------------- decoder on any legal split *)

(* Any Annex G stream whose segments are legal PackBits encodings of the planes (whatever
   the packet split) decodes to the frame. *)
Theorem rle_decode_any_split : forall g frame (css : list (list chunk)), geom_ok g -> zlen frame = frame_len g ->
  length css = Z.to_nat (nseg g) ->
  (forall j, (j < length css)%nat -> Forall chunk_ok (nth j css []) /\
                                     dat_chunks (nth j css []) = plane g frame (Z.of_nat j)) ->
  zlen (stream_of (map enc_chunks css)) <= 2 ^ 32 ->
  rle_decode g (stream_of (map enc_chunks css)) = Ok (frame ++ pad_of g).
Proof.
  intros g frame css Hg Hlen Hl Hc Hsize. pose proof (geom_ok_wide g Hg) as Hw.
  apply (rle_decode_stream g frame (map enc_chunks css) css); try assumption.
  - rewrite map_length. assumption.
  - rewrite map_length. reflexivity.
  - intros j Hj. rewrite map_length in Hj. destruct (Hc j Hj) as [Hok Hd].
    split; [|split; assumption].
    change (@nil Z) with (enc_chunks []). apply map_nth.
Qed.

(* ---------------------------------------------------------------- plane mapping bijection *)

Theorem plane_bijection : forall g, geom_ok g ->
  (forall s k, 0 <= s < nseg g -> 0 <= k < g_npix g ->
     0 <= seg_pos g s + k * seg_off_dec g < frame_len g) /\
  (forall i, 0 <= i < frame_len g ->
     exists s k, 0 <= s < nseg g /\ 0 <= k < g_npix g /\ i = seg_pos g s + k * seg_off_dec g) /\
  (forall s1 k1 s2 k2, 0 <= s1 < nseg g -> 0 <= k1 < g_npix g -> 0 <= s2 < nseg g -> 0 <= k2 < g_npix g ->
     seg_pos g s1 + k1 * seg_off_dec g = seg_pos g s2 + k2 * seg_off_dec g -> s1 = s2 /\ k1 = k2) /\
  seg_off_enc g = seg_off_dec g.
Proof.
  intros g Hg. pose proof (geom_ok_wide g Hg) as Hw. split; [|split; [|split]].
  - intros. apply seg_pos_range; assumption.
  - intros. apply plane_map_surj; assumption.
  - intros. apply (plane_map_inj g s1 k1 s2 k2); assumption.
  - apply seg_off_same.
Qed.

(* ---------------------------------------------------------------- segment level, both readers *)

Theorem rle_segment_roundtrip : forall l, bytesP l ->
  packbits (encode_segment l) = Some l /\
  (l <> [] -> forall pad tail i pos off blen, zlen pad <= 1 -> 0 < off -> pos + (zlen l - 1) * off < blen ->
     dec_loop (S (length (encode_segment l ++ pad ++ tail))) (encode_segment l ++ pad ++ tail)
              i (i + (zlen (encode_segment l) + zlen pad)) pos off blen = Ok l).
Proof.
  intros l Hl. split; [apply rle_segment_packbits; assumption|].
  intros Hne pad tail i pos off blen Hp Ho Hr. apply rle_segment_decode; assumption.
Qed.

(* ---------------------------------------------------------------- FrameInfo level *)

Definition fi_ok (fi : frameinfo) : Prop :=
  1 <= fi_height fi <= 65535 /\ 1 <= fi_width fi <= 65535 /\
  (fi_bits fi = 8 \/ fi_bits fi = 16 \/ fi_bits fi = 32) /\
  (fi_spp fi = 1 \/ fi_spp fi = 3) /\ (fi_planarconf fi = 0 \/ fi_planarconf fi = 1).

Lemma fi_ok_geom : forall fi, fi_ok fi -> geom_ok (fi_geom fi) /\ frame_size (fi_geom fi) <= max_alloc.
Proof.
  intros fi (Hh & Hw & Hb & Hs & Hp).
  assert (Hba : fi_ba fi = 1 \/ fi_ba fi = 2 \/ fi_ba fi = 4).
  { unfold fi_ba. destruct Hb as [ -> | [ -> | -> ] ]; [left|right; left|right; right]; reflexivity. }
  assert (Hn : 1 <= fi_width fi * fi_height fi <= 65535 * 65535) by nia.
  split.
  - unfold geom_ok, fi_geom. cbn [g_ba g_spp g_npix]. split; [assumption|]. split; [assumption|lia].
  - unfold frame_size, frame_len, fi_geom, max_alloc. cbn [g_ba g_spp g_npix].
    set (np := fi_width fi * fi_height fi) in *. change (2 ^ 48) with 281474976710656.
    destruct (Z.odd (fi_ba fi * fi_spp fi * np)); destruct Hba as [ -> | [ -> | -> ] ]; destruct Hs as [ -> | -> ]; lia.
Qed.

(* C01 for the Go entry point decodeFrame with its FrameInfo argument (allocation included) *)
Theorem rle_roundtrip_frameinfo : forall fi frame, fi_ok fi -> bytesP frame ->
  zlen frame = frame_len (fi_geom fi) ->
  exists enc, rle_encode (fi_geom fi) frame = Ok enc /\
    (zlen enc <= 2 ^ 32 -> rle_decode_frame fi enc = Ok (frame ++ pad_of (fi_geom fi))).
Proof.
  intros fi frame Hfi Hb Hlen. destruct (fi_ok_geom fi Hfi) as [Hg Hsz].
  destruct (rle_roundtrip (fi_geom fi) frame Hg Hb Hlen) as (enc & He & Hd).
  exists enc. split; [assumption|]. intros Hsize. unfold rle_decode_frame.
  destruct (rle_stream_even (fi_geom fi) frame enc Hg Hlen He) as [_ H64].
  destruct (Z.eqb_spec (zlen enc) 0); [lia|].
  destruct (Z.gtb_spec (frame_size (fi_geom fi)) max_alloc); [lia|].
  apply Hd. assumption.
Qed.

(* ---------------------------------------------------------------- naming per CONVENTIONS *)
(* rle_roundtrip / rle_stream_valid / rle_independent_reader are the *_partial forms of the
   unrestricted statements: what is missing is exactly the case zlen enc > 2^32, where the
   unrestricted statements are false for the code (32-bit offsets). *)
Definition rle_stream_valid_statement : Prop :=
  forall g frame enc, geom_ok g -> bytesP frame -> zlen frame = frame_len g ->
  rle_encode g frame = Ok enc -> annexG_valid (g_ba g * g_spp g) enc = true.

Theorem rle_roundtrip_partial : forall g frame, geom_ok g -> bytesP frame -> zlen frame = frame_len g ->
  exists enc, rle_encode g frame = Ok enc /\
    (zlen enc <= 2 ^ 32 -> rle_decode g enc = Ok (frame ++ pad_of g)).
Proof. exact rle_roundtrip. Qed.

Theorem rle_stream_valid_partial : forall g frame enc, geom_ok g -> bytesP frame -> zlen frame = frame_len g ->
  rle_encode g frame = Ok enc -> zlen enc <= 2 ^ 32 ->
  annexG_valid (g_ba g * g_spp g) enc = true.
Proof. exact rle_stream_valid. Qed.
