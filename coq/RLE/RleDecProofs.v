(* The model of rleDecoder.decode on sequences of legal PackBits packets, and the range
   guard of its writes for arbitrary input. *)
From V Require Import Common.Base RLE.RleModel RLE.RleSpec RLE.RleEncProofs.

Lemma enc_chunks_cons : forall c cs, enc_chunks (c :: cs) = chunk_bytes c ++ enc_chunks cs.
Proof. reflexivity. Qed.
Lemma dat_chunks_cons : forall c cs, dat_chunks (c :: cs) = chunk_data c ++ dat_chunks cs.
Proof. reflexivity. Qed.

Lemma enc_chunks_len2 : forall cs, Forall chunk_ok cs -> cs <> [] -> 2 <= zlen (enc_chunks cs).
Proof.
  intros [|c cs] Hok Hne; [congruence|]. inversion Hok; subst.
  rewrite enc_chunks_cons, zlen_app. pose proof (chunk_bytes_len c H1). pose proof (zlen_nonneg _ (enc_chunks cs)). lia.
Qed.
Lemma dat_chunks_len1 : forall cs, Forall chunk_ok cs -> cs <> [] -> 1 <= zlen (dat_chunks cs).
Proof.
  intros [|c cs] Hok Hne; [congruence|]. inversion Hok; subst.
  rewrite dat_chunks_cons, zlen_app. pose proof (chunk_data_len c H1). pose proof (zlen_nonneg _ (dat_chunks cs)). lia.
Qed.

(* one-step unfolding of the loop *)
Lemma dec_loop_S : forall f rest i e pos off blen, dec_loop (S f) rest i e pos off blen =
    if (i <? e) && (pos <? blen) then
      match rest with
      | [] => Ok []
      | cb :: rest1 =>
        let i1 := i + 1 in
        if cb <? 128 then
          let len := cb + 1 in
          if e - i1 <? len then Err
          else if pos + (len - 1) * off >=? blen then Err
          else
            let lit := firstn (Z.to_nat len) rest1 in
            if zlen lit <? len then Panic
            else
              let i2 := i1 + len in
              if i2 + 1 >=? e then Ok lit
              else obind (dec_loop f (skipn (Z.to_nat len) rest1) i2 e (pos + len * off) off blen)
                         (fun w => Ok (lit ++ w))
        else if cb >=? 129 then
          let len := 257 - cb in
          if pos + (len - 1) * off >=? blen then Err
          else match rest1 with
               | [] => Err
               | b :: rest2 =>
                 if i1 >=? e then Err
                 else
                   let i2 := i1 + 1 in
                   let w0 := repeat b (Z.to_nat len) in
                   if i2 + 1 >=? e then Ok w0
                   else obind (dec_loop f rest2 i2 e (pos + len * off) off blen)
                              (fun w => Ok (w0 ++ w))
               end
        else
          if i1 + 1 >=? e then Ok []
          else dec_loop f rest1 i1 e pos off blen
      end
    else Ok [].
Proof. reflexivity. Qed.

(* A non-empty sequence of legal packets, followed by at most one pad byte inside the
   segment window [i, e) and by anything after it, is decoded to exactly its content,
   provided the last write position is inside the buffer. *)
Lemma dec_loop_chunks : forall cs fuel pad tail i e pos off blen,
  Forall chunk_ok cs -> cs <> [] -> zlen pad <= 1 ->
  e = i + zlen (enc_chunks cs) + zlen pad ->
  0 < off ->
  pos + (zlen (dat_chunks cs) - 1) * off < blen ->
  (length (enc_chunks cs) < fuel)%nat ->
  dec_loop fuel (enc_chunks cs ++ pad ++ tail) i e pos off blen = Ok (dat_chunks cs).
Proof.
  induction cs as [|c cs IH]; intros fuel pad tail i e pos off blen Hok Hne Hpad He Hoff Hroom Hfuel; [congruence|].
  pose proof (Forall_inv Hok) as Hc. pose proof (Forall_inv_tail Hok) as Hcs.
  destruct fuel as [|f]; [lia|].
  rewrite enc_chunks_cons, dat_chunks_cons in *. rewrite zlen_app in He, Hroom. rewrite app_length in Hfuel.
  pose proof (chunk_bytes_len c Hc) as Hbl. pose proof (chunk_data_len c Hc) as Hdl.
  pose proof (zlen_nonneg _ (enc_chunks cs)) as Hn1. pose proof (zlen_nonneg _ (dat_chunks cs)) as Hn2.
  pose proof (zlen_nonneg _ pad) as Hn3.
  rewrite dec_loop_S.
  destruct (Z.ltb_spec i e); [|lia].
  assert (Hposlt : pos < blen) by nia.
  destruct (Z.ltb_spec pos blen); [|lia]. cbn [andb].
  (* what happens after this packet *)
  assert (Hcont : forall i2 pos2 rest2 w0,
            i2 = i + zlen (chunk_bytes c) -> pos2 = pos + zlen (chunk_data c) * off ->
            w0 = chunk_data c -> rest2 = enc_chunks cs ++ pad ++ tail ->
            (if i2 + 1 >=? e then Ok w0
             else obind (dec_loop f rest2 i2 e pos2 off blen) (fun w => Ok (w0 ++ w)))
            = Ok (chunk_data c ++ dat_chunks cs)).
  { intros i2 pos2 rest2 w0 -> -> -> ->.
    destruct cs as [|c2 cs2].
    - cbn [enc_chunks dat_chunks flat_map] in *. rewrite zlen_nil in He.
      destruct (Z.geb_spec (i + zlen (chunk_bytes c) + 1) e); [|lia]. rewrite app_nil_r. reflexivity.
    - assert (Hne2 : c2 :: cs2 <> []) by congruence.
      pose proof (enc_chunks_len2 _ Hcs Hne2).
      destruct (Z.geb_spec (i + zlen (chunk_bytes c) + 1) e); [lia|].
      rewrite (IH f pad tail); try assumption; try lia; try reflexivity.
      unfold zlen in *. lia. }
  destruct c as [l|b n]; cbn [chunk_bytes chunk_data chunk_ok] in *.
  - (* literal packet *)
    destruct Hc as [Hl Hb]. rewrite zlen_cons in *.
    rewrite <- !app_assoc. cbn [app].
    destruct (Z.ltb_spec (zlen l - 1) 128); [|lia]. cbv zeta.
    replace (zlen l - 1 + 1) with (zlen l) by lia.
    destruct (Z.ltb_spec (e - (i + 1)) (zlen l)); [lia|].
    destruct (Z.geb_spec (pos + (zlen l - 1) * off) blen); [nia|].
    replace (Z.to_nat (zlen l)) with (length l) by (unfold zlen; lia).
    rewrite firstn_length_app, skipn_length_app.
    destruct (Z.ltb_spec (zlen l) (zlen l)); [lia|].
    apply Hcont; try reflexivity; lia.
  - (* replicate packet *)
    destruct Hc as [Hn Hb]. rewrite !zlen_cons, zlen_nil in *. rewrite zlen_zrep in * by lia.
    cbn [app].
    destruct (Z.ltb_spec (257 - n) 128); [lia|].
    destruct (Z.geb_spec (257 - n) 129); [|lia]. cbv zeta.
    replace (257 - (257 - n)) with n by lia.
    destruct (Z.geb_spec (pos + (n - 1) * off) blen); [nia|].
    destruct (Z.geb_spec (i + 1) e); [lia|].
    fold (zrep b n).
    apply Hcont; try reflexivity; try lia.
Qed.

(* The model decoder recovers a plane from the encoder's own segment (with or without its
   pad byte, whatever follows in the stream). *)
Theorem rle_segment_decode : forall l pad tail i pos off blen,
  bytesP l -> l <> [] -> zlen pad <= 1 -> 0 < off ->
  pos + (zlen l - 1) * off < blen ->
  dec_loop (S (length (encode_segment l ++ pad ++ tail))) (encode_segment l ++ pad ++ tail)
           i (i + (zlen (encode_segment l) + zlen pad)) pos off blen = Ok l.
Proof.
  intros l pad tail i pos off blen Hl Hne Hpad Hoff Hroom.
  destruct (encode_segment_chunks l Hl) as (cs & -> & Hok & <-).
  apply dec_loop_chunks; try assumption; try lia.
  - intros ->. apply Hne. reflexivity.
  - rewrite app_length. lia.
Qed.

(* ---------------------------------------------------------------- range guard of the writes *)

(* For ANY byte input: when decode returns normally, every byte it wrote went to a position
   below len(buffer): the model's scatter never drops a write and the Go code never indexes
   buffer[] out of range (start >= 0 is the caller's obligation; see seg_pos_nonneg in
   RleFrameLemmas). *)
Lemma Ok_inj : forall A (a b : A), Ok a = Ok b -> a = b.
Proof. intros A a b H. inversion H. reflexivity. Qed.

Lemma dec_loop_in_range : forall fuel rest i e pos off blen w,
  bytesP rest -> 0 <= off ->
  dec_loop fuel rest i e pos off blen = Ok w ->
  w = [] \/ pos + (zlen w - 1) * off < blen.
Proof.
  induction fuel as [|f IH]; intros rest i e pos off blen w Hb Hoff E; [discriminate|].
  rewrite dec_loop_S in E.
  destruct ((i <? e) && (pos <? blen)); [|inversion E; auto].
  destruct rest as [|cb rest1]; [inversion E; auto|].
  inversion Hb as [|? ? Hcb Hb1]; subst.
  cbv zeta in E.
  destruct (Z.ltb_spec cb 128).
  - destruct (e - (i + 1) <? cb + 1); [discriminate|].
    destruct (Z.geb_spec (pos + (cb + 1 - 1) * off) blen); [discriminate|].
    destruct (Z.ltb_spec (zlen (firstn (Z.to_nat (cb + 1)) rest1)) (cb + 1)); [discriminate|].
    assert (Hlen : zlen (firstn (Z.to_nat (cb + 1)) rest1) = cb + 1).
    { unfold zlen in *. rewrite firstn_length in *. unfold byteP in Hcb. lia. }
    destruct (i + 1 + (cb + 1) + 1 >=? e).
    + apply Ok_inj in E; subst w. right. rewrite Hlen. lia.
    + destruct (dec_loop f (skipn (Z.to_nat (cb + 1)) rest1) (i + 1 + (cb + 1)) e (pos + (cb + 1) * off) off blen) as [w'| | |] eqn:E2;
        cbn [obind] in E; try discriminate. apply Ok_inj in E; subst w.
      apply IH in E2; [|apply bytesP_firstn_skipn; assumption|assumption].
      right. rewrite zlen_app, Hlen. destruct E2 as [->|E2]; [rewrite zlen_nil; lia|lia].
  - destruct (Z.geb_spec cb 129).
    + destruct (Z.geb_spec (pos + (257 - cb - 1) * off) blen); [discriminate|].
      destruct rest1 as [|b rest2]; [discriminate|].
      destruct (i + 1 >=? e); [discriminate|].
      assert (Hlen : zlen (repeat b (Z.to_nat (257 - cb))) = 257 - cb).
      { unfold zlen. rewrite repeat_length. unfold byteP in Hcb. lia. }
      destruct (i + 1 + 1 + 1 >=? e).
      * apply Ok_inj in E; subst w. right. rewrite Hlen. lia.
      * destruct (dec_loop f rest2 (i + 1 + 1) e (pos + (257 - cb) * off) off blen) as [w'| | |] eqn:E2;
          cbn [obind] in E; try discriminate. apply Ok_inj in E; subst w.
        inversion Hb1; subst.
        apply IH in E2; [|assumption|assumption].
        right. rewrite zlen_app, Hlen. destruct E2 as [->|E2]; [rewrite zlen_nil; lia|lia].
    + destruct (i + 1 + 1 >=? e); [inversion E; auto|].
      apply IH in E; assumption.
Qed.
