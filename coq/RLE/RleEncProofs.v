(* RLE encoder core (rleEncoder.Encode / Flush): the output is always a sequence of legal
   PackBits packets ("chunks") whose decoded content plus the pending state equals the
   bytes consumed. Independent reader (RleSpec.packbits / packbits_n) on chunk sequences. *)
From V Require Import Common.Base RLE.RleModel RLE.RleSpec.

Definition byteP (b : Z) : Prop := 0 <= b < 256.
Definition bytesP (l : list Z) : Prop := Forall byteP l.
Definition zrep (x : Z) (n : Z) : list Z := repeat x (Z.to_nat n).

(* ---------------------------------------------------------------- list / length basics *)

Lemma zlen_nil : forall A, zlen (@nil A) = 0.
Proof. reflexivity. Qed.
Lemma zlen_cons : forall A (x : A) l, zlen (x :: l) = 1 + zlen l.
Proof. intros. unfold zlen. cbn [length]. lia. Qed.
Lemma zlen_app : forall A (a b : list A), zlen (a ++ b) = zlen a + zlen b.
Proof. intros. unfold zlen. rewrite app_length. lia. Qed.
Lemma zlen_nonneg : forall A (l : list A), 0 <= zlen l.
Proof. intros. unfold zlen. lia. Qed.
Lemma zlen_zero_nil : forall A (l : list A), zlen l <= 0 -> l = [].
Proof. intros A [|x l] H; [reflexivity|]. rewrite zlen_cons in H. pose proof (zlen_nonneg _ l). lia. Qed.
Lemma zlen_zrep : forall x n, 0 <= n -> zlen (zrep x n) = n.
Proof. intros. unfold zlen, zrep. rewrite repeat_length. lia. Qed.
Lemma zlen_firstn : forall A (l : list A) k, 0 <= k <= zlen l -> zlen (firstn (Z.to_nat k) l) = k.
Proof. intros A l k H. unfold zlen in *. rewrite firstn_length. lia. Qed.
Lemma zlen_skipn : forall A (l : list A) k, 0 <= k <= zlen l -> zlen (skipn (Z.to_nat k) l) = zlen l - k.
Proof. intros A l k H. unfold zlen in *. rewrite skipn_length. lia. Qed.

Lemma zrep_0 : forall x, zrep x 0 = [].
Proof. reflexivity. Qed.
Lemma zrep_1 : forall x, zrep x 1 = [x].
Proof. reflexivity. Qed.
Lemma zrep_add : forall x a b, 0 <= a -> 0 <= b -> zrep x (a + b) = zrep x a ++ zrep x b.
Proof. intros. unfold zrep. rewrite Z2Nat.inj_add by lia. apply repeat_app. Qed.
Lemma zrep_snoc : forall x a, 0 <= a -> zrep x a ++ [x] = zrep x (a + 1).
Proof. intros. rewrite zrep_add by lia. reflexivity. Qed.
Lemma bytesP_zrep : forall x n, byteP x -> bytesP (zrep x n).
Proof. intros. unfold bytesP, zrep. apply Forall_forall. intros y Hy. apply repeat_spec in Hy. subst. assumption. Qed.

Lemma byte_id : forall b, byteP b -> byte b = b.
Proof. intros b H. unfold byte, wrapU. change (2 ^ 8) with 256. apply Z.mod_small. exact H. Qed.

Lemma bytesP_app : forall a b, bytesP (a ++ b) <-> bytesP a /\ bytesP b.
Proof. intros. unfold bytesP. apply Forall_app. Qed.
Lemma bytesP_firstn_skipn : forall n l, bytesP l -> bytesP (firstn n l) /\ bytesP (skipn n l).
Proof. intros n l H. apply bytesP_app. rewrite firstn_skipn. exact H. Qed.

(* ---------------------------------------------------------------- chunks (PackBits packets) *)

Inductive chunk := Lit (l : list Z) | Rep (b n : Z).
Definition chunk_ok (c : chunk) : Prop :=
  match c with
  | Lit l => 1 <= zlen l <= 128 /\ bytesP l
  | Rep b n => 2 <= n <= 128 /\ byteP b
  end.
Definition chunk_bytes (c : chunk) : list Z :=
  match c with Lit l => (zlen l - 1) :: l | Rep b n => [257 - n; b] end.
Definition chunk_data (c : chunk) : list Z :=
  match c with Lit l => l | Rep b n => zrep b n end.
Definition enc_chunks (cs : list chunk) : list Z := flat_map chunk_bytes cs.
Definition dat_chunks (cs : list chunk) : list Z := flat_map chunk_data cs.

Lemma enc_chunks_app : forall a b, enc_chunks (a ++ b) = enc_chunks a ++ enc_chunks b.
Proof. intros. unfold enc_chunks. apply flat_map_app. Qed.
Lemma dat_chunks_app : forall a b, dat_chunks (a ++ b) = dat_chunks a ++ dat_chunks b.
Proof. intros. unfold dat_chunks. apply flat_map_app. Qed.

Lemma chunk_bytes_bytes : forall c, chunk_ok c -> bytesP (chunk_bytes c).
Proof.
  intros [l|b n] H; cbn [chunk_bytes chunk_ok] in *.
  - destruct H as [H1 H2]. constructor; [unfold byteP; lia|exact H2].
  - destruct H as [H1 H2]. apply Forall_cons; [unfold byteP; lia|]. apply Forall_cons; [exact H2|apply Forall_nil].
Qed.
Lemma enc_chunks_bytes : forall cs, Forall chunk_ok cs -> bytesP (enc_chunks cs).
Proof.
  induction 1 as [|c cs Hc _ IH]; [constructor|]. cbn. apply bytesP_app. split; [apply chunk_bytes_bytes; exact Hc|exact IH].
Qed.
Lemma chunk_data_bytes : forall c, chunk_ok c -> bytesP (chunk_data c).
Proof. intros [l|b n] H; cbn in *; [tauto|apply bytesP_zrep; tauto]. Qed.
Lemma dat_chunks_bytes : forall cs, Forall chunk_ok cs -> bytesP (dat_chunks cs).
Proof.
  induction 1 as [|c cs Hc _ IH]; [constructor|]. cbn. apply bytesP_app. split; [apply chunk_data_bytes; exact Hc|exact IH].
Qed.
Lemma chunk_data_len : forall c, chunk_ok c -> 1 <= zlen (chunk_data c) <= 128.
Proof. intros [l|b n] H; cbn in *; [tauto|rewrite zlen_zrep; lia]. Qed.
Lemma chunk_bytes_len : forall c, chunk_ok c -> 2 <= zlen (chunk_bytes c) <= 129.
Proof. intros [l|b n] H; cbn [chunk_bytes chunk_ok] in *; [rewrite zlen_cons; lia|rewrite !zlen_cons, zlen_nil; lia]. Qed.

(* ---------------------------------------------------------------- literal packets *)

Lemma lit_packet_spec : forall tmp, bytesP tmp -> 1 <= zlen tmp ->
  let k := Z.min 128 (zlen tmp) in
  lit_packet tmp = (chunk_bytes (Lit (firstn (Z.to_nat k) tmp)), skipn (Z.to_nat k) tmp)
  /\ chunk_ok (Lit (firstn (Z.to_nat k) tmp)).
Proof.
  intros tmp Hb Hl k. unfold lit_packet. fold k.
  assert (Hk : 1 <= k <= 128) by (unfold k; lia).
  assert (Hf : zlen (firstn (Z.to_nat k) tmp) = k) by (apply zlen_firstn; unfold k; lia).
  split.
  - cbn [chunk_bytes]. rewrite Hf. rewrite byte_id by (unfold byteP; lia). reflexivity.
  - cbn [chunk_ok]. rewrite Hf. split; [lia|]. apply bytesP_firstn_skipn. exact Hb.
Qed.

Lemma emit_lits_noop : forall fuel thr tmp, zlen tmp <= thr -> emit_lits_while fuel thr tmp = ([], tmp).
Proof.
  intros [|f] thr tmp H; [reflexivity|]. cbn [emit_lits_while].
  destruct (Z.gtb_spec (zlen tmp) thr); [lia|reflexivity].
Qed.

Lemma emit_lits_spec : forall fuel thr tmp o tmp',
  0 <= thr -> bytesP tmp -> (length tmp <= fuel)%nat ->
  emit_lits_while fuel thr tmp = (o, tmp') ->
  exists cs, o = enc_chunks cs /\ Forall chunk_ok cs /\ dat_chunks cs ++ tmp' = tmp
             /\ zlen tmp' <= thr /\ bytesP tmp'.
Proof.
  induction fuel as [|f IH]; intros thr tmp o tmp' Hthr Hb Hf E.
  - cbn in E. inversion E; subst. exists []. repeat split; try constructor; try assumption.
    destruct tmp'; [rewrite zlen_nil; lia|cbn in Hf; lia].
  - cbn [emit_lits_while] in E.
    destruct (Z.gtb_spec (zlen tmp) thr) as [Hgt|Hle].
    + destruct (lit_packet_spec tmp Hb ltac:(lia)) as [Ep Hok].
      set (k := Z.min 128 (zlen tmp)) in *.
      rewrite Ep in E.
      destruct (emit_lits_while f thr (skipn (Z.to_nat k) tmp)) as [o' t''] eqn:E2.
      inversion E; subst o tmp'. clear E.
      assert (Hk : 1 <= k <= zlen tmp) by (unfold k; lia).
      apply IH in E2; try assumption.
      * destruct E2 as (cs & -> & Hcs & Hd & Hl & Hb').
        exists (Lit (firstn (Z.to_nat k) tmp) :: cs). repeat split; try assumption.
        -- constructor; assumption.
        -- cbn [dat_chunks flat_map chunk_data]. fold (dat_chunks cs). rewrite <- app_assoc, Hd. apply firstn_skipn.
      * apply bytesP_firstn_skipn. exact Hb.
      * rewrite skipn_length. unfold zlen in Hk. lia.
    + inversion E; subst. exists []. repeat split; try constructor; try assumption.
Qed.

(* ---------------------------------------------------------------- replicate packets *)

Lemma emit_reps_zero : forall k p, emit_reps k p 0 = ([], 0).
Proof. intros [|k] p; reflexivity. Qed.

Lemma emit_reps_one : forall prev rep, 2 <= rep <= 128 -> byteP prev ->
  emit_reps (Z.to_nat rep) prev rep = (chunk_bytes (Rep prev rep), 0).
Proof.
  intros prev rep Hr Hp. destruct (Z.to_nat rep) as [|k] eqn:Ek; [lia|].
  cbn [emit_reps]. destruct (Z.gtb_spec rep 0); [|lia].
  rewrite Z.min_l by lia. rewrite Z.sub_diag, emit_reps_zero.
  cbn [chunk_bytes]. rewrite (byte_id prev) by assumption. rewrite byte_id by (unfold byteP; lia). reflexivity.
Qed.

(* ---------------------------------------------------------------- encoder state invariant *)

Definition pending (c : cst) : list Z := c_tmp c ++ zrep (c_prev c) (c_rep c).

Record cinv (c : cst) : Prop := mk_cinv {
  ci_tmp : bytesP (c_tmp c);
  ci_len : zlen (c_tmp c) <= 128;
  ci_rep : 0 <= c_rep c <= 128;
  ci_prev : 0 < c_rep c -> byteP (c_prev c);
  ci_big : 3 <= c_rep c -> c_tmp c = [] }.

Lemma cinv_init : cinv c_init.
Proof. constructor; cbn; try lia; try constructor. Qed.

(* the two pushes of "case 2" write tempBuffer[bufferPos] and [bufferPos+1] with
   bufferPos <= 128: indices <= 129 < 132, and the buffer never holds more than 130 bytes *)
Lemma enc_tmp_bound : forall c x y, cinv c -> zlen (c_tmp c ++ [x; y]) <= 130.
Proof. intros c x y H. rewrite zlen_app, !zlen_cons, zlen_nil. pose proof (ci_len c H). lia. Qed.

Definition step_ok (c : cst) (inp : list Z) (o : list Z) (c' : cst) : Prop :=
  cinv c' /\ exists cs, o = enc_chunks cs /\ Forall chunk_ok cs
                        /\ dat_chunks cs ++ pending c' = pending c ++ inp.

Ltac cinv_tac :=
  constructor; cbn [c_tmp c_prev c_rep];
  try rewrite zlen_nil; try lia; try assumption; try (intros; assumption);
  try (intros; reflexivity); try apply Forall_nil.

Lemma enc_byte_spec : forall c b o c', cinv c -> byteP b -> enc_byte c b = (o, c') ->
  step_ok c [b] o c'.
Proof.
  intros [tmp prev rep] b o c' Hinv Hb E. destruct Hinv as [Htmp Hlen Hrep Hprev Hbig].
  cbn [c_tmp c_prev c_rep] in *.
  unfold enc_byte in E. cbn [c_tmp c_prev c_rep] in E. unfold step_ok, pending. cbn [c_tmp c_prev c_rep].
  destruct (Z.eqb_spec b prev) as [Heq|Hne].
  - (* same byte *) subst prev.
    destruct (Z.gtb_spec (rep + 1) 2) as [H2|H2]; cbn [andb] in E.
    + destruct (Z.gtb_spec (zlen tmp) 0) as [Hz|Hz]; cbn [andb] in E.
      * (* run reached 3 with literals pending: flush them *)
        destruct (emit_lits_while (length tmp) 0 tmp) as [o1 t1] eqn:E1. inversion E; subst o c'. clear E.
        apply emit_lits_spec in E1; try lia; try assumption.
        destruct E1 as (cs & -> & Hcs & Hd & Hl & Hb').
        apply zlen_zero_nil in Hl. subst t1. rewrite app_nil_r in Hd.
        assert (Hr3 : rep < 3). { destruct (Z_lt_le_dec rep 3); [assumption|]. rewrite Hbig in Hz by lia. rewrite zlen_nil in Hz. lia. }
        split; [cinv_tac|].
        exists cs. split; [reflexivity|]. split; [assumption|]. cbn [c_tmp c_prev c_rep app].
        rewrite Hd, <- app_assoc, zrep_snoc by lia. reflexivity.
      * (* no literals pending *)
        assert (tmp = []) by (apply zlen_zero_nil; lia). subst tmp.
        destruct (Z.gtb_spec (rep + 1) 128) as [H128|H128].
        -- (* 129th equal byte: emit 128, keep 1 *)
           assert (rep = 128) by lia. subst rep.
           inversion E; subst o c'. clear E. split; [cinv_tac|].
           exists [Rep b 128]. split; [|split].
           ++ cbn [enc_chunks flat_map chunk_bytes app]. rewrite (byte_id b) by assumption. reflexivity.
           ++ constructor; [|constructor]. cbn [chunk_ok]. split; [lia|assumption].
           ++ cbn [c_tmp c_prev c_rep dat_chunks flat_map chunk_data].
              change (128 + 1 - Z.min (128 + 1) 128) with 1. rewrite !app_nil_l, app_nil_r.
              rewrite zrep_snoc by lia. rewrite (zrep_add b 128 1) by lia. reflexivity.
        -- inversion E; subst o c'. clear E. split; [cinv_tac|].
           exists []. split; [reflexivity|]. split; [constructor|]. cbn [c_tmp c_prev c_rep dat_chunks flat_map app].
           rewrite zrep_snoc by lia. reflexivity.
    + (* rep+1 <= 2 *)
      destruct (Z.gtb_spec (rep + 1) 128); [lia|].
      inversion E; subst o c'. clear E. split; [cinv_tac|].
      exists []. split; [reflexivity|]. split; [constructor|]. cbn [c_tmp c_prev c_rep dat_chunks flat_map app].
      rewrite <- app_assoc, zrep_snoc by lia. reflexivity.
  - (* different byte *)
    set (p1 := if rep =? 0 then ([], tmp)
               else if rep =? 1 then ([], tmp ++ [byte prev])
               else if rep =? 2 then ([], tmp ++ [byte prev; byte prev])
               else (fst (emit_reps (Z.to_nat rep) prev rep), tmp)) in E.
    assert (H1 : exists cs1 tmp1, p1 = (enc_chunks cs1, tmp1) /\ Forall chunk_ok cs1 /\ bytesP tmp1
                 /\ zlen tmp1 <= 130 /\ dat_chunks cs1 ++ tmp1 = tmp ++ zrep prev rep).
    { unfold p1.
      destruct (Z.eqb_spec rep 0) as [->|H0].
      { exists [], tmp. split; [reflexivity|]. split; [constructor|]. split; [assumption|]. split; [lia|].
        rewrite zrep_0, app_nil_r. reflexivity. }
      destruct (Z.eqb_spec rep 1) as [->|H1].
      { exists [], (tmp ++ [prev]). rewrite byte_id by (apply Hprev; lia).
        split; [reflexivity|]. split; [constructor|]. split; [|split].
        - apply bytesP_app. split; [assumption|]. constructor; [apply Hprev; lia|constructor].
        - rewrite zlen_app, zlen_cons, zlen_nil. lia.
        - reflexivity. }
      destruct (Z.eqb_spec rep 2) as [->|H2].
      { exists [], (tmp ++ [prev; prev]). rewrite byte_id by (apply Hprev; lia).
        split; [reflexivity|]. split; [constructor|]. split; [|split].
        - apply bytesP_app. split; [assumption|]. constructor; [apply Hprev; lia|]. constructor; [apply Hprev; lia|constructor].
        - rewrite zlen_app, !zlen_cons, zlen_nil. lia.
        - reflexivity. }
      rewrite emit_reps_one by (try apply Hprev; lia). cbn [fst].
      rewrite Hbig by lia.
      exists [Rep prev rep], []. split; [|split; [|split; [|split]]].
      - cbn [enc_chunks flat_map]. rewrite app_nil_r. reflexivity.
      - constructor; [|constructor]. cbn [chunk_ok]. split; [lia|apply Hprev; lia].
      - constructor.
      - rewrite zlen_nil. lia.
      - cbn [dat_chunks flat_map chunk_data app]. rewrite !app_nil_r. reflexivity. }
    destruct H1 as (cs1 & tmp1 & Ep & Hcs1 & Hb1 & Hl1 & Hd1). rewrite Ep in E.
    destruct (emit_lits_while (length tmp1) 128 tmp1) as [o2 t2] eqn:E2. inversion E; subst o c'. clear E.
    apply emit_lits_spec in E2; try lia; try assumption.
    destruct E2 as (cs2 & -> & Hcs2 & Hd2 & Hl2 & Hb2).
    split; [cinv_tac|].
    exists (cs1 ++ cs2). split; [|split].
    + rewrite enc_chunks_app. reflexivity.
    + apply Forall_app. split; assumption.
    + cbn [c_tmp c_prev c_rep]. rewrite zrep_1, dat_chunks_app.
      rewrite <- Hd1, <- Hd2. rewrite <- !app_assoc. reflexivity.
Qed.

Lemma enc_bytes_spec : forall l c o c', cinv c -> bytesP l -> enc_bytes c l = (o, c') ->
  step_ok c l o c'.
Proof.
  induction l as [|b l IH]; intros c o c' Hc Hl E.
  - cbn in E. inversion E; subst. split; [assumption|]. exists []. split; [reflexivity|]. split; [constructor|].
    cbn [dat_chunks flat_map app]. rewrite app_nil_r. reflexivity.
  - cbn [enc_bytes] in E. inversion Hl as [|? ? Hb Hl']; subst.
    destruct (enc_byte c b) as [o1 c1] eqn:E1.
    destruct (enc_bytes c1 l) as [o2 c2] eqn:E2. inversion E; subst o c'. clear E.
    apply enc_byte_spec in E1; try assumption. destruct E1 as (Hc1 & cs1 & -> & Hok1 & Hd1).
    apply IH in E2; try assumption. destruct E2 as (Hc2 & cs2 & -> & Hok2 & Hd2).
    split; [assumption|]. exists (cs1 ++ cs2). split; [|split].
    + rewrite enc_chunks_app. reflexivity.
    + apply Forall_app. split; assumption.
    + rewrite dat_chunks_app, <- app_assoc, Hd2, app_assoc, Hd1, <- app_assoc. reflexivity.
Qed.

Lemma enc_flush_spec : forall c, cinv c ->
  exists cs, enc_flush c = (enc_chunks cs, c_init) /\ Forall chunk_ok cs /\ dat_chunks cs = pending c.
Proof.
  intros [tmp prev rep] [Htmp Hlen Hrep Hprev Hbig]. cbn [c_tmp c_prev c_rep] in *.
  unfold enc_flush, pending. cbn [c_tmp c_prev c_rep].
  assert (Hcase : rep = 0 \/ rep = 1 \/ 2 <= rep) by lia.
  destruct Hcase as [->|[->|H2]].
  - (* nothing pending in the run counter *)
    cbn [Z.ltb Z.gtb Z.compare Z.geb].
    destruct (emit_lits_while (length tmp) 0 tmp) as [o1 t1] eqn:E1.
    apply emit_lits_spec in E1; try lia; try assumption.
    destruct E1 as (cs & -> & Hcs & Hd & Hl & _). apply zlen_zero_nil in Hl. subst t1.
    exists cs. rewrite ?zrep_0, !app_nil_r in *. auto.
  - change (1 <? 2) with true. change (1 >? 0) with true. change (1 - 1) with 0. cbv iota beta.
    change (0 >=? 2) with false. cbv iota.
    rewrite byte_id by (apply Hprev; lia).
    assert (Hb1 : bytesP (tmp ++ [prev])).
    { apply bytesP_app. split; [assumption|]. constructor; [apply Hprev; lia|constructor]. }
    destruct (emit_lits_while (length (tmp ++ [prev])) 0 (tmp ++ [prev])) as [o1 t1] eqn:E1.
    apply emit_lits_spec in E1; try lia; try assumption.
    destruct E1 as (cs & -> & Hcs & Hd & Hl & _). apply zlen_zero_nil in Hl. subst t1.
    exists cs. rewrite zrep_1. rewrite !app_nil_r in *. auto.
  - destruct (Z.ltb_spec rep 2); [lia|]. destruct (Z.geb_spec rep 2); [|lia].
    destruct (emit_lits_while (length tmp) 0 tmp) as [o1 t1] eqn:E1.
    apply emit_lits_spec in E1; try lia; try assumption.
    destruct E1 as (cs & -> & Hcs & Hd & Hl & _). apply zlen_zero_nil in Hl. subst t1.
    rewrite emit_reps_one by (try apply Hprev; lia). cbn [fst].
    exists (cs ++ [Rep prev rep]). split; [|split].
    + rewrite enc_chunks_app. cbn [enc_chunks flat_map]. rewrite app_nil_r. reflexivity.
    + apply Forall_app. split; [assumption|]. constructor; [|constructor]. cbn [chunk_ok]. split; [lia|apply Hprev; lia].
    + rewrite dat_chunks_app. rewrite app_nil_r in Hd. rewrite Hd. cbn [dat_chunks flat_map chunk_data]. rewrite app_nil_r. reflexivity.
Qed.

(* every plane is encoded as a sequence of legal packets that decodes to the plane *)
Theorem encode_segment_chunks : forall l, bytesP l ->
  exists cs, encode_segment l = enc_chunks cs /\ Forall chunk_ok cs /\ dat_chunks cs = l.
Proof.
  intros l Hl. unfold encode_segment.
  destruct (enc_bytes c_init l) as [o c] eqn:E.
  apply enc_bytes_spec in E; [|apply cinv_init|assumption].
  destruct E as (Hc & cs1 & -> & Hok1 & Hd1).
  destruct (enc_flush_spec c Hc) as (cs2 & -> & Hok2 & Hd2). cbn [fst].
  exists (cs1 ++ cs2). split; [|split].
  - rewrite enc_chunks_app. reflexivity.
  - apply Forall_app. split; assumption.
  - rewrite dat_chunks_app, Hd2, Hd1. reflexivity.
Qed.

(* ---------------------------------------------------------------- the independent reader on packets *)

Lemma firstn_length_app : forall A (l r : list A), firstn (length l) (l ++ r) = l.
Proof. induction l as [|x l IH]; intros r; cbn; [reflexivity|rewrite IH; reflexivity]. Qed.
Lemma skipn_length_app : forall A (l r : list A), skipn (length l) (l ++ r) = r.
Proof. induction l as [|x l IH]; intros r; cbn; [reflexivity|apply IH]. Qed.

Lemma packbits_fuel_enough : forall f1 f2 l, (length l <= f1)%nat -> (length l <= f2)%nat ->
  packbits_fuel f1 l = packbits_fuel f2 l.
Proof.
  induction f1 as [|f1 IH]; intros f2 l H1 H2.
  - destruct l; [|cbn in H1; lia]. destruct f2; reflexivity.
  - destruct l as [|n rest]; [destruct f2; reflexivity|].
    destruct f2 as [|f2]; [cbn in H2; lia|].
    cbn [packbits_fuel]. cbn [length] in *.
    destruct ((0 <=? n) && (n <=? 127)).
    + destruct (length (firstn (Z.to_nat (n + 1)) rest) <? Z.to_nat (n + 1))%nat; [reflexivity|].
      rewrite (IH f2); [reflexivity|rewrite skipn_length; lia|rewrite skipn_length; lia].
    + destruct ((129 <=? n) && (n <=? 255)).
      * destruct rest as [|b rest']; [reflexivity|]. cbn [length] in *.
        rewrite (IH f2); [reflexivity|lia|lia].
      * destruct (n =? 128); [|reflexivity]. apply IH; lia.
Qed.

Lemma packbits_fuel_S : forall f n rest, packbits_fuel (S f) (n :: rest) =
  if (0 <=? n) && (n <=? 127) then
    let k := Z.to_nat (n + 1) in
    let lit := firstn k rest in
    if (length lit <? k)%nat then None
    else option_map (app lit) (packbits_fuel f (skipn k rest))
  else if (129 <=? n) && (n <=? 255) then
    match rest with
    | [] => None
    | b :: rest' => option_map (app (repeat b (Z.to_nat (257 - n)))) (packbits_fuel f rest')
    end
  else if n =? 128 then packbits_fuel f rest
  else None.
Proof. reflexivity. Qed.

Lemma packbits_n_fuel_S : forall f need n rest, packbits_n_fuel (S f) need (n :: rest) =
  if need <=? 0 then Some [] else
  if (0 <=? n) && (n <=? 127) then
    let k := Z.to_nat (n + 1) in
    let lit := firstn k rest in
    if (length lit <? k)%nat then None
    else if need <? n + 1 then None
    else option_map (app lit) (packbits_n_fuel f (need - (n + 1)) (skipn k rest))
  else if (129 <=? n) && (n <=? 255) then
    match rest with
    | [] => None
    | b :: rest' =>
      if need <? 257 - n then None
      else option_map (app (repeat b (Z.to_nat (257 - n)))) (packbits_n_fuel f (need - (257 - n)) rest')
    end
  else if n =? 128 then packbits_n_fuel f need rest
  else None.
Proof. reflexivity. Qed.

Lemma packbits_lit : forall l rest, 1 <= zlen l <= 128 ->
  packbits (((zlen l - 1) :: l) ++ rest) = option_map (app l) (packbits rest).
Proof.
  intros l rest Hl. unfold packbits. cbn [app length]. rewrite packbits_fuel_S. cbv zeta.
  destruct (Z.leb_spec 0 (zlen l - 1)); [|lia]. destruct (Z.leb_spec (zlen l - 1) 127); [|lia]. cbn [andb].
  replace (zlen l - 1 + 1) with (zlen l) by lia. replace (Z.to_nat (zlen l)) with (length l) by (unfold zlen; lia).
  rewrite firstn_length_app, skipn_length_app, Nat.ltb_irrefl.
  rewrite (packbits_fuel_enough (length (l ++ rest)) (length rest) rest); [reflexivity|rewrite app_length; lia|lia].
Qed.

Lemma packbits_rep : forall b n rest, 2 <= n <= 128 ->
  packbits ([257 - n; b] ++ rest) = option_map (app (zrep b n)) (packbits rest).
Proof.
  intros b n rest Hn. unfold packbits. cbn [app length]. rewrite packbits_fuel_S.
  destruct (Z.leb_spec 0 (257 - n)); [|lia]. destruct (Z.leb_spec (257 - n) 127); [lia|]. cbn [andb].
  destruct (Z.leb_spec 129 (257 - n)); [|lia]. destruct (Z.leb_spec (257 - n) 255); [|lia]. cbn [andb].
  replace (257 - (257 - n)) with n by lia. fold (zrep b n).
  rewrite (packbits_fuel_enough (S (length rest)) (length rest) rest); [reflexivity|lia|lia].
Qed.

Lemma option_map_app_app : forall (a b : list Z) o,
  option_map (app a) (option_map (app b) o) = option_map (app (a ++ b)) o.
Proof. intros a b [x|]; cbn; [rewrite app_assoc; reflexivity|reflexivity]. Qed.

Lemma packbits_chunks_app : forall cs rest, Forall chunk_ok cs ->
  packbits (enc_chunks cs ++ rest) = option_map (app (dat_chunks cs)) (packbits rest).
Proof.
  induction cs as [|c cs IH]; intros rest Hok.
  - cbn [enc_chunks dat_chunks flat_map app]. destruct (packbits rest); reflexivity.
  - inversion Hok as [|? ? Hc Hcs]; subst.
    cbn [enc_chunks dat_chunks flat_map]. fold (enc_chunks cs). fold (dat_chunks cs).
    rewrite <- app_assoc.
    destruct c as [l|b n]; cbn [chunk_bytes chunk_data chunk_ok] in *.
    + rewrite packbits_lit by tauto. rewrite IH by assumption. apply option_map_app_app.
    + rewrite packbits_rep by tauto. rewrite IH by assumption. apply option_map_app_app.
Qed.

Theorem packbits_chunks : forall cs, Forall chunk_ok cs ->
  packbits (enc_chunks cs) = Some (dat_chunks cs).
Proof.
  intros cs Hok. rewrite <- (app_nil_r (enc_chunks cs)). rewrite packbits_chunks_app by assumption.
  cbn. rewrite app_nil_r. reflexivity.
Qed.

(* Annex G.3.2 reader with the expected size: stops after the plane, ignores what follows *)
Lemma packbits_n_fuel_enough : forall f1 f2 need l, (length l <= f1)%nat -> (length l <= f2)%nat ->
  packbits_n_fuel f1 need l = packbits_n_fuel f2 need l.
Proof.
  induction f1 as [|f1 IH]; intros f2 need l H1 H2.
  - destruct l; [|cbn in H1; lia]. destruct f2; cbn; destruct (need <=? 0); reflexivity.
  - destruct f2 as [|f2].
    + destruct l; [|cbn in H2; lia]. cbn. destruct (need <=? 0); reflexivity.
    + cbn [packbits_n_fuel]. destruct (need <=? 0); [reflexivity|].
      destruct l as [|n rest]; [reflexivity|]. cbn [length] in *.
      destruct ((0 <=? n) && (n <=? 127)).
      * destruct (length (firstn (Z.to_nat (n + 1)) rest) <? Z.to_nat (n + 1))%nat; [reflexivity|].
        destruct (need <? n + 1); [reflexivity|].
        rewrite (IH f2); [reflexivity|rewrite skipn_length; lia|rewrite skipn_length; lia].
      * destruct ((129 <=? n) && (n <=? 255)).
        -- destruct rest as [|b rest']; [reflexivity|]. cbn [length] in *.
           destruct (need <? 257 - n); [reflexivity|].
           rewrite (IH f2); [reflexivity|lia|lia].
        -- destruct (n =? 128); [|reflexivity]. apply IH; lia.
Qed.

Lemma packbits_n_lit : forall l rest need, 1 <= zlen l <= 128 -> 0 <= need ->
  packbits_n (zlen l + need) (((zlen l - 1) :: l) ++ rest) = option_map (app l) (packbits_n need rest).
Proof.
  intros l rest need Hl Hn. unfold packbits_n. cbn [app length]. rewrite packbits_n_fuel_S. cbv zeta.
  destruct (Z.leb_spec (zlen l + need) 0); [lia|].
  destruct (Z.leb_spec 0 (zlen l - 1)); [|lia]. destruct (Z.leb_spec (zlen l - 1) 127); [|lia]. cbn [andb].
  replace (zlen l - 1 + 1) with (zlen l) by lia.
  destruct (Z.ltb_spec (zlen l + need) (zlen l)); [lia|].
  replace (zlen l + need - zlen l) with need by lia.
  replace (Z.to_nat (zlen l)) with (length l) by (unfold zlen; lia).
  rewrite firstn_length_app, skipn_length_app, Nat.ltb_irrefl.
  rewrite (packbits_n_fuel_enough (length (l ++ rest)) (length rest) need rest); [reflexivity|rewrite app_length; lia|lia].
Qed.

Lemma packbits_n_rep : forall b n rest need, 2 <= n <= 128 -> 0 <= need ->
  packbits_n (n + need) ([257 - n; b] ++ rest) = option_map (app (zrep b n)) (packbits_n need rest).
Proof.
  intros b n rest need Hn Hneed. unfold packbits_n. cbn [app length]. rewrite packbits_n_fuel_S.
  destruct (Z.leb_spec (n + need) 0); [lia|].
  destruct (Z.leb_spec 0 (257 - n)); [|lia]. destruct (Z.leb_spec (257 - n) 127); [lia|]. cbn [andb].
  destruct (Z.leb_spec 129 (257 - n)); [|lia]. destruct (Z.leb_spec (257 - n) 255); [|lia]. cbn [andb].
  replace (257 - (257 - n)) with n by lia. fold (zrep b n).
  destruct (Z.ltb_spec (n + need) n); [lia|].
  replace (n + need - n) with need by lia.
  rewrite (packbits_n_fuel_enough (S (length rest)) (length rest) need rest); [reflexivity|lia|lia].
Qed.

Lemma packbits_n_chunks_app : forall cs rest need, Forall chunk_ok cs -> 0 <= need ->
  packbits_n (zlen (dat_chunks cs) + need) (enc_chunks cs ++ rest)
  = option_map (app (dat_chunks cs)) (packbits_n need rest).
Proof.
  induction cs as [|c cs IH]; intros rest need Hok Hn.
  - cbn [enc_chunks dat_chunks flat_map app]. rewrite zlen_nil, Z.add_0_l. destruct (packbits_n need rest); reflexivity.
  - inversion Hok as [|? ? Hc Hcs]; subst.
    cbn [enc_chunks dat_chunks flat_map]. fold (enc_chunks cs). fold (dat_chunks cs).
    rewrite <- app_assoc, zlen_app, <- Z.add_assoc.
    pose proof (zlen_nonneg _ (dat_chunks cs)).
    destruct c as [l|b n]; cbn [chunk_bytes chunk_data chunk_ok] in *.
    + rewrite packbits_n_lit by (try tauto; lia). rewrite IH by assumption. apply option_map_app_app.
    + rewrite zlen_zrep by lia. rewrite packbits_n_rep by (try tauto; lia). rewrite IH by assumption. apply option_map_app_app.
Qed.

Theorem packbits_n_chunks : forall cs pad, Forall chunk_ok cs ->
  packbits_n (zlen (dat_chunks cs)) (enc_chunks cs ++ pad) = Some (dat_chunks cs).
Proof.
  intros cs pad Hok. rewrite <- (Z.add_0_r (zlen (dat_chunks cs))).
  rewrite packbits_n_chunks_app by (try assumption; lia).
  unfold packbits_n. destruct (length pad); cbn; rewrite app_nil_r; reflexivity.
Qed.

(* ---------------------------------------------------------------- segment-level statements *)

(* the independent reader recovers every plane from the encoder's segment *)
Theorem rle_segment_packbits : forall l, bytesP l -> packbits (encode_segment l) = Some l.
Proof.
  intros l Hl. destruct (encode_segment_chunks l Hl) as (cs & -> & Hok & <-). apply packbits_chunks. exact Hok.
Qed.

Theorem rle_segment_packbits_n : forall l pad, bytesP l ->
  packbits_n (zlen l) (encode_segment l ++ pad) = Some l.
Proof.
  intros l pad Hl. destruct (encode_segment_chunks l Hl) as (cs & -> & Hok & <-). apply packbits_n_chunks. exact Hok.
Qed.

(* encoder invariant over ANY byte sequence, in terms of the independent reader:
   packbits(output so far) ++ pending literals ++ repeat(prev, repeatCnt) = bytes consumed;
   repeatCnt <= 128 and bufferPos <= 128 at rest (130 transiently, enc_tmp_bound);
   every emitted packet has a count in 1..128 (chunk_ok: literals 1..128, replicates 2..128). *)
Theorem enc_invariant : forall l o c, bytesP l -> enc_bytes c_init l = (o, c) ->
  exists cs d, o = enc_chunks cs /\ Forall chunk_ok cs /\
    packbits o = Some d /\
    d ++ c_tmp c ++ zrep (c_prev c) (c_rep c) = l /\
    0 <= c_rep c <= 128 /\ zlen (c_tmp c) <= 128 /\ (3 <= c_rep c -> c_tmp c = []).
Proof.
  intros l o c Hl E. apply enc_bytes_spec in E; [|apply cinv_init|assumption].
  destruct E as (Hc & cs & -> & Hok & Hd). exists cs, (dat_chunks cs).
  split; [reflexivity|]. split; [assumption|]. split; [apply packbits_chunks; assumption|].
  split; [exact Hd|]. destruct Hc. auto.
Qed.
