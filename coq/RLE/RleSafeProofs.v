(* decodeFrame on ARBITRARY uint16 FrameInfo and ARBITRARY bytes: no panic, no fuel
   exhaustion (every loop is bounded by the input length), and a bound on the one
   allocation it makes. (Properties C08 / C09, RLE part.) *)
From V Require Import Common.Base RLE.RleModel RLE.RleSpec RLE.RleEncProofs RLE.RleDecProofs
  RLE.RleFrameLemmas.

Definition okerr {A} (o : outcome A) : Prop :=
  match o with Ok _ => True | Err => True | Panic => False | OutOfFuel => False end.

Definition u16 (x : Z) : Prop := 0 <= x < 65536.
Definition fi_u16 (fi : frameinfo) : Prop :=
  u16 (fi_width fi) /\ u16 (fi_height fi) /\ u16 (fi_bits fi) /\ u16 (fi_spp fi) /\ u16 (fi_planarconf fi).

(* 15 * 65535 * 65535 + 1 *)
Definition rle_alloc_max : Z := 64422543376.

(* ---------------------------------------------------------------- header facts *)

Lemma read_offsets_facts : forall fuel i rest n dlen offs, bytesP rest ->
  read_offsets fuel i rest n dlen = Ok offs ->
  length offs = fuel /\
  forall k, (k < fuel)%nat -> 0 <= nth k offs 0 /\ (i + Z.of_nat k < n -> nth k offs 0 <= dlen).
Proof.
  induction fuel as [|f IH]; intros i rest n dlen offs Hb E.
  - cbn in E. apply Ok_inj in E. subst. split; [reflexivity|]. intros; lia.
  - cbn [read_offsets] in E.
    destruct rest as [|a [|b [|c [|d rest']]]]; try discriminate.
    inversion Hb as [|? ? Ha Hb1]; subst. inversion Hb1 as [|? ? Hbb Hb2]; subst.
    inversion Hb2 as [|? ? Hc Hb3]; subst. inversion Hb3 as [|? ? Hd Hb4]; subst.
    set (off := a + 256 * b + 65536 * c + 16777216 * d) in *.
    destruct ((i <? n) && (off >? dlen)) eqn:Ec; [discriminate|].
    destruct (read_offsets f (i + 1) rest' n dlen) as [t| | |] eqn:Er; cbn [obind] in E; try discriminate.
    apply Ok_inj in E. subst offs.
    destruct (IH (i + 1) rest' n dlen t Hb4 Er) as [Hl Hk].
    split; [cbn; rewrite Hl; reflexivity|].
    intros [|k] Hlt; cbn [nth].
    + split; [unfold off, byteP in *; lia|]. intros Hi.
      destruct (Z.ltb_spec i n); [|lia]. cbn [andb] in Ec. destruct (Z.gtb_spec off dlen); [discriminate|lia].
    + destruct (Hk k ltac:(lia)) as [H0 H1]. split; [assumption|]. intros Hi. apply H1. lia.
Qed.

Lemma new_decoder_facts : forall data d, bytesP data -> new_decoder data = Ok d ->
  1 <= d_nseg d <= 15 /\ d_data d = data /\ d_len d = zlen data /\
  forall s, 0 <= s < 15 -> 0 <= znth (d_offsets d) s 0 /\ (s < d_nseg d -> znth (d_offsets d) s 0 <= zlen data).
Proof.
  intros data d Hb E. unfold new_decoder in E.
  destruct (zlen data <? 64); [discriminate|].
  destruct data as [|a [|b [|c [|e rest]]]]; try discriminate.
  set (n := a + 256 * b + 65536 * c + 16777216 * e) in *.
  destruct (Z.ltb_spec n 1); [discriminate|]. destruct (Z.gtb_spec n 15); [discriminate|]. cbn [orb] in E.
  destruct (read_offsets 15 0 rest n (zlen (a :: b :: c :: e :: rest))) as [offs| | |] eqn:Er; cbn [obind] in E; try discriminate.
  apply Ok_inj in E. subst d. cbn [d_nseg d_data d_len d_offsets].
  assert (Hbr : bytesP rest).
  { inversion Hb as [|? ? _ H1]; subst. inversion H1 as [|? ? _ H2]; subst.
    inversion H2 as [|? ? _ H3]; subst. inversion H3; assumption. }
  destruct (read_offsets_facts _ _ _ _ _ _ Hbr Er) as [Hl Hk].
  split; [lia|]. split; [reflexivity|]. split; [reflexivity|].
  intros s Hs. rewrite znth_nth by lia. destruct (Hk (Z.to_nat s) ltac:(lia)) as [H1 H2].
  split; [assumption|]. intros Hsn. apply H2. lia.
Qed.

Lemma okerr_bind : forall A B (o : outcome A) (f : A -> outcome B),
  okerr o -> (forall a, o = Ok a -> okerr (f a)) -> okerr (obind o f).
Proof. intros A B [a| | |] f Ho Hf; cbn in *; try tauto. apply Hf. reflexivity. Qed.

Lemma read_offsets_okerr : forall fuel i rest n dlen, okerr (read_offsets fuel i rest n dlen).
Proof.
  induction fuel as [|f IH]; intros i rest n dlen; [exact I|].
  cbn [read_offsets]. destruct rest as [|a [|b [|c [|d r]]]]; try exact I.
  destruct ((i <? n) && _); [exact I|]. apply okerr_bind; [apply IH|intros; exact I].
Qed.

Lemma new_decoder_okerr : forall data, okerr (new_decoder data).
Proof.
  intros data. unfold new_decoder. destruct (zlen data <? 64); [exact I|].
  destruct data as [|a [|b [|c [|e rest]]]]; try exact I.
  destruct (_ || _); [exact I|]. apply okerr_bind; [apply read_offsets_okerr|intros; exact I].
Qed.

(* the segment count check does not need the bytes hypothesis *)
Lemma new_decoder_nseg : forall data d, new_decoder data = Ok d -> 1 <= d_nseg d <= 15.
Proof.
  intros data d E. unfold new_decoder in E.
  destruct (zlen data <? 64); [discriminate|].
  destruct data as [|a [|b [|c [|e rest]]]]; try discriminate.
  set (n := a + 256 * b + 65536 * c + 16777216 * e) in *.
  destruct (Z.ltb_spec n 1); [discriminate|]. destruct (Z.gtb_spec n 15); [discriminate|]. cbn [orb] in E.
  destruct (read_offsets 15 0 rest n (zlen (a :: b :: c :: e :: rest))) as [offs| | |]; cbn [obind] in E; try discriminate.
  apply Ok_inj in E. subst d. cbn [d_nseg]. lia.
Qed.

(* ---------------------------------------------------------------- the decode loop *)

(* rest = rleData[i:] holds at least the e - i bytes of the segment window, and the fuel
   exceeds len(rest): decode neither indexes rleData out of range nor runs out of fuel. *)
Lemma dec_loop_safe : forall fuel rest i e pos off blen,
  bytesP rest -> (length rest < fuel)%nat -> e - i <= zlen rest ->
  okerr (dec_loop fuel rest i e pos off blen).
Proof.
  induction fuel as [|f IH]; intros rest i e pos off blen Hb Hf Hwin; [lia|].
  rewrite dec_loop_S.
  destruct ((i <? e) && (pos <? blen)); [|exact I].
  destruct rest as [|cb rest1]; [exact I|].
  inversion Hb as [|? ? Hcb Hb1]; subst. rewrite zlen_cons in Hwin. cbn [length] in Hf.
  cbv zeta.
  destruct (Z.ltb_spec cb 128).
  - destruct (Z.ltb_spec (e - (i + 1)) (cb + 1)); [exact I|].
    destruct (pos + (cb + 1 - 1) * off >=? blen); [exact I|].
    assert (Hlen : zlen (firstn (Z.to_nat (cb + 1)) rest1) = cb + 1).
    { apply zlen_firstn. unfold byteP in Hcb. lia. }
    rewrite Hlen. destruct (Z.ltb_spec (cb + 1) (cb + 1)); [lia|].
    destruct (i + 1 + (cb + 1) + 1 >=? e); [exact I|].
    apply okerr_bind; [|intros; exact I].
    apply IH.
    + apply bytesP_firstn_skipn. assumption.
    + rewrite skipn_length. lia.
    + rewrite zlen_skipn by (unfold byteP in Hcb; lia). lia.
  - destruct (cb >=? 129).
    + destruct (pos + (257 - cb - 1) * off >=? blen); [exact I|].
      destruct rest1 as [|b rest2]; [exact I|].
      destruct (i + 1 >=? e); [exact I|].
      destruct (i + 1 + 1 + 1 >=? e); [exact I|].
      apply okerr_bind; [|intros; exact I].
      inversion Hb1; subst. rewrite zlen_cons in Hwin. cbn [length] in Hf.
      apply IH; try assumption; lia.
    + destruct (i + 1 + 1 >=? e); [exact I|].
      apply IH; try assumption; lia.
Qed.

Lemma length_zskip_le : forall A (l : list A) k, (length (zskip k l) <= length l)%nat.
Proof.
  induction l as [|x l IH]; intros k; [cbn; lia|].
  cbn [zskip]. destruct (k <=? 0); [lia|]. specialize (IH (k - 1)). cbn [length]. lia.
Qed.

Lemma dec_segment_safe : forall d s buf blen start off, bytesP (d_data d) ->
  1 <= d_nseg d <= 15 -> d_len d = zlen (d_data d) ->
  (forall t, 0 <= t < 15 -> 0 <= znth (d_offsets d) t 0 /\ (t < d_nseg d -> znth (d_offsets d) t 0 <= zlen (d_data d))) ->
  okerr (dec_segment d s buf blen start off).
Proof.
  intros d s buf blen start off Hb Hn Hlen Hoffs. unfold dec_segment.
  destruct (Z.ltb_spec s 0); [exact I|]. destruct (Z.geb_spec s (d_nseg d)); [exact I|]. cbn [orb].
  unfold seg_length, seg_offset.
  destruct (Z.ltb_spec s 0); [lia|]. destruct (Z.geb_spec s 15); [lia|]. cbn [orb obind].
  destruct (Hoffs s ltac:(lia)) as [Ho0 Ho1]. specialize (Ho1 ltac:(lia)).
  set (o := znth (d_offsets d) s 0) in *.
  assert (Hwin : forall cnt, o + cnt - o <= zlen (zskip o (d_data d)) ->
            okerr (obind (dec_loop (S (length (d_data d))) (zskip o (d_data d)) o (o + cnt) start off blen)
                         (fun w => Ok (scatter buf start off w)))).
  { intros cnt Hc. apply okerr_bind; [|intros; exact I].
    apply dec_loop_safe; [apply bytesP_zskip; assumption| |assumption].
    pose proof (length_zskip_le _ (d_data d) o). lia. }
  destruct (Z.ltb_spec s (d_nseg d - 1)).
  - destruct (Z.ltb_spec (s + 1) 0); [lia|]. destruct (Z.geb_spec (s + 1) 15); [lia|]. cbn [orb obind].
    destruct (Hoffs (s + 1) ltac:(lia)) as [_ Hn1]. specialize (Hn1 ltac:(lia)).
    apply Hwin. rewrite zlen_zskip by lia. lia.
  - cbn [obind]. apply Hwin. rewrite zlen_zskip by lia. lia.
Qed.

Lemma dec_segs_safe : forall fuel g d s buf blen, bytesP (d_data d) ->
  1 <= d_nseg d <= 15 -> d_len d = zlen (d_data d) ->
  (forall t, 0 <= t < 15 -> 0 <= znth (d_offsets d) t 0 /\ (t < d_nseg d -> znth (d_offsets d) t 0 <= zlen (d_data d))) ->
  nseg g = d_nseg d -> 0 <= s -> (Z.to_nat (nseg g - s) < fuel)%nat ->
  okerr (dec_segs fuel g d s buf blen).
Proof.
  induction fuel as [|f IH]; intros g d s buf blen Hb Hn Hlen Hoffs Hng Hs Hf; [lia|].
  cbn [dec_segs]. destruct (Z.ltb_spec s (nseg g)); [|exact I].
  apply okerr_bind.
  - apply dec_segment_safe; assumption.
  - intros buf' _. apply IH; try assumption; lia.
Qed.

(* ---------------------------------------------------------------- allocation *)

Lemma fi_ba_range : forall fi, u16 (fi_bits fi) -> fi_bits fi <> 0 -> 1 <= fi_ba fi <= 8192.
Proof.
  intros fi Hb H0. unfold fi_ba, wrapU, u16 in *. change (2 ^ 16) with 65536.
  rewrite (Z.mod_small (fi_bits fi - 1)) by lia.
  assert (0 <= (fi_bits fi - 1) / 8 < 8192) by (split; [apply Z.div_pos; lia|apply Z.div_lt_upper_bound; lia]).
  rewrite Z.mod_small by lia. lia.
Qed.

(* make([]byte, frameSize) is only reached with bytesAllocated*SamplesPerPixel equal to the
   stream's 1..15 segments: the request is at most 15*65535*65535 + 1 bytes (< 2^48). For
   ARBITRARY data (not even bytes). *)
Theorem rle_alloc_bound : forall fi data n, fi_u16 fi ->
  rle_decode_alloc fi data = Some n -> 0 <= n <= rle_alloc_max /\ rle_alloc_max < max_alloc.
Proof.
  intros fi data n (Hw & Hh & Hbits & Hspp & Hpl) E. split; [|reflexivity].
  unfold rle_decode_alloc in E.
  destruct (zlen data =? 0); [discriminate|].
  destruct (fi_rejected fi) eqn:Er; [discriminate|].
  destruct (new_decoder data) as [d| | |] eqn:Ed; try discriminate.
  destruct (Z.eqb_spec (d_nseg d) (nseg (fi_geom fi))) as [En|]; [|discriminate].
  inversion E; subst n. clear E.
  pose proof (new_decoder_nseg data d Ed) as Hn. rewrite En in Hn.
  unfold frame_size, frame_len. unfold nseg in Hn. cbn [fi_geom g_ba g_spp g_npix] in *.
  unfold u16 in *.
  assert (Hnp : 0 <= fi_width fi * fi_height fi <= 65535 * 65535) by nia.
  set (np := fi_width fi * fi_height fi) in *. set (ns := fi_ba fi * fi_spp fi) in *.
  assert (Hfl : 0 <= ns * np <= 15 * (65535 * 65535)) by nia.
  unfold rle_alloc_max.
  destruct (Z.odd (ns * np)) eqn:Eo; [|lia].
  (* 15*65535^2 is odd, so an odd frame length below the maximum still has room for +1 ...
     and at the maximum the bound is met exactly *)
  lia.
Qed.

(* ---------------------------------------------------------------- decodeFrame never panics *)

Theorem rle_decode_frame_safe : forall fi data, fi_u16 fi -> bytesP data ->
  okerr (rle_decode_frame fi data).
Proof.
  intros fi data Hfi Hb. unfold rle_decode_frame.
  destruct (zlen data =? 0) eqn:Ez; [exact I|].
  destruct (fi_rejected fi) eqn:Er; [exact I|].
  unfold rle_decode_gen. rewrite Ez.
  destruct (g_npix (fi_geom fi) =? 0); [exact I|].
  pose proof (new_decoder_okerr data) as Hnd.
  destruct (new_decoder data) as [d| | |] eqn:Ed; cbn [okerr] in Hnd; try contradiction; [|exact I].
  cbn [obind].
  destruct (Z.eqb_spec (d_nseg d) (nseg (fi_geom fi))) as [En|]; [|exact I].
  (* the allocation *)
  assert (Ha : rle_decode_alloc fi data = Some (frame_size (fi_geom fi))).
  { unfold rle_decode_alloc. rewrite Ez, Er, Ed. destruct (Z.eqb_spec (d_nseg d) (nseg (fi_geom fi))); [reflexivity|contradiction]. }
  destruct (rle_alloc_bound fi data _ Hfi Ha) as [Hbound Hmax].
  destruct (Z.gtb_spec (frame_size (fi_geom fi)) max_alloc); [lia|]. cbn [andb].
  destruct (new_decoder_facts data d Hb Ed) as (Hn & Hdd & Hdl & Hoffs).
  apply dec_segs_safe; try (rewrite Hdd); try assumption; try lia.
Qed.
