(* encodeFrame: closed form of the encoded stream (header, offsets, padded segments). *)
From V Require Import Common.Base RLE.RleModel RLE.RleSpec RLE.RleEncProofs RLE.RleDecProofs RLE.RleFrameLemmas.

(* byte plane s of a native frame, as encodeFrame reads it *)
Definition plane (g : geom) (src : list Z) (s : Z) : list Z :=
  stride (Z.to_nat (g_npix g)) (zskip (seg_pos g s) src) (seg_off_dec g).

Definition padseg (sg : list Z) : list Z := sg ++ (if Z.odd (zlen sg) then [0] else []).

Fixpoint zrange (s : Z) (m : nat) : list Z :=
  match m with O => [] | S m' => s :: zrange (s + 1) m' end.

Definition seg_list (g : geom) (src : list Z) : list (list Z) :=
  map (fun s => encode_segment (plane g src s)) (zrange 0 (Z.to_nat (nseg g))).

Definition body (segs : list (list Z)) : list Z := concat (map padseg segs).

Fixpoint offsets_from (base : Z) (segs : list (list Z)) : list Z :=
  match segs with
  | [] => []
  | sg :: r => base :: offsets_from (base + zlen (padseg sg)) r
  end.

(* the encoded frame, as a function of the segment list *)
Definition stream_of (segs : list (list Z)) : list Z :=
  header (zlen segs) (map (wrapU 32) (offsets_from 64 segs) ++ repeat 0 (15 - length segs))
  ++ body segs.

(* ---------------------------------------------------------------- small facts *)

Lemma zlen_padseg_even : forall sg, Z.even (zlen (padseg sg)) = true.
Proof.
  intros sg. unfold padseg. destruct (Z.odd (zlen sg)) eqn:E.
  - rewrite zlen_app, zlen_cons, zlen_nil. rewrite Z.even_add. rewrite <- Z.negb_odd, E. reflexivity.
  - rewrite app_nil_r. rewrite <- Z.negb_odd, E. reflexivity.
Qed.

Lemma pad_even_even : forall buf, Z.even (zlen buf) = true -> pad_even buf = buf.
Proof. intros buf H. unfold pad_even. rewrite <- Z.negb_even, H. reflexivity. Qed.

Lemma pad_even_app : forall E sg, Z.even (zlen E) = true -> pad_even (E ++ sg) = E ++ padseg sg.
Proof.
  intros E sg H. unfold pad_even, padseg. rewrite zlen_app, Z.odd_add.
  rewrite <- (Z.negb_even (zlen E)), H. cbn [negb xorb].
  destruct (Z.odd (zlen sg)); [rewrite app_assoc; reflexivity|rewrite app_nil_r; reflexivity].
Qed.

Lemma zlen_even_app : forall (a b : list Z), Z.even (zlen a) = true -> Z.even (zlen b) = true ->
  Z.even (zlen (a ++ b)) = true.
Proof. intros a b Ha Hb. rewrite zlen_app, Z.even_add, Ha, Hb. reflexivity. Qed.

Lemma zlen_body_even : forall segs, Z.even (zlen (body segs)) = true.
Proof.
  induction segs as [|sg r IH]; [reflexivity|].
  unfold body in *. cbn [map concat]. apply zlen_even_app; [apply zlen_padseg_even|exact IH].
Qed.

Lemma enc_flush_init : enc_flush c_init = ([], c_init).
Proof. reflexivity. Qed.

Lemma enc_flush_snd : forall c, snd (enc_flush c) = c_init.
Proof.
  intros c. unfold enc_flush.
  destruct (if c_rep c <? 2 then if c_rep c >? 0 then (c_tmp c ++ [byte (c_prev c)], c_rep c - 1) else (c_tmp c, c_rep c)
            else (c_tmp c, c_rep c)) as [t r].
  destruct (emit_lits_while (length t) 0 t). reflexivity.
Qed.

Lemma upd_app : forall pre x post v, upd (pre ++ x :: post) (zlen pre) v = pre ++ v :: post.
Proof.
  induction pre as [|y pre IH]; intros x post v.
  - reflexivity.
  - cbn [app upd]. rewrite zlen_cons. pose proof (zlen_nonneg _ pre).
    destruct (Z.eqb_spec (1 + zlen pre) 0); [lia|].
    replace (1 + zlen pre - 1) with (zlen pre) by lia. rewrite IH. reflexivity.
Qed.

Lemma zrange_length : forall m s, length (zrange s m) = m.
Proof. induction m as [|m IH]; intros s; cbn; [reflexivity|rewrite IH; reflexivity]. Qed.

Lemma zrange_in : forall m s x, In x (zrange s m) -> s <= x < s + Z.of_nat m.
Proof.
  induction m as [|m IH]; intros s x H; [destruct H|].
  cbn in H. destruct H as [<-|H]; [lia|]. apply IH in H. lia.
Qed.

Lemma zrange_nth : forall m s j, (j < m)%nat -> nth j (zrange s m) 0 = s + Z.of_nat j.
Proof.
  induction m as [|m IH]; intros s j H; [lia|].
  destruct j as [|j]; cbn [zrange nth]; [lia|]. rewrite IH by lia. lia.
Qed.

(* ---------------------------------------------------------------- the segment loop *)

(* what the loop does to (count, offsets, buffer), given the encoded segments *)
Fixpoint run_segs (segs : list (list Z)) (count : Z) (offs buf : list Z) : Z * list Z * list Z :=
  match segs with
  | [] => (count, offs, buf)
  | sg :: rest =>
    let b := pad_even buf in
    run_segs rest (count + 1) (upd offs count (wrapU 32 (zlen b))) (b ++ sg)
  end.

(* ... and to the offsetOverflow flag *)
Fixpoint run_ovf (segs : list (list Z)) (ovf : bool) (buf : list Z) : bool :=
  match segs with
  | [] => ovf
  | sg :: rest =>
    let b := pad_even buf in
    run_ovf rest (ovf || (zlen b >? 4294967295)) (b ++ sg)
  end.

(* some segment offset does not fit the 32-bit header field *)
Definition overflows (segs : list (list Z)) : bool :=
  existsb (fun o => o >? 4294967295) (offsets_from 64 segs).

Lemma plane_fits : forall g (src : list Z) s, geom_wide g -> zlen src = frame_len g -> 0 <= s < nseg g ->
  (Z.of_nat (Z.to_nat (g_npix g)) - 1) * seg_off_dec g < zlen (zskip (seg_pos g s) src)
  /\ 0 <= seg_pos g s <= zlen src.
Proof.
  intros g src s Hg Hlen Hs.
  pose proof (seg_pos_range g s (g_npix g - 1) Hg Hs) as Hr. pose proof (seg_pos_nonneg g s Hg Hs) as Hp.
  pose proof (seg_off_pos g Hg) as Ho.
  destruct Hg as (_ & _ & _ & Hn). specialize (Hr ltac:(lia)).
  assert (0 <= (g_npix g - 1) * seg_off_dec g) by (apply Z.mul_nonneg_nonneg; lia).
  rewrite zlen_zskip by lia. rewrite Z2Nat.id by lia. lia.
Qed.

Lemma enc_segs_run : forall g src k fuel s st, geom_wide g -> zlen src = frame_len g ->
  Z.of_nat k = nseg g - s -> 0 <= s -> e_c st = c_init -> e_count st = s -> (k < fuel)%nat ->
  enc_segs fuel g src s st =
  Ok (let '(c, o, b) := run_segs (map (fun j => encode_segment (plane g src j)) (zrange s k))
                                 s (e_offsets st) (e_buf st) in
      mkE c o b c_init
          (run_ovf (map (fun j => encode_segment (plane g src j)) (zrange s k)) (e_ovf st) (e_buf st))).
Proof.
  intros g src k. induction k as [|k IH]; intros fuel s st Hg Hlen Hk Hs Hc Hcnt Hfuel.
  - destruct fuel as [|f]; [lia|]. cbn [enc_segs zrange map run_segs].
    destruct (Z.ltb_spec s (nseg g)); [lia|]. destruct st as [c o b cc ov]. cbn in *. subst. reflexivity.
  - destruct fuel as [|f]; [lia|]. cbn [enc_segs zrange map run_segs].
    destruct (Z.ltb_spec s (nseg g)); [|lia].
    assert (H15 : nseg g <= 15) by (unfold nseg; destruct Hg as (_ & _ & Hle & _); exact Hle).
    destruct st as [cnt offs buf c ov]. cbn [e_c e_count e_offsets e_buf e_ovf] in *. subst c cnt.
    unfold next_segment, est_flush. cbn [e_c e_count e_offsets e_buf e_ovf]. rewrite enc_flush_init.
    cbn [e_c e_count e_offsets e_buf e_ovf]. rewrite app_nil_r.
    destruct (Z.ltb_spec s 0); [lia|]. destruct (Z.geb_spec s 15); [lia|]. cbn [orb obind].
    destruct (plane_fits g src s Hg Hlen ltac:(lia)) as [Hfit Hpos].
    rewrite seg_off_same.
    replace (g_npix g) with (Z.of_nat (Z.to_nat (g_npix g))) at 1 by (destruct Hg as (_ & _ & _ & Hn); lia).
    rewrite enc_plane_stride; [|apply seg_off_pos; assumption|assumption|].
    2:{ assert (zlen (zskip (seg_pos g s) src) <= zlen src) by (rewrite zlen_zskip by lia; lia). unfold zlen in *. lia. }
    cbn [obind e_c e_count e_offsets e_buf e_ovf]. fold (plane g src s).
    destruct (enc_bytes c_init (plane g src s)) as [o c'] eqn:Eb. cbn [fst snd e_c e_count e_offsets e_buf e_ovf].
    pose proof (enc_flush_snd c') as Hsnd. destruct (enc_flush c') as [o2 c2] eqn:Ef. cbn [snd] in Hsnd. subst c2.
    rewrite IH; try assumption; try lia; try reflexivity.
    cbn [e_c e_count e_offsets e_buf e_ovf run_ovf].
    unfold encode_segment. rewrite Eb, Ef. cbn [fst]. rewrite <- !app_assoc. reflexivity.
Qed.

Lemma pad_even_is_even : forall buf, Z.even (zlen (pad_even buf)) = true.
Proof.
  intros buf. unfold pad_even. destruct (Z.odd (zlen buf)) eqn:E.
  - rewrite zlen_app, zlen_cons, zlen_nil, Z.even_add, <- Z.negb_odd, E. reflexivity.
  - rewrite <- Z.negb_odd, E. reflexivity.
Qed.

(* closed form of run_segs *)
Lemma run_segs_closed : forall segs cnt pre post buf,
  zlen pre = cnt -> (length segs <= length post)%nat ->
  exists buf', run_segs segs cnt (pre ++ post) buf
               = (cnt + zlen segs,
                  pre ++ map (wrapU 32) (offsets_from (zlen (pad_even buf)) segs) ++ skipn (length segs) post,
                  buf')
               /\ pad_even buf' = pad_even buf ++ body segs.
Proof.
  induction segs as [|sg r IH]; intros cnt pre post buf Hpre Hpost.
  - exists buf. cbn [run_segs offsets_from map skipn length app]. split.
    + rewrite zlen_nil, Z.add_0_r. reflexivity.
    + unfold body. cbn. rewrite app_nil_r. reflexivity.
  - cbn [run_segs].
    destruct post as [|x post]; [cbn in Hpost; lia|].
    rewrite <- Hpre, upd_app. rewrite Hpre.
    replace (pre ++ wrapU 32 (zlen (pad_even buf)) :: post)
      with ((pre ++ [wrapU 32 (zlen (pad_even buf))]) ++ post) by (rewrite <- app_assoc; reflexivity).
    destruct (IH (cnt + 1) (pre ++ [wrapU 32 (zlen (pad_even buf))]) post (pad_even buf ++ sg)) as (buf' & E & Hp).
    + rewrite zlen_app, zlen_cons, zlen_nil. lia.
    + cbn in Hpost. lia.
    + exists buf'. rewrite E. rewrite pad_even_app in * by apply pad_even_is_even. split.
      * cbn [offsets_from map skipn length]. rewrite zlen_cons, zlen_app, <- !app_assoc. cbn [app].
        f_equal. f_equal. lia.
      * rewrite Hp. unfold body. cbn [map concat]. rewrite <- !app_assoc. reflexivity.
Qed.

Lemma run_ovf_closed : forall segs ovf buf,
  run_ovf segs ovf buf
  = ovf || existsb (fun o => o >? 4294967295) (offsets_from (zlen (pad_even buf)) segs).
Proof.
  induction segs as [|sg r IH]; intros ovf buf.
  - cbn. rewrite Bool.orb_false_r. reflexivity.
  - cbn [run_ovf offsets_from existsb]. rewrite IH.
    rewrite pad_even_app by apply pad_even_is_even. rewrite zlen_app, Bool.orb_assoc. reflexivity.
Qed.

(* ---------------------------------------------------------------- encodeFrame *)

Lemma zskip_64 : forall b, zskip 64 (repeat 0 64 ++ b) = b.
Proof. intros b. apply (zskip_app _ (repeat 0 64) b). Qed.

Theorem rle_encode_closed : forall g src, geom_wide g -> zlen src = frame_len g ->
  rle_encode g src = if overflows (seg_list g src) then Err else Ok (stream_of (seg_list g src)).
Proof.
  intros g src Hg Hlen. unfold rle_encode.
  assert (Hfl : 0 < frame_len g).
  { unfold frame_len. destruct Hg as (Hb & Hs & _ & Hn). apply Z.mul_pos_pos; [apply Z.mul_pos_pos; lia|lia]. }
  destruct (Z.eqb_spec (zlen src) 0); [lia|].
  assert (Hn15 : 1 <= nseg g <= 15). { unfold nseg. destruct Hg as (Hb & Hs & H & _). nia. }
  destruct (Z.eqb_spec (g_npix g) 0); [destruct Hg as (_ & _ & _ & Hn); lia|].
  destruct (Z.ltb_spec (nseg g) 1); [lia|]. destruct (Z.gtb_spec (nseg g) 15); [lia|]. cbn [orb].
  rewrite (enc_segs_run g src (Z.to_nat (nseg g)) 16 0 e_init); try assumption; try reflexivity; try lia.
  fold (seg_list g src). set (segs := seg_list g src).
  assert (Hls : length segs = Z.to_nat (nseg g)) by (unfold segs, seg_list; rewrite map_length, zrange_length; reflexivity).
  cbn [e_init e_offsets e_buf e_ovf].
  destruct (run_segs_closed segs 0 [] (repeat 0 15) (repeat 0 64)) as (buf' & E & Hp); [reflexivity|rewrite repeat_length; lia|].
  cbn [app] in E. rewrite E. cbn [obind e_ovf].
  rewrite run_ovf_closed. rewrite (pad_even_even (repeat 0 64)) by reflexivity.
  change (zlen (repeat 0 64)) with 64. cbn [orb]. fold (overflows segs).
  destruct (overflows segs); [reflexivity|].
  unfold get_buffer, make_even, est_flush. cbn [e_c e_count e_offsets e_buf]. rewrite enc_flush_init.
  cbn [e_c e_count e_offsets e_buf]. rewrite app_nil_r, Hp.
  rewrite (pad_even_even (repeat 0 64)) by reflexivity. rewrite zskip_64.
  unfold stream_of. f_equal. f_equal. f_equal.
  (* the untouched tail of the offsets array *)
  clear -Hls Hn15. rewrite Hls.
  assert (H : forall a b, (a + b = 15)%nat -> skipn a (repeat 0 15) = repeat 0 b).
  { intros a b Hab. replace 15%nat with (a + b)%nat by lia. rewrite repeat_app.
    rewrite <- (repeat_length 0 a) at 1. apply skipn_length_app. }
  f_equal. apply H. lia.
Qed.
