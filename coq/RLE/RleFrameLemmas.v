(* Frame-level lemmas for the RLE model: list utilities (zskip, znth, zeros), strided
   reads (byte planes), scatter, and the plane mapping (s,k) -> seg_pos s + k*offset. *)
From V Require Import Common.Base RLE.RleModel RLE.RleSpec RLE.RleEncProofs RLE.RleDecProofs.

(* ---------------------------------------------------------------- znth / zskip / zeros *)

Lemma znth_0 : forall A (x : A) l d, znth (x :: l) 0 d = x.
Proof. reflexivity. Qed.
Lemma znth_S : forall A (x : A) l i d, 0 < i -> znth (x :: l) i d = znth l (i - 1) d.
Proof.
  intros A x l i d Hi. unfold znth.
  destruct (Z.ltb_spec i 0); [lia|]. destruct (Z.ltb_spec (i - 1) 0); [lia|].
  replace (Z.to_nat i) with (S (Z.to_nat (i - 1))) by lia. reflexivity.
Qed.
Lemma znth_nth : forall A (l : list A) i d, 0 <= i -> znth l i d = nth (Z.to_nat i) l d.
Proof. intros. unfold znth. destruct (Z.ltb_spec i 0); [lia|reflexivity]. Qed.
Lemma znth_app_l : forall A (a b : list A) i d, 0 <= i < zlen a -> znth (a ++ b) i d = znth a i d.
Proof. intros A a b i d H. rewrite !znth_nth by lia. apply app_nth1. unfold zlen in H. lia. Qed.
Lemma znth_app_r : forall A (a b : list A) i d, zlen a <= i -> znth (a ++ b) i d = znth b (i - zlen a) d.
Proof.
  intros A a b i d H. pose proof (zlen_nonneg _ a). rewrite !znth_nth by lia.
  rewrite app_nth2 by (unfold zlen in H; lia). f_equal. unfold zlen. lia.
Qed.
Lemma znth_overflow : forall A (l : list A) i d, zlen l <= i -> znth l i d = d.
Proof. intros A l i d H. pose proof (zlen_nonneg _ l). rewrite znth_nth by lia. apply nth_overflow. unfold zlen in H. lia. Qed.

Lemma znth_ext : forall (a b : list Z), zlen a = zlen b ->
  (forall i, 0 <= i < zlen a -> znth a i 0 = znth b i 0) -> a = b.
Proof.
  intros a b Hl H. apply (nth_ext a b 0 0).
  - unfold zlen in Hl. lia.
  - intros n Hn. specialize (H (Z.of_nat n)). rewrite !znth_nth in H by lia. rewrite Nat2Z.id in H.
    apply H. unfold zlen. lia.
Qed.

Lemma zskip_nonpos : forall A k (l : list A), k <= 0 -> zskip k l = l.
Proof. intros A k [|x l] H; cbn; [reflexivity|]. destruct (Z.leb_spec k 0); [reflexivity|lia]. Qed.
Lemma zskip_cons : forall A k (x : A) l, 0 < k -> zskip k (x :: l) = zskip (k - 1) l.
Proof. intros. cbn. destruct (Z.leb_spec k 0); [lia|reflexivity]. Qed.
Lemma zskip_nil : forall A k, zskip k (@nil A) = [].
Proof. reflexivity. Qed.

Lemma zskip_app : forall A (a b : list A), zskip (zlen a) (a ++ b) = b.
Proof.
  induction a as [|x a IH]; intros b.
  - apply zskip_nonpos. rewrite zlen_nil. lia.
  - cbn [app]. rewrite zskip_cons by (rewrite zlen_cons; pose proof (zlen_nonneg _ a); lia).
    rewrite zlen_cons. replace (1 + zlen a - 1) with (zlen a) by lia. apply IH.
Qed.

Lemma zlen_zskip : forall A (l : list A) k, 0 <= k <= zlen l -> zlen (zskip k l) = zlen l - k.
Proof.
  induction l as [|x l IH]; intros k Hk.
  - rewrite zskip_nil, zlen_nil in *. lia.
  - destruct (Z.eq_dec k 0) as [->|Hne].
    + rewrite zskip_nonpos by lia. lia.
    + rewrite zskip_cons by lia. rewrite zlen_cons in *. rewrite IH by lia. lia.
Qed.

Lemma znth_zskip : forall A (l : list A) k i d, 0 <= k -> 0 <= i -> znth (zskip k l) i d = znth l (k + i) d.
Proof.
  induction l as [|x l IH]; intros k i d Hk Hi.
  - rewrite zskip_nil. rewrite !znth_overflow by (rewrite zlen_nil; lia). reflexivity.
  - destruct (Z.eq_dec k 0) as [->|Hne].
    + rewrite zskip_nonpos by lia. reflexivity.
    + rewrite zskip_cons by lia. rewrite IH by lia. rewrite (znth_S _ x l (k + i)) by lia. f_equal. lia.
Qed.

Lemma zskip_too_far : forall A (l : list A) k, zlen l <= k -> zskip k l = [].
Proof.
  induction l as [|x l IH]; intros k Hk; [reflexivity|].
  rewrite zlen_cons in Hk. pose proof (zlen_nonneg _ l). rewrite zskip_cons by lia. apply IH. lia.
Qed.

Lemma zeros_repeat : forall n, zeros n = repeat 0 (Z.to_nat n).
Proof.
  intros n. unfold zeros. destruct n as [|p|p]; try reflexivity.
  cbn [Z.iter Z.to_nat]. rewrite Pos2Nat.inj_iter.
  induction (Pos.to_nat p) as [|k IH]; [reflexivity|]. cbn. rewrite IH. reflexivity.
Qed.
Lemma zlen_zeros : forall n, 0 <= n -> zlen (zeros n) = n.
Proof. intros. rewrite zeros_repeat. unfold zlen. rewrite repeat_length. lia. Qed.
Lemma znth_zeros : forall n i, znth (zeros n) i 0 = 0.
Proof.
  intros. rewrite zeros_repeat. unfold znth. destruct (i <? 0); [reflexivity|].
  destruct (Nat.lt_ge_cases (Z.to_nat i) (length (repeat 0 (Z.to_nat n)))) as [H|H].
  - apply (repeat_spec (Z.to_nat n) 0). apply nth_In. exact H.
  - apply nth_overflow. exact H.
Qed.

(* ---------------------------------------------------------------- strided reads *)

(* the bytes src[0], src[off], src[2 off], ... (k of them) *)
Fixpoint stride (k : nat) (rest : list Z) (off : Z) : list Z :=
  match k with
  | O => []
  | S k' => match rest with [] => [] | b :: _ => b :: stride k' (zskip off rest) off end
  end.

Lemma stride_spec : forall k rest off, 1 <= off -> (Z.of_nat k - 1) * off < zlen rest ->
  zlen (stride k rest off) = Z.of_nat k /\
  forall j, 0 <= j < Z.of_nat k -> znth (stride k rest off) j 0 = znth rest (j * off) 0.
Proof.
  induction k as [|k IH]; intros rest off Hoff Hlen.
  - split; [reflexivity|intros; lia].
  - cbn [stride]. destruct rest as [|b rest1].
    { rewrite zlen_nil in Hlen. nia. }
    destruct (Nat.eq_dec k 0) as [->|Hk].
    + cbn [stride]. split; [reflexivity|]. intros j Hj. assert (j = 0) by lia. subst. reflexivity.
    + assert (Hoff2 : off <= zlen (b :: rest1)) by nia.
      destruct (IH (zskip off (b :: rest1)) off Hoff) as [IHl IHn].
      { rewrite zlen_zskip by lia. nia. }
      split.
      * rewrite zlen_cons, IHl. lia.
      * intros j Hj. destruct (Z.eq_dec j 0) as [->|Hj0]; [reflexivity|].
        rewrite znth_S by lia. rewrite IHn by lia. rewrite znth_zskip by nia. f_equal. lia.
Qed.

Lemma bytesP_zskip : forall l k, bytesP l -> bytesP (zskip k l).
Proof.
  induction l as [|x l IH]; intros k H; [constructor|].
  cbn. destruct (k <=? 0); [assumption|]. apply IH. inversion H; assumption.
Qed.
Lemma bytesP_stride : forall k rest off, bytesP rest -> bytesP (stride k rest off).
Proof.
  induction k as [|k IH]; intros rest off H; [constructor|].
  cbn [stride]. destruct rest as [|b r]; [constructor|].
  constructor; [inversion H; assumption|]. apply IH. apply bytesP_zskip. assumption.
Qed.

(* encodeFrame's pixel loop = Encode applied to the strided plane *)
Lemma enc_plane_stride : forall k fuel rest off c, 1 <= off ->
  (Z.of_nat k - 1) * off < zlen rest -> (length rest < fuel)%nat ->
  enc_plane fuel rest off (Z.of_nat k) c = Ok (enc_bytes c (stride k rest off)).
Proof.
  induction k as [|k IH]; intros fuel rest off c Hoff Hlen Hfuel.
  - destruct fuel; [lia|]. reflexivity.
  - destruct fuel as [|f]; [lia|]. cbn [enc_plane].
    destruct (Z.leb_spec (Z.of_nat (S k)) 0); [lia|].
    destruct rest as [|b rest1]. { rewrite zlen_nil in Hlen. nia. }
    cbn [stride enc_bytes]. destruct (enc_byte c b) as [o c1].
    replace (Z.of_nat (S k) - 1) with (Z.of_nat k) by lia.
    destruct (Nat.eq_dec k 0) as [->|Hk].
    + destruct f; [cbn in Hfuel; lia|]. cbn [enc_plane Z.of_nat stride enc_bytes]. reflexivity.
    + assert (Hoff2 : off <= zlen (b :: rest1)) by nia.
      rewrite IH.
      * destruct (enc_bytes c1 (stride k (zskip off (b :: rest1)) off)). reflexivity.
      * assumption.
      * rewrite zlen_zskip by lia. nia.
      * assert (zlen (zskip off (b :: rest1)) < zlen (b :: rest1)) by (rewrite zlen_zskip by lia; lia).
        unfold zlen in *. cbn [length] in *. lia.
Qed.

(* ---------------------------------------------------------------- scatter *)

Lemma scatter_length : forall buf skip off w, length (scatter buf skip off w) = length buf.
Proof.
  induction buf as [|x buf IH]; intros skip off w; [reflexivity|].
  cbn [scatter]. destruct w as [|b w']; [reflexivity|].
  destruct (skip <=? 0); cbn [length]; rewrite IH; reflexivity.
Qed.
Lemma zlen_scatter : forall buf skip off w, zlen (scatter buf skip off w) = zlen buf.
Proof. intros. unfold zlen. rewrite scatter_length. reflexivity. Qed.

Lemma scatter_hit : forall buf skip off w k, 0 <= skip -> 1 <= off -> 0 <= k < zlen w ->
  skip + k * off < zlen buf ->
  znth (scatter buf skip off w) (skip + k * off) 0 = znth w k 0.
Proof.
  induction buf as [|x buf IH]; intros skip off w k Hs Hoff Hk Hin.
  - rewrite zlen_nil in Hin. nia.
  - destruct w as [|b w']; [rewrite zlen_nil in Hk; lia|].
    cbn [scatter]. rewrite zlen_cons in *.
    destruct (Z.leb_spec skip 0).
    + assert (skip = 0) by lia. subst skip.
      destruct (Z.eq_dec k 0) as [->|Hk0]; [reflexivity|].
      rewrite znth_S by nia. rewrite (znth_S _ b w' k) by lia.
      replace (0 + k * off - 1) with (off - 1 + (k - 1) * off) by lia.
      apply IH; try lia; try nia.
    + rewrite znth_S by nia.
      replace (skip + k * off - 1) with (skip - 1 + k * off) by lia.
      apply IH; try lia; try (rewrite zlen_cons; lia).
Qed.

Lemma scatter_miss : forall buf skip off w i, 0 <= skip -> 1 <= off ->
  (forall k, 0 <= k < zlen w -> i <> skip + k * off) ->
  znth (scatter buf skip off w) i 0 = znth buf i 0.
Proof.
  induction buf as [|x buf IH]; intros skip off w i Hs Hoff Hm; [reflexivity|].
  destruct w as [|b w']; [reflexivity|].
  cbn [scatter].
  destruct (Z_lt_le_dec i 0) as [Hneg|Hi]. { unfold znth. destruct (Z.ltb_spec i 0); [reflexivity|lia]. }
  destruct (Z.leb_spec skip 0).
  - assert (skip = 0) by lia. subst skip.
    destruct (Z.eq_dec i 0) as [->|Hi0].
    + exfalso. apply (Hm 0); [rewrite zlen_cons; pose proof (zlen_nonneg _ w'); lia|lia].
    + rewrite !znth_S by lia. apply IH; try lia.
      intros k Hk Heq. apply (Hm (k + 1)); [rewrite zlen_cons; lia|lia].
  - destruct (Z.eq_dec i 0) as [->|Hi0]; [reflexivity|].
    rewrite !znth_S by lia. apply IH; try lia.
    intros k Hk Heq. apply (Hm k); [assumption|lia].
Qed.

(* ---------------------------------------------------------------- plane mapping *)

(* geometries: the accepted ones and the general shape most lemmas need *)
Definition geom_ok (g : geom) : Prop :=
  (g_ba g = 1 \/ g_ba g = 2 \/ g_ba g = 4) /\ (g_spp g = 1 \/ g_spp g = 3) /\ 0 < g_npix g.
Definition geom_wide (g : geom) : Prop :=
  1 <= g_ba g /\ 1 <= g_spp g /\ g_ba g * g_spp g <= 15 /\ 0 < g_npix g.

Lemma geom_ok_wide : forall g, geom_ok g -> geom_wide g.
Proof. intros g (Hb & Hs & Hn). unfold geom_wide. lia. Qed.

Lemma seg_off_same : forall g, seg_off_enc g = seg_off_dec g.
Proof. intros g. unfold seg_off_enc, seg_off_dec, nseg. destruct (g_planar g); lia. Qed.

Lemma seg_off_pos : forall g, geom_wide g -> 1 <= seg_off_dec g.
Proof. intros g (Hb & Hs & _ & _). unfold seg_off_dec. destruct (g_planar g); nia. Qed.

(* s = sample*ba + sabyte *)
Lemma seg_split : forall g s, geom_wide g -> 0 <= s < nseg g ->
  let sample := Z.quot s (g_ba g) in let sabyte := Z.rem s (g_ba g) in
  s = sample * g_ba g + sabyte /\ 0 <= sabyte < g_ba g /\ 0 <= sample < g_spp g.
Proof.
  intros g s (Hb & Hs & _ & _) Hr. cbv zeta. unfold nseg in Hr.
  rewrite Z.quot_div_nonneg, Z.rem_mod_nonneg by lia.
  pose proof (Z.div_mod s (g_ba g) ltac:(lia)) as Hdm.
  pose proof (Z.mod_pos_bound s (g_ba g) ltac:(lia)) as Hm.
  split; [lia|]. split; [lia|].
  split; [apply Z.div_pos; lia|]. apply Z.div_lt_upper_bound; lia.
Qed.

Lemma seg_pos_range : forall g s k, geom_wide g -> 0 <= s < nseg g -> 0 <= k < g_npix g ->
  0 <= seg_pos g s + k * seg_off_dec g < frame_len g.
Proof.
  intros g s k Hg Hs Hk. destruct (seg_split g s Hg Hs) as (_ & Hsb & Hsa).
  destruct Hg as (Hb & Hspp & _ & Hn).
  unfold seg_pos, seg_off_dec, frame_len.
  set (sample := Z.quot s (g_ba g)) in *. set (sabyte := Z.rem s (g_ba g)) in *.
  set (ba := g_ba g) in *. set (spp := g_spp g) in *. set (n := g_npix g) in *.
  destruct (g_planar g).
  - (* planar: sample*ba*npix + (ba-1-sabyte) + k*ba *)
    assert (H1 : 0 <= ba * n) by (apply Z.mul_nonneg_nonneg; lia).
    assert (H2 : 0 <= sample * (ba * n)) by (apply Z.mul_nonneg_nonneg; lia).
    assert (H3 : sample * (ba * n) <= (spp - 1) * (ba * n)) by (apply Z.mul_le_mono_nonneg_r; lia).
    assert (H4 : 0 <= k * ba) by (apply Z.mul_nonneg_nonneg; lia).
    assert (H5 : k * ba <= (n - 1) * ba) by (apply Z.mul_le_mono_nonneg_r; lia).
    lia.
  - assert (H1 : 0 <= spp * ba) by (apply Z.mul_nonneg_nonneg; lia).
    assert (H2 : 0 <= sample * ba) by (apply Z.mul_nonneg_nonneg; lia).
    assert (H3 : sample * ba <= (spp - 1) * ba) by (apply Z.mul_le_mono_nonneg_r; lia).
    assert (H4 : 0 <= k * (spp * ba)) by (apply Z.mul_nonneg_nonneg; lia).
    assert (H5 : k * (spp * ba) <= (n - 1) * (spp * ba)) by (apply Z.mul_le_mono_nonneg_r; lia).
    lia.
Qed.

Lemma seg_pos_nonneg : forall g s, geom_wide g -> 0 <= s < nseg g -> 0 <= seg_pos g s.
Proof.
  intros g s Hg Hs. pose proof (seg_pos_range g s 0 Hg Hs). destruct Hg as (_ & _ & _ & Hn). lia.
Qed.

(* every byte position of the native frame belongs to some (plane, pixel) *)
Lemma plane_map_surj : forall g i, geom_wide g -> 0 <= i < frame_len g ->
  exists s k, 0 <= s < nseg g /\ 0 <= k < g_npix g /\ i = seg_pos g s + k * seg_off_dec g.
Proof.
  intros g i (Hb & Hspp & H15 & Hn) Hi. unfold frame_len in Hi. unfold nseg, seg_pos, seg_off_dec.
  set (ba := g_ba g) in *. set (spp := g_spp g) in *. set (n := g_npix g) in *.
  assert (Hsplit : forall r, 0 <= r < ba * spp -> exists s, 0 <= s < ba * spp /\
            Z.quot s ba * ba + (ba - Z.rem s ba - 1) = r /\ Z.quot s ba = r / ba).
  { intros r Hr.
    pose proof (Z.div_mod r ba ltac:(lia)) as Hdm. pose proof (Z.mod_pos_bound r ba ltac:(lia)) as Hm.
    assert (Hq : 0 <= r / ba < spp). { split; [apply Z.div_pos; lia|apply Z.div_lt_upper_bound; lia]. }
    exists ((r / ba) * ba + (ba - 1 - r mod ba)).
    assert (Hs0 : 0 <= r / ba * ba + (ba - 1 - r mod ba)) by nia.
    rewrite Z.quot_div_nonneg, Z.rem_mod_nonneg by lia.
    assert (Hd : (r / ba * ba + (ba - 1 - r mod ba)) / ba = r / ba).
    { symmetry. apply (Z.div_unique _ _ _ (ba - 1 - r mod ba)); lia. }
    assert (Hmm : (r / ba * ba + (ba - 1 - r mod ba)) mod ba = ba - 1 - r mod ba).
    { symmetry. apply (Z.mod_unique _ _ (r / ba)); lia. }
    rewrite Hd, Hmm. split; [nia|]. split; [lia|reflexivity]. }
  destruct (g_planar g).
  - (* planar: i = sample*(ba*n) + (k*ba + j) *)
    pose proof (Z.div_mod i (ba * n) ltac:(nia)) as Hdm. pose proof (Z.mod_pos_bound i (ba * n) ltac:(nia)) as Hm.
    set (sample := i / (ba * n)) in *. set (r := i mod (ba * n)) in *.
    assert (Hsa : 0 <= sample < spp). { split; [apply Z.div_pos; nia|apply Z.div_lt_upper_bound; nia]. }
    pose proof (Z.div_mod r ba ltac:(lia)) as Hdm2. pose proof (Z.mod_pos_bound r ba ltac:(lia)) as Hm2.
    set (k := r / ba) in *. set (j := r mod ba) in *.
    assert (Hk : 0 <= k < n). { split; [apply Z.div_pos; lia|apply Z.div_lt_upper_bound; lia]. }
    destruct (Hsplit (sample * ba + j) ltac:(nia)) as (s & Hs & Hpos & Hq).
    assert (Hq2 : (sample * ba + j) / ba = sample). { symmetry. apply (Z.div_unique _ _ _ j); lia. }
    exists s, k. split; [assumption|]. split; [assumption|].
    rewrite Hq, Hq2 in *. nia.
  - pose proof (Z.div_mod i (spp * ba) ltac:(nia)) as Hdm. pose proof (Z.mod_pos_bound i (spp * ba) ltac:(nia)) as Hm.
    set (k := i / (spp * ba)) in *. set (r := i mod (spp * ba)) in *.
    assert (Hk : 0 <= k < n). { split; [apply Z.div_pos; nia|apply Z.div_lt_upper_bound; nia]. }
    destruct (Hsplit r ltac:(nia)) as (s & Hs & Hpos & Hq).
    exists s, k. split; [assumption|]. split; [assumption|]. lia.
Qed.

(* ... and to only one *)
Lemma plane_map_inj : forall g s1 k1 s2 k2, geom_wide g ->
  0 <= s1 < nseg g -> 0 <= k1 < g_npix g -> 0 <= s2 < nseg g -> 0 <= k2 < g_npix g ->
  seg_pos g s1 + k1 * seg_off_dec g = seg_pos g s2 + k2 * seg_off_dec g ->
  s1 = s2 /\ k1 = k2.
Proof.
  intros g s1 k1 s2 k2 Hg H1 Hk1 H2 Hk2 E.
  destruct (seg_split g s1 Hg H1) as (E1 & Hb1 & Ha1). destruct (seg_split g s2 Hg H2) as (E2 & Hb2 & Ha2).
  destruct Hg as (Hb & Hspp & _ & Hn).
  unfold seg_pos, seg_off_dec in E.
  set (a1 := Z.quot s1 (g_ba g)) in *. set (b1 := Z.rem s1 (g_ba g)) in *.
  set (a2 := Z.quot s2 (g_ba g)) in *. set (b2 := Z.rem s2 (g_ba g)) in *.
  set (ba := g_ba g) in *. set (spp := g_spp g) in *. set (n := g_npix g) in *.
  destruct (g_planar g).
  - (* a*ba*n + (ba-1-b) + k*ba : digits (a ; k ; ba-1-b) in bases (n, ba) *)
    assert (Ha : a1 = a2).
    { assert (a1 * (ba * n) + ((ba - b1 - 1) + k1 * ba) = a2 * (ba * n) + ((ba - b2 - 1) + k2 * ba)) by lia.
      assert (0 <= (ba - b1 - 1) + k1 * ba < ba * n) by nia.
      assert (0 <= (ba - b2 - 1) + k2 * ba < ba * n) by nia.
      nia. }
    subst a2.
    assert (Hk : k1 = k2) by nia.
    subst k2. split; [|reflexivity]. nia.
  - assert (Hk : k1 = k2).
    { assert (0 <= a1 * ba + (ba - b1 - 1) < spp * ba) by nia.
      assert (0 <= a2 * ba + (ba - b2 - 1) < spp * ba) by nia.
      nia. }
    subst k2. split; [|reflexivity].
    assert (a1 = a2) by nia. nia.
Qed.
