(* decodeFrame on a well-formed stream: header parsing, segment windows, plane assembly.
   Generic in the packet split of each segment (any legal PackBits encoding of the planes). *)
From V Require Import Common.Base RLE.RleModel RLE.RleSpec RLE.RleEncProofs RLE.RleDecProofs
  RLE.RleFrameLemmas RLE.RleFrameEnc.

(* ---------------------------------------------------------------- header *)

Lemma le32_value : forall x, 0 <= x < 2 ^ 32 ->
  x mod 256 + 256 * ((x / 256) mod 256) + 65536 * ((x / 65536) mod 256) + 16777216 * ((x / 16777216) mod 256) = x.
Proof. intros x H. change (2 ^ 32) with 4294967296 in H. Z.div_mod_to_equations. lia. Qed.

Lemma zlen_le32 : forall x, zlen (le32 x) = 4.
Proof. reflexivity. Qed.
Lemma zlen_flat_map_le32 : forall l, zlen (flat_map le32 l) = 4 * zlen l.
Proof.
  induction l as [|x l IH]; [reflexivity|].
  cbn [flat_map]. rewrite zlen_app, zlen_le32, IH, zlen_cons. lia.
Qed.
Lemma zlen_header : forall c offs, zlen offs = 15 -> zlen (header c offs) = 64.
Proof. intros c offs H. unfold header. rewrite zlen_app, zlen_le32, zlen_flat_map_le32, H. reflexivity. Qed.

Lemma wrapU32_id : forall x, 0 <= x < 2 ^ 32 -> wrapU 32 x = x.
Proof. intros x H. unfold wrapU. apply Z.mod_small. exact H. Qed.

Lemma read_offsets_ok : forall offs i rest n dlen,
  Forall (fun o => 0 <= o < 2 ^ 32 /\ o <= dlen) offs ->
  read_offsets (length offs) i (flat_map le32 offs ++ rest) n dlen = Ok offs.
Proof.
  induction offs as [|o offs IH]; intros i rest n dlen H; [reflexivity|].
  inversion H as [|? ? [Ho Hd] Hr]; subst.
  cbn [length flat_map]. rewrite <- app_assoc. unfold le32 at 1. cbn [app read_offsets].
  rewrite le32_value by assumption.
  destruct (Z.gtb_spec o dlen); [lia|]. rewrite Bool.andb_false_r.
  rewrite IH by assumption. reflexivity.
Qed.

(* ---------------------------------------------------------------- offsets and body *)

Lemma body_app : forall a b, body (a ++ b) = body a ++ body b.
Proof. intros. unfold body. rewrite map_app, concat_app. reflexivity. Qed.
Lemma body_cons : forall sg r, body (sg :: r) = padseg sg ++ body r.
Proof. reflexivity. Qed.

Lemma offsets_from_length : forall segs base, length (offsets_from base segs) = length segs.
Proof. induction segs as [|sg r IH]; intros base; cbn; [reflexivity|rewrite IH; reflexivity]. Qed.

Lemma offsets_from_nth : forall segs base j, (j < length segs)%nat ->
  nth j (offsets_from base segs) 0 = base + zlen (body (firstn j segs)).
Proof.
  induction segs as [|sg r IH]; intros base j Hj; [cbn in Hj; lia|].
  destruct j as [|j]; cbn [offsets_from nth firstn].
  - unfold body. cbn. lia.
  - cbn in Hj. rewrite IH by lia. rewrite body_cons, zlen_app. lia.
Qed.

Lemma split_at : forall A (l : list A) j d, (j < length l)%nat ->
  l = firstn j l ++ nth j l d :: skipn (S j) l.
Proof.
  induction l as [|x l IH]; intros j d Hj; [cbn in Hj; lia|].
  destruct j as [|j]; [reflexivity|]. cbn [firstn nth skipn app]. f_equal. apply IH. cbn in Hj. lia.
Qed.

Lemma firstn_S_nth : forall A (l : list A) j d, (j < length l)%nat ->
  firstn (S j) l = firstn j l ++ [nth j l d].
Proof.
  induction l as [|x l IH]; intros j d Hj; [cbn in Hj; lia|].
  destruct j as [|j]; [reflexivity|]. cbn [firstn nth app]. f_equal. apply IH. cbn in Hj. lia.
Qed.

Lemma body_split : forall segs j, (j < length segs)%nat ->
  body segs = body (firstn j segs) ++ padseg (nth j segs []) ++ body (skipn (S j) segs).
Proof. intros segs j Hj. rewrite <- body_cons, <- body_app, <- split_at by assumption. reflexivity. Qed.

Lemma firstn_all_len : forall A (l : list A), firstn (length l) l = l.
Proof. intros. apply firstn_all. Qed.

(* ---------------------------------------------------------------- Annex G view of the stream *)

Lemma words_flat : forall l rest, Forall (fun o => 0 <= o < 2 ^ 32) l ->
  words (length l) (flat_map le32 l ++ rest) = l.
Proof.
  induction l as [|o l IH]; intros rest H; [reflexivity|].
  inversion H; subst. cbn [length flat_map]. rewrite <- app_assoc. unfold le32 at 1. cbn [app words].
  rewrite le32_value by assumption. rewrite IH by assumption. reflexivity.
Qed.

Lemma ascending_cons2 : forall a b t, ascending (a :: b :: t) = (a <? b) && ascending (b :: t).
Proof. reflexivity. Qed.

Lemma ascending_offsets_from : forall segs base, Forall (fun sg => 1 <= zlen (padseg sg)) segs ->
  ascending (offsets_from base segs) = true.
Proof.
  induction segs as [|sg r IH]; intros base H; [reflexivity|].
  inversion H as [|? ? Hsg Hr]; subst. cbn [offsets_from].
  destruct r as [|sg2 r2]; [reflexivity|].
  specialize (IH (base + zlen (padseg sg)) Hr). cbn [offsets_from] in *.
  rewrite ascending_cons2, IH.
  destruct (Z.ltb_spec base (base + zlen (padseg sg))); [reflexivity|lia].
Qed.

Lemma cut_offsets : forall segs P,
  cut (P ++ body segs) (zlen (P ++ body segs)) (offsets_from (zlen P) segs) = map padseg segs.
Proof.
  induction segs as [|sg r IH]; intros P; [reflexivity|].
  cbn [offsets_from cut map].
  assert (Hnext : match offsets_from (zlen P + zlen (padseg sg)) r with
                  | b :: _ => b | [] => zlen (P ++ body (sg :: r)) end = zlen P + zlen (padseg sg)).
  { destruct r as [|sg2 r2]; cbn [offsets_from]; [|reflexivity].
    rewrite body_cons. change (body []) with (@nil Z). rewrite app_nil_r, zlen_app. reflexivity. }
  rewrite Hnext. f_equal.
  - unfold slice. rewrite body_cons.
    replace (Z.to_nat (zlen P)) with (length P) by (unfold zlen; lia).
    replace (Z.to_nat (zlen P + zlen (padseg sg) - zlen P)) with (length (padseg sg)) by (unfold zlen; lia).
    rewrite skipn_length_app, firstn_length_app. reflexivity.
  - rewrite body_cons. rewrite app_assoc. rewrite <- zlen_app. apply IH.
Qed.

Lemma forallb_repeat : forall (f : Z -> bool) x k, f x = true -> forallb f (repeat x k) = true.
Proof. intros f x k H. induction k as [|k IH]; [reflexivity|]. cbn. rewrite H, IH. reflexivity. Qed.

(* ---------------------------------------------------------------- the generic decode theorem *)

Section Decode.
  Variable g : geom.
  Variable src : list Z.
  Variable segs : list (list Z).
  Variable css : list (list chunk).

  Hypothesis Hg : geom_wide g.
  Hypothesis Hsrc : zlen src = frame_len g.
  Hypothesis Hn : length segs = Z.to_nat (nseg g).
  Hypothesis Hcss : length css = length segs.
  (* segment j is some legal packet sequence for plane j *)
  Hypothesis Hseg : forall j, (j < length segs)%nat ->
    nth j segs [] = enc_chunks (nth j css []) /\ Forall chunk_ok (nth j css []) /\
    dat_chunks (nth j css []) = plane g src (Z.of_nat j).
  (* every segment offset fits the 32-bit header field (the encoder's offsetOverflow check) *)
  Hypothesis Hnovf : overflows segs = false.

  Let n := nseg g.
  Let off := seg_off_dec g.
  Let data := stream_of segs.
  Let offs := offsets_from 64 segs.
  Let offs15 := offs ++ repeat 0 (15 - length segs).
  Let fs := frame_size g.
  Let frame' := src ++ (if Z.odd (frame_len g) then [0] else []).

  Lemma n_range : 1 <= n <= 15.
  Proof. unfold n, nseg. destruct Hg as (Hb & Hs & H & _). nia. Qed.

  Lemma npix_pos : 0 < g_npix g.
  Proof. destruct Hg as (_ & _ & _ & H). exact H. Qed.

  Lemma zlen_segs : zlen segs = n.
  Proof. unfold zlen. rewrite Hn. pose proof n_range. fold n. lia. Qed.

  Lemma plane_len : forall s, 0 <= s < n -> zlen (plane g src s) = g_npix g /\
    forall k, 0 <= k < g_npix g -> znth (plane g src s) k 0 = znth src (seg_pos g s + k * off) 0.
  Proof.
    intros s Hs. destruct (plane_fits g src s Hg Hsrc Hs) as [Hfit Hpos].
    pose proof npix_pos as Hnp.
    destruct (stride_spec (Z.to_nat (g_npix g)) (zskip (seg_pos g s) src) off (seg_off_pos g Hg) Hfit) as [Hl Hk].
    unfold plane. fold off. split; [rewrite Hl; lia|].
    intros k Hkr. rewrite Hk by lia. apply znth_zskip; [lia|].
    apply Z.mul_nonneg_nonneg; [lia|]. pose proof (seg_off_pos g Hg). fold off in H. lia.
  Qed.

  Lemma seg_nonempty : forall j, (j < length segs)%nat ->
    nth j css [] <> [] /\ 2 <= zlen (nth j segs []).
  Proof.
    intros j Hj. destruct (Hseg j Hj) as (E & Hok & Hd).
    assert (Hne : nth j css [] <> []).
    { intros Hc. rewrite Hc in Hd. cbn in Hd.
      destruct (plane_len (Z.of_nat j)) as [Hl _]. { fold n. rewrite <- zlen_segs. unfold zlen. lia. }
      rewrite <- Hd, zlen_nil in Hl. pose proof npix_pos. lia. }
    split; [exact Hne|]. rewrite E. apply enc_chunks_len2; assumption.
  Qed.

  Lemma padseg_len : forall sg, zlen sg <= zlen (padseg sg) <= zlen sg + 1.
  Proof.
    intros sg. unfold padseg. rewrite zlen_app. destruct (Z.odd (zlen sg)); [rewrite zlen_cons, zlen_nil|rewrite zlen_nil]; lia.
  Qed.

  Lemma zlen_data : zlen data = 64 + zlen (body segs).
  Proof.
    unfold data, stream_of. rewrite zlen_app, zlen_header; [reflexivity|].
    rewrite zlen_app. unfold zlen. rewrite map_length, offsets_from_length, repeat_length.
    pose proof n_range. fold n in Hn. lia.
  Qed.

  (* offset j = 64 + total length of the earlier padded segments; strictly inside the stream *)
  Lemma off_j : forall j, (j < length segs)%nat ->
    nth j offs 0 = 64 + zlen (body (firstn j segs)) /\
    64 <= nth j offs 0 /\ nth j offs 0 + zlen (padseg (nth j segs [])) <= zlen data.
  Proof.
    intros j Hj. unfold offs. rewrite offsets_from_nth by assumption.
    split; [reflexivity|]. pose proof (zlen_nonneg _ (body (firstn j segs))). split; [lia|].
    rewrite zlen_data. rewrite (body_split segs j Hj), !zlen_app.
    pose proof (zlen_nonneg _ (body (skipn (S j) segs))). lia.
  Qed.

  Lemma offs_in_range : Forall (fun o => 0 <= o < 2 ^ 32 /\ o <= zlen data) offs15.
  Proof.
    unfold offs15. apply Forall_app. split.
    - apply Forall_forall. intros o Ho.
      assert (Ho32 : o <= 4294967295).
      { pose proof Hnovf as Hno. unfold overflows in Hno. fold offs in Hno.
        destruct (Z.gtb_spec o 4294967295) as [Hgt|]; [|assumption].
        assert (existsb (fun o0 => o0 >? 4294967295) offs = true).
        { apply existsb_exists. exists o. split; [assumption|]. destruct (Z.gtb_spec o 4294967295); [reflexivity|lia]. }
        congruence. }
      destruct (In_nth _ _ 0 Ho) as (j & Hj & <-).
      unfold offs in Hj. rewrite offsets_from_length in Hj.
      destruct (off_j j Hj) as (_ & H1 & H2).
      destruct (seg_nonempty j Hj) as [_ H3]. pose proof (padseg_len (nth j segs [])).
      change (2 ^ 32) with 4294967296. lia.
    - apply Forall_forall. intros o Ho. apply repeat_spec in Ho. subst.
      pose proof (zlen_nonneg _ data). change (2 ^ 32) with 4294967296. lia.
  Qed.

  Lemma offs_nowrap : map (wrapU 32) offs = offs.
  Proof.
    pose proof offs_in_range as H. unfold offs15 in H. apply Forall_app in H. destruct H as [H _].
    induction offs as [|o l IH]; [reflexivity|].
    inversion H; subst. cbn [map]. rewrite wrapU32_id by tauto. rewrite IH by assumption. reflexivity.
  Qed.

  Lemma data_eq : data = header n offs15 ++ body segs.
  Proof. unfold data, stream_of. fold offs. rewrite offs_nowrap, zlen_segs. reflexivity. Qed.

  Lemma offs15_length : length offs15 = 15%nat.
  Proof.
    unfold offs15, offs. rewrite app_length, offsets_from_length, repeat_length.
    pose proof n_range. fold n in Hn. lia.
  Qed.

  Definition the_dec : rdec := mkD n offs15 data (zlen data).

  Lemma new_decoder_ok : new_decoder data = Ok the_dec.
  Proof.
    unfold new_decoder. pose proof zlen_data as Hd. pose proof (zlen_nonneg _ (body segs)).
    destruct (Z.ltb_spec (zlen data) 64); [lia|].
    rewrite data_eq at 1. unfold header. rewrite <- !app_assoc. unfold le32 at 1. cbn [app].
    pose proof n_range as Hr.
    rewrite (wrapU32_id n) by (change (2 ^ 32) with 4294967296; lia).
    rewrite le32_value by (change (2 ^ 32) with 4294967296; lia).
    destruct (Z.ltb_spec n 1); [lia|]. destruct (Z.gtb_spec n 15); [lia|]. cbn [orb].
    rewrite <- offs15_length. rewrite read_offsets_ok by apply offs_in_range.
    reflexivity.
  Qed.

  Lemma znth_offs15 : forall s, 0 <= s < n -> znth offs15 s 0 = nth (Z.to_nat s) offs 0.
  Proof.
    intros s Hs. rewrite znth_nth by lia. unfold offs15. apply app_nth1.
    unfold offs. rewrite offsets_from_length, Hn. fold n. lia.
  Qed.

  (* DecodeSegment on segment s: writes plane s at seg_pos s + k*off *)
  Lemma dec_segment_ok : forall s buf, 0 <= s < n -> zlen buf = fs ->
    dec_segment the_dec s buf fs (seg_pos g s) off = Ok (scatter buf (seg_pos g s) off (plane g src s)).
  Proof.
    intros s buf Hs Hbuf. pose proof n_range as Hr.
    set (j := Z.to_nat s). assert (Hj : (j < length segs)%nat) by (rewrite Hn; fold n; unfold j; lia).
    destruct (Hseg j Hj) as (Esg & Hok & Hdat). replace (Z.of_nat j) with s in Hdat by (unfold j; lia).
    destruct (seg_nonempty j Hj) as [Hne Hlen2].
    destruct (off_j j Hj) as (Eoff & Hoff64 & Hoffend).
    unfold dec_segment. cbn [the_dec d_nseg d_offsets d_data d_len].
    destruct (Z.ltb_spec s 0); [lia|]. destruct (Z.geb_spec s n); [lia|]. cbn [orb].
    unfold seg_length, seg_offset. cbn [the_dec d_nseg d_offsets d_data d_len].
    destruct (Z.ltb_spec s 0); [lia|]. destruct (Z.geb_spec s 15); [lia|]. cbn [orb obind].
    rewrite (znth_offs15 s Hs). fold j.
    (* the segment window *)
    assert (Hcnt : (if s <? n - 1
                    then obind (if (s + 1 <? 0) || (s + 1 >=? 15) then Panic else Ok (znth offs15 (s + 1) 0))
                               (fun o1 => Ok (o1 - nth j offs 0))
                    else Ok (zlen data - nth j offs 0))
                   = Ok (zlen (padseg (nth j segs [])))).
    { destruct (Z.ltb_spec s (n - 1)).
      - destruct (Z.ltb_spec (s + 1) 0); [lia|]. destruct (Z.geb_spec (s + 1) 15); [lia|]. cbn [orb obind].
        rewrite znth_offs15 by lia. replace (Z.to_nat (s + 1)) with (S j) by (unfold j; lia).
        assert (Hj1 : (S j < length segs)%nat) by (rewrite Hn; fold n; unfold j; lia).
        destruct (off_j (S j) Hj1) as (E1 & _ & _). rewrite E1, Eoff.
        rewrite (firstn_S_nth _ segs j [] Hj), body_app, zlen_app. unfold body at 2. cbn [map concat].
        rewrite app_nil_r. f_equal. lia.
      - assert (s = n - 1) by lia.
        assert (Hlast : skipn (S j) segs = []).
        { apply skipn_all2. rewrite Hn. fold n. unfold j. lia. }
        rewrite zlen_data, Eoff. rewrite (body_split segs j Hj), Hlast.
        change (body []) with (@nil Z). rewrite app_nil_r, zlen_app. f_equal. lia. }
    rewrite Hcnt. cbn [obind].
    (* the data from the segment offset on *)
    assert (Hskip : zskip (nth j offs 0) data = padseg (nth j segs []) ++ body (skipn (S j) segs)).
    { rewrite data_eq. rewrite (body_split segs j Hj).
      rewrite app_assoc. rewrite Eoff.
      replace (64 + zlen (body (firstn j segs))) with (zlen (header n offs15 ++ body (firstn j segs))).
      - apply zskip_app.
      - rewrite zlen_app, zlen_header; [reflexivity|]. unfold zlen. rewrite offs15_length. reflexivity. }
    rewrite Hskip. unfold padseg at 1. rewrite <- app_assoc. rewrite Esg.
    destruct (plane_len s Hs) as [Hpl _].
    pose proof (seg_pos_range g s (g_npix g - 1) Hg Hs) as Hrange. pose proof npix_pos as Hnp.
    specialize (Hrange ltac:(lia)). fold off in Hrange.
    rewrite (dec_loop_chunks (nth j css [])); try assumption.
    - cbn [obind]. rewrite Hdat. reflexivity.
    - destruct (Z.odd (zlen (enc_chunks (nth j css [])))); [rewrite zlen_cons, zlen_nil|rewrite zlen_nil]; lia.
    - unfold padseg. rewrite zlen_app. lia.
    - pose proof (seg_off_pos g Hg). fold off in H3. lia.
    - rewrite Hdat, Hpl. unfold fs, frame_size. destruct (Z.odd (frame_len g)); lia.
    - (* fuel *)
      assert (zlen (enc_chunks (nth j css [])) <= zlen data).
      { rewrite <- Esg. pose proof (padseg_len (nth j segs [])). lia. }
      unfold zlen in *. lia.
  Qed.

  Definition step (b : list Z) (s : Z) : list Z := scatter b (seg_pos g s) off (plane g src s).

  Lemma dec_segs_run : forall k fuel s buf, Z.of_nat k = n - s -> 0 <= s -> zlen buf = fs -> (k < fuel)%nat ->
    dec_segs fuel g the_dec s buf fs = Ok (fold_left step (zrange s k) buf).
  Proof.
    induction k as [|k IH]; intros fuel s buf Hk Hs Hbuf Hfuel.
    - destruct fuel as [|f]; [lia|]. cbn [dec_segs zrange fold_left]. fold n.
      destruct (Z.ltb_spec s n); [lia|reflexivity].
    - destruct fuel as [|f]; [lia|]. cbn [dec_segs zrange fold_left]. fold n.
      destruct (Z.ltb_spec s n); [|lia]. fold off.
      rewrite dec_segment_ok by (try assumption; lia). cbn [obind].
      apply IH; try lia. unfold step. rewrite zlen_scatter. assumption.
  Qed.

  (* ---- plane assembly ---- *)

  Lemma zlen_frame' : zlen frame' = fs.
  Proof.
    unfold frame', fs, frame_size. rewrite zlen_app, Hsrc.
    destruct (Z.odd (frame_len g)); [rewrite zlen_cons, zlen_nil|rewrite zlen_nil]; lia.
  Qed.

  Definition good (S : Z) (buf : list Z) : Prop :=
    zlen buf = fs /\
    forall i, 0 <= i < fs ->
      znth buf i 0 = znth frame' i 0 \/
      (znth buf i 0 = 0 /\ forall s k, 0 <= s < S -> 0 <= k < g_npix g -> i <> seg_pos g s + k * off).

  Lemma hit_dec : forall pos o m i, 1 <= o ->
    (exists k, 0 <= k < m /\ i = pos + k * o) \/ (forall k, 0 <= k < m -> i <> pos + k * o).
  Proof.
    intros pos o m i Ho.
    destruct (Z.eq_dec ((i - pos) mod o) 0) as [Hm|Hm].
    - destruct (Z_le_gt_dec 0 ((i - pos) / o)) as [H0|H0].
      + destruct (Z_lt_le_dec ((i - pos) / o) m) as [H1|H1].
        * left. exists ((i - pos) / o). split; [lia|].
          pose proof (Z.div_mod (i - pos) o ltac:(lia)). lia.
        * right. intros k Hk ->. replace (pos + k * o - pos) with (k * o) in H1 by lia.
          rewrite Z.div_mul in H1 by lia. lia.
      + right. intros k Hk ->. replace (pos + k * o - pos) with (k * o) in H0 by lia.
        rewrite Z.div_mul in H0 by lia. lia.
    - right. intros k Hk ->. replace (pos + k * o - pos) with (k * o) in Hm by lia.
      rewrite Z.mod_mul in Hm by lia. lia.
  Qed.

  Lemma good_step : forall s buf, 0 <= s < n -> good s buf -> good (s + 1) (step buf s).
  Proof.
    intros s buf Hs [Hlen Hgood]. unfold step. split; [rewrite zlen_scatter; assumption|].
    intros i Hi. destruct (plane_len s Hs) as [Hpl Hpk].
    pose proof (seg_off_pos g Hg) as Hoff. fold off in Hoff.
    pose proof (seg_pos_nonneg g s Hg Hs) as Hpos.
    destruct (hit_dec (seg_pos g s) off (g_npix g) i Hoff) as [(k & Hk & ->)|Hmiss].
    - left. pose proof (seg_pos_range g s k Hg Hs Hk) as Hr. fold off in Hr.
      rewrite scatter_hit; try assumption; try lia.
      + rewrite Hpk by assumption. unfold frame'. rewrite znth_app_l by lia. reflexivity.
    - rewrite scatter_miss; try assumption; try lia.
      + destruct (Hgood i Hi) as [Hl|[Hz Hun]]; [left; assumption|right].
        split; [assumption|]. intros s' k Hs' Hk.
        destruct (Z.eq_dec s' s) as [->|Hne]; [apply Hmiss; assumption|apply Hun; lia].
      + intros k Hk. apply Hmiss. lia.
  Qed.

  Lemma good_run : forall k s buf, Z.of_nat k = n - s -> 0 <= s -> good s buf ->
    good n (fold_left step (zrange s k) buf).
  Proof.
    induction k as [|k IH]; intros s buf Hk Hs Hgood.
    - cbn [zrange fold_left]. replace n with s by lia. assumption.
    - cbn [zrange fold_left]. apply IH; try lia. apply good_step; [lia|assumption].
  Qed.

  Lemma good_init : good 0 (zeros fs).
  Proof.
    assert (0 <= fs).
    { unfold fs, frame_size. pose proof (seg_pos_range g 0 0 Hg) as H. pose proof n_range. pose proof npix_pos.
      fold n in H. specialize (H ltac:(lia) ltac:(lia)). destruct (Z.odd (frame_len g)); lia. }
    split; [apply zlen_zeros; assumption|].
    intros i Hi. right. split; [apply znth_zeros|]. intros; lia.
  Qed.

  Lemma good_final : forall buf, good n buf -> buf = frame'.
  Proof.
    intros buf [Hlen Hgood]. apply znth_ext; [rewrite zlen_frame'; assumption|].
    intros i Hi. rewrite Hlen in Hi. destruct (Hgood i Hi) as [Hl|[Hz Hun]]; [assumption|].
    destruct (Z_lt_le_dec i (frame_len g)) as [Hin|Hout].
    - exfalso. destruct (plane_map_surj g i Hg ltac:(lia)) as (s & k & Hs & Hk & E).
      apply (Hun s k); assumption.
    - rewrite Hz. unfold frame'. rewrite znth_app_r by lia. rewrite Hsrc.
      unfold fs, frame_size in Hi. destruct (Z.odd (frame_len g)).
      + replace (i - frame_len g) with 0 by lia. reflexivity.
      + lia.
  Qed.

  Theorem rle_decode_stream : rle_decode g data = Ok frame'.
  Proof.
    unfold rle_decode, rle_decode_gen. pose proof zlen_data as Hd. pose proof (zlen_nonneg _ (body segs)).
    destruct (Z.eqb_spec (zlen data) 0); [lia|].
    destruct (Z.eqb_spec (g_npix g) 0); [pose proof npix_pos; lia|].
    rewrite new_decoder_ok. cbn [obind the_dec d_nseg andb]. fold n. rewrite Z.eqb_refl. fold fs.
    pose proof n_range.
    rewrite (dec_segs_run (Z.to_nat n) 16 0 (zeros fs)); try lia.
    - f_equal. apply good_final. apply good_run; [lia|lia|apply good_init].
    - destruct good_init as [H1 _]. exact H1.
  Qed.

  (* ---- the stream as Annex G sees it ---- *)

  Lemma words_data : words 16 data = n :: offs15.
  Proof.
    rewrite data_eq. unfold header.
    change (le32 (wrapU 32 n) ++ flat_map le32 offs15) with (flat_map le32 (wrapU 32 n :: offs15)).
    replace 16%nat with (length (wrapU 32 n :: offs15)) by (cbn [length]; rewrite offs15_length; reflexivity).
    pose proof n_range as Hr.
    rewrite words_flat.
    - rewrite wrapU32_id by (change (2 ^ 32) with 4294967296; lia). reflexivity.
    - constructor.
      + rewrite wrapU32_id by (change (2 ^ 32) with 4294967296; lia). change (2 ^ 32) with 4294967296; lia.
      + eapply Forall_impl; [|apply offs_in_range]. cbv beta. intros a Ha. tauto.
  Qed.

  Lemma used_offsets : firstn (Z.to_nat n) (tl (words 16 data)) = offs
                       /\ skipn (Z.to_nat n) (tl (words 16 data)) = repeat 0 (15 - length segs).
  Proof.
    rewrite words_data. cbn [tl]. unfold offs15.
    assert (Hl : length offs = Z.to_nat n) by (unfold offs; rewrite offsets_from_length; exact Hn).
    rewrite <- Hl. split; [apply firstn_length_app|apply skipn_length_app].
  Qed.

  Theorem stream_valid : annexG_valid n data = true.
  Proof.
    unfold annexG_valid. destruct used_offsets as [Hu Hun]. rewrite Hu, Hun. rewrite words_data.
    pose proof n_range as Hr. pose proof zlen_data as Hd. pose proof (zlen_nonneg _ (body segs)).
    assert (Hev : Z.even (zlen data) = true).
    { rewrite Hd, Z.even_add, zlen_body_even. reflexivity. }
    rewrite Hev. destruct (Z.leb_spec 64 (zlen data)); [|lia].
    cbn [length hd]. rewrite offs15_length. cbn [Nat.eqb].
    destruct (Z.leb_spec 1 n); [|lia]. destruct (Z.leb_spec n 15); [|lia]. rewrite Z.eqb_refl.
    cbn [andb].
    (* first offset *)
    assert (Hhd : hd 0 offs = 64).
    { unfold offs. destruct segs as [|sg r]; [cbn in Hn; lia|reflexivity]. }
    rewrite Hhd, Z.eqb_refl. cbn [andb].
    (* per-offset facts *)
    assert (Hall : forall o, In o offs -> Z.even o = true /\ o < zlen data).
    { intros o Ho. destruct (In_nth _ _ 0 Ho) as (j & Hj & <-).
      unfold offs in Hj. rewrite offsets_from_length in Hj.
      destruct (off_j j Hj) as (E & Ho1 & Ho2). destruct (seg_nonempty j Hj) as [_ Ho3].
      pose proof (padseg_len (nth j segs [])). split; [|lia].
      rewrite E, Z.even_add, zlen_body_even. reflexivity. }
    assert (Hf1 : forallb Z.even offs = true) by (apply forallb_forall; intros o Ho; apply Hall; assumption).
    assert (Hf2 : forallb (fun o => o <? zlen data) offs = true).
    { apply forallb_forall. intros o Ho. destruct (Hall o Ho) as [_ Hlt]. destruct (Z.ltb_spec o (zlen data)); [reflexivity|lia]. }
    assert (Hf3 : ascending offs = true).
    { unfold offs. apply ascending_offsets_from. apply Forall_forall. intros sg Hsg.
      destruct (In_nth _ _ [] Hsg) as (j & Hj & <-). destruct (seg_nonempty j Hj) as [_ H3].
      pose proof (padseg_len (nth j segs [])). lia. }
    rewrite Hf1, Hf2, Hf3. cbn [andb].
    apply forallb_repeat. reflexivity.
  Qed.

  Lemma stream_segments : segments n data = map padseg segs.
  Proof.
    unfold segments. destruct used_offsets as [Hu _]. rewrite Hu.
    rewrite data_eq. unfold offs.
    replace 64 with (zlen (header n offs15)) by (apply zlen_header; unfold zlen; rewrite offs15_length; reflexivity).
    apply cut_offsets.
  Qed.

  (* the independent Annex G reader recovers plane s from segment s of the stream *)
  Theorem stream_planes : forall s, 0 <= s < n ->
    packbits_n (g_npix g) (nth (Z.to_nat s) (segments n data) []) = Some (plane g src s).
  Proof.
    intros s Hs. rewrite stream_segments.
    set (j := Z.to_nat s). assert (Hj : (j < length segs)%nat) by (rewrite Hn; fold n; unfold j; lia).
    change (@nil Z) with (padseg []) at 1. rewrite map_nth.
    destruct (Hseg j Hj) as (Esg & Hok & Hdat). replace (Z.of_nat j) with s in Hdat by (unfold j; lia).
    destruct (plane_len s Hs) as [Hpl _].
    unfold padseg. rewrite Esg. rewrite <- Hpl, <- Hdat. apply packbits_n_chunks. exact Hok.
  Qed.
End Decode.
