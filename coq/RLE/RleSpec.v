(* EXTRACT *)
(* Independent specification of the DICOM RLE format, written from DICOM PS3.5 Annex G
   (G.3.2 "The RLE decoder", G.4 "Organization of RLE compressed frame", G.5 "RLE header
   format"), not from the Go code. Imports only Common.Base.

   G.3.2:  Loop until the number of output bytes equals the uncompressed segment size
             Read the next source byte into n
             If n >= 0 and n <= 127 then output the next n+1 bytes literally
             Elseif n <= -1 and n >= -127 then output the next byte -n+1 times
             Elseif n = -128 then output nothing
           Endloop
   Bytes are Z in [0,256); n as a signed byte is (if b < 128 then b else b - 256), so
   -n+1 = 257 - b for b in 129..255. *)
From V Require Import Common.Base.

(* strict reader: the whole input must be a sequence of complete packets *)
Fixpoint packbits_fuel (fuel : nat) (l : list Z) : option (list Z) :=
  match l with
  | [] => Some []
  | n :: rest =>
    match fuel with
    | O => None
    | S f =>
      if (0 <=? n) && (n <=? 127) then
        let k := Z.to_nat (n + 1) in
        let lit := firstn k rest in
        if (length lit <? k)%nat then None
        else option_map (app lit) (packbits_fuel f (skipn k rest))
      else if (129 <=? n) && (n <=? 255) then
        match rest with
        | [] => None
        | b :: rest' => option_map (app (repeat b (Z.to_nat (257 - n)))) (packbits_fuel f rest')
        end
      else if n =? 128 then packbits_fuel f rest
      else None
    end
  end.
Definition packbits (l : list Z) : option (list Z) := packbits_fuel (length l) l.

(* G.3.2 reader proper: stops when `need` bytes have been output; whatever follows (the
   padding to an even segment length) is not read. A packet running past the uncompressed
   segment size is malformed. *)
Fixpoint packbits_n_fuel (fuel : nat) (need : Z) (l : list Z) : option (list Z) :=
  if need <=? 0 then Some []
  else
    match fuel with
    | O => None
    | S f =>
      match l with
      | [] => None
      | n :: rest =>
        if (0 <=? n) && (n <=? 127) then
          let k := Z.to_nat (n + 1) in
          let lit := firstn k rest in
          if (length lit <? k)%nat then None
          else if need <? n + 1 then None
          else option_map (app lit) (packbits_n_fuel f (need - (n + 1)) (skipn k rest))
        else if (129 <=? n) && (n <=? 255) then
          match rest with
          | [] => None
          | b :: rest' =>
            if need <? 257 - n then None
            else option_map (app (repeat b (Z.to_nat (257 - n))))
                            (packbits_n_fuel f (need - (257 - n)) rest')
          end
        else if n =? 128 then packbits_n_fuel f need rest
        else None
      end
    end.
Definition packbits_n (need : Z) (l : list Z) : option (list Z) :=
  packbits_n_fuel (length l) need l.

(* G.5 header: 16 little-endian 32-bit words *)
Fixpoint words (n : nat) (l : list Z) : list Z :=
  match n with
  | O => []
  | S k =>
    match l with
    | a :: b :: c :: d :: r => (a + 256 * b + 65536 * c + 16777216 * d) :: words k r
    | _ => []
    end
  end.

Fixpoint ascending (l : list Z) : bool :=
  match l with
  | a :: (b :: _) as t => (a <? b) && ascending t
  | _ => true
  end.

(* G.4/G.5: even length; 64-byte header; word 0 = number of segments = expected planes
   (1..15); word 1 = 64; used offsets even, strictly ascending, inside the stream; unused
   offsets zero. *)
Definition annexG_valid (planes : Z) (s : list Z) : bool :=
  let len := zlen s in
  let ws := words 16 s in
  let used := firstn (Z.to_nat planes) (tl ws) in
  let unused := skipn (Z.to_nat planes) (tl ws) in
  Z.even len && (64 <=? len) && (length ws =? 16)%nat
  && (1 <=? planes) && (planes <=? 15)
  && (hd 0 ws =? planes)
  && (hd 0 used =? 64)
  && forallb Z.even used
  && ascending used
  && forallb (fun o => o <? len) used
  && forallb (fun o => o =? 0) unused.

Definition slice (l : list Z) (a b : Z) : list Z :=
  firstn (Z.to_nat (b - a)) (skipn (Z.to_nat a) l).

Fixpoint cut (s : list Z) (len : Z) (offs : list Z) : list (list Z) :=
  match offs with
  | [] => []
  | a :: t => slice s a (match t with b :: _ => b | [] => len end) :: cut s len t
  end.

(* the segments of a stream with `planes` segments (each includes its padding) *)
Definition segments (planes : Z) (s : list Z) : list (list Z) :=
  cut s (zlen s) (firstn (Z.to_nat planes) (tl (words 16 s))).
