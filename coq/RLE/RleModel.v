(* EXTRACT *)
(* Model of /repo/rle/rle.go (DICOM RLE Lossless): rleEncoder (Encode / Flush / NextSegment /
   MakeEvenLength / GetBuffer), encodeFrame, newRLEDecoder, getSegmentLength, decode,
   decodeFrame.  Definitions only.

   Representation choices (all observationally exact):
   * tempBuffer[0:bufferPos] is the list c_tmp (bytes beyond bufferPos are never read);
     the theorem enc_tmp_bound (RleEncProofs) states the guard bufferPos <= 130 < 132.
   * bytes.Buffer is append-only: every step returns the bytes it appends ("emission");
     the frame-level state e_buf is the whole buffer including the 64 placeholder bytes
     that GetBuffer overwrites with the header.
   * src[pos] / rleData[i] with a moving index are modelled by walking the remaining
     list (zskip), so "pos >= len(src)" is "remaining list empty".
   * decode writes buffer[start + k*sampleOffset] for k = 0,1,2,...; the model returns the
     written bytes in order and scatter puts them in place (dec_loop_in_range in
     RleDecProofs states that every such write is inside the buffer, i.e. no index panic). *)
From V Require Import Common.Base.

Definition byte (x : Z) : Z := wrapU 8 x.            (* Go byte(x) *)

Fixpoint zskip {A} (k : Z) (l : list A) : list A :=  (* l[k:] ; [] when k >= len *)
  match l with
  | [] => []
  | _ :: l' => if k <=? 0 then l else zskip (k - 1) l'
  end.

Fixpoint upd (l : list Z) (i : Z) (v : Z) : list Z :=
  match l with
  | [] => []
  | x :: l' => if i =? 0 then v :: l' else x :: upd l' (i - 1) v
  end.

Definition zeros (n : Z) : list Z := Z.iter n (cons 0) [].

(* ------------------------------------------------------------------ encoder core *)

Record cst := mkC { c_tmp : list Z; c_prev : Z; c_rep : Z }.
Definition c_init : cst := mkC [] (-1) 0.

(* count := min(128, bufferPos); WriteByte(count-1); Write(tmp[:count]); shift *)
Definition lit_packet (tmp : list Z) : list Z * list Z :=
  let count := Z.min 128 (zlen tmp) in
  (byte (count - 1) :: firstn (Z.to_nat count) tmp, skipn (Z.to_nat count) tmp).

(* for e.bufferPos > thr { literal packet }   (thr = 0 or 128) ; fuel = bufferPos *)
Fixpoint emit_lits_while (fuel : nat) (thr : Z) (tmp : list Z) : list Z * list Z :=
  match fuel with
  | O => ([], tmp)
  | S f =>
    if zlen tmp >? thr then
      let (o, tmp') := lit_packet tmp in
      let (o', tmp'') := emit_lits_while f thr tmp' in (o ++ o', tmp'')
    else ([], tmp)
  end.

(* for e.repeatCnt > 0 { count := min(rep,128); WriteByte(257-count); WriteByte(prev); rep -= count } *)
Fixpoint emit_reps (fuel : nat) (prev rep : Z) : list Z * Z :=
  match fuel with
  | O => ([], rep)
  | S f =>
    if rep >? 0 then
      let count := Z.min rep 128 in
      let (o', r') := emit_reps f prev (rep - count) in
      (byte (257 - count) :: byte prev :: o', r')
    else ([], rep)
  end.

(* rleEncoder.Encode(b): returns (bytes appended to buffer, new state) *)
Definition enc_byte (c : cst) (b : Z) : list Z * cst :=
  let tmp := c_tmp c in let prev := c_prev c in
  if b =? prev then
    let rep := c_rep c + 1 in
    if (rep >? 2) && (zlen tmp >? 0) then
      let (o, tmp') := emit_lits_while (length tmp) 0 tmp in (o, mkC tmp' prev rep)
    else if rep >? 128 then
      let count := Z.min rep 128 in
      ([byte (257 - count); byte prev], mkC tmp prev (rep - count))
    else ([], mkC tmp prev rep)
  else
    let rep := c_rep c in
    let '(o1, tmp1) :=
      if rep =? 0 then ([], tmp)
      else if rep =? 1 then ([], tmp ++ [byte prev])
      else if rep =? 2 then ([], tmp ++ [byte prev; byte prev])
      else (fst (emit_reps (Z.to_nat rep) prev rep), tmp) in
    let (o2, tmp2) := emit_lits_while (length tmp1) 128 tmp1 in
    (o1 ++ o2, mkC tmp2 b 1).

(* rleEncoder.Flush() *)
Definition enc_flush (c : cst) : list Z * cst :=
  let tmp := c_tmp c in let prev := c_prev c in let rep := c_rep c in
  (* if rep < 2 { for rep > 0 { push prev; rep-- } }  : at most one iteration *)
  let '(tmp1, rep1) :=
    if rep <? 2 then (if rep >? 0 then (tmp ++ [byte prev], rep - 1) else (tmp, rep))
    else (tmp, rep) in
  let (o1, _) := emit_lits_while (length tmp1) 0 tmp1 in
  let o2 := if rep1 >=? 2 then fst (emit_reps (Z.to_nat rep1) prev rep1) else [] in
  (o1 ++ o2, c_init).

Fixpoint enc_bytes (c : cst) (l : list Z) : list Z * cst :=
  match l with
  | [] => ([], c)
  | b :: l' =>
    let (o, c') := enc_byte c b in
    let (o', c'') := enc_bytes c' l' in (o ++ o', c'')
  end.

(* one whole plane: Encode every byte, then Flush (no padding) *)
Definition encode_segment (l : list Z) : list Z :=
  let (o, c) := enc_bytes c_init l in o ++ fst (enc_flush c).

(* ------------------------------------------------------------------ encoder frame level *)

Record geom := mkG { g_ba : Z; g_spp : Z; g_planar : bool; g_npix : Z }.
Definition nseg (g : geom) : Z := g_ba g * g_spp g.
Definition frame_len (g : geom) : Z := g_ba g * g_spp g * g_npix g.

(* sample := s / ba ; sabyte := s % ba ; pos (+= ba - sabyte - 1) *)
Definition seg_pos (g : geom) (s : Z) : Z :=
  let sample := Z.quot s (g_ba g) in
  let sabyte := Z.rem s (g_ba g) in
  (if g_planar g then sample * g_ba g * g_npix g else sample * g_ba g)
  + (g_ba g - sabyte - 1).
Definition seg_off_enc (g : geom) : Z := if g_planar g then g_ba g else nseg g.
Definition seg_off_dec (g : geom) : Z := if g_planar g then g_ba g else g_spp g * g_ba g.

Definition le32 (x : Z) : list Z :=
  [x mod 256; (x / 256) mod 256; (x / 65536) mod 256; (x / 16777216) mod 256].
Definition header (count : Z) (offs : list Z) : list Z :=
  le32 (wrapU 32 count) ++ flat_map le32 offs.

(* e_ovf = rleEncoder.offsetOverflow *)
Record est := mkE { e_count : Z; e_offsets : list Z; e_buf : list Z; e_c : cst; e_ovf : bool }.
Definition e_init : est := mkE 0 (repeat 0 15) (repeat 0 64) c_init false.

Definition est_flush (st : est) : est :=
  let (o, c') := enc_flush (e_c st) in
  mkE (e_count st) (e_offsets st) (e_buf st ++ o) c' (e_ovf st).
Definition pad_even (buf : list Z) : list Z :=
  if Z.odd (zlen buf) then buf ++ [0] else buf.
(* NextSegment: Flush; pad; if uint64(Len) > math.MaxUint32 { offsetOverflow = true };
   offsets[count] = uint32(Len) (index panic if count >= 15); count++ *)
Definition next_segment (st : est) : outcome est :=
  let st1 := est_flush st in
  let buf := pad_even (e_buf st1) in
  if (e_count st1 <? 0) || (e_count st1 >=? 15) then Panic
  else Ok (mkE (e_count st1 + 1) (upd (e_offsets st1) (e_count st1) (wrapU 32 (zlen buf)))
               buf (e_c st1) (e_ovf st1 || (zlen buf >? 4294967295))).
Definition make_even (st : est) : est :=
  mkE (e_count st) (e_offsets st) (pad_even (e_buf st)) (e_c st) (e_ovf st).
Definition get_buffer (st : est) : list Z :=
  let st1 := est_flush st in
  header (e_count st1) (e_offsets st1) ++ zskip 64 (e_buf st1).

(* for p := 0; p < pixelCount; p++ { if pos >= len(src) {error}; Encode(src[pos]); pos += offset }
   rest = src[pos:], n = pixels still to do. fuel = len(src)+1. *)
Fixpoint enc_plane (fuel : nat) (rest : list Z) (off n : Z) (c : cst) : outcome (list Z * cst) :=
  match fuel with
  | O => OutOfFuel
  | S f =>
    if n <=? 0 then Ok ([], c)
    else match rest with
         | [] => Err
         | b :: _ =>
           let (o, c') := enc_byte c b in
           match enc_plane f (zskip off rest) off (n - 1) c' with
           | Ok (o', c'') => Ok (o ++ o', c'')
           | Err => Err | Panic => Panic | OutOfFuel => OutOfFuel
           end
         end
  end.

Fixpoint enc_segs (fuel : nat) (g : geom) (src : list Z) (s : Z) (st : est) : outcome est :=
  match fuel with
  | O => OutOfFuel
  | S f =>
    if s <? nseg g then
      obind (next_segment st) (fun st1 =>
        obind (enc_plane (S (length src)) (zskip (seg_pos g s) src) (seg_off_enc g) (g_npix g) (e_c st1))
          (fun oc =>
             let st2 := est_flush (mkE (e_count st1) (e_offsets st1) (e_buf st1 ++ fst oc) (snd oc) (e_ovf st1)) in
             enc_segs f g src (s + 1) st2))
    else Ok st
  end.

(* encodeFrame at geometry level. Checks as coded: len(src) == 0; Width == 0 || Height == 0
   (npix = Width*Height = 0 for uint16 fields); numberOfSegments outside 1..15. (BitsAllocated
   == 0 is a FrameInfo-level check: rle_encode_frame.) fuel 16 >= 15 segments + 1. After the
   segment loop: if encoder.offsetOverflow { return error }. *)
Definition rle_encode (g : geom) (src : list Z) : outcome (list Z) :=
  if zlen src =? 0 then Err
  else if g_npix g =? 0 then Err
  else if (nseg g <? 1) || (nseg g >? 15) then Err
  else obind (enc_segs 16 g src 0 e_init) (fun st =>
         if e_ovf st then Err else Ok (get_buffer (make_even st))).

(* ------------------------------------------------------------------ decoder *)

Record rdec := mkD { d_nseg : Z; d_offsets : list Z; d_data : list Z; d_len : Z }.

Fixpoint read_offsets (fuel : nat) (i : Z) (rest : list Z) (n dlen : Z) : outcome (list Z) :=
  match fuel with
  | O => Ok []
  | S f =>
    match rest with
    | a :: b :: c :: d :: rest' =>
      let off := a + 256 * b + 65536 * c + 16777216 * d in
      if (i <? n) && (off >? dlen) then Err
      else obind (read_offsets f (i + 1) rest' n dlen) (fun t => Ok (off :: t))
    | _ => Err
    end
  end.

Definition new_decoder (data : list Z) : outcome rdec :=
  let dlen := zlen data in
  if dlen <? 64 then Err
  else match data with
       | a :: b :: c :: d :: rest =>
         let n := a + 256 * b + 65536 * c + 16777216 * d in
         if (n <? 1) || (n >? 15) then Err
         else obind (read_offsets 15 0 rest n dlen) (fun offs => Ok (mkD n offs data dlen))
       | _ => Err
       end.

(* d.offsets[segment] : [15]int index *)
Definition seg_offset (d : rdec) (s : Z) : outcome Z :=
  if (s <? 0) || (s >=? 15) then Panic else Ok (znth (d_offsets d) s 0).
Definition seg_length (d : rdec) (s : Z) : outcome Z :=
  obind (seg_offset d s) (fun o =>
    if s <? d_nseg d - 1 then obind (seg_offset d (s + 1)) (fun o1 => Ok (o1 - o))
    else Ok (d_len d - o)).

(* rleDecoder.decode: rest = rleData[i:], e = end, blen = len(buffer).
   Result: the bytes written, in order, to buffer[start], buffer[start+off], ...
   fuel = len(rleData)+1 (every iteration consumes at least one byte). *)
Fixpoint dec_loop (fuel : nat) (rest : list Z) (i e pos off blen : Z) : outcome (list Z) :=
  match fuel with
  | O => OutOfFuel
  | S f =>
    if (i <? e) && (pos <? blen) then
      match rest with
      | [] => Ok []                                     (* i >= len(rleData): break *)
      | cb :: rest1 =>
        let i1 := i + 1 in
        if cb <? 128 then                               (* control >= 0 *)
          let len := cb + 1 in
          if e - i1 <? len then Err
          else if pos + (len - 1) * off >=? blen then Err
          else
            let lit := firstn (Z.to_nat len) rest1 in
            if zlen lit <? len then Panic               (* rleData[i:i+length] out of range *)
            else
              let i2 := i1 + len in
              if i2 + 1 >=? e then Ok lit
              else obind (dec_loop f (skipn (Z.to_nat len) rest1) i2 e (pos + len * off) off blen)
                         (fun w => Ok (lit ++ w))
        else if cb >=? 129 then                         (* control >= -127 *)
          let len := 257 - cb in
          if pos + (len - 1) * off >=? blen then Err
          else match rest1 with
               | [] => Err                              (* i >= len(rleData): ErrUnexpectedEOF *)
               | b :: rest2 =>
                 if i1 >=? e then Err
                 else
                   let i2 := i1 + 1 in
                   let w0 := repeat b (Z.to_nat len) in
                   if i2 + 1 >=? e then Ok w0
                   else obind (dec_loop f rest2 i2 e (pos + len * off) off blen)
                              (fun w => Ok (w0 ++ w))
               end
        else                                            (* control == -128: nothing *)
          if i1 + 1 >=? e then Ok []
          else dec_loop f rest1 i1 e pos off blen
      end
    else Ok []
  end.

(* put w[0], w[1], ... at buf[skip], buf[skip+off], ... *)
Fixpoint scatter (buf : list Z) (skip off : Z) (w : list Z) : list Z :=
  match buf with
  | [] => []
  | x :: buf' =>
    match w with
    | [] => buf
    | b :: w' =>
      if skip <=? 0 then b :: scatter buf' (off - 1) off w'
      else x :: scatter buf' (skip - 1) off w
    end
  end.

(* DecodeSegment(s, buffer, start, sampleOffset) *)
Definition dec_segment (d : rdec) (s : Z) (buf : list Z) (blen start off : Z) : outcome (list Z) :=
  if (s <? 0) || (s >=? d_nseg d) then Err
  else
    obind (seg_offset d s) (fun o =>
    obind (seg_length d s) (fun cnt =>
    obind (dec_loop (S (length (d_data d))) (zskip o (d_data d)) o (o + cnt) start off blen)
      (fun w => Ok (scatter buf start off w)))).

Fixpoint dec_segs (fuel : nat) (g : geom) (d : rdec) (s : Z) (buf : list Z) (blen : Z) : outcome (list Z) :=
  match fuel with
  | O => OutOfFuel
  | S f =>
    if s <? nseg g then
      obind (dec_segment d s buf blen (seg_pos g s) (seg_off_dec g))
            (fun buf' => dec_segs f g d (s + 1) buf' blen)
    else Ok buf
  end.

Definition frame_size (g : geom) : Z :=
  let fs := frame_len g in if Z.odd fs then fs + 1 else fs.

Definition max_alloc : Z := 2 ^ 48.

(* decodeFrame at geometry level, in the order of the code: len(src) == 0; Width == 0 ||
   Height == 0 (npix = 0); newRLEDecoder; segment count against the description; only then
   frameSize and make([]byte, frameSize). chk = true models the allocation faithfully:
   runtime.makeslice panics ("len out of range") iff the size exceeds maxAlloc = 2^48 on
   linux/amd64 (rle_alloc_bound in RleSafeProofs: unreachable for uint16 FrameInfo).
   chk = false is the clean model for geometries with npix an arbitrary positive Z.
   fuel 16: the segment count equals the header value, which is at most 15. *)
Definition rle_decode_gen (chk : bool) (g : geom) (data : list Z) : outcome (list Z) :=
  if zlen data =? 0 then Err
  else if g_npix g =? 0 then Err
  else
    obind (new_decoder data) (fun d =>
      if d_nseg d =? nseg g then
        let fs := frame_size g in
        if chk && (fs >? max_alloc) then Panic
        else dec_segs 16 g d 0 (zeros fs) fs
      else Err).

Definition rle_decode (g : geom) (data : list Z) : outcome (list Z) := rle_decode_gen false g data.

(* ------------------------------------------------------------------ arbitrary FrameInfo *)
(* imagetypes.FrameInfo: all fields uint16 (values in [0,65536)). *)
Record frameinfo := mkFI { fi_width : Z; fi_height : Z; fi_bits : Z; fi_spp : Z; fi_planarconf : Z }.

(* int((info.BitsAllocated-1)/8 + 1) in uint16 arithmetic (BitsAllocated = 0 would give 8192;
   it is rejected before) *)
Definition fi_ba (fi : frameinfo) : Z := wrapU 16 (wrapU 16 (fi_bits fi - 1) / 8 + 1).
Definition fi_geom (fi : frameinfo) : geom :=
  mkG (fi_ba fi) (fi_spp fi) (negb (fi_planarconf fi =? 0)) (fi_width fi * fi_height fi).

(* the checks on the description that precede everything else in both directions *)
Definition fi_rejected (fi : frameinfo) : bool :=
  (fi_width fi =? 0) || (fi_height fi =? 0) || (fi_bits fi =? 0).

Definition rle_decode_frame (fi : frameinfo) (data : list Z) : outcome (list Z) :=
  if zlen data =? 0 then Err
  else if fi_rejected fi then Err
  else rle_decode_gen true (fi_geom fi) data.

Definition rle_encode_frame (fi : frameinfo) (src : list Z) : outcome (list Z) :=
  if zlen src =? 0 then Err
  else if fi_rejected fi then Err
  else rle_encode (fi_geom fi) src.

(* the size passed to make([]byte, .) by decodeFrame, when it gets that far *)
Definition rle_decode_alloc (fi : frameinfo) (data : list Z) : option Z :=
  if zlen data =? 0 then None
  else if fi_rejected fi then None
  else match new_decoder data with
       | Ok d => if d_nseg d =? nseg (fi_geom fi) then Some (frame_size (fi_geom fi)) else None
       | _ => None
       end.

(* outcome class of the steps before the first segment is decoded *)
Definition rle_decode_frame_prefix (fi : frameinfo) (data : list Z) : outcome unit :=
  if zlen data =? 0 then Err
  else if fi_rejected fi then Err
  else obind (new_decoder data) (fun d =>
         if d_nseg d =? nseg (fi_geom fi) then
           (if frame_size (fi_geom fi) >? max_alloc then Panic else Ok tt)
         else Err).
