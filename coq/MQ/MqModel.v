(* EXTRACT *)
(* Model of /repo/jpeg2000/mqc/encoder.go (MQEncoder) and mqc.go (MQDecoder, raw decoder).

   Encoder buffer.  Go: `buffer []byte` with a dummy byte at index 0, `start = 1`, `bp` = index
   of the byte that may still receive a carry (MQ mode) or of the next byte to write (bypass
   mode, after Flush).  The buffer never shrinks while bp moves both ways (RestartInitEnc,
   BypassFlushEnc), so stale bytes above bp stay in the slice.  The model keeps the slice as a
   zipper: e_pre = buffer[0..bp-1] REVERSED (head = buffer[bp-1]), e_post = buffer[bp..len-1]
   (head = buffer[bp]);  bp = length e_pre, len(buffer) = length e_pre + length e_post.
   `ensureIndex(idx)` is only ever called with idx <= len(buffer) and extends by zero bytes.

   Registers a, c are uint32 (every operation that could wrap is written with u32), ct is a
   Go int.  Contexts are the Go bytes  state | mps<<7.

   Table and context accesses use a default where Go would panic (context index out of range,
   state >= 47 after SetContextState); the script interpreter `enc_run` and the decoder entry
   points check those guards explicitly and return Panic, and the theorems state them. *)
From V Require Import Common.Base.
Require V.Gen.MQTables_gen.

(* uint32(x) / uint8(x).  Written as a mask, which is the same function as Base.wrapU 32 / 8
   for every integer (MqProofs.u32_wrapU, u8_wrapU) and much cheaper to evaluate. *)
Definition u32 (x : Z) : Z := Z.land x 0xFFFFFFFF.
Definition u8 (x : Z) : Z := Z.land x 0xFF.

(* Go: x << uint(n) on uint32 with n an int: a negative n converts to a huge uint, and a shift
   count >= 32 yields 0. *)
Definition shl32 (x n : Z) : Z :=
  if (0 <=? n) && (n <? 32) then u32 (Z.shiftl x n) else 0.

(* ---------- tables (regenerated from mqc.go) ---------- *)
Definition mq_nstates : Z := 47.
Definition tbl_qe (s : Z) : Z := znth MQTables_gen.mq_qe s 0.
Definition tbl_nmps (s : Z) : Z := znth MQTables_gen.mq_nmps s 0.
Definition tbl_nlps (s : Z) : Z := znth MQTables_gen.mq_nlps s 0.
Definition tbl_switch (s : Z) : Z := znth MQTables_gen.mq_switch s 0.

(* ---------- context bytes ---------- *)
Definition cx_state (b : Z) : Z := Z.land b 127.           (* cx & 0x7F *)
Definition cx_mps (b : Z) : Z := Z.shiftr b 7.             (* int( cx >> 7 ) *)
Definition mk_cx (s m : Z) : Z := Z.lor s (u8 (Z.shiftl (u8 m) 7)).  (* s | uint8(m)<<7 *)

Fixpoint upd_nat (l : list Z) (n : nat) (v : Z) : list Z :=
  match l, n with
  | [], _ => []
  | _ :: t, O => v :: t
  | x :: t, S k => x :: upd_nat t k v
  end.
Definition upd (l : list Z) (i v : Z) : list Z :=
  if i <? 0 then l else upd_nat l (Z.to_nat i) v.

(* state after an MPS / LPS update of context byte cxv *)
Definition cx_after_mps (cxv : Z) : Z := mk_cx (tbl_nmps (cx_state cxv)) (cx_mps cxv).
Definition cx_after_lps (cxv : Z) : Z :=
  let st := cx_state cxv in let mps := cx_mps cxv in
  mk_cx (tbl_nlps st) (if tbl_switch st =? 1 then 1 - mps else mps).

(* =====================================================================================
   Encoder
   ===================================================================================== *)
Record enc : Type := mkEnc {
  e_a : Z; e_c : Z; e_ct : Z;
  e_pre : list Z;      (* buffer[0..bp-1], reversed *)
  e_post : list Z;     (* buffer[bp..] *)
  e_cx : list Z }.

Definition bypass_ct_init : Z := 0xDEADBEEF.

(* NewMQEncoder(n): buffer = [0] (len 1), bp = 0 *)
Definition enc_new_cx (cx : list Z) : enc := mkEnc 0x8000 0 12 [] [0] cx.
Definition enc_new (n : nat) : enc := enc_new_cx (zrepeat_nat 0 n).

Definition enc_bp (e : enc) : Z := zlen (e_pre e).
Definition enc_buflen (e : enc) : Z := zlen (e_pre e) + zlen (e_post e).

(* byteout.  `last` = buffer[bp] (after the leading ensureIndex(bp), which only matters when
   bp = len(buffer)); "bp++; ensureIndex(bp); buffer[bp] = v" pushes last onto e_pre and
   overwrites / creates the next cell. *)
Definition enc_byteout (e : enc) : enc :=
  let post0 := match e_post e with [] => [0] | _ => e_post e end in
  match post0 with
  | [] => e (* unreachable *)
  | last :: rest =>
    let c := e_c e in
    if last =? 0xFF then
      mkEnc (e_a e) (Z.land c 0xFFFFF) 7 (last :: e_pre e) (u8 (Z.shiftr c 20) :: tl rest) (e_cx e)
    else if Z.land c 0x8000000 =? 0 then
      mkEnc (e_a e) (Z.land c 0x7FFFF) 8 (last :: e_pre e) (u8 (Z.shiftr c 19) :: tl rest) (e_cx e)
    else
      let last1 := u8 (last + 1) in
      if last1 =? 0xFF then
        let c1 := Z.land c 0x7FFFFFF in
        mkEnc (e_a e) (Z.land c1 0xFFFFF) 7 (last1 :: e_pre e) (u8 (Z.shiftr c1 20) :: tl rest) (e_cx e)
      else
        mkEnc (e_a e) (Z.land c 0x7FFFF) 8 (last1 :: e_pre e) (u8 (Z.shiftr c 19) :: tl rest) (e_cx e)
  end.

(* renorme: for a < 0x8000 { a <<= 1; c <<= 1; ct--; if ct == 0 { byteout } }.
   Fuel 16: from 1 <= a < 0x8000 at most 15 doublings are needed.  Running out of fuel is
   visible as e_a < 0x8000 in the result; the invariant theorems exclude it. *)
Fixpoint enc_renorme_fuel (fuel : nat) (e : enc) : enc :=
  match fuel with
  | O => e
  | S k =>
    if e_a e <? 0x8000 then
      let e1 := mkEnc (u32 (Z.shiftl (e_a e) 1)) (u32 (Z.shiftl (e_c e) 1)) (e_ct e - 1)
                      (e_pre e) (e_post e) (e_cx e) in
      enc_renorme_fuel k (if e_ct e1 =? 0 then enc_byteout e1 else e1)
    else e
  end.
Definition enc_renorme (e : enc) : enc := enc_renorme_fuel 16 e.

Definition enc_set_acx (e : enc) (a c : Z) (cx : list Z) : enc :=
  mkEnc a c (e_ct e) (e_pre e) (e_post e) cx.

(* Encode(bit, contextID) *)
Definition enc_encode (e : enc) (bit ctx : Z) : enc :=
  let cxv := znth (e_cx e) ctx 0 in
  let st := cx_state cxv in
  let mps := cx_mps cxv in
  let qe := tbl_qe st in
  let a1 := u32 (e_a e - qe) in
  if bit =? mps then
    if Z.land a1 0x8000 =? 0 then
      let cx' := upd (e_cx e) ctx (cx_after_mps cxv) in
      if a1 <? qe then enc_renorme (enc_set_acx e qe (e_c e) cx')
      else enc_renorme (enc_set_acx e a1 (u32 (e_c e + qe)) cx')
    else enc_set_acx e a1 (u32 (e_c e + qe)) (e_cx e)
  else
    let cx' := upd (e_cx e) ctx (cx_after_lps cxv) in
    if a1 <? qe then enc_renorme (enc_set_acx e a1 (u32 (e_c e + qe)) cx')
    else enc_renorme (enc_set_acx e qe (e_c e) cx').

(* a list of (bit, ctx) decisions *)
Fixpoint enc_encode_list (e : enc) (l : list (Z * Z)) : enc :=
  match l with
  | [] => e
  | (b, cx) :: t => enc_encode_list (enc_encode e b cx) t
  end.

(* setbits (first part of Flush / FlushToOutput) *)
Definition enc_setbits (e : enc) : enc :=
  let tempC := u32 (e_c e + e_a e) in
  let c1 := Z.lor (e_c e) 0xFFFF in
  let c2 := if c1 >=? tempC then u32 (c1 - 0x8000) else c1 in
  mkEnc (e_a e) c2 (e_ct e) (e_pre e) (e_post e) (e_cx e).

Definition enc_shift_ct (e : enc) : enc :=   (* c <<= uint(ct) *)
  mkEnc (e_a e) (shl32 (e_c e) (e_ct e)) (e_ct e) (e_pre e) (e_post e) (e_cx e).

(* FlushToOutput (and the state change of Flush): setbits; c <<= ct; byteout; c <<= ct;
   byteout; if buffer[bp] != 0xFF { bp++ }.  buffer[bp] exists after a byteout. *)
Definition enc_flush_state (e : enc) : enc :=
  let e1 := enc_byteout (enc_shift_ct (enc_setbits e)) in
  let e2 := enc_byteout (enc_shift_ct e1) in
  match e_post e2 with
  | [] => e2 (* unreachable after byteout *)
  | last :: rest =>
    if last =? 0xFF then e2
    else mkEnc (e_a e2) (e_c e2) (e_ct e2) (last :: e_pre e2) rest (e_cx e2)
  end.

(* GetBuffer: if bp < start { [] } else buffer[start:bp]  (start = 1) *)
Definition enc_get_buffer (e : enc) : list Z :=
  if enc_bp e <? 1 then [] else tl (rev (e_pre e)).
(* NumBytes *)
Definition enc_num_bytes (e : enc) : Z := if enc_bp e <? 1 then 0 else enc_bp e - 1.

(* Flush() = FlushToOutput + returned slice *)
Definition enc_flush (e : enc) : list Z := enc_get_buffer (enc_flush_state e).

(* the function the round-trip property is about *)
Definition mq_encode_cx (cx : list Z) (l : list (Z * Z)) : list Z :=
  enc_flush (enc_encode_list (enc_new_cx cx) l).
Definition mq_encode (n : nat) (l : list (Z * Z)) : list Z := mq_encode_cx (zrepeat_nat 0 n) l.

(* ErtermEnc: k := 11 - ct + 1; for k > 0 { c <<= ct; ct = 0; byteout; k -= ct };
   if buffer[bp] != 0xFF { byteout }.  Each iteration lowers k by 7 or 8; fuel 4 covers every
   ct >= -15 (k <= 27); the loop result carries the remaining k (> 0 = out of fuel). *)
Fixpoint enc_erterm_loop (fuel : nat) (k : Z) (e : enc) : Z * enc :=
  match fuel with
  | O => (k, e)
  | S f =>
    if 0 <? k then
      let e1 := enc_byteout (mkEnc (e_a e) (shl32 (e_c e) (e_ct e)) 0 (e_pre e) (e_post e) (e_cx e)) in
      enc_erterm_loop f (k - e_ct e1) e1
    else (k, e)
  end.
(* Go panics on buffer[bp] when bp = len(buffer) (e_post = []) after the loop *)
Definition enc_erterm_panics (e : enc) : bool :=
  match e_post (snd (enc_erterm_loop 4 (11 - e_ct e + 1) e)) with [] => true | _ => false end.
Definition enc_erterm (e : enc) : enc :=
  let e1 := snd (enc_erterm_loop 4 (11 - e_ct e + 1) e) in
  match e_post e1 with
  | [] => e1 (* Go: index out of range; see enc_erterm_panics *)
  | last :: _ => if last =? 0xFF then e1 else enc_byteout e1
  end.

(* SegmarkEnc: Encode(1,18); Encode(0,18); Encode(1,18); Encode(0,18) *)
Definition enc_segmark (e : enc) : enc :=
  enc_encode (enc_encode (enc_encode (enc_encode e 1 18) 0 18) 1 18) 0 18.

(* BypassInitEnc *)
Definition enc_bypass_init (e : enc) : enc :=
  mkEnc (e_a e) 0 bypass_ct_init (e_pre e) (e_post e) (e_cx e).

(* "if bp >= len { ensureIndex(bp) }; buffer[bp] = v; bp++" *)
Definition buf_write_advance (e : enc) (a c ct v : Z) : enc :=
  mkEnc a c ct (v :: e_pre e) (tl (e_post e)) (e_cx e).

(* BypassEncode(bit) *)
Definition enc_bypass_encode (e : enc) (bit : Z) : enc :=
  let ct0 := if e_ct e =? bypass_ct_init then 8 else e_ct e in
  let ct1 := ct0 - 1 in
  let c1 := u32 (e_c e + shl32 (u32 bit) ct1) in
  if ct1 =? 0 then
    let v := u8 c1 in
    buf_write_advance e (e_a e) 0 (if v =? 0xFF then 7 else 8) v
  else mkEnc (e_a e) c1 ct1 (e_pre e) (e_post e) (e_cx e).

Definition prev_is (e : enc) (v : Z) : bool :=       (* bp > 0 && buffer[bp-1] == v *)
  match e_pre e with x :: _ => x =? v | [] => false end.
Definition prev_isnt (e : enc) (v : Z) : bool :=     (* bp > 0 && buffer[bp-1] != v *)
  match e_pre e with x :: _ => negb (x =? v) | [] => false end.

(* BypassExtraBytes(erterm) *)
Definition enc_bypass_extra_bytes (e : enc) (erterm : bool) : Z :=
  if e_ct e <? 7 then 1
  else if (e_ct e =? 7) && (erterm || prev_isnt e 0xFF) then 1 else 0.

(* the padding loop of BypassFlushEnc: for ct > 0 { ct--; c += bitValue << ct; toggle } *)
Fixpoint bypass_pad (fuel : nat) (ct c bitv : Z) : Z * Z :=
  match fuel with
  | O => (ct, c)
  | S f =>
    if 0 <? ct then
      let ct1 := ct - 1 in
      bypass_pad f ct1 (u32 (c + shl32 (u32 bitv) ct1)) (if bitv =? 0 then 1 else 0)
    else (ct, c)
  end.

(* BypassFlushEnc(erterm).  First branch has ct <= 7, so fuel 8 is enough. *)
Definition enc_bypass_flush (e : enc) (erterm : bool) : enc :=
  if (e_ct e <? 7) || ((e_ct e =? 7) && (erterm || prev_isnt e 0xFF)) then
    let '(ct1, c1) := bypass_pad 8 (e_ct e) (e_c e) 0 in
    buf_write_advance e (e_a e) c1 ct1 (u8 c1)
  else if (e_ct e =? 7) && prev_is e 0xFF then
    if erterm then e
    else match e_pre e with
         | x :: p => mkEnc (e_a e) (e_c e) (e_ct e) p (x :: e_post e) (e_cx e)
         | [] => e
         end
  else
    match e_pre e with
    | x1 :: x2 :: p =>
      if (e_ct e =? 8) && negb erterm && (x1 =? 0x7F) && (x2 =? 0xFF)
      then mkEnc (e_a e) (e_c e) (e_ct e) p (x2 :: x1 :: e_post e) (e_cx e)
      else e
    | _ => e
    end.

(* RestartInitEnc *)
Definition enc_restart_init (e : enc) : enc :=
  let '(pre1, post1) := match e_pre e with
                        | x :: p => (p, x :: e_post e)       (* bp > start-1 : bp-- *)
                        | [] => ([], e_post e) end in
  let ct := match post1 with
            | x :: _ => if x =? 0xFF then 13 else 12
            | [] => 12 end in
  mkEnc 0x8000 0 ct pre1 post1 (e_cx e).

(* Reset (contexts are kept) *)
Definition enc_reset (e : enc) : enc := mkEnc 0x8000 0 12 [] [0] (e_cx e).
Definition enc_reset_context (e : enc) (ctx : Z) : enc :=
  mkEnc (e_a e) (e_c e) (e_ct e) (e_pre e) (e_post e) (upd (e_cx e) ctx 0).
Definition enc_reset_contexts (e : enc) : enc :=
  mkEnc (e_a e) (e_c e) (e_ct e) (e_pre e) (e_post e) (map (fun _ => 0) (e_cx e)).
Definition enc_set_context_state (e : enc) (ctx st : Z) : enc :=
  mkEnc (e_a e) (e_c e) (e_ct e) (e_pre e) (e_post e) (upd (e_cx e) ctx (u8 st)).
Definition enc_get_context_state (e : enc) (ctx : Z) : Z := znth (e_cx e) ctx 0.

(* ---------- panic-explicit script interpreter over the exported API ---------- *)
Definition ctx_in_range (cx : list Z) (i : Z) : bool := (0 <=? i) && (i <? zlen cx).
(* Encode panics when contextID is out of range or the state indexes past the 47 entries *)
Definition enc_encode_guard (e : enc) (ctx : Z) : bool :=
  ctx_in_range (e_cx e) ctx && (cx_state (znth (e_cx e) ctx 0) <? mq_nstates).

Definition enc_encode_o (e : enc) (bit ctx : Z) : outcome enc :=
  if enc_encode_guard e ctx then Ok (enc_encode e bit ctx) else Panic.

(* command = (opcode, x, y) *)
Definition enc_step (e : enc) (cmd : Z * Z * Z) : outcome enc :=
  let '(op, x, y) := cmd in
  if op =? 0 then enc_encode_o e x y
  else if op =? 1 then Ok (enc_flush_state e)
  else if op =? 2 then
    if 0 <? fst (enc_erterm_loop 4 (11 - e_ct e + 1) e) then OutOfFuel
    else if enc_erterm_panics e then Panic else Ok (enc_erterm e)
  else if op =? 3 then
    obind (enc_encode_o e 1 18) (fun e1 => obind (enc_encode_o e1 0 18) (fun e2 =>
    obind (enc_encode_o e2 1 18) (fun e3 => enc_encode_o e3 0 18)))
  else if op =? 4 then Ok (enc_bypass_init e)
  else if op =? 5 then Ok (enc_bypass_encode e x)
  else if op =? 6 then Ok (enc_bypass_flush e (negb (x =? 0)))
  else if op =? 7 then Ok (enc_restart_init e)
  else if op =? 8 then Ok (enc_reset_contexts e)
  else if op =? 9 then if ctx_in_range (e_cx e) x then Ok (enc_set_context_state e x y) else Panic
  else if op =? 10 then Ok (enc_reset e)
  else if op =? 11 then if ctx_in_range (e_cx e) x then Ok (enc_reset_context e x) else Panic
  else Err.

Fixpoint enc_run (e : enc) (cmds : list (Z * Z * Z)) : outcome enc :=
  match cmds with
  | [] => Ok e
  | cmd :: t => obind (enc_step e cmd) (fun e1 => enc_run e1 t)
  end.

(* =====================================================================================
   Decoder (MQ mode)
   Go: data = input ++ [0xFF; 0xFF]; bp = index of the last byte read.  The model keeps
   d_cur = data[bp] and d_rest = data[bp+1..] next to the explicit index d_bp and the total
   length d_dlen = len(data); a read of data[bp+1] is checked against d_dlen (Panic) and
   takes its value from d_rest.
   ===================================================================================== *)
Record dec : Type := mkDec {
  d_a : Z; d_c : Z; d_ct : Z; d_eos : Z;
  d_bp : Z; d_dlen : Z;           (* bp, len(data) including the sentinel *)
  d_cur : Z; d_rest : list Z;     (* data[bp], data[bp+1..] *)
  d_cx : list Z }.

(* bytein *)
Definition dec_bytein (d : dec) : outcome dec :=
  if (0 <=? d_bp d + 1) && (d_bp d + 1 <? d_dlen d) then
    match d_rest d with
    | [] => Panic (* inconsistent zipper; excluded by dec_wf *)
    | next :: rest' =>
      if d_cur d =? 0xFF then
        if 0x8F <? next then
          Ok (mkDec (d_a d) (u32 (d_c d + 0xFF00)) 8 (d_eos d + 1) (d_bp d) (d_dlen d)
                    (d_cur d) (d_rest d) (d_cx d))
        else
          Ok (mkDec (d_a d) (u32 (d_c d + u32 (Z.shiftl next 9))) 7 (d_eos d) (d_bp d + 1) (d_dlen d)
                    next rest' (d_cx d))
      else
        Ok (mkDec (d_a d) (u32 (d_c d + u32 (Z.shiftl next 8))) 8 (d_eos d) (d_bp d + 1) (d_dlen d)
                  next rest' (d_cx d))
    end
  else Panic.

(* NewMQDecoderWithContexts(data, cx) / NewMQDecoder(data, n) : sentinel, registers, init() *)
Definition dec_new_cx (data : list Z) (cx : list Z) : outcome dec :=
  let dataLen := zlen data in
  let full := data ++ [0xFF; 0xFF] in
  match full with
  | [] => Panic (* unreachable *)
  | b0 :: rest =>
    let c0 := if dataLen =? 0 then Z.shiftl 0xFF 16 else u32 (Z.shiftl b0 16) in
    obind (dec_bytein (mkDec 0x8000 c0 0 0 0 (dataLen + 2) b0 rest cx))
      (fun d => Ok (mkDec 0x8000 (u32 (Z.shiftl (d_c d) 7)) (d_ct d - 7) (d_eos d) (d_bp d) (d_dlen d)
                          (d_cur d) (d_rest d) (d_cx d)))
  end.

Definition dec_new (data : list Z) (n : nat) : outcome dec := dec_new_cx data (zrepeat_nat 0 n).

(* renormd: for a < 0x8000 { if ct == 0 { bytein }; a <<= 1; c <<= 1; ct-- } *)
Fixpoint dec_renormd_fuel (fuel : nat) (d : dec) : outcome dec :=
  match fuel with
  | O => if d_a d <? 0x8000 then OutOfFuel else Ok d
  | S k =>
    if d_a d <? 0x8000 then
      obind (if d_ct d =? 0 then dec_bytein d else Ok d) (fun d1 =>
        dec_renormd_fuel k (mkDec (u32 (Z.shiftl (d_a d1) 1)) (u32 (Z.shiftl (d_c d1) 1)) (d_ct d1 - 1)
                                  (d_eos d1) (d_bp d1) (d_dlen d1) (d_cur d1) (d_rest d1) (d_cx d1)))
    else Ok d
  end.
Definition dec_renormd (d : dec) : outcome dec := dec_renormd_fuel 16 d.

Definition dec_set_acx (d : dec) (a c : Z) (cx : list Z) : dec :=
  mkDec a c (d_ct d) (d_eos d) (d_bp d) (d_dlen d) (d_cur d) (d_rest d) cx.

(* Decode(contextID) -> (state, bit); Panic when Go indexes out of range *)
Definition dec_decode (d : dec) (ctx : Z) : outcome (dec * Z) :=
  if ctx_in_range (d_cx d) ctx && (cx_state (znth (d_cx d) ctx 0) <? mq_nstates) then
    let cxv := znth (d_cx d) ctx 0 in
    let st := cx_state cxv in
    let mps := cx_mps cxv in
    let qe := tbl_qe st in
    let a1 := u32 (d_a d - qe) in
    if Z.shiftr (d_c d) 16 <? qe then
      if a1 <? qe then
        obind (dec_renormd (dec_set_acx d qe (d_c d) (upd (d_cx d) ctx (cx_after_mps cxv))))
              (fun d' => Ok (d', mps))
      else
        obind (dec_renormd (dec_set_acx d qe (d_c d) (upd (d_cx d) ctx (cx_after_lps cxv))))
              (fun d' => Ok (d', 1 - mps))
    else
      let c1 := u32 (d_c d - u32 (Z.shiftl qe 16)) in
      if negb (Z.land a1 0x8000 =? 0) then Ok (dec_set_acx d a1 c1 (d_cx d), mps)
      else if a1 <? qe then
        obind (dec_renormd (dec_set_acx d a1 c1 (upd (d_cx d) ctx (cx_after_lps cxv))))
              (fun d' => Ok (d', 1 - mps))
      else
        obind (dec_renormd (dec_set_acx d a1 c1 (upd (d_cx d) ctx (cx_after_mps cxv))))
              (fun d' => Ok (d', mps))
  else Panic.

Fixpoint dec_decode_list (d : dec) (ctxs : list Z) : outcome (dec * list Z) :=
  match ctxs with
  | [] => Ok (d, [])
  | cx :: t =>
    obind (dec_decode d cx) (fun r =>
      obind (dec_decode_list (fst r) t) (fun r2 => Ok (fst r2, snd r :: snd r2)))
  end.

(* the function the round-trip property is about *)
Definition mq_decode_cx (cx : list Z) (data : list Z) (ctxs : list Z) : outcome (list Z) :=
  obind (dec_new_cx data cx) (fun d => obind (dec_decode_list d ctxs) (fun r => Ok (snd r))).
Definition mq_decode (n : nat) (data : list Z) (ctxs : list Z) : outcome (list Z) :=
  mq_decode_cx (zrepeat_nat 0 n) data ctxs.

Definition dec_set_context_state (d : dec) (ctx st : Z) : dec :=
  dec_set_acx d (d_a d) (d_c d) (upd (d_cx d) ctx (u8 st)).
Definition dec_reset_contexts (d : dec) : dec :=
  dec_set_acx d (d_a d) (d_c d) (map (fun _ => 0) (d_cx d)).

(* RawDecode() called on an MQ decoder object (T1 lazy passes without per-pass segments): it
   shares c, ct, bp and data with Decode.  Go reads data[bp] (= d_cur) and advances. *)
Definition dec_raw_decode (d : dec) : outcome (dec * Z) :=
  let adv (c ct : Z) : dec :=       (* c = data[bp]; bp++ *)
    match d_rest d with
    | nx :: rest' => mkDec (d_a d) c ct (d_eos d) (d_bp d + 1) (d_dlen d) nx rest' (d_cx d)
    | [] => mkDec (d_a d) c ct (d_eos d) (d_bp d + 1) (d_dlen d) 0 [] (d_cx d)
    end in
  let fill : outcome dec :=
    if d_ct d =? 0 then
      if d_dlen d - 2 <=? d_bp d then
        (* bp >= dataLen: at the sentinel, feed 1-bits, no read, no advance *)
        Ok (mkDec (d_a d) 0xFF 8 (d_eos d) (d_bp d) (d_dlen d) (d_cur d) (d_rest d) (d_cx d))
      else if (0 <=? d_bp d) && (d_bp d <? d_dlen d) then
        let cur := d_cur d in
        if d_c d =? 0xFF then
          if 0x8F <? cur then
            Ok (mkDec (d_a d) 0xFF 8 (d_eos d) (d_bp d) (d_dlen d) (d_cur d) (d_rest d) (d_cx d))
          else Ok (adv cur 7)
        else Ok (adv cur 8)
      else Panic
    else Ok d in
  obind fill (fun d1 =>
    let ct := d_ct d1 - 1 in
    Ok (mkDec (d_a d1) (d_c d1) ct (d_eos d1) (d_bp d1) (d_dlen d1) (d_cur d1) (d_rest d1) (d_cx d1),
        if ct <? 0 then 0 else Z.land (Z.shiftr (d_c d1) ct) 1)).

(* any interleaving of Decode(ctx) (kind = 0) and RawDecode() (kind <> 0) on one decoder *)
Fixpoint dec_mixed_list (d : dec) (ops : list (Z * Z)) : outcome (dec * list Z) :=
  match ops with
  | [] => Ok (d, [])
  | (kind, cx) :: t =>
    obind (if kind =? 0 then dec_decode d cx else dec_raw_decode d) (fun r =>
      obind (dec_mixed_list (fst r) t) (fun r2 => Ok (fst r2, snd r :: snd r2)))
  end.

(* =====================================================================================
   Raw (bypass) decoder: NewRawDecoder / RawInit + RawDecode.  Here Go reads data[bp] and then
   advances, so the zipper is r_rest = data[bp..].  r_dlen = len(data) with the sentinel, so
   Go's dataLen is r_dlen - 2; at bp >= dataLen the reader feeds 1-bits and stays put.
   ===================================================================================== *)
Record rawdec : Type := mkRaw { r_c : Z; r_ct : Z; r_bp : Z; r_dlen : Z; r_rest : list Z }.

Definition raw_new (data : list Z) : rawdec :=
  mkRaw 0 0 0 (zlen data + 2) (data ++ [0xFF; 0xFF]).

Definition raw_decode (r : rawdec) : outcome (rawdec * Z) :=
  let fill : outcome rawdec :=
    if r_ct r =? 0 then
      if r_dlen r - 2 <=? r_bp r then
        (* bp >= dataLen: at the sentinel, feed 1-bits, no read, no advance *)
        Ok (mkRaw 0xFF 8 (r_bp r) (r_dlen r) (r_rest r))
      else if (0 <=? r_bp r) && (r_bp r <? r_dlen r) then
        match r_rest r with
        | [] => Panic
        | next :: rest' =>
          if r_c r =? 0xFF then
            if 0x8F <? next then Ok (mkRaw 0xFF 8 (r_bp r) (r_dlen r) (r_rest r))
            else Ok (mkRaw next 7 (r_bp r + 1) (r_dlen r) rest')
          else Ok (mkRaw next 8 (r_bp r + 1) (r_dlen r) rest')
        end
      else Panic
    else Ok r in
  obind fill (fun r1 =>
    let ct := r_ct r1 - 1 in
    Ok (mkRaw (r_c r1) ct (r_bp r1) (r_dlen r1) (r_rest r1),
        Z.land (Z.shiftr (r_c r1) ct) 1)).

Fixpoint raw_decode_n (n : nat) (r : rawdec) : outcome (rawdec * list Z) :=
  match n with
  | O => Ok (r, [])
  | S k =>
    obind (raw_decode r) (fun p =>
      obind (raw_decode_n k (fst p)) (fun p2 => Ok (fst p2, snd p :: snd p2)))
  end.
