(* MQ coder: tables, arithmetic helper lemmas, encoder invariant, no-marker theorem,
   decoder in-bounds theorem. *)
From V Require Import Common.Base MQ.MqModel.
Require V.Gen.MQTables_gen.

(* ------------------------------------------------------------------------------------
   Finite ranges by computation
   ------------------------------------------------------------------------------------ *)
Definition zrange (n : nat) : list Z := map Z.of_nat (seq 0 n).

Lemma zrange_forallb : forall (n : nat) (f : Z -> bool),
  forallb f (zrange n) = true -> forall i, 0 <= i < Z.of_nat n -> f i = true.
Proof.
  intros n f H i Hi. rewrite forallb_forall in H. apply H.
  unfold zrange. apply in_map_iff. exists (Z.to_nat i). split; [lia|].
  apply in_seq. lia.
Qed.

(* ------------------------------------------------------------------------------------
   mq_tables_wf : the regenerated probability tables are well formed
   ------------------------------------------------------------------------------------ *)
Definition mq_state_ok_b (s : Z) : bool :=
  (0 <? tbl_qe s) && (tbl_qe s <=? 0x5601) && (tbl_qe s <? 0x8000) &&
  (0 <=? tbl_nmps s) && (tbl_nmps s <? 47) && (0 <=? tbl_nlps s) && (tbl_nlps s <? 47) &&
  ((tbl_switch s =? 0) || (tbl_switch s =? 1)).

Definition mq_tables_wf_b : bool :=
  (length MQTables_gen.mq_qe =? 47)%nat && (length MQTables_gen.mq_nmps =? 47)%nat &&
  (length MQTables_gen.mq_nlps =? 47)%nat && (length MQTables_gen.mq_switch =? 47)%nat &&
  forallb mq_state_ok_b (zrange 47).

Theorem mq_tables_wf : mq_tables_wf_b = true.
Proof. vm_compute. reflexivity. Qed.

Lemma tbl_facts : forall s, 0 <= s < 47 ->
  0 < tbl_qe s <= 0x5601 /\ 0 <= tbl_nmps s < 47 /\ 0 <= tbl_nlps s < 47 /\
  (tbl_switch s = 0 \/ tbl_switch s = 1).
Proof.
  intros s Hs. pose proof mq_tables_wf as H. unfold mq_tables_wf_b in H.
  apply andb_true_iff in H. destruct H as [_ H].
  pose proof (zrange_forallb 47 mq_state_ok_b H s ltac:(lia)) as Hb.
  unfold mq_state_ok_b in Hb.
  repeat (apply andb_true_iff in Hb; destruct Hb as [Hb ?]).
  repeat match goal with
  | H : (_ <? _) = true |- _ => apply Z.ltb_lt in H
  | H : (_ <=? _) = true |- _ => apply Z.leb_le in H
  end.
  repeat split; lia.
Qed.

(* the probability-estimation structure the conditional exchange relies on: the LPS estimate
   never exceeds 0x5601 < 0x8000 <= a *)
Lemma tbl_qe_bound : forall s, 0 <= s < 47 -> 0 < tbl_qe s < 0x8000.
Proof. intros s Hs. destruct (tbl_facts s Hs) as [H _]. lia. Qed.

(* ------------------------------------------------------------------------------------
   Context bytes
   ------------------------------------------------------------------------------------ *)
Definition cx_ok (b : Z) : Prop := 0 <= b < 256 /\ cx_state b < 47.

Lemma cx_byte_facts : forall b, 0 <= b < 256 ->
  0 <= cx_state b < 128 /\ (cx_mps b = 0 \/ cx_mps b = 1).
Proof.
  intros b Hb.
  assert (H : forallb (fun b => (0 <=? cx_state b) && (cx_state b <? 128) &&
                                ((cx_mps b =? 0) || (cx_mps b =? 1))) (zrange 256) = true)
    by (vm_compute; reflexivity).
  pose proof (zrange_forallb 256 _ H b ltac:(lia)) as Hx. cbv beta in Hx.
  apply andb_true_iff in Hx. destruct Hx as [Hx H3].
  apply andb_true_iff in Hx. destruct Hx as [H1 H2].
  apply Z.leb_le in H1. apply Z.ltb_lt in H2.
  apply orb_true_iff in H3. split; [lia|].
  destruct H3 as [H3|H3]; apply Z.eqb_eq in H3; auto.
Qed.

Lemma mk_cx_facts : forall s m, 0 <= s < 128 -> 0 <= m <= 1 ->
  cx_state (mk_cx s m) = s /\ cx_mps (mk_cx s m) = m /\ 0 <= mk_cx s m < 256.
Proof.
  intros s m Hs Hm.
  assert (H : forallb (fun s => forallb (fun m =>
              (cx_state (mk_cx s m) =? s) && (cx_mps (mk_cx s m) =? m) &&
              (0 <=? mk_cx s m) && (mk_cx s m <? 256)) (zrange 2)) (zrange 128) = true)
    by (vm_compute; reflexivity).
  pose proof (zrange_forallb 128 _ H s ltac:(lia)) as H1. cbv beta in H1.
  pose proof (zrange_forallb 2 _ H1 m ltac:(lia)) as H2. cbv beta in H2.
  repeat (apply andb_true_iff in H2; destruct H2 as [H2 ?]).
  repeat match goal with
  | H : (_ <? _) = true |- _ => apply Z.ltb_lt in H
  | H : (_ <=? _) = true |- _ => apply Z.leb_le in H
  | H : (_ =? _) = true |- _ => apply Z.eqb_eq in H
  end. repeat split; lia.
Qed.

Lemma cx_ok_0 : cx_ok 0.
Proof. unfold cx_ok. vm_compute. repeat split; congruence. Qed.

Lemma cx_ok_state : forall b, cx_ok b -> 0 <= cx_state b < 47.
Proof. intros b [Hb Hs]. pose proof (cx_byte_facts b Hb). lia. Qed.

Lemma cx_ok_mps : forall b, cx_ok b -> cx_mps b = 0 \/ cx_mps b = 1.
Proof. intros b [Hb Hs]. apply (cx_byte_facts b Hb). Qed.

Lemma cx_after_mps_ok : forall b, cx_ok b -> cx_ok (cx_after_mps b).
Proof.
  intros b Hb. pose proof (cx_ok_state b Hb) as Hs. pose proof (cx_ok_mps b Hb) as Hm.
  destruct (tbl_facts _ Hs) as (_ & Hn & _ & _).
  unfold cx_after_mps.
  destruct (mk_cx_facts (tbl_nmps (cx_state b)) (cx_mps b) ltac:(lia) ltac:(lia)) as (E1 & E2 & E3).
  split; [exact E3 | rewrite E1; lia].
Qed.

Lemma cx_after_lps_ok : forall b, cx_ok b -> cx_ok (cx_after_lps b).
Proof.
  intros b Hb. pose proof (cx_ok_state b Hb) as Hs. pose proof (cx_ok_mps b Hb) as Hm.
  destruct (tbl_facts _ Hs) as (_ & _ & Hn & _).
  unfold cx_after_lps. cbv zeta.
  set (m := if tbl_switch (cx_state b) =? 1 then 1 - cx_mps b else cx_mps b).
  assert (Hm' : 0 <= m <= 1) by (unfold m; destruct (tbl_switch (cx_state b) =? 1); lia).
  destruct (mk_cx_facts (tbl_nlps (cx_state b)) m ltac:(lia) Hm') as (E1 & E2 & E3).
  split; [exact E3 | rewrite E1; lia].
Qed.

(* lists of contexts *)
Lemma znth_Forall : forall (P : Z -> Prop) l i d, Forall P l -> P d -> P (znth l i d).
Proof.
  intros P l i d Hl Hd. unfold znth. destruct (i <? 0); [exact Hd|].
  generalize (Z.to_nat i). induction Hl; intros [|k]; simpl; auto.
Qed.

Lemma upd_nat_Forall : forall (P : Z -> Prop) l n v, Forall P l -> P v -> Forall P (upd_nat l n v).
Proof.
  intros P l n v Hl Hv. revert n. induction Hl; intros [|k]; simpl; auto.
Qed.

Lemma upd_Forall : forall (P : Z -> Prop) l i v, Forall P l -> P v -> Forall P (upd l i v).
Proof. intros. unfold upd. destruct (i <? 0); auto using upd_nat_Forall. Qed.

Lemma upd_nat_length : forall l n v, length (upd_nat l n v) = length l.
Proof. induction l; intros [|k] v; simpl; auto. Qed.

Lemma upd_length : forall l i v, length (upd l i v) = length l.
Proof. intros. unfold upd. destruct (i <? 0); auto using upd_nat_length. Qed.

Lemma zrepeat_Forall : forall (P : Z -> Prop) x n, P x -> Forall P (zrepeat_nat x n).
Proof. induction n; simpl; auto. Qed.

Lemma zrepeat_length : forall (x : Z) n, length (zrepeat_nat x n) = n.
Proof. induction n; simpl; auto. Qed.

(* ------------------------------------------------------------------------------------
   Arithmetic helpers
   ------------------------------------------------------------------------------------ *)
Lemma u32_wrapU : forall x, u32 x = wrapU 32 x.
Proof. intros. unfold u32, wrapU. change 0xFFFFFFFF with (Z.ones 32). apply Z.land_ones. lia. Qed.

Lemma u8_wrapU : forall x, u8 x = wrapU 8 x.
Proof. intros. unfold u8, wrapU. change 0xFF with (Z.ones 8). apply Z.land_ones. lia. Qed.

Lemma u32_small : forall x, 0 <= x < 2 ^ 32 -> u32 x = x.
Proof. intros. rewrite u32_wrapU. unfold wrapU. apply Z.mod_small. assumption. Qed.

Lemma u8_small : forall x, 0 <= x < 256 -> u8 x = x.
Proof. intros. rewrite u8_wrapU. unfold wrapU. apply Z.mod_small. change (2 ^ 8) with 256. assumption. Qed.

Lemma land_pow2 : forall a n, 0 <= n ->
  Z.land a (2 ^ n) = if Z.testbit a n then 2 ^ n else 0.
Proof.
  intros a n Hn. apply Z.bits_inj'. intros i Hi.
  rewrite Z.land_spec, Z.pow2_bits_eqb by assumption.
  destruct (Z.eqb_spec n i) as [->|Hne].
  - destruct (Z.testbit a i); [rewrite Z.pow2_bits_true by assumption | rewrite Z.bits_0]; reflexivity.
  - rewrite andb_false_r.
    destruct (Z.testbit a n); [rewrite Z.pow2_bits_false by assumption | rewrite Z.bits_0]; reflexivity.
Qed.

(* test of a single bit of a value known to lie below the next power of two *)
Lemma land_pow2_eqb : forall a n, 0 <= n -> 0 <= a < 2 ^ (n + 1) ->
  (Z.land a (2 ^ n) =? 0) = (a <? 2 ^ n).
Proof.
  intros a n Hn Ha. rewrite land_pow2 by assumption.
  assert (Hp : 0 < 2 ^ n) by (apply Z.pow_pos_nonneg; lia).
  assert (Hp1 : 2 ^ (n + 1) = 2 * 2 ^ n) by (rewrite Z.pow_add_r by lia; lia).
  destruct (Z.ltb_spec a (2 ^ n)) as [Hlt|Hge].
  - assert (Z.testbit a n = false) as ->.
    { apply Z.testbit_false; [assumption|]. rewrite Z.div_small by lia. reflexivity. }
    reflexivity.
  - assert (Z.testbit a n = true) as ->.
    { apply Z.testbit_true; [assumption|].
      assert (a / 2 ^ n = 1) as ->; [|reflexivity].
      symmetry. apply Z.div_unique with (r := a - 2 ^ n); lia. }
    destruct (Z.eqb_spec (2 ^ n) 0); lia.
Qed.

Lemma land_ones_mod : forall a n, 0 <= n -> Z.land a (2 ^ n - 1) = a mod 2 ^ n.
Proof. intros. rewrite <- Z.land_ones by assumption. rewrite Z.ones_equiv. reflexivity. Qed.

Lemma lor_ones_eq : forall a n, 0 <= n ->
  Z.lor a (Z.ones n) = a - a mod 2 ^ n + Z.ones n.
Proof.
  intros a n Hn.
  set (hi := (a / 2 ^ n) * 2 ^ n).
  assert (Hp : 0 < 2 ^ n) by (apply Z.pow_pos_nonneg; lia).
  assert (Hhi : a - a mod 2 ^ n = hi).
  { unfold hi. pose proof (Z.div_mod a (2 ^ n) ltac:(lia)). lia. }
  rewrite Hhi.
  assert (Hdisj : Z.land hi (Z.ones n) = 0).
  { apply Z.bits_inj'. intros i Hi. rewrite Z.land_spec, Z.bits_0.
    destruct (Z.ltb_spec i n).
    - unfold hi. rewrite Z.mul_pow2_bits_low by assumption. reflexivity.
    - rewrite Z.ones_spec_high by lia. apply andb_false_r. }
  rewrite (Z.add_nocarry_lxor hi (Z.ones n) Hdisj), (Z.lxor_lor _ _ Hdisj).
  apply Z.bits_inj'. intros i Hi. rewrite !Z.lor_spec.
  destruct (Z.ltb_spec i n).
  - rewrite Z.ones_spec_low by lia. rewrite !orb_true_r. reflexivity.
  - rewrite Z.ones_spec_high by lia. rewrite !orb_false_r.
    unfold hi. rewrite Z.mul_pow2_bits by assumption.
    rewrite Z.div_pow2_bits by lia. f_equal. lia.
Qed.

Lemma shiftr_div : forall a n, 0 <= n -> Z.shiftr a n = a / 2 ^ n.
Proof. intros. apply Z.shiftr_div_pow2. assumption. Qed.

Lemma shiftl_mul : forall a n, 0 <= n -> Z.shiftl a n = a * 2 ^ n.
Proof. intros. apply Z.shiftl_mul_pow2. assumption. Qed.

(* ====================================================================================
   Encoder: buffer property, byteout
   ==================================================================================== *)
Definition is_byteP (b : Z) : Prop := 0 <= b < 256.

(* reversed buffer: head = most recent byte.  No FF is followed by a byte > 0x8F. *)
Fixpoint nomark_rev (l : list Z) : Prop :=
  match l with
  | y :: t => match t with x :: _ => (x = 255 -> y <= 143) | [] => True end /\ nomark_rev t
  | [] => True
  end.
Definition buf_ok (r : list Z) : Prop := Forall is_byteP r /\ nomark_rev r.

Lemma nomark_rev_tail : forall y t, nomark_rev (y :: t) -> nomark_rev t.
Proof. intros y t H. destruct H as [_ H]. exact H. Qed.

Lemma buf_ok_cons : forall y r, is_byteP y -> (hd 0 r = 255 -> y <= 143) -> buf_ok r -> buf_ok (y :: r).
Proof.
  intros y r Hy Hh [Hb Hn]. split; [constructor; assumption|].
  destruct r as [|x t]; simpl; [auto|]. split; [exact Hh | exact Hn].
Qed.

Lemma buf_ok_tail : forall y r, buf_ok (y :: r) -> buf_ok r.
Proof. intros y r [Hb Hn]. inversion Hb; subst. split; [assumption | eapply nomark_rev_tail; eauto]. Qed.

Lemma buf_ok_head : forall y r, buf_ok (y :: r) -> is_byteP y /\ (hd 0 r = 255 -> y <= 143).
Proof.
  intros y r [Hb Hn]. inversion Hb; subst. split; [assumption|].
  destruct r as [|x t]; simpl in *; [intros; discriminate | tauto].
Qed.

Record bo_pre (s : Z) (e : enc) (last : Z) (stale : list Z) : Prop := {
  bp_post : e_post e = last :: stale;
  bp_buf : buf_ok (last :: e_pre e);
  bp_c : 0 <= e_c e;
  bp_s : 1 <= s <= 0x10000;
  bp_pot : e_c e + s <= 0x9000000;
  bp_ff : hd 0 (e_pre e) = 255 -> last * 2 ^ 27 + e_c e + s <= 0x90 * 2 ^ 27 }.

Lemma byteout_spec : forall s e last stale, bo_pre s e last stale ->
  let e' := enc_byteout e in
  e_a e' = e_a e /\ e_cx e' = e_cx e /\
  exists last' v,
    e_pre e' = last' :: e_pre e /\ e_post e' = v :: tl stale /\
    buf_ok (v :: last' :: e_pre e) /\
    (e_ct e' = 7 \/ e_ct e' = 8) /\ 0 <= e_c e' /\
    (e_c e' + s) * 2 ^ (e_ct e') <= 0x9000000 /\
    (last' = 255 -> v * 2 ^ 27 + (e_c e' + s) * 2 ^ (e_ct e') <= 0x90 * 2 ^ 27).
Proof.
  intros s e last stale [Hpost Hbuf Hc Hs Hpot Hff]. cbv zeta.
  unfold enc_byteout. rewrite Hpost.
  destruct (buf_ok_head _ _ Hbuf) as [Hlb Hlm]. pose proof (buf_ok_tail _ _ Hbuf) as Hpre.
  unfold is_byteP in Hlb.
  set (c := e_c e) in *.
  change 0xFF with 255. change 0xFFFFF with (2 ^ 20 - 1). change 0x7FFFF with (2 ^ 19 - 1).
  change 0x8000000 with (2 ^ 27). change 0x7FFFFFF with (2 ^ 27 - 1).
  rewrite !land_ones_mod by lia. rewrite !shiftr_div by lia.
  rewrite (land_pow2_eqb c 27) by (change (2 ^ (27 + 1)) with 268435456; lia).
  change (2 ^ 27) with 134217728 in *. change (2 ^ 20) with 1048576. change (2 ^ 19) with 524288.
  destruct (Z.eqb_spec last 255) as [Hl|Hl].
  - (* previous byte is FF: 7 bits + carry position *)
    cbn [e_a e_cx e_pre e_post e_ct e_c]. split; [reflexivity|]. split; [reflexivity|].
    exists last, (u8 (c / 1048576)).
    assert (Hv : 0 <= c / 1048576 < 144) by (Z.div_mod_to_equations; lia).
    rewrite u8_small by lia.
    split; [reflexivity|]. split; [reflexivity|].
    split; [apply buf_ok_cons; [unfold is_byteP; lia | simpl; lia | exact Hbuf]|].
    split; [left; reflexivity|].
    change (2 ^ 7) with 128.
    split; [Z.div_mod_to_equations; lia|].
    split; [Z.div_mod_to_equations; lia|].
    intros _. Z.div_mod_to_equations; lia.
  - destruct (Z.ltb_spec c 134217728) as [Hlt|Hge].
    + (* no carry *)
      cbn [e_a e_cx e_pre e_post e_ct e_c]. split; [reflexivity|]. split; [reflexivity|].
      exists last, (u8 (c / 524288)).
      assert (Hv : 0 <= c / 524288 < 256) by (Z.div_mod_to_equations; lia).
      rewrite u8_small by lia.
      split; [reflexivity|]. split; [reflexivity|].
      split; [apply buf_ok_cons; [unfold is_byteP; lia | simpl; lia | exact Hbuf]|].
      split; [right; reflexivity|].
      change (2 ^ 8) with 256.
      split; [Z.div_mod_to_equations; lia|].
      split; [Z.div_mod_to_equations; lia|].
      intros Hx. lia.
    + (* carry into the previous byte *)
      assert (Hl1 : u8 (last + 1) = last + 1) by (apply u8_small; lia).
      rewrite Hl1.
      assert (Hprev : hd 0 (e_pre e) = 255 -> last + 1 <= 143).
      { intros Hp. specialize (Hff Hp). lia. }
      assert (Hbuf1 : buf_ok (last + 1 :: e_pre e)).
      { apply buf_ok_cons; [unfold is_byteP; lia | exact Hprev | exact Hpre]. }
      destruct (Z.eqb_spec (last + 1) 255) as [Hl2|Hl2].
      * cbn [e_a e_cx e_pre e_post e_ct e_c]. split; [reflexivity|]. split; [reflexivity|].
        exists (last + 1), (u8 (c mod 134217728 / 1048576)).
        assert (Hv : 0 <= c mod 134217728 / 1048576 < 16) by (Z.div_mod_to_equations; lia).
        rewrite u8_small by lia.
        split; [reflexivity|]. split; [reflexivity|].
        split; [apply buf_ok_cons; [unfold is_byteP; lia | simpl; lia | exact Hbuf1]|].
        split; [left; reflexivity|].
        change (2 ^ 7) with 128.
        split; [Z.div_mod_to_equations; lia|].
        split; [Z.div_mod_to_equations; lia|].
        intros _. Z.div_mod_to_equations; lia.
      * cbn [e_a e_cx e_pre e_post e_ct e_c]. split; [reflexivity|]. split; [reflexivity|].
        exists (last + 1), (u8 (c / 524288)).
        assert (Hv : 0 <= u8 (c / 524288) < 256) by (rewrite u8_wrapU; unfold wrapU; change (2 ^ 8) with 256; apply Z.mod_pos_bound; lia).
        split; [reflexivity|]. split; [reflexivity|].
        split; [apply buf_ok_cons; [unfold is_byteP; lia | simpl; lia | exact Hbuf1]|].
        split; [right; reflexivity|].
        change (2 ^ 8) with 256.
        split; [Z.div_mod_to_equations; lia|].
        split; [Z.div_mod_to_equations; lia|].
        intros Hx. lia.
Qed.

(* ====================================================================================
   Encoder invariant.  With s = ct (shifts left before the next byteout):
       0x8000 <= a < 0x10000,  1 <= ct <= 12,  0 <= c,
       (c + a) * 2^ct <= 0x9000000  (= 2^27 + 2^24),
       and, when the byte before the last one is 0xFF,
       last * 2^27 + (c + a) * 2^ct <= 0x90 * 2^27
   (the last clause is what keeps a later carry from pushing the byte after an FF past 0x8F).
   Encode steps never increase c + a, a renormalisation shift doubles c + a and lowers ct,
   byteout re-establishes the bound with ct = 7 or 8.  Consequences: c + a <= 0x4800000 at
   rest and c < 0x9000000 < 2^28 inside renorme, so no uint32 operation of the encoder wraps.
   ==================================================================================== *)
Record enc_pre_inv (e : enc) : Prop := {
  pi_a : 0 < e_a e < 0x10000;
  pi_ct : 1 <= e_ct e <= 12;
  pi_c : 0 <= e_c e;
  pi_pot : (e_c e + e_a e) * 2 ^ e_ct e <= 0x9000000;
  pi_buf : exists last stale, e_post e = last :: stale /\ buf_ok (last :: e_pre e) /\
      (hd 0 (e_pre e) = 255 -> last * 2 ^ 27 + (e_c e + e_a e) * 2 ^ e_ct e <= 0x90 * 2 ^ 27);
  pi_cx : Forall cx_ok (e_cx e) }.

Definition enc_inv (e : enc) : Prop := enc_pre_inv e /\ 0x8000 <= e_a e.

Lemma pow2_split : forall n, 1 <= n -> 2 ^ n = 2 * 2 ^ (n - 1) /\ 1 <= 2 ^ (n - 1).
Proof.
  intros n Hn. split.
  - replace n with (1 + (n - 1)) at 1 by lia. rewrite Z.pow_add_r by lia. reflexivity.
  - assert (0 < 2 ^ (n - 1)) by (apply Z.pow_pos_nonneg; lia). lia.
Qed.

Lemma pre_inv_c_bound : forall e, enc_pre_inv e -> 2 * (e_c e + e_a e) <= 0x9000000.
Proof.
  intros e [Ha Hct Hc Hpot _ _].
  destruct (pow2_split (e_ct e) ltac:(lia)) as [E Hq]. rewrite E in Hpot.
  set (q := 2 ^ (e_ct e - 1)) in *. nia.
Qed.

Lemma renorme_inv : forall fuel e,
  enc_pre_inv e -> 0x8000 <= e_a e * 2 ^ Z.of_nat fuel -> enc_inv (enc_renorme_fuel fuel e).
Proof.
  induction fuel as [|k IH]; intros e Hpre Hf.
  - simpl in *. split; [exact Hpre | lia].
  - cbn [enc_renorme_fuel].
    destruct (Z.ltb_spec (e_a e) 0x8000) as [Hlt|Hge]; [|split; [exact Hpre | lia]].
    pose proof (pre_inv_c_bound e Hpre) as Hcb.
    destruct Hpre as [Ha Hct Hc Hpot (last & stale & Hpost & Hbuf & Hff) Hcx].
    rewrite !shiftl_mul by lia. change (2 ^ 1) with 2.
    rewrite !u32_small by (change (2 ^ 32) with 4294967296; lia).
    destruct (pow2_split (e_ct e) ltac:(lia)) as [E Hq].
    assert (Hf' : 0x8000 <= e_a e * 2 * 2 ^ Z.of_nat k).
    { rewrite Nat2Z.inj_succ, Z.pow_succ_r in Hf by lia. lia. }
    cbn [e_ct].
    destruct (Z.eqb_spec (e_ct e - 1) 0) as [Hz|Hnz].
    + (* byteout *)
      assert (Hct1 : e_ct e = 1) by lia. rewrite Hct1 in *. change (2 ^ 1) with 2 in *.
      set (e1 := mkEnc (e_a e * 2) (e_c e * 2) (1 - 1) (e_pre e) (e_post e) (e_cx e)).
      assert (Hbo : bo_pre (e_a e * 2) e1 last stale).
      { constructor; unfold e1; cbn [e_post e_pre e_c]; try assumption; try lia. }
      pose proof (byteout_spec _ _ _ _ Hbo) as Hsp. cbv zeta in Hsp.
      destruct Hsp as (Ea & Ecx & last' & v & Epre & Epost & Hbuf' & Hct' & Hc' & Hpot' & Hff').
      change (e_a e1) with (e_a e * 2) in Ea. change (e_cx e1) with (e_cx e) in Ecx.
      change (e_pre e1) with (e_pre e) in Epre, Hbuf'.
      apply IH; [|rewrite Ea; exact Hf'].
      constructor.
      * rewrite Ea. lia.
      * lia.
      * exact Hc'.
      * rewrite Ea. exact Hpot'.
      * exists v, (tl stale). split; [exact Epost|]. rewrite Epre. split; [exact Hbuf'|].
        cbn [hd]. rewrite Ea. exact Hff'.
      * rewrite Ecx. exact Hcx.
    + apply IH; [|cbn [e_a]; exact Hf'].
      constructor; cbn [e_a e_c e_ct e_pre e_post e_cx].
      * lia.
      * lia.
      * lia.
      * rewrite E in Hpot. set (q := 2 ^ (e_ct e - 1)) in *. nia.
      * exists last, stale. split; [exact Hpost|]. split; [exact Hbuf|].
        intros Hp. specialize (Hff Hp). rewrite E in Hff. set (q := 2 ^ (e_ct e - 1)) in *. nia.
      * exact Hcx.
Qed.

Lemma renorme_inv16 : forall e, enc_pre_inv e -> enc_inv (enc_renorme e).
Proof.
  intros e H. apply renorme_inv; [exact H|].
  destruct H as [Ha _ _ _ _ _]. change (2 ^ Z.of_nat 16) with 65536. lia.
Qed.

(* an encoder step that keeps ct and the buffer, does not increase c + a, keeps 0 < a < 2^16 *)
Lemma pre_inv_shrink : forall e a c cx,
  enc_inv e -> 0 < a < 0x10000 -> 0 <= c -> c + a <= e_c e + e_a e -> Forall cx_ok cx ->
  enc_pre_inv (enc_set_acx e a c cx).
Proof.
  intros e a c cx [[Ha Hct Hc Hpot (last & stale & Hpost & Hbuf & Hff) Hcx] Ha8] Ha' Hc' Hle Hcx'.
  assert (Hp : 0 < 2 ^ e_ct e) by (apply Z.pow_pos_nonneg; lia).
  assert (Hm : (c + a) * 2 ^ e_ct e <= (e_c e + e_a e) * 2 ^ e_ct e)
    by (apply Z.mul_le_mono_nonneg_r; lia).
  constructor; unfold enc_set_acx; cbn [e_a e_c e_ct e_pre e_post e_cx]; try assumption; try lia.
  exists last, stale. split; [exact Hpost|]. split; [exact Hbuf|].
  intros Hp'. specialize (Hff Hp'). lia.
Qed.

Theorem enc_encode_inv : forall e bit ctx, enc_inv e -> enc_inv (enc_encode e bit ctx).
Proof.
  intros e bit ctx Hinv.
  pose proof Hinv as [[Ha Hct Hc Hpot Hb Hcx] Ha8].
  pose proof (pre_inv_c_bound e (proj1 Hinv)) as Hcb.
  unfold enc_encode. cbv zeta.
  set (cxv := znth (e_cx e) ctx 0).
  assert (Hcxv : cx_ok cxv) by (apply znth_Forall; [exact Hcx | exact cx_ok_0]).
  pose proof (cx_ok_state _ Hcxv) as Hst.
  pose proof (tbl_qe_bound _ Hst) as Hqe.
  set (qe := tbl_qe (cx_state cxv)) in *.
  change 0x8000 with 32768 in *. change 0x10000 with 65536 in *.
  rewrite (u32_small (e_a e - qe)) by (change (2 ^ 32) with 4294967296; lia).
  rewrite (u32_small (e_c e + qe)) by (change (2 ^ 32) with 4294967296; lia).
  change 32768 with (2 ^ 15) at 1.
  rewrite (land_pow2_eqb (e_a e - qe) 15) by (change (2 ^ (15 + 1)) with 65536; lia).
  change (2 ^ 15) with 32768.
  assert (Hmps : Forall cx_ok (upd (e_cx e) ctx (cx_after_mps cxv)))
    by (apply upd_Forall; [exact Hcx | apply cx_after_mps_ok; exact Hcxv]).
  assert (Hlps : Forall cx_ok (upd (e_cx e) ctx (cx_after_lps cxv)))
    by (apply upd_Forall; [exact Hcx | apply cx_after_lps_ok; exact Hcxv]).
  destruct (bit =? cx_mps cxv).
  - destruct (Z.ltb_spec (e_a e - qe) 32768) as [Hlt|Hge].
    + destruct (Z.ltb_spec (e_a e - qe) qe) as [Hx|Hx];
        apply renorme_inv16; apply pre_inv_shrink; try assumption; lia.
    + split; [|unfold enc_set_acx; cbn [e_a]; lia].
      apply pre_inv_shrink; try assumption; lia.
  - destruct (Z.ltb_spec (e_a e - qe) qe) as [Hx|Hx];
      apply renorme_inv16; apply pre_inv_shrink; try assumption; lia.
Qed.

Theorem enc_encode_list_inv : forall l e, enc_inv e -> enc_inv (enc_encode_list e l).
Proof.
  induction l as [|[b cx] t IH]; intros e H; cbn [enc_encode_list]; [exact H|].
  apply IH. apply enc_encode_inv. exact H.
Qed.

Lemma enc_new_inv : forall cx, Forall cx_ok cx -> enc_inv (enc_new_cx cx).
Proof.
  intros cx Hcx. unfold enc_new_cx. split; [|cbn [e_a]; lia].
  constructor; cbn [e_a e_c e_ct e_pre e_post e_cx]; try lia; try assumption.
  exists 0, []. split; [reflexivity|]. split.
  - split; [constructor; [unfold is_byteP; lia | constructor] | simpl; auto].
  - simpl. intros; discriminate.
Qed.

(* ====================================================================================
   Flush and the marker property
   ==================================================================================== *)
Lemma enc_inv_c_bound : forall e, enc_inv e ->
  0 <= e_c e /\ e_c e + e_a e <= 0x4800000 /\ e_c e < 2 ^ 27.
Proof.
  intros e [Hp Ha]. pose proof (pre_inv_c_bound e Hp). destruct Hp as [_ _ Hc _ _ _].
  change (2 ^ 27) with 134217728. lia.
Qed.

(* setbits: the new c lies in [c, c + a) *)
Lemma setbits_range : forall c a, 0 <= c -> 0x8000 <= a < 0x10000 -> c + a < 2 ^ 32 ->
  let c1 := Z.lor c 0xFFFF in
  let c2 := if c1 >=? u32 (c + a) then u32 (c1 - 0x8000) else c1 in
  c <= c2 < c + a.
Proof.
  intros c a Hc Ha Hlt. cbv zeta.
  change 0xFFFF with (Z.ones 16). rewrite lor_ones_eq by lia.
  change (Z.ones 16) with 65535. change (2 ^ 16) with 65536.
  rewrite (u32_small (c + a)) by lia.
  pose proof (Z.mod_pos_bound c 65536 ltac:(lia)) as Hm.
  destruct (Z.geb_spec (c - c mod 65536 + 65535) (c + a)) as [Hge|Hl].
  - rewrite u32_small by lia. lia.
  - lia.
Qed.

Lemma nomark_rev_app : forall A y x B, nomark_rev (A ++ y :: x :: B) -> x = 255 -> y <= 143.
Proof.
  induction A as [|a A IH]; intros y x B H Hx.
  - simpl in H. tauto.
  - apply (IH y x B); [|exact Hx]. simpl app in H. eapply nomark_rev_tail. exact H.
Qed.

Lemma shift_byteout_spec : forall e last stale,
  1 <= e_ct e <= 12 -> 0 <= e_c e -> (e_c e + 1) * 2 ^ e_ct e <= 0x9000000 ->
  e_post e = last :: stale -> buf_ok (last :: e_pre e) ->
  (hd 0 (e_pre e) = 255 -> last * 2 ^ 27 + (e_c e + 1) * 2 ^ e_ct e <= 0x90 * 2 ^ 27) ->
  let e' := enc_byteout (enc_shift_ct e) in
  e_a e' = e_a e /\ e_cx e' = e_cx e /\
  exists last' v,
    e_pre e' = last' :: e_pre e /\ e_post e' = v :: tl stale /\
    buf_ok (v :: last' :: e_pre e) /\
    (e_ct e' = 7 \/ e_ct e' = 8) /\ 0 <= e_c e' /\
    (e_c e' + 1) * 2 ^ (e_ct e') <= 0x9000000 /\
    (last' = 255 -> v * 2 ^ 27 + (e_c e' + 1) * 2 ^ (e_ct e') <= 0x90 * 2 ^ 27).
Proof.
  intros e last stale Hct Hc Hpot Hpost Hbuf Hff.
  assert (Hp : 1 <= 2 ^ e_ct e) by (assert (0 < 2 ^ e_ct e) by (apply Z.pow_pos_nonneg; lia); lia).
  assert (Hcp : 0 <= e_c e * 2 ^ e_ct e) by (apply Z.mul_nonneg_nonneg; lia).
  unfold enc_shift_ct, shl32.
  replace ((0 <=? e_ct e) && (e_ct e <? 32)) with true
    by (symmetry; apply andb_true_iff; split; [apply Z.leb_le | apply Z.ltb_lt]; lia).
  rewrite shiftl_mul by lia.
  rewrite (u32_small (e_c e * 2 ^ e_ct e)) by (change (2 ^ 32) with 4294967296; lia).
  set (e0 := mkEnc (e_a e) (e_c e * 2 ^ e_ct e) (e_ct e) (e_pre e) (e_post e) (e_cx e)).
  assert (Hbo0 : bo_pre 1 e0 last stale).
  { constructor; unfold e0; cbn [e_post e_pre e_c]; try assumption; try lia. }
  exact (byteout_spec _ _ _ _ Hbo0).
Qed.

(* What Flush guarantees, in terms of the reversed buffer prefix P = buffer[0..bp-1] after it *)
Lemma flush_state_spec : forall e, enc_inv e ->
  exists h P', e_pre (enc_flush_state e) = h :: P' /\ P' <> [] /\ h <> 255 /\ buf_ok (h :: P').
Proof.
  intros e Hinv. pose proof (enc_inv_c_bound e Hinv) as (Hc0 & Hcb & _).
  destruct Hinv as [[Ha Hct Hc Hpot (last & stale & Hpost & Hbuf & Hff) Hcx] Ha8].
  unfold enc_flush_state.
  (* setbits *)
  pose proof (setbits_range (e_c e) (e_a e) Hc ltac:(lia) ltac:(change (2 ^ 32) with 4294967296; lia)) as Hsb.
  cbv zeta in Hsb.
  unfold enc_setbits. cbv zeta.
  set (c2 := if Z.lor (e_c e) 0xFFFF >=? u32 (e_c e + e_a e) then u32 (Z.lor (e_c e) 0xFFFF - 0x8000)
             else Z.lor (e_c e) 0xFFFF) in *.
  assert (Hp : 0 <= 2 ^ e_ct e) by (apply Z.pow_nonneg; lia).
  assert (Hm : (c2 + 1) * 2 ^ e_ct e <= (e_c e + e_a e) * 2 ^ e_ct e)
    by (apply Z.mul_le_mono_nonneg_r; lia).
  set (es := mkEnc (e_a e) c2 (e_ct e) (e_pre e) (e_post e) (e_cx e)).
  destruct (shift_byteout_spec es last stale) as (Ea & Ecx & l1 & v1 & Epre & Epost & Hbuf1 & Hct1 & Hc1 & Hpot1 & Hff1);
    unfold es; cbn [e_a e_c e_ct e_pre e_post e_cx]; try assumption; try lia.
  fold es. fold es in Ea, Ecx, Epre, Epost, Hct1, Hc1, Hpot1, Hff1.
  set (e1 := enc_byteout (enc_shift_ct es)) in *.
  destruct (shift_byteout_spec e1 v1 (tl stale)) as (Ea2 & Ecx2 & l2 & v2 & Epre2 & Epost2 & Hbuf2 & Hct2 & Hc2 & Hpot2 & Hff2);
    try assumption; try lia.
  { rewrite Epre. exact Hbuf1. }
  { rewrite Epre. cbn [hd]. exact Hff1. }
  set (e2 := enc_byteout (enc_shift_ct e1)) in *.
  rewrite Epre in Epre2, Hbuf2.
  rewrite Epost2.
  destruct (buf_ok_head _ _ Hbuf2) as [Hv2b Hv2m]. cbn [hd] in Hv2m.
  change 0xFF with 255.
  destruct (Z.eqb_spec v2 255) as [Hv|Hv].
  - exists l2, (l1 :: e_pre e). rewrite Epre2.
    split; [reflexivity|]. split; [discriminate|].
    split; [intros Hl; specialize (Hv2m Hl); lia | eapply buf_ok_tail; exact Hbuf2].
  - cbn [e_pre]. exists v2, (l2 :: l1 :: e_pre e). rewrite Epre2.
    split; [reflexivity|]. split; [discriminate|]. split; [exact Hv | exact Hbuf2].
Qed.

(* ---------- the user-facing form of the marker property ---------- *)
Definition no_marker_in (out : list Z) : Prop :=
  (forall l1 y l2, out = l1 ++ 255 :: y :: l2 -> y <= 0x8F) /\ (forall l1, out <> l1 ++ [255]).

Theorem enc_flush_no_marker : forall e, enc_inv e ->
  let out := enc_flush e in
  Forall is_byteP out /\ no_marker_in out /\ out <> [].
Proof.
  intros e Hinv. cbv zeta. unfold enc_flush, enc_get_buffer, enc_bp, zlen.
  destruct (flush_state_spec e Hinv) as (h & P' & EP & HP' & Hh & Hbuf).
  rewrite EP.
  destruct (Z.ltb_spec (Z.of_nat (length (h :: P'))) 1) as [Hl|_]; [simpl length in Hl; lia|].
  destruct Hbuf as [Hb Hn].
  (* rev (h :: P') = d :: out *)
  remember (rev (h :: P')) as R eqn:ER.
  assert (ER' : h :: P' = rev R) by (rewrite ER, rev_involutive; reflexivity).
  destruct R as [|d out]; [destruct P'; simpl in ER'; discriminate|].
  cbn [tl].
  assert (HbR : Forall is_byteP (d :: out)).
  { rewrite ER. apply Forall_rev. exact Hb. }
  split; [inversion HbR; assumption|]. split; [split|].
  - intros l1 y l2 E. rewrite E in ER'.
    change (d :: l1 ++ 255 :: y :: l2) with ((d :: l1) ++ 255 :: y :: l2) in ER'.
    rewrite rev_app_distr in ER'. cbn [rev] in ER'. rewrite <- !app_assoc in ER'. cbn [app] in ER'.
    rewrite ER' in Hn. apply (nomark_rev_app _ _ _ _ Hn). reflexivity.
  - intros l1 E. rewrite E in ER'.
    change (d :: l1 ++ [255]) with ((d :: l1) ++ [255]) in ER'.
    rewrite rev_app_distr in ER'. cbn [rev app] in ER'. inversion ER'. congruence.
  - intros E. rewrite E in ER'. cbn [rev app] in ER'. inversion ER'. subst. apply HP'. reflexivity.
Qed.

(* mq_no_marker: any decision sequence from a fresh encoder, any valid initial contexts *)
Theorem mq_no_marker_cx : forall cx l, Forall cx_ok cx ->
  let out := mq_encode_cx cx l in
  Forall is_byteP out /\ no_marker_in out /\ out <> [].
Proof.
  intros cx l Hcx. unfold mq_encode_cx. apply enc_flush_no_marker.
  apply enc_encode_list_inv. apply enc_new_inv. exact Hcx.
Qed.

Theorem mq_no_marker : forall n l,
  let out := mq_encode n l in
  Forall is_byteP out /\ no_marker_in out /\ out <> [].
Proof.
  intros n l. unfold mq_encode. apply mq_no_marker_cx. apply zrepeat_Forall. exact cx_ok_0.
Qed.

(* the encoder invariant along every decision sequence, as one statement *)
Theorem mq_encoder_invariant : forall cx l, Forall cx_ok cx ->
  let e := enc_encode_list (enc_new_cx cx) l in
  0x8000 <= e_a e < 0x10000 /\ 1 <= e_ct e <= 12 /\
  0 <= e_c e /\ (e_c e + e_a e) * 2 ^ e_ct e <= 0x9000000 /\ e_c e < 2 ^ 27.
Proof.
  intros cx l Hcx. cbv zeta.
  pose proof (enc_encode_list_inv l _ (enc_new_inv cx Hcx)) as H.
  pose proof (enc_inv_c_bound _ H) as (H1 & H2 & H3).
  destruct H as [[Ha Hct Hc Hpot _ _] Ha8]. repeat split; try lia; assumption.
Qed.
