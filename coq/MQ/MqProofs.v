(* MQ coder: tables, arithmetic helper lemmas, encoder invariant, no-marker theorem,
   decoder in-bounds theorem. *)
From V Require Import Common.Base MQ.MqModel.
Require V.Gen.MQTables_gen.

(* ------------------------------------------------------------------------------------
   Finite ranges by computation
   ------------------------------------------------------------------------------------ *)
Definition zrange (n : nat) : list Z := map Z.of_nat (seq 0 n).

Lemma zrange_forallb : forall (n : nat) (f : Z -> bool),
  forallb f (zrange n) = true -> forall i, 0 <= i < Z.of_nat n -> f i = true.
Proof.
  intros n f H i Hi. rewrite forallb_forall in H. apply H.
  unfold zrange. apply in_map_iff. exists (Z.to_nat i). split; [lia|].
  apply in_seq. lia.
Qed.

(* ------------------------------------------------------------------------------------
   mq_tables_wf : the regenerated probability tables are well formed
   ------------------------------------------------------------------------------------ *)
Definition mq_state_ok_b (s : Z) : bool :=
  (0 <? tbl_qe s) && (tbl_qe s <=? 0x5601) && (tbl_qe s <? 0x8000) &&
  (0 <=? tbl_nmps s) && (tbl_nmps s <? 47) && (0 <=? tbl_nlps s) && (tbl_nlps s <? 47) &&
  ((tbl_switch s =? 0) || (tbl_switch s =? 1)).

Definition mq_tables_wf_b : bool :=
  (length MQTables_gen.mq_qe =? 47)%nat && (length MQTables_gen.mq_nmps =? 47)%nat &&
  (length MQTables_gen.mq_nlps =? 47)%nat && (length MQTables_gen.mq_switch =? 47)%nat &&
  forallb mq_state_ok_b (zrange 47).

Theorem mq_tables_wf : mq_tables_wf_b = true.
Proof. vm_compute. reflexivity. Qed.

Lemma tbl_facts : forall s, 0 <= s < 47 ->
  0 < tbl_qe s <= 0x5601 /\ 0 <= tbl_nmps s < 47 /\ 0 <= tbl_nlps s < 47 /\
  (tbl_switch s = 0 \/ tbl_switch s = 1).
Proof.
  intros s Hs. pose proof mq_tables_wf as H. unfold mq_tables_wf_b in H.
  apply andb_true_iff in H. destruct H as [_ H].
  pose proof (zrange_forallb 47 mq_state_ok_b H s ltac:(lia)) as Hb.
  unfold mq_state_ok_b in Hb.
  repeat (apply andb_true_iff in Hb; destruct Hb as [Hb ?]).
  repeat match goal with
  | H : (_ <? _) = true |- _ => apply Z.ltb_lt in H
  | H : (_ <=? _) = true |- _ => apply Z.leb_le in H
  end.
  repeat split; lia.
Qed.

(* the probability-estimation structure the conditional exchange relies on: the LPS estimate
   never exceeds 0x5601 < 0x8000 <= a *)
Lemma tbl_qe_bound : forall s, 0 <= s < 47 -> 0 < tbl_qe s < 0x8000.
Proof. intros s Hs. destruct (tbl_facts s Hs) as [H _]. lia. Qed.

(* ------------------------------------------------------------------------------------
   Context bytes
   ------------------------------------------------------------------------------------ *)
Definition cx_ok (b : Z) : Prop := 0 <= b < 256 /\ cx_state b < 47.

Lemma cx_byte_facts : forall b, 0 <= b < 256 ->
  0 <= cx_state b < 128 /\ (cx_mps b = 0 \/ cx_mps b = 1).
Proof.
  intros b Hb.
  assert (H : forallb (fun b => (0 <=? cx_state b) && (cx_state b <? 128) &&
                                ((cx_mps b =? 0) || (cx_mps b =? 1))) (zrange 256) = true)
    by (vm_compute; reflexivity).
  pose proof (zrange_forallb 256 _ H b ltac:(lia)) as Hx. cbv beta in Hx.
  apply andb_true_iff in Hx. destruct Hx as [Hx H3].
  apply andb_true_iff in Hx. destruct Hx as [H1 H2].
  apply Z.leb_le in H1. apply Z.ltb_lt in H2.
  apply orb_true_iff in H3. split; [lia|].
  destruct H3 as [H3|H3]; apply Z.eqb_eq in H3; auto.
Qed.

Lemma mk_cx_facts : forall s m, 0 <= s < 128 -> 0 <= m <= 1 ->
  cx_state (mk_cx s m) = s /\ cx_mps (mk_cx s m) = m /\ 0 <= mk_cx s m < 256.
Proof.
  intros s m Hs Hm.
  assert (H : forallb (fun s => forallb (fun m =>
              (cx_state (mk_cx s m) =? s) && (cx_mps (mk_cx s m) =? m) &&
              (0 <=? mk_cx s m) && (mk_cx s m <? 256)) (zrange 2)) (zrange 128) = true)
    by (vm_compute; reflexivity).
  pose proof (zrange_forallb 128 _ H s ltac:(lia)) as H1. cbv beta in H1.
  pose proof (zrange_forallb 2 _ H1 m ltac:(lia)) as H2. cbv beta in H2.
  repeat (apply andb_true_iff in H2; destruct H2 as [H2 ?]).
  repeat match goal with
  | H : (_ <? _) = true |- _ => apply Z.ltb_lt in H
  | H : (_ <=? _) = true |- _ => apply Z.leb_le in H
  | H : (_ =? _) = true |- _ => apply Z.eqb_eq in H
  end. repeat split; lia.
Qed.

Lemma cx_ok_0 : cx_ok 0.
Proof. unfold cx_ok. vm_compute. repeat split; congruence. Qed.

Lemma cx_ok_state : forall b, cx_ok b -> 0 <= cx_state b < 47.
Proof. intros b [Hb Hs]. pose proof (cx_byte_facts b Hb). lia. Qed.

Lemma cx_ok_mps : forall b, cx_ok b -> cx_mps b = 0 \/ cx_mps b = 1.
Proof. intros b [Hb Hs]. apply (cx_byte_facts b Hb). Qed.

Lemma cx_after_mps_ok : forall b, cx_ok b -> cx_ok (cx_after_mps b).
Proof.
  intros b Hb. pose proof (cx_ok_state b Hb) as Hs. pose proof (cx_ok_mps b Hb) as Hm.
  destruct (tbl_facts _ Hs) as (_ & Hn & _ & _).
  unfold cx_after_mps.
  destruct (mk_cx_facts (tbl_nmps (cx_state b)) (cx_mps b) ltac:(lia) ltac:(lia)) as (E1 & E2 & E3).
  split; [exact E3 | rewrite E1; lia].
Qed.

Lemma cx_after_lps_ok : forall b, cx_ok b -> cx_ok (cx_after_lps b).
Proof.
  intros b Hb. pose proof (cx_ok_state b Hb) as Hs. pose proof (cx_ok_mps b Hb) as Hm.
  destruct (tbl_facts _ Hs) as (_ & _ & Hn & _).
  unfold cx_after_lps. cbv zeta.
  set (m := if tbl_switch (cx_state b) =? 1 then 1 - cx_mps b else cx_mps b).
  assert (Hm' : 0 <= m <= 1) by (unfold m; destruct (tbl_switch (cx_state b) =? 1); lia).
  destruct (mk_cx_facts (tbl_nlps (cx_state b)) m ltac:(lia) Hm') as (E1 & E2 & E3).
  split; [exact E3 | rewrite E1; lia].
Qed.

(* lists of contexts *)
Lemma znth_Forall : forall (P : Z -> Prop) l i d, Forall P l -> P d -> P (znth l i d).
Proof.
  intros P l i d Hl Hd. unfold znth. destruct (i <? 0); [exact Hd|].
  generalize (Z.to_nat i). induction Hl; intros [|k]; simpl; auto.
Qed.

Lemma upd_nat_Forall : forall (P : Z -> Prop) l n v, Forall P l -> P v -> Forall P (upd_nat l n v).
Proof.
  intros P l n v Hl Hv. revert n. induction Hl; intros [|k]; simpl; auto.
Qed.

Lemma upd_Forall : forall (P : Z -> Prop) l i v, Forall P l -> P v -> Forall P (upd l i v).
Proof. intros. unfold upd. destruct (i <? 0); auto using upd_nat_Forall. Qed.

Lemma upd_nat_length : forall l n v, length (upd_nat l n v) = length l.
Proof. induction l; intros [|k] v; simpl; auto. Qed.

Lemma upd_length : forall l i v, length (upd l i v) = length l.
Proof. intros. unfold upd. destruct (i <? 0); auto using upd_nat_length. Qed.

Lemma zrepeat_Forall : forall (P : Z -> Prop) x n, P x -> Forall P (zrepeat_nat x n).
Proof. induction n; simpl; auto. Qed.

Lemma zrepeat_length : forall (x : Z) n, length (zrepeat_nat x n) = n.
Proof. induction n; simpl; auto. Qed.

(* ------------------------------------------------------------------------------------
   Arithmetic helpers
   ------------------------------------------------------------------------------------ *)
Lemma u32_small : forall x, 0 <= x < 2 ^ 32 -> u32 x = x.
Proof. intros. unfold u32, wrapU. apply Z.mod_small. assumption. Qed.

Lemma u8_small : forall x, 0 <= x < 256 -> u8 x = x.
Proof. intros. unfold u8, wrapU. apply Z.mod_small. change (2 ^ 8) with 256. assumption. Qed.

Lemma land_pow2 : forall a n, 0 <= n ->
  Z.land a (2 ^ n) = if Z.testbit a n then 2 ^ n else 0.
Proof.
  intros a n Hn. apply Z.bits_inj'. intros i Hi.
  rewrite Z.land_spec, Z.pow2_bits_eqb by assumption.
  destruct (Z.eqb_spec n i) as [->|Hne].
  - destruct (Z.testbit a i); [rewrite Z.pow2_bits_true by assumption | rewrite Z.bits_0]; reflexivity.
  - rewrite andb_false_r.
    destruct (Z.testbit a n); [rewrite Z.pow2_bits_false by assumption | rewrite Z.bits_0]; reflexivity.
Qed.

(* test of a single bit of a value known to lie below the next power of two *)
Lemma land_pow2_eqb : forall a n, 0 <= n -> 0 <= a < 2 ^ (n + 1) ->
  (Z.land a (2 ^ n) =? 0) = (a <? 2 ^ n).
Proof.
  intros a n Hn Ha. rewrite land_pow2 by assumption.
  assert (Hp : 0 < 2 ^ n) by (apply Z.pow_pos_nonneg; lia).
  assert (Hp1 : 2 ^ (n + 1) = 2 * 2 ^ n) by (rewrite Z.pow_add_r by lia; lia).
  destruct (Z.ltb_spec a (2 ^ n)) as [Hlt|Hge].
  - assert (Z.testbit a n = false) as ->.
    { apply Z.testbit_false; [assumption|]. rewrite Z.div_small by lia. reflexivity. }
    reflexivity.
  - assert (Z.testbit a n = true) as ->.
    { apply Z.testbit_true; [assumption|].
      assert (a / 2 ^ n = 1) as ->; [|reflexivity].
      symmetry. apply Z.div_unique with (r := a - 2 ^ n); lia. }
    destruct (Z.eqb_spec (2 ^ n) 0); lia.
Qed.

Lemma land_ones_mod : forall a n, 0 <= n -> Z.land a (2 ^ n - 1) = a mod 2 ^ n.
Proof. intros. rewrite <- Z.land_ones by assumption. rewrite Z.ones_equiv. reflexivity. Qed.

Lemma lor_ones_eq : forall a n, 0 <= n ->
  Z.lor a (Z.ones n) = a - a mod 2 ^ n + Z.ones n.
Proof.
  intros a n Hn.
  set (hi := (a / 2 ^ n) * 2 ^ n).
  assert (Hp : 0 < 2 ^ n) by (apply Z.pow_pos_nonneg; lia).
  assert (Hhi : a - a mod 2 ^ n = hi).
  { unfold hi. pose proof (Z.div_mod a (2 ^ n) ltac:(lia)). lia. }
  rewrite Hhi.
  assert (Hdisj : Z.land hi (Z.ones n) = 0).
  { apply Z.bits_inj'. intros i Hi. rewrite Z.land_spec, Z.bits_0.
    destruct (Z.ltb_spec i n).
    - unfold hi. rewrite Z.mul_pow2_bits_low by assumption. reflexivity.
    - rewrite Z.ones_spec_high by lia. apply andb_false_r. }
  rewrite (Z.add_nocarry_lxor hi (Z.ones n) Hdisj), (Z.lxor_lor _ _ Hdisj).
  apply Z.bits_inj'. intros i Hi. rewrite !Z.lor_spec.
  destruct (Z.ltb_spec i n).
  - rewrite Z.ones_spec_low by lia. rewrite !orb_true_r. reflexivity.
  - rewrite Z.ones_spec_high by lia. rewrite !orb_false_r.
    unfold hi. rewrite Z.mul_pow2_bits by assumption.
    rewrite Z.div_pow2_bits by lia. f_equal. lia.
Qed.

Lemma shiftr_div : forall a n, 0 <= n -> Z.shiftr a n = a / 2 ^ n.
Proof. intros. apply Z.shiftr_div_pow2. assumption. Qed.

Lemma shiftl_mul : forall a n, 0 <= n -> Z.shiftl a n = a * 2 ^ n.
Proof. intros. apply Z.shiftl_mul_pow2. assumption. Qed.
