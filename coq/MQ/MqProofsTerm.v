(* MQ encoder, predictable termination (ErtermEnc): the bytes GetBuffer returns after
   Encode* ; ErtermEnc contain no FF followed by > 0x8F and do not end in FF; the loop needs at
   most 2 of its 4 units of fuel and the final buffer[bp] access is in range. *)
From V Require Import Common.Base MQ.MqModel MQ.MqProofs.

(* reversed buffer prefix P = buffer[0..bp-1]; GetBuffer = tl (rev P) *)
Lemma buffer_no_marker : forall P, buf_ok P -> (P = [] \/ hd 0 P <> 255) ->
  let out := tl (rev P) in Forall is_byteP out /\ no_marker_in out.
Proof.
  intros P [Hb Hn] Hh. cbv zeta.
  remember (rev P) as R eqn:ER.
  assert (ER' : P = rev R) by (rewrite ER, rev_involutive; reflexivity).
  destruct R as [|d out].
  - simpl. split; [constructor|]. split.
    + intros l1 y l2 E. destruct l1; discriminate.
    + intros l1 E. destruct l1; discriminate.
  - cbn [tl].
    assert (HbR : Forall is_byteP (d :: out)) by (rewrite ER; apply Forall_rev; exact Hb).
    split; [inversion HbR; assumption|]. split.
    + intros l1 y l2 E. rewrite E in ER'.
      change (d :: l1 ++ 255 :: y :: l2) with ((d :: l1) ++ 255 :: y :: l2) in ER'.
      rewrite rev_app_distr in ER'. cbn [rev] in ER'. rewrite <- !app_assoc in ER'. cbn [app] in ER'.
      rewrite ER' in Hn. apply (nomark_rev_app _ _ _ _ Hn). reflexivity.
    + intros l1 E. rewrite E in ER'.
      change (d :: l1 ++ [255]) with ((d :: l1) ++ [255]) in ER'.
      rewrite rev_app_distr in ER'. cbn [rev app] in ER'.
      destruct Hh as [Hh|Hh]; [rewrite Hh in ER'; discriminate|]. rewrite ER' in Hh. simpl in Hh. congruence.
Qed.

(* loop invariant of ErtermEnc (and of the two byteouts of Flush) *)
Record term_inv (e : enc) : Prop := {
  ti_ct : 1 <= e_ct e <= 12;
  ti_c : 0 <= e_c e;
  ti_pot : (e_c e + 1) * 2 ^ e_ct e <= 0x9000000;
  ti_buf : exists last stale, e_post e = last :: stale /\ buf_ok (last :: e_pre e) /\
           (hd 0 (e_pre e) = 255 -> last * 2 ^ 27 + (e_c e + 1) * 2 ^ e_ct e <= 0x90 * 2 ^ 27) }.

Lemma enc_inv_term_inv : forall e, enc_inv e -> term_inv e.
Proof.
  intros e [[Ha Hct Hc Hpot (last & stale & Hpost & Hbuf & Hff) _] Ha8].
  assert (Hp : 0 <= 2 ^ e_ct e) by (apply Z.pow_nonneg; lia).
  assert (Hm : (e_c e + 1) * 2 ^ e_ct e <= (e_c e + e_a e) * 2 ^ e_ct e)
    by (apply Z.mul_le_mono_nonneg_r; lia).
  constructor; try assumption; try lia.
  exists last, stale. split; [exact Hpost|]. split; [exact Hbuf|].
  intros Hp'. specialize (Hff Hp'). lia.
Qed.

Lemma erterm_iter : forall e, term_inv e ->
  let e1 := enc_byteout (mkEnc (e_a e) (shl32 (e_c e) (e_ct e)) 0 (e_pre e) (e_post e) (e_cx e)) in
  term_inv e1 /\ 7 <= e_ct e1 <= 8.
Proof.
  intros e [Hct Hc Hpot (last & stale & Hpost & Hbuf & Hff)]. cbv zeta.
  pose proof (shift_byteout_spec e last stale Hct Hc Hpot Hpost Hbuf Hff) as Hsp. cbv zeta in Hsp.
  assert (E : enc_byteout (mkEnc (e_a e) (shl32 (e_c e) (e_ct e)) 0 (e_pre e) (e_post e) (e_cx e))
              = enc_byteout (enc_shift_ct e)).
  { unfold enc_byteout, enc_shift_ct. cbn [e_a e_c e_pre e_post e_cx]. destruct (e_post e); reflexivity. }
  rewrite E.
  destruct Hsp as (_ & _ & last' & v & Epre & Epost & Hbuf' & Hct' & Hc' & Hpot' & Hff').
  split; [|lia].
  constructor; try assumption; try lia.
  exists v, (tl stale). split; [exact Epost|]. rewrite Epre. split; [exact Hbuf'|]. cbn [hd]. exact Hff'.
Qed.

Lemma erterm_loop_spec : forall fuel k e, term_inv e -> k <= 7 * Z.of_nat fuel ->
  fst (enc_erterm_loop fuel k e) <= 0 /\ term_inv (snd (enc_erterm_loop fuel k e)).
Proof.
  induction fuel as [|f IH]; intros k e Hinv Hk.
  - cbn [enc_erterm_loop fst snd]. split; [lia | exact Hinv].
  - cbn [enc_erterm_loop]. destruct (Z.ltb_spec 0 k) as [Hpos|Hle]; [|cbn [fst snd]; split; [lia | exact Hinv]].
    destruct (erterm_iter e Hinv) as [Hinv1 Hct1]. cbv zeta in Hinv1, Hct1.
    apply IH; [exact Hinv1|]. rewrite Nat2Z.inj_succ in Hk.
    match goal with |- k - ?x <= _ => generalize dependent x end. intros x Hx. lia.
Qed.

Theorem enc_erterm_no_marker : forall e, enc_inv e ->
  enc_erterm_panics e = false /\
  fst (enc_erterm_loop 4 (11 - e_ct e + 1) e) <= 0 /\
  let out := enc_get_buffer (enc_erterm e) in Forall is_byteP out /\ no_marker_in out.
Proof.
  intros e Hinv. pose proof (enc_inv_term_inv e Hinv) as Ht.
  pose proof (ti_ct _ Ht) as Hct.
  destruct (erterm_loop_spec 4 (11 - e_ct e + 1) e Ht ltac:(change (Z.of_nat 4) with 4; lia)) as [Hk H1].
  unfold enc_erterm_panics, enc_erterm.
  set (e1 := snd (enc_erterm_loop 4 (11 - e_ct e + 1) e)) in *.
  destruct H1 as [Hct1 Hc1 Hpot1 (last & stale & Hpost & Hbuf & Hff)].
  rewrite Hpost. split; [reflexivity|]. split; [exact Hk|]. cbv zeta.
  assert (Hp : 128 <= 2 ^ e_ct e1 -> e_c e1 + 1 <= 1179648) by nia.
  change 0xFF with 255.
  assert (Hout : forall P, buf_ok P -> (P = [] \/ hd 0 P <> 255) ->
            forall e', e_pre e' = P ->
            Forall is_byteP (enc_get_buffer e') /\ no_marker_in (enc_get_buffer e')).
  { intros P HP Hh e' EP. unfold enc_get_buffer, enc_bp, zlen. rewrite EP.
    destruct (Z.ltb_spec (Z.of_nat (length P)) 1) as [Hl|Hl].
    - split; [constructor|]. split.
      + intros l1 y l2 E. destruct l1; discriminate.
      + intros l1 E. destruct l1; discriminate.
    - exact (buffer_no_marker P HP Hh). }
  destruct (buf_ok_head _ _ Hbuf) as [Hlb Hlm].
  destruct (Z.eqb_spec last 255) as [Hl|Hl].
  - (* buffer[bp] = FF : nothing more is written; the FF is outside GetBuffer *)
    apply (Hout (e_pre e1)); [eapply buf_ok_tail; exact Hbuf | | reflexivity].
    destruct (e_pre e1) as [|x t]; [left; reflexivity | right]. simpl in *. intros Hx. specialize (Hlm Hx). lia.
  - (* one more byteout; no carry can reach the previous byte *)
    assert (Hpw : 1 <= 2 ^ e_ct e1) by (assert (0 < 2 ^ e_ct e1) by (apply Z.pow_pos_nonneg; lia); lia).
    assert (Hmul : e_c e1 + 1 <= (e_c e1 + 1) * 2 ^ e_ct e1) by nia.
    assert (Hbo : bo_pre 1 e1 last stale).
    { constructor; try assumption; try lia. }
    destruct (byteout_spec 1 e1 last stale Hbo) as (_ & _ & last' & v & Epre & _ & Hbuf' & _).
    apply (Hout (last' :: e_pre e1)); [eapply buf_ok_tail; exact Hbuf' | right | exact Epre].
    cbn [hd].
    (* last' = last because c < 2^27 *)
    assert (Hc27 : e_c e1 < 2 ^ 27).
    { change (2 ^ 27) with 134217728.
      assert (H2 : 2 <= 2 ^ e_ct e1) by (change 2 with (2 ^ 1) at 1; apply Z.pow_le_mono_r; lia).
      assert ((e_c e1 + 1) * 2 <= (e_c e1 + 1) * 2 ^ e_ct e1) by (apply Z.mul_le_mono_nonneg_l; lia).
      lia. }
    revert Epre. unfold enc_byteout. rewrite Hpost.
    change 0xFF with 255. destruct (Z.eqb_spec last 255); [contradiction|].
    change 0x8000000 with (2 ^ 27).
    rewrite (land_pow2_eqb (e_c e1) 27) by (change (2 ^ (27 + 1)) with 268435456; change (2 ^ 27) with 134217728 in Hc27; lia).
    destruct (Z.ltb_spec (e_c e1) (2 ^ 27)); [|lia]. cbn [e_pre]. intros Epre. inversion Epre. congruence.
Qed.

Theorem mq_erterm_no_marker : forall cx l, Forall cx_ok cx ->
  let e := enc_encode_list (enc_new_cx cx) l in
  enc_erterm_panics e = false /\
  let out := enc_get_buffer (enc_erterm e) in Forall is_byteP out /\ no_marker_in out.
Proof.
  intros cx l Hcx. cbv zeta.
  destruct (enc_erterm_no_marker _ (enc_encode_list_inv l _ (enc_new_inv cx Hcx))) as (H1 & _ & H2).
  split; assumption.
Qed.

(* ====================================================================================
   RAW (bypass) segments: BypassInitEnc ; BypassEncode* ; BypassFlushEnc(erterm).
   The bytes this sequence leaves in the buffer above the starting position: every 0xFF is
   followed by a byte < 0x80, and the segment does not end in 0xFF (for erterm = true this
   is the FF 2A rule; for erterm = false a trailing FF / FF 7F is dropped) - provided the byte
   before the segment is not 0xFF (true after Flush and after ErtermEnc, see above).
   ==================================================================================== *)
Fixpoint nm128_rev (l : list Z) : Prop :=
  match l with
  | y :: t => match t with x :: _ => (x = 255 -> y < 128) | [] => True end /\ nm128_rev t
  | [] => True
  end.

Lemma nm128_rev_tail : forall y t, nm128_rev (y :: t) -> nm128_rev t.
Proof. intros y t [_ H]. exact H. Qed.

Lemma nm128_rev_app : forall A y x B, nm128_rev (A ++ y :: x :: B) -> x = 255 -> y < 128.
Proof.
  induction A as [|a A IH]; intros y x B H Hx.
  - simpl in H. tauto.
  - apply (IH y x B); [|exact Hx]. simpl app in H. eapply nm128_rev_tail. exact H.
Qed.

Definition seg_limit (sr : list Z) : Z := if hd 0 sr =? 255 then 128 else 256.

Record byp_inv (base : list Z) (e : enc) (sr : list Z) : Prop := {
  bi_pre : e_pre e = sr ++ base;
  bi_bytes : Forall is_byteP sr;
  bi_nm : nm128_rev sr;
  bi_reg : (e_ct e = bypass_ct_init /\ e_c e = 0 /\ sr = []) \/
           (1 <= e_ct e <= 8 /\ 0 <= e_c e /\ e_c e + 2 ^ e_ct e <= seg_limit sr /\
            (e_ct e = 8 -> sr <> [])) }.

Lemma byp_encode_inv : forall base e sr bit, byp_inv base e sr -> (bit = 0 \/ bit = 1) ->
  exists sr', byp_inv base (enc_bypass_encode e bit) sr'.
Proof.
  intros base e sr bit [Hpre Hb Hn Hreg] Hbit. unfold enc_bypass_encode.
  (* ct after the optional INIT -> 8 *)
  assert (Hct0 : exists ct0, (if e_ct e =? bypass_ct_init then 8 else e_ct e) = ct0 /\
            1 <= ct0 <= 8 /\ 0 <= e_c e /\ e_c e + 2 ^ ct0 <= seg_limit sr).
  { destruct Hreg as [(E & Ec & Es)|(Hct & Hc & Hl & _)].
    - rewrite E. change (bypass_ct_init =? bypass_ct_init) with true. exists 8.
      rewrite Ec, Es. unfold seg_limit. simpl. repeat split; lia.
    - destruct (Z.eqb_spec (e_ct e) bypass_ct_init) as [E|_];
        [unfold bypass_ct_init in E; lia|]. exists (e_ct e). auto. }
  destruct Hct0 as (ct0 & -> & Hct & Hc & Hl).
  assert (Hlim : seg_limit sr <= 256) by (unfold seg_limit; destruct (hd 0 sr =? 255); lia).
  assert (Hp : 2 ^ ct0 = 2 * 2 ^ (ct0 - 1) /\ 1 <= 2 ^ (ct0 - 1)) by (apply pow2_split; lia).
  destruct Hp as [Hp2 Hp1].
  assert (Hsh : shl32 (u32 bit) (ct0 - 1) = bit * 2 ^ (ct0 - 1)).
  { unfold shl32. replace ((0 <=? ct0 - 1) && (ct0 - 1 <? 32)) with true
      by (symmetry; apply andb_true_iff; split; [apply Z.leb_le | apply Z.ltb_lt]; lia).
    rewrite (u32_small bit) by (change (2 ^ 32) with 4294967296; lia).
    rewrite shiftl_mul by lia. apply u32_small.
    assert (2 ^ (ct0 - 1) <= 128) by lia. change (2 ^ 32) with 4294967296. nia. }
  rewrite Hsh.
  assert (Hc1 : 0 <= e_c e + bit * 2 ^ (ct0 - 1) /\
                e_c e + bit * 2 ^ (ct0 - 1) + 2 ^ (ct0 - 1) <= seg_limit sr) by nia.
  rewrite (u32_small (e_c e + bit * 2 ^ (ct0 - 1))) by (change (2 ^ 32) with 4294967296; lia).
  set (c1 := e_c e + bit * 2 ^ (ct0 - 1)) in *.
  destruct (Z.eqb_spec (ct0 - 1) 0) as [Hz|Hnz].
  - (* the byte is complete *)
    replace (ct0 - 1) with 0 in Hc1 by lia. change (2 ^ 0) with 1 in Hc1.
    rewrite (u8_small c1) by lia. change 0xFF with 255.
    exists (c1 :: sr). unfold buf_write_advance.
    constructor; cbn [e_pre e_ct e_c].
    + rewrite Hpre. reflexivity.
    + constructor; [unfold is_byteP; lia | exact Hb].
    + split; [|exact Hn]. destruct sr as [|x t]; [exact I|]. unfold seg_limit in Hc1. cbn [hd] in Hc1.
      intros Hx. rewrite Hx in Hc1. change (255 =? 255) with true in Hc1. lia.
    + right. unfold seg_limit. cbn [hd].
      destruct (Z.eqb_spec c1 255) as [E|E]; change (2 ^ 7) with 128; change (2 ^ 8) with 256;
        repeat split; try lia; intros; discriminate.
  - exists sr. constructor; cbn [e_pre e_ct e_c]; try assumption.
    right. repeat split; try lia.
Qed.

Lemma byp_encode_list_inv : forall bits base e sr, byp_inv base e sr ->
  Forall (fun b => b = 0 \/ b = 1) bits ->
  exists sr', byp_inv base (fold_left enc_bypass_encode bits e) sr'.
Proof.
  induction bits as [|b t IH]; intros base e sr H Hb; [exists sr; exact H|].
  inversion Hb; subst. cbn [fold_left].
  destruct (byp_encode_inv base e sr b H ltac:(assumption)) as (sr1 & H1).
  exact (IH base _ sr1 H1 ltac:(assumption)).
Qed.

(* the padding loop: alternating 0,1,0,... below the bits already present *)
Lemma bypass_pad_spec : forall fuel ct c bitv, 0 <= ct <= Z.of_nat fuel -> ct <= 8 ->
  (bitv = 0 \/ bitv = 1) -> 0 <= c -> c + 2 ^ ct <= 256 ->
  fst (bypass_pad fuel ct c bitv) = 0 /\
  c <= snd (bypass_pad fuel ct c bitv) /\
  (1 <= ct -> snd (bypass_pad fuel ct c bitv) + 1 <= c + (if bitv =? 0 then 2 ^ (ct - 1) else 2 ^ ct)) /\
  (ct = 0 -> snd (bypass_pad fuel ct c bitv) = c).
Proof.
  induction fuel as [|f IH]; intros ct c bitv Hct H8 Hb Hc Hl.
  - cbn [bypass_pad fst snd]. change (Z.of_nat 0) with 0 in Hct. repeat split; try lia.
  - cbn [bypass_pad]. destruct (Z.ltb_spec 0 ct) as [Hpos|Hle];
      [|cbn [fst snd]; repeat split; lia].
    assert (Hp : 2 ^ ct = 2 * 2 ^ (ct - 1) /\ 1 <= 2 ^ (ct - 1)) by (apply pow2_split; lia).
    destruct Hp as [Hp2 Hp1].
    assert (Hsh : shl32 (u32 bitv) (ct - 1) = bitv * 2 ^ (ct - 1)).
    { unfold shl32. replace ((0 <=? ct - 1) && (ct - 1 <? 32)) with true
        by (symmetry; apply andb_true_iff; split; [apply Z.leb_le | apply Z.ltb_lt]; lia).
      rewrite (u32_small bitv) by (change (2 ^ 32) with 4294967296; lia).
      rewrite shiftl_mul by lia. apply u32_small. change (2 ^ 32) with 4294967296. destruct Hb as [E|E]; rewrite E; lia. }
    rewrite Hsh.
    rewrite (u32_small (c + bitv * 2 ^ (ct - 1))) by (change (2 ^ 32) with 4294967296; destruct Hb as [E|E]; rewrite E; lia).
    set (c' := c + bitv * 2 ^ (ct - 1)).
    set (b' := if bitv =? 0 then 1 else 0).
    assert (Hb' : b' = 0 \/ b' = 1) by (unfold b'; destruct (bitv =? 0); auto).
    destruct (IH (ct - 1) c' b') as (I1 & I2 & I3 & I4); try lia; try assumption.
    assert (Hcc : c <= c' /\ c' <= c + 2 ^ (ct - 1)) by (unfold c'; destruct Hb as [E|E]; rewrite E; lia).
    split; [exact I1|]. split; [lia|]. split; [|intros; lia].
    intros _. destruct (Z.eq_dec (ct - 1) 0) as [E0|E0].
    + rewrite (I4 E0). unfold c'. replace (ct - 1) with 0 by lia. change (2 ^ 0) with 1.
      replace ct with 1 by lia. change (2 ^ 1) with 2. change (2 ^ (1 - 1)) with 1.
      destruct Hb as [E|E]; rewrite E; [change (0 =? 0) with true | change (1 =? 0) with false]; cbv iota; lia.
    + specialize (I3 ltac:(lia)).
      assert (Hp' : 2 ^ (ct - 1) = 2 * 2 ^ (ct - 1 - 1) /\ 1 <= 2 ^ (ct - 1 - 1)) by (apply pow2_split; lia).
      destruct Hp' as [Hq2 Hq1].
      destruct Hb as [E|E].
      * assert (Eb : (b' =? 0) = false) by (unfold b'; rewrite E; reflexivity).
        assert (Ec : c' = c) by (unfold c'; rewrite E; ring).
        rewrite Eb in I3. rewrite E. change (0 =? 0) with true. cbv iota. lia.
      * assert (Eb : (b' =? 0) = true) by (unfold b'; rewrite E; reflexivity).
        assert (Ec : c' = c + 2 ^ (ct - 1)) by (unfold c'; rewrite E; ring).
        rewrite Eb in I3. rewrite E. change (1 =? 0) with false. cbv iota. lia.
Qed.

Theorem bypass_segment_no_marker : forall e0 bits erterm,
  Forall (fun b => b = 0 \/ b = 1) bits ->
  (e_pre e0 = [] \/ hd 0 (e_pre e0) <> 255) ->
  let e3 := enc_bypass_flush (fold_left enc_bypass_encode bits (enc_bypass_init e0)) erterm in
  exists seg, e_pre e3 = rev seg ++ e_pre e0 /\ Forall is_byteP seg /\
    (forall l1 y l2, seg = l1 ++ 255 :: y :: l2 -> y < 0x80) /\
    (forall l1, seg <> l1 ++ [255]).
Proof.
  intros e0 bits erterm Hbits Hbase. cbv zeta.
  assert (H0 : byp_inv (e_pre e0) (enc_bypass_init e0) []).
  { constructor; unfold enc_bypass_init; cbn [e_pre e_ct e_c].
    - reflexivity.
    - constructor.
    - exact I.
    - left. auto. }
  destruct (byp_encode_list_inv bits _ _ _ H0 Hbits) as (sr & [Hpre Hb Hn Hreg]).
  set (e2 := fold_left enc_bypass_encode bits (enc_bypass_init e0)) in *.
  (* it suffices to exhibit the reversed segment with head <> FF *)
  assert (Hfin : forall (PP : list Z) sr', PP = sr' ++ e_pre e0 ->
            Forall is_byteP sr' -> nm128_rev sr' -> (sr' = [] \/ hd 0 sr' <> 255) ->
            exists seg, PP = rev seg ++ e_pre e0 /\ Forall is_byteP seg /\
              (forall l1 y l2, seg = l1 ++ 255 :: y :: l2 -> y < 0x80) /\
              (forall l1, seg <> l1 ++ [255])).
  { intros PP sr' E Hb' Hn' Hh. exists (rev sr'). rewrite rev_involutive.
    split; [exact E|]. split; [apply Forall_rev; exact Hb'|]. split.
    - intros l1 y l2 Es. apply (f_equal (@rev Z)) in Es. rewrite rev_involutive in Es.
      rewrite rev_app_distr in Es. cbn [rev] in Es. rewrite <- !app_assoc in Es. cbn [app] in Es.
      rewrite Es in Hn'. change 0x80 with 128. apply (nm128_rev_app _ _ _ _ Hn'). reflexivity.
    - intros l1 Es. apply (f_equal (@rev Z)) in Es. rewrite rev_involutive in Es.
      rewrite rev_app_distr in Es. cbn [rev app] in Es.
      destruct Hh as [Hh|Hh]; [rewrite Hh in Es; discriminate | rewrite Es in Hh; simpl in Hh; congruence]. }
  (* previous byte tests in terms of sr *)
  assert (Hprev_is : prev_is e2 255 = true -> exists t, sr = 255 :: t).
  { unfold prev_is. rewrite Hpre. destruct sr as [|x t]; cbn [app].
    - destruct Hbase as [-> | Hh]; [discriminate|]. destruct (e_pre e0); [discriminate|].
      cbn [hd] in Hh. intros E. apply Z.eqb_eq in E. contradiction.
    - intros E. apply Z.eqb_eq in E. exists t. congruence. }
  unfold enc_bypass_flush. change 0xFF with 255. change 0x7F with 127.
  destruct Hreg as [(Ect & Ec & Es)|(Hct & Hc & Hl & H8)].
  - (* no bit was coded *)
    rewrite Ect.
    replace (bypass_ct_init <? 7) with false by reflexivity.
    replace (bypass_ct_init =? 7) with false by reflexivity.
    replace (bypass_ct_init =? 8) with false by reflexivity. cbn [andb orb].
    subst sr. cbn [app] in Hpre.
    assert (E3 : match e_pre e2 with
                 | x1 :: x2 :: p => if false then mkEnc (e_a e2) (e_c e2) (e_ct e2) p (x2 :: x1 :: e_post e2) (e_cx e2) else e2
                 | _ => e2 end = e2) by (destruct (e_pre e2) as [|x1 [|x2 p]]; reflexivity).
    rewrite E3. apply (Hfin _ []); [exact Hpre | constructor | exact I | left; reflexivity].
  - assert (Hlim : seg_limit sr <= 256) by (unfold seg_limit; destruct (hd 0 sr =? 255); lia).
    destruct ((e_ct e2 <? 7) || ((e_ct e2 =? 7) && (erterm || prev_isnt e2 255))) eqn:Eb1.
    + (* pad and write one more byte *)
      assert (Hct7 : e_ct e2 <= 7).
      { apply orb_true_iff in Eb1. destruct Eb1 as [E|E]; [apply Z.ltb_lt in E; lia|].
        apply andb_true_iff in E. destruct E as [E _]. apply Z.eqb_eq in E. lia. }
      destruct (bypass_pad_spec 8 (e_ct e2) (e_c e2) 0
                  ltac:(change (Z.of_nat 8) with 8; lia) ltac:(lia) (or_introl eq_refl) Hc ltac:(lia))
        as (P1 & P2 & P3 & _).
      destruct (bypass_pad 8 (e_ct e2) (e_c e2) 0) as [ctp cp] eqn:Epad. cbn [fst snd] in *.
      specialize (P3 ltac:(lia)). change (0 =? 0) with true in P3. cbv iota in P3.
      assert (Hp : 2 ^ e_ct e2 = 2 * 2 ^ (e_ct e2 - 1) /\ 1 <= 2 ^ (e_ct e2 - 1)) by (apply pow2_split; lia).
      destruct Hp as [Hp2 Hp1].
      rewrite (u8_small cp) by lia.
      unfold buf_write_advance. apply (Hfin _ (cp :: sr)); cbn [e_pre].
      * rewrite Hpre. reflexivity.
      * constructor; [unfold is_byteP; lia | exact Hb].
      * split; [|exact Hn]. destruct sr as [|x t]; [exact I|]. unfold seg_limit in Hl. cbn [hd] in Hl.
        intros Hx. rewrite Hx in Hl. change (255 =? 255) with true in Hl. cbv iota in Hl. lia.
      * right. cbn [hd]. lia.
    + destruct ((e_ct e2 =? 7) && prev_is e2 255) eqn:Eb2.
      * (* trailing FF: dropped unless erterm (excluded here) *)
        apply andb_true_iff in Eb2. destruct Eb2 as [E7 Epi]. apply Z.eqb_eq in E7.
        destruct (Hprev_is Epi) as (t & Esr).
        assert (Hert : erterm = false).
        { rewrite E7 in Eb1. change (7 <? 7) with false in Eb1. change (7 =? 7) with true in Eb1.
          cbn [orb andb] in Eb1. destruct erterm; [discriminate | reflexivity]. }
        rewrite Hert. rewrite Hpre, Esr. cbn [app e_pre]. subst sr.
        inversion Hb; subst. apply (Hfin _ t); [reflexivity | assumption | eapply nm128_rev_tail; exact Hn |].
        destruct t as [|y t']; [left; reflexivity | right]. cbn [hd].
        destruct Hn as [Hh _]. intros Ey. specialize (Hh Ey). lia.
      * (* nothing to pad; possibly drop FF 7F *)
        assert (Hhd : sr = [] \/ hd 0 sr <> 255).
        { destruct sr as [|x t]; [left; reflexivity | right]. cbn [hd]. intros Ex.
          unfold seg_limit in Hl. cbn [hd] in Hl. rewrite Ex in Hl. change (255 =? 255) with true in Hl.
          (* then ct <= 7, and ct < 7 or ct = 7 with prev FF would have taken an earlier branch *)
          assert (e_ct e2 <= 7).
          { destruct (Z.le_gt_cases (e_ct e2) 7); [assumption|].
            assert (E8 : e_ct e2 = 8) by lia. rewrite E8 in Hl. change (2 ^ 8) with 256 in Hl. cbv iota in Hl. lia. }
          apply orb_false_iff in Eb1. destruct Eb1 as [E1 _]. apply Z.ltb_ge in E1.
          assert (E7 : e_ct e2 = 7) by lia.
          rewrite E7 in Eb2. change (7 =? 7) with true in Eb2. cbn [andb] in Eb2.
          unfold prev_is in Eb2. rewrite Hpre in Eb2. cbn [app] in Eb2. rewrite Ex in Eb2. discriminate. }
        destruct (e_pre e2) as [|x1 [|x2 p]] eqn:Ep;
          try (apply (Hfin _ sr); [rewrite Ep; exact Hpre | assumption | assumption | assumption]).
        destruct ((e_ct e2 =? 8) && negb erterm && (x1 =? 127) && (x2 =? 255)) eqn:Eb3;
          [|apply (Hfin _ sr); [rewrite Ep; exact Hpre | assumption | assumption | assumption]].
        repeat (apply andb_true_iff in Eb3; destruct Eb3 as [Eb3 ?]).
        apply Z.eqb_eq in Eb3. repeat match goal with H : (_ =? _) = true |- _ => apply Z.eqb_eq in H end.
        subst x1 x2. cbn [e_pre].
        (* both dropped bytes belong to the segment *)
        destruct sr as [|s1 [|s2 t]].
        { exfalso. apply (H8 Eb3). reflexivity. }
        { exfalso. cbn [app] in Hpre. destruct (e_pre e0) as [|b0 bt]; [discriminate|].
          inversion Hpre; subst. destruct Hbase as [?|Hh]; [discriminate | cbn [hd] in Hh; congruence]. }
        cbn [app] in Hpre. inversion Hpre; subst.
        inversion Hb as [|? ? _ Hb2]; subst. inversion Hb2; subst.
        apply (Hfin _ t); [reflexivity | assumption | eapply nm128_rev_tail, nm128_rev_tail; exact Hn |].
        destruct t as [|y t']; [left; reflexivity | right]. cbn [hd].
        destruct Hn as [_ [Hh _]]. intros Ey. specialize (Hh Ey). lia.
Qed.
