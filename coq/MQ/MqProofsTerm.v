(* MQ encoder, predictable termination (ErtermEnc): the bytes GetBuffer returns after
   Encode* ; ErtermEnc contain no FF followed by > 0x8F and do not end in FF; the loop needs at
   most 2 of its 4 units of fuel and the final buffer[bp] access is in range. *)
From V Require Import Common.Base MQ.MqModel MQ.MqProofs.

(* reversed buffer prefix P = buffer[0..bp-1]; GetBuffer = tl (rev P) *)
Lemma buffer_no_marker : forall P, buf_ok P -> (P = [] \/ hd 0 P <> 255) ->
  let out := tl (rev P) in Forall is_byteP out /\ no_marker_in out.
Proof.
  intros P [Hb Hn] Hh. cbv zeta.
  remember (rev P) as R eqn:ER.
  assert (ER' : P = rev R) by (rewrite ER, rev_involutive; reflexivity).
  destruct R as [|d out].
  - simpl. split; [constructor|]. split.
    + intros l1 y l2 E. destruct l1; discriminate.
    + intros l1 E. destruct l1; discriminate.
  - cbn [tl].
    assert (HbR : Forall is_byteP (d :: out)) by (rewrite ER; apply Forall_rev; exact Hb).
    split; [inversion HbR; assumption|]. split.
    + intros l1 y l2 E. rewrite E in ER'.
      change (d :: l1 ++ 255 :: y :: l2) with ((d :: l1) ++ 255 :: y :: l2) in ER'.
      rewrite rev_app_distr in ER'. cbn [rev] in ER'. rewrite <- !app_assoc in ER'. cbn [app] in ER'.
      rewrite ER' in Hn. apply (nomark_rev_app _ _ _ _ Hn). reflexivity.
    + intros l1 E. rewrite E in ER'.
      change (d :: l1 ++ [255]) with ((d :: l1) ++ [255]) in ER'.
      rewrite rev_app_distr in ER'. cbn [rev app] in ER'.
      destruct Hh as [Hh|Hh]; [rewrite Hh in ER'; discriminate|]. rewrite ER' in Hh. simpl in Hh. congruence.
Qed.

(* loop invariant of ErtermEnc (and of the two byteouts of Flush) *)
Record term_inv (e : enc) : Prop := {
  ti_ct : 1 <= e_ct e <= 12;
  ti_c : 0 <= e_c e;
  ti_pot : (e_c e + 1) * 2 ^ e_ct e <= 0x9000000;
  ti_buf : exists last stale, e_post e = last :: stale /\ buf_ok (last :: e_pre e) /\
           (hd 0 (e_pre e) = 255 -> last * 2 ^ 27 + (e_c e + 1) * 2 ^ e_ct e <= 0x90 * 2 ^ 27) }.

Lemma enc_inv_term_inv : forall e, enc_inv e -> term_inv e.
Proof.
  intros e [[Ha Hct Hc Hpot (last & stale & Hpost & Hbuf & Hff) _] Ha8].
  assert (Hp : 0 <= 2 ^ e_ct e) by (apply Z.pow_nonneg; lia).
  assert (Hm : (e_c e + 1) * 2 ^ e_ct e <= (e_c e + e_a e) * 2 ^ e_ct e)
    by (apply Z.mul_le_mono_nonneg_r; lia).
  constructor; try assumption; try lia.
  exists last, stale. split; [exact Hpost|]. split; [exact Hbuf|].
  intros Hp'. specialize (Hff Hp'). lia.
Qed.

Lemma erterm_iter : forall e, term_inv e ->
  let e1 := enc_byteout (mkEnc (e_a e) (shl32 (e_c e) (e_ct e)) 0 (e_pre e) (e_post e) (e_cx e)) in
  term_inv e1 /\ 7 <= e_ct e1 <= 8.
Proof.
  intros e [Hct Hc Hpot (last & stale & Hpost & Hbuf & Hff)]. cbv zeta.
  pose proof (shift_byteout_spec e last stale Hct Hc Hpot Hpost Hbuf Hff) as Hsp. cbv zeta in Hsp.
  assert (E : enc_byteout (mkEnc (e_a e) (shl32 (e_c e) (e_ct e)) 0 (e_pre e) (e_post e) (e_cx e))
              = enc_byteout (enc_shift_ct e)).
  { unfold enc_byteout, enc_shift_ct. cbn [e_a e_c e_pre e_post e_cx]. destruct (e_post e); reflexivity. }
  rewrite E.
  destruct Hsp as (_ & _ & last' & v & Epre & Epost & Hbuf' & Hct' & Hc' & Hpot' & Hff').
  split; [|lia].
  constructor; try assumption; try lia.
  exists v, (tl stale). split; [exact Epost|]. rewrite Epre. split; [exact Hbuf'|]. cbn [hd]. exact Hff'.
Qed.

Lemma erterm_loop_spec : forall fuel k e, term_inv e -> k <= 7 * Z.of_nat fuel ->
  fst (enc_erterm_loop fuel k e) <= 0 /\ term_inv (snd (enc_erterm_loop fuel k e)).
Proof.
  induction fuel as [|f IH]; intros k e Hinv Hk.
  - cbn [enc_erterm_loop fst snd]. split; [lia | exact Hinv].
  - cbn [enc_erterm_loop]. destruct (Z.ltb_spec 0 k) as [Hpos|Hle]; [|cbn [fst snd]; split; [lia | exact Hinv]].
    destruct (erterm_iter e Hinv) as [Hinv1 Hct1]. cbv zeta in Hinv1, Hct1.
    apply IH; [exact Hinv1|]. rewrite Nat2Z.inj_succ in Hk.
    match goal with |- k - ?x <= _ => generalize dependent x end. intros x Hx. lia.
Qed.

Theorem enc_erterm_no_marker : forall e, enc_inv e ->
  enc_erterm_panics e = false /\
  fst (enc_erterm_loop 4 (11 - e_ct e + 1) e) <= 0 /\
  let out := enc_get_buffer (enc_erterm e) in Forall is_byteP out /\ no_marker_in out.
Proof.
  intros e Hinv. pose proof (enc_inv_term_inv e Hinv) as Ht.
  pose proof (ti_ct _ Ht) as Hct.
  destruct (erterm_loop_spec 4 (11 - e_ct e + 1) e Ht ltac:(change (Z.of_nat 4) with 4; lia)) as [Hk H1].
  unfold enc_erterm_panics, enc_erterm.
  set (e1 := snd (enc_erterm_loop 4 (11 - e_ct e + 1) e)) in *.
  destruct H1 as [Hct1 Hc1 Hpot1 (last & stale & Hpost & Hbuf & Hff)].
  rewrite Hpost. split; [reflexivity|]. split; [exact Hk|]. cbv zeta.
  assert (Hp : 128 <= 2 ^ e_ct e1 -> e_c e1 + 1 <= 1179648) by nia.
  change 0xFF with 255.
  assert (Hout : forall P, buf_ok P -> (P = [] \/ hd 0 P <> 255) ->
            forall e', e_pre e' = P ->
            Forall is_byteP (enc_get_buffer e') /\ no_marker_in (enc_get_buffer e')).
  { intros P HP Hh e' EP. unfold enc_get_buffer, enc_bp, zlen. rewrite EP.
    destruct (Z.ltb_spec (Z.of_nat (length P)) 1) as [Hl|Hl].
    - split; [constructor|]. split.
      + intros l1 y l2 E. destruct l1; discriminate.
      + intros l1 E. destruct l1; discriminate.
    - exact (buffer_no_marker P HP Hh). }
  destruct (buf_ok_head _ _ Hbuf) as [Hlb Hlm].
  destruct (Z.eqb_spec last 255) as [Hl|Hl].
  - (* buffer[bp] = FF : nothing more is written; the FF is outside GetBuffer *)
    apply (Hout (e_pre e1)); [eapply buf_ok_tail; exact Hbuf | | reflexivity].
    destruct (e_pre e1) as [|x t]; [left; reflexivity | right]. simpl in *. intros Hx. specialize (Hlm Hx). lia.
  - (* one more byteout; no carry can reach the previous byte *)
    assert (Hpw : 1 <= 2 ^ e_ct e1) by (assert (0 < 2 ^ e_ct e1) by (apply Z.pow_pos_nonneg; lia); lia).
    assert (Hmul : e_c e1 + 1 <= (e_c e1 + 1) * 2 ^ e_ct e1) by nia.
    assert (Hbo : bo_pre 1 e1 last stale).
    { constructor; try assumption; try lia. intros Hp'. specialize (Hff Hp'). lia. }
    destruct (byteout_spec 1 e1 last stale Hbo) as (_ & _ & last' & v & Epre & _ & Hbuf' & _).
    apply (Hout (last' :: e_pre e1)); [eapply buf_ok_tail; exact Hbuf' | right | exact Epre].
    cbn [hd].
    (* last' = last because c < 2^27 *)
    assert (Hc27 : e_c e1 < 2 ^ 27).
    { change (2 ^ 27) with 134217728.
      destruct (Z.le_gt_cases 7 (e_ct e1)) as [H7|H7].
      - assert (128 <= 2 ^ e_ct e1) by (change 128 with (2 ^ 7); apply Z.pow_le_mono_r; lia). lia.
      - (* the loop did not run: e1 = e and (c + a) * 2^ct bounds c *)
        nia. }
    revert Epre. unfold enc_byteout. rewrite Hpost.
    change 0xFF with 255. destruct (Z.eqb_spec last 255); [contradiction|].
    change 0x8000000 with (2 ^ 27).
    rewrite (land_pow2_eqb (e_c e1) 27) by (change (2 ^ (27 + 1)) with 268435456; change (2 ^ 27) with 134217728 in Hc27; lia).
    destruct (Z.ltb_spec (e_c e1) (2 ^ 27)); [|lia]. cbn [e_pre]. intros Epre. inversion Epre. congruence.
Qed.

Theorem mq_erterm_no_marker : forall cx l, Forall cx_ok cx ->
  let e := enc_encode_list (enc_new_cx cx) l in
  enc_erterm_panics e = false /\
  let out := enc_get_buffer (enc_erterm e) in Forall is_byteP out /\ no_marker_in out.
Proof.
  intros cx l Hcx. cbv zeta.
  destruct (enc_erterm_no_marker _ (enc_encode_list_inv l _ (enc_new_inv cx Hcx))) as (H1 & _ & H2).
  split; assumption.
Qed.
