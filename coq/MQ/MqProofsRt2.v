(* MQ coder: the UNBOUNDED round-trip theorem (C20, MQ bullet).

   mq_roundtrip_cx : for any valid initial context bytes and ANY list of (bit, ctx) decisions
   (bit in {0,1}, ctx < number of contexts) the decoder, fed the bytes returned by Flush and
   the same context sequence, returns exactly the bits.

   Structure of the proof (the classical interval argument with carry and bit stuffing):
   * D = dummy :: Flush output ++ [FF]; beyond it every byte is FF (the decoder's sentinel /
     marker rule).  wt i = 128 for a byte that follows an FF and is <= 0x8F, else 256;
     Tv k = the number formed by the first k bytes with these weights.
   * encL e = the number represented by the encoder buffer and code register.  byteout keeps
     it, a renormalisation shift doubles it, Encode adds 0 or Qe (byteout_exact, EC_shift, ...).
   * compl L H P j ("completion"): every longer prefix of D lies in [L, H): L*W < (Tv k + 1)*P
     and Tv k * P < H*W for the weight product W of bytes j..k-1.  It holds for the final state
     by the analysis of Flush (EC_flush: setbits leaves the low 15 bits set, the two byteouts
     emit all but all-ones bits, the decoder pads with ones) and is propagated BACKWARDS over
     byteout / shift / interval choice (EC_byteout, EC_shift, EC_shrink, ECa_encode_back); the
     step over byteout is where the "emitted prefix = floor" fact enters, which is what makes
     the argument sound in the presence of FF followed by a byte >= 0x80.
   * DS e d k: decoder state d (having consumed k bytes of D) versus encoder state e at the
     same decision index: a equal, contexts equal, c_dec = Tv k * 2^(16-ct_d) - 2^16 * encL e,
     weights aligned.  joint_decode shows that one Decode returns the encoded bit and
     re-establishes DS (the comparison Chigh < Qe is decided by the completion bounds of the
     encoder's chosen sub-interval), joint_renorm runs both renormalisation loops in lock step;
     no uint32 operation of the decoder wraps along the way (0 <= c_dec < a * 2^16). *)
From V Require Import Common.Base MQ.MqModel MQ.MqProofs MQ.MqProofsDec MQ.MqProofsRt.


(* exact arithmetic of byteout: the emitted byte v, the possibly incremented previous byte and
   the kept register bits represent the same number *)
Lemma byteout_exact : forall s e last stale, bo_pre s e last stale ->
  let e' := enc_byteout e in
  exists last' v,
    e_pre e' = last' :: e_pre e /\ e_post e' = v :: tl stale /\
    e_a e' = e_a e /\ e_cx e' = e_cx e /\
    (last' = last \/ last' = last + 1) /\ 0 <= v <= 255 /\
    ((last' = 255 /\ e_ct e' = 7 /\ v <= 143) \/ (last' <> 255 /\ e_ct e' = 8)) /\
    0 <= e_c e' < 2 ^ (27 - e_ct e') /\
    (last' - last) * 2 ^ 27 + v * 2 ^ (27 - e_ct e') + e_c e' = e_c e.
Proof.
  intros s e last stale [Hpost Hbuf Hc Hs Hpot Hff]. cbv zeta.
  unfold enc_byteout. rewrite Hpost.
  destruct (buf_ok_head _ _ Hbuf) as [Hlb Hlm].
  unfold is_byteP in Hlb.
  set (c := e_c e) in *.
  change 0xFF with 255. change 0xFFFFF with (2 ^ 20 - 1). change 0x7FFFF with (2 ^ 19 - 1).
  change 0x8000000 with (2 ^ 27). change 0x7FFFFFF with (2 ^ 27 - 1).
  rewrite !land_ones_mod by lia. rewrite !shiftr_div by lia.
  rewrite (land_pow2_eqb c 27) by (change (2 ^ (27 + 1)) with 268435456; lia).
  change (2 ^ 27) with 134217728 in *. change (2 ^ 20) with 1048576. change (2 ^ 19) with 524288.
  destruct (Z.eqb_spec last 255) as [Hl|Hl].
  - exists last, (u8 (c / 1048576)).
    assert (Hv : 0 <= c / 1048576 < 144) by (Z.div_mod_to_equations; lia).
    rewrite u8_small by lia. cbn [e_a e_cx e_pre e_post e_ct e_c].
    change (2 ^ (27 - 7)) with 1048576.
    repeat split; auto; try lia; try (Z.div_mod_to_equations; lia).
  - destruct (Z.ltb_spec c 134217728) as [Hlt|Hge].
    + exists last, (u8 (c / 524288)).
      assert (Hv : 0 <= c / 524288 < 256) by (Z.div_mod_to_equations; lia).
      rewrite u8_small by lia. cbn [e_a e_cx e_pre e_post e_ct e_c].
      change (2 ^ (27 - 8)) with 524288.
      repeat split; auto; try lia; try (Z.div_mod_to_equations; lia).
    + assert (Hl1 : u8 (last + 1) = last + 1) by (apply u8_small; lia).
      rewrite Hl1.
      destruct (Z.eqb_spec (last + 1) 255) as [Hl2|Hl2].
      * exists (last + 1), (u8 (c mod 134217728 / 1048576)).
        assert (Hv : 0 <= c mod 134217728 / 1048576 < 16) by (Z.div_mod_to_equations; lia).
        rewrite u8_small by lia. cbn [e_a e_cx e_pre e_post e_ct e_c].
        change (2 ^ (27 - 7)) with 1048576.
        repeat split; auto; try lia; try (Z.div_mod_to_equations; lia).
          * exists (last + 1), (u8 (c / 524288)).
        assert (Hv : u8 (c / 524288) = c / 524288 - 256).
        { rewrite u8_wrapU. unfold wrapU. change (2 ^ 8) with 256.
          symmetry. apply Z.mod_unique with (q := 1); Z.div_mod_to_equations; lia. }
        rewrite Hv. cbn [e_a e_cx e_pre e_post e_ct e_c].
        change (2 ^ (27 - 8)) with 524288.
        repeat split; auto; try lia; try (Z.div_mod_to_equations; lia).
Qed.


Section Stream.
(* d0 :: SS = the encoder buffer after Flush (dummy byte, then the returned bytes);
   SS is the decoder's input; D appends the first sentinel byte *)
Variable d0 : Z.
Variable SS : list Z.
Hypothesis Bbytes : forall i, 0 <= nth i (d0 :: SS) 255 <= 255.
Hypothesis Bnm1 : forall i, (S i < length (d0 :: SS))%nat ->
  nth i (d0 :: SS) 255 = 255 -> nth (S i) (d0 :: SS) 255 <= 143.
Hypothesis Bnm2 : forall i, S i = length (d0 :: SS) -> nth i (d0 :: SS) 255 <> 255.
Definition D : list Z := d0 :: SS ++ [255].

Lemma Sbytes : forall i, 0 <= nth i SS 255 <= 255.
Proof. intros i. exact (Bbytes (S i)). Qed.
Lemma Snm1 : forall i, (S i < length SS)%nat -> nth i SS 255 = 255 -> nth (S i) SS 255 <= 143.
Proof. intros i H1 H2. apply (Bnm1 (S i)); [simpl; lia | exact H2]. Qed.
Lemma Snm2 : forall i, S i = length SS -> nth i SS 255 <> 255.
Proof. intros i H. apply (Bnm2 (S i)). simpl. lia. Qed.

Definition Db (i : nat) : Z := nth i D 255.
Definition wt (i : nat) : Z :=
  match i with
  | O => 256
  | S p => if (Db p =? 255) && (Db i <=? 143) then 128 else 256
  end.
Fixpoint Tv (k : nat) : Z := match k with O => 0 | S p => Tv p * wt p + Db p end.
Fixpoint Wp (j n : nat) : Z := match n with O => 1 | S m => Wp j m * wt (j + m) end.

Lemma Db_0 : Db O = d0.
Proof. reflexivity. Qed.

Lemma Db_S : forall i, Db (S i) = nth i SS 255.
Proof.
  intros i. unfold Db, D. cbn [nth].
  destruct (lt_dec i (length SS)) as [Hlt|Hge].
  - apply app_nth1. exact Hlt.
  - rewrite app_nth2 by lia. rewrite (nth_overflow SS) by lia.
    destruct (i - length SS)%nat as [|[|?]]; reflexivity.
Qed.

Lemma Dbytes : forall i, 0 <= Db i <= 255.
Proof. intros [|i]; [rewrite Db_0; exact (Bbytes 0) | rewrite Db_S; apply Sbytes]. Qed.

Lemma Dlength : length D = S (S (length SS)).
Proof. unfold D. cbn [length]. rewrite app_length. simpl. lia. Qed.

Lemma Dnomark : forall p, (S p < length D)%nat -> Db p = 255 -> Db (S p) <= 143.
Proof.
  intros [|p] Hlt Hp.
  { rewrite Db_0 in Hp. rewrite Db_S.
    destruct (Nat.eq_dec 1 (length (d0 :: SS))) as [E|E].
    - exfalso. exact (Bnm2 O E Hp).
    - apply (Bnm1 O); [simpl in *; lia | exact Hp]. }
  rewrite Dlength in Hlt. rewrite Db_S in *.
  destruct (Nat.eq_dec (S p) (length SS)) as [E|E].
  - exfalso. exact (Snm2 p E Hp).
  - apply Snm1; [lia | exact Hp].
Qed.

Lemma wt_cases : forall i, wt i = 128 \/ wt i = 256.
Proof. intros [|p]; simpl; auto. destruct ((Db p =? 255) && (Db (S p) <=? 143)); auto. Qed.

Lemma wt_pos : forall i, 0 < wt i.
Proof. intros i. destruct (wt_cases i); lia. Qed.

Lemma Wp_pos : forall j n, 0 < Wp j n.
Proof. induction n; cbn [Wp]; [lia|]. pose proof (wt_pos (j + n)). nia. Qed.

Lemma Wp_S_left : forall n j, Wp j (S n) = wt j * Wp (S j) n.
Proof.
  induction n as [|m IH]; intros j.
  - cbn [Wp]. rewrite Nat.add_0_r. lia.
  - change (Wp j (S (S m))) with (Wp j (S m) * wt (j + S m)).
    rewrite IH. change (Wp (S j) (S m)) with (Wp (S j) m * wt (S j + m)).
    replace (j + S m)%nat with (S j + m)%nat by lia. ring.
Qed.

Lemma Tv_nonneg : forall k, 0 <= Tv k.
Proof. induction k; cbn [Tv]; [lia|]. pose proof (wt_pos k). pose proof (Dbytes k). nia. Qed.

Lemma Tv_mono : forall n j, Tv j * Wp j n <= Tv (j + n).
Proof.
  induction n as [|m IH]; intros j.
  - cbn [Wp]. rewrite Nat.add_0_r. lia.
  - replace (j + S m)%nat with (S (j + m)) by lia. cbn [Tv Wp].
    specialize (IH j). pose proof (wt_pos (j + m)). pose proof (Dbytes (j + m)). nia.
Qed.

(* completion bounds: L = encoder lower bound, H = upper bound (L + a), P = 2^(27-ct) = weight of
   byte j-1 (the last byte in the encoder buffer) in units of the encoder register *)
Definition compl (L H P : Z) (j : nat) : Prop :=
  (forall n, (1 <= n)%nat -> L * Wp j n < (Tv (j + n) + 1) * P) /\
  (forall n, Tv (j + n) * P < H * Wp j n).

Lemma compl_mono : forall L H L' H' P j,
  compl L' H' P j -> L <= L' -> H' <= H -> compl L H P j.
Proof.
  intros L H L' H' P j [HL HU] Hl Hh. split; intros n.
  - intros Hn. specialize (HL n Hn). pose proof (Wp_pos j n). nia.
  - specialize (HU n). pose proof (Wp_pos j n). nia.
Qed.

Lemma compl_half : forall L H P j, compl (2 * L) (2 * H) (2 * P) j -> compl L H P j.
Proof.
  intros L H P j [HL HU]. split; intros n.
  - intros Hn. specialize (HL n Hn). lia.
  - specialize (HU n). lia.
Qed.

Lemma compl_byteout : forall L H P P' j,
  compl L H P' (S j) -> P = P' * wt j -> 0 < P' -> L < (Tv (S j) + 1) * P' ->
  compl L H P j.
Proof.
  intros L H P P' j [HL HU] EP HP' Hem. pose proof (wt_pos j) as Hw. split; intros n.
  - intros Hn. destruct n as [|m]; [lia|]. rewrite Wp_S_left.
    replace (j + S m)%nat with (S j + m)%nat by lia. subst P.
    destruct m as [|m'].
    + cbn [Wp]. rewrite Nat.add_0_r. nia.
    + specialize (HL (S m') ltac:(lia)). nia.
  - destruct n as [|m].
    + cbn [Wp]. rewrite Nat.add_0_r. specialize (HU O). cbn [Wp] in HU. rewrite Nat.add_0_r in HU.
      cbn [Tv] in HU. pose proof (Dbytes j). pose proof (Tv_nonneg j). subst P. nia.
    + rewrite Wp_S_left. replace (j + S m)%nat with (S j + m)%nat by lia.
      specialize (HU m). subst P. nia.
Qed.



(* ---------- encoder state versus the completed stream D ---------- *)
Lemma firstn_snoc_gen : forall (l D0 : list Z) x, firstn (S (length l)) D0 = l ++ [x] ->
  firstn (length l) D0 = l /\ nth (length l) D0 255 = x.
Proof.
  induction l as [|y l IH]; intros D0 x H.
  - destruct D0 as [|d D']; simpl in *; [discriminate|]. inversion H. auto.
  - destruct D0 as [|d D']; [simpl in H; discriminate|].
    simpl length in H. rewrite firstn_cons in H. simpl app in H. inversion H as [[Hd Ht]].
    destruct (IH D' x Ht) as [H1 H2]. simpl length. rewrite firstn_cons. simpl nth.
    split; [f_equal; exact H1 | exact H2].
Qed.

Lemma firstn_snoc : forall (l : list Z) x, firstn (S (length l)) D = l ++ [x] ->
  firstn (length l) D = l /\ Db (length l) = x.
Proof. intros l x H. exact (firstn_snoc_gen l D x H). Qed.

Definition plen (e : enc) : nat := length (e_pre e).

(* the number represented by buffer + register, in units of the register's bit 0 *)
Definition encL (e : enc) : Z :=
  (Tv (plen e) * wt (plen e) + hd 0 (e_post e)) * 2 ^ (27 - e_ct e) + e_c e.

Record EC (e : enc) (H : Z) : Prop := {
  ec_agree : firstn (plen e) D = rev (e_pre e);
  ec_last : exists last stale, e_post e = last :: stale /\
            (Db (plen e) = last \/ Db (plen e) = last + 1);
  ec_compl : compl (encL e) H (2 ^ (27 - e_ct e)) (S (plen e)) }.

(* (B1) an interval-shrinking step: c grows, the upper end does not *)
Lemma EC_shrink : forall e a c cx H H',
  EC (enc_set_acx e a c cx) H' -> e_c e <= c -> H' <= H -> EC e H.
Proof.
  intros e a c cx H H' [Ha Hl Hc] Hle HH. unfold enc_set_acx, encL, plen in *.
  cbn [e_pre e_post e_ct e_c] in *.
  constructor; [exact Ha | exact Hl |]. unfold encL, plen.
  eapply compl_mono; [exact Hc | lia | exact HH].
Qed.

(* (B2) one renormalisation shift *)
Lemma EC_shift : forall e H, 1 <= e_ct e <= 27 ->
  EC (mkEnc (e_a e * 2) (e_c e * 2) (e_ct e - 1) (e_pre e) (e_post e) (e_cx e)) (2 * H) -> EC e H.
Proof.
  intros e H Hct [Ha Hl Hc]. unfold encL, plen in *. cbn [e_pre e_post e_ct e_c] in *.
  constructor; [exact Ha | exact Hl |]. unfold encL, plen.
  assert (E : 2 ^ (27 - (e_ct e - 1)) = 2 * 2 ^ (27 - e_ct e)).
  { replace (27 - (e_ct e - 1)) with (1 + (27 - e_ct e)) by lia. rewrite Z.pow_add_r by lia. reflexivity. }
  rewrite E in Hc. apply compl_half.
  match goal with Hc : compl ?L1 _ _ _ |- compl ?L2 _ _ _ => replace L2 with L1; [exact Hc | ring] end.
Qed.

(* (B3) byteout *)
Lemma EC_byteout : forall s e last stale H, bo_pre s e last stale -> e_ct e = 0 ->
  EC (enc_byteout e) H ->
  EC e H /\ encL (enc_byteout e) = encL e /\ plen (enc_byteout e) = S (plen e) /\
  2 ^ 27 = 2 ^ (27 - e_ct (enc_byteout e)) * wt (S (plen e)).
Proof.
  intros s e last stale H Hbo Hct0 [Ha Hl Hc].
  destruct (byteout_exact s e last stale Hbo) as
    (last' & v & Epre & Epost & Ea & Ecx & Hl' & Hv & Hcase & Hc' & Hex).
  cbv zeta in *. set (e' := enc_byteout e) in *.
  pose proof (bp_post _ _ _ _ Hbo) as Hpost.
  unfold plen in *. rewrite Epre in Ha, Hl, Hc. cbn [length rev] in Ha, Hl, Hc.
  destruct (firstn_snoc (rev (e_pre e)) last') as [Hag Hdb].
  { rewrite rev_length. exact Ha. }
  rewrite rev_length in Hag, Hdb.
  set (p := length (e_pre e)) in *.
  destruct Hl as (v0 & st0 & Ep0 & Hv0). rewrite Epost in Ep0. inversion Ep0; subst v0 st0.
  assert (Hw : 2 ^ 27 = 2 ^ (27 - e_ct e') * wt (S p)).
  { cbn [wt]. rewrite Hdb.
    destruct Hcase as [(Hl255 & Hct7 & Hv143) | (Hn255 & Hct8)].
    - rewrite Hct7, Hl255. change (255 =? 255) with true. cbn [andb].
      assert (Hd : Db (S p) <= 143).
      { destruct (le_lt_dec (length D) (S p)) as [Hout|Hin].
        - exfalso. unfold Db in Hv0. rewrite nth_overflow in Hv0 by lia. lia.
        - apply Dnomark; [exact Hin | lia]. }
      destruct (Z.leb_spec (Db (S p)) 143); [reflexivity | lia].
    - rewrite Hct8. destruct (Z.eqb_spec last' 255); [contradiction|]. reflexivity. }
  assert (HL : encL e' = encL e).
  { unfold encL, plen. rewrite Epre, Epost, Hpost, Hct0. cbn [length hd]. fold p.
    change (27 - 0) with 27. cbn [Tv]. rewrite Hdb.
    set (P' := 2 ^ (27 - e_ct e')) in *. rewrite <- Hex. rewrite Hw. ring. }
  split; [|split; [exact HL | split; [unfold plen; rewrite Epre; reflexivity | exact Hw]]].
  constructor; unfold plen; fold p.
  - exact Hag.
  - exists last, stale. split; [exact Hpost|]. rewrite Hdb. destruct Hl'; [left | right]; lia.
  - (* weights: wt (S p) * 2^(27 - ct') = 2^27 *)
    rewrite Hct0. change (27 - 0) with 27.
    rewrite HL in Hc.
    apply (compl_byteout _ _ _ (2 ^ (27 - e_ct e')) (S p)); [exact Hc | rewrite Hw; ring | lia |].
    (* emission: the register bits kept are below the weight of the new byte *)
    rewrite <- HL. unfold encL, plen. rewrite Epre, Epost. cbn [length hd]. fold p.
    change (Tv (S (S p))) with (Tv (S p) * wt (S p) + Db (S p)).
    set (P' := 2 ^ (27 - e_ct e')) in *.
    assert (0 < P') by lia. nia.
Qed.


(* one iteration of renorme, with the u32 wraps removed *)
Definition shift1 (e : enc) : enc :=
  mkEnc (e_a e * 2) (e_c e * 2) (e_ct e - 1) (e_pre e) (e_post e) (e_cx e).
Definition renorm_iter (e : enc) : enc :=
  if e_ct e - 1 =? 0 then enc_byteout (shift1 e) else shift1 e.

Lemma renorm_iter_spec : forall k e, enc_pre_inv e -> e_a e < 0x8000 ->
  enc_renorme_fuel (S k) e = enc_renorme_fuel k (renorm_iter e) /\
  enc_pre_inv (renorm_iter e) /\
  e_a (renorm_iter e) = e_a e * 2 /\ e_cx (renorm_iter e) = e_cx e /\
  (e_ct e = 1 -> exists last stale, bo_pre (e_a e * 2) (shift1 e) last stale).
Proof.
  intros k e Hpre Hlt.
  pose proof (pre_inv_c_bound e Hpre) as Hcb.
  destruct Hpre as [Ha Hct Hc Hpot (last & stale & Hpost & Hbuf & Hff) Hcx].
  cbn [enc_renorme_fuel].
  destruct (Z.ltb_spec (e_a e) 0x8000) as [_|Hge]; [|lia].
  rewrite !shiftl_mul by lia. change (2 ^ 1) with 2.
  rewrite !u32_small by (change (2 ^ 32) with 4294967296; lia).
  cbn [e_ct]. fold (shift1 e). unfold renorm_iter.
  split; [reflexivity|].
  destruct (pow2_split (e_ct e) ltac:(lia)) as [E Hq].
  destruct (Z.eqb_spec (e_ct e - 1) 0) as [Hz|Hnz].
  - assert (Hct1 : e_ct e = 1) by lia. rewrite Hct1 in *. change (2 ^ 1) with 2 in *.
    assert (Hbo : bo_pre (e_a e * 2) (shift1 e) last stale).
    { constructor; unfold shift1; cbn [e_post e_pre e_c]; try assumption; try lia. }
    pose proof (byteout_spec _ _ _ _ Hbo) as Hsp. cbv zeta in Hsp.
    destruct Hsp as (Ea & Ecx & last' & v & Epre & Epost & Hbuf' & Hct' & Hc' & Hpot' & Hff').
    change (e_a (shift1 e)) with (e_a e * 2) in Ea. change (e_cx (shift1 e)) with (e_cx e) in Ecx.
    change (e_pre (shift1 e)) with (e_pre e) in Epre, Hbuf'.
    split; [|split; [exact Ea | split; [exact Ecx | intros _; exists last, stale; exact Hbo]]].
    constructor.
    + rewrite Ea. lia.
    + lia.
    + exact Hc'.
    + rewrite Ea. exact Hpot'.
    + exists v, (tl stale). split; [exact Epost|]. rewrite Epre. split; [exact Hbuf'|].
      cbn [hd]. rewrite Ea. exact Hff'.
    + rewrite Ecx. exact Hcx.
  - split; [|split; [reflexivity | split; [reflexivity | intros; lia]]].
    constructor; unfold shift1; cbn [e_a e_c e_ct e_pre e_post e_cx].
    + lia.
    + lia.
    + lia.
    + rewrite E in Hpot. set (q := 2 ^ (e_ct e - 1)) in *. nia.
    + exists last, stale. split; [exact Hpost|]. split; [exact Hbuf|].
      intros Hp. specialize (Hff Hp). rewrite E in Hff. set (q := 2 ^ (e_ct e - 1)) in *. nia.
    + exact Hcx.
Qed.

Definition ECa (e : enc) : Prop := EC e (encL e + e_a e).

Lemma encL_shift1 : forall e, 1 <= e_ct e <= 27 -> encL (shift1 e) = 2 * encL e.
Proof.
  intros e Hct. unfold encL, plen, shift1. cbn [e_pre e_post e_ct e_c].
  replace (27 - (e_ct e - 1)) with (1 + (27 - e_ct e)) by lia. rewrite Z.pow_add_r by lia.
  change (2 ^ 1) with 2. ring.
Qed.

Lemma ECa_iter_back : forall (k : nat) e, enc_pre_inv e -> e_a e < 0x8000 ->
  ECa (renorm_iter e) -> ECa e /\ encL (renorm_iter e) = 2 * encL e.
Proof.
  intros k e Hpre Hlt HE.
  destruct (renorm_iter_spec k e Hpre Hlt) as (_ & Hpre' & Ea & _ & Hbo).
  pose proof (pi_ct _ Hpre) as Hct.
  assert (Hs : ECa (shift1 e) /\ encL (renorm_iter e) = encL (shift1 e)).
  { unfold ECa in *. unfold renorm_iter in *.
    destruct (Z.eqb_spec (e_ct e - 1) 0) as [Hz|Hnz]; [|split; [exact HE | reflexivity]].
    destruct (Hbo ltac:(lia)) as (last & stale & Hb).
    destruct (EC_byteout _ _ _ _ _ Hb ltac:(unfold shift1; cbn [e_ct]; lia) HE) as [H1 [H2 _]].
    split; [|exact H2]. rewrite H2 in H1.
    rewrite Ea in H1. exact H1. }
  destruct Hs as [Hs HLs]. rewrite HLs, encL_shift1 by lia. split; [|reflexivity].
  unfold ECa in *. apply EC_shift; [lia|]. fold (shift1 e).
  rewrite encL_shift1 in Hs by lia. change (e_a (shift1 e)) with (e_a e * 2) in Hs.
  replace (2 * (encL e + e_a e)) with (2 * encL e + e_a e * 2) by ring. exact Hs.
Qed.

Lemma ECa_renorme_back : forall fuel e, enc_pre_inv e -> ECa (enc_renorme_fuel fuel e) -> ECa e.
Proof.
  induction fuel as [|k IH]; intros e Hpre HE; [exact HE|].
  destruct (Z.ltb_spec (e_a e) 0x8000) as [Hlt|Hge].
  - destruct (renorm_iter_spec k e Hpre Hlt) as (Er & Hpre' & _).
    rewrite Er in HE. apply (ECa_iter_back k e Hpre Hlt). apply IH; assumption.
  - cbn [enc_renorme_fuel] in HE. destruct (Z.ltb_spec (e_a e) 0x8000); [lia | exact HE].
Qed.


(* ---------- Encode as: choose (a', delta, contexts), then renormalise ---------- *)
Record sel : Type := mkSel { s_a : Z; s_d : Z; s_cx : list Z; s_rn : bool }.

Definition enc_sel (e : enc) (bit ctx : Z) : sel :=
  let cxv := znth (e_cx e) ctx 0 in
  let qe := tbl_qe (cx_state cxv) in
  let a1 := e_a e - qe in
  if bit =? cx_mps cxv then
    if a1 <? 0x8000 then
      if a1 <? qe then mkSel qe 0 (upd (e_cx e) ctx (cx_after_mps cxv)) true
      else mkSel a1 qe (upd (e_cx e) ctx (cx_after_mps cxv)) true
    else mkSel a1 qe (e_cx e) false
  else
    if a1 <? qe then mkSel a1 qe (upd (e_cx e) ctx (cx_after_lps cxv)) true
    else mkSel qe 0 (upd (e_cx e) ctx (cx_after_lps cxv)) true.

Definition enc_apply_sel (e : enc) (s : sel) : enc :=
  enc_set_acx e (s_a s) (e_c e + s_d s) (s_cx s).

Definition sel_qe (e : enc) (ctx : Z) : Z := tbl_qe (cx_state (znth (e_cx e) ctx 0)).

Definition sel_ok (e : enc) (ctx : Z) (s : sel) : Prop :=
  0 < sel_qe e ctx < 0x8000 /\
  ((s_d s = 0 /\ s_a s = sel_qe e ctx) \/ (s_d s = sel_qe e ctx /\ s_a s = e_a e - sel_qe e ctx)) /\
  0 < s_a s < 0x10000 /\ (s_rn s = false -> 0x8000 <= s_a s) /\ (s_rn s = true -> s_a s < 0x8000) /\
  Forall cx_ok (s_cx s) /\ enc_pre_inv (enc_apply_sel e s).

Lemma enc_encode_sel : forall e bit ctx, enc_inv e ->
  enc_encode e bit ctx =
    (if s_rn (enc_sel e bit ctx) then enc_renorme (enc_apply_sel e (enc_sel e bit ctx))
     else enc_apply_sel e (enc_sel e bit ctx)) /\
  sel_ok e ctx (enc_sel e bit ctx).
Proof.
  intros e bit ctx Hinv. unfold sel_ok, sel_qe.
  pose proof Hinv as [[Ha Hct Hc Hpot Hb Hcx] Ha8].
  pose proof (pre_inv_c_bound e (proj1 Hinv)) as Hcb.
  unfold enc_encode, enc_sel, enc_apply_sel. cbv zeta.
  set (cxv := znth (e_cx e) ctx 0).
  assert (Hcxv : cx_ok cxv) by (apply znth_Forall; [exact Hcx | exact cx_ok_0]).
  pose proof (cx_ok_state _ Hcxv) as Hst.
  pose proof (tbl_qe_bound _ Hst) as Hqe.
  set (qe := tbl_qe (cx_state cxv)) in *.
  change 0x8000 with 32768 in *. change 0x10000 with 65536 in *.
  rewrite (u32_small (e_a e - qe)) by (change (2 ^ 32) with 4294967296; lia).
  rewrite (u32_small (e_c e + qe)) by (change (2 ^ 32) with 4294967296; lia).
  change 32768 with (2 ^ 15) at 1.
  rewrite (land_pow2_eqb (e_a e - qe) 15) by (change (2 ^ (15 + 1)) with 65536; lia).
  change (2 ^ 15) with 32768.
  assert (Hmps : Forall cx_ok (upd (e_cx e) ctx (cx_after_mps cxv)))
    by (apply upd_Forall; [exact Hcx | apply cx_after_mps_ok; exact Hcxv]).
  assert (Hlps : Forall cx_ok (upd (e_cx e) ctx (cx_after_lps cxv)))
    by (apply upd_Forall; [exact Hcx | apply cx_after_lps_ok; exact Hcxv]).
  destruct (bit =? cx_mps cxv).
  - destruct (Z.ltb_spec (e_a e - qe) 32768) as [Hlt|Hge].
    + destruct (Z.ltb_spec (e_a e - qe) qe) as [Hx|Hx]; cbn [s_a s_d s_cx s_rn];
        rewrite ?Z.add_0_r;
        (split; [reflexivity|]); (split; [lia|]); (split; [lia|]); (split; [lia|]);
        (split; [intros; discriminate|]); (split; [intros; lia|]); (split; [assumption|]);
        apply pre_inv_shrink; try assumption; lia.
    + cbn [s_a s_d s_cx s_rn].
      (split; [reflexivity|]); (split; [lia|]); (split; [lia|]); (split; [lia|]);
        (split; [intros; lia|]); (split; [intros; discriminate|]); (split; [assumption|]).
      apply pre_inv_shrink; try assumption; lia.
  - destruct (Z.ltb_spec (e_a e - qe) qe) as [Hx|Hx]; cbn [s_a s_d s_cx s_rn];
      rewrite ?Z.add_0_r;
      (split; [reflexivity|]); (split; [lia|]); (split; [lia|]); (split; [lia|]);
      (split; [intros; discriminate|]); (split; [intros; lia|]); (split; [assumption|]);
      apply pre_inv_shrink; try assumption; lia.
Qed.

Lemma encL_apply_sel : forall e s, encL (enc_apply_sel e s) = encL e + s_d s.
Proof. intros. unfold encL, plen, enc_apply_sel, enc_set_acx. cbn [e_pre e_post e_ct e_c]. ring. Qed.

Lemma ECa_sel_back : forall e s, ECa (enc_apply_sel e s) -> 0 <= s_d s -> s_d s + s_a s <= e_a e -> ECa e.
Proof.
  intros e s HE Hd Hle. unfold ECa in *. rewrite encL_apply_sel in HE.
  unfold enc_apply_sel in HE. eapply EC_shrink; [exact HE | lia |].
  unfold enc_set_acx. cbn [e_a]. lia.
Qed.

Lemma enc_renorme_unfold : forall e, enc_renorme e = enc_renorme_fuel 16 e.
Proof. reflexivity. Qed.

Lemma ECa_renorme_back16 : forall e, enc_pre_inv e -> ECa (enc_renorme e) -> ECa e.
Proof. intros e Hpre HE. rewrite enc_renorme_unfold in HE. exact (ECa_renorme_back 16 e Hpre HE). Qed.

Lemma ECa_encode_back : forall e bit ctx, enc_inv e -> ECa (enc_encode e bit ctx) ->
  ECa (enc_apply_sel e (enc_sel e bit ctx)) /\ ECa e.
Proof.
  intros e bit ctx Hinv HE.
  destruct (enc_encode_sel e bit ctx Hinv) as (Eenc & Hok).
  destruct Hok as (Hqe & Hsel & Ha & Hrn0 & Hrn1 & Hcx & Hpre).
  rewrite Eenc in HE.
  assert (H1 : ECa (enc_apply_sel e (enc_sel e bit ctx))).
  { destruct (s_rn (enc_sel e bit ctx)); [|exact HE]. exact (ECa_renorme_back16 _ Hpre HE). }
  split; [exact H1|]. destruct Hinv as [_ Ha8].
  clear Eenc Hrn0 Hrn1 Hcx Hpre HE.
  apply (ECa_sel_back e _ H1).
  - destruct Hsel as [[E1 E2]|[E1 E2]]; rewrite E1; lia.
  - destruct Hsel as [[E1 E2]|[E1 E2]]; rewrite E1, E2; lia.
Qed.


Lemma compl_scale : forall m L H P j, 0 < m -> compl (m * L) (m * H) (m * P) j -> compl L H P j.
Proof.
  intros m L H P j Hm [HL HU]. split; intros n.
  - intros Hn. specialize (HL n Hn). nia.
  - specialize (HU n). nia.
Qed.

(* byteout never reads ct *)
Definition set_ct0 (e : enc) : enc := mkEnc (e_a e) (e_c e) 0 (e_pre e) (e_post e) (e_cx e).
Lemma byteout_ct0 : forall e, enc_byteout (set_ct0 e) = enc_byteout e.
Proof. intros e. unfold enc_byteout, set_ct0. cbn [e_a e_c e_pre e_post e_cx]. destruct (e_post e); reflexivity. Qed.

(* the "c <<= ct" of Flush seen as ct renormalisation shifts (ending with ct = 0) *)
Lemma EC_shift_ct_back : forall e H, 1 <= e_ct e <= 12 -> 0 <= e_c e -> e_c e * 2 ^ e_ct e < 2 ^ 32 ->
  EC (set_ct0 (enc_shift_ct e)) (2 ^ e_ct e * H) ->
  EC e H /\ encL (set_ct0 (enc_shift_ct e)) = 2 ^ e_ct e * encL e.
Proof.
  intros e H Hct Hc Hlt HE.
  assert (Hp : 0 < 2 ^ e_ct e) by (apply Z.pow_pos_nonneg; lia).
  assert (Es : set_ct0 (enc_shift_ct e) =
               mkEnc (e_a e) (e_c e * 2 ^ e_ct e) 0 (e_pre e) (e_post e) (e_cx e)).
  { unfold set_ct0, enc_shift_ct, shl32. cbn [e_a e_c e_ct e_pre e_post e_cx].
    replace ((0 <=? e_ct e) && (e_ct e <? 32)) with true
      by (symmetry; apply andb_true_iff; split; [apply Z.leb_le | apply Z.ltb_lt]; lia).
    rewrite shiftl_mul by lia. rewrite u32_small by lia. reflexivity. }
  rewrite Es in *.
  assert (EL : encL (mkEnc (e_a e) (e_c e * 2 ^ e_ct e) 0 (e_pre e) (e_post e) (e_cx e))
               = 2 ^ e_ct e * encL e).
  { unfold encL, plen. cbn [e_pre e_post e_ct e_c]. change (27 - 0) with 27.
    replace 27 with (e_ct e + (27 - e_ct e)) at 1 by lia. rewrite Z.pow_add_r by lia. ring. }
  split; [|exact EL].
  destruct HE as [Ha Hl Hcm]. unfold plen in *. cbn [e_pre e_post e_ct] in *.
  constructor; [exact Ha | exact Hl |]. fold (plen e) in *.
  rewrite EL in Hcm. change (27 - 0) with 27 in Hcm.
  replace (2 ^ 27) with (2 ^ e_ct e * 2 ^ (27 - e_ct e)) in Hcm
    by (rewrite <- Z.pow_add_r by lia; f_equal; lia).
  apply (compl_scale (2 ^ e_ct e)); assumption.
Qed.


Lemma shift_ct_bo_pre : forall e last stale,
  1 <= e_ct e <= 12 -> 0 <= e_c e -> (e_c e + 1) * 2 ^ e_ct e <= 0x9000000 ->
  e_post e = last :: stale -> buf_ok (last :: e_pre e) ->
  (hd 0 (e_pre e) = 255 -> last * 2 ^ 27 + (e_c e + 1) * 2 ^ e_ct e <= 0x90 * 2 ^ 27) ->
  bo_pre 1 (set_ct0 (enc_shift_ct e)) last stale /\ e_c e * 2 ^ e_ct e < 2 ^ 32.
Proof.
  intros e last stale Hct Hc Hpot Hpost Hbuf Hff.
  assert (Hp : 1 <= 2 ^ e_ct e) by (assert (0 < 2 ^ e_ct e) by (apply Z.pow_pos_nonneg; lia); lia).
  assert (Hcp : 0 <= e_c e * 2 ^ e_ct e) by (apply Z.mul_nonneg_nonneg; lia).
  assert (Hlt : e_c e * 2 ^ e_ct e < 2 ^ 32) by (change (2 ^ 32) with 4294967296; lia).
  split; [|exact Hlt].
  unfold set_ct0, enc_shift_ct, shl32. cbn [e_a e_c e_ct e_pre e_post e_cx].
  replace ((0 <=? e_ct e) && (e_ct e <? 32)) with true
    by (symmetry; apply andb_true_iff; split; [apply Z.leb_le | apply Z.ltb_lt]; lia).
  rewrite shiftl_mul by lia. rewrite u32_small by lia.
  constructor; cbn [e_post e_pre e_c]; try assumption; try lia.
Qed.

Lemma tail_255 : forall j, (1 <= j)%nat -> (forall n, Db (j + n) = 255) ->
  forall n, Wp j n = 256 ^ Z.of_nat n /\ Tv (j + n) + 1 = (Tv j + 1) * 256 ^ Z.of_nat n.
Proof.
  intros j Hj Ht. induction n as [|n [IW IT]].
  - cbn [Wp]. rewrite Nat.add_0_r. change (256 ^ Z.of_nat 0) with 1. lia.
  - assert (Hw : wt (j + n) = 256).
    { destruct (j + n)%nat as [|q] eqn:E; [lia|]. cbn [wt]. rewrite <- E, Ht.
      rewrite andb_false_r. reflexivity. }
    rewrite Nat2Z.inj_succ, Z.pow_succ_r by lia.
    cbn [Wp]. rewrite IW, Hw. split; [ring|].
    replace (j + S n)%nat with (S (j + n)) by lia. cbn [Tv]. rewrite Hw, Ht. lia.
Qed.

Lemma EC_base : forall e v stale g,
  e_post e = v :: stale -> firstn (S (plen e)) D = rev (v :: e_pre e) ->
  (forall n, Db (S (plen e) + n) = 255) ->
  0 <= e_c e < 2 ^ (27 - e_ct e) -> 2 ^ (27 - e_ct e) <= e_c e + g ->
  EC e (encL e + g).
Proof.
  intros e v stale g Hpost Hag Ht Hc Hg.
  destruct (firstn_snoc (rev (e_pre e)) v) as [Hag' Hdb].
  { rewrite rev_length. exact Hag. }
  rewrite rev_length in Hag', Hdb. fold (plen e) in Hag', Hdb.
  constructor; [exact Hag' | exists v, stale; auto |].
  assert (EL : encL e = Tv (S (plen e)) * 2 ^ (27 - e_ct e) + e_c e).
  { unfold encL. rewrite Hpost. cbn [hd Tv]. rewrite Hdb. reflexivity. }
  rewrite EL. set (P := 2 ^ (27 - e_ct e)) in *. set (j := S (plen e)) in *.
  pose proof (tail_255 j ltac:(lia) Ht) as Htl.
  split; intros n.
  - intros Hn. destruct (Htl n) as [EW ET]. rewrite EW.
    assert (0 < 256 ^ Z.of_nat n) by (apply Z.pow_pos_nonneg; lia).
    replace ((Tv (j + n) + 1) * P) with ((Tv j + 1) * P * 256 ^ Z.of_nat n) by (rewrite ET; ring).
    apply Z.mul_lt_mono_pos_r; lia.
  - destruct (Htl n) as [EW ET]. rewrite EW.
    assert (0 < 256 ^ Z.of_nat n) by (apply Z.pow_pos_nonneg; lia).
    assert (0 < P) by lia.
    replace (Tv (j + n)) with ((Tv j + 1) * 256 ^ Z.of_nat n - 1) by lia.
    assert ((Tv j + 1) * P * 256 ^ Z.of_nat n <= (Tv j * P + e_c e + g) * 256 ^ Z.of_nat n)
      by (apply Z.mul_le_mono_nonneg_r; lia).
    lia.
Qed.


(* setbits leaves the low 15 bits of c all ones *)
Lemma setbits_low : forall c a, 0 <= c -> 0x8000 <= a < 0x10000 -> c + a < 2 ^ 32 ->
  let c1 := Z.lor c 0xFFFF in
  let c2 := if c1 >=? u32 (c + a) then u32 (c1 - 0x8000) else c1 in
  exists u, c2 + 1 = 32768 * u.
Proof.
  intros c a Hc Ha Hlt. cbv zeta.
  change 0xFFFF with (Z.ones 16). rewrite lor_ones_eq by lia.
  change (Z.ones 16) with 65535. change (2 ^ 16) with 65536.
  rewrite (u32_small (c + a)) by lia.
  pose proof (Z.mod_pos_bound c 65536 ltac:(lia)) as Hm.
  pose proof (Z.div_mod c 65536 ltac:(lia)) as Hd.
  destruct (Z.geb_spec (c - c mod 65536 + 65535) (c + a)) as [Hge|Hl].
  - rewrite u32_small by lia. exists (2 * (c / 65536) + 1). lia.
  - exists (2 * (c / 65536) + 2). lia.
Qed.

Lemma flush_div : forall w q c1 c2' d1 v1 d2 v2 P1 q1 P2,
  1 <= q -> 0 <= c2' ->
  (P1 = 1048576 /\ q1 = 128 \/ P1 = 524288 /\ q1 = 256) -> (P2 = 1048576 \/ P2 = 524288) ->
  d1 * 134217728 + v1 * P1 + c1 = 32768 * w - q ->
  d2 * 134217728 + v2 * P2 + c2' = c1 * q1 ->
  P2 <= c2' + q * q1.
Proof.
  intros w q c1 c2' d1 v1 d2 v2 P1 q1 P2 Hq Hc HP1 HP2 E1 E2.
  destruct HP1 as [[-> ->]|[-> ->]]; destruct HP2 as [-> | ->]; lia.
Qed.

Lemma EC_flush : forall e, enc_inv e ->
  D = rev (e_pre (enc_flush_state e)) ++ [255] -> ECa e.
Proof.
  intros e Hinv HD. pose proof (enc_inv_c_bound e Hinv) as (Hc0 & Hcb & _).
  destruct Hinv as [[Ha Hct Hc Hpot (last & stale & Hpost & Hbuf & Hff) Hcx] Ha8].
  unfold enc_flush_state in HD.
  pose proof (setbits_range (e_c e) (e_a e) Hc ltac:(lia) ltac:(change (2 ^ 32) with 4294967296; lia)) as Hsb.
  pose proof (setbits_low (e_c e) (e_a e) Hc ltac:(lia) ltac:(change (2 ^ 32) with 4294967296; lia)) as Hsl.
  cbv zeta in Hsb, Hsl. unfold enc_setbits in HD. cbv zeta in HD.
  set (c2 := if Z.lor (e_c e) 0xFFFF >=? u32 (e_c e + e_a e) then u32 (Z.lor (e_c e) 0xFFFF - 0x8000)
             else Z.lor (e_c e) 0xFFFF) in *.
  destruct Hsl as (u & Hu).
  set (q := 2 ^ e_ct e) in *.
  assert (Hq : 1 <= q) by (assert (0 < q) by (apply Z.pow_pos_nonneg; lia); lia).
  assert (Hm : (c2 + 1) * q <= (e_c e + e_a e) * q) by (apply Z.mul_le_mono_nonneg_r; lia).
  set (es := mkEnc (e_a e) c2 (e_ct e) (e_pre e) (e_post e) (e_cx e)) in *.
  (* first c <<= ct ; byteout *)
  destruct (shift_ct_bo_pre es last stale) as [Hbo0 Hlt0];
    try (unfold es; cbn [e_a e_c e_ct e_pre e_post e_cx]; fold q; first [assumption | lia]).
  rewrite <- (byteout_ct0 (enc_shift_ct es)) in HD.
  set (e0 := set_ct0 (enc_shift_ct es)) in *.
  assert (Ec0 : e_c e0 = c2 * q).
  { unfold e0, set_ct0, enc_shift_ct, shl32, es. cbn [e_c e_ct].
    replace ((0 <=? e_ct e) && (e_ct e <? 32)) with true
      by (symmetry; apply andb_true_iff; split; [apply Z.leb_le | apply Z.ltb_lt]; lia).
    rewrite shiftl_mul by lia. fold q. apply u32_small.
    unfold es in Hlt0. cbn [e_c e_ct] in Hlt0. fold q in Hlt0. lia. }
  destruct (byteout_exact 1 e0 last stale Hbo0) as
    (l1 & v1 & Epre1 & Epost1 & Ea1 & Ecx1 & Hl1 & Hv1 & Hcase1 & Hc1 & Hex1).
  pose proof (byteout_spec 1 e0 last stale Hbo0) as Hsp1. cbv zeta in Hsp1, Epre1, Epost1, Ea1, Ecx1, Hcase1, Hc1, Hex1.
  destruct Hsp1 as (_ & _ & l1' & v1' & Epre1' & Epost1' & Hbuf1 & Hct1 & Hc1' & Hpot1 & Hff1).
  set (e1 := enc_byteout e0) in *.
  rewrite Epre1 in Epre1'. rewrite Epost1 in Epost1'. inversion Epre1'; inversion Epost1'; subst l1' v1'.
  change (e_pre e0) with (e_pre e) in *.
  (* second c <<= ct ; byteout *)
  destruct (shift_ct_bo_pre e1 v1 (tl stale)) as [Hbo1 Hlt1]; try assumption; try lia.
  { rewrite Epre1. exact Hbuf1. }
  { rewrite Epre1. cbn [hd]. exact Hff1. }
  rewrite <- (byteout_ct0 (enc_shift_ct e1)) in HD.
  set (e1s := set_ct0 (enc_shift_ct e1)) in *.
  set (q1 := 2 ^ e_ct e1) in *.
  assert (Hq1 : 1 <= q1) by (assert (0 < q1) by (apply Z.pow_pos_nonneg; lia); lia).
  assert (Ec1s : e_c e1s = e_c e1 * q1).
  { unfold e1s, set_ct0, enc_shift_ct, shl32. cbn [e_c e_ct].
    replace ((0 <=? e_ct e1) && (e_ct e1 <? 32)) with true
      by (symmetry; apply andb_true_iff; split; [apply Z.leb_le | apply Z.ltb_lt]; lia).
    rewrite shiftl_mul by lia. fold q1. apply u32_small. split; [apply Z.mul_nonneg_nonneg; lia | exact Hlt1]. }
  destruct (byteout_exact 1 e1s v1 (tl stale) Hbo1) as
    (l2 & v2 & Epre2 & Epost2 & Ea2 & Ecx2 & Hl2 & Hv2 & Hcase2 & Hc2 & Hex2).
  cbv zeta in Epre2, Epost2, Ea2, Ecx2, Hcase2, Hc2, Hex2.
  set (e2 := enc_byteout e1s) in *.
  change (e_pre e1s) with (e_pre e1) in *. rewrite Epre1 in Epre2.
  (* shape of D *)
  rewrite Epost2 in HD. change 0xFF with 255 in HD.
  assert (HD' : exists tailFF, D = rev (v2 :: e_pre e2) ++ tailFF /\ (tailFF = [] \/ tailFF = [255])).
  { destruct (Z.eqb_spec v2 255) as [Hv|Hv].
    - exists []. rewrite app_nil_r. split; [|auto]. rewrite HD, Hv. reflexivity.
    - exists [255]. split; [|auto]. rewrite HD. cbn [e_pre]. reflexivity. }
  destruct HD' as (tailFF & HD2 & Htail).
  (* base *)
  assert (Hg : 2 ^ (27 - e_ct e2) <= e_c e2 + q * q1).
  { rewrite Ec1s in Hex2. rewrite Ec0 in Hex1.
    assert (Ecq : c2 * q = 32768 * (u * q) - q) by (replace c2 with (32768 * u - 1) by lia; ring).
    rewrite Ecq in Hex1. change (2 ^ 27) with 134217728 in Hex1, Hex2.
    apply (flush_div (u * q) q (e_c e1) (e_c e2) (l1 - last) v1 (l2 - v1) v2
             (2 ^ (27 - e_ct e1)) q1 (2 ^ (27 - e_ct e2))); [exact Hq | lia | | | exact Hex1 | exact Hex2].
    - unfold q1. destruct Hct1 as [E|E]; rewrite E; [left | right]; split; reflexivity.
    - destruct Hcase2 as [(_ & F & _)|(_ & F)]; rewrite F; [left | right]; reflexivity. }
  assert (HB : EC e2 (encL e2 + q * q1)).
  { apply (EC_base e2 v2 (tl (tl stale))); [exact Epost2 | | | exact Hc2 | exact Hg].
    - rewrite HD2. rewrite firstn_app.
      replace (S (plen e2) - length (rev (v2 :: e_pre e2)))%nat with O
        by (rewrite rev_length; unfold plen; simpl; lia).
      rewrite firstn_O, app_nil_r. apply firstn_all2. rewrite rev_length. unfold plen. simpl. lia.
    - intros n. unfold Db. rewrite HD2.
      assert (Hlen : length (rev (v2 :: e_pre e2)) = S (plen e2))
        by (rewrite rev_length; unfold plen; reflexivity).
      rewrite app_nth2 by lia. rewrite Hlen.
      destruct Htail as [-> | ->]; destruct (S (plen e2) + n - S (plen e2))%nat as [|[|?]]; reflexivity. }
  (* back through the second byteout and shift *)
  destruct (EC_byteout 1 e1s v1 (tl stale) _ Hbo1 eq_refl HB) as [HB1 [EL2 _]]. fold e2 in EL2.
  destruct (EC_shift_ct_back e1 (encL e1 + q)) as [HB1' EL1s]; try lia.
  { fold e1s. fold q1. rewrite EL2 in HB1.
    assert (EL1s : encL e1s = q1 * encL e1).
    { unfold e1s, encL, plen, set_ct0, enc_shift_ct. cbn [e_pre e_post e_ct e_c].
      change (e_c e1s) with (e_c e1s). fold e1s in Ec1s.
      change (shl32 (e_c e1) (e_ct e1)) with (e_c e1s). rewrite Ec1s. change (27 - 0) with 27.
      replace 27 with (e_ct e1 + (27 - e_ct e1)) at 1 by lia. rewrite Z.pow_add_r by lia. fold q1. ring. }
    rewrite EL1s in HB1. replace (q1 * (encL e1 + q)) with (q1 * encL e1 + q * q1) by ring. exact HB1. }
  (* back through the first byteout and shift *)
  destruct (EC_byteout 1 e0 last stale _ Hbo0 eq_refl HB1') as [HB0 [EL1 _]]. fold e1 in EL1.
  destruct (EC_shift_ct_back es (encL es + 1)) as [HBs EL0];
    try (unfold es; cbn [e_c e_ct]; fold q; lia).
  { fold e0. change (e_ct es) with (e_ct e). fold q. rewrite EL1 in HB0.
    assert (EL0 : encL e0 = q * encL es).
    { unfold e0, encL, plen, set_ct0, enc_shift_ct. cbn [e_pre e_post e_ct e_c].
      fold e0 in Ec0. change (shl32 (e_c es) (e_ct es)) with (e_c e0). rewrite Ec0.
      change (27 - 0) with 27. change (e_ct es) with (e_ct e). change (e_c es) with c2.
      replace 27 with (e_ct e + (27 - e_ct e)) at 1 by lia. rewrite Z.pow_add_r by lia. fold q. ring. }
    rewrite EL0 in HB0. replace (q * (encL es + 1)) with (q * encL es + q) by ring. exact HB0. }
  (* setbits *)
  unfold ECa. apply (EC_shrink e (e_a e) c2 (e_cx e) _ (encL es + 1)); [exact HBs | lia |].
  unfold es, encL, plen. cbn [e_pre e_post e_ct e_c]. lia.
Qed.


(* ---------- decoder position versus D ---------- *)
Lemma skipn_cons_nth : forall (l : list Z) n x r, skipn n l = x :: r ->
  nth n l 255 = x /\ skipn (S n) l = r.
Proof.
  induction l as [|y l IH]; intros [|n] x r H; simpl in H; try discriminate.
  - inversion H. auto.
  - apply IH in H. exact H.
Qed.

Lemma sentinel_nth : forall i, nth i (sentinel SS) 255 = nth i SS 255.
Proof.
  intros i. unfold sentinel.
  destruct (lt_dec i (length SS)) as [Hlt|Hge].
  - apply app_nth1. exact Hlt.
  - rewrite app_nth2 by lia. rewrite (nth_overflow SS) by lia.
    destruct (i - length SS)%nat as [|[|[|?]]]; reflexivity.
Qed.

(* k = number of bytes of D the decoder has consumed (dummy included); once bp sits on the
   first sentinel byte it stays there while k keeps counting the virtual 0xFF bytes *)
Definition zrel (d : dec) (k : nat) : Prop :=
  dec_wf SS d /\
  (Z.of_nat k = d_bp d + 2 \/ (d_bp d = zlen SS /\ zlen SS + 2 <= Z.of_nat k)).

Lemma zrel_cur_next : forall d k, zrel d k ->
  exists next rest', d_rest d = next :: rest' /\ d_cur d = Db (k - 1) /\ next = Db k.
Proof.
  intros d k [(Hbp & Hlen & Hz) Hmode].
  destruct (skipn_cons_nth _ _ _ _ Hz) as [Hcur Hrest].
  assert (Hl : (length (d_rest d) >= 1)%nat).
  { rewrite <- Hrest, skipn_length. unfold sentinel. rewrite app_length. simpl length.
    unfold zlen in Hbp. lia. }
  destruct (d_rest d) as [|next rest'] eqn:Er; [simpl in Hl; lia|].
  destruct (skipn_cons_nth _ _ _ _ Hrest) as [Hnext _].
  rewrite sentinel_nth in Hcur, Hnext.
  exists next, rest'. split; [reflexivity|].
  destruct Hmode as [Hk | [Hb Hk]].
  - assert (Ek : k = S (S (Z.to_nat (d_bp d)))) by lia. rewrite Ek.
    replace (S (S (Z.to_nat (d_bp d))) - 1)%nat with (S (Z.to_nat (d_bp d))) by lia.
    rewrite !Db_S. auto.
  - unfold zlen in *.
    rewrite nth_overflow in Hcur by lia. rewrite nth_overflow in Hnext by lia.
    destruct k as [|[|k']]; try lia.
    replace (S (S k') - 1)%nat with (S k') by lia. rewrite !Db_S.
    rewrite !nth_overflow by lia. auto.
Qed.

Lemma bytein_sim : forall d k, zrel d k -> (1 <= k)%nat ->
  exists d', dec_bytein d = Ok d' /\ zrel d' (S k) /\ d_a d' = d_a d /\ d_cx d' = d_cx d /\
    d_ct d' = (if wt k =? 128 then 7 else 8) /\
    d_c d' = u32 (d_c d + Db k * 2 ^ (16 - d_ct d')).
Proof.
  intros d k Hz Hk1.
  destruct (zrel_cur_next d k Hz) as (next & rest' & Er & Hcur & Hnext).
  destruct Hz as [(Hbp & Hlen & Hzip) Hmode].
  unfold dec_bytein.
  replace ((0 <=? d_bp d + 1) && (d_bp d + 1 <? d_dlen d)) with true
    by (symmetry; apply andb_true_iff; split; [apply Z.leb_le | apply Z.ltb_lt]; lia).
  rewrite Er. rewrite Er in Hzip.
  destruct k as [|p]; [lia|]. replace (S p - 1)%nat with p in Hcur by lia.
  pose proof (Dbytes (S p)) as Hnb. rewrite <- Hnext in Hnb.
  cbn [wt]. rewrite <- Hcur, <- Hnext.
  change 0xFF with 255. change 0x8F with 143.
  (* advancing is only possible before the sentinel *)
  assert (Hadv : d_cur d <> 255 \/ next <= 143 -> Z.of_nat (S p) = d_bp d + 2 /\ d_bp d + 1 <= zlen SS).
  { intros Hc. destruct Hmode as [Hm | [Hb Hm]].
    - split; [exact Hm|]. destruct (Z.eq_dec (d_bp d) (zlen SS)) as [E|E]; [|lia].
      exfalso. rewrite E in Hzip. unfold zlen in Hzip. rewrite Nat2Z.id in Hzip.
      unfold sentinel in Hzip. rewrite skipn_length_app in Hzip.
      inversion Hzip. lia.
    - exfalso. rewrite Hb in Hzip. unfold zlen in Hzip. rewrite Nat2Z.id in Hzip.
      unfold sentinel in Hzip. rewrite skipn_length_app in Hzip.
      inversion Hzip. lia. }
  assert (Hwf' : d_bp d + 1 <= zlen SS ->
     dec_wf SS (mkDec (d_a d) 0 0 0 (d_bp d + 1) (d_dlen d) next rest' (d_cx d))).
  { intros Hb. unfold dec_wf. cbn [d_bp d_dlen d_cur d_rest]. split; [lia|]. split; [exact Hlen|].
    replace (Z.to_nat (d_bp d + 1)) with (S (Z.to_nat (d_bp d))) by lia.
    rewrite skipn_S_tl, Hzip. reflexivity. }
  destruct (Z.eqb_spec (d_cur d) 255) as [Hc|Hc].
  - destruct (Z.ltb_spec 143 next) as [Hn|Hn].
    + (* marker: only at the sentinel, where next = 255 *)
      destruct (Z.leb_spec next 143) as [?|_]; [lia|]. cbn [andb]. change (256 =? 128) with false.
      assert (Hend : d_bp d = zlen SS /\ next = 255).
      { destruct (Z.eq_dec (d_bp d) (zlen SS)) as [E|E].
        - split; [exact E|]. rewrite E in Hzip. unfold zlen in Hzip. rewrite Nat2Z.id in Hzip.
          unfold sentinel in Hzip. rewrite skipn_length_app in Hzip.
          inversion Hzip. reflexivity.
        - exfalso. destruct Hmode as [Hm | [Hb _]]; [|lia].
          (* cur is a real byte of SS equal to FF followed by > 0x8F or by the end *)
          assert (Hp : p = S (Z.to_nat (d_bp d))) by lia.
          rewrite Hp in Hcur, Hnext. rewrite !Db_S in *.
          destruct (Nat.eq_dec (S (Z.to_nat (d_bp d))) (length SS)) as [El|El].
          * apply (Snm2 _ El). congruence.
          * assert (nth (S (Z.to_nat (d_bp d))) SS 255 <= 143).
            { apply Snm1; [unfold zlen in *; lia | congruence]. }
            lia. }
      destruct Hend as [Hb Hn255].
      eexists. split; [reflexivity|]. cbn [d_a d_cx d_ct d_c].
      split; [|split; [reflexivity | split; [reflexivity | split; [reflexivity|]]]].
      * split; [unfold dec_wf; cbn [d_bp d_dlen d_cur d_rest]; auto|].
        cbn [d_bp]. right. split; [exact Hb|]. destruct Hmode as [Hm | [_ Hm]]; lia.
      * rewrite Hn255. reflexivity.
    + destruct (Z.leb_spec next 143) as [_|?]; [|lia]. cbn [andb]. change (128 =? 128) with true.
      destruct (Hadv ltac:(right; lia)) as [Hm Hb].
      eexists. split; [reflexivity|]. cbn [d_a d_cx d_ct d_c].
      split; [|split; [reflexivity | split; [reflexivity | split; [reflexivity|]]]].
      * split; [|cbn [d_bp]; left; lia].
        destruct (Hwf' Hb) as (H1 & H2 & H3). unfold dec_wf. cbn [d_bp d_dlen d_cur d_rest] in *. auto.
      * rewrite shiftl_mul by lia. rewrite (u32_small (next * 2 ^ 9)) by (change (2 ^ 9) with 512; change (2 ^ 32) with 4294967296; lia).
        reflexivity.
  - cbn [andb]. change (256 =? 128) with false.
    destruct (Hadv ltac:(left; exact Hc)) as [Hm Hb].
    eexists. split; [reflexivity|]. cbn [d_a d_cx d_ct d_c].
    split; [|split; [reflexivity | split; [reflexivity | split; [reflexivity|]]]].
    + split; [|cbn [d_bp]; left; lia].
      destruct (Hwf' Hb) as (H1 & H2 & H3). unfold dec_wf. cbn [d_bp d_dlen d_cur d_rest] in *. auto.
    + rewrite shiftl_mul by lia. rewrite (u32_small (next * 2 ^ 8)) by (change (2 ^ 8) with 256; change (2 ^ 32) with 4294967296; lia).
      reflexivity.
Qed.


(* ---------- bounds on the bytes the decoder has read, from the completion predicate ---------- *)
Lemma pow2_pos : forall n, 0 <= n -> 0 < 2 ^ n.
Proof. intros. apply Z.pow_pos_nonneg; lia. Qed.

Lemma Wp_1_le : forall j, Wp j 1 <= 256.
Proof. intros j. cbn [Wp]. rewrite Nat.add_0_r. destruct (wt_cases j); lia. Qed.

Lemma read_bounds : forall e H k ct,
  EC e H -> 0 <= e_ct e <= 27 -> 0 <= ct -> (S (plen e) <= k)%nat ->
  Wp (S (plen e)) (k - S (plen e)) = 2 ^ (27 - e_ct e + ct) -> 256 < 2 ^ (27 - e_ct e + ct) ->
  encL e * 2 ^ ct <= Tv k < H * 2 ^ ct.
Proof.
  intros e H k ct [_ _ [HL HU]] Hcte Hct Hk Hal Hbig.
  set (j := S (plen e)) in *. set (n := (k - j)%nat) in *.
  assert (Ek : k = (j + n)%nat) by lia.
  assert (Hn : (1 <= n)%nat).
  { destruct n as [|n']; [cbn [Wp] in Hal; lia | lia]. }
  specialize (HL n Hn). specialize (HU n). rewrite <- Ek in HL, HU. rewrite Hal in HL, HU.
  rewrite Z.pow_add_r in HL, HU by lia.
  pose proof (pow2_pos (27 - e_ct e) ltac:(lia)) as HP. pose proof (pow2_pos ct Hct) as HC.
  set (P := 2 ^ (27 - e_ct e)) in *. set (C := 2 ^ ct) in *.
  split; nia.
Qed.

(* ---------- simulation relation between encoder state and decoder state ---------- *)
Record DS (e : enc) (d : dec) (k : nat) : Prop := {
  ds_a : d_a d = e_a e;
  ds_cx : d_cx d = e_cx e;
  ds_ct : 0 <= d_ct d <= 8;
  ds_k : (S (plen e) <= k)%nat;
  ds_align : Wp (S (plen e)) (k - S (plen e)) = 2 ^ (27 - e_ct e + d_ct d);
  ds_c : d_c d = Tv k * 2 ^ (16 - d_ct d) - 65536 * encL e;
  ds_z : zrel d k }.

Lemma DS_c_range : forall e d k A, DS e d k -> EC e (encL e + A) -> 0 <= e_ct e <= 12 ->
  0 <= d_c d < A * 65536.
Proof.
  intros e d k A [Ha Hcx Hct Hk Hal Hc Hz] HE Hcte.
  assert (Hbig : 256 < 2 ^ (27 - e_ct e + d_ct d)).
  { assert (2 ^ 15 <= 2 ^ (27 - e_ct e + d_ct d)) by (apply Z.pow_le_mono_r; lia).
    change (2 ^ 15) with 32768 in *. lia. }
  destruct (read_bounds e _ k (d_ct d) HE ltac:(lia) ltac:(lia) Hk Hal Hbig) as [H1 H2].
  rewrite Hc.
  assert (E : 65536 = 2 ^ d_ct d * 2 ^ (16 - d_ct d)).
  { rewrite <- Z.pow_add_r by lia. replace (d_ct d + (16 - d_ct d)) with 16 by lia. reflexivity. }
  pose proof (pow2_pos (d_ct d) ltac:(lia)). pose proof (pow2_pos (16 - d_ct d) ltac:(lia)).
  rewrite E. set (C := 2 ^ d_ct d) in *. set (Q := 2 ^ (16 - d_ct d)) in *. split; nia.
Qed.


Lemma wt_pow : forall k, wt k = 2 ^ (if wt k =? 128 then 7 else 8).
Proof. intros k. destruct (wt_cases k) as [E|E]; rewrite E; reflexivity. Qed.

(* decoder reads a byte (ct = 0) *)
Lemma DS_bytein : forall e d k A, DS e d k -> d_ct d = 0 ->
  EC e (encL e + A) -> A * 65536 <= 2 ^ 32 -> 0 <= e_ct e <= 12 ->
  exists d1, dec_bytein d = Ok d1 /\ DS e d1 (S k) /\ 7 <= d_ct d1 <= 8.
Proof.
  intros e d k A [Ha Hcx Hct Hk Hal Hc Hz] Hct0 HE HA Hcte.
  assert (Hk1 : (1 <= k)%nat) by lia.
  destruct (bytein_sim d k Hz Hk1) as (d1 & Eb & Hz1 & Ea1 & Ecx1 & Ect1 & Ec1).
  exists d1. split; [exact Eb|].
  set (ct' := if wt k =? 128 then 7 else 8) in *.
  assert (Hct' : 7 <= ct' <= 8) by (unfold ct'; destruct (wt k =? 128); lia).
  assert (Hw : wt k = 2 ^ ct') by (apply wt_pow).
  split; [|rewrite Ect1; exact Hct'].
  set (j := S (plen e)) in *.
  assert (Hal1 : Wp j (S k - j) = 2 ^ (27 - e_ct e + ct')).
  { replace (S k - j)%nat with (S (k - j)) by lia. cbn [Wp].
    replace (j + (k - j))%nat with k by lia. rewrite Hal, Hw, Hct0.
    rewrite <- Z.pow_add_r by lia. f_equal. lia. }
  assert (Hbig : 256 < 2 ^ (27 - e_ct e + ct')).
  { assert (2 ^ 15 <= 2 ^ (27 - e_ct e + ct')) by (apply Z.pow_le_mono_r; lia).
    change (2 ^ 15) with 32768 in *. lia. }
  destruct (read_bounds e _ (S k) ct' HE ltac:(lia) ltac:(lia) ltac:(lia) Hal1 Hbig) as [B1 B2].
  assert (Hval : d_c d + Db k * 2 ^ (16 - ct') = Tv (S k) * 2 ^ (16 - ct') - 65536 * encL e).
  { rewrite Hc, Hct0. cbn [Tv]. rewrite Hw. change (16 - 0) with 16.
    replace (2 ^ 16) with (2 ^ ct' * 2 ^ (16 - ct'))
      by (rewrite <- Z.pow_add_r by lia; f_equal; lia). ring. }
  assert (Hrange : 0 <= Tv (S k) * 2 ^ (16 - ct') - 65536 * encL e < 2 ^ 32).
  { assert (E : 65536 = 2 ^ ct' * 2 ^ (16 - ct'))
      by (rewrite <- Z.pow_add_r by lia; replace (ct' + (16 - ct')) with 16 by lia; reflexivity).
    pose proof (pow2_pos ct' ltac:(lia)). pose proof (pow2_pos (16 - ct') ltac:(lia)).
    rewrite E in *. set (C := 2 ^ ct') in *. set (Q := 2 ^ (16 - ct')) in *. split; nia. }
  constructor.
  - congruence.
  - congruence.
  - lia.
  - fold j. lia.
  - fold j. rewrite Ect1. exact Hal1.
  - rewrite Ec1, Ect1, Hval. apply u32_small. exact Hrange.
  - exact Hz1.
Qed.

Definition dec_shift (d : dec) : dec :=
  mkDec (u32 (Z.shiftl (d_a d) 1)) (u32 (Z.shiftl (d_c d) 1)) (d_ct d - 1)
        (d_eos d) (d_bp d) (d_dlen d) (d_cur d) (d_rest d) (d_cx d).

(* both sides shift *)
Lemma DS_shift : forall e d k, DS e d k -> 1 <= d_ct d -> 1 <= e_ct e <= 12 ->
  0 < e_a e < 0x8000 -> ECa e -> DS (shift1 e) (dec_shift d) k.
Proof.
  intros e d k HDS Hctd Hcte Hae HE.
  pose proof (DS_c_range e d k (e_a e) HDS HE ltac:(lia)) as Hcr.
  destruct HDS as [Ha Hcx Hct Hk Hal Hc Hz].
  unfold dec_shift, shift1.
  constructor; cbn [d_a d_c d_ct d_cx e_a e_c e_ct e_cx]; unfold plen; cbn [e_pre].
  - rewrite shiftl_mul by lia. change (2 ^ 1) with 2. rewrite u32_small by (change (2 ^ 32) with 4294967296; lia). lia.
  - exact Hcx.
  - lia.
  - exact Hk.
  - fold (plen e). rewrite Hal. f_equal. lia.
  - rewrite shiftl_mul by lia. change (2 ^ 1) with 2.
    rewrite u32_small by (change (2 ^ 32) with 4294967296; lia).
    fold (shift1 e). rewrite encL_shift1 by lia. rewrite Hc.
    replace (16 - (d_ct d - 1)) with (1 + (16 - d_ct d)) by lia. rewrite Z.pow_add_r by lia.
    change (2 ^ 1) with 2. ring.
  - destruct Hz as [Hwf Hm]. split; [exact Hwf | exact Hm].
Qed.

(* encoder emits a byte (its ct reached 0) *)
Lemma DS_byteout : forall s e d k last stale H, DS e d k -> bo_pre s e last stale -> e_ct e = 0 ->
  EC (enc_byteout e) H -> DS (enc_byteout e) d k.
Proof.
  intros s e d k last stale H [Ha Hcx Hct Hk Hal Hc Hz] Hbo Hct0 HE.
  destruct (EC_byteout s e last stale H Hbo Hct0 HE) as (_ & HL & Hpl & Hw).
  destruct (byteout_exact s e last stale Hbo) as (l' & v & _ & _ & Ea & Ecx & _ & _ & Hcase & _).
  cbv zeta in Ea, Ecx, Hcase.
  assert (Hct' : 7 <= e_ct (enc_byteout e) <= 8) by (destruct Hcase as [(_ & E & _)|(_ & E)]; lia).
  set (j := S (plen e)) in *. rewrite Hct0 in Hal.
  assert (Hn : (2 <= k - j)%nat).
  { destruct (k - j)%nat as [|[|n']] eqn:En; [| |lia].
    - cbn [Wp] in Hal. assert (2 ^ 15 <= 2 ^ (27 - 0 + d_ct d)) by (apply Z.pow_le_mono_r; lia).
      change (2 ^ 15) with 32768 in *. lia.
    - pose proof (Wp_1_le j). assert (2 ^ 15 <= 2 ^ (27 - 0 + d_ct d)) by (apply Z.pow_le_mono_r; lia).
      change (2 ^ 15) with 32768 in *. lia. }
  constructor.
  - congruence.
  - congruence.
  - exact Hct.
  - rewrite Hpl. fold j. lia.
  - rewrite Hpl. fold j.
    replace (k - j)%nat with (S (k - S j)) in Hal by lia. rewrite Wp_S_left in Hal.
    replace (27 - 0 + d_ct d) with (27 + d_ct d) in Hal by lia.
    rewrite Z.pow_add_r in Hal by lia. rewrite Hw in Hal. fold j in Hal.
    rewrite Z.pow_add_r by lia.
    pose proof (wt_pos j) as Hwp.
    apply (Z.mul_cancel_l _ _ (wt j)); [lia|]. rewrite Hal. ring.
  - rewrite HL. exact Hc.
  - exact Hz.
Qed.


Lemma dec_renormd_S : forall f d, d_a d <? 0x8000 = true ->
  dec_renormd_fuel (S f) d =
  obind (if d_ct d =? 0 then dec_bytein d else Ok d) (fun d1 => dec_renormd_fuel f (dec_shift d1)).
Proof. intros f d H. cbn [dec_renormd_fuel]. rewrite H. reflexivity. Qed.

Lemma joint_renorm : forall fuel e d k,
  enc_pre_inv e -> DS e d k -> ECa (enc_renorme_fuel fuel e) -> 0x8000 <= e_a e * 2 ^ Z.of_nat fuel ->
  exists d' k', dec_renormd_fuel fuel d = Ok d' /\ DS (enc_renorme_fuel fuel e) d' k'.
Proof.
  induction fuel as [|f IH]; intros e d k Hpre HDS HE Hf.
  - cbn [enc_renorme_fuel dec_renormd_fuel]. change (2 ^ Z.of_nat 0) with 1 in Hf.
    rewrite (ds_a _ _ _ HDS). destruct (Z.ltb_spec (e_a e) 0x8000); [lia|]. exists d, k. auto.
  - destruct (Z.ltb_spec (e_a e) 0x8000) as [Hlt|Hge].
    + destruct (renorm_iter_spec f e Hpre Hlt) as (Er & Hpre' & Ea' & _ & Hbo).
      rewrite Er in HE |- *.
      pose proof (ECa_renorme_back f _ Hpre' HE) as HE'.
      destruct (ECa_iter_back f e Hpre Hlt HE') as [HEe _].
      pose proof (pi_ct _ Hpre) as Hcte. pose proof (pi_a _ Hpre) as Hae.
      rewrite dec_renormd_S by (rewrite (ds_a _ _ _ HDS); apply Z.ltb_lt; exact Hlt).
      (* decoder: optional bytein *)
      assert (H1 : exists d1 k1, (if d_ct d =? 0 then dec_bytein d else Ok d) = Ok d1 /\
                                 DS e d1 k1 /\ 1 <= d_ct d1).
      { destruct (Z.eqb_spec (d_ct d) 0) as [Hz|Hnz].
        - destruct (DS_bytein e d k (e_a e) HDS Hz HEe) as (d1 & Eb & HDS1 & Hct1);
            [change (2 ^ 32) with 4294967296; lia | lia |].
          exists d1, (S k). split; [exact Eb|]. split; [exact HDS1 | lia].
        - exists d, k. split; [reflexivity|]. split; [exact HDS|].
          pose proof (ds_ct _ _ _ HDS). lia. }
      destruct H1 as (d1 & k1 & E1 & HDS1 & Hct1). rewrite E1. cbn [obind].
      pose proof (DS_shift e d1 k1 HDS1 Hct1 Hcte ltac:(lia) HEe) as HDSs.
      assert (HDS' : DS (renorm_iter e) (dec_shift d1) k1).
      { unfold renorm_iter in *. destruct (Z.eqb_spec (e_ct e - 1) 0) as [Hz|Hnz]; [|exact HDSs].
        destruct (Hbo ltac:(lia)) as (last & stale & Hb).
        apply (DS_byteout (e_a e * 2) (shift1 e) (dec_shift d1) k1 last stale
                 (encL (enc_byteout (shift1 e)) + e_a (enc_byteout (shift1 e))) HDSs Hb);
          [unfold shift1; cbn [e_ct]; lia | exact HE']. }
      apply (IH _ _ _ Hpre' HDS' HE).
      rewrite Ea'. rewrite Nat2Z.inj_succ, Z.pow_succ_r in Hf by lia. lia.
    + cbn [enc_renorme_fuel dec_renormd_fuel]. rewrite (ds_a _ _ _ HDS).
      destruct (Z.ltb_spec (e_a e) 0x8000); [lia|]. exists d, k. auto.
Qed.


(* bounds of the decoder's code register against any encoder state with the same buffer/ct *)
Lemma c_bounds : forall e e' d k H', DS e d k -> EC e' H' ->
  plen e' = plen e -> e_ct e' = e_ct e -> 0 <= e_ct e <= 12 ->
  (encL e' - encL e) * 65536 <= d_c d < (H' - encL e) * 65536.
Proof.
  intros e e' d k H' [Ha Hcx Hct Hk Hal Hc Hz] HE Hpl Hcte Hr.
  assert (Hbig : 256 < 2 ^ (27 - e_ct e' + d_ct d)).
  { rewrite Hcte. assert (2 ^ 15 <= 2 ^ (27 - e_ct e + d_ct d)) by (apply Z.pow_le_mono_r; lia).
    change (2 ^ 15) with 32768 in *. lia. }
  destruct (read_bounds e' H' k (d_ct d) HE ltac:(lia) ltac:(lia)) as [H1 H2];
    [rewrite Hpl; exact Hk | rewrite Hpl, Hcte; exact Hal | exact Hbig |].
  rewrite Hc.
  assert (E : 65536 = 2 ^ d_ct d * 2 ^ (16 - d_ct d)).
  { rewrite <- Z.pow_add_r by lia. replace (d_ct d + (16 - d_ct d)) with 16 by lia. reflexivity. }
  pose proof (pow2_pos (d_ct d) ltac:(lia)). pose proof (pow2_pos (16 - d_ct d) ltac:(lia)).
  rewrite E. set (C := 2 ^ d_ct d) in *. set (Q := 2 ^ (16 - d_ct d)) in *. split; nia.
Qed.

(* after the interval choice both machines renormalise (or not) in lock step *)
Lemma decode_finish : forall e d k s (b : Z),
  DS e d k -> enc_pre_inv (enc_apply_sel e s) ->
  0 < s_a s < 0x10000 -> (s_rn s = false -> 0x8000 <= s_a s) ->
  ECa (if s_rn s then enc_renorme (enc_apply_sel e s) else enc_apply_sel e s) ->
  let dm := dec_set_acx d (s_a s) (d_c d - s_d s * 65536) (s_cx s) in
  if s_rn s then
    exists d' k', obind (dec_renormd dm) (fun d' => Ok (d', b)) = Ok (d', b) /\
                  DS (enc_renorme (enc_apply_sel e s)) d' k'
  else DS (enc_apply_sel e s) dm k.
Proof.
  intros e d k s b HDS Hpre Ha Hrn0 HE. cbv zeta.
  assert (HDm : DS (enc_apply_sel e s) (dec_set_acx d (s_a s) (d_c d - s_d s * 65536) (s_cx s)) k).
  { destruct HDS as [Ha' Hcx Hct Hk Hal Hc Hz].
    constructor; unfold enc_apply_sel, enc_set_acx, dec_set_acx, plen;
      cbn [d_a d_c d_ct d_cx e_a e_c e_ct e_cx e_pre]; try reflexivity; try assumption.
    fold (enc_set_acx e (s_a s) (e_c e + s_d s) (s_cx s)). fold (enc_apply_sel e s).
    rewrite encL_apply_sel, Hc. ring. }
  destruct (s_rn s); [|exact HDm].
  rewrite enc_renorme_unfold in HE |- *.
  destruct (joint_renorm 16 _ _ _ Hpre HDm HE) as (d' & k' & Er & HD').
  { unfold enc_apply_sel, enc_set_acx. cbn [e_a]. change (2 ^ Z.of_nat 16) with 65536. lia. }
  exists d', k'. unfold dec_renormd. rewrite Er. cbn [obind]. auto.
Qed.


Lemma shiftr16_lt : forall x q, 0 <= x -> (Z.shiftr x 16 <? q) = (x <? q * 65536).
Proof.
  intros x q Hx. rewrite shiftr_div by lia. change (2 ^ 16) with 65536.
  destruct (Z.ltb_spec (x / 65536) q); destruct (Z.ltb_spec x (q * 65536)); try reflexivity;
    Z.div_mod_to_equations; lia.
Qed.

Lemma joint_decode : forall e d k bit ctx,
  enc_inv e -> DS e d k -> ECa (enc_encode e bit ctx) -> (bit = 0 \/ bit = 1) ->
  0 <= ctx < zlen (e_cx e) ->
  exists d' k', dec_decode d ctx = Ok (d', bit) /\ DS (enc_encode e bit ctx) d' k'.
Proof.
  intros e d k bit ctx Hinv HDS HE Hbit Hctx.
  destruct (enc_encode_sel e bit ctx Hinv) as (Eenc & Hok).
  destruct (ECa_encode_back e bit ctx Hinv HE) as [HEs HEe].
  rewrite Eenc in HE |- *.
  destruct Hok as (Hqe & Hsel & Ha & Hrn0 & Hrn1 & Hcxs & Hpre).
  pose proof Hinv as [[Hae Hcte _ _ _ Hcx] Ha8].
  pose proof (c_bounds e (enc_apply_sel e (enc_sel e bit ctx)) d k _ HDS HEs eq_refl eq_refl ltac:(lia)) as Hcb.
  rewrite encL_apply_sel in Hcb.
  change (e_a (enc_apply_sel e (enc_sel e bit ctx))) with (s_a (enc_sel e bit ctx)) in Hcb.
  pose proof (decode_finish e d k (enc_sel e bit ctx) bit HDS Hpre Ha Hrn0 HE) as Hfin. cbv zeta in Hfin.
  pose proof (DS_c_range e d k (e_a e) HDS HEe ltac:(lia)) as Hc0.
  (* the decoder's view of the context *)
  unfold dec_decode. rewrite (ds_cx _ _ _ HDS), (ds_a _ _ _ HDS).
  unfold sel_qe in *.
  set (cxv := znth (e_cx e) ctx 0) in *.
  assert (Hcxv : cx_ok cxv) by (apply znth_Forall; [exact Hcx | exact cx_ok_0]).
  pose proof (cx_ok_state _ Hcxv) as Hst. pose proof (cx_ok_mps _ Hcxv) as Hmps.
  replace (ctx_in_range (e_cx e) ctx && (cx_state cxv <? mq_nstates)) with true.
  2:{ symmetry. unfold ctx_in_range, mq_nstates. apply andb_true_iff. split.
      - apply andb_true_iff. split; [apply Z.leb_le | apply Z.ltb_lt]; lia.
      - apply Z.ltb_lt. lia. }
  cbv zeta. set (qe := tbl_qe (cx_state cxv)) in *.
  change 0x8000 with 32768 in *. change 0x10000 with 65536 in *.
  rewrite (u32_small (e_a e - qe)) by (change (2 ^ 32) with 4294967296; lia).
  change 32768 with (2 ^ 15) at 1.
  rewrite (land_pow2_eqb (e_a e - qe) 15) by (change (2 ^ (15 + 1)) with 65536; lia).
  change (2 ^ 15) with 32768.
  rewrite (shiftr16_lt (d_c d) qe) by lia.
  rewrite shiftl_mul by lia. change (2 ^ 16) with 65536.
  rewrite (u32_small (qe * 65536)) by (change (2 ^ 32) with 4294967296; lia).
  (* which interval did the encoder choose? *)
  assert (Es : enc_sel e bit ctx =
    if bit =? cx_mps cxv then
      if e_a e - qe <? 32768 then
        if e_a e - qe <? qe then mkSel qe 0 (upd (e_cx e) ctx (cx_after_mps cxv)) true
        else mkSel (e_a e - qe) qe (upd (e_cx e) ctx (cx_after_mps cxv)) true
      else mkSel (e_a e - qe) qe (e_cx e) false
    else
      if e_a e - qe <? qe then mkSel (e_a e - qe) qe (upd (e_cx e) ctx (cx_after_lps cxv)) true
      else mkSel qe 0 (upd (e_cx e) ctx (cx_after_lps cxv)) true) by reflexivity.
  rewrite Es in *. clear Es.
  destruct (Z.eqb_spec bit (cx_mps cxv)) as [Hb|Hb].
  - (* MPS coded *)
    destruct (Z.ltb_spec (e_a e - qe) 32768) as [Hlt|Hge].
    + destruct (Z.ltb_spec (e_a e - qe) qe) as [Hx|Hx]; cbn [s_a s_d s_cx s_rn] in *.
      * (* lower interval *)
        destruct (Z.ltb_spec (d_c d) (qe * 65536)) as [_|?]; [|lia].
        rewrite Z.mul_0_l, Z.sub_0_r in Hfin. rewrite <- Hb. exact Hfin.
      * (* upper interval, renormalise *)
        destruct (Z.ltb_spec (d_c d) (qe * 65536)) as [?|_]; [lia|].
        rewrite (u32_small (d_c d - qe * 65536)) by (change (2 ^ 32) with 4294967296; lia).
        cbn [negb]. rewrite <- Hb. exact Hfin.
    + cbn [s_a s_d s_cx s_rn] in *.
      destruct (Z.ltb_spec (d_c d) (qe * 65536)) as [?|_]; [lia|].
      rewrite (u32_small (d_c d - qe * 65536)) by (change (2 ^ 32) with 4294967296; lia).
      cbn [negb]. exists (dec_set_acx d (e_a e - qe) (d_c d - qe * 65536) (e_cx e)), k.
      split; [rewrite Hb; reflexivity | exact Hfin].
  - (* LPS coded *)
    assert (Hb1 : bit = 1 - cx_mps cxv) by lia.
    destruct (Z.ltb_spec (e_a e - qe) qe) as [Hx|Hx]; cbn [s_a s_d s_cx s_rn] in *.
    + destruct (Z.ltb_spec (d_c d) (qe * 65536)) as [?|_]; [lia|].
      rewrite (u32_small (d_c d - qe * 65536)) by (change (2 ^ 32) with 4294967296; lia).
      destruct (Z.ltb_spec (e_a e - qe) 32768) as [_|?]; [|lia]. cbn [negb].
      rewrite <- Hb1. exact Hfin.
    + destruct (Z.ltb_spec (d_c d) (qe * 65536)) as [_|?]; [|lia].
      rewrite Z.mul_0_l, Z.sub_0_r in Hfin. rewrite <- Hb1. exact Hfin.
Qed.


Lemma enc_byteout_cx : forall e, e_cx (enc_byteout e) = e_cx e.
Proof.
  intros e. unfold enc_byteout.
  destruct (e_post e) as [|x r]; cbn [e_cx];
    repeat match goal with |- context [if ?b then _ else _] => destruct b end; reflexivity.
Qed.

Lemma enc_renorme_fuel_cx : forall f e, e_cx (enc_renorme_fuel f e) = e_cx e.
Proof.
  induction f as [|f IH]; intros e; cbn [enc_renorme_fuel]; [reflexivity|].
  destruct (e_a e <? 0x8000); [|reflexivity]. rewrite IH.
  match goal with |- context [if ?b then _ else _] => destruct b end;
    [rewrite enc_byteout_cx|]; reflexivity.
Qed.

Lemma enc_encode_cx_length : forall e bit ctx, length (e_cx (enc_encode e bit ctx)) = length (e_cx e).
Proof.
  intros e bit ctx. unfold enc_encode. cbv zeta.
  repeat match goal with |- context [if ?b then _ else _] => destruct b end;
    unfold enc_renorme; rewrite ?enc_renorme_fuel_cx; unfold enc_set_acx; cbn [e_cx];
    rewrite ?upd_length; reflexivity.
Qed.

Lemma ECa_list_back : forall l e, enc_inv e -> ECa (enc_encode_list e l) -> ECa e.
Proof.
  induction l as [|[b c] t IH]; intros e Hinv HE; cbn [enc_encode_list] in HE; [exact HE|].
  apply (ECa_encode_back e b c Hinv). apply IH; [apply enc_encode_inv; exact Hinv | exact HE].
Qed.

Lemma joint_decode_list : forall l e d k,
  enc_inv e -> DS e d k -> ECa (enc_encode_list e l) ->
  Forall (decision_ok (zlen (e_cx e))) l ->
  exists d' k', dec_decode_list d (map snd l) = Ok (d', map fst l) /\ DS (enc_encode_list e l) d' k'.
Proof.
  induction l as [|[b c] t IH]; intros e d k Hinv HDS HE Hl.
  - exists d, k. split; [reflexivity | exact HDS].
  - inversion Hl as [|? ? [Hb Hc] Ht]; subst. cbn [fst snd] in Hb, Hc.
    cbn [enc_encode_list map fst snd dec_decode_list] in *.
    pose proof (enc_encode_inv e b c Hinv) as Hinv1.
    pose proof (ECa_list_back t _ Hinv1 HE) as HE1.
    destruct (joint_decode e d k b c Hinv HDS HE1 Hb Hc) as (d1 & k1 & E1 & HDS1).
    rewrite E1. cbn [obind fst snd].
    destruct (IH _ d1 k1 Hinv1 HDS1 HE) as (d2 & k2 & E2 & HDS2).
    { unfold zlen in *. rewrite enc_encode_cx_length. exact Ht. }
    rewrite E2. cbn [obind fst snd]. exists d2, k2. split; [reflexivity | exact HDS2].
Qed.


Lemma DS_init : forall cx, ECa (enc_new_cx cx) ->
  exists dd, dec_new_cx SS cx = Ok dd /\ DS (enc_new_cx cx) dd 3.
Proof.
  intros cx HE0.
  (* the completion bounds force the dummy byte to be 0 *)
  assert (Hd0 : Db 0 = 0).
  { destruct HE0 as [_ _ [_ HU]]. specialize (HU O).
    unfold encL, enc_new_cx, plen in HU. cbn [e_pre e_post e_ct e_c e_a length hd Tv Wp] in HU.
    change (1 + 0)%nat with 1%nat in HU. cbn [Tv] in HU.
    change (2 ^ (27 - 12)) with 32768 in HU. change 0x8000 with 32768 in HU.
    pose proof (Dbytes 0). lia. }
  unfold dec_new_cx.
  destruct (SS ++ [0xFF; 0xFF]) as [|b0 rest] eqn:Ef.
  { apply (f_equal (@length Z)) in Ef. rewrite app_length in Ef. simpl in Ef. lia. }
  (* the first byte *)
  assert (Hb0 : b0 = Db 1).
  { rewrite Db_S, <- sentinel_nth. unfold sentinel. change 0xFF with 255 in Ef. rewrite Ef. reflexivity. }
  pose proof (Dbytes 1) as HB1. pose proof (Dbytes 2) as HB2.
  assert (Hc0 : (if zlen SS =? 0 then Z.shiftl 255 16 else u32 (Z.shiftl b0 16)) = Db 1 * 65536).
  { destruct (Z.eqb_spec (zlen SS) 0) as [Hz|Hz].
    - rewrite Db_S, nth_overflow by (unfold zlen in Hz; lia). reflexivity.
    - rewrite shiftl_mul by lia. change (2 ^ 16) with 65536. rewrite Hb0.
      apply u32_small. change (2 ^ 32) with 4294967296. lia. }
  change 0xFF with 255 in *. rewrite Hc0.
  set (dp := mkDec 0x8000 (Db 1 * 65536) 0 0 0 (zlen SS + 2) b0 rest cx).
  assert (Hzp : zrel dp 2).
  { split; [|left; reflexivity].
    unfold dec_wf, dp. cbn [d_bp d_dlen d_cur d_rest]. split; [unfold zlen; lia|]. split; [reflexivity|].
    simpl skipn. exact Ef. }
  destruct (bytein_sim dp 2 Hzp ltac:(lia)) as (d1 & Eb & Hz1 & Ea1 & Ecx1 & Ect1 & Ec1).
  rewrite Eb. cbn [obind]. eexists. split; [reflexivity|].
  set (ct1 := if wt 2 =? 128 then 7 else 8) in *.
  assert (Hw2 : wt 2 = 2 ^ ct1) by apply wt_pow.
  assert (Hct1 : ct1 = 7 /\ wt 2 = 128 /\ Db 2 <= 143 \/ ct1 = 8 /\ wt 2 = 256).
  { unfold ct1. destruct (wt_cases 2) as [E|E]; rewrite E; [left | right]; repeat split; try reflexivity.
    cbn [wt] in E. destruct ((Db 1 =? 255) && (Db 2 <=? 143)) eqn:Eb2; [|discriminate].
    apply andb_true_iff in Eb2. destruct Eb2 as [_ Hle]. apply Z.leb_le in Hle. exact Hle. }
  assert (Htv3 : Tv 3 = Db 1 * wt 2 + Db 2).
  { cbn [Tv]. rewrite Hd0. ring. }
  change (d_c dp) with (Db 1 * 65536) in Ec1. change (d_a dp) with 0x8000 in Ea1.
  change (d_cx dp) with cx in Ecx1. rewrite Ect1 in Ec1.
  assert (Hc1 : d_c d1 = Tv 3 * 2 ^ (16 - ct1)).
  { rewrite Ec1, Htv3.
    destruct Hct1 as [(E & Ew & Hd)|(E & Ew)]; rewrite E, Ew;
      [change (2 ^ (16 - 7)) with 512 | change (2 ^ (16 - 8)) with 256];
      rewrite u32_small by (change (2 ^ 32) with 4294967296; lia); ring. }
  constructor; cbn [d_a d_c d_ct d_cx]; unfold enc_new_cx, plen; cbn [e_a e_cx e_ct e_pre length].
  - reflexivity.
  - exact Ecx1.
  - rewrite Ect1. destruct Hct1 as [(E & _)|(E & _)]; rewrite E; lia.
  - lia.
  - change (3 - 1)%nat with 2%nat. cbn [Wp]. change (1 + 0)%nat with 1%nat. change (1 + 1)%nat with 2%nat.
    assert (Hw1 : wt 1 = 256) by (cbn [wt]; rewrite Hd0; reflexivity).
    rewrite Hw1, Hw2, Ect1. change (1 * 256) with (2 ^ 8). rewrite <- Z.pow_add_r by (destruct Hct1 as [(E & _)|(E & _)]; lia).
    f_equal. lia.
  - assert (EL : encL (mkEnc 0x8000 0 12 [] [0] cx) = 0).
    { unfold encL, plen. cbn [e_pre e_post e_ct e_c length hd Tv]. ring. }
    rewrite EL, Hc1, Ect1. rewrite shiftl_mul by lia.
    replace (16 - (ct1 - 7)) with ((16 - ct1) + 7) by lia.
    rewrite Z.pow_add_r by (destruct Hct1 as [(E & _)|(E & _)]; lia).
    rewrite u32_small; [ring|]. rewrite Htv3.
    destruct Hct1 as [(E & Ew & Hd)|(E & Ew)]; rewrite E, Ew;
      [change (2 ^ (16 - 7)) with 512 | change (2 ^ (16 - 8)) with 256];
      change (2 ^ 7) with 128; change (2 ^ 32) with 4294967296; lia.
  - destruct Hz1 as [Hwf Hm]. split; [exact Hwf | exact Hm].
Qed.

(* the round trip, relative to the section hypotheses on SS *)
Lemma roundtrip_in_section : forall cx l,
  Forall cx_ok cx -> Forall (decision_ok (zlen cx)) l ->
  ECa (enc_encode_list (enc_new_cx cx) l) ->
  mq_decode_cx cx SS (map snd l) = Ok (map fst l).
Proof.
  intros cx l Hcx Hl HE. unfold mq_decode_cx.
  destruct (DS_init cx (ECa_list_back l _ (enc_new_inv cx Hcx) HE)) as (dd & E0 & HDS0). rewrite E0. cbn [obind].
  destruct (joint_decode_list l _ dd 3%nat (enc_new_inv cx Hcx) HDS0 HE Hl) as (d' & k' & E1 & _).
  rewrite E1. reflexivity.
Qed.

End Stream.

(* ---------- discharging the section hypotheses for the real Flush output ---------- *)
Lemma nth_split2 : forall (B : list Z) i d, (S i < length B)%nat ->
  B = firstn i B ++ nth i B d :: nth (S i) B d :: skipn (S (S i)) B.
Proof.
  induction B as [|x B IH]; intros i d Hi; [simpl in Hi; lia|].
  destruct i as [|i].
  - destruct B as [|y B']; [simpl in Hi; lia|]. reflexivity.
  - simpl in Hi. cbn [firstn app]. f_equal.
    change (nth (S i) (x :: B) d) with (nth i B d).
    change (nth (S (S i)) (x :: B) d) with (nth (S i) B d).
    change (skipn (S (S (S i))) (x :: B)) with (skipn (S (S i)) B).
    apply IH. lia.
Qed.

Lemma nomark_rev_index : forall R i, nomark_rev R -> (S i < length R)%nat ->
  nth i (rev R) 255 = 255 -> nth (S i) (rev R) 255 <= 143.
Proof.
  intros R i Hn Hi Hx. rewrite <- rev_length in Hi.
  pose proof (nth_split2 (rev R) i 255 Hi) as Hs.
  apply (f_equal (@rev Z)) in Hs. rewrite rev_involutive in Hs.
  rewrite rev_app_distr in Hs. cbn [rev] in Hs. rewrite <- !app_assoc in Hs. cbn [app] in Hs.
  rewrite Hs in Hn. exact (nomark_rev_app _ _ _ _ Hn Hx).
Qed.

Theorem mq_roundtrip_cx : forall (cx : list Z) (l : list (Z * Z)),
  Forall cx_ok cx -> Forall (decision_ok (zlen cx)) l ->
  mq_decode_cx cx (mq_encode_cx cx l) (map snd l) = Ok (map fst l).
Proof.
  intros cx l Hcx Hl. unfold mq_encode_cx.
  set (en := enc_encode_list (enc_new_cx cx) l).
  assert (Hinv : enc_inv en) by (apply enc_encode_list_inv, enc_new_inv; exact Hcx).
  destruct (flush_state_spec en Hinv) as (h & P' & EP & HP' & Hh & [Hb Hn]).
  (* the buffer after Flush, dummy byte first *)
  remember (rev (h :: P')) as B eqn:EB.
  assert (HlenB : length B = S (length P')) by (rewrite EB, rev_length; reflexivity).
  destruct B as [|d0 SS]; [simpl in HlenB; lia|].
  assert (Hflush : enc_flush en = SS).
  { unfold enc_flush, enc_get_buffer, enc_bp, zlen. rewrite EP.
    destruct (Z.ltb_spec (Z.of_nat (length (h :: P'))) 1) as [Hx|_]; [simpl length in Hx; lia|].
    rewrite <- EB. reflexivity. }
  rewrite Hflush.
  apply (roundtrip_in_section d0 SS); try assumption.
  - (* bytes *)
    intros i. destruct (lt_dec i (length (d0 :: SS))) as [Hi|Hi].
    + assert (HF : Forall is_byteP (d0 :: SS)) by (rewrite EB; apply Forall_rev; exact Hb).
      rewrite Forall_forall in HF. specialize (HF (nth i (d0 :: SS) 255) (nth_In _ _ Hi)).
      unfold is_byteP in HF. lia.
    + rewrite nth_overflow by lia. lia.
  - (* no FF followed by > 0x8F *)
    intros i Hi Hx. rewrite EB in *. apply nomark_rev_index; [exact Hn | rewrite rev_length in Hi; exact Hi | exact Hx].
  - (* the last byte is not FF *)
    intros i Hi Hx. rewrite EB in Hx, Hi. rewrite rev_length in Hi.
    rewrite rev_nth in Hx by lia. replace (length (h :: P') - S i)%nat with O in Hx by lia.
    simpl in Hx. contradiction.
  - (* completion of the final encoder state *)
    apply EC_flush; try assumption.
    + intros i. destruct (lt_dec i (length (d0 :: SS))) as [Hi|Hi].
      * assert (HF : Forall is_byteP (d0 :: SS)) by (rewrite EB; apply Forall_rev; exact Hb).
        rewrite Forall_forall in HF. specialize (HF (nth i (d0 :: SS) 255) (nth_In _ _ Hi)).
        unfold is_byteP in HF. lia.
      * rewrite nth_overflow by lia. lia.
    + intros i Hi Hx. rewrite EB in *. apply nomark_rev_index; [exact Hn | rewrite rev_length in Hi; exact Hi | exact Hx].
    + intros i Hi Hx. rewrite EB in Hx, Hi. rewrite rev_length in Hi.
      rewrite rev_nth in Hx by lia. replace (length (h :: P') - S i)%nat with O in Hx by lia.
      simpl in Hx. contradiction.
    + fold en. unfold D. rewrite EP, <- EB. reflexivity.
Qed.

Theorem mq_roundtrip_holds : mq_roundtrip_statement.
Proof. exact mq_roundtrip_cx. Qed.

(* the fresh-context form of the property text *)
Theorem mq_roundtrip : forall (n : nat) (l : list (Z * Z)),
  Forall (decision_ok (Z.of_nat n)) l ->
  mq_decode n (mq_encode n l) (map snd l) = Ok (map fst l).
Proof.
  intros n l Hl. unfold mq_decode, mq_encode. apply mq_roundtrip_cx.
  - apply zrepeat_Forall. exact cx_ok_0.
  - unfold zlen. rewrite zrepeat_length. exact Hl.
Qed.
Print Assumptions mq_roundtrip.
