(* MQ coder, segment-level facts for the T1 composition:
   A. a codeword closed by ErtermEnc decodes to its decisions (EC_erterm, mq_erterm_segment)
   B. a RAW segment is read back bit for bit by the raw decoder (raw_segment) *)
From V Require Import Common.Base MQ.MqModel MQ.MqProofs MQ.MqProofsDec MQ.MqProofsRt MQ.MqProofsRt2 MQ.MqProofsTerm.

(* ---------- state after the loop of ErtermEnc and the optional last byteout ---------- *)
Lemma erterm_state_spec : forall e, enc_inv e ->
  exists e1 last1 stale,
    e1 = snd (enc_erterm_loop 4 (11 - e_ct e + 1) e) /\ term_inv e1 /\
    e_post e1 = last1 :: stale /\ buf_ok (last1 :: e_pre e1) /\
    e_pre (enc_erterm e) = (if last1 =? 255 then e_pre e1 else last1 :: e_pre e1) /\
    (last1 = 255 -> enc_erterm e = e1).
Proof.
  intros e Hinv. pose proof (enc_inv_term_inv e Hinv) as Ht.
  pose proof (ti_ct _ Ht) as Hct.
  destruct (erterm_loop_spec 4 (11 - e_ct e + 1) e Ht ltac:(change (Z.of_nat 4) with 4; lia)) as [Hk H1].
  unfold enc_erterm.
  set (e1 := snd (enc_erterm_loop 4 (11 - e_ct e + 1) e)) in *.
  pose proof H1 as [Hct1 Hc1 Hpot1 (last & stale & Hpost & Hbuf & Hff)].
  exists e1, last, stale. split; [reflexivity|]. split; [exact H1|]. split; [exact Hpost|]. split; [exact Hbuf|].
  rewrite Hpost. change 0xFF with 255.
  destruct (buf_ok_head _ _ Hbuf) as [Hlb Hlm].
  destruct (Z.eqb_spec last 255) as [Hl|Hl]; [split; [reflexivity | intros; reflexivity]|].
  split; [|intros; contradiction].
  assert (Hc27 : e_c e1 < 2 ^ 27).
  { change (2 ^ 27) with 134217728.
    assert (H2 : 2 <= 2 ^ e_ct e1) by (change 2 with (2 ^ 1) at 1; apply Z.pow_le_mono_r; lia).
    assert ((e_c e1 + 1) * 2 <= (e_c e1 + 1) * 2 ^ e_ct e1) by (apply Z.mul_le_mono_nonneg_l; lia).
    lia. }
  unfold enc_byteout. rewrite Hpost.
  change 0xFF with 255. destruct (Z.eqb_spec last 255); [contradiction|].
  change 0x8000000 with (2 ^ 27).
  rewrite (land_pow2_eqb (e_c e1) 27) by (change (2 ^ (27 + 1)) with 268435456; change (2 ^ 27) with 134217728 in Hc27; lia).
  destruct (Z.ltb_spec (e_c e1) (2 ^ 27)); [|lia]. reflexivity.
Qed.

(* before the first byteout the buffer is still [dummy = 0] *)
Definition fresh_buf (e : enc) : Prop := e_pre e = [] -> e_post e = [0].

Lemma byteout_pre_ne : forall e, e_pre (enc_byteout e) <> [].
Proof.
  intros e. unfold enc_byteout.
  destruct (e_post e) as [|x r]; cbn [e_pre];
    repeat match goal with |- context [if ?b then _ else _] => destruct b end; cbn [e_pre]; discriminate.
Qed.

Lemma renorme_fuel_fresh : forall f e, fresh_buf e -> fresh_buf (enc_renorme_fuel f e).
Proof.
  induction f as [|f IH]; intros e H; cbn [enc_renorme_fuel]; [exact H|].
  destruct (e_a e <? 0x8000); [|exact H]. apply IH.
  match goal with |- context [if ?b then _ else _] => destruct b end.
  - intros E. exfalso. exact (byteout_pre_ne _ E).
  - exact H.
Qed.

Lemma encode_fresh : forall e b c, fresh_buf e -> fresh_buf (enc_encode e b c).
Proof.
  intros e b c H. unfold enc_encode. cbv zeta.
  repeat match goal with |- context [if ?b then _ else _] => destruct b end;
    unfold enc_renorme; try apply renorme_fuel_fresh; exact H.
Qed.

Lemma encode_list_fresh : forall l e, fresh_buf e -> fresh_buf (enc_encode_list e l).
Proof.
  induction l as [|[b c] t IH]; intros e H; cbn [enc_encode_list]; [exact H|].
  apply IH, encode_fresh, H.
Qed.

Section ErtermStream.
Variable d0 : Z.
Variable SS : list Z.
Hypothesis Bbytes : forall i, 0 <= nth i (d0 :: SS) 255 <= 255.
Hypothesis Bnm1 : forall i, (S i < length (d0 :: SS))%nat ->
  nth i (d0 :: SS) 255 = 255 -> nth (S i) (d0 :: SS) 255 <= 143.
Hypothesis Bnm2 : forall i, S i = length (d0 :: SS) -> nth i (d0 :: SS) 255 <> 255.

Notation ECx := (EC d0 SS).
Notation encLx := (encL d0 SS).
Notation Dx := (D d0 SS).
Notation Dbx := (Db d0 SS).

Lemma encL_shift_ct0 : forall e, 1 <= e_ct e <= 12 -> 0 <= e_c e -> e_c e * 2 ^ e_ct e < 2 ^ 32 ->
  encLx (set_ct0 (enc_shift_ct e)) = 2 ^ e_ct e * encLx e.
Proof.
  intros e Hct Hc Hlt.
  assert (Hp : 0 < 2 ^ e_ct e) by (apply Z.pow_pos_nonneg; lia).
  unfold set_ct0, enc_shift_ct, shl32, encL, plen. cbn [e_a e_c e_ct e_pre e_post e_cx].
  replace ((0 <=? e_ct e) && (e_ct e <? 32)) with true
    by (symmetry; apply andb_true_iff; split; [apply Z.leb_le | apply Z.ltb_lt]; lia).
  rewrite shiftl_mul by lia. rewrite u32_small by lia. change (27 - 0) with 27.
  replace 27 with (e_ct e + (27 - e_ct e)) at 1 by lia. rewrite Z.pow_add_r by lia. ring.
Qed.

(* backwards over the loop of ErtermEnc.  G is the interval width in units of the current
   register; 2^(27 - ct - k) <= G says the bits still to be flushed lie below the interval. *)
Lemma EC_erterm_loop : forall fuel k e G,
  term_inv e -> (k <= 0 -> e_c e < 2 ^ (27 - e_ct e)) -> k <= 12 - e_ct e ->
  2 ^ (27 - e_ct e - k) <= G -> k <= 7 * Z.of_nat fuel ->
  (exists v stale, e_post (snd (enc_erterm_loop fuel k e)) = v :: stale /\
     firstn (S (plen (snd (enc_erterm_loop fuel k e)))) Dx = rev (v :: e_pre (snd (enc_erterm_loop fuel k e))) /\
     forall n, Dbx (S (plen (snd (enc_erterm_loop fuel k e))) + n) = 255) ->
  ECx e (encLx e + G).
Proof.
  induction fuel as [|f IH]; intros k e G Hinv Hc0 Hk12 HG Hkf Hbase.
  - cbn [enc_erterm_loop snd] in Hbase. change (Z.of_nat 0) with 0 in Hkf.
    destruct Hbase as (v & stale & Hpost & Hag & Htl).
    destruct Hinv as [Hct Hc _ _].
    apply (EC_base d0 SS e v stale G Hpost Hag Htl); [split; [exact Hc | apply Hc0; lia]|].
    assert (2 ^ (27 - e_ct e) <= 2 ^ (27 - e_ct e - k)) by (apply Z.pow_le_mono_r; lia). lia.
  - cbn [enc_erterm_loop] in Hbase.
    destruct (Z.ltb_spec 0 k) as [Hpos|Hle].
    + (* one iteration: c <<= ct; ct = 0; byteout *)
      destruct (erterm_iter e Hinv) as [Hinv1 Hct1]. cbv zeta in Hinv1, Hct1.
      pose proof Hinv as [Hct Hc Hpot (last & stale & Hpost & Hbuf & Hff)].
      destruct (shift_ct_bo_pre e last stale Hct Hc Hpot Hpost Hbuf Hff) as [Hbo Hlt].
      change (mkEnc (e_a e) (shl32 (e_c e) (e_ct e)) 0 (e_pre e) (e_post e) (e_cx e))
        with (set_ct0 (enc_shift_ct e)) in *.
      set (e0 := set_ct0 (enc_shift_ct e)) in *.
      set (e1 := enc_byteout e0) in *.
      destruct (byteout_exact 1 e0 last stale Hbo) as (l' & v & _ & _ & _ & _ & _ & _ & Hcase & Hc1 & _).
      cbv zeta in Hcase, Hc1. fold e1 in Hcase, Hc1.
      assert (Hp : 0 < 2 ^ e_ct e) by (apply Z.pow_pos_nonneg; lia).
      assert (HE1 : ECx e1 (encLx e1 + 2 ^ e_ct e * G)).
      { apply (IH (k - e_ct e1) e1 (2 ^ e_ct e * G) Hinv1); try lia.
        - replace (27 - e_ct e1 - (k - e_ct e1)) with (e_ct e + (27 - e_ct e - k)) by lia.
          rewrite Z.pow_add_r by lia. apply Z.mul_le_mono_nonneg_l; lia.
        - exact Hbase. }
      destruct (EC_byteout d0 SS Bbytes Bnm1 Bnm2 1 e0 last stale _ Hbo eq_refl HE1) as (HE0 & EL1 & _).
      fold e1 in EL1. rewrite EL1 in HE0.
      pose proof (encL_shift_ct0 e Hct Hc Hlt) as EL0. fold e0 in EL0. rewrite EL0 in HE0.
      apply (EC_shift_ct_back d0 SS e (encLx e + G) Hct Hc Hlt). fold e0.
      replace (2 ^ e_ct e * (encLx e + G)) with (2 ^ e_ct e * encLx e + 2 ^ e_ct e * G) by ring. exact HE0.
    + cbn [snd] in Hbase. destruct Hbase as (v & stale & Hpost & Hag & Htl).
      destruct Hinv as [Hct Hc _ _].
      apply (EC_base d0 SS e v stale G Hpost Hag Htl); [split; [exact Hc | apply Hc0; lia]|].
      assert (2 ^ (27 - e_ct e) <= 2 ^ (27 - e_ct e - k)) by (apply Z.pow_le_mono_r; lia). lia.
Qed.

(* EC_erterm: the completion predicate for a codeword closed by ErtermEnc *)
Lemma EC_erterm : forall e, enc_inv e ->
  Dx = rev (e_pre (enc_erterm e)) ++ [255] -> ECa d0 SS e.
Proof.
  intros e Hinv HD.
  destruct (erterm_state_spec e Hinv) as (e1 & last1 & stale & Ee1 & Ht1 & Hpost1 & Hbuf1 & Epre & _).
  pose proof (enc_inv_term_inv e Hinv) as Ht.
  pose proof (pre_inv_c_bound e (proj1 Hinv)) as Hcb.
  destruct Hinv as [[Ha Hct Hc Hpot _ _] Ha8].
  unfold ECa. apply (EC_erterm_loop 4 (11 - e_ct e + 1) e (e_a e) Ht); try lia.
  - intros Hk. assert (E12 : e_ct e = 12) by lia. rewrite E12 in *.
    change (2 ^ 12) with 4096 in Hpot. change (2 ^ (27 - 12)) with 32768. lia.
  - replace (27 - e_ct e - (11 - e_ct e + 1)) with 15 by lia. change (2 ^ 15) with 32768. lia.
  - rewrite <- Ee1. exists last1, stale. split; [exact Hpost1|].
    rewrite Epre in HD.
    assert (Hlen : length (rev (last1 :: e_pre e1)) = S (plen e1)) by (rewrite rev_length; reflexivity).
    destruct (Z.eqb_spec last1 255) as [E|E].
    + assert (HD' : Dx = rev (last1 :: e_pre e1)) by (rewrite HD, E; reflexivity).
      split.
      * rewrite HD'. apply firstn_all2. rewrite Hlen. lia.
      * intros n. unfold Db. rewrite HD'. apply nth_overflow. rewrite Hlen. lia.
    + assert (HD' : Dx = rev (last1 :: e_pre e1) ++ [255]) by (rewrite HD; reflexivity).
      split.
      * rewrite HD'. rewrite firstn_app. rewrite Hlen. rewrite Nat.sub_diag, firstn_O, app_nil_r.
        apply firstn_all2. rewrite Hlen. lia.
      * intros n. unfold Db. rewrite HD'. rewrite app_nth2 by (rewrite Hlen; lia). rewrite Hlen.
        destruct (S (plen e1) + n - S (plen e1))%nat as [|[|?]]; reflexivity.
Qed.

End ErtermStream.

(* ---------- the ErtermEnc segment theorem ---------- *)
Lemma erterm_loop_pre_nil : forall f k e, e_pre (snd (enc_erterm_loop f k e)) = [] ->
  snd (enc_erterm_loop f k e) = e.
Proof.
  induction f as [|f IH]; intros k e H; cbn [enc_erterm_loop] in *; [reflexivity|].
  destruct (0 <? k); [|reflexivity].
  exfalso. pose proof (IH _ _ H) as E. rewrite E in H. exact (byteout_pre_ne _ H).
Qed.

Lemma last_rev_cons : forall (h : Z) P' d0 SS, rev (h :: P') = d0 :: SS -> SS = [] \/ last SS 0 = h.
Proof.
  intros h P' d0 SS E. cbn [rev] in E. destruct (rev P') as [|x t]; cbn [app] in E; inversion E; subst.
  - left. reflexivity.
  - right. apply last_last.
Qed.

Theorem mq_erterm_segment : forall (cx : list Z) (l : list (Z * Z)),
  Forall cx_ok cx -> Forall (decision_ok (zlen cx)) l ->
  let en := enc_encode_list (enc_new_cx cx) l in
  enc_erterm_panics en = false /\
  fst (enc_erterm_loop 4 (11 - e_ct en + 1) en) <= 0 /\
  exists seg, rev (e_pre (enc_erterm en)) = 0 :: seg /\ seg = enc_get_buffer (enc_erterm en) /\
    last seg 0 <> 255 /\
    exists dd d', dec_new_cx seg cx = Ok dd /\
      dec_decode_list dd (map snd l) = Ok (d', map fst l) /\ d_cx d' = e_cx en.
Proof.
  intros cx l Hcx Hl en.
  assert (Hinv0 : enc_inv (enc_new_cx cx)) by (apply enc_new_inv; exact Hcx).
  assert (Hinv : enc_inv en) by (apply enc_encode_list_inv; exact Hinv0).
  destruct (enc_erterm_no_marker en Hinv) as (Hpan & Hfuel & _).
  split; [exact Hpan|]. split; [exact Hfuel|].
  destruct (erterm_state_spec en Hinv) as (e1 & last1 & stale & Ee1 & Ht1 & Hpost1 & Hbuf1 & Epre & _).
  destruct (buf_ok_head _ _ Hbuf1) as [Hlb Hlm].
  (* the buffer prefix after ErtermEnc: non-empty, well formed, not ending in FF *)
  assert (HP : exists h P', e_pre (enc_erterm en) = h :: P' /\ h <> 255 /\ buf_ok (h :: P')).
  { rewrite Epre. destruct (Z.eqb_spec last1 255) as [E|E].
    - destruct (e_pre e1) as [|x t] eqn:Ex.
      + exfalso.
        assert (E1 : e1 = en).
        { rewrite Ee1. apply erterm_loop_pre_nil. rewrite <- Ee1. exact Ex. }
        assert (Hf : fresh_buf en) by (apply encode_list_fresh; unfold fresh_buf, enc_new_cx; reflexivity).
        rewrite E1 in Ex, Hpost1. rewrite (Hf Ex) in Hpost1. inversion Hpost1. lia.
      + exists x, t. split; [reflexivity|]. split; [|eapply buf_ok_tail; exact Hbuf1].
        intros Hx. cbn [hd] in Hlm. specialize (Hlm Hx). lia.
    - exists last1, (e_pre e1). auto. }
  destruct HP as (h & P' & EP & Hh & [Hb Hn]).
  remember (rev (h :: P')) as B eqn:EB.
  assert (HlenB : length B = S (length P')) by (rewrite EB, rev_length; reflexivity).
  destruct B as [|d0 SS]; [simpl in HlenB; lia|].
  assert (Hbuf : enc_get_buffer (enc_erterm en) = SS).
  { unfold enc_get_buffer, enc_bp, zlen. rewrite EP.
    destruct (Z.ltb_spec (Z.of_nat (length (h :: P'))) 1) as [Hx|_]; [simpl length in Hx; lia|].
    rewrite <- EB. reflexivity. }
  assert (H1 : forall i, 0 <= nth i (d0 :: SS) 255 <= 255).
  { intros i. destruct (lt_dec i (length (d0 :: SS))) as [Hi|Hi].
    - assert (HF : Forall is_byteP (d0 :: SS)) by (rewrite EB; apply Forall_rev; exact Hb).
      rewrite Forall_forall in HF. specialize (HF (nth i (d0 :: SS) 255) (nth_In _ _ Hi)).
      unfold is_byteP in HF. lia.
    - rewrite nth_overflow by lia. lia. }
  assert (H2 : forall i, (S i < length (d0 :: SS))%nat ->
                 nth i (d0 :: SS) 255 = 255 -> nth (S i) (d0 :: SS) 255 <= 143).
  { intros i Hi Hx. rewrite EB in *. apply nomark_rev_index; [exact Hn | rewrite rev_length in Hi; exact Hi | exact Hx]. }
  assert (H3 : forall i, S i = length (d0 :: SS) -> nth i (d0 :: SS) 255 <> 255).
  { intros i Hi Hx. rewrite EB in Hx, Hi. rewrite rev_length in Hi.
    rewrite rev_nth in Hx by lia. replace (length (h :: P') - S i)%nat with O in Hx by lia.
    simpl in Hx. contradiction. }
  assert (HE : ECa d0 SS en).
  { apply (EC_erterm d0 SS H1 H2 H3 en Hinv). unfold D. rewrite EP, <- EB. reflexivity. }
  pose proof (ECa_list_back d0 SS H1 H2 H3 l _ Hinv0 HE) as HE0.
  assert (Hd0 : d0 = 0).
  { destruct HE0 as [_ _ [_ HU]]. specialize (HU O).
    unfold encL, enc_new_cx, plen in HU. cbn [e_pre e_post e_ct e_c e_a length hd Tv Wp] in HU.
    change (1 + 0)%nat with 1%nat in HU. cbn [Tv] in HU.
    change (2 ^ (27 - 12)) with 32768 in HU. change 0x8000 with 32768 in HU.
    pose proof (H1 O) as HB. cbn [nth] in HB. change (Db d0 SS 0) with d0 in HU. lia. }
  subst d0.
  exists SS. split; [rewrite EP, <- EB; reflexivity|]. split; [symmetry; exact Hbuf|].
  split.
  { destruct (last_rev_cons h P' 0 SS (eq_sym EB)) as [E|E]; [rewrite E; simpl; lia | rewrite E; exact Hh]. }
  destruct (DS_init 0 SS H1 H2 H3 cx HE0) as (dd & Edd & HDS0).
  destruct (joint_decode_list 0 SS H1 H2 H3 l _ dd 3%nat Hinv0 HDS0 HE Hl) as (d' & k' & E1 & HDS1).
  exists dd, d'. split; [exact Edd|]. split; [exact E1|]. apply HDS1.
Qed.

(* the statement of T1ProofsBytes (copied verbatim): its clause seg <> [] fails for the empty
   decision list - ErtermEnc on fresh registers emits one byte that GetBuffer does not count *)
Definition mq_erterm_segment_statement_t1 : Prop :=
  forall (cx : list Z) (l : list (Z * Z)),
    Forall MqProofs.cx_ok cx -> Forall (MqProofsRt.decision_ok (zlen cx)) l ->
    let en := MqModel.enc_encode_list (MqModel.enc_new_cx cx) l in
    MqModel.enc_erterm_panics en = false /\
    fst (MqModel.enc_erterm_loop 4 (11 - MqModel.e_ct en + 1) en) <= 0 /\
    exists seg, rev (MqModel.e_pre (MqModel.enc_erterm en)) = 0 :: seg /\ seg <> [] /\ last seg 0 <> 255 /\
      exists dd d', MqModel.dec_new_cx seg cx = Ok dd /\
        MqModel.dec_decode_list dd (map snd l) = Ok (d', map fst l) /\
        MqModel.d_cx d' = MqModel.e_cx en.

Theorem mq_erterm_segment_refuted : ~ mq_erterm_segment_statement_t1.
Proof.
  intros H. specialize (H [0] [] ltac:(repeat constructor; vm_compute; congruence) ltac:(constructor)).
  cbv zeta in H. destruct H as (_ & _ & seg & E & Hne & _).
  vm_compute in E. inversion E. congruence.
Qed.

(* ====================================================================================
   B. RAW segments are read back bit for bit
   ==================================================================================== *)
(* the low n bits of v, most significant first *)
Fixpoint bbits (n : nat) (v : Z) : list Z :=
  match n with O => [] | S k => Z.land (Z.shiftr v (Z.of_nat k)) 1 :: bbits k v end.
(* width of a byte that follows prev: 7 bits after 0xFF, else 8 *)
Definition wbits (prev : Z) : nat := if prev =? 255 then 7%nat else 8%nat.
(* bit content of a byte list (first byte follows prev) *)
Fixpoint rb (prev : Z) (l : list Z) : list Z :=
  match l with [] => [] | v :: t => bbits (wbits prev) v ++ rb v t end.
(* the same for a reversed list whose oldest byte follows a non-FF byte *)
Fixpoint rbr (sr : list Z) : list Z :=
  match sr with [] => [] | v :: t => rbr t ++ bbits (wbits (hd 0 t)) v end.
Definition ones (n : nat) : list Z := repeat 1 n.

Lemma last_cons_default : forall (l : list Z) x d, last (x :: l) d = last l x.
Proof.
  induction l as [|y l IH]; intros x d; [reflexivity|].
  change (last (x :: y :: l) d) with (last (y :: l) d). rewrite !IH. reflexivity.
Qed.

Lemma rb_snoc : forall l prev v, rb prev (l ++ [v]) = rb prev l ++ bbits (wbits (last l prev)) v.
Proof.
  induction l as [|x l IH]; intros prev v; cbn [app rb].
  - rewrite app_nil_r. reflexivity.
  - rewrite IH, app_assoc, last_cons_default. reflexivity.
Qed.

Lemma last_rev_hd : forall (t : list Z) d, last (rev t) d = hd d t.
Proof. intros [|x t] d; [reflexivity|]. cbn [rev hd]. apply last_last. Qed.

Lemma rbr_rev : forall sr, rbr sr = rb 0 (rev sr).
Proof.
  induction sr as [|v t IH]; [reflexivity|]. cbn [rbr rev]. rewrite rb_snoc, IH, last_rev_hd. reflexivity.
Qed.

Lemma bit0 : forall x b, (b = 0 \/ b = 1) -> Z.land (2 * x + b) 1 = b.
Proof.
  intros x b Hb. change 1 with (Z.ones 1). rewrite Z.land_ones by lia. change (2 ^ 1) with 2.
  destruct Hb as [-> | ->]; Z.div_mod_to_equations; lia.
Qed.

Lemma shiftr_double : forall x b k, (b = 0 \/ b = 1) -> 0 <= k ->
  Z.shiftr (2 * x + b) (k + 1) = Z.shiftr x k.
Proof.
  intros x b k Hb Hk. rewrite !Z.shiftr_div_pow2 by lia.
  rewrite Z.pow_add_r by lia. change (2 ^ 1) with 2.
  rewrite (Z.mul_comm (2 ^ k) 2), <- Z.div_div by (try lia; apply Z.pow_pos_nonneg; lia).
  f_equal. destruct Hb as [-> | ->]; Z.div_mod_to_equations; lia.
Qed.

Lemma bbits_snoc : forall n x b, (b = 0 \/ b = 1) -> bbits (S n) (2 * x + b) = bbits n x ++ [b].
Proof.
  induction n as [|n IH]; intros x b Hb.
  - cbn [bbits app]. change (Z.of_nat 0) with 0. rewrite Z.shiftr_0_r, bit0 by exact Hb. reflexivity.
  - change (bbits (S (S n)) (2 * x + b)) with
      (Z.land (Z.shiftr (2 * x + b) (Z.of_nat (S n))) 1 :: bbits (S n) (2 * x + b)).
    rewrite IH by exact Hb. cbn [bbits app]. f_equal.
    rewrite Nat2Z.inj_succ. unfold Z.succ. rewrite shiftr_double by (try exact Hb; lia). reflexivity.
Qed.

Lemma bbits_split : forall a b v, 0 <= v ->
  bbits (a + b) v = bbits a (v / 2 ^ Z.of_nat b) ++ bbits b v.
Proof.
  induction a as [|a IH]; intros b v Hv; [reflexivity|].
  cbn [Nat.add bbits app]. rewrite IH by exact Hv. f_equal.
  rewrite Nat2Z.inj_add. rewrite <- (Z.shiftr_div_pow2 v) by lia.
  rewrite Z.shiftr_shiftr by lia. f_equal. f_equal. lia.
Qed.

Lemma ones_app : forall a b, ones a ++ ones b = ones (a + b).
Proof. intros. unfold ones. symmetry. apply repeat_app. Qed.

Lemma firstn_ones : forall n m, (n <= m)%nat -> firstn n (ones m) = ones n.
Proof.
  induction n as [|n IH]; intros m H; [reflexivity|]. destruct m as [|m]; [lia|].
  unfold ones in *. cbn [repeat firstn]. f_equal. apply IH. lia.
Qed.

(* ---------- the raw decoder reads rb ---------- *)
Fixpoint wfr (prev : Z) (t : list Z) : Prop :=
  match t with [] => True | v :: t' => (prev = 255 -> v <= 143) /\ wfr v t' end.

Definition rstream (c ct : Z) (t : list Z) (m : nat) : list Z :=
  bbits (Z.to_nat ct) c ++ rb c t ++ ones m.
Definition rstate (c ct bp : Z) (t : list Z) : rawdec :=
  mkRaw c ct bp (bp + zlen t + 2) (t ++ [255; 255]).

(* the part of RawDecode after the refill: ct--, return bit ct of c *)
Lemma rstream_dec : forall c ct t m, 1 <= ct ->
  rstream c ct t m = Z.land (Z.shiftr c (ct - 1)) 1 :: rstream c (ct - 1) t m.
Proof.
  intros c ct t m Hct. unfold rstream.
  replace (Z.to_nat ct) with (S (Z.to_nat (ct - 1))) by lia. cbn [bbits app].
  rewrite Z2Nat.id by lia. reflexivity.
Qed.

Lemma raw_decode_step : forall c ct bp t, 0 <= ct <= 8 -> 0 <= bp -> wfr c t ->
  exists c' ct' bp' t' b,
    raw_decode (rstate c ct bp t) = Ok (rstate c' ct' bp' t', b) /\
    0 <= ct' <= 8 /\ 0 <= bp' /\ wfr c' t' /\
    forall n m, (S n <= m)%nat ->
      firstn (S n) (rstream c ct t m) = b :: firstn n (rstream c' ct' t' m).
Proof.
  intros c ct bp t Hct Hbp Hwf. unfold raw_decode, rstate. cbn [r_c r_ct r_bp r_dlen r_rest].
  destruct (Z.eqb_spec ct 0) as [Hz|Hnz].
  - destruct t as [|v t'].
    + (* at the end of the data: 1-bits *)
      change (zlen (@nil Z)) with 0.
      destruct (Z.leb_spec (bp + 0 + 2 - 2) bp) as [_|Hx]; [|lia].
      cbn [obind r_c r_ct r_bp r_dlen r_rest]. change 0xFF with 255.
      exists 255, 7, bp, [], 1. split; [reflexivity|]. split; [lia|]. split; [lia|]. split; [exact I|].
      intros n m Hnm. subst ct. unfold rstream. cbn [Z.to_nat bbits rb app].
      change (bbits (Pos.to_nat 7) 255) with (ones 7).
      rewrite ones_app, !firstn_ones by lia. reflexivity.
    + assert (Hzl : zlen (v :: t') = zlen t' + 1) by (unfold zlen; cbn [length]; lia).
      assert (Hzn : 0 <= zlen t') by (unfold zlen; lia).
      destruct (Z.leb_spec (bp + zlen (v :: t') + 2 - 2) bp) as [Hx|_]; [lia|].
      replace ((0 <=? bp) && (bp <? bp + zlen (v :: t') + 2)) with true
        by (symmetry; apply andb_true_iff; split; [apply Z.leb_le | apply Z.ltb_lt]; lia).
      cbn [app]. destruct Hwf as [Hv Hwf']. change 0xFF with 255. change 0x8F with 143.
      assert (Hdl : bp + zlen (v :: t') + 2 = bp + 1 + zlen t' + 2) by lia.
      destruct (Z.eqb_spec c 255) as [Hc|Hc].
      * destruct (Z.ltb_spec 143 v) as [Hgt|_]; [specialize (Hv Hc); lia|].
        cbn [obind r_c r_ct r_bp r_dlen r_rest]. rewrite Hdl.
        exists v, (7 - 1), (bp + 1), t', (Z.land (Z.shiftr v (7 - 1)) 1).
        split; [reflexivity|]. split; [lia|]. split; [lia|]. split; [exact Hwf'|].
        intros n m Hnm. subst ct. unfold rstream at 1. cbn [Z.to_nat bbits rb app].
        unfold wbits. rewrite Hc. change (255 =? 255) with true. cbv iota.
        change (bbits 7 v ++ rb v t') with (bbits (Z.to_nat 7) v ++ rb v t').
        rewrite <- app_assoc. fold (rstream v 7 t' m). rewrite rstream_dec by lia. reflexivity.
      * cbn [obind r_c r_ct r_bp r_dlen r_rest]. rewrite Hdl.
        exists v, (8 - 1), (bp + 1), t', (Z.land (Z.shiftr v (8 - 1)) 1).
        split; [reflexivity|]. split; [lia|]. split; [lia|]. split; [exact Hwf'|].
        intros n m Hnm. subst ct. unfold rstream at 1. cbn [Z.to_nat bbits rb app].
        unfold wbits. destruct (Z.eqb_spec c 255); [contradiction|].
        change (bbits 8 v ++ rb v t') with (bbits (Z.to_nat 8) v ++ rb v t').
        rewrite <- app_assoc. fold (rstream v 8 t' m). rewrite rstream_dec by lia. reflexivity.
  - cbn [obind r_c r_ct r_bp r_dlen r_rest].
    exists c, (ct - 1), bp, t, (Z.land (Z.shiftr c (ct - 1)) 1).
    split; [reflexivity|]. split; [lia|]. split; [lia|]. split; [exact Hwf|].
    intros n m Hnm. rewrite rstream_dec by lia. reflexivity.
Qed.

Lemma raw_decode_bits : forall n m c ct bp t, (n <= m)%nat -> 0 <= ct <= 8 -> 0 <= bp -> wfr c t ->
  exists r', raw_decode_n n (rstate c ct bp t) = Ok (r', firstn n (rstream c ct t m)).
Proof.
  induction n as [|n IH]; intros m c ct bp t Hnm Hct Hbp Hwf.
  - eexists. reflexivity.
  - cbn [raw_decode_n].
    destruct (raw_decode_step c ct bp t Hct Hbp Hwf) as (c' & ct' & bp' & t' & b & E & Hct' & Hbp' & Hwf' & Hs).
    rewrite E. cbn [obind fst snd].
    destruct (IH m c' ct' bp' t' ltac:(lia) Hct' Hbp' Hwf') as (r' & E').
    rewrite E'. cbn [obind fst snd]. exists r'. rewrite (Hs n m Hnm). reflexivity.
Qed.

(* ---------- the bypass encoder writes rb ---------- *)
Lemma nm128_wfr : forall sr, nm128_rev sr -> wfr 0 (rev sr).
Proof.
  assert (Hsn : forall l prev v, wfr prev l -> (last l prev = 255 -> v <= 143) -> wfr prev (l ++ [v])).
  { induction l as [|x l IH]; intros prev v Hw Hl; cbn [app wfr] in *.
    - split; [exact Hl | exact I].
    - destruct Hw as [H1 H2]. split; [exact H1|]. apply IH; [exact H2|].
      rewrite last_cons_default in Hl. exact Hl. }
  induction sr as [|y t IH]; intros Hn; [exact I|].
  cbn [rev]. apply Hsn; [apply IH; eapply nm128_rev_tail; exact Hn|].
  rewrite last_rev_hd. destruct t as [|x t']; cbn [hd]; [intros; lia|].
  destruct Hn as [Hh _]. intros Hx. specialize (Hh Hx). lia.
Qed.

(* bits coded so far = bits of the completed bytes ++ the bits collected in the register *)
Definition byp_done (e : enc) (sr done : list Z) : Prop :=
  (e_ct e = bypass_ct_init /\ done = []) \/
  (1 <= e_ct e <= 8 /\ e_c e mod 2 ^ e_ct e = 0 /\
   done = rbr sr ++ bbits (wbits (hd 0 sr) - Z.to_nat (e_ct e)) (e_c e / 2 ^ e_ct e)).

Lemma seg_limit_pow : forall sr, seg_limit sr = 2 ^ Z.of_nat (wbits (hd 0 sr)).
Proof. intros sr. unfold seg_limit, wbits. destruct (hd 0 sr =? 255); reflexivity. Qed.

Lemma byp_bits_encode : forall base e sr done b,
  byp_inv base e sr -> byp_done e sr done -> (b = 0 \/ b = 1) ->
  exists sr', byp_inv base (enc_bypass_encode e b) sr' /\ byp_done (enc_bypass_encode e b) sr' (done ++ [b]).
Proof.
  intros base e sr done b Hinv Hdone Hb.
  destruct (byp_encode_inv base e sr b Hinv Hb) as (sr'' & Hinv').
  pose proof Hinv as [Hpre Hbytes Hn Hreg].
  (* effective ct and the facts about c, uniformly for the INIT state *)
  assert (H0 : exists ct0, (if e_ct e =? bypass_ct_init then 8 else e_ct e) = ct0 /\
            1 <= ct0 <= 8 /\ 0 <= e_c e /\ e_c e + 2 ^ ct0 <= seg_limit sr /\ e_c e mod 2 ^ ct0 = 0 /\
            done = rbr sr ++ bbits (wbits (hd 0 sr) - Z.to_nat ct0) (e_c e / 2 ^ ct0)).
  { destruct Hreg as [(E & Ec & Es)|(Hct & Hc & Hl & _)].
    - rewrite E. change (bypass_ct_init =? bypass_ct_init) with true. exists 8.
      destruct Hdone as [(_ & Ed)|(Hct' & _)]; [|rewrite E in Hct'; unfold bypass_ct_init in Hct'; lia].
      rewrite Ec, Es, Ed. unfold seg_limit. simpl. repeat split; lia.
    - destruct (Z.eqb_spec (e_ct e) bypass_ct_init) as [E|_]; [unfold bypass_ct_init in E; lia|].
      destruct Hdone as [(E & _)|(_ & Hm & Hd)]; [unfold bypass_ct_init in E; lia|].
      exists (e_ct e). auto 10. }
  destruct H0 as (ct0 & Ect0 & Hct & Hc & Hl & Hmod & Hd).
  rewrite seg_limit_pow in Hl.
  set (w := wbits (hd 0 sr)) in *.
  assert (Hw : (w = 7 \/ w = 8)%nat) by (unfold w, wbits; destruct (hd 0 sr =? 255); auto).
  assert (Hctw : ct0 <= Z.of_nat w).
  { apply (Z.pow_le_mono_r_iff 2); lia. }
  destruct (pow2_split ct0 ltac:(lia)) as [Hp2 Hp1].
  set (q := 2 ^ (ct0 - 1)) in *.
  (* c = 2 q m *)
  assert (Hm : e_c e = 2 * q * (e_c e / 2 ^ ct0)).
  { rewrite Hp2 in Hmod |- *. pose proof (Z.div_mod (e_c e) (2 * q) ltac:(lia)). lia. }
  set (mq := e_c e / 2 ^ ct0) in *.
  assert (Hmq : 0 <= mq) by (unfold mq; apply Z.div_pos; lia).
  (* unfold the coder *)
  assert (Hsh : shl32 (u32 b) (ct0 - 1) = b * q).
  { unfold shl32. replace ((0 <=? ct0 - 1) && (ct0 - 1 <? 32)) with true
      by (symmetry; apply andb_true_iff; split; [apply Z.leb_le | apply Z.ltb_lt]; lia).
    rewrite (u32_small b) by (change (2 ^ 32) with 4294967296; lia).
    rewrite shiftl_mul by lia. fold q. apply u32_small.
    assert (2 ^ Z.of_nat w <= 256) by (destruct Hw as [-> | ->]; simpl; lia).
    change (2 ^ 32) with 4294967296. destruct Hb as [-> | ->]; lia. }
  assert (Hc1 : u32 (e_c e + b * q) = q * (2 * mq + b)).
  { assert (2 ^ Z.of_nat w <= 256) by (destruct Hw as [-> | ->]; simpl; lia).
    rewrite u32_small by (change (2 ^ 32) with 4294967296; destruct Hb as [-> | ->]; lia). lia. }
  exists sr''. split; [exact Hinv'|].
  destruct Hinv' as [Hpre' _ _ _].
  revert Hpre'. unfold enc_bypass_encode, byp_done. rewrite Ect0, Hsh, Hc1.
  destruct (Z.eqb_spec (ct0 - 1) 0) as [Hz|Hnz].
  - (* byte complete *)
    assert (Eq1 : q = 1) by (unfold q; rewrite Hz; reflexivity). rewrite Eq1, Z.mul_1_l.
    assert (Hv : 0 <= 2 * mq + b < 256).
    { assert (2 ^ Z.of_nat w <= 256) by (destruct Hw as [-> | ->]; simpl; lia).
      destruct Hb as [-> | ->]; lia. }
    rewrite (u8_small _ Hv). unfold buf_write_advance. cbn [e_pre e_ct e_c]. intros Hpre'.
    assert (Esr : sr'' = (2 * mq + b) :: sr).
    { rewrite Hpre in Hpre'. change ((2 * mq + b) :: sr ++ base) with (((2 * mq + b) :: sr) ++ base) in Hpre'.
      apply app_inv_tail in Hpre'. symmetry. exact Hpre'. }
    right. change 0xFF with 255.
    split; [destruct (2 * mq + b =? 255); lia|]. split; [apply Z.mod_0_l; destruct (2 * mq + b =? 255); lia|].
    rewrite Esr. cbn [rbr hd]. fold w.
    assert (E0 : forall v, Nat.sub (wbits v) (Z.to_nat (if v =? 255 then 7 else 8)) = O)
      by (intros v; unfold wbits; destruct (v =? 255); reflexivity).
    rewrite E0.
    cbn [bbits]. rewrite app_nil_r.
    rewrite Hd, <- app_assoc. f_equal.
    transitivity (bbits (S (w - Z.to_nat ct0)) (2 * mq + b));
      [symmetry; apply bbits_snoc; exact Hb | f_equal; lia].
  - cbn [e_pre e_ct e_c]. intros Hpre'.
    assert (Esr : sr'' = sr).
    { rewrite Hpre in Hpre'. apply app_inv_tail in Hpre'. symmetry. exact Hpre'. }
    right. split; [lia|]. fold q.
    split; [rewrite Z.mul_comm; apply Z.mod_mul; lia|].
    rewrite Esr, Hd, <- app_assoc. f_equal. fold w.
    rewrite (Z.mul_comm q), Z.div_mul by lia.
    transitivity (bbits (S (w - Z.to_nat ct0)) (2 * mq + b));
      [symmetry; apply bbits_snoc; exact Hb | f_equal; lia].
Qed.

Lemma byp_bits_encode_list : forall bits base e sr done,
  byp_inv base e sr -> byp_done e sr done -> Forall (fun b => b = 0 \/ b = 1) bits ->
  exists sr', byp_inv base (fold_left enc_bypass_encode bits e) sr' /\
              byp_done (fold_left enc_bypass_encode bits e) sr' (done ++ bits).
Proof.
  induction bits as [|b t IH]; intros base e sr done Hi Hd Hb.
  - exists sr. rewrite app_nil_r. auto.
  - inversion Hb; subst. cbn [fold_left].
    destruct (byp_bits_encode base e sr done b Hi Hd ltac:(assumption)) as (sr1 & Hi1 & Hd1).
    destruct (IH base _ sr1 (done ++ [b]) Hi1 Hd1 ltac:(assumption)) as (sr2 & Hi2 & Hd2).
    exists sr2. rewrite <- app_assoc in Hd2. auto.
Qed.

Lemma div_between : forall c cp p, 0 < p -> c mod p = 0 -> c <= cp < c + p -> cp / p = c / p.
Proof.
  intros c cp p Hp Hm Hr. pose proof (Z.div_mod c p ltac:(lia)) as Hd. rewrite Hm in Hd.
  symmetry. apply Z.div_unique with (r := cp - c); lia.
Qed.

(* BypassFlushEnc: the bytes left in the buffer still carry the coded bits, up to a tail of
   1-bits (dropped FF / FF 7F) or some padding bits *)
Lemma byp_flush_bits : forall base e sr done erterm,
  byp_inv base e sr -> byp_done e sr done -> base <> [] -> hd 0 base <> 255 ->
  exists sr2 k extra, e_pre (enc_bypass_flush e erterm) = sr2 ++ base /\
                      rbr sr2 ++ ones k = done ++ extra.
Proof.
  intros base e sr done erterm [Hpre Hbytes Hn Hreg] Hdone Hbne Hb0.
  destruct base as [|b0 bt]; [contradiction|]. cbn [hd] in Hb0.
  (* previous-byte tests *)
  assert (Hpi : prev_is e 255 = true -> exists t, sr = 255 :: t).
  { unfold prev_is. rewrite Hpre. destruct sr as [|x t]; cbn [app].
    - intros E. apply Z.eqb_eq in E. contradiction.
    - intros E. apply Z.eqb_eq in E. exists t. congruence. }
  assert (Hpn : prev_isnt e 255 = negb (prev_is e 255)).
  { unfold prev_isnt, prev_is. rewrite Hpre. destruct sr; reflexivity. }
  unfold enc_bypass_flush. change 0xFF with 255. change 0x7F with 127. rewrite Hpn.
  destruct Hreg as [(Ect & Ec & Es)|(Hct & Hc & Hl & H8)].
  - (* no bit coded *)
    destruct Hdone as [(_ & Ed)|(Hct' & _)]; [|rewrite Ect in Hct'; unfold bypass_ct_init in Hct'; lia].
    rewrite Ect.
    replace (bypass_ct_init <? 7) with false by reflexivity.
    replace (bypass_ct_init =? 7) with false by reflexivity.
    replace (bypass_ct_init =? 8) with false by reflexivity. cbn [andb orb].
    assert (E3 : match e_pre e with
                 | x1 :: x2 :: p => if false then mkEnc (e_a e) (e_c e) (e_ct e) p (x2 :: x1 :: e_post e) (e_cx e) else e
                 | _ => e end = e) by (destruct (e_pre e) as [|x1 [|x2 p]]; reflexivity).
    rewrite E3. exists sr, O, []. split; [exact Hpre|]. rewrite Es, Ed. reflexivity.
  - destruct Hdone as [(E & _)|(_ & Hmod & Hd)]; [unfold bypass_ct_init in E; lia|].
    rewrite seg_limit_pow in Hl. set (w := wbits (hd 0 sr)) in *.
    assert (Hw : (w = 7 \/ w = 8)%nat) by (unfold w, wbits; destruct (hd 0 sr =? 255); auto).
    assert (Hp : 0 < 2 ^ e_ct e) by (apply Z.pow_pos_nonneg; lia).
    assert (Hctw : e_ct e <= Z.of_nat w) by (apply (Z.pow_le_mono_r_iff 2); lia).
    assert (H256 : 2 ^ Z.of_nat w <= 256) by (destruct Hw as [-> | ->]; simpl; lia).
    destruct ((e_ct e <? 7) || ((e_ct e =? 7) && (erterm || negb (prev_is e 255)))) eqn:Eb1.
    + (* pad and write *)
      assert (Hct7 : e_ct e <= 7).
      { apply orb_true_iff in Eb1. destruct Eb1 as [E|E]; [apply Z.ltb_lt in E; lia|].
        apply andb_true_iff in E. destruct E as [E _]. apply Z.eqb_eq in E. lia. }
      destruct (bypass_pad_spec 8 (e_ct e) (e_c e) 0
                  ltac:(change (Z.of_nat 8) with 8; lia) ltac:(lia) (or_introl eq_refl) Hc ltac:(lia))
        as (P1 & P2 & P3 & _).
      destruct (bypass_pad 8 (e_ct e) (e_c e) 0) as [ctp cp] eqn:Epad. cbn [fst snd] in *.
      specialize (P3 ltac:(lia)). change (0 =? 0) with true in P3. cbv iota in P3.
      destruct (pow2_split (e_ct e) ltac:(lia)) as [Hp2 Hp1].
      rewrite (u8_small cp) by lia.
      unfold buf_write_advance. cbn [e_pre].
      exists (cp :: sr), O, (bbits (Z.to_nat (e_ct e)) cp).
      split; [rewrite Hpre; reflexivity|].
      cbn [ones repeat rbr]. rewrite app_nil_r. fold w. rewrite Hd, <- app_assoc. f_equal.
      replace w with ((w - Z.to_nat (e_ct e)) + Z.to_nat (e_ct e))%nat at 1 by lia.
      rewrite bbits_split by lia. f_equal. f_equal.
      rewrite Z2Nat.id by lia. apply div_between; lia.
    + destruct ((e_ct e =? 7) && prev_is e 255) eqn:Eb2.
      * (* trailing FF dropped *)
        apply andb_true_iff in Eb2. destruct Eb2 as [E7 Epi]. apply Z.eqb_eq in E7.
        destruct (Hpi Epi) as (t & Esr).
        assert (Hert : erterm = false).
        { rewrite E7 in Eb1. change (7 <? 7) with false in Eb1. change (7 =? 7) with true in Eb1.
          cbn [orb andb] in Eb1. destruct erterm; [discriminate | reflexivity]. }
        rewrite Hert, Hpre, Esr. cbn [app e_pre].
        exists t, 8%nat, []. split; [reflexivity|]. rewrite app_nil_r.
        subst sr. unfold w in *. cbn [hd] in *. unfold wbits in Hl, Hd. change (255 =? 255) with true in Hl, Hd.
        cbv iota in Hl, Hd. rewrite E7 in Hl, Hd. change (2 ^ 7) with 128 in Hl. change (2 ^ Z.of_nat 7) with 128 in Hl.
        change (7 - Z.to_nat 7)%nat with O in Hd. cbn [bbits] in Hd. rewrite app_nil_r in Hd.
        rewrite Hd. cbn [rbr]. f_equal.
        assert (Hht : hd 0 t <> 255).
        { destruct t as [|y t']; cbn [hd]; [lia|]. destruct Hn as [Hh _]. intros Ey. specialize (Hh Ey). lia. }
        unfold wbits. destruct (Z.eqb_spec (hd 0 t) 255); [contradiction|]. reflexivity.
      * (* unchanged, or FF 7F dropped *)
        assert (E8 : e_ct e = 8).
        { apply orb_false_iff in Eb1. destruct Eb1 as [E1 E2]. apply Z.ltb_ge in E1.
          destruct (Z.eq_dec (e_ct e) 7) as [E7|E7]; [|lia]. exfalso.
          rewrite E7 in E2, Eb2. change (7 =? 7) with true in E2, Eb2. cbn [andb] in E2, Eb2.
          rewrite Eb2 in E2. apply orb_false_iff in E2. destruct E2 as [_ E2]. discriminate. }
        assert (Hw8 : w = 8%nat).
        { destruct Hw as [E|E]; [|exact E]. rewrite E, E8 in Hl. change (2 ^ 8) with 256 in Hl.
          change (2 ^ Z.of_nat 7) with 128 in Hl. lia. }
        assert (Hc0 : e_c e = 0).
        { rewrite Hw8, E8 in Hl. change (2 ^ 8) with 256 in Hl. change (2 ^ Z.of_nat 8) with 256 in Hl. lia. }
        assert (Hd' : done = rbr sr).
        { rewrite Hd, Hw8, E8. change (8 - Z.to_nat 8)%nat with O. cbn [bbits]. apply app_nil_r. }
        assert (Hsame : exists sr2 k extra, e_pre e = sr2 ++ b0 :: bt /\ rbr sr2 ++ ones k = done ++ extra).
        { exists sr, O, []. split; [exact Hpre|]. rewrite Hd'. reflexivity. }
        destruct (e_pre e) as [|x1 [|x2 p]] eqn:Ep; try (rewrite Ep; exact Hsame).
        destruct ((e_ct e =? 8) && negb erterm && (x1 =? 127) && (x2 =? 255)) eqn:Eb3; [|rewrite Ep; exact Hsame].
        repeat (apply andb_true_iff in Eb3; destruct Eb3 as [Eb3 ?]).
        repeat match goal with H : (_ =? _) = true |- _ => apply Z.eqb_eq in H end.
        subst x1 x2. cbn [e_pre].
        destruct sr as [|s1 [|s2 t]].
        { exfalso. apply (H8 E8). reflexivity. }
        { exfalso. cbn [app] in Hpre. inversion Hpre; subst. contradiction. }
        cbn [app] in Hpre. inversion Hpre; subst.
        exists t, 15%nat, []. split; [reflexivity|]. rewrite app_nil_r, Hd'. cbn [rbr hd].
        assert (Hht : hd 0 t <> 255).
        { destruct t as [|y t']; cbn [hd]; [lia|]. destruct Hn as [_ [Hh _]]. intros Ey. specialize (Hh Ey). lia. }
        unfold wbits at 1 2. change (255 =? 255) with true. cbv iota.
        destruct (Z.eqb_spec (hd 0 t) 255); [contradiction|].
        rewrite <- app_assoc. f_equal.
Qed.

Lemma wfr_forward : forall seg prev,
  (forall l1 y l2, prev :: seg = l1 ++ 255 :: y :: l2 -> y <= 143) -> wfr prev seg.
Proof.
  induction seg as [|v t IH]; intros prev H; [exact I|]. cbn [wfr]. split.
  - intros Hp. apply (H [] v t). rewrite Hp. reflexivity.
  - apply IH. intros l1 y l2 E. apply (H (prev :: l1) y l2). rewrite E. reflexivity.
Qed.

Lemma firstn_app_exact : forall (a b : list Z), firstn (length a) (a ++ b) = a.
Proof. intros. rewrite firstn_app, Nat.sub_diag, firstn_O, app_nil_r. apply firstn_all. Qed.

(* raw_segment: the bytes a RAW pass leaves in the buffer (after the flush, with its dropped
   FF / FF 7F) are read back bit for bit by a raw decoder started on them.  Hypotheses: the
   encoder has a byte before the segment (bp >= 1, true after any Flush / ErtermEnc) and that
   byte is not 0xFF. *)
Theorem raw_segment : forall (e : enc) (bits : list Z) (erterm : bool),
  Forall (fun b => b = 0 \/ b = 1) bits -> e_pre e <> [] -> hd 0 (e_pre e) <> 255 ->
  let e2 := enc_bypass_flush (fold_left enc_bypass_encode bits (enc_bypass_init e)) erterm in
  exists seg r', e_pre e2 = rev seg ++ e_pre e /\
    raw_decode_n (length bits) (raw_new seg) = Ok (r', bits) /\
    Forall is_byteP seg /\ (forall l1 y l2, seg = l1 ++ 255 :: y :: l2 -> y < 0x80) /\
    (forall l1, seg <> l1 ++ [255]).
Proof.
  intros e bits erterm Hbits Hne Hhd. cbv zeta.
  destruct (bypass_segment_no_marker e bits erterm Hbits (or_intror Hhd)) as (seg & Eseg & Hsb & Hsn & Hsl).
  cbv zeta in Eseg.
  assert (H0 : byp_inv (e_pre e) (enc_bypass_init e) []).
  { constructor; unfold enc_bypass_init; cbn [e_pre e_ct e_c].
    - reflexivity.
    - constructor.
    - exact I.
    - left. auto. }
  assert (Hd0 : byp_done (enc_bypass_init e) [] []) by (left; split; reflexivity).
  destruct (byp_bits_encode_list bits _ _ _ _ H0 Hd0 Hbits) as (sr & Hi & Hd). cbn [app] in Hd.
  destruct (byp_flush_bits _ _ _ _ erterm Hi Hd Hne Hhd) as (sr2 & k & extra & Epre2 & Hbitsrel).
  (* the two descriptions of the final buffer agree *)
  rewrite Eseg in Epre2. apply app_inv_tail in Epre2. subst sr2.
  rewrite rbr_rev, rev_involutive in Hbitsrel.
  exists seg.
  assert (Hwf : wfr 0 seg).
  { apply wfr_forward. intros l1 y l2 E. destruct l1 as [|x l1]; [discriminate|].
    inversion E; subst. specialize (Hsn l1 y l2 eq_refl). change 0x80 with 128 in Hsn. lia. }
  destruct (raw_decode_bits (length bits) (length bits + k) 0 0 0 seg ltac:(lia) ltac:(lia) ltac:(lia) Hwf)
    as (r' & Er).
  exists r'. split; [exact Eseg|]. split; [|auto].
  unfold raw_new. unfold rstate in Er. change (0 + zlen seg + 2) with (zlen seg + 2) in Er.
  rewrite Er. f_equal. f_equal.
  unfold rstream. cbn [Z.to_nat bbits app].
  rewrite (Nat.add_comm (length bits) k), <- ones_app, app_assoc, Hbitsrel.
  rewrite <- !app_assoc. apply firstn_app_exact.
Qed.

(* BypassExtraBytes is exactly the growth of bp (NumBytes) a BypassFlushEnc would cause when it
   is positive, and otherwise the flush does not grow the buffer *)
Lemma bypass_extra_bytes_spec : forall e erterm,
  (enc_bypass_extra_bytes e erterm = 1 /\
     enc_bp (enc_bypass_flush e erterm) = enc_bp e + 1) \/
  (enc_bypass_extra_bytes e erterm = 0 /\
     enc_bp e - 2 <= enc_bp (enc_bypass_flush e erterm) <= enc_bp e).
Proof.
  intros e erterm. unfold enc_bypass_extra_bytes, enc_bypass_flush, enc_bp, zlen.
  destruct (e_ct e <? 7) eqn:E1; cbn [orb].
  - left. split; [reflexivity|]. destruct (bypass_pad 8 (e_ct e) (e_c e) 0). cbv beta iota zeta.
    unfold buf_write_advance. cbn [e_pre length]. rewrite Nat2Z.inj_succ. lia.
  - destruct ((e_ct e =? 7) && (erterm || prev_isnt e 255)) eqn:E2.
    + left. split; [reflexivity|]. destruct (bypass_pad 8 (e_ct e) (e_c e) 0). cbv beta iota zeta.
      unfold buf_write_advance. cbn [e_pre length]. rewrite Nat2Z.inj_succ. lia.
    + right. split; [reflexivity|].
      destruct ((e_ct e =? 7) && prev_is e 255).
      * destruct erterm; [lia|]. destruct (e_pre e) eqn:Ep; cbn [e_pre length]; rewrite ?Ep; cbn [length]; rewrite ?Nat2Z.inj_succ; lia.
      * destruct (e_pre e) as [|x1 [|x2 p]] eqn:Ep; try (rewrite Ep; lia).
        destruct ((e_ct e =? 8) && negb erterm && (x1 =? 127) && (x2 =? 255)); cbn [e_pre length]; rewrite ?Ep; cbn [length]; rewrite ?Nat2Z.inj_succ; lia.
Qed.

(* the statement of T1ProofsBytes (verbatim): without e_pre e <> [] it fails - on an encoder
   that never emitted a byte (bp = 0) BypassFlushEnc(false) with one pending bit (ct = 7) takes
   neither the padding branch (its test needs bp > 0) nor any other, and the bit is lost *)
Definition raw_segment_statement_t1 : Prop :=
  forall (e : MqModel.enc) (bits : list Z) (erterm : bool),
    Forall (fun b => b = 0 \/ b = 1) bits -> hd 0 (MqModel.e_pre e) <> 255 ->
    let e2 := MqModel.enc_bypass_flush (fold_left MqModel.enc_bypass_encode bits (MqModel.enc_bypass_init e)) erterm in
    exists seg r', MqModel.e_pre e2 = rev seg ++ MqModel.e_pre e /\
      MqModel.raw_decode_n (length bits) (MqModel.raw_new seg) = Ok (r', bits).

Theorem raw_segment_refuted : ~ raw_segment_statement_t1.
Proof.
  intros H. specialize (H (enc_new 1) [0] false ltac:(repeat constructor; auto) ltac:(simpl; lia)).
  cbv zeta in H. destruct H as (seg & r' & E1 & E2).
  assert (Ep : e_pre (enc_bypass_flush (fold_left enc_bypass_encode [0] (enc_bypass_init (enc_new 1))) false) = [])
    by (vm_compute; reflexivity).
  rewrite Ep in E1. change (e_pre (enc_new 1)) with (@nil Z) in E1. rewrite app_nil_r in E1.
  apply (f_equal (@rev Z)) in E1. rewrite rev_involutive in E1. cbn [rev] in E1. subst seg.
  vm_compute in E2. inversion E2.
Qed.

(* ---------- the two facts in the shape used by T1ProofsBytes ---------- *)
(* mq_erterm_segment_statement of T1ProofsBytes without its false clause seg <> [] *)
Theorem mq_erterm_segment_t1 : forall (cx : list Z) (l : list (Z * Z)),
  Forall cx_ok cx -> Forall (decision_ok (zlen cx)) l ->
  let en := enc_encode_list (enc_new_cx cx) l in
  enc_erterm_panics en = false /\
  fst (enc_erterm_loop 4 (11 - e_ct en + 1) en) <= 0 /\
  exists seg, rev (e_pre (enc_erterm en)) = 0 :: seg /\ last seg 0 <> 255 /\
    exists dd d', dec_new_cx seg cx = Ok dd /\
      dec_decode_list dd (map snd l) = Ok (d', map fst l) /\ d_cx d' = e_cx en.
Proof.
  intros cx l Hcx Hl. cbv zeta.
  destruct (mq_erterm_segment cx l Hcx Hl) as (H1 & H2 & seg & E & _ & Hlast & Hdec).
  split; [exact H1|]. split; [exact H2|]. exists seg. auto.
Qed.

(* raw_segment_statement of T1ProofsBytes with the missing hypothesis bp >= 1 *)
Theorem raw_segment_t1 : forall (e : enc) (bits : list Z) (erterm : bool),
  Forall (fun b => b = 0 \/ b = 1) bits -> e_pre e <> [] -> hd 0 (e_pre e) <> 255 ->
  let e2 := enc_bypass_flush (fold_left enc_bypass_encode bits (enc_bypass_init e)) erterm in
  exists seg r', e_pre e2 = rev seg ++ e_pre e /\
    raw_decode_n (length bits) (raw_new seg) = Ok (r', bits).
Proof.
  intros e bits erterm Hb Hne Hhd. cbv zeta.
  destruct (raw_segment e bits erterm Hb Hne Hhd) as (seg & r' & E1 & E2 & _).
  exists seg, r'. auto.
Qed.
