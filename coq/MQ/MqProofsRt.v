(* MQ coder round trip: the full statement (proved in MqProofsRt2.v: mq_roundtrip_holds), and
   an independent BOUNDED result obtained by evaluating the model on every decision sequence of
   length <= 9 over 2 contexts (complete enumeration by the kernel's VM; the bound is part of
   the statement; the property text asks for 16, which is out of reach of in-Coq evaluation
   within 2 minutes - the Go harness enumerates length <= 12 / 16). *)
From V Require Import Common.Base MQ.MqModel MQ.MqProofs.

(* ---------- full statement (any valid initial contexts, any decision sequence) ---------- *)
Definition decision_ok (n : Z) (p : Z * Z) : Prop :=
  (fst p = 0 \/ fst p = 1) /\ 0 <= snd p < n.

Definition mq_roundtrip_statement : Prop :=
  forall (cx : list Z) (l : list (Z * Z)),
    Forall cx_ok cx -> Forall (decision_ok (zlen cx)) l ->
    mq_decode_cx cx (mq_encode_cx cx l) (map snd l) = Ok (map fst l).

(* ---------- exhaustive evaluation ---------- *)
Fixpoint zlist_eqb (a b : list Z) : bool :=
  match a, b with
  | [], [] => true
  | x :: a', y :: b' => (x =? y) && zlist_eqb a' b'
  | _, _ => false
  end.

Lemma zlist_eqb_eq : forall a b, zlist_eqb a b = true -> a = b.
Proof.
  induction a as [|x a IH]; intros [|y b] H; simpl in H; try discriminate; [reflexivity|].
  apply andb_true_iff in H. destruct H as [H1 H2]. apply Z.eqb_eq in H1. f_equal; auto.
Qed.

Definition rt_ok_from (e : enc) (cx : list Z) (l : list (Z * Z)) : bool :=
  match mq_decode_cx cx (enc_flush e) (map snd l) with
  | Ok bits => zlist_eqb bits (map fst l)
  | _ => false
  end.

Definition pairs4 : list (Z * Z) := [(0, 0); (1, 0); (0, 1); (1, 1)].

(* depth-first over all extensions (up to `depth` more decisions) of the reversed prefix p;
   e is the encoder state after rev p *)
Fixpoint rt_dfs (depth : nat) (cx : list Z) (e : enc) (p : list (Z * Z)) : bool :=
  rt_ok_from e cx (rev p) &&
  match depth with
  | O => true
  | S k => forallb (fun pr => rt_dfs k cx (enc_encode e (fst pr) (snd pr)) (pr :: p)) pairs4
  end.

Lemma enc_encode_list_app : forall l1 l2 e,
  enc_encode_list e (l1 ++ l2) = enc_encode_list (enc_encode_list e l1) l2.
Proof.
  induction l1 as [|[b c] t IH]; intros l2 e; cbn [app enc_encode_list]; auto.
Qed.

Lemma rt_dfs_0 : forall cx e p, rt_dfs O cx e p = rt_ok_from e cx (rev p) && true.
Proof. reflexivity. Qed.
Lemma rt_dfs_S : forall k cx e p, rt_dfs (S k) cx e p =
  rt_ok_from e cx (rev p) &&
  forallb (fun pr => rt_dfs k cx (enc_encode e (fst pr) (snd pr)) (pr :: p)) pairs4.
Proof. reflexivity. Qed.

Lemma rt_dfs_sound : forall depth cx e0 e p s full,
  e = enc_encode_list e0 (rev p) -> full = rev p ++ s ->
  rt_dfs depth cx e p = true ->
  (length s <= depth)%nat -> Forall (fun pr => In pr pairs4) s ->
  rt_ok_from (enc_encode_list e0 full) cx full = true.
Proof.
  induction depth as [|k IH]; intros cx e0 e p s full He Hfull H Hl Hs.
  - destruct s; [|simpl in Hl; lia]. rewrite app_nil_r in Hfull. rewrite Hfull, <- He.
    rewrite rt_dfs_0 in H. apply andb_true_iff in H. destruct H as [H _]. exact H.
  - rewrite rt_dfs_S in H. apply andb_true_iff in H. destruct H as [H0 H1].
    destruct s as [|pr s]; [rewrite app_nil_r in Hfull; rewrite Hfull, <- He; exact H0|].
    inversion Hs as [|? ? Hpr Hs']; subst.
    rewrite forallb_forall in H1. specialize (H1 pr Hpr). cbv beta in H1.
    apply (IH cx e0 (enc_encode (enc_encode_list e0 (rev p)) (fst pr) (snd pr)) (pr :: p) s);
      [| |exact H1 | simpl in Hl; lia | exact Hs'].
    + cbn [rev]. rewrite enc_encode_list_app. destruct pr as [b c]. reflexivity.
    + cbn [rev]. rewrite <- app_assoc. reflexivity.
Qed.

Lemma enc_encode_list_rev_nil : forall e0 : enc, e0 = enc_encode_list e0 (rev []).
Proof. reflexivity. Qed.
Lemma rev_nil_app : forall s : list (Z * Z), s = rev [] ++ s.
Proof. reflexivity. Qed.

Lemma rt_dfs_sound0 : forall depth cx e0 s,
  rt_dfs depth cx e0 [] = true ->
  (length s <= depth)%nat -> Forall (fun pr => In pr pairs4) s ->
  rt_ok_from (enc_encode_list e0 s) cx s = true.
Proof.
  intros depth cx e0 s H Hl Hs.
  exact (rt_dfs_sound depth cx e0 e0 [] s s (enc_encode_list_rev_nil e0) (rev_nil_app s) H Hl Hs).
Qed.

Lemma rt_ok_from_true : forall e cx l, rt_ok_from e cx l = true ->
  mq_decode_cx cx (enc_flush e) (map snd l) = Ok (map fst l).
Proof.
  intros e cx l H. unfold rt_ok_from in H.
  destruct (mq_decode_cx cx (enc_flush e) (map snd l)); try discriminate.
  apply zlist_eqb_eq in H. rewrite H. reflexivity.
Qed.

Lemma mq_encode_2 : forall l, mq_encode 2 l = enc_flush (enc_encode_list (enc_new 2) l).
Proof. reflexivity. Qed.
Lemma mq_decode_2 : forall d c, mq_decode 2 d c = mq_decode_cx [0; 0] d c.
Proof. reflexivity. Qed.

(* evaluated once, by the kernel's VM at Qed (vm_compute; reflexivity would evaluate twice) *)
Lemma rt_all_9 : rt_dfs 9 [0; 0] (enc_new 2) [] = true.
Proof. vm_cast_no_check (eq_refl true). Qed.

Lemma decision2_in : forall p, decision_ok 2 p -> In p pairs4.
Proof.
  intros [b c] [Hb Hc]. cbn [fst snd] in *. unfold pairs4.
  assert (c = 0 \/ c = 1) as [-> | ->] by lia; destruct Hb as [-> | ->]; simpl; auto.
Qed.

(* BOUNDED RESULT (not the property): every sequence of at most 9 decisions over 2 contexts
   (both fresh) is returned by the decoder from the flushed encoder output. *)
Theorem mq_roundtrip_bounded_9 : forall l : list (Z * Z),
  (length l <= 9)%nat -> Forall (decision_ok 2) l ->
  mq_decode 2 (mq_encode 2 l) (map snd l) = Ok (map fst l).
Proof.
  intros l Hl Hd.
  assert (Hin : Forall (fun pr => In pr pairs4) l).
  { eapply Forall_impl; [|exact Hd]. intros p Hp. apply decision2_in. exact Hp. }
  rewrite mq_encode_2, mq_decode_2. apply rt_ok_from_true.
  exact (rt_dfs_sound0 9 [0; 0] (enc_new 2) l rt_all_9 Hl Hin).
Qed.
