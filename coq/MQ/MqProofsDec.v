(* MQ decoder: every read stays inside data ++ [0xFF; 0xFF] (no index panic), for any data and
   any sequence of valid context indices; same for the raw (bypass) decoder. *)
From V Require Import Common.Base MQ.MqModel MQ.MqProofs.

Lemma skipn_S_tl : forall (A : Type) n (l : list A), skipn (S n) l = tl (skipn n l).
Proof. induction n; intros [|x l]; simpl; auto. rewrite <- IHn. reflexivity. Qed.

Lemma skipn_length_app : forall (A : Type) (l t : list A), skipn (length l) (l ++ t) = t.
Proof. induction l; simpl; auto. Qed.

Definition sentinel (data : list Z) : list Z := data ++ [255; 255].

(* the zipper (d_cur, d_rest) is the suffix of the sentinel-extended data at d_bp, and bp has
   not moved past the first sentinel byte *)
Definition dec_wf (data : list Z) (d : dec) : Prop :=
  0 <= d_bp d <= zlen data /\ d_dlen d = zlen data + 2 /\
  skipn (Z.to_nat (d_bp d)) (sentinel data) = d_cur d :: d_rest d.

Lemma dec_bytein_ok : forall data d, dec_wf data d ->
  exists d', dec_bytein d = Ok d' /\ dec_wf data d' /\ d_a d' = d_a d /\ d_cx d' = d_cx d.
Proof.
  intros data d (Hbp & Hlen & Hz). unfold dec_bytein.
  replace ((0 <=? d_bp d + 1) && (d_bp d + 1 <? d_dlen d)) with true
    by (symmetry; apply andb_true_iff; split; [apply Z.leb_le | apply Z.ltb_lt]; lia).
  assert (Hl : (length (skipn (Z.to_nat (d_bp d)) (sentinel data)) >= 2)%nat).
  { rewrite skipn_length. unfold sentinel. rewrite app_length. simpl length.
    unfold zlen in Hbp. lia. }
  rewrite Hz in Hl. destruct (d_rest d) as [|next rest'] eqn:Er; [simpl in Hl; lia|].
  (* at the first sentinel byte both cur and next are 0xFF *)
  assert (Hend : d_bp d = zlen data -> d_cur d = 255 /\ next = 255).
  { intros E. rewrite E in Hz. unfold zlen in Hz. rewrite Nat2Z.id in Hz.
    unfold sentinel in Hz. rewrite skipn_length_app in Hz. inversion Hz. auto. }
  assert (Hadv : d_bp d + 1 <= zlen data ->
                 dec_wf data (mkDec (d_a d) 0 0 0 (d_bp d + 1) (d_dlen d) next rest' (d_cx d)) ).
  { intros Hb. unfold dec_wf. cbn [d_bp d_dlen d_cur d_rest]. split; [lia|]. split; [exact Hlen|].
    replace (Z.to_nat (d_bp d + 1)) with (S (Z.to_nat (d_bp d))) by lia.
    rewrite skipn_S_tl, Hz. reflexivity. }
  change 0xFF with 255. change 0x8F with 143.
  destruct (Z.eqb_spec (d_cur d) 255) as [Hc|Hc].
  - destruct (Z.ltb_spec 143 next) as [Hn|Hn].
    + eexists. split; [reflexivity|]. unfold dec_wf. cbn [d_bp d_dlen d_cur d_rest d_a d_cx].
      rewrite Hz. auto.
    + assert (Hb : d_bp d + 1 <= zlen data).
      { destruct (Z.eq_dec (d_bp d) (zlen data)) as [E|E]; [destruct (Hend E); lia | lia]. }
      eexists. split; [reflexivity|]. split; [|split; reflexivity].
      destruct (Hadv Hb) as (H1 & H2 & H3). unfold dec_wf. cbn [d_bp d_dlen d_cur d_rest] in *. auto.
  - assert (Hb : d_bp d + 1 <= zlen data).
    { destruct (Z.eq_dec (d_bp d) (zlen data)) as [E|E]; [destruct (Hend E); lia | lia]. }
    eexists. split; [reflexivity|]. split; [|split; reflexivity].
    destruct (Hadv Hb) as (H1 & H2 & H3). unfold dec_wf. cbn [d_bp d_dlen d_cur d_rest] in *. auto.
Qed.

Lemma dec_renormd_ok : forall data fuel d,
  dec_wf data d -> 0 < d_a d < 0x10000 -> 0x8000 <= d_a d * 2 ^ Z.of_nat fuel ->
  exists d', dec_renormd_fuel fuel d = Ok d' /\ dec_wf data d' /\
             0x8000 <= d_a d' < 0x10000 /\ d_cx d' = d_cx d.
Proof.
  intros data. induction fuel as [|k IH]; intros d Hwf Ha Hf.
  - cbn [dec_renormd_fuel]. change (2 ^ Z.of_nat 0) with 1 in Hf.
    destruct (Z.ltb_spec (d_a d) 0x8000); [lia|].
    exists d. split; [reflexivity|]. split; [exact Hwf|]. split; [lia | reflexivity].
  - cbn [dec_renormd_fuel].
    destruct (Z.ltb_spec (d_a d) 0x8000) as [Hlt|Hge];
      [|exists d; split; [reflexivity|]; split; [exact Hwf|]; split; [lia | reflexivity]].
    assert (Hf' : 0x8000 <= d_a d * 2 * 2 ^ Z.of_nat k).
    { rewrite Nat2Z.inj_succ, Z.pow_succ_r in Hf by lia. lia. }
    assert (Hstep : forall d1, dec_wf data d1 -> d_a d1 = d_a d -> d_cx d1 = d_cx d ->
      exists d', dec_renormd_fuel k
        (mkDec (u32 (Z.shiftl (d_a d1) 1)) (u32 (Z.shiftl (d_c d1) 1)) (d_ct d1 - 1)
               (d_eos d1) (d_bp d1) (d_dlen d1) (d_cur d1) (d_rest d1) (d_cx d1)) = Ok d' /\
        dec_wf data d' /\ 0x8000 <= d_a d' < 0x10000 /\ d_cx d' = d_cx d).
    { intros d1 Hwf1 Ea Ecx.
      rewrite Ea. rewrite (shiftl_mul (d_a d)) by lia. change (2 ^ 1) with 2.
      rewrite (u32_small (d_a d * 2)) by (change (2 ^ 32) with 4294967296; lia).
      match goal with |- exists d', dec_renormd_fuel k ?X = _ /\ _ =>
        destruct (IH X) as (d' & E & Hw & Ha' & Hcx') end.
      - destruct Hwf1 as (H1 & H2 & H3). unfold dec_wf. cbn [d_bp d_dlen d_cur d_rest]. auto.
      - cbn [d_a]. lia.
      - cbn [d_a]. exact Hf'.
      - exists d'. cbn [d_cx] in Hcx'. split; [exact E|]. split; [exact Hw|]. split; [exact Ha' | congruence]. }
    destruct (d_ct d =? 0).
    + destruct (dec_bytein_ok data d Hwf) as (d1 & E1 & Hw1 & Ea1 & Ecx1).
      rewrite E1. cbn [obind]. apply Hstep; assumption.
    + cbn [obind]. apply Hstep; auto.
Qed.

Definition dec_inv (data : list Z) (d : dec) : Prop :=
  dec_wf data d /\ 0x8000 <= d_a d < 0x10000 /\ Forall cx_ok (d_cx d).

Lemma dec_set_acx_wf : forall data d a c cx, dec_wf data d -> dec_wf data (dec_set_acx d a c cx).
Proof. intros data d a c cx H. exact H. Qed.

Lemma dec_decode_ok : forall data d ctx, dec_inv data d -> 0 <= ctx < zlen (d_cx d) ->
  exists d' b, dec_decode d ctx = Ok (d', b) /\ dec_inv data d' /\
               length (d_cx d') = length (d_cx d) /\ (b = 0 \/ b = 1).
Proof.
  intros data d ctx (Hwf & Ha & Hcx) Hctx. unfold dec_decode.
  set (cxv := znth (d_cx d) ctx 0).
  assert (Hcxv : cx_ok cxv) by (apply znth_Forall; [exact Hcx | exact cx_ok_0]).
  pose proof (cx_ok_state _ Hcxv) as Hst. pose proof (cx_ok_mps _ Hcxv) as Hmps.
  pose proof (tbl_qe_bound _ Hst) as Hqe.
  replace (ctx_in_range (d_cx d) ctx && (cx_state cxv <? mq_nstates)) with true.
  2:{ symmetry. unfold ctx_in_range, mq_nstates. apply andb_true_iff. split.
      - apply andb_true_iff. split; [apply Z.leb_le | apply Z.ltb_lt]; lia.
      - apply Z.ltb_lt. lia. }
  cbv zeta. set (qe := tbl_qe (cx_state cxv)) in *.
  change 0x8000 with 32768 in *. change 0x10000 with 65536 in *.
  rewrite (u32_small (d_a d - qe)) by (change (2 ^ 32) with 4294967296; lia).
  change 32768 with (2 ^ 15) at 1.
  rewrite (land_pow2_eqb (d_a d - qe) 15) by (change (2 ^ (15 + 1)) with 65536; lia).
  change (2 ^ 15) with 32768.
  assert (Hm : Forall cx_ok (upd (d_cx d) ctx (cx_after_mps cxv)))
    by (apply upd_Forall; [exact Hcx | apply cx_after_mps_ok; exact Hcxv]).
  assert (Hl : Forall cx_ok (upd (d_cx d) ctx (cx_after_lps cxv)))
    by (apply upd_Forall; [exact Hcx | apply cx_after_lps_ok; exact Hcxv]).
  (* every renormalising branch has the same shape *)
  assert (Hren : forall a c cx b, 0 < a < 65536 -> Forall cx_ok cx -> length cx = length (d_cx d) ->
            (b = 0 \/ b = 1) ->
            exists d' b', obind (dec_renormd (dec_set_acx d a c cx)) (fun d' => Ok (d', b)) = Ok (d', b') /\
              dec_inv data d' /\ length (d_cx d') = length (d_cx d) /\ (b' = 0 \/ b' = 1)).
  { intros a c cx b Ha' Hcx' Hlen Hb.
    destruct (dec_renormd_ok data 16 (dec_set_acx d a c cx)) as (d' & E & Hw & Ha'' & Ecx).
    - apply dec_set_acx_wf. exact Hwf.
    - cbn [dec_set_acx d_a]. lia.
    - cbn [dec_set_acx d_a]. change (2 ^ Z.of_nat 16) with 65536. lia.
    - unfold dec_renormd. rewrite E. cbn [obind]. exists d', b. split; [reflexivity|].
      cbn [dec_set_acx d_cx] in Ecx. rewrite Ecx.
      split; [split; [exact Hw | split; [exact Ha'' | rewrite Ecx; exact Hcx']] | split; [exact Hlen | exact Hb]]. }
  assert (Hb1 : 1 - cx_mps cxv = 0 \/ 1 - cx_mps cxv = 1) by lia.
  destruct (Z.shiftr (d_c d) 16 <? qe).
  - destruct (Z.ltb_spec (d_a d - qe) qe); apply Hren; try assumption; try lia; apply upd_length.
  - destruct (Z.ltb_spec (d_a d - qe) 32768) as [Hlt|Hge]; cbn [negb].
    + destruct (Z.ltb_spec (d_a d - qe) qe); apply Hren; try assumption; try lia; apply upd_length.
    + eexists. eexists. split; [reflexivity|]. split; [|split; [reflexivity | exact Hmps]].
      split; [apply dec_set_acx_wf; exact Hwf|]. cbn [dec_set_acx d_a d_cx]. split; [lia | exact Hcx].
Qed.

Lemma dec_decode_list_ok : forall data ctxs d, dec_inv data d ->
  Forall (fun c => 0 <= c < zlen (d_cx d)) ctxs ->
  exists d' bits, dec_decode_list d ctxs = Ok (d', bits) /\ dec_inv data d' /\
                  length bits = length ctxs /\ Forall (fun b => b = 0 \/ b = 1) bits.
Proof.
  intros data. induction ctxs as [|c t IH]; intros d Hinv Hc.
  - exists d, []. simpl. auto.
  - inversion Hc as [|? ? Hc0 Ht]; subst. cbn [dec_decode_list].
    destruct (dec_decode_ok data d c Hinv Hc0) as (d1 & b & E & Hinv1 & Hlen & Hb).
    rewrite E. cbn [obind fst snd].
    destruct (IH d1 Hinv1) as (d2 & bits & E2 & Hinv2 & Hl2 & Hb2).
    { unfold zlen in *. rewrite Hlen. exact Ht. }
    rewrite E2. cbn [obind fst snd]. exists d2, (b :: bits). simpl. auto.
Qed.

Lemma dec_new_ok : forall data cx, Forall cx_ok cx ->
  exists d, dec_new_cx data cx = Ok d /\ dec_inv data d /\ d_cx d = cx.
Proof.
  intros data cx Hcx. unfold dec_new_cx.
  destruct (data ++ [0xFF; 0xFF]) as [|b0 rest] eqn:Ef; [destruct data; discriminate|].
  match goal with |- exists d, obind (dec_bytein ?D0) _ = _ /\ _ => set (d0 := D0) end.
  assert (Hwf0 : dec_wf data d0).
  { unfold dec_wf, d0. cbn [d_bp d_dlen d_cur d_rest]. split; [unfold zlen; lia|]. split; [reflexivity|].
    simpl skipn. exact Ef. }
  destruct (dec_bytein_ok data d0 Hwf0) as (d1 & E1 & (H1 & H2 & H3) & Ea & Ecx).
  rewrite E1. cbn [obind]. eexists. split; [reflexivity|].
  unfold dec_inv, dec_wf. cbn [d_bp d_dlen d_cur d_rest d_a d_cx].
  rewrite Ecx. unfold d0. cbn [d_cx]. repeat split; auto; lia.
Qed.

(* mq_decoder_in_bounds: for ANY data and ANY sequence of valid context indices the decoder
   never indexes outside data ++ [FF; FF] (the model returns Panic exactly on such an index and
   on a bad context / state index), never runs out of fuel, and returns one bit per context. *)
Theorem mq_decoder_in_bounds_cx : forall cx data ctxs,
  Forall cx_ok cx -> Forall (fun c => 0 <= c < zlen cx) ctxs ->
  exists bits, mq_decode_cx cx data ctxs = Ok bits /\ length bits = length ctxs /\
               Forall (fun b => b = 0 \/ b = 1) bits.
Proof.
  intros cx data ctxs Hcx Hc. unfold mq_decode_cx.
  destruct (dec_new_ok data cx Hcx) as (d & E & Hinv & Ecx). rewrite E. cbn [obind].
  destruct (dec_decode_list_ok data ctxs d Hinv) as (d' & bits & E2 & _ & Hl & Hb).
  { rewrite Ecx. exact Hc. }
  rewrite E2. cbn [obind snd]. exists bits. auto.
Qed.

Theorem mq_decoder_in_bounds : forall n data ctxs,
  Forall (fun c => 0 <= c < Z.of_nat n) ctxs ->
  exists bits, mq_decode n data ctxs = Ok bits /\ length bits = length ctxs /\
               Forall (fun b => b = 0 \/ b = 1) bits.
Proof.
  intros n data ctxs Hc. unfold mq_decode. apply mq_decoder_in_bounds_cx.
  - apply zrepeat_Forall. exact cx_ok_0.
  - unfold zlen. rewrite zrepeat_length. exact Hc.
Qed.

(* the read position itself: after any number of decisions bp <= len(data), i.e. the index
   bp + 1 read by bytein is at most len(data) + 1 = len(data ++ [FF; FF]) - 1 *)
Theorem mq_decoder_bp_bound : forall cx data ctxs d0 d bits,
  Forall cx_ok cx -> Forall (fun c => 0 <= c < zlen cx) ctxs ->
  dec_new_cx data cx = Ok d0 -> dec_decode_list d0 ctxs = Ok (d, bits) ->
  0 <= d_bp d <= zlen data /\ d_bp d + 1 < zlen (sentinel data).
Proof.
  intros cx data ctxs d0 d bits Hcx Hc E0 E1.
  destruct (dec_new_ok data cx Hcx) as (d0' & E & Hinv & Ecx). rewrite E in E0. inversion E0; subst d0'.
  destruct (dec_decode_list_ok data ctxs d0 Hinv) as (d' & bits' & E2 & ((Hbp & _) & _) & _).
  { rewrite Ecx. exact Hc. }
  rewrite E2 in E1. inversion E1; subst. split; [exact Hbp|].
  unfold sentinel, zlen in *. rewrite app_length. simpl length. lia.
Qed.

(* ---------- RawDecode on a live MQ decoder, and arbitrary interleavings ---------- *)
Lemma dec_raw_decode_ok : forall data d, dec_inv data d ->
  exists d' b, dec_raw_decode d = Ok (d', b) /\ dec_inv data d' /\ d_cx d' = d_cx d.
Proof.
  intros data d ((Hbp & Hlen & Hz) & Ha & Hcx). unfold dec_raw_decode.
  assert (Hfin : forall d1, dec_wf data d1 -> d_a d1 = d_a d -> d_cx d1 = d_cx d ->
    exists d' b,
      obind (Ok d1) (fun d1 =>
        let ct := d_ct d1 - 1 in
        Ok (mkDec (d_a d1) (d_c d1) ct (d_eos d1) (d_bp d1) (d_dlen d1) (d_cur d1) (d_rest d1) (d_cx d1),
            if ct <? 0 then 0 else Z.land (Z.shiftr (d_c d1) ct) 1)) = Ok (d', b) /\
      dec_inv data d' /\ d_cx d' = d_cx d).
  { intros d1 (H1 & H2 & H3) Ea Ec. cbn [obind]. eexists. eexists. split; [reflexivity|].
    unfold dec_inv, dec_wf. cbn [d_bp d_dlen d_cur d_rest d_a d_cx]. rewrite Ea, Ec. auto 10. }
  destruct (Z.eqb_spec (d_ct d) 0) as [Hz0|Hnz]; [|apply Hfin; [exact (conj Hbp (conj Hlen Hz)) | reflexivity | reflexivity]].
  destruct (Z.leb_spec (d_dlen d - 2) (d_bp d)) as [Hend|Hin].
  - apply Hfin; [exact (conj Hbp (conj Hlen Hz)) | reflexivity | reflexivity].
  - replace ((0 <=? d_bp d) && (d_bp d <? d_dlen d)) with true
      by (symmetry; apply andb_true_iff; split; [apply Z.leb_le | apply Z.ltb_lt]; lia).
    assert (Hl : (length (skipn (Z.to_nat (d_bp d)) (sentinel data)) >= 2)%nat).
    { rewrite skipn_length. unfold sentinel. rewrite app_length. simpl length. unfold zlen in *. lia. }
    rewrite Hz in Hl. destruct (d_rest d) as [|nx rest'] eqn:Er; [simpl in Hl; lia|].
    assert (Hadv : forall c ct, dec_wf data (mkDec (d_a d) c ct (d_eos d) (d_bp d + 1) (d_dlen d) nx rest' (d_cx d))).
    { intros c ct. unfold dec_wf. cbn [d_bp d_dlen d_cur d_rest]. split; [lia|]. split; [exact Hlen|].
      replace (Z.to_nat (d_bp d + 1)) with (S (Z.to_nat (d_bp d))) by lia.
      rewrite skipn_S_tl, Hz. reflexivity. }
    cbv zeta.
    destruct (d_c d =? 0xFF); [destruct (0x8F <? d_cur d)|]; apply Hfin; try reflexivity; try apply Hadv.
    unfold dec_wf. cbn [d_bp d_dlen d_cur d_rest]. auto.
Qed.

Theorem mq_decoder_mixed_in_bounds : forall data ops d, dec_inv data d ->
  Forall (fun o => fst o = 0 -> 0 <= snd o < zlen (d_cx d)) ops ->
  exists d' bits, dec_mixed_list d ops = Ok (d', bits) /\ dec_inv data d' /\
                  length bits = length ops /\ 0 <= d_bp d' <= zlen data.
Proof.
  intros data. induction ops as [|[k c] t IH]; intros d Hinv Hc.
  - exists d, []. split; [reflexivity|]. split; [exact Hinv|]. split; [reflexivity|].
    destruct Hinv as ((Hbp & _) & _). exact Hbp.
  - inversion Hc as [|? ? Hc0 Ht]; subst. cbn [dec_mixed_list fst snd] in *.
    assert (H1 : exists d1 b, (if k =? 0 then dec_decode d c else dec_raw_decode d) = Ok (d1, b) /\
                              dec_inv data d1 /\ length (d_cx d1) = length (d_cx d)).
    { destruct (Z.eqb_spec k 0) as [E|E].
      - destruct (dec_decode_ok data d c Hinv (Hc0 E)) as (d1 & b & E1 & Hi & Hl & _). eauto.
      - destruct (dec_raw_decode_ok data d Hinv) as (d1 & b & E1 & Hi & Ecx).
        exists d1, b. rewrite Ecx. auto. }
    destruct H1 as (d1 & b & E1 & Hinv1 & Hlen). rewrite E1. cbn [obind fst snd].
    destruct (IH d1 Hinv1) as (d2 & bits & E2 & Hinv2 & Hl2 & Hbp2).
    { unfold zlen in *. rewrite Hlen. exact Ht. }
    rewrite E2. cbn [obind fst snd]. exists d2, (b :: bits). simpl. auto.
Qed.

(* ---------- raw (bypass) decoder (NewRawDecoder) ---------- *)
Definition raw_wf (data : list Z) (r : rawdec) : Prop :=
  0 <= r_bp r <= zlen data /\ r_dlen r = zlen data + 2 /\
  r_rest r = skipn (Z.to_nat (r_bp r)) (sentinel data).

Lemma raw_decode_ok : forall data r, raw_wf data r ->
  exists r' b, raw_decode r = Ok (r', b) /\ raw_wf data r'.
Proof.
  intros data r (Hbp & Hlen & Hrest). unfold raw_decode.
  destruct (Z.eqb_spec (r_ct r) 0) as [Hz|Hnz].
  2:{ cbn [obind]. eexists. eexists. split; [reflexivity|].
      unfold raw_wf. cbn [r_bp r_dlen r_rest]. auto. }
  destruct (Z.leb_spec (r_dlen r - 2) (r_bp r)) as [Hend|Hin].
  { cbn [obind]. eexists. eexists. split; [reflexivity|]. unfold raw_wf. cbn [r_bp r_dlen r_rest]. auto. }
  replace ((0 <=? r_bp r) && (r_bp r <? r_dlen r)) with true
    by (symmetry; apply andb_true_iff; split; [apply Z.leb_le | apply Z.ltb_lt]; lia).
  assert (Hl : (length (r_rest r) >= 1)%nat).
  { rewrite Hrest, skipn_length. unfold sentinel. rewrite app_length. simpl length. unfold zlen in *. lia. }
  destruct (r_rest r) as [|next rest'] eqn:Er; [simpl in Hl; lia|].
  assert (Hadv : rest' = skipn (Z.to_nat (r_bp r + 1)) (sentinel data)).
  { replace (Z.to_nat (r_bp r + 1)) with (S (Z.to_nat (r_bp r))) by lia.
    rewrite skipn_S_tl, <- Hrest. reflexivity. }
  destruct (r_c r =? 0xFF); [destruct (0x8F <? next)|]; cbn [obind];
    eexists; eexists; (split; [reflexivity|]); unfold raw_wf; cbn [r_bp r_dlen r_rest];
    repeat split; auto; lia.
Qed.

(* any data, any number of raw decodes: no read outside data ++ [FF; FF], and bp <= len(data) *)
Theorem raw_decoder_in_bounds : forall data n,
  exists r bits, raw_decode_n n (raw_new data) = Ok (r, bits) /\ length bits = n /\
                 0 <= r_bp r <= zlen data.
Proof.
  intros data n.
  assert (H0 : raw_wf data (raw_new data)).
  { unfold raw_wf, raw_new. cbn [r_bp r_dlen r_rest]. unfold zlen. repeat split; try lia. }
  revert H0. generalize (raw_new data). induction n as [|k IH]; intros r Hr.
  - exists r, []. split; [reflexivity|]. split; [reflexivity|]. destruct Hr as (H & _). exact H.
  - cbn [raw_decode_n]. destruct (raw_decode_ok data r Hr) as (r1 & b & E & Hr1).
    rewrite E. cbn [obind fst snd]. destruct (IH r1 Hr1) as (r2 & bits & E2 & Hl & Hb).
    rewrite E2. cbn [obind fst snd]. exists r2, (b :: bits). simpl. auto.
Qed.
