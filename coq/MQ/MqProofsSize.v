(* MQ encoder, OUTPUT-SIZE bound (crude form).

   Measure   sz e = 7 * bp - ct - log2 a      (bp = length of e_pre).
   * a renormalisation shift (a <<= 1, ct--) keeps sz: ct drops by one, log2 a grows by one;
   * byteout (only ever run at ct = 0) moves bp by one and sets ct to 7 or 8: 7*(bp+1) - ct'
     <= 7*bp, so sz does not grow;
   * the interval update of Encode replaces a (log2 a = 15 at rest) by a - qe or qe, both >= 1,
     so sz grows by at most 15 - log2 a' <= 15 per decision.
   Hence 7 * bp <= 15 * (number of decisions) at rest, and the flush adds at most two bytes:
       7 * zlen (mq_encode_cx cx l) <= 15 * zlen l + 14.
   The constant 14 is attained by the empty decision list (the flush of a fresh coder is two
   bytes).  The factor 15/7 is what a state-independent argument gives (an LPS on the state with
   Qe = 1 really costs 15 shifts, and a byte following 0xFF really carries 7 bits); the sharper
   per-state cost is in MqProofsSizePot.v if present. *)
From V Require Import Common.Base MQ.MqModel MQ.MqProofs.

Definition sz (e : enc) : Z := 7 * zlen (e_pre e) - e_ct e - Z.log2 (e_a e).

Lemma zlen_cons1 : forall {A} (x : A) l, zlen (x :: l) = zlen l + 1.
Proof. intros. unfold zlen. cbn [length]. lia. Qed.

Lemma log2_15 : forall a, 0x8000 <= a < 0x10000 -> Z.log2 a = 15.
Proof. intros a H. apply Z.log2_unique; [lia|]. change (2 ^ 15) with 32768. change (2 ^ Z.succ 15) with 65536. lia. Qed.

(* byteout: one more byte before bp, ct = 7 or 8, a unchanged *)
Lemma byteout_size : forall e,
  zlen (e_pre (enc_byteout e)) = zlen (e_pre e) + 1 /\ 7 <= e_ct (enc_byteout e) <= 8 /\
  e_a (enc_byteout e) = e_a e.
Proof.
  intros e. unfold enc_byteout.
  destruct (e_post e) as [|last rest].
  - change (0 =? 255) with false. cbv iota.
    destruct (Z.land (e_c e) 134217728 =? 0); [cbn [e_pre e_ct e_a]; rewrite zlen_cons1; lia|].
    destruct (u8 (0 + 1) =? 255); cbn [e_pre e_ct e_a]; rewrite zlen_cons1; lia.
  - destruct (last =? 255); [cbn [e_pre e_ct e_a]; rewrite zlen_cons1; lia|].
    destruct (Z.land (e_c e) 134217728 =? 0); [cbn [e_pre e_ct e_a]; rewrite zlen_cons1; lia|].
    destruct (u8 (last + 1) =? 255); cbn [e_pre e_ct e_a]; rewrite zlen_cons1; lia.
Qed.

(* renorme does not increase the measure *)
Lemma renorme_size : forall fuel e, 0 < e_a e -> sz (enc_renorme_fuel fuel e) <= sz e.
Proof.
  induction fuel as [|k IH]; intros e Ha; cbn [enc_renorme_fuel]; [lia|].
  destruct (Z.ltb_spec (e_a e) 32768) as [Hlt|Hge]; [|lia].
  assert (E2 : u32 (Z.shiftl (e_a e) 1) = 2 * e_a e).
  { rewrite shiftl_mul by lia. change (2 ^ 1) with 2. rewrite u32_small by (change (2 ^ 32) with 4294967296; lia). lia. }
  set (e1 := mkEnc (u32 (Z.shiftl (e_a e) 1)) (u32 (Z.shiftl (e_c e) 1)) (e_ct e - 1) (e_pre e) (e_post e) (e_cx e)).
  assert (Hsz1 : sz e1 = sz e).
  { unfold sz, e1. cbn [e_a e_ct e_pre]. rewrite E2. rewrite Z.log2_double by lia. lia. }
  assert (Ha1 : 0 < e_a e1) by (unfold e1; cbn [e_a]; rewrite E2; lia).
  destruct (Z.eqb_spec (e_ct e1) 0) as [E0|E0].
  - destruct (byteout_size e1) as (Hl & Hc & Hb).
    eapply Z.le_trans; [apply IH; rewrite Hb; exact Ha1|].
    rewrite <- Hsz1. unfold sz. rewrite Hl, Hb, E0. lia.
  - eapply Z.le_trans; [apply IH; exact Ha1|]. lia.
Qed.

Lemma set_acx_size : forall e a c cx, 0 < a -> sz (enc_set_acx e a c cx) = sz e + Z.log2 (e_a e) - Z.log2 a.
Proof. intros. unfold sz, enc_set_acx. cbn [e_a e_ct e_pre]. lia. Qed.

(* one decision: at most 15 units *)
Theorem enc_encode_size : forall e bit ctx, enc_inv e -> sz (enc_encode e bit ctx) <= sz e + 15.
Proof.
  intros e bit ctx Hinv.
  pose proof Hinv as [[Ha Hct Hc Hpot Hb Hcx] Ha8].
  unfold enc_encode. cbv zeta.
  set (cxv := znth (e_cx e) ctx 0).
  assert (Hcxv : cx_ok cxv) by (apply znth_Forall; [exact Hcx | exact cx_ok_0]).
  pose proof (cx_ok_state _ Hcxv) as Hst.
  pose proof (tbl_qe_bound _ Hst) as Hqe.
  set (qe := tbl_qe (cx_state cxv)) in *.
  change 0x8000 with 32768 in *. change 0x10000 with 65536 in *.
  rewrite (u32_small (e_a e - qe)) by (change (2 ^ 32) with 4294967296; lia).
  assert (L15 : Z.log2 (e_a e) = 15) by (apply log2_15; lia).
  assert (G : forall a c cx, 0 < a -> sz (enc_renorme (enc_set_acx e a c cx)) <= sz e + 15).
  { intros a c cx Hpos. unfold enc_renorme.
    eapply Z.le_trans; [apply renorme_size; unfold enc_set_acx; cbn [e_a]; exact Hpos|].
    rewrite set_acx_size by exact Hpos. pose proof (Z.log2_nonneg a). lia. }
  destruct (bit =? cx_mps cxv).
  - destruct (Z.land (e_a e - qe) 32768 =? 0).
    + destruct (e_a e - qe <? qe); apply G; lia.
    + rewrite set_acx_size by lia. pose proof (Z.log2_nonneg (e_a e - qe)). lia.
  - destruct (e_a e - qe <? qe); apply G; lia.
Qed.

Theorem enc_encode_list_size : forall l e, enc_inv e -> sz (enc_encode_list e l) <= sz e + 15 * zlen l.
Proof.
  induction l as [|[b cx] t IH]; intros e H; cbn [enc_encode_list].
  - change (zlen (@nil (Z * Z))) with 0. lia.
  - eapply Z.le_trans; [apply IH; apply enc_encode_inv; exact H|].
    pose proof (enc_encode_size e b cx H). rewrite zlen_cons1. lia.
Qed.

(* at rest: 7 * bp <= sz + 27 *)
Lemma size_at_rest : forall e, enc_inv e -> 7 * zlen (e_pre e) <= sz e + 27.
Proof.
  intros e [[Ha Hct _ _ _ _] Ha8]. unfold sz. rewrite log2_15 by lia. lia.
Qed.

(* Flush / FlushToOutput: at most two bytes beyond bp *)
Lemma enc_flush_size : forall e, zlen (enc_flush e) <= zlen (e_pre e) + 2.
Proof.
  intros e. unfold enc_flush, enc_flush_state.
  set (e0 := enc_shift_ct (enc_setbits e)).
  assert (H0 : zlen (e_pre e0) = zlen (e_pre e)) by reflexivity.
  destruct (byteout_size e0) as (H1 & _). set (e1 := enc_byteout e0) in *.
  set (e1s := enc_shift_ct e1).
  assert (H1s : zlen (e_pre e1s) = zlen (e_pre e1)) by reflexivity.
  destruct (byteout_size e1s) as (H2 & _). set (e2 := enc_byteout e1s) in *.
  assert (G : forall x, zlen (enc_get_buffer x) <= zlen (e_pre x) - 1 \/ (zlen (enc_get_buffer x) = 0)).
  { intros x. unfold enc_get_buffer, enc_bp. destruct (Z.ltb_spec (zlen (e_pre x)) 1) as [Hl|Hl]; [right; reflexivity|].
    left. unfold zlen in *. rewrite <- (rev_length (e_pre x)) in *. destruct (rev (e_pre x)); cbn [tl length] in *; lia. }
  assert (Hnn : 0 <= zlen (e_pre e)) by (unfold zlen; lia).
  destruct (e_post e2) as [|last rest].
  - destruct (G e2); lia.
  - destruct (last =? 255).
    + destruct (G e2); lia.
    + match goal with |- zlen (enc_get_buffer ?x) <= _ => destruct (G x) as [Hx|Hx]; cbn [e_pre] in Hx end.
      * rewrite zlen_cons1 in Hx. lia.
      * lia.
Qed.

(* ---------- the output-size theorem ---------- *)
Theorem mq_output_size_from : forall e l, enc_inv e ->
  7 * zlen (enc_flush (enc_encode_list e l)) <= 7 * zlen (e_pre e) + (12 - e_ct e) + 15 * zlen l + 14.
Proof.
  intros e l Hinv.
  pose proof (enc_encode_list_size l e Hinv) as Hs.
  pose proof (size_at_rest _ (enc_encode_list_inv l e Hinv)) as Hr.
  pose proof (enc_flush_size (enc_encode_list e l)) as Hf.
  destruct Hinv as [[Ha Hct _ _ _ _] Ha8].
  unfold sz in Hs at 2. rewrite (log2_15 (e_a e)) in Hs by lia. lia.
Qed.

Theorem mq_output_size_cx : forall cx l, Forall cx_ok cx ->
  7 * zlen (mq_encode_cx cx l) <= 15 * zlen l + 14.
Proof.
  intros cx l Hcx. unfold mq_encode_cx.
  pose proof (mq_output_size_from (enc_new_cx cx) l (enc_new_inv cx Hcx)) as H.
  cbn [enc_new_cx e_pre e_ct] in H. change (zlen (@nil Z)) with 0 in H. lia.
Qed.

Theorem mq_output_size : forall n l, 7 * zlen (mq_encode n l) <= 15 * zlen l + 14.
Proof.
  intros n l. unfold mq_encode. apply mq_output_size_cx. apply zrepeat_Forall. exact cx_ok_0.
Qed.

(* the additive constant is attained *)
Example mq_output_size_const_attained : 7 * zlen (mq_encode 1 []) = 15 * zlen (@nil (Z * Z)) + 14.
Proof. vm_compute. reflexivity. Qed.
