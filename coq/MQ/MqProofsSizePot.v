(* MQ encoder, OUTPUT-SIZE bound with a per-state potential (amortised form of MqProofsSize).

   MqProofsSize charges every decision 15 units of the measure sz e = 7*bp - ct - log2 a (15 = the
   shifts of an LPS on the state with Qe = 1).  Here every context carries a potential phi(state)
   (in thirds of a unit) and a decision is charged 17/3 units amortised:

       3 * sz (Encode e) + Phi (contexts after) <= 3 * sz e + Phi (contexts before) + 17

   - an MPS without renormalisation costs nothing and changes no state;
   - an MPS with renormalisation leaves a >= 0x4000 (one shift) and moves the state to NMPS;
   - an LPS leaves a >= min (0x8000 - Qe, Qe) and moves the state to NLPS: cost 15 - log2 of that;
   and phi is the longest-path potential of the state graph for the charge 17/3, checked for the
   47 states of the generated tables by computation (pot_ok).  17/3 is the largest cycle mean of
   that graph (45 -LPS, 15-> 43 -MPS, 1-> 44 -MPS, 1-> 45), so it is the best constant a potential
   that looks at the context states only can give.  Result, for any start contexts:

       21 * zlen (mq_encode_cx cx l) <= 17 * zlen l + 42 + Phi cx        (Phi cx <= 72 * zlen cx)

   i.e. at most 17/21 < 0.81 bytes per decision instead of 15/7 > 2.14. *)
From V Require Import Common.Base MQ.MqModel MQ.MqProofs MQ.MqProofsSize.

(* the potential of a state, in thirds of a unit *)
Definition phi_tbl : list Z :=
  [0; 0; 0; 0; 0; 1; 0; 0; 0; 0; 0; 0; 0; 0; 0; 0; 0; 0; 0; 0; 0; 0; 0; 0; 0; 0; 0; 0; 0; 0; 0; 0; 0; 0; 0;
   1; 1; 5; 5; 12; 15; 25; 31; 44; 58; 72; 0].
Definition phi (s : Z) : Z := znth phi_tbl s 0.
Definition phi_cx (b : Z) : Z := phi (cx_state b).
Fixpoint Phi (cx : list Z) : Z := match cx with [] => 0 | b :: r => phi_cx b + Phi r end.

(* the smallest interval an LPS on state s can leave, and its cost in shifts *)
Definition lps_floor (s : Z) : Z := Z.min (0x8000 - tbl_qe s) (tbl_qe s).
Definition lps_cost (s : Z) : Z := 15 - Z.log2 (lps_floor s).

Definition pot_state_ok (s : Z) : bool :=
  (0 <=? phi s) && (phi s <=? 72) && (0 <? lps_floor s) &&
  (3 * lps_cost s + phi (tbl_nlps s) <=? phi s + 17) &&
  (3 + phi (tbl_nmps s) <=? phi s + 17) &&
  (3 * lps_cost s <=? 17 + 3 * 15 * (if s =? 0 then 0 else 1)).
Lemma pot_ok : forallb pot_state_ok (zrange 47) = true.
Proof. vm_compute. reflexivity. Qed.

Lemma pot_facts : forall s, 0 <= s < 47 ->
  0 <= phi s <= 72 /\ 0 < lps_floor s /\
  3 * lps_cost s + phi (tbl_nlps s) <= phi s + 17 /\ 3 + phi (tbl_nmps s) <= phi s + 17.
Proof.
  intros s Hs. pose proof (zrange_forallb 47 _ pot_ok s ltac:(lia)) as H. unfold pot_state_ok in H.
  repeat (apply andb_true_iff in H; destruct H as [H ?]).
  repeat match goal with
  | H : (_ <? _) = true |- _ => apply Z.ltb_lt in H
  | H : (_ <=? _) = true |- _ => apply Z.leb_le in H
  end. repeat split; lia.
Qed.

Lemma lps_cost_state0 : 3 * lps_cost 0 <= 17.
Proof. vm_compute. intro; discriminate. Qed.

(* ---------- Phi and upd ---------- *)
Lemma Phi_upd_nat : forall l n v, (n < length l)%nat ->
  Phi (upd_nat l n v) = Phi l - phi_cx (nth n l 0) + phi_cx v.
Proof.
  induction l as [|x t IH]; intros n v Hn; [cbn in Hn; lia|].
  destruct n as [|k]; cbn [upd_nat Phi nth]; [lia|]. rewrite IH by (cbn [length] in Hn; lia). lia.
Qed.

Lemma upd_nat_out : forall l n v, (length l <= n)%nat -> upd_nat l n v = l.
Proof.
  induction l as [|x t IH]; intros n v Hn; [destruct n; reflexivity|].
  destruct n as [|k]; [cbn in Hn; lia|]. cbn [upd_nat]. rewrite IH by (cbn [length] in Hn; lia). reflexivity.
Qed.

(* in range: the potential moves by the difference; out of range: the read gives byte 0 (state 0)
   and the write is lost *)
Lemma Phi_upd : forall l i v,
  (0 <= i < zlen l /\ Phi (upd l i v) = Phi l - phi_cx (znth l i 0) + phi_cx v) \/
  (~ (0 <= i < zlen l) /\ upd l i v = l /\ znth l i 0 = 0).
Proof.
  intros l i v. unfold upd, znth, zlen.
  destruct (Z.ltb_spec i 0) as [Hneg|Hpos]; [right; split; [lia|split; reflexivity]|].
  destruct (Nat.lt_ge_cases (Z.to_nat i) (length l)) as [Hin|Hout].
  - left. split; [lia|]. apply Phi_upd_nat. exact Hin.
  - right. split; [lia|]. split; [apply upd_nat_out; exact Hout|apply nth_overflow; exact Hout].
Qed.

Lemma Phi_bounds : forall cx, Forall cx_ok cx -> 0 <= Phi cx <= 72 * zlen cx.
Proof.
  induction cx as [|b r IH]; intro H; [cbn; lia|]. inversion H as [|? ? Hb Hr]; subst.
  specialize (IH Hr). cbn [Phi]. rewrite zlen_cons1.
  destruct (pot_facts _ (cx_ok_state b Hb)) as [Hp _]. unfold phi_cx. lia.
Qed.

(* the renormalisation test a & 0x8000 == 0 on a 16-bit value *)
Lemma land_8000 : forall x, 0 <= x < 65536 -> (Z.land x 32768 =? 0) = (x <? 32768).
Proof.
  intros x Hx. destruct (Z.ltb_spec x 32768) as [Hlt|Hge].
  - apply Z.eqb_eq. change 32768 with (2 ^ 15). apply Z.bits_inj'. intros n Hn. rewrite Z.land_spec, Z.bits_0.
    destruct (Z.eqb_spec n 15) as [->|Hne].
    + assert (Hb : Z.testbit x 15 = false).
      { apply Z.testbit_false; [lia|]. change (2 ^ 15) with 32768. rewrite Z.div_small by lia. reflexivity. }
      rewrite Hb. reflexivity.
    + rewrite Z.pow2_bits_false by lia. apply andb_false_r.
  - apply Z.eqb_neq. intro E.
    assert (Hb : Z.testbit x 15 = true).
    { apply Z.testbit_true; [lia|]. change (2 ^ 15) with 32768.
      assert (E1 : x / 32768 = 1) by (symmetry; apply Z.div_unique with (r := x - 32768); lia).
      rewrite E1. reflexivity. }
    assert (Hb2 : Z.testbit (Z.land x 32768) 15 = true) by (rewrite Z.land_spec, Hb; reflexivity).
    rewrite E in Hb2. discriminate.
Qed.

(* ---------- one decision ---------- *)
Definition psz (e : enc) : Z := 3 * sz e + Phi (e_cx e).

Lemma renorm_psz : forall e a c cx, enc_inv e -> 0 < a ->
  psz (enc_renorme (enc_set_acx e a c cx)) <= 3 * sz e + 3 * (15 - Z.log2 a) + Phi cx.
Proof.
  intros e a c cx [[Ha _ _ _ _ _] Ha8] Hpos. unfold psz, enc_renorme.
  assert (Ecx : forall fuel x, e_cx (enc_renorme_fuel fuel x) = e_cx x).
  { induction fuel as [|k IH]; intro x; cbn [enc_renorme_fuel]; [reflexivity|].
    destruct (e_a x <? 32768); [|reflexivity]. rewrite IH.
    match goal with |- e_cx (if ?b then _ else _) = _ => destruct b end; [|reflexivity].
    unfold enc_byteout. cbn [e_post e_c e_a e_pre e_cx].
    destruct (match e_post x with [] => [0] | _ :: _ => e_post x end) as [|last rest]; [reflexivity|].
    repeat match goal with |- e_cx (if ?b then _ else _) = _ => destruct b end; reflexivity. }
  rewrite Ecx. cbn [enc_set_acx e_cx].
  pose proof (renorme_size 16 (enc_set_acx e a c cx) ltac:(cbn [enc_set_acx e_a]; exact Hpos)) as Hr.
  rewrite set_acx_size in Hr by exact Hpos.
  rewrite (log2_15 (e_a e)) in Hr by (change 0x8000 with 32768 in *; change 0x10000 with 65536 in *; lia). lia.
Qed.

Theorem enc_encode_pot : forall e bit ctx, enc_inv e -> psz (enc_encode e bit ctx) <= psz e + 17.
Proof.
  intros e bit ctx Hinv.
  pose proof Hinv as [[Ha Hct Hc Hpot Hb Hcx] Ha8].
  unfold enc_encode. cbv zeta.
  set (cxv := znth (e_cx e) ctx 0).
  assert (Hcxv : cx_ok cxv) by (apply znth_Forall; [exact Hcx | exact cx_ok_0]).
  pose proof (cx_ok_state _ Hcxv) as Hst. pose proof (cx_ok_mps _ Hcxv) as Hmps.
  pose proof (tbl_qe_bound _ Hst) as Hqe.
  destruct (tbl_facts _ Hst) as (_ & Hnm & Hnl & Hsw).
  destruct (pot_facts _ Hst) as (Hphi & Hfl & HL & HM).
  unfold lps_cost, lps_floor in HL, Hfl.
  set (st := cx_state cxv) in *. set (qe := tbl_qe st) in *.
  change 0x8000 with 32768 in *. change 0x10000 with 65536 in *.
  rewrite (u32_small (e_a e - qe)) by (change (2 ^ 32) with 4294967296; lia).
  (* the state of the updated context byte *)
  assert (Emps : phi_cx (cx_after_mps cxv) = phi (tbl_nmps st)).
  { unfold phi_cx, cx_after_mps. fold st.
    destruct (mk_cx_facts (tbl_nmps st) (cx_mps cxv) ltac:(lia) ltac:(lia)) as (E1 & _). rewrite E1. reflexivity. }
  assert (Elps : phi_cx (cx_after_lps cxv) = phi (tbl_nlps st)).
  { unfold phi_cx, cx_after_lps. cbv zeta. fold st.
    assert (Hm' : 0 <= (if tbl_switch st =? 1 then 1 - cx_mps cxv else cx_mps cxv) <= 1)
      by (destruct (tbl_switch st =? 1); lia).
    destruct (mk_cx_facts (tbl_nlps st) _ ltac:(lia) Hm') as (E1 & _). rewrite E1. reflexivity. }
  (* potential after writing the context back *)
  assert (PM : Phi (upd (e_cx e) ctx (cx_after_mps cxv)) <= Phi (e_cx e) - phi st + phi (tbl_nmps st) \/
               (st = 0 /\ Phi (upd (e_cx e) ctx (cx_after_mps cxv)) = Phi (e_cx e))).
  { destruct (Phi_upd (e_cx e) ctx (cx_after_mps cxv)) as [[_ E]|[_ [E E0]]].
    - left. rewrite E, Emps. fold cxv. unfold phi_cx. fold st. lia.
    - right. rewrite E. split; [|reflexivity]. unfold st, cxv. rewrite E0. reflexivity. }
  assert (PL : Phi (upd (e_cx e) ctx (cx_after_lps cxv)) <= Phi (e_cx e) - phi st + phi (tbl_nlps st) \/
               (st = 0 /\ Phi (upd (e_cx e) ctx (cx_after_lps cxv)) = Phi (e_cx e))).
  { destruct (Phi_upd (e_cx e) ctx (cx_after_lps cxv)) as [[_ E]|[_ [E E0]]].
    - left. rewrite E, Elps. fold cxv. unfold phi_cx. fold st. lia.
    - right. rewrite E. split; [|reflexivity]. unfold st, cxv. rewrite E0. reflexivity. }
  assert (L0 : st = 0 -> 3 * (15 - Z.log2 (Z.min (32768 - qe) qe)) <= 17).
  { intro E. pose proof lps_cost_state0 as H0. unfold lps_cost, lps_floor in H0. unfold qe. rewrite E. exact H0. }
  assert (Hlog : forall a, Z.min (32768 - qe) qe <= a -> Z.log2 (Z.min (32768 - qe) qe) <= Z.log2 a)
    by (intros a Hle; apply Z.log2_le_mono; exact Hle).
  assert (H14 : forall a, 16384 <= a -> 14 <= Z.log2 a).
  { intros a Hle. change 14 with (Z.log2 16384). apply Z.log2_le_mono. exact Hle. }
  unfold psz at 2.
  destruct (bit =? cx_mps cxv).
  - destruct (Z.land (e_a e - qe) 32768 =? 0) eqn:Eland.
    + (* MPS with renormalisation: a - qe < 0x8000 *)
      assert (Hlt : e_a e - qe < 32768) by (rewrite land_8000 in Eland by lia; apply Z.ltb_lt; exact Eland).
      destruct (Z.ltb_spec (e_a e - qe) qe).
      * eapply Z.le_trans; [apply renorm_psz; [exact Hinv|lia]|].
        pose proof (H14 qe ltac:(lia)). destruct PM as [PM|[E0 PM]]; [lia|rewrite PM; lia].
      * eapply Z.le_trans; [apply renorm_psz; [exact Hinv|lia]|].
        pose proof (H14 (e_a e - qe) ltac:(lia)). destruct PM as [PM|[E0 PM]]; [lia|rewrite PM; lia].
    + (* MPS without renormalisation *)
      unfold psz. rewrite set_acx_size by lia. cbn [enc_set_acx e_cx].
      assert (Hge : 32768 <= e_a e - qe) by (rewrite land_8000 in Eland by lia; apply Z.ltb_ge; exact Eland).
      rewrite (log2_15 (e_a e)), (log2_15 (e_a e - qe)) by lia. lia.
  - (* LPS *)
    destruct (Z.ltb_spec (e_a e - qe) qe).
    + eapply Z.le_trans; [apply renorm_psz; [exact Hinv|lia]|].
      pose proof (Hlog (e_a e - qe) ltac:(lia)). destruct PL as [PL|[E0 PL]]; [lia|rewrite PL; specialize (L0 E0); lia].
    + eapply Z.le_trans; [apply renorm_psz; [exact Hinv|lia]|].
      pose proof (Hlog qe ltac:(lia)). destruct PL as [PL|[E0 PL]]; [lia|rewrite PL; specialize (L0 E0); lia].
Qed.

Theorem enc_encode_list_pot : forall l e, enc_inv e -> psz (enc_encode_list e l) <= psz e + 17 * zlen l.
Proof.
  induction l as [|[b cx] t IH]; intros e H; cbn [enc_encode_list].
  - change (zlen (@nil (Z * Z))) with 0. lia.
  - eapply Z.le_trans; [apply IH; apply enc_encode_inv; exact H|].
    pose proof (enc_encode_pot e b cx H). rewrite zlen_cons1. lia.
Qed.

(* ---------- the output-size theorem ---------- *)
Theorem mq_output_size_pot_from : forall e l, enc_inv e ->
  21 * zlen (enc_flush (enc_encode_list e l)) <=
  21 * zlen (e_pre e) + 3 * (12 - e_ct e) + 17 * zlen l + 42 + Phi (e_cx e).
Proof.
  intros e l Hinv.
  pose proof (enc_encode_list_pot l e Hinv) as Hs.
  pose proof (enc_encode_list_inv l e Hinv) as Hinv2.
  pose proof (size_at_rest _ Hinv2) as Hr.
  pose proof (enc_flush_size (enc_encode_list e l)) as Hf.
  destruct Hinv2 as [[_ _ _ _ _ Hcx2] _]. pose proof (Phi_bounds _ Hcx2) as Hp2.
  destruct Hinv as [[Ha Hct _ _ _ _] Ha8].
  unfold psz in Hs. unfold sz in Hs at 2. rewrite (log2_15 (e_a e)) in Hs by lia. lia.
Qed.

Theorem mq_output_size_pot_cx : forall cx l, Forall cx_ok cx ->
  21 * zlen (mq_encode_cx cx l) <= 17 * zlen l + 42 + Phi cx.
Proof.
  intros cx l Hcx. unfold mq_encode_cx.
  pose proof (mq_output_size_pot_from (enc_new_cx cx) l (enc_new_inv cx Hcx)) as H.
  cbn [enc_new_cx e_pre e_ct e_cx] in H. change (zlen (@nil Z)) with 0 in H. lia.
Qed.

(* all contexts in state 0 (NewMQEncoder) *)
Lemma Phi_zrepeat0 : forall n, Phi (zrepeat_nat 0 n) = 0.
Proof. induction n as [|k IH]; [reflexivity|]. cbn [zrepeat_nat Phi]. rewrite IH. reflexivity. Qed.

Theorem mq_output_size_pot : forall n l, 21 * zlen (mq_encode n l) <= 17 * zlen l + 42.
Proof.
  intros n l. unfold mq_encode.
  pose proof (mq_output_size_pot_cx (zrepeat_nat 0 n) l (zrepeat_Forall _ _ _ cx_ok_0)) as H.
  rewrite Phi_zrepeat0 in H. lia.
Qed.

(* the T1 start contexts (state 0 except UNIFORM = 46, run-length = 3, first zero-coding = 4) have
   potential 0 as well: phi vanishes on the states 0..4 and 46 *)
Lemma phi_start_states : phi 0 = 0 /\ phi 3 = 0 /\ phi 4 = 0 /\ phi 46 = 0.
Proof. repeat split. Qed.

(* the constant 17/3 cannot be improved by a potential on the context states: the cycle
   45 -LPS-> 43 -MPS-> 44 -MPS-> 45 of the state graph has cost 15 + 1 + 1 = 17 over 3 decisions *)
Example pot_cycle_tight :
  tbl_nlps 45 = 43 /\ tbl_nmps 43 = 44 /\ tbl_nmps 44 = 45 /\ lps_cost 45 + 1 + 1 = 17.
Proof. repeat split. Qed.
