(* C16 proofs, part 2: the Huffman bit writer (jpeg/standard/huffman_encoder.go) never emits
   an unescaped marker code, and the T.81 walker's entropy scan accepts its output and stops
   exactly at its end. *)
From V Require Import Common.Base Framing.FrmBase Framing.FrmJpeg Framing.FrmWriters
  Framing.FrmProofsSeg.

(* "every FF is followed by 00" as a checker on the finished byte string *)
Fixpoint ff00 (l : list Z) : bool :=
  match l with
  | [] => true
  | b :: r =>
    if b =? 255 then
      match r with
      | c :: r' => (c =? 0) && ff00 r'
      | [] => false
      end
    else ff00 r
  end.

(* the byte strings writeByte can produce *)
Definition stuffed (l : list Z) : Prop :=
  exists raw, Forall (fun b => 0 <= b < 256) raw /\ l = flat_map he_write_byte raw.

Lemma stuffed_nil : stuffed [].
Proof. exists []. split; [constructor | reflexivity]. Qed.

Lemma stuffed_app : forall a b, stuffed a -> stuffed b -> stuffed (a ++ b).
Proof.
  intros a b [ra [Fa Ha]] [rb [Fb Hb]]. exists (ra ++ rb). split.
  - apply Forall_app; split; assumption.
  - rewrite flat_map_app. congruence.
Qed.

Lemma wrapU8_byte : forall x, 0 <= wrapU 8 x < 256.
Proof. intros x. unfold wrapU. change (2 ^ 8) with 256. apply Z.mod_pos_bound. lia. Qed.

Lemma stuffed_write_byte : forall x, stuffed (he_write_byte (wrapU 8 x)).
Proof.
  intros x. exists [wrapU 8 x]. split.
  - constructor; [apply wrapU8_byte | constructor].
  - cbn [flat_map]. now rewrite app_nil_r.
Qed.

Lemma he_drain_stuffed : forall fuel bits n, stuffed (fst (he_drain fuel bits n)).
Proof.
  induction fuel as [|f IH]; intros bits n; cbn [he_drain].
  - apply stuffed_nil.
  - destruct (8 <=? n).
    + specialize (IH bits (n - 8)). destruct (he_drain f bits (n - 8)) as [o n'].
      cbn [fst] in *. apply stuffed_app; [apply stuffed_write_byte | exact IH].
    + apply stuffed_nil.
Qed.

Lemma he_write_bits_stuffed : forall s bits n, stuffed (fst (he_write_bits s bits n)).
Proof.
  intros s bits n. unfold he_write_bits. destruct (n =? 0); [apply stuffed_nil|].
  match goal with |- context [he_drain 5 ?b ?k] =>
    pose proof (he_drain_stuffed 5 b k) as H; destruct (he_drain 5 b k) as [o n'] end.
  exact H.
Qed.

Lemma he_flush_stuffed : forall s, stuffed (fst (he_flush s)).
Proof.
  intros s. unfold he_flush. destruct (0 <? he_n s); cbn [fst].
  - apply stuffed_write_byte.
  - apply stuffed_nil.
Qed.

Lemma he_run_stuffed : forall ops s, stuffed (he_run s ops).
Proof.
  induction ops as [|[bits n] r IH]; intros s; cbn [he_run].
  - apply he_flush_stuffed.
  - pose proof (he_write_bits_stuffed s bits n) as H.
    destruct (he_write_bits s bits n) as [o s']. cbn [fst] in H.
    apply stuffed_app; [exact H | apply IH].
Qed.

Lemma ff00_flat_map : forall raw, ff00 (flat_map he_write_byte raw) = true.
Proof.
  induction raw as [|b raw IH]; [reflexivity|].
  cbn [flat_map]. unfold he_write_byte at 1.
  destruct (Z.eqb_spec b 255) as [E|E].
  - cbn [app ff00]. change (255 =? 255) with true. cbn. exact IH.
  - cbn [app ff00]. destruct (Z.eqb_spec b 255); [contradiction|]. exact IH.
Qed.

(* the walker's entropy scan over a stuffed string followed by a marker that is neither 00,
   RSTn nor FF: accepted, and it stops exactly at the marker *)
Lemma ecs_scan_flat_map : forall raw rst pos e m rest,
  m <> 0 -> ~ (208 <= m <= 215) -> m <> 255 ->
  ecs_scan rst (flat_map he_write_byte raw ++ 255 :: m :: rest) pos e
  = WOk (255 :: m :: rest, pos + zlen (flat_map he_write_byte raw)).
Proof.
  induction raw as [|b raw IH]; intros rst pos e m rest H0 Hr Hf.
  - cbn [flat_map app ecs_scan]. change (255 =? 255) with true. cbn iota.
    destruct (Z.eqb_spec m 0); [contradiction|].
    destruct (Z.leb_spec 208 m); destruct (Z.leb_spec m 215); cbn [andb]; try lia;
      destruct (Z.eqb_spec m 255); try contradiction;
      (replace (pos + zlen (@nil Z)) with pos by (unfold zlen; cbn; lia); reflexivity).
  - cbn [flat_map]. unfold he_write_byte at 1 3.
    destruct (Z.eqb_spec b 255) as [E|E].
    + cbn [app ecs_scan]. change (255 =? 255) with true. cbn iota.
      change (0 =? 0) with true. cbn iota.
      rewrite IH by assumption. rewrite !zlen_cons. f_equal. f_equal. lia.
    + cbn [app ecs_scan]. destruct (Z.eqb_spec b 255); [contradiction|].
      rewrite IH by assumption. rewrite !zlen_cons. f_equal. f_equal. lia.
Qed.

(* huff_no_marker: for ANY sequence of WriteBits(code, len) calls followed by Flush, in the
   byte string produced every FF is followed by 00 (no unescaped marker code), and the T.81
   walker's entropy scan accepts it and stops exactly at its end when a marker follows. *)
Theorem huff_no_marker : forall ops : list (Z * Z),
  ff00 (huff_encode ops) = true /\
  forall rst pos e m rest, m <> 0 -> ~ (208 <= m <= 215) -> m <> 255 ->
    ecs_scan rst (huff_encode ops ++ 255 :: m :: rest) pos e
    = WOk (255 :: m :: rest, pos + zlen (huff_encode ops)).
Proof.
  intros ops. unfold huff_encode.
  destruct (he_run_stuffed ops he_init) as [raw [_ Hraw]]. rewrite Hraw. split.
  - apply ff00_flat_map.
  - intros. apply ecs_scan_flat_map; assumption.
Qed.

(* the fixed fuel of the drain loop is enough for every call the encoders make
   (0 <= nBits < 8 at rest, 0 <= n <= 32): at most 4 bytes leave, fewer than 8 bits stay *)
Lemma he_drain_fuel_ok : forall bits n, 0 <= n < 40 -> 0 <= snd (he_drain 5 bits n) < 8.
Proof.
  intros bits n Hn. cbn [he_drain].
  repeat match goal with
  | |- context [8 <=? ?k] => destruct (Z.leb_spec 8 k); cbn [snd]
  | |- context [let '(o, n') := (?a, ?b) in _] => cbn iota beta
  end; try lia.
Qed.

Theorem he_write_bits_rest : forall s bits n,
  0 <= he_n s < 8 -> 0 <= n <= 32 -> 0 <= he_n (snd (he_write_bits s bits n)) < 8.
Proof.
  intros s bits n Hs Hn. unfold he_write_bits. destruct (Z.eqb_spec n 0); [cbn; lia|].
  match goal with |- context [he_drain 5 ?b ?k] =>
    pose proof (he_drain_fuel_ok b k ltac:(lia)) as H; destruct (he_drain 5 b k) as [o n'] end.
  cbn [snd he_n] in *. exact H.
Qed.
