(* C16 + C17 together: for EVERY argument tuple an encoder accepts, the frame header it writes
   declares exactly the width, height, component count and precision (and predictor / NEAR)
   it was given - the guards (FrmValidate) put the arguments inside the range in which the
   header writers (FrmWriters) round-trip through the walkers' parsers. *)
From V Require Import Common.Base Framing.FrmBase Framing.FrmJpeg Framing.FrmJls Framing.FrmWriters
  Framing.FrmValidate Framing.FrmProofsHdr Framing.FrmProofsValidate.

Theorem baseline_accepted_header : forall a, baseline_accepts a = true ->
  parse_sof 0 (baseline_sof0 (a_h a) (a_w a) (a_c a))
  = WOk {| jf_sof := 0; jf_p := 8; jf_y := a_h a; jf_x := a_w a; jf_nf := a_c a;
           jf_comps := if a_c a =? 1 then [(0, 1, 1, 0)] else [(1, 1, 1, 0); (2, 1, 1, 1); (3, 1, 1, 1)] |}.
Proof.
  intros a H. apply baseline_accepts_sound in H.
  unfold baseline_representable, dims16_ok in H. split_and H.
  pose proof (baseline_header_roundtrip (a_h a) (a_w a) (a_c a)) as R. bool_hyps.
  all: apply R; unfold dims16; lia.
Qed.

Theorem extended12_accepted_header : forall a, a_p a = 12 -> extended_accepts a = true ->
  parse_sof 1 (seq12_sof1 (a_h a) (a_w a))
  = WOk {| jf_sof := 1; jf_p := 12; jf_y := a_h a; jf_x := a_w a; jf_nf := 1; jf_comps := [(1, 1, 1, 0)] |}
  /\ a_c a = 1.
Proof.
  intros a Hp H. apply extended_accepts_sound in H.
  unfold extended_representable, dims16_ok in H. rewrite Hp in H. cbn [Z.eqb Pos.eqb] in H.
  split_and H. bool_hyps.
  all: split; [apply seq12_header_roundtrip; unfold dims16; lia | lia].
Qed.

Theorem lossless_accepted_header : forall a, lossless_accepts a = true ->
  parse_sof 3 (lossless_sof3 (a_p a) (a_h a) (a_w a) (a_c a))
  = WOk {| jf_sof := 3; jf_p := a_p a; jf_y := a_h a; jf_x := a_w a; jf_nf := a_c a;
           jf_comps := seq_comps (a_c a) |}
  /\ (1 <= a_x a ->
      parse_sos (lossless_sos (a_c a) (a_x a))
      = WOk {| sc_comps := if a_c a =? 1 then [(1, 0, 0)] else [(1, 0, 0); (2, 0, 0); (3, 0, 0)];
               sc_ss := a_x a; sc_se := 0; sc_ah := 0; sc_al := 0 |}).
Proof.
  intros a H. apply lossless_accepts_sound in H.
  unfold lossless_representable, dims16_ok in H. split_and H.
  pose proof (lossless_header_roundtrip (a_p a) (a_h a) (a_w a) (a_c a)) as R.
  pose proof (lossless_sos_roundtrip (a_c a) (a_x a)) as S. bool_hyps.
  all: split; [apply R; unfold dims16; lia | intros _; apply S; lia].
Qed.

Theorem sv1_accepted_header : forall a, sv1_accepts a = true ->
  parse_sof 3 (lossless_sof3 (a_p a) (a_h a) (a_w a) (a_c a))
  = WOk {| jf_sof := 3; jf_p := a_p a; jf_y := a_h a; jf_x := a_w a; jf_nf := a_c a;
           jf_comps := seq_comps (a_c a) |}.
Proof.
  intros a H. apply sv1_accepts_sound in H.
  unfold sv1_representable, dims16_ok in H. split_and H.
  pose proof (lossless_header_roundtrip (a_p a) (a_h a) (a_w a) (a_c a)) as R. bool_hyps.
  all: apply R; unfold dims16; lia.
Qed.

Theorem jls_accepted_header : forall a, jls_accepts a = true ->
  parse_sof55 (lossless_sof3 (a_p a) (a_h a) (a_w a) (a_c a))
  = WOk {| jf_sof := 3; jf_p := a_p a; jf_y := a_h a; jf_x := a_w a; jf_nf := a_c a;
           jf_comps := seq_comps (a_c a) |}
  /\ parse_lsos (jls_sos (a_c a) 0)
     = WOk {| ls_comps := if a_c a =? 1 then [(1, 0)] else [(1, 0); (2, 0); (3, 0)];
              ls_near := 0; ls_ilv := if a_c a =? 1 then 0 else 2; ls_al := 0; ls_ah := 0 |}.
Proof.
  intros a H. apply jls_accepts_sound in H.
  unfold jls_representable, dims16_ok in H. split_and H.
  pose proof (jls_header_roundtrip (a_p a) (a_h a) (a_w a) (a_c a)) as R.
  pose proof (jls_sos_roundtrip (a_c a) 0) as S. bool_hyps.
  all: split; [apply R; unfold dims16; lia | apply S; lia].
Qed.

(* near-lossless: the header (incl. NEAR) is exact for every accepted tuple, also for the NEAR
   values T.87 does not allow (FR-3): the value is declared faithfully, it is just not legal *)
Theorem jlsnear_accepted_header : forall a, jlsnear_accepts a = true ->
  parse_sof55 (lossless_sof3 (a_p a) (a_h a) (a_w a) (a_c a))
  = WOk {| jf_sof := 3; jf_p := a_p a; jf_y := a_h a; jf_x := a_w a; jf_nf := a_c a;
           jf_comps := seq_comps (a_c a) |}
  /\ parse_lsos (jls_sos (a_c a) (a_x a))
     = WOk {| ls_comps := if a_c a =? 1 then [(1, 0)] else [(1, 0); (2, 0); (3, 0)];
              ls_near := a_x a; ls_ilv := if a_c a =? 1 then 0 else 2; ls_al := 0; ls_ah := 0 |}.
Proof.
  intros a H.
  assert (Hj : jls_accepts a = true).
  { unfold jlsnear_accepts in H. unfold jls_accepts. split_and H.
    repeat (apply andb_true_intro; split); assumption. }
  assert (Hx : 0 <= a_x a < 256).
  { unfold jlsnear_accepts in H. split_and H. bool_hyps; lia. }
  apply jls_accepts_sound in Hj.
  unfold jls_representable, dims16_ok in Hj. split_and Hj.
  pose proof (jls_header_roundtrip (a_p a) (a_h a) (a_w a) (a_c a)) as R.
  pose proof (jls_sos_roundtrip (a_c a) (a_x a)) as S. bool_hyps.
  all: split; [apply R; unfold dims16; lia | apply S; lia].
Qed.
