(* EXTRACT *)
(* C16, JPEG-LS (ITU-T T.87) well-formedness walker, written from T.87 Annex C (C.1 general,
   C.2.1 markers: SOF55 = FFF7, LSE = FFF8; C.2.2 frame header as T.81 B.2.2 with P 2..16 and
   Tq = 0; C.2.3 scan header: Ns, (Cs, Tm), NEAR, ILV, Al/Ah; C.2.4.1 LSE preset parameters;
   C.2.4.2 mapping tables) and T.87 A.1 / C.1: "marker codes shall not occur in the coded
   data: after a byte FF the encoder inserts a zero bit", i.e. inside scan data every FF is
   followed by a byte < 0x80; a byte >= 0x80 after FF is a marker (RSTm when restart is
   enabled, otherwise the end of the scan).

   Strict in the accepting direction: LSE id 4 (oversize dimensions), DNL, fill bytes are
   rejected as unsupported. *)
From V Require Import Common.Base Framing.FrmBase Framing.FrmJpeg.

(* scan: components (Cs, Tm), NEAR, ILV, Al (point transform), Ah *)
Record lscan : Type := {
  ls_comps : list (Z * Z);
  ls_near : Z; ls_ilv : Z; ls_al : Z; ls_ah : Z
}.

(* LSE id 1 *)
Record lpreset : Type := { lp_maxval : Z; lp_t1 : Z; lp_t2 : Z; lp_t3 : Z; lp_reset : Z }.

Record jls_header : Type := {
  lh_p : Z; lh_y : Z; lh_x : Z; lh_nf : Z;
  lh_comps : list (Z * Z * Z * Z);
  lh_scans : list lscan;            (* stream order *)
  lh_preset : option lpreset;       (* last LSE id 1 *)
  lh_ri : Z
}.

Record lstate : Type := {
  lt_frame : option jframe;         (* jf_sof unused (= 55) *)
  lt_preset : option lpreset;
  lt_maps : list Z;                 (* defined mapping table ids *)
  lt_ri : Z;
  lt_scans : list lscan;            (* reversed *)
  lt_done : list Z
}.

Definition lt_init : lstate :=
  {| lt_frame := None; lt_preset := None; lt_maps := []; lt_ri := 0; lt_scans := []; lt_done := [] |}.

(* frame header: same layout as T.81; P in 2..16, H = V in 1..4, Tq = 0 *)
Definition parse_sof55 (p : list Z) : wres jframe := parse_sof 3 p.

Fixpoint parse_lsos_comps (n : nat) (l : list Z) : option (list (Z * Z) * list Z) :=
  match n with
  | O => Some ([], l)
  | S k =>
    match l with
    | cs :: tm :: r =>
      match parse_lsos_comps k r with
      | Some (a, b) => Some ((cs, tm) :: a, b)
      | None => None
      end
    | _ => None
    end
  end.

Definition parse_lsos (p : list Z) : wres lscan :=
  match p with
  | ns :: r =>
    if negb (zlen r =? 2 * ns + 3) then WBad RSosLen 0
    else match parse_lsos_comps (Z.to_nat ns) r with
         | Some (comps, [near; ilv; alah]) =>
           WOk {| ls_comps := comps; ls_near := near; ls_ilv := ilv; ls_al := alah mod 16;
                  ls_ah := alah / 16 |}
         | _ => WBad RSosLen 0
         end
  | [] => WBad RSosLen 0
  end.

(* C.2.4.1.1: effective MAXVAL; thresholds 0 = default, else NEAR+1 <= T1 <= T2 <= T3 <= MAXVAL *)
Definition maxval_of (f : jframe) (pr : option lpreset) : Z :=
  match pr with
  | Some q => if lp_maxval q =? 0 then 2 ^ jf_p f - 1 else lp_maxval q
  | None => 2 ^ jf_p f - 1
  end.

Definition preset_ok (f : jframe) (near : Z) (pr : option lpreset) : bool :=
  match pr with
  | None => true
  | Some q =>
    let mv := maxval_of f pr in
    (mv <=? 2 ^ jf_p f - 1) && (1 <=? mv)
    && ((lp_t1 q =? 0) || ((near + 1 <=? lp_t1 q) && (lp_t1 q <=? mv)))
    && ((lp_t2 q =? 0) || (((if lp_t1 q =? 0 then near + 1 else lp_t1 q) <=? lp_t2 q) && (lp_t2 q <=? mv)))
    && ((lp_t3 q =? 0) || (((if lp_t2 q =? 0 then near + 1 else lp_t2 q) <=? lp_t3 q) && (lp_t3 q <=? mv)))
    && ((lp_reset q =? 0) || ((3 <=? lp_reset q) && (lp_reset q <=? Z.max 255 mv)))
  end.

Definition lscomp_id (c : Z * Z) : Z := fst c.

Definition check_lsos (st : lstate) (f : jframe) (s : lscan) : wres unit :=
  let ids := map lscomp_id (ls_comps s) in
  let ns := zlen (ls_comps s) in
  let mv := maxval_of f (lt_preset st) in
  if negb ((1 <=? ns) && (ns <=? 4) && (ns <=? jf_nf f)) then WBad RSosNs 0
  else if negb (in_order ids (map comp_id (jf_comps f))
                && forallb (fun i => negb (zmem i (lt_done st))) ids) then WBad RSosComp 0
  else if negb (forallb (fun c => (snd c =? 0) || zmem (snd c) (lt_maps st)) (ls_comps s))
       then WBad RJlsMap 0
  else if negb (preset_ok f (ls_near s) (lt_preset st)) then WBad RLseSyntax 0
  else if negb (ls_near s <=? Z.min 255 (mv / 2)) then WBad RJlsNear 0
  else if negb ((ls_ilv s <=? 2) && (Bool.eqb (ls_ilv s =? 0) (ns =? 1))) then WBad RJlsIlv 0
  else if negb ((ls_ah s =? 0) && (ls_al s <? jf_p f)) then WBad RSosParams 0
  else WOk tt.

(* LSE payload (after Ll): id 1 preset parameters; id 2/3 mapping table (TID, Wt, entries);
   id 4 oversize: unsupported *)
Definition parse_lse (st : lstate) (p : list Z) : wres lstate :=
  match p with
  | id :: r =>
    if id =? 1 then
      match r with
      | [a1; a2; b1; b2; c1; c2; d1; d2; e1; e2] =>
        WOk {| lt_frame := lt_frame st;
               lt_preset := Some {| lp_maxval := be16 a1 a2; lp_t1 := be16 b1 b2;
                                    lp_t2 := be16 c1 c2; lp_t3 := be16 d1 d2;
                                    lp_reset := be16 e1 e2 |};
               lt_maps := lt_maps st; lt_ri := lt_ri st; lt_scans := lt_scans st;
               lt_done := lt_done st |}
      | _ => WBad RLseSyntax 0
      end
    else if (id =? 2) || (id =? 3) then
      match r with
      | tid :: wt :: es =>
        if (1 <=? tid) && (1 <=? wt) && (zlen es mod wt =? 0) && ((id =? 2) || zmem tid (lt_maps st))
        then WOk {| lt_frame := lt_frame st; lt_preset := lt_preset st;
                    lt_maps := tid :: lt_maps st; lt_ri := lt_ri st; lt_scans := lt_scans st;
                    lt_done := lt_done st |}
        else WBad RLseSyntax 0
      | _ => WBad RLseSyntax 0
      end
    else WBad RLseSyntax 0
  | [] => WBad RLseSyntax 0
  end.

(* scan data: FF followed by a byte < 0x80 is data (the stuffed zero bit); FF Dn is RSTn in
   sequence when restart is enabled; FF FF is rejected; FF followed by another byte >= 0x80
   ends the scan: returns the list AT that FF. *)
Fixpoint jls_scan (rst_ok : bool) (l : list Z) (pos expect : Z) {struct l}
  : wres (list Z * Z) :=
  match l with
  | [] => WBad REcsEof pos
  | b :: r =>
    if b =? 255 then
      match r with
      | [] => WBad REcsEof pos
      | c :: r' =>
        if c <? 128 then jls_scan rst_ok r' (pos + 2) expect
        else if (208 <=? c) && (c <=? 215) then
          if rst_ok && (c =? 208 + expect)
          then jls_scan rst_ok r' (pos + 2) ((expect + 1) mod 8)
          else WBad REcsMarker pos
        else if c =? 255 then WBad REcsFill pos
        else WOk (l, pos)
      end
    else jls_scan rst_ok r (pos + 1) expect
  end.

Definition lt_with_frame (st : lstate) (f : jframe) : lstate :=
  {| lt_frame := Some f; lt_preset := lt_preset st; lt_maps := lt_maps st; lt_ri := lt_ri st;
     lt_scans := lt_scans st; lt_done := lt_done st |}.
Definition lt_with_ri (st : lstate) (ri : Z) : lstate :=
  {| lt_frame := lt_frame st; lt_preset := lt_preset st; lt_maps := lt_maps st; lt_ri := ri;
     lt_scans := lt_scans st; lt_done := lt_done st |}.
Definition lt_with_scan (st : lstate) (s : lscan) : lstate :=
  {| lt_frame := lt_frame st; lt_preset := lt_preset st; lt_maps := lt_maps st; lt_ri := lt_ri st;
     lt_scans := s :: lt_scans st; lt_done := map lscomp_id (ls_comps s) ++ lt_done st |}.

Definition jls_finish (st : lstate) (pos : Z) (rest : list Z) : wres jls_header :=
  match lt_frame st with
  | None => WBad RNoFrame pos
  | Some f =>
    match lt_scans st with
    | [] => WBad RNoScan pos
    | _ =>
      if negb (forallb (fun c => zmem (comp_id c) (lt_done st)) (jf_comps f)) then WBad RNoScan pos
      else match rest with
           | [] => WOk {| lh_p := jf_p f; lh_y := jf_y f; lh_x := jf_x f; lh_nf := jf_nf f;
                          lh_comps := jf_comps f; lh_scans := rev (lt_scans st);
                          lh_preset := lt_preset st; lh_ri := lt_ri st |}
           | _ => WBad RTrailing (pos + 2)
           end
    end
  end.

Definition dri_value (p : list Z) : option Z :=
  match p with
  | [a; b] => Some (be16 a b)
  | [a; b; c] => Some (65536 * a + be16 b c)
  | [a; b; c; d] => Some (be32 a b c d)
  | _ => None
  end.

Fixpoint jls_loop (fuel : nat) (st : lstate) (l : list Z) (pos : Z) : wres jls_header :=
  match fuel with
  | O => WBad RFuel pos
  | S fu =>
    match l with
    | a :: m :: r =>
      if negb (a =? 255) then WBad RExpectedMarker pos
      else if m =? 217 then jls_finish st pos r
      else if (m =? 247) || (m =? 248) || (m =? 218) || (m =? 221)
              || ((224 <=? m) && (m <=? 239)) || (m =? 254) then
        match read_segment l with
        | SegBad rs rel => WBad rs (pos + rel)
        | SegOk _ p rest =>
          let pos' := pos + 4 + zlen p in
          if m =? 247 then
            match lt_frame st with
            | Some _ => WBad RSofDup pos
            | None =>
              match parse_sof55 p with
              | WBad rs _ => WBad rs pos
              | WOk f => jls_loop fu (lt_with_frame st f) rest pos'
              end
            end
          else if m =? 248 then
            match parse_lse st p with
            | WBad rs _ => WBad rs pos
            | WOk st' => jls_loop fu st' rest pos'
            end
          else if m =? 221 then
            match dri_value p with
            | Some ri => jls_loop fu (lt_with_ri st ri) rest pos'
            | None => WBad RDriSyntax pos
            end
          else if m =? 218 then
            match lt_frame st with
            | None => WBad RSosBeforeSof pos
            | Some f =>
              match parse_lsos p with
              | WBad rs _ => WBad rs pos
              | WOk s =>
                match check_lsos st f s with
                | WBad rs _ => WBad rs pos
                | WOk _ =>
                  match jls_scan (negb (lt_ri st =? 0)) rest pos' 0 with
                  | WBad rs q => WBad rs q
                  | WOk (rest', pos'') => jls_loop fu (lt_with_scan st s) rest' pos''
                  end
                end
              end
            end
          else jls_loop fu st rest pos'
        end
      else WBad RBadMarker pos
    | _ => WBad RTruncated pos
    end
  end.

Definition jls_walk (l : list Z) : wres jls_header :=
  match l with
  | a :: b :: r =>
    if (a =? 255) && (b =? 216) then jls_loop (length l) lt_init r 2
    else WBad RNoStart 0
  | _ => WBad RNoStart 0
  end.

Definition jls_wellformed (l : list Z) : option jls_header := wres_opt (jls_walk l).
