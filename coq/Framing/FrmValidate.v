(* EXTRACT *)
(* C17: the guards at the top of every package-level Encode and of every registry
   Codec.Encode / Parameters.Validate, as boolean functions of the argument tuple,
   transliterated from the Go code (same tests, same order), and the `representable`
   predicates the property text asks for.

   State of /repo modelled: after the fix commits e80df58 (JPEG 65535 bound), 96ebe7f (JPEG-LS
   buffer length and 65535 bound), 9b2aa4a + 60ddb6e (jpeg2000 validateParams), 47e9276 (RLE
   geometry / segment count), 6841553 (BitsStored consistency in the .50/.51/HTJ2K codecs).
   Still open, by decision: NEAR is only bounded by 255 (FR-3), Validate() normalises (FR-7).

   Go `int` is 64 bit: products are written with i64mul (= wrapS 64) so that the model has the
   Go overflow behaviour; the theorems state the range in which no overflow happens.

   Sources: jpeg/baseline/encoder.go Encode; jpeg/extended/{encoder.go,encoder_simple.go,
   sequential12.go}; jpeg/lossless/encoder.go; jpeg/lossless14sv1/encoder.go;
   jpegls/lossless/encoder.go; jpegls/nearlossless/encoder.go; jpeg2000/encoder.go
   validateParams + convertPixelData; rle/rle.go encodeFrame + rleEncoder.NextSegment; the
   codec.go and parameters.go of each package. *)
From V Require Import Common.Base.

Definition i64mul (a b : Z) : Z := wrapS 64 (a * b).

(* argument tuple of the package-level encoders:
   (pixel buffer length, width, height, components, bitDepth, extra)
   extra = quality (baseline, extended) / predictor (lossless) / NEAR (jpegls near) *)
Record eargs : Type := {
  a_len : Z; a_w : Z; a_h : Z; a_c : Z; a_p : Z; a_x : Z
}.

Definition bytes_per_sample (p : Z) : Z := Z.quot (p + 7) 8.

(* ---------- jpeg/baseline.Encode(pixelData, width, height, components, quality) ---------- *)
Definition baseline_accepts (a : eargs) : bool :=
  negb ((a_w a <=? 0) || (a_h a <=? 0))
  && negb ((65535 <? a_w a) || (65535 <? a_h a))
  && negb (negb (a_c a =? 1) && negb (a_c a =? 3))
  && negb ((a_x a <? 1) || (100 <? a_x a))
  && negb (a_len a <? i64mul (i64mul (a_w a) (a_h a)) (a_c a)).

(* ---------- jpeg/extended ---------- *)
(* encodeSequential12(pixelData, width, height, components, quality) *)
Definition seq12_accepts (a : eargs) : bool :=
  negb ((a_w a <=? 0) || (a_h a <=? 0))
  && negb ((65535 <? a_w a) || (65535 <? a_h a))
  && negb (negb (a_c a =? 1))
  && negb ((a_x a <? 1) || (100 <? a_x a))
  && negb (a_len a <? i64mul (i64mul (a_w a) (a_h a)) 2).

(* EncodeSimple *)
Definition extended_simple_accepts (a : eargs) : bool :=
  negb ((a_w a <=? 0) || (a_h a <=? 0))
  && negb ((65535 <? a_w a) || (65535 <? a_h a))
  && negb (negb (a_c a =? 1) && negb (a_c a =? 3))
  && negb (negb (a_p a =? 8) && negb (a_p a =? 12))
  && negb ((a_x a <? 1) || (100 <? a_x a))
  && (if a_p a =? 12 then seq12_accepts a else baseline_accepts a).

(* Encode: bitDepth == 12 -> encodeSequential12, else EncodeSimple *)
Definition extended_accepts (a : eargs) : bool :=
  if a_p a =? 12 then seq12_accepts a else extended_simple_accepts a.

(* ---------- jpeg/lossless.Encode(pixelData, w, h, components, bitDepth, predictor) ---------- *)
Definition lossless_accepts (a : eargs) : bool :=
  negb ((a_w a <=? 0) || (a_h a <=? 0))
  && negb ((65535 <? a_w a) || (65535 <? a_h a))
  && negb (negb (a_c a =? 1) && negb (a_c a =? 3))
  && negb ((a_p a <? 2) || (16 <? a_p a))
  && negb ((a_x a <? 0) || (7 <? a_x a))
  && negb (a_len a <? i64mul (i64mul (i64mul (a_w a) (a_h a)) (a_c a)) (bytes_per_sample (a_p a))).

(* ---------- jpeg/lossless14sv1.Encode(pixelData, w, h, components, bitDepth) ---------- *)
Definition sv1_accepts (a : eargs) : bool :=
  negb ((a_w a <=? 0) || (a_h a <=? 0))
  && negb ((65535 <? a_w a) || (65535 <? a_h a))
  && negb (negb (a_c a =? 1) && negb (a_c a =? 3))
  && negb ((a_p a <? 2) || (16 <? a_p a))
  && negb (a_len a <? i64mul (i64mul (i64mul (a_w a) (a_h a)) (a_c a)) (bytes_per_sample (a_p a))).

(* ---------- jpegls/lossless.Encode(pixelData, w, h, components, bitDepth) ---------- *)
(* dimensions > 0, components, bit depth, then (since 96ebe7f) the 65535 bound and the length *)
Definition jls_accepts (a : eargs) : bool :=
  negb ((a_w a <=? 0) || (a_h a <=? 0))
  && negb (negb (a_c a =? 1) && negb (a_c a =? 3))
  && negb ((a_p a <? 2) || (16 <? a_p a))
  && negb ((65535 <? a_w a) || (65535 <? a_h a))
  && negb (a_len a <? i64mul (i64mul (i64mul (a_w a) (a_h a)) (a_c a)) (bytes_per_sample (a_p a))).

(* ---------- jpegls/nearlossless.Encode(pixelData, w, h, components, bitDepth, near) ---------- *)
Definition jlsnear_accepts (a : eargs) : bool :=
  negb ((a_w a <=? 0) || (a_h a <=? 0))
  && negb (negb (a_c a =? 1) && negb (a_c a =? 3))
  && negb ((a_p a <? 2) || (16 <? a_p a))
  && negb ((a_x a <? 0) || (255 <? a_x a))
  && negb ((65535 <? a_w a) || (65535 <? a_h a))
  && negb (a_len a <? i64mul (i64mul (i64mul (a_w a) (a_h a)) (a_c a)) (bytes_per_sample (a_p a))).

(* ---------- representable (the property text) ---------- *)

(* positive dimensions that fit the 16-bit fields of T.81 / T.87 frame headers *)
Definition dims16_ok (a : eargs) : bool :=
  (1 <=? a_w a) && (a_w a <=? 65535) && (1 <=? a_h a) && (a_h a <=? 65535).

Definition need_bytes (a : eargs) (bps : Z) : Z := a_w a * a_h a * a_c a * bps.

Definition baseline_representable (a : eargs) : bool :=
  dims16_ok a && ((a_c a =? 1) || (a_c a =? 3)) && (1 <=? a_x a) && (a_x a <=? 100)
  && (need_bytes a 1 <=? a_len a).

Definition extended_representable (a : eargs) : bool :=
  dims16_ok a && (1 <=? a_x a) && (a_x a <=? 100)
  && (if a_p a =? 8 then ((a_c a =? 1) || (a_c a =? 3)) && (need_bytes a 1 <=? a_len a)
      else (a_p a =? 12) && (a_c a =? 1) && (need_bytes a 2 <=? a_len a)).

Definition lossless_representable (a : eargs) : bool :=
  dims16_ok a && ((a_c a =? 1) || (a_c a =? 3)) && (2 <=? a_p a) && (a_p a <=? 16)
  && (0 <=? a_x a) && (a_x a <=? 7) && (need_bytes a (bytes_per_sample (a_p a)) <=? a_len a).

Definition sv1_representable (a : eargs) : bool :=
  dims16_ok a && ((a_c a =? 1) || (a_c a =? 3)) && (2 <=? a_p a) && (a_p a <=? 16)
  && (need_bytes a (bytes_per_sample (a_p a)) <=? a_len a).

Definition jls_representable (a : eargs) : bool :=
  dims16_ok a && ((a_c a =? 1) || (a_c a =? 3)) && (2 <=? a_p a) && (a_p a <=? 16)
  && (need_bytes a (bytes_per_sample (a_p a)) <=? a_len a).

(* T.87 C.2.3: NEAR <= min(255, MAXVAL/2), MAXVAL = 2^P - 1 *)
Definition near_max (p : Z) : Z := Z.min 255 (Z.quot (2 ^ p - 1) 2).
Definition jlsnear_representable (a : eargs) : bool :=
  jls_representable a && (0 <=? a_x a) && (a_x a <=? near_max (a_p a)).

(* ---------- jpeg2000.Encoder ---------- *)

Record j2kargs : Type := {
  k_len : Z; k_w : Z; k_h : Z; k_c : Z; k_p : Z;
  k_levels : Z; k_cbw : Z; k_cbh : Z; k_layers : Z;
  k_prog : Z;          (* uint8 *)
  k_tw : Z; k_th : Z;
  k_quality : Z; k_lossless : bool;
  k_ncq : Z            (* len(CustomQuantSteps) *)
}.

(* isPowerOfTwo(n) = n > 0 && n&(n-1) == 0, used inside 4..1024 *)
Definition pow2_4_1024 (n : Z) : bool :=
  (n =? 4) || (n =? 8) || (n =? 16) || (n =? 32) || (n =? 64) || (n =? 128) || (n =? 256)
  || (n =? 512) || (n =? 1024).

(* tw == 0 -> tw = Width; (Width + tw - 1) / tw *)
Definition go_tiles (full t : Z) : Z :=
  let t' := if t =? 0 then full else t in Z.quot (wrapS 64 (wrapS 64 (full + t') - 1)) t'.

(* validateParams (params non-nil, ROI nil) then convertPixelData's length test *)
Definition j2k_accepts (k : j2kargs) : bool :=
  negb ((k_w k <=? 0) || (k_h k <=? 0))
  && negb ((k_c k <=? 0) || (4 <? k_c k))
  && negb ((k_p k <? 1) || (16 <? k_p k))
  && negb ((k_levels k <? 0) || (6 <? k_levels k))
  && negb ((k_cbw k <? 4) || (1024 <? k_cbw k) || negb (pow2_4_1024 (k_cbw k)))
  && negb ((k_cbh k <? 4) || (1024 <? k_cbh k) || negb (pow2_4_1024 (k_cbh k)))
  && negb (4096 <? i64mul (k_cbw k) (k_cbh k))
  && negb ((k_layers k <? 1) || (65535 <? k_layers k))
  && negb (4 <? k_prog k)
  && negb ((k_tw k <? 0) || (k_th k <? 0))
  && (if (0 <? k_tw k) || (0 <? k_th k)
      then negb (65535 <? i64mul (go_tiles (k_w k) (k_tw k)) (go_tiles (k_h k) (k_th k)))
      else true)
  && negb (negb (k_lossless k) && (k_ncq k =? 0) && ((k_quality k <? 1) || (100 <? k_quality k)))
  && negb (k_len k <? i64mul (i64mul (i64mul (k_w k) (k_h k)) (k_c k)) (bytes_per_sample (k_p k))).

Definition tiles_along (full t : Z) : Z := if t =? 0 then 1 else Z.quot (full + t - 1) t.

(* what ISO 15444-1 Annex A and the documented parameter ranges can represent *)
Definition j2k_representable (k : j2kargs) : bool :=
  (1 <=? k_w k) && (k_w k <? 4294967296) && (1 <=? k_h k) && (k_h k <? 4294967296)
  && (1 <=? k_c k) && (k_c k <=? 4) && (1 <=? k_p k) && (k_p k <=? 16)
  && (0 <=? k_levels k) && (k_levels k <=? 6)
  && pow2_4_1024 (k_cbw k) && pow2_4_1024 (k_cbh k) && (k_cbw k * k_cbh k <=? 4096)
  && (1 <=? k_layers k) && (k_layers k <=? 65535)
  && (0 <=? k_prog k) && (k_prog k <=? 4)
  && (0 <=? k_tw k) && (k_tw k <? 4294967296) && (0 <=? k_th k) && (k_th k <? 4294967296)
  && (tiles_along (k_w k) (k_tw k) * tiles_along (k_h k) (k_th k) <=? 65535)
  && (k_lossless k || (0 <? k_ncq k) || ((1 <=? k_quality k) && (k_quality k <=? 100)))
  && (k_w k * k_h k * k_c k * bytes_per_sample (k_p k) <=? k_len k).

(* ---------- rle.Codec.encodeFrame ---------- *)

Record rleargs : Type := {
  r_len : Z; r_w : Z; r_h : Z;       (* uint16 fields *)
  r_ba : Z;                          (* BitsAllocated, uint16 *)
  r_spp : Z; r_planar : Z
}.

(* int((info.BitsAllocated-1)/8 + 1) in uint16 arithmetic *)
Definition rle_bytes_allocated (ba : Z) : Z := wrapU 16 (wrapU 16 (ba - 1) / 8 + 1).

(* outcome of the segment loop: NextSegment panics on the 16th segment (offsets [15]);
   a read position >= len(src) is an error. Decided within the first 16 segments. *)
Fixpoint rle_segments (fuel : nat) (s nseg bytesalloc pc len planar : Z) : outcome unit :=
  match fuel with
  | O => OutOfFuel
  | S f =>
    if nseg <=? s then Ok tt
    else if 15 <=? s then Panic
    else
      let sample := Z.quot s bytesalloc in
      let sabyte := Z.rem s bytesalloc in
      let pos0 := (if planar =? 0 then sample * bytesalloc else sample * bytesalloc * pc)
                  + bytesalloc - sabyte - 1 in
      let offset := if planar =? 0 then nseg else bytesalloc in
      if (0 <? pc) && (len <=? pos0 + (pc - 1) * offset) then Err
      else rle_segments f (s + 1) nseg bytesalloc pc len planar
  end.

(* (the later test `encoder.offsetOverflow` needs more than 4 GiB of encoded data before the
   last segment; it is not in this model, which therefore accepts a superset of what Go
   accepts: `accepts -> representable` about the model carries over to the code) *)
Definition rle_outcome (r : rleargs) : outcome unit :=
  if r_len r =? 0 then Err
  else if (r_w r =? 0) || (r_h r =? 0) then Err
  else if r_ba r =? 0 then Err
  else
    let pc := r_w r * r_h r in
    let b := rle_bytes_allocated (r_ba r) in
    let nseg := b * r_spp r in
    if (nseg <? 1) || (15 <? nseg) then Err
    else rle_segments 17 0 nseg b pc (r_len r) (r_planar r).

Definition rle_accepts (r : rleargs) : bool :=
  match rle_outcome r with Ok _ => true | _ => false end.

(* PS3.5 Annex G / 8.2.2: at least one pixel, 1..15 segments, whole frame present *)
Definition rle_representable (r : rleargs) : bool :=
  (1 <=? r_w r) && (1 <=? r_h r) && (1 <=? r_ba r) && (1 <=? r_spp r)
  && (Z.quot (r_ba r + 7) 8 * r_spp r <=? 15)
  && (r_w r * r_h r * r_spp r * Z.quot (r_ba r + 7) 8 <=? r_len r).

(* ---------- registry Codec.Encode ---------- *)

(* One tuple for all 14 codecs. c_pkind: 0 nil parameters, 1 the codec's own typed parameter
   object, 2 a foreign Parameters implementation (values read through GetParameter).
   c_param: the integer the parameter object carries for the codec's main knob (quality /
   predictor / NEAR / numLevels); c_param_int: the foreign object returns it typed as int. *)
Record cargs : Type := {
  c_nil_old : bool; c_nil_new : bool; c_nil_fi : bool;
  c_w : Z; c_h : Z; c_spp : Z; c_bs : Z; c_ba : Z; c_planar : Z;
  c_nframes : Z; c_flen : Z;
  c_pkind : Z; c_param : Z; c_param_int : bool
}.

Definition in_range (lo hi x : Z) : bool := (lo <=? x) && (x <=? hi).

(* the value Validate() leaves in the parameter object: out-of-range -> default, no error *)
Definition norm_param (lo hi dflt codec_dflt : Z) (accept_any_foreign : bool) (c : cargs) : Z :=
  let v :=
    if c_pkind c =? 0 then codec_dflt
    else if c_pkind c =? 1 then c_param c
    else if c_param_int c && (accept_any_foreign || in_range lo hi (c_param c)) then c_param c
    else dflt in
  if in_range lo hi v then v else dflt.

Definition codec_common (c : cargs) : bool :=
  negb (c_nil_old c || c_nil_new c) && negb (c_nil_fi c).

Definition codec_frames (c : cargs) : bool := (0 <? c_nframes c) && (0 <? c_flen c).

Definition eargs_of (c : cargs) (p x : Z) : eargs :=
  {| a_len := c_flen c; a_w := c_w c; a_h := c_h c; a_c := c_spp c; a_p := p; a_x := x |}.

(* .50 baseline: BitsStored <= 8; quality normalised to 1..100 (default 90) *)
Definition codec_baseline_accepts (c : cargs) : bool :=
  codec_common c && negb (8 <? c_bs c) && negb ((c_bs c =? 0) || (c_ba c <? c_bs c)) && codec_frames c
  && baseline_accepts (eargs_of c 8 (norm_param 1 100 90 90 false c)).

(* .51 extended: BitsStored <= 12; bit depth from BitsStored (1..8 -> 8, 9..12 -> 12,
   0 -> the parameter default 12) *)
Definition codec_extended_accepts (c : cargs) : bool :=
  codec_common c && negb (12 <? c_bs c) && negb ((c_bs c =? 0) || (c_ba c <? c_bs c)) && codec_frames c
  && extended_accepts (eargs_of c (if (0 <? c_bs c) && (c_bs c <=? 8) then 8 else 12)
                                  (norm_param 1 100 90 90 false c)).

(* .57 lossless: predictor forced to 1 *)
Definition codec_lossless57_accepts (c : cargs) : bool :=
  codec_common c && codec_frames c && lossless_accepts (eargs_of c (c_bs c) 1).

(* .70 SV1 *)
Definition codec_sv1_accepts (c : cargs) : bool :=
  codec_common c && codec_frames c && sv1_accepts (eargs_of c (c_bs c) 0).

(* .80 JPEG-LS lossless: 2 <= BitsStored <= 16 *)
Definition codec_jls_accepts (c : cargs) : bool :=
  codec_common c && negb ((c_bs c <? 2) || (16 <? c_bs c)) && codec_frames c
  && jls_accepts (eargs_of c (c_bs c) 0).

(* .81 JPEG-LS near-lossless: NEAR normalised to 0..255 (default 3, codec default 3) *)
Definition codec_jlsnear_accepts (c : cargs) : bool :=
  codec_common c && negb ((c_bs c <? 2) || (16 <? c_bs c)) && codec_frames c
  && jlsnear_accepts (eargs_of c (c_bs c) (norm_param 0 255 3 3 false c)).

(* .90/.91/.92/.93 JPEG 2000: default code-blocks 64x64, levels normalised to 0..6, one
   layer: what remains of validateParams/convertPixelData *)
Definition codec_j2k_accepts (c : cargs) : bool :=
  codec_common c && codec_frames c
  && j2k_accepts {| k_len := c_flen c; k_w := c_w c; k_h := c_h c; k_c := c_spp c; k_p := c_bs c;
                    k_levels := 5; k_cbw := 64; k_cbh := 64; k_layers := 1; k_prog := 0;
                    k_tw := 0; k_th := 0; k_quality := 80; k_lossless := true; k_ncq := 0 |}.

(* .201/.202/.203 HTJ2K: the bit depth handed to the encoder is BitsAllocated *)
Definition codec_htj2k_accepts (c : cargs) : bool :=
  codec_common c && negb ((c_bs c =? 0) || (c_ba c <? c_bs c)) && codec_frames c
  && j2k_accepts {| k_len := c_flen c; k_w := c_w c; k_h := c_h c; k_c := c_spp c; k_p := c_ba c;
                    k_levels := 5; k_cbw := 64; k_cbh := 64; k_layers := 1; k_prog := 2;
                    k_tw := 0; k_th := 0; k_quality := 80; k_lossless := true; k_ncq := 0 |}.

(* RLE: no frame-info / frame-count test before the loop; zero frames -> nil error and no
   frame. With >= 1 frame the outcome is encodeFrame's (nil FrameInfo -> error). *)
Definition codec_rle_outcome (c : cargs) : outcome unit :=
  if c_nil_old c || c_nil_new c then Err
  else if c_nframes c <=? 0 then Ok tt
  else if c_flen c =? 0 then Err
  else if c_nil_fi c then Err
  else rle_outcome {| r_len := c_flen c; r_w := c_w c; r_h := c_h c; r_ba := c_ba c;
                      r_spp := c_spp c; r_planar := c_planar c |}.
