(* EXTRACT *)
(* Framing area (C16/C17), shared definitions of the codestream walkers: walker result with
   a failure reason and the byte offset of the failure, big-endian field readers, a one-pass
   "take n bytes" that fails when fewer are present. Everything consumes the byte list front
   to back (no nth / skipn from the start), so a walker is linear in the stream length. *)
From V Require Import Common.Base.

(* Why a stream is not well formed. One constructor per rule of the standards; the OCaml glue
   prints them as "bad:<reason>@<offset>". *)
Inductive reason : Type :=
(* generic *)
| RTruncated        (* stream ends inside a marker, a length field or a segment *)
| RNoStart          (* does not begin with the start marker (SOI / SOC) *)
| RExpectedMarker   (* a byte other than FF where a marker must start *)
| RSegLenSmall      (* length field < 2 *)
| RSegOverrun       (* length field runs past the end of the stream *)
| RBadMarker        (* marker not allowed at this place / unknown / unsupported *)
| RTrailing         (* bytes after the end marker *)
| RFuel             (* walker out of fuel: cannot happen for fuel = length of the stream *)
(* T.81 / T.87 *)
| RDqtSyntax        (* DQT: Pq not 0/1, Tq > 3, payload not a whole number of tables *)
| RDqtZero          (* DQT: an entry is 0 *)
| RDhtSyntax        (* DHT: Tc > 1, Th > 3, payload not a whole number of tables *)
| RDhtKraft         (* DHT: the BITS list is not a prefix code with the all-ones code unused *)
| RDriSyntax        (* DRI: Lr <> 4 *)
| RSofLen           (* SOF: Lf <> 8 + 3 Nf *)
| RSofPrecision     (* SOF: P not allowed for the process *)
| RSofDims          (* SOF: X = 0 or Y = 0 (DNL is not supported by the walker) *)
| RSofNf            (* SOF: Nf = 0 *)
| RSofComp          (* SOF: H/V outside 1..4, Tq > 3, duplicate component id *)
| RSofDup           (* second frame header *)
| RSosBeforeSof     (* scan before frame header *)
| RSosLen           (* SOS: Ls <> 6 + 2 Ns *)
| RSosNs            (* SOS: Ns outside 1..4 or larger than Nf *)
| RSosComp          (* SOS: component not in the frame / out of frame order / repeated *)
| RSosTable         (* SOS: Td/Ta out of range or referring to an undefined table *)
| RSosQuant         (* SOS: component uses an undefined quantisation table / wrong Pq *)
| RSosParams        (* SOS: Ss/Se/Ah/Al not allowed for the process *)
| RSosMcu           (* SOS: sum of H*V over the scan components > 10 *)
| REcsEof           (* stream ends inside entropy-coded data *)
| REcsMarker        (* unescaped marker code inside entropy-coded data (FF followed by a
                       forbidden byte), incl. RSTn out of sequence or without DRI *)
| REcsFill          (* FF FF inside entropy-coded data *)
| RNoFrame          (* EOI without frame header *)
| RNoScan           (* EOI without any scan / a frame component never scanned *)
(* T.87 only *)
| RLseSyntax        (* LSE: unknown id, wrong length, parameters out of range *)
| RJlsNear          (* SOS: NEAR > min(255, MAXVAL/2) *)
| RJlsIlv           (* SOS: ILV not 0..2 or inconsistent with Ns *)
| RJlsMap           (* SOS: mapping table selector refers to an undefined table *)
(* ISO/IEC 15444-1 Annex A *)
| RSizLen           (* Lsiz <> 38 + 3 Csiz *)
| RSizRange         (* SIZ field outside Table A.9 *)
| RSizTiles         (* tile grid origin rules violated / more than 65535 tiles *)
| RCodSyntax        (* COD/COC: wrong length, field outside Tables A.13-A.21 *)
| RCodMissing       (* no COD in the main header *)
| RCodDup           (* two COD in the main header *)
| RQcdSyntax        (* QCD/QCC: wrong length for the style and level count *)
| RQcdMissing
| RQcdDup
| RQcdStyle         (* reversible transform with quantisation or 9/7 without *)
| RTlmSyntax        (* TLM: wrong length for Stlm, bad Stlm, Ztlm out of order *)
| RTlmMismatch      (* TLM entries differ from the tile-parts present *)
| RSegSyntax        (* another known marker segment with a wrong length / field *)
| RSotLen           (* Lsot <> 10 *)
| RSotIsot          (* Isot >= number of tiles *)
| RSotPsot          (* Psot < 14 (and not 0 on the last tile-part), or Psot smaller than the tile-part header *)
| RSotTpsot         (* TPsot out of sequence for its tile, or >= TNsot, or TNsot inconsistent *)
| RPsotOverrun      (* Psot runs past the end of the stream *)
| RPsotNext         (* the bytes after Psot bytes are neither SOT nor EOC *)
| RTileMarker       (* FF followed by a byte >= 0x90 inside tile-part data *)
| RTileEndsFF       (* tile-part data ends with FF *)
| RTileMissing      (* a tile of the grid has no tile-part *)
| RNoTiles.         (* EOC directly after the main header *)

Inductive wres (A : Type) : Type :=
| WOk (a : A)
| WBad (r : reason) (off : Z).
Arguments WOk {A} a.
Arguments WBad {A} r off.

Definition wbind {A B} (o : wres A) (f : A -> wres B) : wres B :=
  match o with WOk a => f a | WBad r p => WBad r p end.

Definition wres_opt {A} (o : wres A) : option A :=
  match o with WOk a => Some a | WBad _ _ => None end.

(* take n l = Some (first n bytes, rest), None when l is shorter than n. One pass. *)
Fixpoint take (n : nat) (l : list Z) : option (list Z * list Z) :=
  match n with
  | O => Some ([], l)
  | S k =>
    match l with
    | [] => None
    | x :: r =>
      match take k r with
      | Some (a, b) => Some (x :: a, b)
      | None => None
      end
    end
  end.

Definition be16 (a b : Z) : Z := 256 * a + b.
Definition be32 (a b c d : Z) : Z := 16777216 * a + 65536 * b + 256 * c + d.

(* A marker segment as all three standards define it: FF, code, 2-byte big-endian length L
   that counts itself, then L-2 payload bytes. read_segment is positioned ON the FF. It
   returns (code, payload, rest). *)
Inductive segres : Type :=
| SegOk (code : Z) (payload rest : list Z)
| SegBad (r : reason) (rel : Z).   (* rel: offset relative to the FF *)

Definition read_segment (l : list Z) : segres :=
  match l with
  | f :: m :: hi :: lo :: r =>
    if negb (f =? 255) then SegBad RExpectedMarker 0
    else
      let len := be16 hi lo in
      if len <? 2 then SegBad RSegLenSmall 2
      else match take (Z.to_nat (len - 2)) r with
           | Some (p, rest) => SegOk m p rest
           | None => SegBad RSegOverrun 2
           end
  | f :: _ => if f =? 255 then SegBad RTruncated 0 else SegBad RExpectedMarker 0
  | [] => SegBad RTruncated 0
  end.

(* membership / lookup helpers on short lists *)
Fixpoint zmem (x : Z) (l : list Z) : bool :=
  match l with [] => false | y :: r => (x =? y) || zmem x r end.

Fixpoint zsum (l : list Z) : Z :=
  match l with [] => 0 | x :: r => x + zsum r end.

Fixpoint nodup_z (l : list Z) : bool :=
  match l with [] => true | x :: r => negb (zmem x r) && nodup_z r end.
