(* EXTRACT *)
(* C16, JPEG 2000 codestream well-formedness walker, written from ISO/IEC 15444-1 Annex A
   (A.2 Table A.2 marker codes, A.3 construction of the codestream, A.4.1 SOC, A.4.2 SOT
   Table A.5/A.6, A.4.3 SOD, A.4.4 EOC, A.5.1 SIZ Table A.9-A.11, A.6.1 COD Tables A.12-A.21,
   A.6.2 COC, A.6.3 RGN, A.6.4 QCD Tables A.27-A.30, A.6.5 QCC, A.6.6 POC, A.7.1 TLM Tables
   A.33/A.34, A.7.2 PLM, A.7.3 PLT, A.7.4 PPM, A.7.5 PPT, A.8.1 SOP, A.8.2 EPH, A.9.1 CRG,
   A.9.2 COM), 15444-2 A.3 (MCT FF74, MCC FF75, MCO FF77: length-delimited segments) and
   15444-15 A.? (CAP FF50, CPF FF59; HT bit 6 of the code-block style), and from 15444-1
   B.10.1 / D.? "the bit stream shall not contain marker codes in the range FF90-FFFF":
   inside tile-part data an FF is never followed by a byte >= 0x90 (except SOP/EPH when Scod
   enables them) and the data does not end with FF.

   The walker checks: SOC; SIZ with Lsiz = 38 + 3 Csiz and the Table A.9 ranges; main header
   segments each with its own length and syntax until the first SOT, exactly one COD and one
   QCD, QCD length consistent with the COD level count and the reversible/irreversible
   choice; tile-parts: SOT with Lsot = 10, Isot < number of tiles, TPsot consecutive per
   tile and below TNsot, tile-part header segments, SOD, exactly Psot - header bytes of data
   (so tile-parts follow each other exactly by Psot and the Psot sum equals the bytes between
   the first SOT and EOC), TLM entries equal to the (Isot, Psot) sequence; every tile of the
   grid has a tile-part; EOC; nothing after. Psot = 0 is reported as unsupported (RSotPsot). *)
From V Require Import Common.Base Framing.FrmBase.

Record j2k_cod : Type := {
  cd_scod : Z; cd_prog : Z; cd_layers : Z; cd_mct : Z;
  cd_levels : Z; cd_xcb : Z; cd_ycb : Z;     (* xcb, ycb: exponent values (field + 2) *)
  cd_style : Z; cd_transform : Z;
  cd_precincts : list Z
}.

Record j2k_header : Type := {
  jk_rsiz : Z;
  jk_xsiz : Z; jk_ysiz : Z; jk_xosiz : Z; jk_yosiz : Z;
  jk_xtsiz : Z; jk_ytsiz : Z; jk_xtosiz : Z; jk_ytosiz : Z;
  jk_csiz : Z;
  jk_comps : list (Z * Z * Z);               (* (Ssiz, XRsiz, YRsiz) *)
  jk_ntiles : Z;
  jk_cod : j2k_cod;
  jk_sqcd : Z;
  jk_tileparts : list (Z * Z);               (* (Isot, Psot) in stream order *)
  jk_tlm : bool;                             (* a TLM was present (and matched) *)
  jk_ncom : Z; jk_ncap : Z; jk_nmct : Z; jk_nrgn : Z
}.

Definition jk_width (h : j2k_header) : Z := jk_xsiz h - jk_xosiz h.
Definition jk_height (h : j2k_header) : Z := jk_ysiz h - jk_yosiz h.

(* ---------- SIZ (A.5.1) ---------- *)

Record j2k_siz : Type := {
  sz_rsiz : Z; sz_x : Z; sz_y : Z; sz_xo : Z; sz_yo : Z; sz_xt : Z; sz_yt : Z;
  sz_xto : Z; sz_yto : Z; sz_c : Z; sz_comps : list (Z * Z * Z)
}.

Fixpoint parse_siz_comps (l : list Z) : option (list (Z * Z * Z)) :=
  match l with
  | [] => Some []
  | s :: xr :: yr :: r =>
    match parse_siz_comps r with Some t => Some ((s, xr, yr) :: t) | None => None end
  | _ => None
  end.

Definition ceil_div (a b : Z) : Z := (a + b - 1) / b.

Definition siz_comp_ok (c : Z * Z * Z) : bool :=
  let '(s, xr, yr) := c in (s mod 128 <=? 37) && (1 <=? xr) && (1 <=? yr).

Definition siz_tiles_x (s : j2k_siz) : Z := ceil_div (sz_x s - sz_xto s) (sz_xt s).
Definition siz_tiles_y (s : j2k_siz) : Z := ceil_div (sz_y s - sz_yto s) (sz_yt s).

Definition parse_siz (p : list Z) : wres j2k_siz :=
  match p with
  | r1 :: r2 :: x1 :: x2 :: x3 :: x4 :: y1 :: y2 :: y3 :: y4
    :: xo1 :: xo2 :: xo3 :: xo4 :: yo1 :: yo2 :: yo3 :: yo4
    :: xt1 :: xt2 :: xt3 :: xt4 :: yt1 :: yt2 :: yt3 :: yt4
    :: xto1 :: xto2 :: xto3 :: xto4 :: yto1 :: yto2 :: yto3 :: yto4
    :: c1 :: c2 :: cs =>
    let csiz := be16 c1 c2 in
    if negb (zlen cs =? 3 * csiz) then WBad RSizLen 0
    else match parse_siz_comps cs with
         | None => WBad RSizLen 0
         | Some comps =>
           let s := {| sz_rsiz := be16 r1 r2; sz_x := be32 x1 x2 x3 x4; sz_y := be32 y1 y2 y3 y4;
                       sz_xo := be32 xo1 xo2 xo3 xo4; sz_yo := be32 yo1 yo2 yo3 yo4;
                       sz_xt := be32 xt1 xt2 xt3 xt4; sz_yt := be32 yt1 yt2 yt3 yt4;
                       sz_xto := be32 xto1 xto2 xto3 xto4; sz_yto := be32 yto1 yto2 yto3 yto4;
                       sz_c := csiz; sz_comps := comps |} in
           if negb ((1 <=? sz_x s) && (1 <=? sz_y s) && (sz_xo s <? sz_x s) && (sz_yo s <? sz_y s)
                    && (1 <=? sz_xt s) && (1 <=? sz_yt s)
                    && (1 <=? csiz) && (csiz <=? 16384) && forallb siz_comp_ok comps)
           then WBad RSizRange 0
           else if negb ((sz_xto s <=? sz_xo s) && (sz_yto s <=? sz_yo s)
                         && (sz_xo s <? sz_xto s + sz_xt s) && (sz_yo s <? sz_yto s + sz_yt s)
                         && (siz_tiles_x s * siz_tiles_y s <=? 65535))
           then WBad RSizTiles 0
           else WOk s
         end
  | _ => WBad RSizLen 0
  end.

(* ---------- COD / COC (A.6.1, A.6.2) ---------- *)

(* SPcod/SPcoc: levels, xcb-2, ycb-2, style, transform [, precinct bytes] *)
Definition parse_spcod (has_prec : bool) (l : list Z) : option (Z * Z * Z * Z * Z * list Z) :=
  match l with
  | lv :: xc :: yc :: sty :: tr :: pr =>
    if (lv <=? 32) && (xc <=? 8) && (yc <=? 8) && (xc + yc <=? 8) && (tr <=? 1)
       && (if has_prec then zlen pr =? lv + 1 else match pr with [] => true | _ => false end)
    then Some (lv, xc + 2, yc + 2, sty, tr, pr) else None
  | _ => None
  end.

Definition parse_cod (p : list Z) : wres j2k_cod :=
  match p with
  | scod :: prog :: l1 :: l2 :: mct :: sp =>
    if negb ((scod <=? 7) && (prog <=? 4) && (1 <=? be16 l1 l2) && (mct <=? 1)) then WBad RCodSyntax 0
    else match parse_spcod (Z.odd scod) sp with
         | Some (lv, xcb, ycb, sty, tr, pr) =>
           WOk {| cd_scod := scod; cd_prog := prog; cd_layers := be16 l1 l2; cd_mct := mct;
                  cd_levels := lv; cd_xcb := xcb; cd_ycb := ycb; cd_style := sty;
                  cd_transform := tr; cd_precincts := pr |}
         | None => WBad RCodSyntax 0
         end
  | _ => WBad RCodSyntax 0
  end.

(* component index field: 1 byte when Csiz < 257, else 2; returns (index, rest) *)
Definition comp_index (csiz : Z) (l : list Z) : option (Z * list Z) :=
  if csiz <? 257 then match l with c :: r => Some (c, r) | [] => None end
  else match l with a :: b :: r => Some (be16 a b, r) | _ => None end.

Definition coc_ok (csiz : Z) (p : list Z) : bool :=
  match comp_index csiz p with
  | Some (c, scoc :: sp) =>
    (c <? csiz) && (scoc <=? 1)
    && match parse_spcod (Z.odd scoc) sp with Some _ => true | None => false end
  | _ => false
  end.

(* ---------- QCD / QCC (A.6.4, A.6.5) ---------- *)

(* number of SPqcd bytes for quantisation style st and lv decomposition levels *)
Definition qcd_bytes (st lv : Z) : Z :=
  if st =? 0 then 3 * lv + 1 else if st =? 1 then 2 else 2 * (3 * lv + 1).

(* structural check only (levels unknown here): style 0..2, guard bits any *)
Definition qcd_shape_ok (p : list Z) : bool :=
  match p with
  | sq :: sp =>
    let st := sq mod 32 in
    (st <=? 2) && (if st =? 0 then 1 <=? zlen sp else if st =? 1 then zlen sp =? 2
                   else (2 <=? zlen sp) && Z.even (zlen sp))
  | [] => false
  end.

Definition qcc_ok (csiz : Z) (p : list Z) : bool :=
  match comp_index csiz p with
  | Some (c, r) => (c <? csiz) && qcd_shape_ok r
  | None => false
  end.

(* ---------- TLM (A.7.1) ---------- *)

(* entries of one TLM: (Some Ttlm | None, Ptlm) *)
Fixpoint tlm_entries (fuel : nat) (st sp : Z) (l : list Z) : option (list (option Z * Z)) :=
  match l with
  | [] => Some []
  | _ =>
    match fuel with
    | O => None
    | S f =>
      let tpart :=
        if st =? 0 then Some (None, l)
        else if st =? 1 then match l with t :: r => Some (Some t, r) | [] => None end
        else match l with t1 :: t2 :: r => Some (Some (be16 t1 t2), r) | _ => None end in
      match tpart with
      | None => None
      | Some (t, r) =>
        if sp =? 0 then
          match r with
          | a :: b :: r' =>
            match tlm_entries f st sp r' with Some e => Some ((t, be16 a b) :: e) | None => None end
          | _ => None
          end
        else
          match r with
          | a :: b :: c :: d :: r' =>
            match tlm_entries f st sp r' with Some e => Some ((t, be32 a b c d) :: e) | None => None end
          | _ => None
          end
      end
    end
  end.

Definition parse_tlm (p : list Z) : option (Z * list (option Z * Z)) :=
  match p with
  | z :: s :: es =>
    let st := (s / 16) mod 4 in
    let sp := (s / 64) mod 2 in
    if (s mod 16 =? 0) && (s <? 128) && (st <=? 2) then
      match tlm_entries (length es) st sp es with
      | Some e => Some (z, e)
      | None => None
      end
    else None
  | _ => None
  end.

(* ---------- other segments ---------- *)

Fixpoint popcount_fuel (fuel : nat) (x : Z) : Z :=
  match fuel with
  | O => 0
  | S f => if x <=? 0 then 0 else x mod 2 + popcount_fuel f (x / 2)
  end.

Definition cap_ok (p : list Z) : bool :=
  match p with
  | a :: b :: c :: d :: r => zlen r =? 2 * popcount_fuel 32 (be32 a b c d)
  | _ => false
  end.

Definition com_ok (p : list Z) : bool :=
  match p with a :: b :: _ => be16 a b <=? 1 | _ => false end.

Definition rgn_ok (csiz : Z) (p : list Z) : bool :=
  match comp_index csiz p with
  | Some (c, [srgn; sprgn]) => (c <? csiz) && (srgn =? 0)
  | _ => false
  end.

Definition poc_ok (csiz : Z) (p : list Z) : bool :=
  let e := if csiz <? 257 then 7 else 9 in
  (1 <=? zlen p) && (zlen p mod e =? 0).

(* segments that may appear in the main header besides COD/QCD/TLM; true = syntax accepted *)
Definition main_other_ok (csiz m : Z) (p : list Z) : bool :=
  if m =? 83 then coc_ok csiz p
  else if m =? 93 then qcc_ok csiz p
  else if m =? 94 then rgn_ok csiz p
  else if m =? 95 then poc_ok csiz p
  else if m =? 87 then 1 <=? zlen p                 (* PLM *)
  else if m =? 96 then 1 <=? zlen p                 (* PPM *)
  else if m =? 99 then zlen p =? 4 * csiz           (* CRG *)
  else if m =? 100 then com_ok p
  else if m =? 80 then cap_ok p
  else if m =? 89 then (2 <=? zlen p) && Z.even (zlen p)   (* CPF *)
  else if m =? 116 then                              (* MCT: Zmct, Imct [, Ymct when Zmct = 0] *)
    match p with
    | z1 :: z2 :: _ :: _ :: r => if be16 z1 z2 =? 0 then 2 <=? zlen r else true
    | _ => false
    end
  else if m =? 117 then 3 <=? zlen p                (* MCC: Zmcc, Imcc, ... *)
  else if m =? 119 then                              (* MCO: Nmco, Imco^i *)
    match p with n :: r => zlen r =? n | [] => false end
  else false.

Definition is_main_other (m : Z) : bool :=
  (m =? 83) || (m =? 93) || (m =? 94) || (m =? 95) || (m =? 87) || (m =? 96) || (m =? 99)
  || (m =? 100) || (m =? 80) || (m =? 89) || (m =? 116) || (m =? 117) || (m =? 119).

(* tile-part header segments (A.3 Table A.3): COD COC QCD QCC RGN POC PPT PLT COM *)
Definition tile_seg_ok (csiz m : Z) (p : list Z) : bool :=
  if m =? 82 then match parse_cod p with WOk _ => true | WBad _ _ => false end
  else if m =? 92 then qcd_shape_ok p
  else if (m =? 83) || (m =? 93) || (m =? 94) || (m =? 95) || (m =? 100) then main_other_ok csiz m p
  else if (m =? 97) || (m =? 88) then 1 <=? zlen p
  else false.

(* ---------- main header ---------- *)

Record mstate : Type := {
  ms_cod : option j2k_cod;
  ms_qcd : option (Z * Z);                   (* (Sqcd, number of SPqcd bytes) *)
  ms_tlm : list (option Z * Z);              (* reversed *)
  ms_tlm_seen : bool;
  ms_ztlm : Z;                               (* last Ztlm, -1 = none *)
  ms_ncom : Z; ms_ncap : Z; ms_nmct : Z; ms_nrgn : Z
}.

Definition ms_init : mstate :=
  {| ms_cod := None; ms_qcd := None; ms_tlm := []; ms_tlm_seen := false; ms_ztlm := -1;
     ms_ncom := 0; ms_ncap := 0; ms_nmct := 0; ms_nrgn := 0 |}.

Definition ms_count (st : mstate) (m : Z) : mstate :=
  {| ms_cod := ms_cod st; ms_qcd := ms_qcd st; ms_tlm := ms_tlm st; ms_tlm_seen := ms_tlm_seen st;
     ms_ztlm := ms_ztlm st;
     ms_ncom := ms_ncom st + (if m =? 100 then 1 else 0);
     ms_ncap := ms_ncap st + (if m =? 80 then 1 else 0);
     ms_nmct := ms_nmct st + (if (m =? 116) || (m =? 117) || (m =? 119) then 1 else 0);
     ms_nrgn := ms_nrgn st + (if m =? 94 then 1 else 0) |}.

(* returns the state and the list positioned on the first SOT (or EOC) *)
Fixpoint main_loop (fuel : nat) (csiz : Z) (st : mstate) (l : list Z) (pos : Z)
  : wres (mstate * list Z * Z) :=
  match fuel with
  | O => WBad RFuel pos
  | S fu =>
    match l with
    | a :: m :: _ =>
      if negb (a =? 255) then WBad RExpectedMarker pos
      else if (m =? 144) || (m =? 217) then WOk (st, l, pos)
      else if (m =? 82) || (m =? 92) || (m =? 85) || is_main_other m then
        match read_segment l with
        | SegBad rs rel => WBad rs (pos + rel)
        | SegOk _ p rest =>
          let pos' := pos + 4 + zlen p in
          if m =? 82 then
            match ms_cod st with
            | Some _ => WBad RCodDup pos
            | None =>
              match parse_cod p with
              | WBad rs _ => WBad rs pos
              | WOk c =>
                main_loop fu csiz
                  {| ms_cod := Some c; ms_qcd := ms_qcd st; ms_tlm := ms_tlm st;
                     ms_tlm_seen := ms_tlm_seen st; ms_ztlm := ms_ztlm st; ms_ncom := ms_ncom st;
                     ms_ncap := ms_ncap st; ms_nmct := ms_nmct st; ms_nrgn := ms_nrgn st |}
                  rest pos'
              end
            end
          else if m =? 92 then
            match ms_qcd st with
            | Some _ => WBad RQcdDup pos
            | None =>
              match p with
              | sq :: sp =>
                if qcd_shape_ok p then
                  main_loop fu csiz
                    {| ms_cod := ms_cod st; ms_qcd := Some (sq, zlen sp); ms_tlm := ms_tlm st;
                       ms_tlm_seen := ms_tlm_seen st; ms_ztlm := ms_ztlm st; ms_ncom := ms_ncom st;
                       ms_ncap := ms_ncap st; ms_nmct := ms_nmct st; ms_nrgn := ms_nrgn st |}
                    rest pos'
                else WBad RQcdSyntax pos
              | [] => WBad RQcdSyntax pos
              end
            end
          else if m =? 85 then
            match parse_tlm p with
            | None => WBad RTlmSyntax pos
            | Some (z, e) =>
              if z <=? ms_ztlm st then WBad RTlmSyntax pos
              else main_loop fu csiz
                  {| ms_cod := ms_cod st; ms_qcd := ms_qcd st; ms_tlm := rev_append e (ms_tlm st);
                     ms_tlm_seen := true; ms_ztlm := z; ms_ncom := ms_ncom st;
                     ms_ncap := ms_ncap st; ms_nmct := ms_nmct st; ms_nrgn := ms_nrgn st |}
                  rest pos'
            end
          else if main_other_ok csiz m p then main_loop fu csiz (ms_count st m) rest pos'
          else WBad RSegSyntax pos
        end
      else WBad RBadMarker pos
    | _ => WBad RTruncated pos
    end
  end.

(* ---------- tile-parts ---------- *)

(* tile-part header: segments until SOD; returns the list after SOD and its offset *)
Fixpoint tile_header (fuel : nat) (csiz : Z) (l : list Z) (pos : Z) : wres (list Z * Z) :=
  match fuel with
  | O => WBad RFuel pos
  | S fu =>
    match l with
    | a :: m :: r =>
      if negb (a =? 255) then WBad RExpectedMarker pos
      else if m =? 147 then WOk (r, pos + 2)
      else if (m =? 82) || (m =? 92) || (m =? 83) || (m =? 93) || (m =? 94) || (m =? 95)
              || (m =? 100) || (m =? 97) || (m =? 88) then
        match read_segment l with
        | SegBad rs rel => WBad rs (pos + rel)
        | SegOk _ p rest =>
          if tile_seg_ok csiz m p then tile_header fu csiz rest (pos + 4 + zlen p)
          else WBad RSegSyntax pos
        end
      else WBad RBadMarker pos
    | _ => WBad RTruncated pos
    end
  end.

(* exactly n bytes of tile-part data. pff: the previous data byte was FF. *)
Fixpoint tile_scan (sop eph : bool) (l : list Z) (n pos : Z) (pff : bool) {struct l}
  : wres (list Z) :=
  if n <=? 0 then (if pff then WBad RTileEndsFF (pos - 1) else WOk l)
  else match l with
       | [] => WBad RPsotOverrun pos
       | b :: r =>
         if pff && (144 <=? b) && negb ((sop && (b =? 145)) || (eph && (b =? 146)))
         then WBad RTileMarker (pos - 1)
         else tile_scan sop eph r (n - 1) (pos + 1) (b =? 255)
       end.

(* per-tile bookkeeping: (Isot, next TPsot, TNsot or 0) *)
Fixpoint tp_lookup (i : Z) (l : list (Z * Z * Z)) : option (Z * Z) :=
  match l with
  | [] => None
  | (j, nx, tn) :: r => if j =? i then Some (nx, tn) else tp_lookup i r
  end.
Fixpoint tp_update (i nx tn : Z) (l : list (Z * Z * Z)) : list (Z * Z * Z) :=
  match l with
  | [] => [(i, nx, tn)]
  | (j, a, b) :: r => if j =? i then (i, nx, tn) :: r else (j, a, b) :: tp_update i nx tn r
  end.

(* TPsot/TNsot rule (A.4.2): TPsot counts 0,1,2.. per tile; TNsot = 0 (unknown) or the total,
   the same in every tile-part that gives it, and TPsot < TNsot *)
Definition tp_step (i tp tn : Z) (tab : list (Z * Z * Z)) : option (list (Z * Z * Z)) :=
  match tp_lookup i tab with
  | None =>
    if (tp =? 0) && ((tn =? 0) || (tp <? tn)) then Some ((i, 1, tn) :: tab) else None
  | Some (nx, tn0) =>
    if (tp =? nx) && ((tn =? 0) || (tp <? tn)) && ((tn0 =? 0) || (tn =? 0) || (tn =? tn0))
    then Some (tp_update i (nx + 1) (if tn =? 0 then tn0 else tn) tab) else None
  end.

Definition tp_complete (t : Z * Z * Z) : bool :=
  let '(_, nx, tn) := t in (tn =? 0) || (nx =? tn).

(* l positioned on SOT or EOC. parts: reversed (Isot, Psot). *)
Fixpoint tiles_loop (fuel : nat) (csiz ntiles : Z) (sop eph : bool) (tab : list (Z * Z * Z))
  (parts : list (Z * Z)) (l : list Z) (pos : Z)
  : wres (list (Z * Z * Z) * list (Z * Z) * list Z * Z) :=
  match fuel with
  | O => WBad RFuel pos
  | S fu =>
    match l with
    | a :: m :: r =>
      if negb (a =? 255) then WBad RPsotNext pos
      else if m =? 217 then WOk (tab, parts, r, pos)
      else if m =? 144 then
        match r with
        | l1 :: l2 :: i1 :: i2 :: p1 :: p2 :: p3 :: p4 :: tp :: tn :: r' =>
          let isot := be16 i1 i2 in
          let psot := be32 p1 p2 p3 p4 in
          if negb (be16 l1 l2 =? 10) then WBad RSotLen (pos + 2)
          else if negb (isot <? ntiles) then WBad RSotIsot (pos + 4)
          else if psot <? 14 then WBad RSotPsot (pos + 6)
          else match tp_step isot tp tn tab with
               | None => WBad RSotTpsot (pos + 10)
               | Some tab' =>
                 match tile_header (length r') csiz r' (pos + 12) with
                 | WBad rs q => WBad rs q
                 | WOk (d, dpos) =>
                   let n := psot - (dpos - pos) in
                   if n <? 0 then WBad RSotPsot (pos + 6)
                   else match tile_scan sop eph d n dpos false with
                        | WBad rs q => WBad rs q
                        | WOk rest =>
                          tiles_loop fu csiz ntiles sop eph tab' ((isot, psot) :: parts)
                                     rest (pos + psot)
                        end
                 end
               end
        | _ => WBad RTruncated pos
        end
      else WBad RPsotNext pos
    | _ => WBad RTruncated pos
    end
  end.

(* TLM entries against the tile-parts present, in order. With ST = 0 (no Ttlm) the standard
   requires one tile-part per tile in index order: Ttlm is the running index. *)
Fixpoint tlm_match (idx : Z) (tlm : list (option Z * Z)) (parts : list (Z * Z)) : bool :=
  match tlm, parts with
  | [], [] => true
  | (t, p) :: tr, (i, ps) :: pr =>
    (p =? ps) && (match t with Some tv => tv =? i | None => idx =? i end) && tlm_match (idx + 1) tr pr
  | _, _ => false
  end.

(* ---------- the walker ---------- *)

Definition j2k_walk (l : list Z) : wres j2k_header :=
  match l with
  | a :: b :: r =>
    if negb ((a =? 255) && (b =? 79)) then WBad RNoStart 0
    else match r with
         | c :: d :: _ =>
           if negb ((c =? 255) && (d =? 81)) then WBad RBadMarker 2
           else match read_segment r with
                | SegBad rs rel => WBad rs (2 + rel)
                | SegOk _ p rest =>
                  match parse_siz p with
                  | WBad rs _ => WBad rs 2
                  | WOk s =>
                    let pos1 := 6 + zlen p in
                    match main_loop (length rest) (sz_c s) ms_init rest pos1 with
                    | WBad rs q => WBad rs q
                    | WOk (ms, l2, pos2) =>
                      match ms_cod ms, ms_qcd ms with
                      | None, _ => WBad RCodMissing pos2
                      | _, None => WBad RQcdMissing pos2
                      | Some cod, Some (sq, nsp) =>
                        let qst := sq mod 32 in
                        let part15 := Z.odd (sz_rsiz s / 16384) in
                        if negb (nsp =? qcd_bytes qst (cd_levels cod)) then WBad RQcdSyntax pos2
                        else if negb (part15 || (cd_style cod <? 64)) then WBad RCodSyntax pos2
                        else if part15 && (ms_ncap ms =? 0) then WBad RSegSyntax pos2
                        else if negb (Bool.eqb (cd_transform cod =? 1) (qst =? 0)) then WBad RQcdStyle pos2
                        else
                          let ntiles := siz_tiles_x s * siz_tiles_y s in
                          let sop := Z.odd (cd_scod cod / 2) in
                          let eph := Z.odd (cd_scod cod / 4) in
                          match tiles_loop (length l2) (sz_c s) ntiles sop eph [] [] l2 pos2 with
                          | WBad rs q => WBad rs q
                          | WOk (tab, parts, rest3, pos3) =>
                            let parts' := rev parts in
                            match parts with
                            | [] => WBad RNoTiles pos3
                            | _ =>
                              if negb (zlen tab =? ntiles) then WBad RTileMissing pos3
                              else if negb (forallb tp_complete tab) then WBad RSotTpsot pos3
                              else if ms_tlm_seen ms && negb (tlm_match 0 (rev (ms_tlm ms)) parts')
                              then WBad RTlmMismatch pos3
                              else match rest3 with
                                   | _ :: _ => WBad RTrailing (pos3 + 2)
                                   | [] =>
                                     WOk {| jk_rsiz := sz_rsiz s;
                                            jk_xsiz := sz_x s; jk_ysiz := sz_y s;
                                            jk_xosiz := sz_xo s; jk_yosiz := sz_yo s;
                                            jk_xtsiz := sz_xt s; jk_ytsiz := sz_yt s;
                                            jk_xtosiz := sz_xto s; jk_ytosiz := sz_yto s;
                                            jk_csiz := sz_c s; jk_comps := sz_comps s;
                                            jk_ntiles := ntiles; jk_cod := cod; jk_sqcd := sq;
                                            jk_tileparts := parts'; jk_tlm := ms_tlm_seen ms;
                                            jk_ncom := ms_ncom ms; jk_ncap := ms_ncap ms;
                                            jk_nmct := ms_nmct ms; jk_nrgn := ms_nrgn ms |}
                                   end
                            end
                          end
                      end
                    end
                  end
                end
         | _ => WBad RTruncated 2
         end
  | _ => WBad RNoStart 0
  end.

Definition j2k_wellformed (l : list Z) : option j2k_header := wres_opt (j2k_walk l).
