(* C16 proofs, part 1: marker segments. The walkers' segment step (FrmBase.read_segment, used
   for every marker segment of the three formats) against standard.Writer.WriteSegment. *)
From V Require Import Common.Base Framing.FrmBase Framing.FrmWriters.

Lemma take_app : forall (a b : list Z), take (length a) (a ++ b) = Some (a, b).
Proof.
  induction a as [|x a IH]; intros b; cbn [length take app].
  - reflexivity.
  - rewrite IH. reflexivity.
Qed.

Lemma take_length : forall n l a b, take n l = Some (a, b) -> length a = n /\ l = a ++ b.
Proof.
  induction n as [|n IH]; intros l a b H; cbn [take] in H.
  - inversion H; subst. split; reflexivity.
  - destruct l as [|x r]; [discriminate|].
    destruct (take n r) as [[a' b']|] eqn:E; [|discriminate].
    inversion H; subst. destruct (IH _ _ _ E) as [Hl Hr]. split; cbn; [lia|]. now rewrite Hr.
Qed.

Lemma zlen_nonneg : forall (A : Type) (l : list A), 0 <= zlen l.
Proof. intros. unfold zlen. lia. Qed.

Lemma zlen_app : forall (A : Type) (a b : list A), zlen (a ++ b) = zlen a + zlen b.
Proof. intros. unfold zlen. rewrite app_length. lia. Qed.

Lemma zlen_cons : forall (A : Type) (x : A) l, zlen (x :: l) = 1 + zlen l.
Proof. intros. unfold zlen. cbn [length]. lia. Qed.

Lemma be16_write_u16 : forall v, 0 <= v < 65536 ->
  be16 (v / 256) (v mod 256) = v /\ 0 <= v / 256 < 256 /\ 0 <= v mod 256 < 256.
Proof.
  intros v Hv. unfold be16. pose proof (Z.div_mod v 256 ltac:(lia)).
  pose proof (Z.mod_pos_bound v 256 ltac:(lia)).
  assert (0 <= v / 256 < 256) by (split; [apply Z.div_pos; lia | apply Z.div_lt_upper_bound; lia]).
  lia.
Qed.

Lemma write_marker_ff : forall m, 0 <= m < 256 -> write_marker (65280 + m) = [255; m].
Proof.
  intros m Hm. unfold write_marker, write_u16.
  replace (65280 + m) with (m + 255 * 256) by ring.
  rewrite Z.div_add by lia. rewrite Z.mod_add by lia.
  rewrite Z.div_small by lia. rewrite Z.mod_small by lia. reflexivity.
Qed.

(* segment_length: for every marker code and every payload whose length field fits 16 bits,
   the walkers' segment step accepts WriteSegment(marker, data) and consumes exactly those
   bytes, whatever follows. *)
Theorem segment_length : forall m data rest,
  0 <= m < 256 -> zlen data + 2 < 65536 ->
  read_segment (write_segment (65280 + m) data ++ rest) = SegOk m data rest.
Proof.
  intros m data rest Hm Hlen. unfold write_segment. rewrite write_marker_ff by assumption.
  unfold segment_length_field, wrapU. change (2 ^ 16) with 65536.
  pose proof (zlen_nonneg _ data) as H0.
  rewrite Z.mod_small by lia. unfold write_u16.
  cbn [app]. unfold read_segment.
  change (255 =? 255) with true. cbn [negb].
  destruct (be16_write_u16 (zlen data + 2) ltac:(lia)) as [Hb _]. rewrite Hb.
  destruct (Z.ltb_spec (zlen data + 2) 2) as [Hc|Hc]; [lia|].
  replace (Z.to_nat (zlen data + 2 - 2)) with (length data) by (unfold zlen; lia).
  rewrite take_app. reflexivity.
Qed.

(* What WriteSegment does when len(data)+2 >= 65536: the length field is silently reduced
   modulo 2^16 (no error is returned), and the walkers then do NOT see the segment the caller
   wrote. No encoder of the library reaches this through WriteSegment (its payloads are at
   most 17+256 bytes: DQT, DHT, SOF, SOS, APP0 with 1 or 3 components). The same uint16
   narrowing in jpeg2000.writeTLM needs more than 10921 tile-parts, which is outside C16's
   quantifier (at most 64 tiles); the harness keeps it as a note. *)
Theorem segment_length_field_wraps : forall data,
  segment_length_field data = (zlen data + 2) mod 65536.
Proof. reflexivity. Qed.

Theorem segment_length_overflow_wraps : forall m data rest,
  0 <= m < 256 -> 65536 <= zlen data + 2 ->
  read_segment (write_segment (65280 + m) data ++ rest) <> SegOk m data rest.
Proof.
  intros m data rest Hm Hlen. unfold write_segment. rewrite write_marker_ff by assumption.
  unfold write_u16. cbn [app]. unfold read_segment.
  change (255 =? 255) with true. cbn [negb].
  set (f := segment_length_field data).
  assert (Hf : 0 <= f < 65536) by (unfold f, segment_length_field, wrapU; apply Z.mod_pos_bound; reflexivity).
  destruct (be16_write_u16 f Hf) as [Hb _]. rewrite Hb.
  destruct (f <? 2); [discriminate|].
  destruct (take (Z.to_nat (f - 2)) (data ++ rest)) as [[p r]|] eqn:E; [|discriminate].
  intros H. inversion H; subst p r.
  apply take_length in E. destruct E as [El _]. unfold zlen in Hlen. lia.
Qed.

Example segment_length_overflow_witness :
  let data := repeat 0 (Z.to_nat 65534) in
  zlen data + 2 = 65536 /\ segment_length_field data = 0.
Proof. vm_compute. split; reflexivity. Qed.
