(* C17 proofs: `accepts a = true -> representable a` per encoder.
   For the UNFIXED /repo the statement is refuted for every package-level encoder; each
   `<enc>_accepts_refuted` gives a vm_compute witness (replayed on the Go code by the C17
   suite), each `<enc>_accepts_partial` proves the statement under exactly the guards that are
   missing (so the partial theorem's extra hypotheses ARE the suggested fix). At the registry
   level width/height are uint16, which supplies the missing dimension guard: the
   `codec_*_sound` theorems are unconditional for baseline, extended, lossless (.57), SV1 and
   the JPEG 2000 / HTJ2K codecs; JPEG-LS and RLE stay refuted there too. *)
From V Require Import Common.Base Framing.FrmValidate.

(* ---------- tactics ---------- *)

Ltac split_and H :=
  repeat match type of H with
  | (_ && _) = true => let H' := fresh H in apply andb_prop in H; destruct H as [H H']
  end.

Ltac bool_hyps :=
  repeat match goal with
  | H : context [Z.leb ?x ?y] |- _ => destruct (Z.leb_spec x y); cbn [negb andb orb] in H; try discriminate H
  | H : context [Z.ltb ?x ?y] |- _ => destruct (Z.ltb_spec x y); cbn [negb andb orb] in H; try discriminate H
  | H : context [Z.eqb ?x ?y] |- _ => destruct (Z.eqb_spec x y); cbn [negb andb orb] in H; try discriminate H
  end.

Ltac bool_goal :=
  repeat match goal with
  | |- context [Z.leb ?x ?y] => destruct (Z.leb_spec x y); try (exfalso; lia)
  | |- context [Z.ltb ?x ?y] => destruct (Z.ltb_spec x y); try (exfalso; lia)
  | |- context [Z.eqb ?x ?y] => destruct (Z.eqb_spec x y); try (exfalso; lia)
  end; cbn [andb orb negb]; try reflexivity.

(* ---------- int64 products ---------- *)

Lemma wrapS64_id : forall x, - 2 ^ 63 <= x < 2 ^ 63 -> wrapS 64 x = x.
Proof.
  intros x Hx. unfold wrapS. change (2 ^ 64) with 18446744073709551616.
  change (2 ^ (64 - 1)) with 9223372036854775808.
  change (2 ^ 63) with 9223372036854775808 in Hx.
  destruct (Z_lt_le_dec x 0) as [Hn|Hp].
  - assert (Hm : x mod 18446744073709551616 = x + 18446744073709551616)
      by (symmetry; apply Z.mod_unique with (q := -1); lia).
    rewrite Hm. destruct (Z.ltb_spec (x + 18446744073709551616) 9223372036854775808); lia.
  - rewrite Z.mod_small by lia. destruct (Z.ltb_spec x 9223372036854775808); lia.
Qed.

Lemma i64mul_exact : forall a b, - 2 ^ 63 <= a * b < 2 ^ 63 -> i64mul a b = a * b.
Proof. intros. unfold i64mul. apply wrapS64_id. assumption. Qed.

Lemma bps_bound : forall p, 1 <= p <= 16 -> 1 <= bytes_per_sample p <= 2.
Proof.
  intros p Hp. unfold bytes_per_sample. rewrite Z.quot_div_nonneg by lia.
  assert ((p + 7) / 8 < 3) by (apply Z.div_lt_upper_bound; lia).
  split; [apply Z.div_le_lower_bound; lia | lia].
Qed.

(* the byte count of a frame whose dimensions fit 16 bits never overflows int64 *)
Lemma need_exact : forall w h c b,
  1 <= w <= 65535 -> 1 <= h <= 65535 -> 0 <= c <= 5 -> 0 <= b <= 2 ->
  i64mul (i64mul (i64mul w h) c) b = w * h * c * b /\ i64mul (i64mul w h) c = w * h * c.
Proof.
  intros w h c b Hw Hh Hc Hb.
  assert (H1 : 0 <= w * h <= 4294836225) by nia.
  assert (H2 : 0 <= w * h * c <= 21474181125) by nia.
  assert (H3 : 0 <= w * h * c * b <= 42948362250) by nia.
  change (2 ^ 63) with 9223372036854775808 in *.
  rewrite (i64mul_exact w h) by (change (2 ^ 63) with 9223372036854775808; lia).
  rewrite (i64mul_exact (w * h) c) by (change (2 ^ 63) with 9223372036854775808; lia).
  rewrite (i64mul_exact (w * h * c) b) by (change (2 ^ 63) with 9223372036854775808; lia).
  split; reflexivity.
Qed.

(* ================= baseline ================= *)

Definition baseline_accepts_statement : Prop :=
  forall a, 0 <= a_len a -> baseline_accepts a = true -> baseline_representable a = true.

(* missing guard: width <= 65535 && height <= 65535 *)
Theorem baseline_accepts_refuted :
  exists a, 0 <= a_len a /\ baseline_accepts a = true /\ baseline_representable a = false.
Proof.
  exists {| a_len := 65536; a_w := 65536; a_h := 1; a_c := 1; a_p := 8; a_x := 75 |}.
  vm_compute. repeat split; discriminate.
Qed.

Theorem baseline_accepts_partial : forall a,
  a_w a <= 65535 -> a_h a <= 65535 ->
  baseline_accepts a = true -> baseline_representable a = true.
Proof.
  intros a Hw Hh H. unfold baseline_accepts in H. split_and H. bool_hyps.
  all: assert (Hc : a_c a = 1 \/ a_c a = 3) by lia.
  all: destruct (need_exact (a_w a) (a_h a) (a_c a) 1 ltac:(lia) ltac:(lia) ltac:(lia) ltac:(lia)) as [_ E].
  all: rewrite E in *.
  all: unfold baseline_representable, dims16_ok, need_bytes. all: bool_goal; try lia.
Qed.

(* ================= extended ================= *)

Definition extended_accepts_statement : Prop :=
  forall a, 0 <= a_len a -> extended_accepts a = true -> extended_representable a = true.

Theorem extended_accepts_refuted :
  (exists a, 0 <= a_len a /\ a_p a = 8 /\ extended_accepts a = true /\ extended_representable a = false) /\
  (exists a, 0 <= a_len a /\ a_p a = 12 /\ extended_accepts a = true /\ extended_representable a = false).
Proof.
  split.
  - exists {| a_len := 65537; a_w := 1; a_h := 65537; a_c := 1; a_p := 8; a_x := 75 |}.
    vm_compute. repeat split; discriminate.
  - exists {| a_len := 131072; a_w := 65536; a_h := 1; a_c := 1; a_p := 12; a_x := 75 |}.
    vm_compute. repeat split; discriminate.
Qed.

Theorem extended_accepts_partial : forall a,
  a_w a <= 65535 -> a_h a <= 65535 ->
  extended_accepts a = true -> extended_representable a = true.
Proof.
  intros a Hw Hh H. unfold extended_accepts in H.
  destruct (Z.eqb_spec (a_p a) 12) as [E12|N12].
  - unfold seq12_accepts in H. split_and H. bool_hyps.
    all: destruct (need_exact (a_w a) (a_h a) 2 1 ltac:(lia) ltac:(lia) ltac:(lia) ltac:(lia)) as [_ E].
    all: rewrite E in *.
    all: unfold extended_representable, dims16_ok, need_bytes; rewrite E12; cbn [Z.eqb Pos.eqb].
    all: bool_goal; try lia.
  - unfold extended_simple_accepts in H. split_and H.
    destruct (Z.eqb_spec (a_p a) 12); [contradiction|].
    unfold baseline_accepts in H0. split_and H0. bool_hyps; try lia.
    all: assert (Hc : a_c a = 1 \/ a_c a = 3) by lia.
    all: destruct (need_exact (a_w a) (a_h a) (a_c a) 1 ltac:(lia) ltac:(lia) ltac:(lia) ltac:(lia)) as [_ E].
    all: rewrite E in *.
    all: unfold extended_representable, dims16_ok, need_bytes.
    all: bool_goal; try lia.
Qed.

(* ================= lossless / SV1 ================= *)

Definition lossless_accepts_statement : Prop :=
  forall a, 0 <= a_len a -> lossless_accepts a = true -> lossless_representable a = true.

Theorem lossless_accepts_refuted :
  exists a, 0 <= a_len a /\ lossless_accepts a = true /\ lossless_representable a = false.
Proof.
  exists {| a_len := 65537; a_w := 65537; a_h := 1; a_c := 1; a_p := 8; a_x := 1 |}.
  vm_compute. repeat split; discriminate.
Qed.

Theorem lossless_accepts_partial : forall a,
  a_w a <= 65535 -> a_h a <= 65535 ->
  lossless_accepts a = true -> lossless_representable a = true.
Proof.
  intros a Hw Hh H. unfold lossless_accepts in H. split_and H. bool_hyps.
  all: assert (Hc : a_c a = 1 \/ a_c a = 3) by lia.
  all: pose proof (bps_bound (a_p a) ltac:(lia)) as Hb.
  all: destruct (need_exact (a_w a) (a_h a) (a_c a) (bytes_per_sample (a_p a))
              ltac:(lia) ltac:(lia) ltac:(lia) ltac:(lia)) as [E _].
  all: rewrite E in *.
  all: unfold lossless_representable, dims16_ok, need_bytes. all: bool_goal; try lia.
Qed.

Definition sv1_accepts_statement : Prop :=
  forall a, 0 <= a_len a -> sv1_accepts a = true -> sv1_representable a = true.

Theorem sv1_accepts_refuted :
  exists a, 0 <= a_len a /\ sv1_accepts a = true /\ sv1_representable a = false.
Proof.
  exists {| a_len := 131072; a_w := 1; a_h := 65536; a_c := 1; a_p := 16; a_x := 0 |}.
  vm_compute. repeat split; discriminate.
Qed.

Theorem sv1_accepts_partial : forall a,
  a_w a <= 65535 -> a_h a <= 65535 ->
  sv1_accepts a = true -> sv1_representable a = true.
Proof.
  intros a Hw Hh H. unfold sv1_accepts in H. split_and H. bool_hyps.
  all: assert (Hc : a_c a = 1 \/ a_c a = 3) by lia.
  all: pose proof (bps_bound (a_p a) ltac:(lia)) as Hb.
  all: destruct (need_exact (a_w a) (a_h a) (a_c a) (bytes_per_sample (a_p a))
              ltac:(lia) ltac:(lia) ltac:(lia) ltac:(lia)) as [E _].
  all: rewrite E in *.
  all: unfold sv1_representable, dims16_ok, need_bytes. all: bool_goal; try lia.
Qed.

(* ================= JPEG-LS ================= *)

Definition jls_accepts_statement : Prop :=
  forall a, 0 <= a_len a -> jls_accepts a = true -> jls_representable a = true.

(* two missing guards: the pixel buffer length, and the 65535 bound *)
Theorem jls_accepts_refuted :
  (exists a, 0 <= a_len a /\ jls_accepts a = true /\ dims16_ok a = true /\ jls_representable a = false) /\
  (exists a, 0 <= a_len a /\ jls_accepts a = true /\ need_bytes a 1 <= a_len a /\ jls_representable a = false).
Proof.
  split.
  - exists {| a_len := 0; a_w := 1; a_h := 1; a_c := 1; a_p := 8; a_x := 0 |}.
    vm_compute. repeat split; discriminate.
  - exists {| a_len := 65536; a_w := 65536; a_h := 1; a_c := 1; a_p := 8; a_x := 0 |}.
    vm_compute. repeat split; discriminate.
Qed.

Theorem jls_accepts_partial : forall a,
  a_w a <= 65535 -> a_h a <= 65535 ->
  need_bytes a (bytes_per_sample (a_p a)) <= a_len a ->
  jls_accepts a = true -> jls_representable a = true.
Proof.
  intros a Hw Hh Hn H. unfold jls_accepts in H. split_and H. bool_hyps.
  all: unfold jls_representable, dims16_ok. all: bool_goal; try lia.
Qed.

Definition jlsnear_accepts_statement : Prop :=
  forall a, 0 <= a_len a -> jlsnear_accepts a = true -> jlsnear_representable a = true.

(* three missing guards: buffer length, 65535 bound, NEAR <= min(255, MAXVAL/2) *)
Theorem jlsnear_accepts_refuted :
  (exists a, 0 <= a_len a /\ jlsnear_accepts a = true /\ jlsnear_representable a = false /\
             dims16_ok a = true /\ a_x a <= near_max (a_p a)) /\
  (exists a, 0 <= a_len a /\ jlsnear_accepts a = true /\ jlsnear_representable a = false /\
             need_bytes a 1 <= a_len a /\ a_x a <= near_max (a_p a)) /\
  (exists a, 0 <= a_len a /\ jlsnear_accepts a = true /\ jlsnear_representable a = false /\
             dims16_ok a = true /\ need_bytes a 1 <= a_len a).
Proof.
  split; [|split].
  - exists {| a_len := 0; a_w := 1; a_h := 1; a_c := 1; a_p := 8; a_x := 2 |}.
    vm_compute. repeat split; discriminate.
  - exists {| a_len := 65536; a_w := 1; a_h := 65536; a_c := 1; a_p := 8; a_x := 2 |}.
    vm_compute. repeat split; discriminate.
  - exists {| a_len := 6; a_w := 3; a_h := 2; a_c := 1; a_p := 2; a_x := 2 |}.
    vm_compute. repeat split; discriminate.
Qed.

Theorem jlsnear_accepts_partial : forall a,
  a_w a <= 65535 -> a_h a <= 65535 ->
  need_bytes a (bytes_per_sample (a_p a)) <= a_len a ->
  a_x a <= near_max (a_p a) ->
  jlsnear_accepts a = true -> jlsnear_representable a = true.
Proof.
  intros a Hw Hh Hn Hx H. unfold jlsnear_accepts in H. split_and H. bool_hyps.
  all: unfold jlsnear_representable, jls_representable, dims16_ok. all: bool_goal; try lia.
Qed.

(* ================= JPEG 2000 ================= *)

Definition j2k_accepts_statement : Prop :=
  forall k, 0 <= k_len k -> j2k_accepts k = true -> j2k_representable k = true.

Definition j2k_base (len : Z) : j2kargs :=
  {| k_len := len; k_w := 5; k_h := 4; k_c := 1; k_p := 8; k_levels := 2; k_cbw := 64; k_cbh := 64;
     k_layers := 1; k_prog := 0; k_tw := 0; k_th := 0; k_quality := 80; k_lossless := true |}.

(* one witness per guard validateParams does not have *)
Theorem j2k_accepts_refuted :
  (* code-block area > 4096 (xcb + ycb > 12) *)
  (exists k, j2k_accepts k = true /\ j2k_representable k = false /\ k_cbw k = 1024 /\ k_cbh k = 1024) /\
  (* progression order > 4 *)
  (exists k, j2k_accepts k = true /\ j2k_representable k = false /\ k_prog k = 5) /\
  (* more than 65535 layers *)
  (exists k, j2k_accepts k = true /\ j2k_representable k = false /\ k_layers k = 65536) /\
  (* irreversible with quality outside 1..100 *)
  (exists k, j2k_accepts k = true /\ j2k_representable k = false /\ k_lossless k = false /\ k_quality k = 0) /\
  (* negative tile size *)
  (exists k, j2k_accepts k = true /\ j2k_representable k = false /\ k_tw k = -1) /\
  (* more than 65535 tiles *)
  (exists k, j2k_accepts k = true /\ j2k_representable k = false /\ k_tw k = 1 /\ k_th k = 1).
Proof.
  repeat split.
  - exists {| k_len := 20; k_w := 5; k_h := 4; k_c := 1; k_p := 8; k_levels := 2; k_cbw := 1024; k_cbh := 1024;
              k_layers := 1; k_prog := 0; k_tw := 0; k_th := 0; k_quality := 80; k_lossless := true |}.
    vm_compute. repeat split; reflexivity.
  - exists {| k_len := 20; k_w := 5; k_h := 4; k_c := 1; k_p := 8; k_levels := 2; k_cbw := 64; k_cbh := 64;
              k_layers := 1; k_prog := 5; k_tw := 0; k_th := 0; k_quality := 80; k_lossless := true |}.
    vm_compute. repeat split; reflexivity.
  - exists {| k_len := 4; k_w := 2; k_h := 2; k_c := 1; k_p := 8; k_levels := 2; k_cbw := 64; k_cbh := 64;
              k_layers := 65536; k_prog := 0; k_tw := 0; k_th := 0; k_quality := 80; k_lossless := true |}.
    vm_compute. repeat split; reflexivity.
  - exists {| k_len := 20; k_w := 5; k_h := 4; k_c := 1; k_p := 8; k_levels := 2; k_cbw := 64; k_cbh := 64;
              k_layers := 1; k_prog := 0; k_tw := 0; k_th := 0; k_quality := 0; k_lossless := false |}.
    vm_compute. repeat split; reflexivity.
  - exists {| k_len := 20; k_w := 5; k_h := 4; k_c := 1; k_p := 8; k_levels := 2; k_cbw := 64; k_cbh := 64;
              k_layers := 1; k_prog := 0; k_tw := -1; k_th := 2; k_quality := 80; k_lossless := true |}.
    vm_compute. repeat split; reflexivity.
  - exists {| k_len := 65792; k_w := 257; k_h := 256; k_c := 1; k_p := 8; k_levels := 0; k_cbw := 64; k_cbh := 64;
              k_layers := 1; k_prog := 0; k_tw := 1; k_th := 1; k_quality := 80; k_lossless := true |}.
    vm_compute. repeat split; reflexivity.
Qed.

Lemma neg_or3 : forall a b c, negb (a || b || negb c) = true -> a = false /\ b = false /\ c = true.
Proof. intros [] [] []; cbn; intros H; try discriminate H; repeat split. Qed.

(* with the missing guards as hypotheses (and a pixel count that an int64 byte count can
   hold) validateParams + convertPixelData do imply representability *)
Theorem j2k_accepts_partial : forall k,
  k_w k < 4294967296 -> k_h k < 4294967296 -> k_w k * k_h k < 2 ^ 59 ->
  k_cbw k * k_cbh k <= 4096 -> k_layers k <= 65535 -> 0 <= k_prog k <= 4 ->
  0 <= k_tw k < 4294967296 -> 0 <= k_th k < 4294967296 ->
  tiles_along (k_w k) (k_tw k) * tiles_along (k_h k) (k_th k) <= 65535 ->
  (k_lossless k = true \/ 1 <= k_quality k <= 100) ->
  j2k_accepts k = true -> j2k_representable k = true.
Proof.
  intros k Hw Hh Hwh Hcb Hly Hpg Htw Hth Hti Hq H.
  unfold j2k_accepts in H. split_and H.
  repeat match goal with
  | Hx : negb (_ || _ || negb _) = true |- _ => apply neg_or3 in Hx; destruct Hx as [? [? ?]]
  end.
  assert (Ecw : pow2_4_1024 (k_cbw k) = true) by assumption.
  assert (Ech : pow2_4_1024 (k_cbh k) = true) by assumption.
  bool_hyps.
  pose proof (bps_bound (k_p k) ltac:(lia)) as Hb.
  change (2 ^ 59) with 576460752303423488 in Hwh.
  assert (P1 : 0 <= k_w k * k_h k) by nia.
  assert (P2 : 0 <= k_w k * k_h k * k_c k <= 2305843009213693952) by nia.
  assert (P3 : 0 <= k_w k * k_h k * k_c k * bytes_per_sample (k_p k) <= 4611686018427387904) by nia.
  rewrite (i64mul_exact (k_w k) (k_h k)) in * by (change (2 ^ 63) with 9223372036854775808; lia).
  rewrite (i64mul_exact (k_w k * k_h k) (k_c k)) in * by (change (2 ^ 63) with 9223372036854775808; lia).
  rewrite (i64mul_exact (k_w k * k_h k * k_c k) _) in * by (change (2 ^ 63) with 9223372036854775808; lia).
  unfold j2k_representable. rewrite Ecw, Ech.
  assert (Hqb : k_lossless k || ((1 <=? k_quality k) && (k_quality k <=? 100)) = true).
  { destruct Hq as [-> | Hq]; [reflexivity|].
    apply Bool.orb_true_iff; right. apply andb_true_intro; split; apply Z.leb_le; lia. }
  rewrite Hqb.
  repeat (apply andb_true_intro; split); try reflexivity;
    try (apply Z.leb_le; lia); try (apply Z.ltb_lt; lia).
Qed.

(* ================= RLE ================= *)

Definition rle_accepts_statement : Prop :=
  forall r, 0 <= r_w r <= 65535 -> 0 <= r_h r <= 65535 -> 0 <= r_ba r <= 65535 -> 0 <= r_spp r <= 65535 ->
    0 <= r_len r -> rle_accepts r = true -> rle_representable r = true.

(* a zero-sized image is encoded to a header-only stream; BitsAllocated 0 counts as 8192
   bytes per sample; and (not an acceptance but a crash) more than 15 segments panic *)
Theorem rle_accepts_refuted :
  exists r, 0 <= r_len r /\ rle_accepts r = true /\ rle_representable r = false /\ r_h r = 0.
Proof.
  exists {| r_len := 1; r_w := 1; r_h := 0; r_ba := 16; r_spp := 1; r_planar := 0 |}.
  vm_compute. repeat split; discriminate.
Qed.

Theorem rle_panics :
  rle_outcome {| r_len := 360; r_w := 5; r_h := 3; r_ba := 64; r_spp := 3; r_planar := 0 |} = Panic /\
  rle_outcome {| r_len := 122880; r_w := 5; r_h := 3; r_ba := 0; r_spp := 1; r_planar := 0 |} = Panic.
Proof. split; vm_compute; reflexivity. Qed.

(* bounded: for every geometry of at least one pixel in the finite box below, acceptance does
   imply representability (the whole domain is enumerated by vm_compute) *)
Definition zrange (lo n : nat) : list Z := map Z.of_nat (seq lo n).
Definition rle_box_ok : bool :=
  forallb (fun w => forallb (fun h => forallb (fun ba => forallb (fun spp => forallb (fun pl =>
    forallb (fun len =>
      let r := {| r_len := len; r_w := w; r_h := h; r_ba := ba; r_spp := spp; r_planar := pl |} in
      negb (rle_accepts r) || rle_representable r)
    (zrange 0 82)) (zrange 0 2)) (zrange 1 4)) (zrange 1 40)) (zrange 1 2)) (zrange 1 2).

Theorem rle_accepts_bounded : rle_box_ok = true.
Proof. vm_compute. reflexivity. Qed.

(* ================= registry codecs ================= *)

Definition uint16_fields (c : cargs) : Prop :=
  0 <= c_w c <= 65535 /\ 0 <= c_h c <= 65535 /\ 0 <= c_spp c <= 65535 /\
  0 <= c_bs c <= 65535 /\ 0 <= c_ba c <= 65535.

(* FrameInfo.Width/Height are uint16: the registry codecs cannot be handed the dimensions the
   package-level encoders mishandle. *)
Theorem codec_baseline_sound : forall c, uint16_fields c ->
  codec_baseline_accepts c = true ->
  baseline_representable (eargs_of c 8 (norm_param 1 100 90 90 false c)) = true.
Proof.
  intros c [Hw [Hh _]] H. unfold codec_baseline_accepts in H. split_and H.
  apply baseline_accepts_partial; cbn [eargs_of a_w a_h]; try lia. exact H0.
Qed.

Theorem codec_extended_sound : forall c, uint16_fields c ->
  codec_extended_accepts c = true ->
  extended_representable (eargs_of c (if (0 <? c_bs c) && (c_bs c <=? 8) then 8 else 12)
                                     (norm_param 1 100 90 90 false c)) = true.
Proof.
  intros c [Hw [Hh _]] H. unfold codec_extended_accepts in H. split_and H.
  apply extended_accepts_partial; cbn [eargs_of a_w a_h]; try lia. exact H0.
Qed.

Theorem codec_lossless57_sound : forall c, uint16_fields c ->
  codec_lossless57_accepts c = true -> lossless_representable (eargs_of c (c_bs c) 1) = true.
Proof.
  intros c [Hw [Hh _]] H. unfold codec_lossless57_accepts in H. split_and H.
  apply lossless_accepts_partial; cbn [eargs_of a_w a_h]; try lia. exact H0.
Qed.

Theorem codec_sv1_sound : forall c, uint16_fields c ->
  codec_sv1_accepts c = true -> sv1_representable (eargs_of c (c_bs c) 0) = true.
Proof.
  intros c [Hw [Hh _]] H. unfold codec_sv1_accepts in H. split_and H.
  apply sv1_accepts_partial; cbn [eargs_of a_w a_h]; try lia. exact H0.
Qed.

(* JPEG-LS at the registry: dimensions are fine, the frame length still is not checked *)
Theorem codec_jls_refuted :
  exists c, uint16_fields c /\ codec_jls_accepts c = true /\
            jls_representable (eargs_of c (c_bs c) 0) = false.
Proof.
  exists {| c_nil_old := false; c_nil_new := false; c_nil_fi := false; c_w := 5; c_h := 3; c_spp := 1;
            c_bs := 8; c_ba := 8; c_planar := 0; c_nframes := 1; c_flen := 7; c_pkind := 0; c_param := 0;
            c_param_int := false |}.
  unfold uint16_fields. vm_compute. repeat split; discriminate.
Qed.

Theorem codec_jlsnear_refuted :
  (* short frame *)
  (exists c, uint16_fields c /\ codec_jlsnear_accepts c = true /\
             jlsnear_representable (eargs_of c (c_bs c) (norm_param 0 255 3 3 false c)) = false /\ c_bs c = 12) /\
  (* default NEAR = 3 with BitsStored = 2 (MAXVAL 3, NEAR <= 1) *)
  (exists c, uint16_fields c /\ codec_jlsnear_accepts c = true /\
             jlsnear_representable (eargs_of c (c_bs c) (norm_param 0 255 3 3 false c)) = false /\ c_bs c = 2).
Proof.
  split.
  - exists {| c_nil_old := false; c_nil_new := false; c_nil_fi := false; c_w := 5; c_h := 3; c_spp := 1;
              c_bs := 12; c_ba := 16; c_planar := 0; c_nframes := 1; c_flen := 29; c_pkind := 0; c_param := 0;
              c_param_int := false |}.
    unfold uint16_fields. vm_compute. repeat split; discriminate.
  - exists {| c_nil_old := false; c_nil_new := false; c_nil_fi := false; c_w := 5; c_h := 3; c_spp := 1;
              c_bs := 2; c_ba := 8; c_planar := 0; c_nframes := 1; c_flen := 15; c_pkind := 0; c_param := 0;
              c_param_int := false |}.
    unfold uint16_fields. vm_compute. repeat split; discriminate.
Qed.

Definition j2k_of_codec (c : cargs) (p prog : Z) : j2kargs :=
  {| k_len := c_flen c; k_w := c_w c; k_h := c_h c; k_c := c_spp c; k_p := p;
     k_levels := 5; k_cbw := 64; k_cbh := 64; k_layers := 1; k_prog := prog;
     k_tw := 0; k_th := 0; k_quality := 80; k_lossless := true |}.

Lemma j2k_of_codec_sound : forall c p prog, uint16_fields c -> 0 <= prog <= 4 ->
  j2k_accepts (j2k_of_codec c p prog) = true -> j2k_representable (j2k_of_codec c p prog) = true.
Proof.
  intros c p prog [Hw [Hh _]] Hp H.
  apply j2k_accepts_partial; cbn [j2k_of_codec k_w k_h k_cbw k_cbh k_layers k_prog k_tw k_th k_lossless];
    try lia; try exact H.
  - change (2 ^ 59) with 576460752303423488. nia.
  - unfold tiles_along. cbn. lia.
Qed.

Theorem codec_j2k_sound : forall c, uint16_fields c ->
  codec_j2k_accepts c = true -> j2k_representable (j2k_of_codec c (c_bs c) 0) = true.
Proof.
  intros c Hu H. unfold codec_j2k_accepts in H. split_and H.
  apply j2k_of_codec_sound; [exact Hu | lia | exact H0].
Qed.

Theorem codec_htj2k_sound : forall c, uint16_fields c ->
  codec_htj2k_accepts c = true -> j2k_representable (j2k_of_codec c (c_ba c) 2) = true.
Proof.
  intros c Hu H. unfold codec_htj2k_accepts in H. split_and H.
  apply j2k_of_codec_sound; [exact Hu | lia | exact H0].
Qed.

(* RLE at the registry: zero rows accepted; > 15 segments panic *)
Theorem codec_rle_refuted :
  codec_rle_outcome {| c_nil_old := false; c_nil_new := false; c_nil_fi := false; c_w := 1; c_h := 0;
                       c_spp := 1; c_bs := 16; c_ba := 16; c_planar := 1; c_nframes := 1; c_flen := 1;
                       c_pkind := 0; c_param := 0; c_param_int := false |} = Ok tt /\
  codec_rle_outcome {| c_nil_old := false; c_nil_new := false; c_nil_fi := false; c_w := 5; c_h := 3;
                       c_spp := 3; c_bs := 1; c_ba := 64; c_planar := 0; c_nframes := 1; c_flen := 360;
                       c_pkind := 0; c_param := 0; c_param_int := false |} = Panic.
Proof. split; vm_compute; reflexivity. Qed.

(* Validate() never fails: whatever integer the parameter object carries, the value used
   is inside the documented range (this is the "normalises instead of rejecting" behaviour) *)
Theorem norm_param_in_range : forall lo hi d cd any c,
  lo <= d <= hi -> in_range lo hi (norm_param lo hi d cd any c) = true.
Proof.
  intros lo hi d cd any c Hd. unfold norm_param.
  match goal with |- context [if in_range lo hi ?v then _ else _] => destruct (in_range lo hi v) eqn:E end.
  - exact E.
  - unfold in_range. apply andb_true_intro; split; apply Z.leb_le; lia.
Qed.
