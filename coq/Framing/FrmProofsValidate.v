(* C17 proofs: `accepts a = true -> representable a` per encoder, for the guards of /repo AFTER
   the fix commits (see FrmValidate.v). The statement now holds unconditionally for baseline,
   extended, lossless, SV1, JPEG-LS lossless, RLE and (for images below 2^59 pixels with
   32-bit dimensions) jpeg2000.Encoder, and for every registry codec except .81.
   Still refuted, recorded as known findings: JPEG-LS near-lossless accepts NEAR above
   MAXVAL/2 (FR-3: `jlsnear_accepts_refuted`, `codec_jlsnear_refuted`; the `_partial` theorems
   name the missing guard); Validate() normalises instead of rejecting (FR-7:
   `norm_param_in_range`). Outside the property's quantifier but true of the code:
   jpeg2000.Encoder has no upper bound on Width/Height, the int64 byte count wraps at 2^32 x
   2^32 (`j2k_accepts_beyond_uint32_refuted`; the call panics on the implementation). *)
From V Require Import Common.Base Framing.FrmValidate.

(* ---------- tactics ---------- *)

Ltac split_and H :=
  repeat match type of H with
  | (_ && _) = true => let H' := fresh H in apply andb_prop in H; destruct H as [H H']
  end.

Ltac bool_hyps :=
  repeat match goal with
  | H : context [Z.leb ?x ?y] |- _ => destruct (Z.leb_spec x y); cbn [negb andb orb] in H; try discriminate H
  | H : context [Z.ltb ?x ?y] |- _ => destruct (Z.ltb_spec x y); cbn [negb andb orb] in H; try discriminate H
  | H : context [Z.eqb ?x ?y] |- _ => destruct (Z.eqb_spec x y); cbn [negb andb orb] in H; try discriminate H
  end.

Ltac bool_goal :=
  repeat match goal with
  | |- context [Z.leb ?x ?y] => destruct (Z.leb_spec x y); try (exfalso; lia)
  | |- context [Z.ltb ?x ?y] => destruct (Z.ltb_spec x y); try (exfalso; lia)
  | |- context [Z.eqb ?x ?y] => destruct (Z.eqb_spec x y); try (exfalso; lia)
  end; cbn [andb orb negb]; try reflexivity.

(* ---------- int64 products ---------- *)

Lemma wrapS64_id : forall x, - 2 ^ 63 <= x < 2 ^ 63 -> wrapS 64 x = x.
Proof.
  intros x Hx. unfold wrapS. change (2 ^ 64) with 18446744073709551616.
  change (2 ^ (64 - 1)) with 9223372036854775808.
  change (2 ^ 63) with 9223372036854775808 in Hx.
  destruct (Z_lt_le_dec x 0) as [Hn|Hp].
  - assert (Hm : x mod 18446744073709551616 = x + 18446744073709551616)
      by (symmetry; apply Z.mod_unique with (q := -1); lia).
    rewrite Hm. destruct (Z.ltb_spec (x + 18446744073709551616) 9223372036854775808); lia.
  - rewrite Z.mod_small by lia. destruct (Z.ltb_spec x 9223372036854775808); lia.
Qed.

Lemma i64mul_exact : forall a b, - 2 ^ 63 <= a * b < 2 ^ 63 -> i64mul a b = a * b.
Proof. intros. unfold i64mul. apply wrapS64_id. assumption. Qed.

Lemma bps_bound : forall p, 1 <= p <= 16 -> 1 <= bytes_per_sample p <= 2.
Proof.
  intros p Hp. unfold bytes_per_sample. rewrite Z.quot_div_nonneg by lia.
  assert ((p + 7) / 8 < 3) by (apply Z.div_lt_upper_bound; lia).
  split; [apply Z.div_le_lower_bound; lia | lia].
Qed.

(* the byte count of a frame whose dimensions fit 16 bits never overflows int64 *)
Lemma need_exact : forall w h c b,
  1 <= w <= 65535 -> 1 <= h <= 65535 -> 0 <= c <= 5 -> 0 <= b <= 2 ->
  i64mul (i64mul (i64mul w h) c) b = w * h * c * b /\ i64mul (i64mul w h) c = w * h * c.
Proof.
  intros w h c b Hw Hh Hc Hb.
  assert (H1 : 0 <= w * h <= 4294836225) by nia.
  assert (H2 : 0 <= w * h * c <= 21474181125) by nia.
  assert (H3 : 0 <= w * h * c * b <= 42948362250) by nia.
  change (2 ^ 63) with 9223372036854775808 in *.
  rewrite (i64mul_exact w h) by (change (2 ^ 63) with 9223372036854775808; lia).
  rewrite (i64mul_exact (w * h) c) by (change (2 ^ 63) with 9223372036854775808; lia).
  rewrite (i64mul_exact (w * h * c) b) by (change (2 ^ 63) with 9223372036854775808; lia).
  split; reflexivity.
Qed.

(* ================= baseline / extended / lossless / SV1 ================= *)

Theorem baseline_accepts_sound : forall a,
  baseline_accepts a = true -> baseline_representable a = true.
Proof.
  intros a H. unfold baseline_accepts in H. split_and H. bool_hyps.
  all: assert (Hc : a_c a = 1 \/ a_c a = 3) by lia.
  all: destruct (need_exact (a_w a) (a_h a) (a_c a) 1 ltac:(lia) ltac:(lia) ltac:(lia) ltac:(lia)) as [_ E].
  all: rewrite E in *.
  all: unfold baseline_representable, dims16_ok, need_bytes. all: bool_goal; try lia.
Qed.

Theorem extended_accepts_sound : forall a,
  extended_accepts a = true -> extended_representable a = true.
Proof.
  intros a H. unfold extended_accepts in H.
  destruct (Z.eqb_spec (a_p a) 12) as [E12|N12].
  - unfold seq12_accepts in H. split_and H. bool_hyps.
    all: destruct (need_exact (a_w a) (a_h a) 2 1 ltac:(lia) ltac:(lia) ltac:(lia) ltac:(lia)) as [_ E].
    all: rewrite E in *.
    all: unfold extended_representable, dims16_ok, need_bytes; rewrite E12; cbn [Z.eqb Pos.eqb].
    all: bool_goal; try lia.
  - unfold extended_simple_accepts in H. split_and H.
    destruct (Z.eqb_spec (a_p a) 12); [contradiction|].
    unfold baseline_accepts in H0. split_and H0. bool_hyps; try lia.
    all: assert (Hc : a_c a = 1 \/ a_c a = 3) by lia.
    all: destruct (need_exact (a_w a) (a_h a) (a_c a) 1 ltac:(lia) ltac:(lia) ltac:(lia) ltac:(lia)) as [_ E].
    all: rewrite E in *.
    all: unfold extended_representable, dims16_ok, need_bytes.
    all: bool_goal; try lia.
Qed.

Theorem lossless_accepts_sound : forall a,
  lossless_accepts a = true -> lossless_representable a = true.
Proof.
  intros a H. unfold lossless_accepts in H. split_and H. bool_hyps.
  all: assert (Hc : a_c a = 1 \/ a_c a = 3) by lia.
  all: pose proof (bps_bound (a_p a) ltac:(lia)) as Hb.
  all: destruct (need_exact (a_w a) (a_h a) (a_c a) (bytes_per_sample (a_p a))
              ltac:(lia) ltac:(lia) ltac:(lia) ltac:(lia)) as [E _].
  all: rewrite E in *.
  all: unfold lossless_representable, dims16_ok, need_bytes. all: bool_goal; try lia.
Qed.

Theorem sv1_accepts_sound : forall a,
  sv1_accepts a = true -> sv1_representable a = true.
Proof.
  intros a H. unfold sv1_accepts in H. split_and H. bool_hyps.
  all: assert (Hc : a_c a = 1 \/ a_c a = 3) by lia.
  all: pose proof (bps_bound (a_p a) ltac:(lia)) as Hb.
  all: destruct (need_exact (a_w a) (a_h a) (a_c a) (bytes_per_sample (a_p a))
              ltac:(lia) ltac:(lia) ltac:(lia) ltac:(lia)) as [E _].
  all: rewrite E in *.
  all: unfold sv1_representable, dims16_ok, need_bytes. all: bool_goal; try lia.
Qed.

(* ================= JPEG-LS ================= *)

Theorem jls_accepts_sound : forall a,
  jls_accepts a = true -> jls_representable a = true.
Proof.
  intros a H. unfold jls_accepts in H. split_and H. bool_hyps.
  all: assert (Hc : a_c a = 1 \/ a_c a = 3) by lia.
  all: pose proof (bps_bound (a_p a) ltac:(lia)) as Hb.
  all: destruct (need_exact (a_w a) (a_h a) (a_c a) (bytes_per_sample (a_p a))
              ltac:(lia) ltac:(lia) ltac:(lia) ltac:(lia)) as [E _].
  all: rewrite E in *.
  all: unfold jls_representable, dims16_ok, need_bytes. all: bool_goal; try lia.
Qed.

Definition jlsnear_accepts_statement : Prop :=
  forall a, jlsnear_accepts a = true -> jlsnear_representable a = true.

(* KNOWN FINDING FR-3. The one guard still missing: NEAR <= min(255, MAXVAL/2) (T.87 C.2.3);
   the encoder only tests 0 <= near <= 255. Dimensions and buffer are fine in the witness. *)
Theorem jlsnear_accepts_refuted :
  exists a, jlsnear_accepts a = true /\ jlsnear_representable a = false /\
            jls_representable a = true /\ near_max (a_p a) < a_x a <= 255.
Proof.
  exists {| a_len := 6; a_w := 3; a_h := 2; a_c := 1; a_p := 2; a_x := 2 |}.
  vm_compute. repeat split; discriminate.
Qed.

Theorem jlsnear_accepts_partial : forall a,
  a_x a <= near_max (a_p a) ->
  jlsnear_accepts a = true -> jlsnear_representable a = true.
Proof.
  intros a Hx H.
  assert (Hj : jls_accepts a = true).
  { unfold jlsnear_accepts in H. unfold jls_accepts. split_and H.
    repeat (apply andb_true_intro; split); assumption. }
  apply jls_accepts_sound in Hj. unfold jlsnear_representable. rewrite Hj.
  unfold jlsnear_accepts in H. split_and H. bool_hyps.
  all: bool_goal; try lia.
Qed.

(* ================= JPEG 2000 ================= *)

Lemma neg_or3 : forall a b c, negb (a || b || negb c) = true -> a = false /\ b = false /\ c = true.
Proof. intros [] [] []; cbn; intros H; try discriminate H; repeat split. Qed.

Lemma tiles_le : forall w t, 1 <= w -> 1 <= t -> 1 <= Z.quot (w + t - 1) t <= w.
Proof.
  intros w t Hw Ht. rewrite Z.quot_div_nonneg by lia. split.
  - apply Z.div_le_lower_bound; lia.
  - assert (Hm : w * 1 <= w * t) by (apply Z.mul_le_mono_nonneg_l; lia).
    assert ((w + t - 1) / t < w + 1).
    { apply Z.div_lt_upper_bound; [lia|]. replace (t * (w + 1)) with (w * t + t) by ring. lia. }
    lia.
Qed.

Lemma go_tiles_eq : forall w t, 1 <= w < 4294967296 -> 0 <= t < 4294967296 ->
  go_tiles w t = tiles_along w t /\ 1 <= tiles_along w t <= w.
Proof.
  intros w t Hw Ht. unfold go_tiles, tiles_along.
  destruct (Z.eqb_spec t 0) as [->|Hn].
  - rewrite (wrapS64_id (w + w)) by (change (2 ^ 63) with 9223372036854775808; lia).
    rewrite (wrapS64_id (w + w - 1)) by (change (2 ^ 63) with 9223372036854775808; lia).
    pose proof (tiles_le w w ltac:(lia) ltac:(lia)) as Hq.
    assert (Z.quot (w + w - 1) w = 1).
    { rewrite Z.quot_div_nonneg by lia. symmetry. apply Z.div_unique with (r := w - 1); lia. }
    lia.
  - rewrite (wrapS64_id (w + t)) by (change (2 ^ 63) with 9223372036854775808; lia).
    rewrite (wrapS64_id (w + t - 1)) by (change (2 ^ 63) with 9223372036854775808; lia).
    pose proof (tiles_le w t ltac:(lia) ltac:(lia)). lia.
Qed.

(* validateParams + convertPixelData imply representability. The size hypotheses are not
   guards of the property: they say "image and tile dimensions that fit the 32-bit SIZ fields,
   fewer than 2^59 pixels" (beyond that the int64 byte count can wrap, see below); k_ncq is a slice
   length and k_prog a uint8. *)
Theorem j2k_accepts_sound : forall k,
  k_w k < 4294967296 -> k_h k < 4294967296 -> k_tw k < 4294967296 -> k_th k < 4294967296 ->
  k_w k * k_h k < 2 ^ 59 -> 0 <= k_ncq k -> 0 <= k_prog k ->
  j2k_accepts k = true -> j2k_representable k = true.
Proof.
  intros k Hw Hh Htw Hth Hwh Hncq Hprog H.
  unfold j2k_accepts in H. split_and H.
  repeat match goal with
  | Hx : negb (_ || _ || negb _) = true |- _ => apply neg_or3 in Hx; destruct Hx as [? [? ?]]
  end.
  assert (Ecw : pow2_4_1024 (k_cbw k) = true) by assumption.
  assert (Ech : pow2_4_1024 (k_cbh k) = true) by assumption.
  assert (Hqb : k_lossless k || (0 <? k_ncq k) || ((1 <=? k_quality k) && (k_quality k <=? 100)) = true).
  { match goal with Hq : negb (negb (k_lossless k) && _ && _) = true |- _ => revert Hq end.
    destruct (k_lossless k); [reflexivity|]. cbn [negb andb orb].
    destruct (Z.eqb_spec (k_ncq k) 0) as [E0|N0]; cbn [negb andb orb].
    - intros Hq. destruct (Z.ltb_spec 0 (k_ncq k)); [lia|]. cbn [orb].
      destruct (Z.ltb_spec (k_quality k) 1); destruct (Z.ltb_spec 100 (k_quality k));
        cbn in Hq; try discriminate Hq.
      apply andb_true_intro; split; apply Z.leb_le; lia.
    - intros _. destruct (Z.ltb_spec 0 (k_ncq k)); [reflexivity | lia]. }
  match goal with Hq : negb (negb (k_lossless k) && _ && _) = true |- _ => clear Hq end.
  (* code-block sizes are among 4..1024, so their int64 product is exact *)
  assert (Hcbw : 4 <= k_cbw k <= 1024).
  { unfold pow2_4_1024 in Ecw. repeat (apply Bool.orb_true_iff in Ecw; destruct Ecw as [Ecw|Ecw]);
      apply Z.eqb_eq in Ecw; lia. }
  assert (Hcbh : 4 <= k_cbh k <= 1024).
  { unfold pow2_4_1024 in Ech. repeat (apply Bool.orb_true_iff in Ech; destruct Ech as [Ech|Ech]);
      apply Z.eqb_eq in Ech; lia. }
  rewrite (i64mul_exact (k_cbw k) (k_cbh k)) in * by (change (2 ^ 63) with 9223372036854775808; nia).
  (* the tile-count guard, kept aside while the linear guards are destructed *)
  match goal with Ht : (if (0 <? k_tw k) || (0 <? k_th k) then _ else true) = true |- _ =>
    rename Ht into Htiles end.
  revert Htiles Hqb. bool_hyps. intros Htiles Hqb.
  pose proof (bps_bound (k_p k) ltac:(lia)) as Hb.
  change (2 ^ 59) with 576460752303423488 in Hwh.
  assert (P1 : 0 <= k_w k * k_h k) by nia.
  assert (P2 : 0 <= k_w k * k_h k * k_c k <= 2305843009213693952) by nia.
  assert (P3 : 0 <= k_w k * k_h k * k_c k * bytes_per_sample (k_p k) <= 4611686018427387904) by nia.
  rewrite (i64mul_exact (k_w k) (k_h k)) in * by (change (2 ^ 63) with 9223372036854775808; lia).
  rewrite (i64mul_exact (k_w k * k_h k) (k_c k)) in * by (change (2 ^ 63) with 9223372036854775808; lia).
  rewrite (i64mul_exact (k_w k * k_h k * k_c k) _) in * by (change (2 ^ 63) with 9223372036854775808; lia).
  destruct (go_tiles_eq (k_w k) (k_tw k) ltac:(lia) ltac:(lia)) as [Gx Bx].
  destruct (go_tiles_eq (k_h k) (k_th k) ltac:(lia) ltac:(lia)) as [Gy By].
  assert (Hti : tiles_along (k_w k) (k_tw k) * tiles_along (k_h k) (k_th k) <= 65535).
  { destruct ((0 <? k_tw k) || (0 <? k_th k)) eqn:Et.
    - rewrite Gx, Gy in Htiles.
      rewrite i64mul_exact in Htiles by (change (2 ^ 63) with 9223372036854775808; nia).
      destruct (Z.ltb_spec 65535 (tiles_along (k_w k) (k_tw k) * tiles_along (k_h k) (k_th k)));
        [discriminate Htiles | lia].
    - apply Bool.orb_false_iff in Et. destruct Et as [E1 E2].
      apply Z.ltb_ge in E1. apply Z.ltb_ge in E2.
      assert (k_tw k = 0) by lia. assert (k_th k = 0) by lia.
      unfold tiles_along. replace (k_tw k) with 0 by lia. replace (k_th k) with 0 by lia. cbn. lia. }
  unfold j2k_representable. rewrite Ecw, Ech, Hqb.
  repeat (apply andb_true_intro; split); try reflexivity;
    try (apply Z.leb_le; lia); try (apply Z.ltb_lt; lia).
Qed.

(* No upper bound on Width/Height: 2^32 x 2^32 with an empty buffer passes every guard (the
   int64 pixel count wraps to 0) although SIZ cannot hold the size. On the implementation the
   call panics (slice bounds out of range). Outside the property's quantifier (its dimension
   values stop at 2^16+1); reported to the integrator as a remaining observation. *)
Theorem j2k_accepts_beyond_uint32_refuted :
  exists k, 0 <= k_len k /\ j2k_accepts k = true /\ j2k_representable k = false /\ k_w k = 2 ^ 32.
Proof.
  exists {| k_len := 0; k_w := 4294967296; k_h := 4294967296; k_c := 1; k_p := 8; k_levels := 0;
            k_cbw := 64; k_cbh := 64; k_layers := 1; k_prog := 0; k_tw := 0; k_th := 0;
            k_quality := 80; k_lossless := true; k_ncq := 0 |}.
  vm_compute. repeat split; discriminate || reflexivity.
Qed.

(* ================= RLE ================= *)

Lemma rle_bytes_allocated_eq : forall ba, 1 <= ba <= 65535 ->
  rle_bytes_allocated ba = Z.quot (ba + 7) 8 /\ 1 <= rle_bytes_allocated ba <= 8192.
Proof.
  intros ba Hb. unfold rle_bytes_allocated, wrapU. change (2 ^ 16) with 65536.
  rewrite (Z.mod_small (ba - 1)) by lia.
  assert (H0 : 0 <= (ba - 1) / 8 < 8192) by (split; [apply Z.div_pos; lia | apply Z.div_lt_upper_bound; lia]).
  rewrite Z.mod_small by lia. rewrite Z.quot_div_nonneg by lia.
  replace (ba + 7) with (ba - 1 + 1 * 8) by ring. rewrite Z.div_add by lia. lia.
Qed.

(* the segment loop never panics when there are at most 15 segments *)
Lemma rle_segments_no_panic : forall fuel s nseg b pc len pl,
  nseg <= 15 -> rle_segments fuel s nseg b pc len pl <> Panic.
Proof.
  induction fuel as [|f IH]; intros s nseg b pc len pl Hn; cbn [rle_segments]; [discriminate|].
  destruct (Z.leb_spec nseg s); [discriminate|].
  destruct (Z.leb_spec 15 s); [lia|].
  match goal with |- context [if ?c then Err else _] => destruct c end; [discriminate|].
  apply IH; exact Hn.
Qed.

(* when the loop ends Ok, no visited segment had a read position beyond the buffer *)
Lemma rle_segments_ok_inv : forall fuel s nseg b pc len pl,
  rle_segments fuel s nseg b pc len pl = Ok tt ->
  forall s', s <= s' < nseg ->
    (0 <? pc) && (len <=? (if pl =? 0 then Z.quot s' b * b else Z.quot s' b * b * pc)
                          + b - Z.rem s' b - 1 + (pc - 1) * (if pl =? 0 then nseg else b)) = false.
Proof.
  induction fuel as [|f IH]; intros s nseg b pc len pl H s' Hs; cbn [rle_segments] in H; [discriminate|].
  destruct (Z.leb_spec nseg s); [lia|].
  destruct (Z.leb_spec 15 s); [discriminate|].
  match type of H with (if ?c then Err else _) = _ => destruct c eqn:Ec end; [discriminate|].
  destruct (Z.eq_dec s' s) as [->|Hne].
  - exact Ec.
  - apply (IH _ _ _ _ _ _ H). lia.
Qed.

Theorem rle_never_panics : forall r, rle_outcome r <> Panic.
Proof.
  intros r. unfold rle_outcome.
  destruct (r_len r =? 0); [discriminate|].
  destruct ((r_w r =? 0) || (r_h r =? 0)); [discriminate|].
  destruct (r_ba r =? 0); [discriminate|].
  destruct (Z.ltb_spec (rle_bytes_allocated (r_ba r) * r_spp r) 1); [discriminate|].
  destruct (Z.ltb_spec 15 (rle_bytes_allocated (r_ba r) * r_spp r)); cbn [orb]; [discriminate|].
  apply rle_segments_no_panic. lia.
Qed.

(* encodeFrame accepts only frames Annex G can represent, for every FrameInfo (uint16 fields) *)
Theorem rle_accepts_sound : forall r,
  0 <= r_w r <= 65535 -> 0 <= r_h r <= 65535 -> 0 <= r_ba r <= 65535 -> 0 <= r_spp r <= 65535 ->
  rle_accepts r = true -> rle_representable r = true.
Proof.
  intros r Hw Hh Hba Hspp H. unfold rle_accepts in H.
  destruct (rle_outcome r) eqn:E; try discriminate H. clear H.
  unfold rle_outcome in E.
  destruct (Z.eqb_spec (r_len r) 0); [discriminate|].
  destruct (Z.eqb_spec (r_w r) 0); [discriminate|].
  destruct (Z.eqb_spec (r_h r) 0); [discriminate|]. cbn [orb] in E.
  destruct (Z.eqb_spec (r_ba r) 0); [discriminate|].
  destruct (rle_bytes_allocated_eq (r_ba r) ltac:(lia)) as [Eb Bb].
  set (b := rle_bytes_allocated (r_ba r)) in *.
  destruct (Z.ltb_spec (b * r_spp r) 1); [discriminate|].
  destruct (Z.ltb_spec 15 (b * r_spp r)); [discriminate|]. cbn [orb] in E.
  destruct a.
  assert (Hs1 : 1 <= r_spp r) by nia.
  pose proof (rle_segments_ok_inv _ _ _ _ _ _ _ E ((r_spp r - 1) * b) ltac:(nia)) as Hi.
  rewrite Z.quot_mul in Hi by lia. rewrite Z.rem_mul in Hi by lia.
  assert (Hpc : 1 <= r_w r * r_h r) by nia.
  destruct (Z.ltb_spec 0 (r_w r * r_h r)); [|lia]. cbn [andb] in Hi.
  apply Z.leb_gt in Hi.
  assert (Hneed : r_w r * r_h r * r_spp r * b <= r_len r).
  { destruct (r_planar r =? 0); nia. }
  unfold rle_representable. rewrite <- Eb.
  repeat (apply andb_true_intro; split); apply Z.leb_le; try lia.
Qed.

(* ================= registry codecs ================= *)

Definition uint16_fields (c : cargs) : Prop :=
  0 <= c_w c <= 65535 /\ 0 <= c_h c <= 65535 /\ 0 <= c_spp c <= 65535 /\
  0 <= c_bs c <= 65535 /\ 0 <= c_ba c <= 65535.

Theorem codec_baseline_sound : forall c,
  codec_baseline_accepts c = true ->
  baseline_representable (eargs_of c 8 (norm_param 1 100 90 90 false c)) = true.
Proof.
  intros c H. unfold codec_baseline_accepts in H. split_and H.
  apply baseline_accepts_sound. exact H0.
Qed.

Theorem codec_extended_sound : forall c,
  codec_extended_accepts c = true ->
  extended_representable (eargs_of c (if (0 <? c_bs c) && (c_bs c <=? 8) then 8 else 12)
                                     (norm_param 1 100 90 90 false c)) = true.
Proof.
  intros c H. unfold codec_extended_accepts in H. split_and H.
  apply extended_accepts_sound. exact H0.
Qed.

(* the consistency guard of 6841553: accepted FrameInfo has 1 <= BitsStored <= BitsAllocated *)
Theorem codec_bits_consistent : forall c,
  (codec_baseline_accepts c = true \/ codec_extended_accepts c = true \/ codec_htj2k_accepts c = true) ->
  c_bs c <> 0 /\ c_bs c <= c_ba c.
Proof.
  intros c [H | [H | H]];
    [unfold codec_baseline_accepts in H | unfold codec_extended_accepts in H | unfold codec_htj2k_accepts in H];
    split_and H;
    repeat match goal with
    | Hx : negb ((c_bs c =? 0) || (c_ba c <? c_bs c)) = true |- _ =>
      destruct (Z.eqb_spec (c_bs c) 0); destruct (Z.ltb_spec (c_ba c) (c_bs c)); cbn in Hx;
        try discriminate Hx; split; lia
    end.
Qed.

Theorem codec_lossless57_sound : forall c,
  codec_lossless57_accepts c = true -> lossless_representable (eargs_of c (c_bs c) 1) = true.
Proof.
  intros c H. unfold codec_lossless57_accepts in H. split_and H.
  apply lossless_accepts_sound. exact H0.
Qed.

Theorem codec_sv1_sound : forall c,
  codec_sv1_accepts c = true -> sv1_representable (eargs_of c (c_bs c) 0) = true.
Proof.
  intros c H. unfold codec_sv1_accepts in H. split_and H.
  apply sv1_accepts_sound. exact H0.
Qed.

Theorem codec_jls_sound : forall c,
  codec_jls_accepts c = true -> jls_representable (eargs_of c (c_bs c) 0) = true.
Proof.
  intros c H. unfold codec_jls_accepts in H. split_and H.
  apply jls_accepts_sound. exact H0.
Qed.

(* KNOWN FINDING FR-3 at the registry: the codec default NEAR = 3 with BitsStored = 2
   (MAXVAL 3, NEAR <= 1); geometry and frame length are fine. *)
Theorem codec_jlsnear_refuted :
  exists c, uint16_fields c /\ codec_jlsnear_accepts c = true /\
            jlsnear_representable (eargs_of c (c_bs c) (norm_param 0 255 3 3 false c)) = false /\
            jls_representable (eargs_of c (c_bs c) 0) = true /\ c_bs c = 2.
Proof.
  exists {| c_nil_old := false; c_nil_new := false; c_nil_fi := false; c_w := 5; c_h := 3; c_spp := 1;
            c_bs := 2; c_ba := 8; c_planar := 0; c_nframes := 1; c_flen := 15; c_pkind := 0; c_param := 0;
            c_param_int := false |}.
  unfold uint16_fields. vm_compute. repeat split; discriminate.
Qed.

Theorem codec_jlsnear_partial : forall c,
  norm_param 0 255 3 3 false c <= near_max (c_bs c) ->
  codec_jlsnear_accepts c = true ->
  jlsnear_representable (eargs_of c (c_bs c) (norm_param 0 255 3 3 false c)) = true.
Proof.
  intros c Hn H. unfold codec_jlsnear_accepts in H. split_and H.
  apply jlsnear_accepts_partial; [exact Hn | exact H0].
Qed.

Definition j2k_of_codec (c : cargs) (p prog : Z) : j2kargs :=
  {| k_len := c_flen c; k_w := c_w c; k_h := c_h c; k_c := c_spp c; k_p := p;
     k_levels := 5; k_cbw := 64; k_cbh := 64; k_layers := 1; k_prog := prog;
     k_tw := 0; k_th := 0; k_quality := 80; k_lossless := true; k_ncq := 0 |}.

Lemma j2k_of_codec_sound : forall c p prog, uint16_fields c -> 0 <= prog ->
  j2k_accepts (j2k_of_codec c p prog) = true -> j2k_representable (j2k_of_codec c p prog) = true.
Proof.
  intros c p prog [Hw [Hh _]] Hp H.
  apply j2k_accepts_sound; cbn [j2k_of_codec k_w k_h k_tw k_th k_ncq k_prog]; try lia; try exact H.
  change (2 ^ 59) with 576460752303423488. nia.
Qed.

Theorem codec_j2k_sound : forall c, uint16_fields c ->
  codec_j2k_accepts c = true -> j2k_representable (j2k_of_codec c (c_bs c) 0) = true.
Proof.
  intros c Hu H. unfold codec_j2k_accepts in H. split_and H.
  apply j2k_of_codec_sound; [exact Hu | lia | exact H0].
Qed.

Theorem codec_htj2k_sound : forall c, uint16_fields c ->
  codec_htj2k_accepts c = true -> j2k_representable (j2k_of_codec c (c_ba c) 2) = true.
Proof.
  intros c Hu H. unfold codec_htj2k_accepts in H. split_and H.
  apply j2k_of_codec_sound; [exact Hu | lia | exact H0].
Qed.

(* RLE at the registry: never panics; with at least one frame, acceptance implies an Annex G
   representable geometry and a complete frame *)
Theorem codec_rle_sound : forall c, uint16_fields c ->
  codec_rle_outcome c <> Panic /\
  (codec_rle_outcome c = Ok tt -> 0 < c_nframes c ->
   rle_representable {| r_len := c_flen c; r_w := c_w c; r_h := c_h c; r_ba := c_ba c;
                        r_spp := c_spp c; r_planar := c_planar c |} = true).
Proof.
  intros c [Hw [Hh [Hs [_ Hb]]]]. unfold codec_rle_outcome. split.
  - destruct (c_nil_old c || c_nil_new c); [discriminate|].
    destruct (c_nframes c <=? 0); [discriminate|].
    destruct (c_flen c =? 0); [discriminate|].
    destruct (c_nil_fi c); [discriminate|]. apply rle_never_panics.
  - intros H Hn.
    destruct (c_nil_old c || c_nil_new c); [discriminate|].
    destruct (Z.leb_spec (c_nframes c) 0); [lia|].
    destruct (c_flen c =? 0); [discriminate|].
    destruct (c_nil_fi c); [discriminate|].
    apply rle_accepts_sound; cbn [r_w r_h r_ba r_spp]; try assumption.
    unfold rle_accepts. rewrite H. reflexivity.
Qed.

(* KNOWN FINDING FR-7. Validate() never rejects: whatever integer the parameter object
   carries, the value used afterwards is inside the documented range (out-of-range values are
   replaced by the default without an error). *)
Theorem norm_param_in_range : forall lo hi d cd any c,
  lo <= d <= hi -> in_range lo hi (norm_param lo hi d cd any c) = true.
Proof.
  intros lo hi d cd any c Hd. unfold norm_param.
  match goal with |- context [if in_range lo hi ?v then _ else _] => destruct (in_range lo hi v) eqn:E end.
  - exact E.
  - unfold in_range. apply andb_true_intro; split; apply Z.leb_le; lia.
Qed.

Theorem validate_normalises_witness :
  let c := {| c_nil_old := false; c_nil_new := false; c_nil_fi := false; c_w := 5; c_h := 3; c_spp := 1;
              c_bs := 8; c_ba := 8; c_planar := 0; c_nframes := 1; c_flen := 15; c_pkind := 1;
              c_param := 101; c_param_int := false |} in
  codec_baseline_accepts c = true /\ c_param c = 101 /\ norm_param 1 100 90 90 false c = 90.
Proof. vm_compute. repeat split; reflexivity. Qed.
