(* EXTRACT *)
(* C16, JPEG (ITU-T T.81) well-formedness walker, written from T.81 Annex B (not from the Go
   writers): B.1.1 (markers, marker segments, entropy-coded segments, byte stuffing B.1.1.5),
   B.2.1 (high-level syntax: SOI, frame, EOI), B.2.2 (frame header, Table B.2), B.2.3 (scan
   header, Table B.3), B.2.4.1 (DQT, Table B.4), B.2.4.2 (DHT, Table B.5), B.2.4.4 (DRI),
   B.2.4.5 (COM), B.2.4.6 (APPn), and Annex C for "the codes shall be generated such that the
   all-1-bits code word of any length is reserved" (checked as a Kraft sum).

   Supported processes: SOF0 (baseline), SOF1 (extended sequential Huffman), SOF3 (lossless
   Huffman), non-hierarchical, one frame, one or several scans. Everything else (progressive,
   arithmetic, DNL, DHP/EXP, fill bytes) is reported as RBadMarker / REcsFill: the walker is
   strict in the direction "what it accepts is well formed".

   jpeg_walk returns the declared header or the first violated rule with its byte offset. *)
From V Require Import Common.Base Framing.FrmBase.

(* component of a frame header: (Ci, Hi, Vi, Tqi) *)
Record jframe : Type := {
  jf_sof : Z;                      (* 0, 1 or 3 *)
  jf_p : Z; jf_y : Z; jf_x : Z; jf_nf : Z;
  jf_comps : list (Z * Z * Z * Z)
}.

(* scan header: components (Csj, Tdj, Taj), Ss, Se, Ah, Al *)
Record jscan : Type := {
  sc_comps : list (Z * Z * Z);
  sc_ss : Z; sc_se : Z; sc_ah : Z; sc_al : Z
}.

Record jpeg_header : Type := {
  jh_frame : jframe;
  jh_scans : list jscan;           (* in stream order *)
  jh_ri : Z;                       (* last restart interval defined, 0 = none *)
  jh_napp : Z                      (* number of APPn/COM segments seen *)
}.

(* walker state *)
Record jstate : Type := {
  js_qt : list (Z * Z);            (* defined quantisation tables (Tq, Pq), latest first *)
  js_dc : list Z;                  (* defined DC / lossless Huffman table ids *)
  js_ac : list Z;
  js_ri : Z;
  js_frame : option jframe;
  js_scans : list jscan;           (* reversed *)
  js_done : list Z;                (* component ids already coded by a scan *)
  js_napp : Z
}.

Definition js_init : jstate :=
  {| js_qt := []; js_dc := []; js_ac := []; js_ri := 0; js_frame := None; js_scans := [];
     js_done := []; js_napp := 0 |}.

(* ---------- frame header (B.2.2) ---------- *)

Fixpoint parse_sof_comps (l : list Z) : option (list (Z * Z * Z * Z)) :=
  match l with
  | [] => Some []
  | c :: hv :: tq :: r =>
    match parse_sof_comps r with
    | Some t => Some ((c, hv / 16, hv mod 16, tq) :: t)
    | None => None
    end
  | _ => None
  end.

Definition comp_id (c : Z * Z * Z * Z) : Z := let '(i, _, _, _) := c in i.

Definition sof_comp_ok (lossless : bool) (c : Z * Z * Z * Z) : bool :=
  let '(_, h, v, tq) := c in
  (1 <=? h) && (h <=? 4) && (1 <=? v) && (v <=? 4) &&
  (if lossless then tq =? 0 else tq <=? 3).

Definition sof_precision_ok (sof p : Z) : bool :=
  if sof =? 0 then p =? 8
  else if sof =? 1 then (p =? 8) || (p =? 12)
  else (2 <=? p) && (p <=? 16).

(* payload of SOFn -> frame. sof = marker code - 0xC0 *)
Definition parse_sof (sof : Z) (p : list Z) : wres jframe :=
  match p with
  | pr :: yh :: yl :: xh :: xl :: nf :: cs =>
    if negb (zlen cs =? 3 * nf) then WBad RSofLen 0
    else if negb (sof_precision_ok sof pr) then WBad RSofPrecision 0
    else if (be16 yh yl =? 0) || (be16 xh xl =? 0) then WBad RSofDims 0
    else if nf =? 0 then WBad RSofNf 0
    else match parse_sof_comps cs with
         | None => WBad RSofLen 0
         | Some comps =>
           if forallb (sof_comp_ok (sof =? 3)) comps && nodup_z (map comp_id comps)
           then WOk {| jf_sof := sof; jf_p := pr; jf_y := be16 yh yl; jf_x := be16 xh xl;
                       jf_nf := nf; jf_comps := comps |}
           else WBad RSofComp 0
         end
  | _ => WBad RSofLen 0
  end.

(* ---------- DQT (B.2.4.1) ---------- *)

Fixpoint all_nonzero8 (l : list Z) : bool :=
  match l with [] => true | x :: r => negb (x =? 0) && all_nonzero8 r end.
Fixpoint all_nonzero16 (l : list Z) : bool :=
  match l with
  | a :: b :: r => negb (be16 a b =? 0) && all_nonzero16 r
  | _ => true
  end.

Fixpoint dqt_tables (fuel : nat) (p : list Z) (acc : list (Z * Z)) : wres (list (Z * Z)) :=
  match p with
  | [] => WOk acc
  | pt :: r =>
    match fuel with
    | O => WBad RFuel 0
    | S f =>
      let pq := pt / 16 in
      let tq := pt mod 16 in
      if (pq <=? 1) && (tq <=? 3) then
        match take (if pq =? 0 then 64%nat else 128%nat) r with
        | None => WBad RDqtSyntax 0
        | Some (es, r') =>
          if (if pq =? 0 then all_nonzero8 es else all_nonzero16 es)
          then dqt_tables f r' ((tq, pq) :: acc)
          else WBad RDqtZero 0
        end
      else WBad RDqtSyntax 0
    end
  end.

Definition parse_dqt (p : list Z) (acc : list (Z * Z)) : wres (list (Z * Z)) :=
  match p with
  | [] => WBad RDqtSyntax 0
  | _ => dqt_tables (length p) p acc
  end.

(* ---------- DHT (B.2.4.2, Annex C) ---------- *)

Fixpoint kraft (bits : list Z) (w : Z) : Z :=
  match bits with [] => 0 | b :: r => b * w + kraft r (w / 2) end.
(* 16 lengths; code words of length i weigh 2^(16-i); the all-ones word must stay free *)
Definition kraft_ok (bits : list Z) : bool := kraft bits 32768 <=? 65535.

Fixpoint dht_tables (fuel : nat) (p : list Z) (dc ac : list Z) : wres (list Z * list Z) :=
  match p with
  | [] => WOk (dc, ac)
  | tcth :: r =>
    match fuel with
    | O => WBad RFuel 0
    | S f =>
      let tc := tcth / 16 in
      let th := tcth mod 16 in
      if (tc <=? 1) && (th <=? 3) then
        match take 16%nat r with
        | None => WBad RDhtSyntax 0
        | Some (bits, r1) =>
          if negb (kraft_ok bits) then WBad RDhtKraft 0
          else match take (Z.to_nat (zsum bits)) r1 with
               | None => WBad RDhtSyntax 0
               | Some (vals, r2) =>
                 if negb (nodup_z vals) then WBad RDhtSyntax 0
                 else if tc =? 0 then dht_tables f r2 (th :: dc) ac
                 else dht_tables f r2 dc (th :: ac)
               end
        end
      else WBad RDhtSyntax 0
    end
  end.

Definition parse_dht (p : list Z) (dc ac : list Z) : wres (list Z * list Z) :=
  match p with
  | [] => WBad RDhtSyntax 0
  | _ => dht_tables (length p) p dc ac
  end.

(* ---------- scan header (B.2.3) ---------- *)

Fixpoint parse_sos_comps (n : nat) (l : list Z) : option (list (Z * Z * Z) * list Z) :=
  match n with
  | O => Some ([], l)
  | S k =>
    match l with
    | cs :: t :: r =>
      match parse_sos_comps k r with
      | Some (a, b) => Some ((cs, t / 16, t mod 16) :: a, b)
      | None => None
      end
    | _ => None
    end
  end.

Definition parse_sos (p : list Z) : wres jscan :=
  match p with
  | ns :: r =>
    if negb (zlen r =? 2 * ns + 3) then WBad RSosLen 0
    else match parse_sos_comps (Z.to_nat ns) r with
         | Some (comps, [ss; se; ahal]) =>
           WOk {| sc_comps := comps; sc_ss := ss; sc_se := se; sc_ah := ahal / 16;
                  sc_al := ahal mod 16 |}
         | _ => WBad RSosLen 0
         end
  | [] => WBad RSosLen 0
  end.

Definition scomp_id (c : Z * Z * Z) : Z := let '(i, _, _) := c in i.

(* ids is a subsequence of fr (scan components in frame order, B.2.3) *)
Fixpoint in_order (ids : list Z) (fr : list Z) : bool :=
  match ids with
  | [] => true
  | i :: r =>
    (fix drop (fr : list Z) : bool :=
       match fr with
       | [] => false
       | x :: fr' => if x =? i then in_order r fr' else drop fr'
       end) fr
  end.

Fixpoint find_comp (i : Z) (l : list (Z * Z * Z * Z)) : option (Z * Z * Z * Z) :=
  match l with
  | [] => None
  | c :: r => if comp_id c =? i then Some c else find_comp i r
  end.

Fixpoint find_qt (tq : Z) (l : list (Z * Z)) : option Z :=
  match l with
  | [] => None
  | (t, pq) :: r => if t =? tq then Some pq else find_qt tq r
  end.

(* Huffman table selectors of one scan component *)
Definition sos_tables_ok (st : jstate) (sof : Z) (c : Z * Z * Z) : bool :=
  let '(_, td, ta) := c in
  if sof =? 3 then (td <=? 3) && (ta =? 0) && zmem td (js_dc st)
  else (td <=? (if sof =? 0 then 1 else 3)) && (ta <=? (if sof =? 0 then 1 else 3))
       && zmem td (js_dc st) && zmem ta (js_ac st).

(* quantisation table of one scan component is defined; 8-bit frames need Pq = 0 *)
Definition sos_quant_ok (st : jstate) (f : jframe) (c : Z * Z * Z) : bool :=
  match find_comp (scomp_id c) (jf_comps f) with
  | None => false
  | Some (_, _, _, tq) =>
    match find_qt tq (js_qt st) with
    | None => false
    | Some pq => if jf_p f =? 8 then pq =? 0 else true
    end
  end.

Definition sos_mcu (f : jframe) (c : Z * Z * Z) : Z :=
  match find_comp (scomp_id c) (jf_comps f) with
  | Some (_, h, v, _) => h * v
  | None => 0
  end.

Definition sos_params_ok (sof : Z) (s : jscan) : bool :=
  if sof =? 3 then (1 <=? sc_ss s) && (sc_ss s <=? 7) && (sc_se s =? 0) && (sc_ah s =? 0)
  else (sc_ss s =? 0) && (sc_se s =? 63) && (sc_ah s =? 0) && (sc_al s =? 0).

Definition check_sos (st : jstate) (f : jframe) (s : jscan) : wres unit :=
  let ids := map scomp_id (sc_comps s) in
  let ns := zlen (sc_comps s) in
  if negb ((1 <=? ns) && (ns <=? 4) && (ns <=? jf_nf f)) then WBad RSosNs 0
  else if negb (in_order ids (map comp_id (jf_comps f))
                && forallb (fun i => negb (zmem i (js_done st))) ids) then WBad RSosComp 0
  else if negb (forallb (sos_tables_ok st (jf_sof f)) (sc_comps s)) then WBad RSosTable 0
  else if negb ((jf_sof f =? 3) || forallb (sos_quant_ok st f) (sc_comps s)) then WBad RSosQuant 0
  else if negb (sos_params_ok (jf_sof f) s) then WBad RSosParams 0
  else if (1 <? ns) && (10 <? zsum (map (sos_mcu f) (sc_comps s))) then WBad RSosMcu 0
  else WOk tt.

(* ---------- entropy-coded data (B.1.1.5, B.2.1 / E.1.4 restart) ---------- *)

(* Walks entropy-coded data: FF 00 is a stuffed FF; FF Dn is RSTn and must be the expected
   one (n = 0,1,..7,0,..) and restart must be enabled; FF FF is rejected (fill bytes not
   supported); FF followed by anything else ends the data: returns the list starting AT that
   FF and its offset. *)
Fixpoint ecs_scan (rst_ok : bool) (l : list Z) (pos expect : Z) {struct l}
  : wres (list Z * Z) :=
  match l with
  | [] => WBad REcsEof pos
  | b :: r =>
    if b =? 255 then
      match r with
      | [] => WBad REcsEof pos
      | c :: r' =>
        if c =? 0 then ecs_scan rst_ok r' (pos + 2) expect
        else if (208 <=? c) && (c <=? 215) then
          if rst_ok && (c =? 208 + expect)
          then ecs_scan rst_ok r' (pos + 2) ((expect + 1) mod 8)
          else WBad REcsMarker pos
        else if c =? 255 then WBad REcsFill pos
        else WOk (l, pos)
      end
    else ecs_scan rst_ok r (pos + 1) expect
  end.

(* ---------- the walker ---------- *)

Definition wat {A} (pos : Z) (o : wres A) : wres A :=
  match o with WOk a => WOk a | WBad r _ => WBad r pos end.

Definition st_with_frame (st : jstate) (f : jframe) : jstate :=
  {| js_qt := js_qt st; js_dc := js_dc st; js_ac := js_ac st; js_ri := js_ri st;
     js_frame := Some f; js_scans := js_scans st; js_done := js_done st; js_napp := js_napp st |}.
Definition st_with_qt (st : jstate) (q : list (Z * Z)) : jstate :=
  {| js_qt := q; js_dc := js_dc st; js_ac := js_ac st; js_ri := js_ri st;
     js_frame := js_frame st; js_scans := js_scans st; js_done := js_done st; js_napp := js_napp st |}.
Definition st_with_ht (st : jstate) (dc ac : list Z) : jstate :=
  {| js_qt := js_qt st; js_dc := dc; js_ac := ac; js_ri := js_ri st;
     js_frame := js_frame st; js_scans := js_scans st; js_done := js_done st; js_napp := js_napp st |}.
Definition st_with_ri (st : jstate) (ri : Z) : jstate :=
  {| js_qt := js_qt st; js_dc := js_dc st; js_ac := js_ac st; js_ri := ri;
     js_frame := js_frame st; js_scans := js_scans st; js_done := js_done st; js_napp := js_napp st |}.
Definition st_with_scan (st : jstate) (s : jscan) : jstate :=
  {| js_qt := js_qt st; js_dc := js_dc st; js_ac := js_ac st; js_ri := js_ri st;
     js_frame := js_frame st; js_scans := s :: js_scans st;
     js_done := map scomp_id (sc_comps s) ++ js_done st; js_napp := js_napp st |}.
Definition st_with_app (st : jstate) : jstate :=
  {| js_qt := js_qt st; js_dc := js_dc st; js_ac := js_ac st; js_ri := js_ri st;
     js_frame := js_frame st; js_scans := js_scans st; js_done := js_done st;
     js_napp := js_napp st + 1 |}.

Definition finish (st : jstate) (pos : Z) (rest : list Z) : wres jpeg_header :=
  match js_frame st with
  | None => WBad RNoFrame pos
  | Some f =>
    match js_scans st with
    | [] => WBad RNoScan pos
    | _ =>
      if negb (forallb (fun c => zmem (comp_id c) (js_done st)) (jf_comps f)) then WBad RNoScan pos
      else match rest with
           | [] => WOk {| jh_frame := f; jh_scans := rev (js_scans st); jh_ri := js_ri st;
                          jh_napp := js_napp st |}
           | _ => WBad RTrailing (pos + 2)
           end
    end
  end.

(* l is positioned on a marker (after SOI). fuel >= number of markers. *)
Fixpoint jpeg_loop (fuel : nat) (st : jstate) (l : list Z) (pos : Z) : wres jpeg_header :=
  match fuel with
  | O => WBad RFuel pos
  | S fu =>
    match l with
    | a :: m :: r =>
      if negb (a =? 255) then WBad RExpectedMarker pos
      else if m =? 217 then finish st pos r
      else if (m =? 192) || (m =? 193) || (m =? 195) || (m =? 196) || (m =? 218) || (m =? 219)
              || (m =? 221) || ((224 <=? m) && (m <=? 239)) || (m =? 254) then
        match read_segment l with
        | SegBad rs rel => WBad rs (pos + rel)
        | SegOk _ p rest =>
          let pos' := pos + 4 + zlen p in
          if (m =? 192) || (m =? 193) || (m =? 195) then
            match js_frame st with
            | Some _ => WBad RSofDup pos
            | None =>
              match parse_sof (m - 192) p with
              | WBad rs _ => WBad rs pos
              | WOk f => jpeg_loop fu (st_with_frame st f) rest pos'
              end
            end
          else if m =? 219 then
            match parse_dqt p (js_qt st) with
            | WBad rs _ => WBad rs pos
            | WOk q => jpeg_loop fu (st_with_qt st q) rest pos'
            end
          else if m =? 196 then
            match parse_dht p (js_dc st) (js_ac st) with
            | WBad rs _ => WBad rs pos
            | WOk (dc, ac) => jpeg_loop fu (st_with_ht st dc ac) rest pos'
            end
          else if m =? 221 then
            match p with
            | [hi; lo] => jpeg_loop fu (st_with_ri st (be16 hi lo)) rest pos'
            | _ => WBad RDriSyntax pos
            end
          else if m =? 218 then
            match js_frame st with
            | None => WBad RSosBeforeSof pos
            | Some f =>
              match parse_sos p with
              | WBad rs _ => WBad rs pos
              | WOk s =>
                match check_sos st f s with
                | WBad rs _ => WBad rs pos
                | WOk _ =>
                  match ecs_scan (negb (js_ri st =? 0)) rest pos' 0 with
                  | WBad rs q => WBad rs q
                  | WOk (rest', pos'') => jpeg_loop fu (st_with_scan st s) rest' pos''
                  end
                end
              end
            end
          else (* APPn, COM: any payload *)
            jpeg_loop fu (st_with_app st) rest pos'
        end
      else WBad RBadMarker pos
    | _ => WBad RTruncated pos
    end
  end.

Definition jpeg_walk (l : list Z) : wres jpeg_header :=
  match l with
  | a :: b :: r =>
    if (a =? 255) && (b =? 216) then jpeg_loop (length l) js_init r 2
    else WBad RNoStart 0
  | _ => WBad RNoStart 0
  end.

Definition jpeg_wellformed (l : list Z) : option jpeg_header := wres_opt (jpeg_walk l).
