(* C16 proofs, part 5: a whole frame. The byte string assembled the way jpeg/lossless.Encode
   and lossless14sv1.Encode assemble it (FrmWriters.lossless_frame: SOI, APP0, SOF3, DHT, SOS,
   Huffman-coded scan, EOI) is accepted by the T.81 walker, as exactly one codestream with
   nothing after EOI, and the header the walker returns is the argument tuple - for EVERY
   width/height in 1..65535, precision 2..16, 1 or 3 components, predictor 1..7, every
   (code, length) sequence, and every DHT payload that defines table 0 in T.81 syntax. *)
From V Require Import Common.Base Framing.FrmBase Framing.FrmJpeg Framing.FrmWriters
  Framing.FrmProofsSeg Framing.FrmProofsHuff Framing.FrmProofsHdr.

Lemma loop_unfold : forall fu st l pos a m r, l = a :: m :: r ->
  jpeg_loop (S fu) st l pos =
    if negb (a =? 255) then WBad RExpectedMarker pos
    else if m =? 217 then finish st pos r
    else if (m =? 192) || (m =? 193) || (m =? 195) || (m =? 196) || (m =? 218) || (m =? 219)
            || (m =? 221) || ((224 <=? m) && (m <=? 239)) || (m =? 254) then
      match read_segment l with
      | SegBad rs rel => WBad rs (pos + rel)
      | SegOk _ p rest =>
        let pos' := pos + 4 + zlen p in
        if (m =? 192) || (m =? 193) || (m =? 195) then
          match js_frame st with
          | Some _ => WBad RSofDup pos
          | None =>
            match parse_sof (m - 192) p with
            | WBad rs _ => WBad rs pos
            | WOk f => jpeg_loop fu (st_with_frame st f) rest pos'
            end
          end
        else if m =? 219 then
          match parse_dqt p (js_qt st) with
          | WBad rs _ => WBad rs pos
          | WOk q => jpeg_loop fu (st_with_qt st q) rest pos'
          end
        else if m =? 196 then
          match parse_dht p (js_dc st) (js_ac st) with
          | WBad rs _ => WBad rs pos
          | WOk (dc, ac) => jpeg_loop fu (st_with_ht st dc ac) rest pos'
          end
        else if m =? 221 then
          match p with
          | [hi; lo] => jpeg_loop fu (st_with_ri st (be16 hi lo)) rest pos'
          | _ => WBad RDriSyntax pos
          end
        else if m =? 218 then
          match js_frame st with
          | None => WBad RSosBeforeSof pos
          | Some f =>
            match parse_sos p with
            | WBad rs _ => WBad rs pos
            | WOk s =>
              match check_sos st f s with
              | WBad rs _ => WBad rs pos
              | WOk _ =>
                match ecs_scan (negb (js_ri st =? 0)) rest pos' 0 with
                | WBad rs q => WBad rs q
                | WOk (rest', pos'') => jpeg_loop fu (st_with_scan st s) rest' pos''
                end
              end
            end
          end
        else jpeg_loop fu (st_with_app st) rest pos'
      end
    else WBad RBadMarker pos.
Proof. intros; subst; reflexivity. Qed.

Lemma seg_shape : forall m data rest, 0 <= m < 256 ->
  write_segment (65280 + m) data ++ rest
  = 255 :: m :: (write_u16 (segment_length_field data) ++ data) ++ rest.
Proof.
  intros. unfold write_segment. rewrite write_marker_ff by assumption.
  cbn [app]. rewrite <- app_assoc. reflexivity.
Qed.

(* one step of the walker over a segment written by WriteSegment, per marker class *)
Lemma loop_app0 : forall fu st data rest pos, zlen data + 2 < 65536 ->
  jpeg_loop (S fu) st (write_segment (65280 + 224) data ++ rest) pos
  = jpeg_loop fu (st_with_app st) rest (pos + 4 + zlen data).
Proof.
  intros. erewrite loop_unfold by (apply seg_shape; lia).
  rewrite segment_length by lia. reflexivity.
Qed.

Lemma loop_sof3 : forall fu st data rest pos f, zlen data + 2 < 65536 ->
  js_frame st = None -> parse_sof 3 data = WOk f ->
  jpeg_loop (S fu) st (write_segment (65280 + 195) data ++ rest) pos
  = jpeg_loop fu (st_with_frame st f) rest (pos + 4 + zlen data).
Proof.
  intros fu st data rest pos f Hl Hf Hp. erewrite loop_unfold by (apply seg_shape; lia).
  rewrite segment_length by lia. cbv beta iota zeta.
  change (195 - 192) with 3. rewrite Hf, Hp. reflexivity.
Qed.

Lemma loop_dht : forall fu st data rest pos dc ac, zlen data + 2 < 65536 ->
  parse_dht data (js_dc st) (js_ac st) = WOk (dc, ac) ->
  jpeg_loop (S fu) st (write_segment (65280 + 196) data ++ rest) pos
  = jpeg_loop fu (st_with_ht st dc ac) rest (pos + 4 + zlen data).
Proof.
  intros fu st data rest pos dc ac Hl Hp. erewrite loop_unfold by (apply seg_shape; lia).
  rewrite segment_length by lia. cbv beta iota zeta. rewrite Hp. reflexivity.
Qed.

Lemma loop_sos : forall fu st data rest pos f s rest' pos'', zlen data + 2 < 65536 ->
  js_frame st = Some f -> parse_sos data = WOk s -> check_sos st f s = WOk tt ->
  ecs_scan (negb (js_ri st =? 0)) rest (pos + 4 + zlen data) 0 = WOk (rest', pos'') ->
  jpeg_loop (S fu) st (write_segment (65280 + 218) data ++ rest) pos
  = jpeg_loop fu (st_with_scan st s) rest' pos''.
Proof.
  intros fu st data rest pos f s rest' pos'' Hl Hf Hp Hc He.
  erewrite loop_unfold by (apply seg_shape; lia).
  rewrite segment_length by lia. cbv beta iota zeta. rewrite Hf, Hp, Hc, He. reflexivity.
Qed.

Lemma loop_eoi : forall fu st r pos, jpeg_loop (S fu) st (255 :: 217 :: r) pos = finish st pos r.
Proof. intros. erewrite loop_unfold by reflexivity. reflexivity. Qed.

Definition lossless_scan (nc pred : Z) : jscan :=
  {| sc_comps := if nc =? 1 then [(1, 0, 0)] else [(1, 0, 0); (2, 0, 0); (3, 0, 0)];
     sc_ss := pred; sc_se := 0; sc_ah := 0; sc_al := 0 |}.

Definition lossless_frame_header (p h w nc : Z) : jframe :=
  {| jf_sof := 3; jf_p := p; jf_y := h; jf_x := w; jf_nf := nc; jf_comps := seq_comps nc |}.

Lemma zlen_sof3 : forall p h w nc, nc = 1 \/ nc = 3 -> zlen (lossless_sof3 p h w nc) = 6 + 3 * nc.
Proof. intros p h w nc [-> | ->]; reflexivity. Qed.

Lemma zlen_sos : forall nc pred, nc = 1 \/ nc = 3 -> zlen (lossless_sos nc pred) = 4 + 2 * nc.
Proof. intros nc pred [-> | ->]; reflexivity. Qed.

(* the frame is one well-formed codestream and describes itself *)
Theorem lossless_frame_wellformed : forall p h w nc pred dht ops dc ac,
  dims16 h w -> 2 <= p <= 16 -> nc = 1 \/ nc = 3 -> 1 <= pred <= 7 ->
  zlen dht + 2 < 65536 -> parse_dht dht [] [] = WOk (dc, ac) -> zmem 0 dc = true ->
  jpeg_wellformed (lossless_frame p h w nc pred dht ops)
  = Some {| jh_frame := lossless_frame_header p h w nc; jh_scans := [lossless_scan nc pred];
            jh_ri := 0; jh_napp := 1 |}.
Proof.
  intros p h w nc pred dht ops dc ac Hd Hp Hnc Hpr Hdl Hdht Ht0.
  unfold jpeg_wellformed, jpeg_walk, lossless_frame.
  change (write_marker 65496) with [255; 216]. cbn [app].
  change ((255 =? 255) && (216 =? 216)) with true. cbv iota.
  (* fuel: the list has more than 6 elements *)
  remember (length _) as n eqn:Hn.
  assert (Hfuel : exists k, n = S (S (S (S (S (S k)))))).
  { subst n. cbn [length]. unfold write_segment at 1. rewrite !app_length. cbn [length write_marker write_u16].
    eexists. rewrite <- !plus_n_Sm. reflexivity. }
  destruct Hfuel as [k ->]. clear Hn.
  change 65504 with (65280 + 224). change 65475 with (65280 + 195).
  change 65476 with (65280 + 196). change 65498 with (65280 + 218).
  rewrite loop_app0 by (vm_compute; reflexivity).
  erewrite loop_sof3;
    [ | rewrite zlen_sof3 by assumption; lia | reflexivity
      | apply lossless_header_roundtrip; assumption ].
  erewrite loop_dht; [ | exact Hdl | cbn [st_with_frame st_with_app js_dc js_ac js_init]; exact Hdht ].
  destruct (huff_no_marker ops) as [_ Hecs].
  erewrite loop_sos;
    [ | rewrite zlen_sos by assumption; lia
      | reflexivity
      | apply lossless_sos_roundtrip; [assumption | lia]
      |
      | change (write_marker 65497) with [255; 217]; cbn [st_with_ht st_with_frame st_with_app js_ri js_init];
        change (negb (0 =? 0)) with false; apply Hecs; lia ].
  2:{ (* the scan header is consistent with the frame header and the tables defined *)
      unfold check_sos, lossless_frame_header, seq_comps.
      cbn [st_with_ht st_with_frame st_with_app js_done js_dc js_ac js_init jf_nf jf_comps jf_sof jf_p
           sc_comps sc_ss sc_se sc_ah sc_al].
      destruct Hnc as [-> | ->]; cbn [Z.eqb Pos.eqb map scomp_id comp_id zlen length Z.of_nat
        Pos.of_succ_nat Pos.succ in_order forallb negb andb orb sos_tables_ok sos_params_ok
        sc_ss sc_se sc_ah sc_al js_dc st_with_ht];
        rewrite !Ht0;
        (destruct (Z.leb_spec 1 pred); [|lia]); (destruct (Z.leb_spec pred 7); [|lia]);
        reflexivity. }
  rewrite loop_eoi. unfold finish.
  cbn [st_with_scan st_with_ht st_with_frame st_with_app js_frame js_scans js_done js_ri js_napp js_init
       lossless_frame_header jf_comps].
  unfold seq_comps, lossless_scan.
  destruct Hnc as [-> | ->]; reflexivity.
Qed.

(* nothing may follow the end marker, and a truncated frame is not accepted *)
Theorem lossless_frame_trailing_rejected : forall p h w nc pred dht ops dc ac b,
  dims16 h w -> 2 <= p <= 16 -> nc = 1 \/ nc = 3 -> 1 <= pred <= 7 ->
  zlen dht + 2 < 65536 -> parse_dht dht [] [] = WOk (dc, ac) -> zmem 0 dc = true ->
  jpeg_wellformed (lossless_frame p h w nc pred dht ops ++ [b]) = None.
Proof.
  intros p h w nc pred dht ops dc ac b Hd Hp Hnc Hpr Hdl Hdht Ht0.
  unfold jpeg_wellformed, jpeg_walk, lossless_frame.
  change (write_marker 65496) with [255; 216]. cbn [app].
  change ((255 =? 255) && (216 =? 216)) with true. cbv iota.
  remember (length _) as n eqn:Hn.
  assert (Hfuel : exists k, n = S (S (S (S (S (S k)))))).
  { subst n. cbn [length]. rewrite app_length. unfold write_segment at 1. rewrite !app_length.
    cbn [length write_marker write_u16]. eexists. rewrite <- !plus_n_Sm. reflexivity. }
  destruct Hfuel as [k ->]. clear Hn.
  rewrite <- !app_assoc.
  change 65504 with (65280 + 224). change 65475 with (65280 + 195).
  change 65476 with (65280 + 196). change 65498 with (65280 + 218).
  rewrite loop_app0 by (vm_compute; reflexivity).
  erewrite loop_sof3;
    [ | rewrite zlen_sof3 by assumption; lia | reflexivity
      | apply lossless_header_roundtrip; assumption ].
  erewrite loop_dht; [ | exact Hdl | cbn [st_with_frame st_with_app js_dc js_ac js_init]; exact Hdht ].
  destruct (huff_no_marker ops) as [_ Hecs].
  erewrite loop_sos;
    [ | rewrite zlen_sos by assumption; lia
      | reflexivity
      | apply lossless_sos_roundtrip; [assumption | lia]
      |
      | change (write_marker 65497) with [255; 217]; cbn [app st_with_ht st_with_frame st_with_app js_ri js_init];
        change (negb (0 =? 0)) with false; apply Hecs; lia ].
  2:{ unfold check_sos, lossless_frame_header, seq_comps.
      cbn [st_with_ht st_with_frame st_with_app js_done js_dc js_ac js_init jf_nf jf_comps jf_sof jf_p
           sc_comps sc_ss sc_se sc_ah sc_al].
      destruct Hnc as [-> | ->]; cbn [Z.eqb Pos.eqb map scomp_id comp_id zlen length Z.of_nat
        Pos.of_succ_nat Pos.succ in_order forallb negb andb orb sos_tables_ok sos_params_ok
        sc_ss sc_se sc_ah sc_al js_dc st_with_ht];
        rewrite !Ht0;
        (destruct (Z.leb_spec 1 pred); [|lia]); (destruct (Z.leb_spec pred 7); [|lia]);
        reflexivity. }
  rewrite loop_eoi. unfold finish.
  cbn [st_with_scan st_with_ht st_with_frame st_with_app js_frame js_scans js_done js_ri js_napp js_init
       lossless_frame_header jf_comps].
  unfold seq_comps, lossless_scan.
  destruct Hnc as [-> | ->]; reflexivity.
Qed.
