(* C16 proofs, part 3: the packet-header bit writer (jpeg2000/t2/packet_header_bitio.go
   bioWriter) never produces a marker code: in its output every FF is followed by a byte
   < 0x80, and flush never leaves a trailing FF. Holds for ANY bit sequence. *)
From V Require Import Common.Base Framing.FrmBase Framing.FrmWriters.

(* every FF is followed by a byte < 0x80; in particular the string does not end with FF *)
Fixpoint ff_lt80 (l : list Z) : bool :=
  match l with
  | [] => true
  | b :: r =>
    (if b =? 255 then match r with c :: _ => c <? 128 | [] => false end else true) && ff_lt80 r
  end.

(* ---------- bit arithmetic ---------- *)

Lemma lor_lt_pow2 : forall a b n, 0 <= n -> 0 <= a < 2 ^ n -> 0 <= b < 2 ^ n ->
  0 <= Z.lor a b < 2 ^ n.
Proof.
  intros a b n Hn Ha Hb. split; [apply Z.lor_nonneg; lia|].
  destruct (Z.eq_dec a 0) as [->|Ha0]; [rewrite Z.lor_0_l; lia|].
  destruct (Z.eq_dec b 0) as [->|Hb0]; [rewrite Z.lor_0_r; lia|].
  assert (Hp : 0 < Z.lor a b).
  { assert (0 <= Z.lor a b) by (apply Z.lor_nonneg; lia).
    destruct (Z.eq_dec (Z.lor a b) 0) as [E|E]; [|lia].
    apply Z.lor_eq_0_iff in E. lia. }
  apply Z.log2_lt_pow2; [exact Hp|].
  rewrite Z.log2_lor by lia.
  apply Z.max_lub_lt; apply Z.log2_lt_pow2; lia.
Qed.

Lemma lor_bit_div : forall a k, 0 <= a -> 0 <= k < 8 -> Z.lor a (2 ^ k) / 256 = a / 256.
Proof.
  intros a k Ha Hk. change 256 with (2 ^ 8).
  rewrite <- !Z.shiftr_div_pow2 by lia. rewrite Z.shiftr_lor.
  rewrite (Z.shiftr_div_pow2 (2 ^ k)) by lia.
  rewrite (Z.div_small (2 ^ k)).
  - apply Z.lor_0_r.
  - split; [apply Z.pow_nonneg; lia | apply Z.pow_lt_mono_r; lia].
Qed.

Lemma lor_bit_mod : forall a k, 0 <= a -> 0 <= k < 8 ->
  Z.lor a (2 ^ k) mod 256 = Z.lor (a mod 256) (2 ^ k).
Proof.
  intros a k Ha Hk. change 256 with (2 ^ 8).
  rewrite <- !Z.land_ones by lia. rewrite Z.land_lor_distr_l. f_equal.
  rewrite Z.land_ones by lia. apply Z.mod_small.
  split; [apply Z.pow_nonneg; lia | apply Z.pow_lt_mono_r; lia].
Qed.

(* ---------- the invariant ---------- *)

Definition hi (s : bio) : Z := bo_out s / 256.
Definition lo (s : bio) : Z := bo_out s mod 256.

(* out is a uint16, ct in 0..8; when the byte written last (the high byte of out) is FF,
   at most 7 bit positions are usable and the byte under construction is < 0x80 *)
Definition Inv (s : bio) : Prop :=
  0 <= bo_ct s <= 8 /\ 0 <= bo_out s < 65536 /\ (hi s = 255 -> bo_ct s <= 7 /\ lo s < 128).

Lemma inv_init : Inv bio_init.
Proof. unfold Inv, hi, lo, bio_init; cbn. repeat split; try lia; intros H; discriminate. Qed.

Lemma byteout_spec : forall s, 0 <= bo_out s < 65536 ->
  bio_byteout s = ([lo s], {| bo_out := lo s * 256; bo_ct := if lo s =? 255 then 7 else 8 |}).
Proof.
  intros s Hs. unfold bio_byteout, lo, wrapU.
  change (2 ^ 16) with (256 * 256). change (2 ^ 8) with 256.
  rewrite Z.mul_mod_distr_r by lia.
  rewrite Z.shiftr_div_pow2 by lia. change (2 ^ 8) with 256.
  rewrite Z.div_mul by lia.
  pose proof (Z.mod_pos_bound (bo_out s) 256 ltac:(lia)) as Hb.
  rewrite (Z.mod_small (bo_out s mod 256)) by lia.
  f_equal. f_equal.
  destruct (Z.eqb_spec (bo_out s mod 256 * 256) 65280); destruct (Z.eqb_spec (bo_out s mod 256) 255);
    try reflexivity; lia.
Qed.

Lemma lo_bound : forall s, 0 <= lo s < 256.
Proof. intros s. unfold lo. apply Z.mod_pos_bound. lia. Qed.

Lemma hi_of_shifted : forall x c, 0 <= x < 256 -> hi {| bo_out := x * 256; bo_ct := c |} = x.
Proof. intros. unfold hi. cbn [bo_out]. apply Z.div_mul. lia. Qed.

Lemma lo_of_shifted : forall x c, lo {| bo_out := x * 256; bo_ct := c |} = 0.
Proof. intros. unfold lo. cbn [bo_out]. apply Z.mod_mul. lia. Qed.

(* setting bit k < ct' of a state *)
Lemma setbit_state : forall out k, 0 <= out < 65536 -> 0 <= k < 8 ->
  let v := wrapU 16 (Z.lor out (2 ^ k)) in
  v / 256 = out / 256 /\ v mod 256 = Z.lor (out mod 256) (2 ^ k) /\ 0 <= v < 65536.
Proof.
  intros out k Ho Hk v.
  assert (Hb : 0 <= Z.lor out (2 ^ k) < 2 ^ 16).
  { apply lor_lt_pow2; [lia | exact Ho |].
    split; [apply Z.pow_nonneg; lia | apply Z.pow_lt_mono_r; lia]. }
  assert (Hv : v = Z.lor out (2 ^ k)) by (unfold v, wrapU; apply Z.mod_small; exact Hb).
  rewrite Hv. repeat split; try (apply Hb).
  - apply lor_bit_div; lia.
  - apply lor_bit_mod; lia.
Qed.

Lemma lor_small : forall x k, 0 <= x < 128 -> 0 <= k < 7 -> Z.lor x (2 ^ k) < 128.
Proof.
  intros x k Hx Hk. change 128 with (2 ^ 7).
  apply lor_lt_pow2; [lia | exact Hx |].
  split; [apply Z.pow_nonneg; lia | apply Z.pow_lt_mono_r; lia].
Qed.

(* one writeBit: emits nothing or the completed byte; the invariant is kept; when a byte is
   emitted it becomes the new high byte *)
Lemma write_bit_spec : forall s bit, Inv s ->
  let '(o, s') := bio_write_bit s bit in
  Inv s' /\
  ((o = [] /\ hi s' = hi s) \/
   (o = [lo s] /\ hi s' = lo s /\ (hi s = 255 -> lo s < 128))).
Proof.
  intros s bit [Hct [Hout Hff]]. unfold bio_write_bit.
  destruct (Z.eqb_spec (bo_ct s) 0) as [E0|E0].
  - (* byteOut first *)
    rewrite byteout_spec by exact Hout. cbn [bo_ct bo_out].
    pose proof (lo_bound s) as Hlo.
    set (c1 := if lo s =? 255 then 7 else 8).
    assert (Hc1 : c1 = 7 \/ c1 = 8) by (unfold c1; destruct (lo s =? 255); auto).
    assert (Hc1ff : lo s = 255 -> c1 = 7) by (unfold c1; intros ->; reflexivity).
    assert (Hk : 0 <= c1 - 1 < 8) by lia.
    assert (Hsh : 0 <= lo s * 256 < 65536) by lia.
    destruct (setbit_state (lo s * 256) (c1 - 1) Hsh Hk) as [Hd [Hm Hb]].
    rewrite Z.div_mul in Hd by lia. rewrite Z.mod_mul in Hm by lia.
    rewrite Z.lor_0_l in Hm.
    destruct (bit =? 0).
    + split.
      * unfold Inv, hi, lo in *. cbn [bo_ct bo_out]. rewrite Z.div_mul by lia. rewrite Z.mod_mul by lia.
        repeat split; try lia; try (intros H; specialize (Hc1ff H); split; lia).
      * right. repeat split.
        -- unfold hi. cbn [bo_out]. apply Z.div_mul. lia.
        -- intros H. apply Hff in H. lia.
    + split.
      * unfold Inv, hi, lo in *. cbn [bo_ct bo_out]. rewrite Hd, Hm.
        repeat split; try lia;
          try (rewrite (Hc1ff ltac:(assumption)); change (2 ^ (7 - 1)) with 64; lia).
      * right. repeat split.
        -- unfold hi. cbn [bo_out]. exact Hd.
        -- intros H. apply Hff in H. lia.
  - (* room left in the current byte *)
    cbn [bo_ct bo_out].
    assert (Hk : 0 <= bo_ct s - 1 < 8) by lia.
    destruct (setbit_state (bo_out s) (bo_ct s - 1) Hout Hk) as [Hd [Hm Hb]].
    destruct (bit =? 0).
    + split.
      * unfold Inv, hi, lo in *. cbn [bo_ct bo_out]. repeat split; try lia;
          match goal with H : _ = 255 |- _ => apply Hff in H; lia end.
      * left. split; reflexivity.
    + split.
      * unfold Inv, hi, lo in *. cbn [bo_ct bo_out]. rewrite Hd, Hm. repeat split; try lia;
          match goal with H : _ = 255 |- _ => apply Hff in H; destruct H as [H7 Hl] end;
          first [lia | apply lor_small; [split; [apply Z.mod_pos_bound; lia | exact Hl] | lia]].
      * left. split; [reflexivity|]. unfold hi. cbn [bo_out]. exact Hd.
Qed.

Lemma flush_spec : forall s, Inv s -> ff_lt80 (hi s :: bio_flush s) = true.
Proof.
  intros s [Hct [Hout Hff]]. unfold bio_flush.
  rewrite byteout_spec by exact Hout. cbn [bo_ct].
  pose proof (lo_bound s) as Hlo.
  destruct (Z.eqb_spec (lo s) 255) as [E|E].
  - (* the byte is FF: a second byteOut writes 00 *)
    change (7 =? 7) with true. cbn iota.
    rewrite byteout_spec by (cbn [bo_out]; lia).
    rewrite lo_of_shifted. cbn [fst app]. rewrite E.
    cbn [ff_lt80]. destruct (Z.eqb_spec (hi s) 255) as [H|H].
    + apply Hff in H. lia.
    + reflexivity.
  - change (8 =? 7) with false. cbn iota. cbn [ff_lt80].
    destruct (Z.eqb_spec (hi s) 255) as [H|H].
    + apply Hff in H. destruct (Z.ltb_spec (lo s) 128); [|lia].
      destruct (Z.eqb_spec (lo s) 255); [contradiction|]. reflexivity.
    + destruct (Z.eqb_spec (lo s) 255); [contradiction|]. reflexivity.
Qed.

Lemma run_spec : forall bits s, Inv s -> ff_lt80 (hi s :: bio_run s bits) = true.
Proof.
  induction bits as [|b r IH]; intros s HI; cbn [bio_run].
  - apply flush_spec; exact HI.
  - pose proof (write_bit_spec s b HI) as H.
    destruct (bio_write_bit s b) as [o s']. destruct H as [HI' [[Ho Hh] | [Ho [Hh Hl]]]].
    + subst o. cbn [app]. rewrite <- Hh. apply IH; exact HI'.
    + subst o. cbn [app]. specialize (IH s' HI'). rewrite Hh in IH.
      cbn [ff_lt80] in *. rewrite IH. rewrite Bool.andb_true_r.
      destruct (Z.eqb_spec (hi s) 255) as [H|H]; [|reflexivity].
      apply Z.ltb_lt. apply Hl; exact H.
Qed.

(* bio_no_marker: for ANY bit sequence written with writeBit and closed by flush, in the
   bytes produced every FF is followed by a byte < 0x80 (so no marker code FF80..FFFF, in
   particular none >= FF90), and the last byte is not FF. *)
Theorem bio_no_marker : forall bits : list Z, ff_lt80 (bio_encode bits) = true.
Proof.
  intros bits. unfold bio_encode.
  pose proof (run_spec bits bio_init inv_init) as H.
  change (hi bio_init) with 0 in H. cbn [ff_lt80] in H.
  change (0 =? 255) with false in H. cbn iota in H. exact H.
Qed.

(* flush always emits at least one byte (an empty bit sequence gives one 00 byte) *)
Theorem bio_flush_nonempty : forall s, 0 <= bo_out s < 65536 -> bio_flush s <> [].
Proof.
  intros s Hs. unfold bio_flush. rewrite byteout_spec by exact Hs. cbn [bo_ct].
  destruct ((if lo s =? 255 then 7 else 8) =? 7); [|discriminate].
  destruct (bio_byteout _) as [o2 s2]. cbn [fst]. discriminate.
Qed.
