(* EXTRACT *)
(* C16: models of the Go writers that produce framing bytes.
   - jpeg/standard/writer.go : WriteUint16, WriteMarker, WriteSegment (length = uint16(len+2):
     the narrowing is written out, so the model shows what happens for len+2 >= 65536);
   - jpeg/standard/huffman_encoder.go : HuffmanEncoder.WriteBits / writeByte (FF 00 stuffing) /
     Flush (pad with 1 bits), bits uint32, nBits int;
   - jpeg2000/t2/packet_header_bitio.go : bioWriter.writeBit / writeBits / byteOut / flush
     (out uint16, ct int; 7 usable bits after an FF);
   - the header payload writers: baseline.writeSOF0, sequential12.writeSOF1, lossless /
     lossless14sv1 writeSOF3 + writeSOS, jpegls writeSOF55 + writeSOS (both packages),
     jpeg2000.writeSIZ / writeCOD.
   Go byte(x) = wrapU 8 x, uint16(x) = wrapU 16 x, uint32(x) = wrapU 32 x, x >> 8 on int =
   Z.shiftr x 8. *)
From V Require Import Common.Base Framing.FrmBase.

(* ---------- standard.Writer ---------- *)

(* WriteUint16(v uint16): binary.BigEndian.PutUint16 *)
Definition write_u16 (v : Z) : list Z := [v / 256; v mod 256].

(* WriteMarker(marker uint16) *)
Definition write_marker (m : Z) : list Z := write_u16 m.

(* WriteSegment(marker, data): marker, uint16(len(data)+2), data *)
Definition segment_length_field (data : list Z) : Z := wrapU 16 (zlen data + 2).
Definition write_segment (m : Z) (data : list Z) : list Z :=
  write_marker m ++ write_u16 (segment_length_field data) ++ data.

(* ---------- standard.HuffmanEncoder ---------- *)

Record henc : Type := { he_bits : Z; he_n : Z }.
Definition he_init : henc := {| he_bits := 0; he_n := 0 |}.

(* writeByte: the byte, followed by 00 when it is FF *)
Definition he_write_byte (b : Z) : list Z := if b =? 255 then [255; 0] else [b].

(* for e.nBits >= 8 { b := byte(e.bits >> uint(e.nBits-8)); writeByte(b); e.nBits -= 8 }.
   The loop runs nBits/8 times; nBits <= 7 + 32 for every call the encoders make, so a fuel of
   5 never runs out (he_drain_fuel_ok); running out is reported by a remaining count >= 8. *)
Fixpoint he_drain (fuel : nat) (bits n : Z) : list Z * Z :=
  match fuel with
  | O => ([], n)
  | S f =>
    if 8 <=? n then
      let b := wrapU 8 (Z.shiftr bits (n - 8)) in
      let '(o, n') := he_drain f bits (n - 8) in
      (he_write_byte b ++ o, n')
    else ([], n)
  end.

(* (1 << uint(n)) - 1 in uint32 *)
Definition he_mask (n : Z) : Z := wrapU 32 (wrapU 32 (2 ^ n) - 1).

(* WriteBits(bits uint32, n int), 0 <= n *)
Definition he_write_bits (s : henc) (bits n : Z) : list Z * henc :=
  if n =? 0 then ([], s)
  else
    let b := Z.lor (wrapU 32 (he_bits s * 2 ^ n)) (Z.land bits (he_mask n)) in
    let '(o, n') := he_drain 5 b (he_n s + n) in
    (o, {| he_bits := b; he_n := n' |}).

(* Flush: if nBits > 0 { b := byte((bits << (8-nBits)) | ((1 << (8-nBits)) - 1)); writeByte(b) } *)
Definition he_flush (s : henc) : list Z * henc :=
  if 0 <? he_n s then
    let k := 8 - he_n s in
    (he_write_byte (wrapU 8 (Z.lor (wrapU 32 (he_bits s * 2 ^ k)) (wrapU 32 (2 ^ k - 1)))),
     {| he_bits := 0; he_n := 0 |})
  else ([], s).

(* a whole scan: WriteBits for every (code, length) pair, then Flush *)
Fixpoint he_run (s : henc) (ops : list (Z * Z)) : list Z :=
  match ops with
  | [] => fst (he_flush s)
  | (bits, n) :: r => let '(o, s') := he_write_bits s bits n in o ++ he_run s' r
  end.

Definition huff_encode (ops : list (Z * Z)) : list Z := he_run he_init ops.

(* ---------- t2.bioWriter ---------- *)

Record bio : Type := { bo_out : Z; bo_ct : Z }.
Definition bio_init : bio := {| bo_out := 0; bo_ct := 8 |}.

(* byteOut: out = (out << 8) & 0xffff; ct = 7 if out == 0xff00 else 8; write byte(out >> 8) *)
Definition bio_byteout (s : bio) : list Z * bio :=
  let o := wrapU 16 (bo_out s * 256) in
  ([wrapU 8 (Z.shiftr o 8)], {| bo_out := o; bo_ct := if o =? 65280 then 7 else 8 |}).

(* writeBit: if ct == 0 { byteOut }; ct--; if bit != 0 { out |= 1 << ct } *)
Definition bio_write_bit (s : bio) (bit : Z) : list Z * bio :=
  let '(o, s1) := if bo_ct s =? 0 then bio_byteout s else ([], s) in
  let ct := bo_ct s1 - 1 in
  (o, {| bo_out := if bit =? 0 then bo_out s1 else wrapU 16 (Z.lor (bo_out s1) (2 ^ ct));
         bo_ct := ct |}).

(* flush: byteOut; if ct == 7 { byteOut } *)
Definition bio_flush (s : bio) : list Z :=
  let '(o1, s1) := bio_byteout s in
  if bo_ct s1 =? 7 then o1 ++ fst (bio_byteout s1) else o1.

Fixpoint bio_run (s : bio) (bits : list Z) : list Z :=
  match bits with
  | [] => bio_flush s
  | b :: r => let '(o, s') := bio_write_bit s b in o ++ bio_run s' r
  end.

Definition bio_encode (bits : list Z) : list Z := bio_run bio_init bits.

(* ---------- header payload writers ---------- *)

Definition byte_of (x : Z) : Z := wrapU 8 x.

(* the six fixed bytes of every SOFn / SOF55 payload:
   byte(P), byte(h >> 8), byte(h), byte(w >> 8), byte(w), byte(nc) *)
Definition sof_fixed (p h w nc : Z) : list Z :=
  [byte_of p; byte_of (Z.shiftr h 8); byte_of h; byte_of (Z.shiftr w 8); byte_of w; byte_of nc].

(* baseline.writeSOF0 (components = 1 or 3 after the guards) *)
Definition baseline_sof0 (h w nc : Z) : list Z :=
  sof_fixed 8 h w nc ++ (if nc =? 1 then [0; 17; 0] else [1; 17; 0; 2; 17; 1; 3; 17; 1]).

(* sequential12.writeSOF1 *)
Definition seq12_sof1 (h w : Z) : list Z := sof_fixed 12 h w 1 ++ [1; 17; 0].

(* component specs (i+1, 0x11, 0), i = 0..nc-1 : lossless, sv1, jpegls *)
Fixpoint comps_seq (i : Z) (n : nat) : list Z :=
  match n with O => [] | S k => [byte_of i; 17; 0] ++ comps_seq (i + 1) k end.

(* lossless.writeSOF3 / lossless14sv1.writeSOF3 / jpegls writeSOF55 *)
Definition lossless_sof3 (p h w nc : Z) : list Z :=
  sof_fixed p h w nc ++ comps_seq 1 (Z.to_nat nc).

(* scan component selectors (i+1, 0), then three parameter bytes *)
Fixpoint scomps_seq (i : Z) (n : nat) : list Z :=
  match n with O => [] | S k => [byte_of i; 0] ++ scomps_seq (i + 1) k end.

(* lossless.writeSOS : Ns, (i+1, 0x00).., Ss = predictor, Se = 0, AhAl = 0 *)
Definition lossless_sos (nc pred : Z) : list Z :=
  [byte_of nc] ++ scomps_seq 1 (Z.to_nat nc) ++ [byte_of pred; 0; 0].

(* jpegls writeSOS : Ns, (i+1, 0).., NEAR, ILV (2 when components > 1 else 0), 0 *)
Definition jls_sos (nc near : Z) : list Z :=
  [byte_of nc] ++ scomps_seq 1 (Z.to_nat nc) ++ [byte_of near; if 1 <? nc then 2 else 0; 0].

(* binary.Write big-endian of uint32(x) / uint16(x) *)
Definition be32_bytes (x : Z) : list Z :=
  let v := wrapU 32 x in [v / 16777216; (v / 65536) mod 256; (v / 256) mod 256; v mod 256].
Definition be16_bytes (x : Z) : list Z :=
  let v := wrapU 16 x in [v / 256; v mod 256].

Fixpoint siz_comps (ssiz : Z) (n : nat) : list Z :=
  match n with O => [] | S k => [ssiz; 1; 1] ++ siz_comps ssiz k end.

(* jpeg2000.writeSIZ: payload after Lsiz. tw/th = 0 means the whole image. *)
Definition j2k_siz_payload (ht : bool) (w h tw th nc depth : Z) (signed : bool) : list Z :=
  let ssiz := Z.lor (wrapU 8 (depth - 1)) (if signed then 128 else 0) in
  be16_bytes (if ht then 16384 else 0)
  ++ be32_bytes w ++ be32_bytes h ++ be32_bytes 0 ++ be32_bytes 0
  ++ be32_bytes (if tw =? 0 then w else tw) ++ be32_bytes (if th =? 0 then h else th)
  ++ be32_bytes 0 ++ be32_bytes 0
  ++ be16_bytes nc ++ siz_comps ssiz (Z.to_nat nc).

(* the whole SIZ segment: marker, uint16(len+2), payload *)
Definition j2k_siz_segment (ht : bool) (w h tw th nc depth : Z) (signed : bool) : list Z :=
  let p := j2k_siz_payload ht w h tw th nc depth signed in
  [255; 81] ++ be16_bytes (zlen p + 2) ++ p.

(* jpeg2000.writeCOD payload without user precincts (PrecinctWidth = PrecinctHeight = 0).
   xcbf/ycbf are log2(CodeBlockWidth)-2, log2(CodeBlockHeight)-2. *)
Definition j2k_cod_payload (prog layers : Z) (mct : bool) (levels xcbf ycbf : Z) (ht lossless : bool)
  : list Z :=
  [0; byte_of prog] ++ be16_bytes layers ++ [if mct then 1 else 0; byte_of levels; byte_of xcbf;
   byte_of ycbf; if ht then 64 else 0; if lossless then 1 else 0].

(* ---------- whole-frame assembly of jpeg/lossless.Encode and lossless14sv1.Encode ----------
   SOI, JFIF APP0, SOF3, one DHT, SOS, entropy-coded data, EOI - in this order (Encode,
   writeSOF3, writeDHT, writeSOS, encodeScan). The DHT payload (from the Huffman optimiser)
   and the (code, length) sequence of the scan (from the predictor) are parameters: they are
   modelled in the JpegLL area. SV1 is the instance pred = 1. *)
Definition jfif_app0 : list Z := [74; 70; 73; 70; 0; 1; 1; 0; 0; 1; 0; 1; 0; 0].

Definition lossless_frame (p h w nc pred : Z) (dht : list Z) (ops : list (Z * Z)) : list Z :=
  write_marker 65496
  ++ write_segment 65504 jfif_app0
  ++ write_segment 65475 (lossless_sof3 p h w nc)
  ++ write_segment 65476 dht
  ++ write_segment 65498 (lossless_sos nc pred)
  ++ huff_encode ops
  ++ write_marker 65497.
