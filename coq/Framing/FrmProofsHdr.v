(* C16 proofs, part 4: header_fields_roundtrip. The frame / scan header payloads the Go
   encoders write (FrmWriters: baseline.writeSOF0, sequential12.writeSOF1, lossless and SV1
   writeSOF3/writeSOS, jpegls writeSOF55/writeSOS, jpeg2000 writeSIZ/writeCOD), parsed by the
   walkers' header parsers (written from the standards), give back exactly the arguments -
   for every width and height in 1..65535 (resp. 1..2^32-1 for JPEG 2000) and every
   component count / precision / predictor / NEAR the encoders accept. Outside that range
   the 16-bit fields are silently truncated: header_fields_outside_dims16. *)
From V Require Import Common.Base Framing.FrmBase Framing.FrmJpeg Framing.FrmJls Framing.FrmJ2k
  Framing.FrmWriters Framing.FrmProofsSeg.

(* ---------- byte arithmetic ---------- *)

Lemma byte_of_small : forall x, 0 <= x < 256 -> byte_of x = x.
Proof. intros. unfold byte_of, wrapU. apply Z.mod_small. assumption. Qed.

Lemma byte_of_lo : forall x, byte_of x = x mod 256.
Proof. reflexivity. Qed.

Lemma byte_of_hi : forall x, 0 <= x < 65536 -> byte_of (Z.shiftr x 8) = x / 256.
Proof.
  intros x Hx. rewrite Z.shiftr_div_pow2 by lia. change (2 ^ 8) with 256.
  apply byte_of_small. split; [apply Z.div_pos; lia | apply Z.div_lt_upper_bound; lia].
Qed.

Lemma be16_split : forall x, 0 <= x < 65536 -> be16 (x / 256) (x mod 256) = x.
Proof. intros x Hx. unfold be16. pose proof (Z.div_mod x 256 ltac:(lia)). lia. Qed.

Lemma sof_fixed_norm : forall p h w nc,
  0 <= p < 256 -> 0 <= h < 65536 -> 0 <= w < 65536 -> 0 <= nc < 256 ->
  sof_fixed p h w nc = [p; h / 256; h mod 256; w / 256; w mod 256; nc].
Proof.
  intros. unfold sof_fixed. rewrite !byte_of_hi by assumption.
  rewrite (byte_of_small p), (byte_of_small nc) by assumption. reflexivity.
Qed.

(* ---------- T.81 / T.87 frame header ---------- *)

Lemma parse_sof_ok : forall sof pr yh yl xh xl nf cs comps,
  zlen cs = 3 * nf -> sof_precision_ok sof pr = true ->
  be16 yh yl <> 0 -> be16 xh xl <> 0 -> nf <> 0 ->
  parse_sof_comps cs = Some comps ->
  forallb (sof_comp_ok (sof =? 3)) comps && nodup_z (map comp_id comps) = true ->
  parse_sof sof (pr :: yh :: yl :: xh :: xl :: nf :: cs)
  = WOk {| jf_sof := sof; jf_p := pr; jf_y := be16 yh yl; jf_x := be16 xh xl; jf_nf := nf;
           jf_comps := comps |}.
Proof.
  intros sof pr yh yl xh xl nf cs comps Hl Hp Hy Hx Hn Hc Hok. unfold parse_sof.
  rewrite Hl, Z.eqb_refl. cbn [negb]. rewrite Hp. cbn [negb].
  destruct (Z.eqb_spec (be16 yh yl) 0); [contradiction|].
  destruct (Z.eqb_spec (be16 xh xl) 0); [contradiction|]. cbn [orb].
  destruct (Z.eqb_spec nf 0); [contradiction|].
  rewrite Hc, Hok. reflexivity.
Qed.

Definition dims16 (h w : Z) : Prop := 1 <= h <= 65535 /\ 1 <= w <= 65535.

(* baseline.writeSOF0 *)
Theorem baseline_header_roundtrip : forall h w nc,
  dims16 h w -> nc = 1 \/ nc = 3 ->
  parse_sof 0 (baseline_sof0 h w nc)
  = WOk {| jf_sof := 0; jf_p := 8; jf_y := h; jf_x := w; jf_nf := nc;
           jf_comps := if nc =? 1 then [(0, 1, 1, 0)] else [(1, 1, 1, 0); (2, 1, 1, 1); (3, 1, 1, 1)] |}.
Proof.
  intros h w nc [Hh Hw] Hnc. unfold baseline_sof0.
  rewrite sof_fixed_norm by lia. cbn [app].
  destruct Hnc as [-> | ->]; cbn [Z.eqb Pos.eqb];
    (erewrite parse_sof_ok;
     [ rewrite !be16_split by lia; reflexivity
     | reflexivity | reflexivity | rewrite be16_split by lia; lia | rewrite be16_split by lia; lia
     | lia | reflexivity | reflexivity ]).
Qed.

(* sequential12.writeSOF1 *)
Theorem seq12_header_roundtrip : forall h w, dims16 h w ->
  parse_sof 1 (seq12_sof1 h w)
  = WOk {| jf_sof := 1; jf_p := 12; jf_y := h; jf_x := w; jf_nf := 1; jf_comps := [(1, 1, 1, 0)] |}.
Proof.
  intros h w [Hh Hw]. unfold seq12_sof1. rewrite sof_fixed_norm by lia. cbn [app].
  erewrite parse_sof_ok;
    [ rewrite !be16_split by lia; reflexivity
    | reflexivity | reflexivity | rewrite be16_split by lia; lia | rewrite be16_split by lia; lia
    | lia | reflexivity | reflexivity ].
Qed.

Definition seq_comps (nc : Z) : list (Z * Z * Z * Z) :=
  if nc =? 1 then [(1, 1, 1, 0)] else [(1, 1, 1, 0); (2, 1, 1, 0); (3, 1, 1, 0)].

(* lossless.writeSOF3, lossless14sv1.writeSOF3, and (as SOF55) both jpegls writeSOF55 *)
Theorem lossless_header_roundtrip : forall p h w nc,
  dims16 h w -> 2 <= p <= 16 -> nc = 1 \/ nc = 3 ->
  parse_sof 3 (lossless_sof3 p h w nc)
  = WOk {| jf_sof := 3; jf_p := p; jf_y := h; jf_x := w; jf_nf := nc; jf_comps := seq_comps nc |}.
Proof.
  intros p h w nc [Hh Hw] Hp Hnc. unfold lossless_sof3.
  rewrite sof_fixed_norm by lia.
  assert (Hprec : sof_precision_ok 3 p = true).
  { unfold sof_precision_ok. cbn [Z.eqb]. apply andb_true_intro; split; apply Z.leb_le; lia. }
  destruct Hnc as [-> | ->]; cbn [Z.to_nat Pos.to_nat Pos.iter_op Nat.add comps_seq app];
    unfold seq_comps; cbn [Z.eqb Pos.eqb];
    (erewrite parse_sof_ok;
     [ rewrite !be16_split by lia; reflexivity
     | reflexivity | exact Hprec | rewrite be16_split by lia; lia | rewrite be16_split by lia; lia
     | lia | reflexivity | reflexivity ]).
Qed.

Theorem jls_header_roundtrip : forall p h w nc,
  dims16 h w -> 2 <= p <= 16 -> nc = 1 \/ nc = 3 ->
  parse_sof55 (lossless_sof3 p h w nc)
  = WOk {| jf_sof := 3; jf_p := p; jf_y := h; jf_x := w; jf_nf := nc; jf_comps := seq_comps nc |}.
Proof. intros. unfold parse_sof55. apply lossless_header_roundtrip; assumption. Qed.

(* lossless.writeSOS (SV1 is the instance pred = 1): predictor comes back as Ss *)
Theorem lossless_sos_roundtrip : forall nc pred,
  nc = 1 \/ nc = 3 -> 0 <= pred < 256 ->
  parse_sos (lossless_sos nc pred)
  = WOk {| sc_comps := if nc =? 1 then [(1, 0, 0)] else [(1, 0, 0); (2, 0, 0); (3, 0, 0)];
           sc_ss := pred; sc_se := 0; sc_ah := 0; sc_al := 0 |}.
Proof.
  intros nc pred Hnc Hp. unfold lossless_sos. rewrite (byte_of_small pred) by assumption.
  destruct Hnc as [-> | ->]; reflexivity.
Qed.

(* jpegls writeSOS (both packages; lossless is the instance near = 0) *)
Theorem jls_sos_roundtrip : forall nc near,
  nc = 1 \/ nc = 3 -> 0 <= near < 256 ->
  parse_lsos (jls_sos nc near)
  = WOk {| ls_comps := if nc =? 1 then [(1, 0)] else [(1, 0); (2, 0); (3, 0)];
           ls_near := near; ls_ilv := if nc =? 1 then 0 else 2; ls_al := 0; ls_ah := 0 |}.
Proof.
  intros nc near Hnc Hn. unfold jls_sos. rewrite (byte_of_small near) by assumption.
  destruct Hnc as [-> | ->]; reflexivity.
Qed.

(* What the 16-bit size fields do outside 1..65535: byte(h >> 8), byte(h) drop the high bits
   without an error. Width 65536 is declared as 0 (the walker then rejects the stream),
   width 65537 is declared as 1 (a well-formed header that lies). So the range hypothesis of
   the round-trip theorems is necessary; since e80df58 / 96ebe7f every Encode rejects such
   sizes before a header is written (FrmProofsValidate: *_accepts_sound). *)
Theorem header_fields_outside_dims16 :
  (exists w, 65535 < w /\ parse_sof 3 (lossless_sof3 8 1 w 1) = WBad RSofDims 0) /\
  (exists w, 65535 < w /\
     parse_sof 3 (lossless_sof3 8 1 w 1)
     = WOk {| jf_sof := 3; jf_p := 8; jf_y := 1; jf_x := 1; jf_nf := 1; jf_comps := [(1, 1, 1, 0)] |}) /\
  (exists h, 65535 < h /\
     parse_sof 0 (baseline_sof0 h 7 1)
     = WOk {| jf_sof := 0; jf_p := 8; jf_y := 1; jf_x := 7; jf_nf := 1; jf_comps := [(0, 1, 1, 0)] |}).
Proof.
  split; [|split].
  - exists 65536. split; [lia | vm_compute; reflexivity].
  - exists 65537. split; [lia | vm_compute; reflexivity].
  - exists 65537. split; [lia | vm_compute; reflexivity].
Qed.

(* ---------- JPEG 2000 SIZ / COD ---------- *)

Definition b3 (x : Z) : Z := x / 16777216.
Definition b2 (x : Z) : Z := (x / 65536) mod 256.
Definition b1 (x : Z) : Z := (x / 256) mod 256.
Definition b0 (x : Z) : Z := x mod 256.

Lemma be32_bytes_norm : forall x, 0 <= x < 4294967296 -> be32_bytes x = [b3 x; b2 x; b1 x; b0 x].
Proof.
  intros x Hx. unfold be32_bytes, wrapU. change (2 ^ 32) with 4294967296.
  rewrite Z.mod_small by lia. reflexivity.
Qed.

Lemma be32_join : forall x, 0 <= x < 4294967296 -> be32 (b3 x) (b2 x) (b1 x) (b0 x) = x.
Proof.
  intros x Hx. unfold be32, b3, b2, b1, b0. Z.div_mod_to_equations. lia.
Qed.

Lemma be16_bytes_norm : forall x, 0 <= x < 65536 -> be16_bytes x = [x / 256; x mod 256].
Proof. intros x Hx. unfold be16_bytes, wrapU. change (2 ^ 16) with 65536. rewrite Z.mod_small by lia. reflexivity. Qed.

Lemma parse_siz_ok : forall r1 r2 x1 x2 x3 x4 y1 y2 y3 y4 xo1 xo2 xo3 xo4 yo1 yo2 yo3 yo4
  xt1 xt2 xt3 xt4 yt1 yt2 yt3 yt4 xto1 xto2 xto3 xto4 yto1 yto2 yto3 yto4 c1 c2 cs comps,
  let s := {| sz_rsiz := be16 r1 r2; sz_x := be32 x1 x2 x3 x4; sz_y := be32 y1 y2 y3 y4;
              sz_xo := be32 xo1 xo2 xo3 xo4; sz_yo := be32 yo1 yo2 yo3 yo4;
              sz_xt := be32 xt1 xt2 xt3 xt4; sz_yt := be32 yt1 yt2 yt3 yt4;
              sz_xto := be32 xto1 xto2 xto3 xto4; sz_yto := be32 yto1 yto2 yto3 yto4;
              sz_c := be16 c1 c2; sz_comps := comps |} in
  zlen cs = 3 * be16 c1 c2 -> parse_siz_comps cs = Some comps ->
  1 <= sz_x s -> 1 <= sz_y s -> sz_xo s < sz_x s -> sz_yo s < sz_y s -> 1 <= sz_xt s -> 1 <= sz_yt s ->
  1 <= sz_c s <= 16384 -> forallb siz_comp_ok comps = true ->
  sz_xto s <= sz_xo s -> sz_yto s <= sz_yo s -> sz_xo s < sz_xto s + sz_xt s ->
  sz_yo s < sz_yto s + sz_yt s -> siz_tiles_x s * siz_tiles_y s <= 65535 ->
  parse_siz (r1 :: r2 :: x1 :: x2 :: x3 :: x4 :: y1 :: y2 :: y3 :: y4
    :: xo1 :: xo2 :: xo3 :: xo4 :: yo1 :: yo2 :: yo3 :: yo4
    :: xt1 :: xt2 :: xt3 :: xt4 :: yt1 :: yt2 :: yt3 :: yt4
    :: xto1 :: xto2 :: xto3 :: xto4 :: yto1 :: yto2 :: yto3 :: yto4
    :: c1 :: c2 :: cs) = WOk s.
Proof.
  intros until comps. intros s Hl Hc H1 H2 H3 H4 H5 H6 H7 H8 H9 H10 H11 H12 H13.
  cbv beta iota zeta delta [parse_siz]. rewrite Hl, Z.eqb_refl. cbn [negb]. rewrite Hc.
  fold s.
  replace ((1 <=? sz_x s) && (1 <=? sz_y s) && (sz_xo s <? sz_x s) && (sz_yo s <? sz_y s)
           && (1 <=? sz_xt s) && (1 <=? sz_yt s) && (1 <=? be16 c1 c2) && (be16 c1 c2 <=? 16384)
           && forallb siz_comp_ok comps) with true.
  2:{ symmetry. rewrite H8. change (sz_c s) with (be16 c1 c2) in H7.
      repeat (apply andb_true_intro; split); try reflexivity;
        try (apply Z.leb_le; lia); try (apply Z.ltb_lt; lia). }
  cbn [negb].
  replace ((sz_xto s <=? sz_xo s) && (sz_yto s <=? sz_yo s) && (sz_xo s <? sz_xto s + sz_xt s)
           && (sz_yo s <? sz_yto s + sz_yt s) && (siz_tiles_x s * siz_tiles_y s <=? 65535)) with true.
  2:{ symmetry. repeat (apply andb_true_intro; split);
        try (apply Z.leb_le; lia); try (apply Z.ltb_lt; lia). }
  reflexivity.
Qed.

Lemma lor_128 : forall d, 0 <= d < 128 -> Z.lor d 128 = d + 128.
Proof.
  assert (H : forallb (fun d => Z.lor d 128 =? d + 128) (map Z.of_nat (seq 0 128)) = true)
    by (vm_compute; reflexivity).
  intros d Hd. rewrite forallb_forall in H.
  apply Z.eqb_eq. apply (H d). apply in_map_iff. exists (Z.to_nat d). split; [lia|].
  apply in_seq. lia.
Qed.

Definition ssiz_of (depth : Z) (signed : bool) : Z := depth - 1 + (if signed then 128 else 0).

Definition tile_dim (t full : Z) : Z := if t =? 0 then full else t.

(* jpeg2000.writeSIZ followed by the walker's segment step and SIZ parser: exactly the
   arguments come back, for every image size in 1..2^32-1, tile size 0 (= whole image) or
   1..2^32-1 with at most 65535 tiles, 1..4 components, precision 1..38, either signedness. *)
Theorem j2k_siz_roundtrip : forall ht w h tw th nc depth signed rest,
  1 <= w < 4294967296 -> 1 <= h < 4294967296 ->
  0 <= tw < 4294967296 -> 0 <= th < 4294967296 ->
  nc = 1 \/ nc = 2 \/ nc = 3 \/ nc = 4 -> 1 <= depth <= 38 ->
  ceil_div w (tile_dim tw w) * ceil_div h (tile_dim th h) <= 65535 ->
  let p := j2k_siz_payload ht w h tw th nc depth signed in
  read_segment (j2k_siz_segment ht w h tw th nc depth signed ++ rest) = SegOk 81 p rest /\
  zlen p + 2 = 38 + 3 * nc /\
  parse_siz p
  = WOk {| sz_rsiz := if ht then 16384 else 0; sz_x := w; sz_y := h; sz_xo := 0; sz_yo := 0;
           sz_xt := tile_dim tw w; sz_yt := tile_dim th h; sz_xto := 0; sz_yto := 0; sz_c := nc;
           sz_comps := repeat (ssiz_of depth signed, 1, 1) (Z.to_nat nc) |}.
Proof.
  intros ht w h tw th nc depth signed rest Hw Hh Htw Hth Hnc Hd Ht p.
  assert (Hp : zlen p + 2 = 38 + 3 * nc).
  { unfold p, j2k_siz_payload, be16_bytes, be32_bytes.
    destruct Hnc as [-> | [-> | [-> | ->]]]; reflexivity. }
  assert (Htx : 1 <= tile_dim tw w < 4294967296) by (unfold tile_dim; destruct (Z.eqb_spec tw 0); lia).
  assert (Hty : 1 <= tile_dim th h < 4294967296) by (unfold tile_dim; destruct (Z.eqb_spec th 0); lia).
  split; [|split; [exact Hp|]].
  - unfold j2k_siz_segment. fold p.
    change ([255; 81]) with (write_marker (65280 + 81)).
    replace (be16_bytes (zlen p + 2)) with (write_u16 (segment_length_field p)).
    2:{ unfold segment_length_field, be16_bytes, write_u16. reflexivity. }
    rewrite <- !app_assoc. rewrite app_assoc. rewrite app_assoc.
    rewrite <- (app_assoc (write_marker _)). fold (write_segment (65280 + 81) p).
    apply segment_length; lia.
  - assert (Hs : Z.lor (wrapU 8 (depth - 1)) (if signed then 128 else 0) = ssiz_of depth signed).
    { unfold ssiz_of, wrapU. change (2 ^ 8) with 256. rewrite Z.mod_small by lia.
      destruct signed; [apply lor_128; lia | rewrite Z.lor_0_r; lia]. }
    unfold p, j2k_siz_payload. fold (tile_dim tw w). fold (tile_dim th h). rewrite Hs.
    rewrite !be32_bytes_norm by lia.
    assert (Hssiz : siz_comp_ok (ssiz_of depth signed, 1, 1) = true).
    { unfold siz_comp_ok, ssiz_of. destruct signed.
      - replace ((depth - 1 + 128) mod 128) with (depth - 1)
          by (apply Z.mod_unique with (q := 1); lia).
        apply andb_true_intro; split; [apply andb_true_intro; split|]; try reflexivity. apply Z.leb_le; lia.
      - rewrite Z.add_0_r. rewrite Z.mod_small by lia.
        apply andb_true_intro; split; [apply andb_true_intro; split|]; try reflexivity. apply Z.leb_le; lia. }
    destruct ht; destruct Hnc as [-> | [-> | [-> | ->]]];
      cbn [app be16_bytes wrapU Z.to_nat Pos.to_nat Pos.iter_op Nat.add siz_comps repeat];
      (erewrite parse_siz_ok;
       [ rewrite !be32_join by lia; reflexivity
       | reflexivity | reflexivity
       | cbn [sz_x]; rewrite be32_join by lia; lia
       | cbn [sz_y]; rewrite be32_join by lia; lia
       | cbn [sz_x sz_xo]; rewrite !be32_join by lia; lia
       | cbn [sz_y sz_yo]; rewrite !be32_join by lia; lia
       | cbn [sz_xt]; rewrite be32_join by lia; lia
       | cbn [sz_yt]; rewrite be32_join by lia; lia
       | cbn [sz_c]; vm_compute; split; discriminate
       | cbv [Pos.to_nat Pos.iter_op Nat.add repeat forallb]; rewrite Hssiz; reflexivity
       | cbn [sz_xto sz_xo]; rewrite !be32_join by lia; lia
       | cbn [sz_yto sz_yo]; rewrite !be32_join by lia; lia
       | cbn [sz_xto sz_xo sz_xt]; rewrite !be32_join by lia; lia
       | cbn [sz_yto sz_yo sz_yt]; rewrite !be32_join by lia; lia
       | unfold siz_tiles_x, siz_tiles_y; cbn [sz_x sz_y sz_xto sz_yto sz_xt sz_yt];
         rewrite !be32_join by lia; rewrite !Z.sub_0_r; exact Ht ]).
Qed.

(* jpeg2000.writeCOD (no user precincts): the COD parser returns the arguments, for every
   progression order 0..4, 1..65535 layers, 0..32 levels and code-block exponents with
   xcb + ycb <= 12 (Table A.18). *)
Theorem j2k_cod_roundtrip : forall prog layers mct levels xcbf ycbf ht lossless,
  0 <= prog <= 4 -> 1 <= layers <= 65535 -> 0 <= levels <= 32 ->
  0 <= xcbf <= 8 -> 0 <= ycbf <= 8 -> xcbf + ycbf <= 8 ->
  parse_cod (j2k_cod_payload prog layers mct levels xcbf ycbf ht lossless)
  = WOk {| cd_scod := 0; cd_prog := prog; cd_layers := layers; cd_mct := if mct then 1 else 0;
           cd_levels := levels; cd_xcb := xcbf + 2; cd_ycb := ycbf + 2;
           cd_style := if ht then 64 else 0; cd_transform := if lossless then 1 else 0;
           cd_precincts := [] |}.
Proof.
  intros prog layers mct levels xcbf ycbf ht lossless Hp Hl Hv Hx Hy Hxy.
  unfold j2k_cod_payload. rewrite be16_bytes_norm by lia.
  rewrite !byte_of_small by lia. cbn [app]. unfold parse_cod.
  rewrite be16_split by lia.
  replace ((0 <=? 7) && (prog <=? 4) && (1 <=? layers) && ((if mct then 1 else 0) <=? 1)) with true.
  2:{ symmetry. repeat (apply andb_true_intro; split); try reflexivity;
        try (apply Z.leb_le; lia). destruct mct; reflexivity. }
  cbn [negb]. unfold parse_spcod. cbn [Z.odd].
  replace ((levels <=? 32) && (xcbf <=? 8) && (ycbf <=? 8) && (xcbf + ycbf <=? 8)
           && ((if lossless then 1 else 0) <=? 1) && true) with true.
  2:{ symmetry. repeat (apply andb_true_intro; split); try reflexivity;
        try (apply Z.leb_le; lia). destruct lossless; reflexivity. }
  reflexivity.
Qed.

(* What writeCOD would do with parameter values Tables A.13-A.18 cannot represent: code-blocks
   1024x1024 (xcb + ycb = 20 > 12), progression order 5, 65536 layers (written as 0): the COD
   parser rejects each. validateParams rejects all three since 9b2aa4a / 60ddb6e. *)
Theorem j2k_cod_rejects_unrepresentable :
  parse_cod (j2k_cod_payload 0 1 false 5 8 8 false true) = WBad RCodSyntax 0 /\
  parse_cod (j2k_cod_payload 5 1 false 5 4 4 false true) = WBad RCodSyntax 0 /\
  parse_cod (j2k_cod_payload 0 65536 false 5 4 4 false true) = WBad RCodSyntax 0.
Proof. repeat split; vm_compute; reflexivity. Qed.
