(* EXTRACT *)
(* Common definitions shared by all models: Go integer narrowing, bytes, outcomes. *)
From Coq Require Export List ZArith Bool Lia.
Export ListNotations.
Open Scope Z_scope.

(* Go narrowing conversions. wrapU n x = uintN(x); wrapS n x = intN(x). *)
Definition wrapU (n : Z) (x : Z) : Z := x mod 2 ^ n.
Definition wrapS (n : Z) (x : Z) : Z :=
  let m := x mod 2 ^ n in if m <? 2 ^ (n - 1) then m else m - 2 ^ n.

Definition is_byte (b : Z) : bool := (0 <=? b) && (b <? 256).
Definition all_bytes (l : list Z) : bool := forallb is_byte l.

(* Outcome of a panic-explicit model. *)
Inductive outcome (A : Type) : Type :=
| Ok (a : A)
| Err
| Panic
| OutOfFuel.
Arguments Ok {A} a.
Arguments Err {A}.
Arguments Panic {A}.
Arguments OutOfFuel {A}.

Definition obind {A B} (o : outcome A) (f : A -> outcome B) : outcome B :=
  match o with Ok a => f a | Err => Err | Panic => Panic | OutOfFuel => OutOfFuel end.

Definition zlen {A} (l : list A) : Z := Z.of_nat (length l).

(* nth with Z index, default d *)
Definition znth {A} (l : list A) (i : Z) (d : A) : A :=
  if i <? 0 then d else nth (Z.to_nat i) l d.

Fixpoint zrepeat_nat {A} (x : A) (n : nat) : list A :=
  match n with O => [] | S k => x :: zrepeat_nat x k end.
