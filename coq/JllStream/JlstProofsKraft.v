(* JllStream (C16), part 1: the Huffman table BuildOptimalHuffmanTable returns leaves the all-ones
   code word free (T.81 Annex C: "the codes shall be generated such that the all-1-bits code word
   of any length is reserved"): its Kraft sum is at most 65535/65536. JllProofsOpt3.build_optimal_ok
   proves <= 1 only; the strict bound comes from the pseudo symbol 256 the optimiser adds and
   removes again. Same exhaustive search over all Kraft-complete count vectors (JllProofsOpt2). *)
From V Require Import Common.Base JpegLL.JllBits JpegLL.JllHuff JpegLL.JllModel JpegLL.JllT81
  JpegLL.JllProofsBits JpegLL.JllProofsHuff JpegLL.JllProofsOpt JpegLL.JllProofsOpt2.

Definition post_strict (o : outcome (list Z)) : bool :=
  match o with
  | Ok bits' => t81_kraft (firstn 16 (skipn 1 (remove_pseudo 257 bits' 256))) 1 <=? 65535
  | _ => false
  end.

Lemma search_all_strict :
  search 17 1 (2 ^ 17) 18 []
    (fun b17 => post_strict (limit_all sizes_hi (0 :: b17 ++ repeat 0 239))) = true.
Proof. vm_compute. reflexivity. Qed.

Theorem post_strict_ok : forall b17, length b17 = 17%nat -> Forall (fun b => 0 <= b) b17 -> zsum b17 <= 18 ->
  kraftw b17 1 = 2 ^ 17 ->
  post_strict (limit_all sizes_hi (0 :: b17 ++ repeat 0 239)) = true.
Proof.
  intros b17 Hl Hnn Hs Hk.
  exact (search_sound 17 1 (2 ^ 17) 18 [] _ search_all_strict ltac:(lia) b17 Hl Hnn Hs Hk).
Qed.
