(* JllStream (C16), part 2: the table the encoders emit for an image reserves the all-ones code
   word (strict Kraft bound), in addition to JllProofsRT.table_hyp. *)
From V Require Import Common.Base JpegLL.JllBits JpegLL.JllHuff JpegLL.JllModel JpegLL.JllT81
  JpegLL.JllProofsBits JpegLL.JllProofsHuff JpegLL.JllProofs JpegLL.JllProofsRT JpegLL.JllProofsOpt JpegLL.JllProofsOpt2
  JpegLL.JllProofsOpt3 JpegLL.JllProofsOpt4 JllStream.JlstProofsKraft.

Theorem build_optimal_strict : forall freqs, freqs_ok freqs ->
  (exists i, 0 <= i < 256 /\ znth freqs i 0 <> 0) ->
  exists bits vals, build_optimal freqs = Ok (bits, vals) /\ t81_kraft bits 1 <= 65535.
Proof.
  intros freqs Hok Hne. destruct (merge_result freqs Hok Hne) as (cs & Eloop & Hsz).
  pose proof Hsz as (Hl & Hr & Hw & Hn & H256 & Hcov).
  destruct (b17_sums cs Hr) as [Bk Bs].
  assert (Hb1 : length (b17_of cs) = 17%nat) by (unfold b17_of; rewrite map_length, seqZ_length; reflexivity).
  assert (Hb2 : Forall (fun b => 0 <= b) (b17_of cs)).
  { unfold b17_of. apply Forall_forall. intros x Hx. apply in_map_iff in Hx. destruct Hx as (i & <- & _). apply cnt_nonneg. }
  assert (Hpost : post_strict (limit_all sizes_hi (0 :: b17_of cs ++ repeat 0 239)) = true).
  { apply post_strict_ok; [exact Hb1 | exact Hb2 | rewrite Bs; exact Hn | rewrite Bk; exact Hw]. }
  destruct (limit_all sizes_hi (0 :: b17_of cs ++ repeat 0 239)) as [bits'| | |] eqn:Elim; try discriminate Hpost.
  cbn [post_strict] in Hpost. apply Z.leb_le in Hpost.
  exists (firstn 16 (skipn 1 (remove_pseudo 257 bits' 256))), (opt_values cs).
  split; [|exact Hpost].
  rewrite build_optimal_unfold, Eloop, obind_Ok', (count_sizes_b17 cs Hr), obind_Ok', Elim. reflexivity.
Qed.

(* table_hyp, and the Kraft sum of the table is below 1 *)
Theorem table_strict_holds : forall diffs, diffs <> [] -> Forall (fun d => -32768 <= d <= 32767) diffs ->
  zlen diffs < 2 ^ 63 ->
  exists bits vals, build_optimal (count_freqs diffs) = Ok (bits, vals) /\
                    t81_table_ok bits vals = true /\ covers vals diffs /\ t81_kraft bits 1 <= 65535.
Proof.
  intros diffs Hne Hr Hlen.
  destruct (table_hyp_holds diffs Hne Hr Hlen) as (bits & vals & E1 & E2 & E3).
  exists bits, vals. split; [exact E1|]. split; [exact E2|]. split; [exact E3|].
  destruct (fold_fstep_facts diffs (repeat 0 256) (repeat_length _ _)
              ltac:(apply Forall_forall; intros v Hv; apply repeat_spec in Hv; lia) Hr)
    as (F1 & F2 & F3 & _ & F5 & F6). cbv zeta in *. rewrite <- count_freqs_fold in *.
  assert (Hz0 : zsum (repeat 0 256) = 0) by reflexivity.
  assert (Hok : freqs_ok (count_freqs diffs)).
  { split; [exact F1|]. split; [exact F2|]. split; [|lia].
    intros i Hi. rewrite F6 by lia. apply znth_repeat. lia. }
  assert (Hcat : forall d, In d diffs -> 0 <= diff_category d <= 16).
  { intros d Hd. apply (proj1 (Forall_forall _ _) Hr) in Hd. pose proof (cat_exhaustive d Hd) as Hc.
    destruct (encode_lossless_diff d) as [cat mag]. destruct Hc as (Hc1 & _ & Hc3). lia. }
  assert (Hex : exists i, 0 <= i < 256 /\ znth (count_freqs diffs) i 0 <> 0).
  { destruct diffs as [|d ds]; [contradiction|]. exists (diff_category d).
    specialize (Hcat d (or_introl eq_refl)). specialize (F5 d (or_introl eq_refl)). split; lia. }
  destruct (build_optimal_strict (count_freqs diffs) Hok Hex) as (bits' & vals' & E1' & E4).
  rewrite E1 in E1'. inversion E1'; subst bits' vals'. exact E4.
Qed.
