(* JllStream (C16), part 3: the strict T.81 walker (Framing/FrmJpeg.v) on the whole output of the
   byte-exact JPEG lossless encoder models JllModel.jll_encode (jpeg/lossless, predictor 0..7,
   0 = automatic) and sv1_encode (jpeg/lossless14sv1): SOI, APP0, SOF3, DHT (optimal table), SOS,
   Huffman-coded stuffed scan, EOI.
     stream_frame_wellformed   the walker accepts the stream layout for any valid table whose
                               Kraft sum leaves the all-ones code free and any covered differences;
     jll_frame_wellformed / sv1_frame_wellformed   every frame the encoders emit for a well-formed
                               image, reporting (w, h, comps, P, predictor used). *)
From V Require Import Common.Base.
Require V.JpegLL.JllBits V.JpegLL.JllHuff V.JpegLL.JllModel V.JpegLL.JllT81 V.JpegLL.JllProofsBits
  V.JpegLL.JllProofsHuff V.JpegLL.JllProofs V.JpegLL.JllProofsRT V.JpegLL.JllProofsOpt4
  V.JllStream.JlstProofsTable.
From V Require Import Framing.FrmBase Framing.FrmJpeg Framing.FrmWriters
  Framing.FrmProofsSeg Framing.FrmProofsHuff Framing.FrmProofsHdr Framing.FrmProofsFrame.

Module JB := V.JpegLL.JllBits.
Module JH := V.JpegLL.JllHuff.
Module JM := V.JpegLL.JllModel.
Module JT := V.JpegLL.JllT81.
Module RT := V.JpegLL.JllProofsRT.
Module PH := V.JpegLL.JllProofsHuff.

(* ---------- the JllModel writers are the FrmWriters writers ---------- *)

Lemma jb_byte_of_eq : forall x, JB.byte_of x = byte_of x.
Proof. intros. unfold JB.byte_of, byte_of, wrapU. change 255 with (Z.ones 8). apply Z.land_ones. lia. Qed.

Lemma jm_be16_u16 : forall v, 0 <= v < 65536 -> JM.be16 v = write_u16 v.
Proof.
  intros v Hv. unfold JM.be16, write_u16. rewrite !jb_byte_of_eq.
  rewrite byte_of_hi by assumption. rewrite byte_of_lo. reflexivity.
Qed.

Lemma jm_segment_eq : forall m data, 0 <= m < 65536 -> JM.segment m data = write_segment m data.
Proof.
  intros m data Hm. unfold JM.segment, write_segment, write_marker, segment_length_field.
  rewrite jm_be16_u16 by assumption.
  rewrite jm_be16_u16 by (unfold wrapU; apply Z.mod_pos_bound; reflexivity). reflexivity.
Qed.

Lemma jm_sof3_eq : forall w h comps P, comps = 1 \/ comps = 3 ->
  JM.sof3_data w h comps P = lossless_sof3 P h w comps.
Proof.
  intros w h comps P [-> | ->].
  - change (JM.sof3_data w h 1 P)
      with [JB.byte_of P; JB.byte_of (Z.shiftr h 8); JB.byte_of h; JB.byte_of (Z.shiftr w 8); JB.byte_of w;
            1; 1; 17; 0].
    rewrite !jb_byte_of_eq. reflexivity.
  - change (JM.sof3_data w h 3 P)
      with [JB.byte_of P; JB.byte_of (Z.shiftr h 8); JB.byte_of h; JB.byte_of (Z.shiftr w 8); JB.byte_of w;
            3; 1; 17; 0; 2; 17; 0; 3; 17; 0].
    rewrite !jb_byte_of_eq. reflexivity.
Qed.

Lemma jm_sos_eq : forall comps pred, comps = 1 \/ comps = 3 ->
  JM.sos_data comps pred = lossless_sos comps pred.
Proof.
  intros comps pred [-> | ->].
  - change (JM.sos_data 1 pred) with [1; 1; 0; JB.byte_of pred; 0; 0]. rewrite jb_byte_of_eq. reflexivity.
  - change (JM.sos_data 3 pred) with [3; 1; 0; 2; 0; 3; 0; JB.byte_of pred; 0; 0]. rewrite jb_byte_of_eq. reflexivity.
Qed.

Lemma stuff_flat_map : forall bs, V.JpegLL.JllProofsBits.stuff bs = flat_map he_write_byte bs.
Proof. intros. unfold V.JpegLL.JllProofsBits.stuff. apply flat_map_ext. intros b. reflexivity. Qed.

(* ---------- the DHT payload against the walker's parser ---------- *)

Lemma pow_half : forall e, 2 ^ e / 2 = 2 ^ (e - 1).
Proof.
  intros e. destruct (Z_lt_le_dec e 1) as [H|H].
  - destruct (Z.eq_dec e 0) as [-> | Hn]; [reflexivity|].
    rewrite !Z.pow_neg_r by lia. reflexivity.
  - replace e with (1 + (e - 1)) at 1 by lia. rewrite Z.pow_add_r by lia. change (2 ^ 1) with 2.
    rewrite Z.mul_comm, Z.div_mul by lia. reflexivity.
Qed.

Lemma kraft_t81 : forall bits i, kraft bits (2 ^ (16 - i)) = JT.t81_kraft bits i.
Proof.
  induction bits as [|b bits IH]; intros i; cbn [kraft JT.t81_kraft]; [reflexivity|].
  rewrite pow_half. replace (16 - i - 1) with (16 - (i + 1)) by lia. rewrite IH. reflexivity.
Qed.

Lemma zsum_eq : forall l, zsum l = JH.zsum l.
Proof. induction l as [|x l IH]; [reflexivity|]. cbn [zsum]. rewrite IH. reflexivity. Qed.

Lemma zmem_In : forall x l, zmem x l = true -> In x l.
Proof.
  induction l as [|y l IH]; cbn [zmem]; intros H; [discriminate|].
  apply orb_prop in H. destruct H as [H|H]; [left; apply Z.eqb_eq in H; auto | right; auto].
Qed.

Lemma NoDup_nodup_z : forall l, NoDup l -> nodup_z l = true.
Proof.
  induction 1 as [|x l Hn Hd IH]; [reflexivity|]. cbn [nodup_z]. rewrite IH, andb_true_r.
  destruct (zmem x l) eqn:E; [|reflexivity]. exfalso. apply Hn. apply zmem_In. exact E.
Qed.

Lemma walker_parse_dht_ok : forall bits vals, PH.table_facts bits vals -> JT.t81_kraft bits 1 <= 65535 ->
  parse_dht (0 :: bits ++ vals) [] [] = WOk ([0], []).
Proof.
  intros bits vals [Fl Fb Fs Fv Fn Ff] Hk. unfold parse_dht. cbn [length dht_tables].
  change (0 / 16) with 0. change (0 mod 16) with 0. change ((0 <=? 1) && (0 <=? 3)) with true. cbv iota.
  rewrite <- Fl. rewrite (take_app bits vals).
  assert (Hko : kraft_ok bits = true).
  { unfold kraft_ok. change 32768 with (2 ^ (16 - 1)). rewrite kraft_t81. apply Z.leb_le. exact Hk. }
  rewrite Hko. cbn [negb]. rewrite zsum_eq, Fs. unfold zlen. rewrite Nat2Z.id.
  pose proof (take_app vals []) as Htk. rewrite app_nil_r in Htk. rewrite Htk.
  rewrite (NoDup_nodup_z vals Fn). cbn [negb]. change (0 =? 0) with true. cbv iota.
  destruct (length (bits ++ vals)); reflexivity.
Qed.

(* ---------- the stream layout ---------- *)

Definition jll_declared (w h comps P pred : Z) : jpeg_header :=
  {| jh_frame := lossless_frame_header P h w comps; jh_scans := [lossless_scan comps pred];
     jh_ri := 0; jh_napp := 1 |}.

Lemma stream_shape : forall w h comps P pred diffs bits vals, comps = 1 \/ comps = 3 ->
  PH.table_facts bits vals ->
  RT.stream_of w h comps P pred diffs bits vals
  = [255; 216] ++ write_segment (65280 + 224) jfif_app0
    ++ write_segment (65280 + 195) (lossless_sof3 P h w comps)
    ++ write_segment (65280 + 196) (0 :: bits ++ vals)
    ++ write_segment (65280 + 218) (lossless_sos comps pred)
    ++ JM.enc_syms (JH.build_codes bits vals) JB.w_init diffs ++ [255; 217].
Proof.
  intros w h comps P pred diffs bits vals Hc F. unfold RT.stream_of.
  rewrite !jm_segment_eq by (vm_compute; split; [discriminate | reflexivity]).
  rewrite jm_sof3_eq, jm_sos_eq by assumption. rewrite RT.dht_data_ok by assumption. reflexivity.
Qed.

Theorem stream_frame_wellformed : forall w h comps P pred diffs bits vals,
  dims16 h w -> 2 <= P <= 16 -> comps = 1 \/ comps = 3 -> 1 <= pred <= 7 ->
  JT.t81_table_ok bits vals = true -> JT.t81_kraft bits 1 <= 65535 ->
  V.JpegLL.JllProofs.diffs_ok vals diffs ->
  jpeg_walk (RT.stream_of w h comps P pred diffs bits vals) = WOk (jll_declared w h comps P pred) /\
  (forall b t, exists pos,
     jpeg_walk (RT.stream_of w h comps P pred diffs bits vals ++ b :: t) = WBad RTrailing pos).
Proof.
  intros w h comps P pred diffs bits vals Hd HP Hc Hpr Hok Hk Hdok.
  pose proof (PH.table_ok_facts _ _ Hok) as F.
  rewrite stream_shape by assumption.
  rewrite (V.JpegLL.JllProofs.enc_syms_emit bits vals diffs JB.w_init [] F Hdok V.JpegLL.JllProofsBits.winv_init).
  destruct (V.JpegLL.JllProofsBits.emit_stuff (map (V.JpegLL.JllProofs.word bits vals) diffs) [])
    as (bs & pad & E1 & _ & _); [simpl; lia|].
  rewrite E1, stuff_flat_map.
  assert (Hgen : forall tail fin,
    (forall k st pos, jpeg_loop (S k) st (255 :: 217 :: tail) pos = finish st pos tail) ->
    finish (st_with_scan (st_with_ht (st_with_frame (st_with_app js_init) (lossless_frame_header P h w comps)) [0] [])
              (lossless_scan comps pred))
           (2 + 4 + zlen jfif_app0 + 4 + zlen (lossless_sof3 P h w comps) + 4 + zlen (0 :: bits ++ vals)
            + 4 + zlen (lossless_sos comps pred) + zlen (flat_map he_write_byte bs)) tail = fin ->
    jpeg_walk (([255; 216] ++ write_segment (65280 + 224) jfif_app0
      ++ write_segment (65280 + 195) (lossless_sof3 P h w comps)
      ++ write_segment (65280 + 196) (0 :: bits ++ vals)
      ++ write_segment (65280 + 218) (lossless_sos comps pred)
      ++ flat_map he_write_byte bs ++ [255; 217]) ++ tail) = fin).
  { intros tail fin _ Hfin. unfold jpeg_walk. rewrite <- !app_assoc. cbn [app].
    change ((255 =? 255) && (216 =? 216)) with true. cbv iota.
    remember (length _) as n eqn:Hn.
    assert (Hfuel : exists k, n = S (S (S (S (S (S k)))))).
    { subst n. cbn [length]. unfold write_segment at 1. rewrite !app_length. cbn [length write_marker write_u16].
      eexists. rewrite <- !plus_n_Sm. reflexivity. }
    destruct Hfuel as [k ->]. clear Hn.
    rewrite loop_app0 by (vm_compute; reflexivity).
    erewrite loop_sof3;
      [ | rewrite zlen_sof3 by assumption; lia | reflexivity
        | apply lossless_header_roundtrip; assumption ].
    erewrite loop_dht;
      [ | apply RT.dht_len; exact F
        | cbn [st_with_frame st_with_app js_dc js_ac js_init]; apply walker_parse_dht_ok; assumption ].
    erewrite loop_sos;
      [ | rewrite zlen_sos by assumption; lia
        | reflexivity
        | apply lossless_sos_roundtrip; [assumption | lia]
        |
        | cbn [st_with_ht st_with_frame st_with_app js_ri js_init];
          change (negb (0 =? 0)) with false; apply ecs_scan_flat_map; lia ].
    2:{ unfold check_sos, lossless_frame_header, seq_comps.
        cbn [st_with_ht st_with_frame st_with_app js_done js_dc js_ac js_init jf_nf jf_comps jf_sof jf_p
             sc_comps sc_ss sc_se sc_ah sc_al].
        destruct Hc as [-> | ->]; cbn [Z.eqb Pos.eqb map scomp_id comp_id zlen length Z.of_nat
          Pos.of_succ_nat Pos.succ in_order forallb negb andb orb sos_tables_ok sos_params_ok
          sc_ss sc_se sc_ah sc_al js_dc st_with_ht zmem];
          (destruct (Z.leb_spec 1 pred); [|lia]); (destruct (Z.leb_spec pred 7); [|lia]);
          reflexivity. }
    rewrite loop_eoi. rewrite <- Hfin. f_equal; lia. }
  split.
  - rewrite <- (app_nil_r (_ ++ _)). erewrite Hgen; [reflexivity | intros; apply loop_eoi |].
    unfold finish, jll_declared.
    cbn [st_with_scan st_with_ht st_with_frame st_with_app js_frame js_scans js_done js_ri js_napp js_init
         lossless_frame_header jf_comps].
    unfold seq_comps, lossless_scan. destruct Hc as [-> | ->]; reflexivity.
  - intros b t. eexists. erewrite Hgen; [reflexivity | intros; apply loop_eoi |].
    unfold finish.
    cbn [st_with_scan st_with_ht st_with_frame st_with_app js_frame js_scans js_done js_ri js_napp js_init
         lossless_frame_header jf_comps].
    unfold seq_comps, lossless_scan. destruct Hc as [-> | ->]; reflexivity.
Qed.

(* ---------- the encoders ---------- *)

Lemma encode_stream_wellformed : forall w h comps P pred diffs s,
  dims16 h w -> 2 <= P <= 16 -> comps = 1 \/ comps = 3 -> 1 <= pred <= 7 ->
  diffs <> [] -> Forall (fun d => -32768 <= d <= 32767) diffs -> zlen diffs < 2 ^ 63 ->
  JM.encode_stream w h comps P pred diffs = Ok s ->
  jpeg_wellformed s = Some (jll_declared w h comps P pred) /\
  (forall b t, jpeg_wellformed (s ++ b :: t) = None).
Proof.
  intros w h comps P pred diffs s Hd HP Hc Hpr Hne Hr Hlen Henc.
  destruct (V.JllStream.JlstProofsTable.table_strict_holds diffs Hne Hr Hlen)
    as (bits & vals & E1 & E2 & E3 & E4).
  rewrite (RT.encode_stream_fwd w h comps P pred diffs bits vals E1) in Henc.
  inversion Henc; subst s.
  assert (Hdok : V.JpegLL.JllProofs.diffs_ok vals diffs).
  { unfold V.JpegLL.JllProofs.diffs_ok. apply Forall_forall. intros d Hin. split.
    - exact (proj1 (Forall_forall _ _) Hr d Hin).
    - exact (proj1 (Forall_forall _ _) E3 d Hin). }
  destruct (stream_frame_wellformed w h comps P pred diffs bits vals Hd HP Hc Hpr E2 E4 Hdok) as [Hw Ht].
  unfold jpeg_wellformed. rewrite Hw. split; [reflexivity|].
  intros b t. destruct (Ht b t) as [pos Hp]. rewrite Hp. reflexivity.
Qed.

(* jll_frame_wellformed: every frame jpeg/lossless.Encode returns for a well-formed image
   (w, h in 1..65535, 1 or 3 components, precision 2..16, samples below 2^P in a buffer of
   exactly w*h*comps samples, predictor 0..7 with 0 = automatic selection) is one T.81
   codestream, nothing may follow its EOI, and its headers declare (w, h, comps, P) and the
   predictor actually used *)
Theorem jll_frame_wellformed : forall w h comps P pred pixels s,
  RT.wf_image w h comps P pixels -> 0 <= pred <= 7 ->
  JM.jll_encode w h comps P pred pixels = Ok s ->
  jpeg_wellformed s = Some (jll_declared w h comps P (RT.effective_pred w h comps P pred pixels)) /\
  (forall b t, jpeg_wellformed (s ++ b :: t) = None).
Proof.
  intros w h comps P pred pixels s Hwf Hp Henc.
  rewrite (RT.jll_encode_fwd _ _ _ _ _ _ Hwf Hp) in Henc.
  pose proof Hwf as (Hw & Hh & Hc & HP & _).
  assert (Hep : 1 <= RT.effective_pred w h comps P pred pixels <= 7).
  { unfold RT.effective_pred. destruct (Z.eqb_spec pred 0); [apply RT.select_best_range | lia]. }
  destruct (V.JpegLL.JllProofsOpt4.ll_diffs_facts w h comps P (RT.effective_pred w h comps P pred pixels) pixels Hwf)
    as (D1 & D2 & D3).
  eapply encode_stream_wellformed; [split; lia | exact HP | exact Hc | exact Hep | exact D1 | exact D2 | exact D3 | exact Henc].
Qed.

(* sv1_frame_wellformed: jpeg/lossless14sv1.Encode (predictor 1) *)
Theorem sv1_frame_wellformed : forall w h comps P pixels s,
  RT.wf_image w h comps P pixels ->
  JM.sv1_encode w h comps P pixels = Ok s ->
  jpeg_wellformed s = Some (jll_declared w h comps P 1) /\
  (forall b t, jpeg_wellformed (s ++ b :: t) = None).
Proof.
  intros w h comps P pixels s Hwf Henc.
  rewrite (RT.sv1_encode_fwd _ _ _ _ _ Hwf) in Henc.
  pose proof Hwf as (Hw & Hh & Hc & HP & _).
  destruct (V.JpegLL.JllProofsOpt4.sv1_diffs_facts w h comps P pixels Hwf) as (D1 & D2 & D3).
  eapply encode_stream_wellformed; [split; lia | exact HP | exact Hc | lia | exact D1 | exact D2 | exact D3 | exact Henc].
Qed.
