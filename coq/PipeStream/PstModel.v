(* EXTRACT *)
(* PipeStream (C16 / C04): the glue between the composed pipeline model (Pipe/PipeModel.v), the
   codestream walker written from the standard (Framing/FrmJ2k.v) and the model of the Go
   main-header / tile-part parsers (Parsers/PrsJ2k.v).  Definitions only:

   tile_clean        the exact condition the walker's tile_scan puts on the bytes between SOD
                     and the next SOT / EOC when SOP and EPH are off: no FF is followed by a
                     byte >= 0x90 and the data does not end in FF;
   pipe_siz/pipe_cod/pipe_header   what the walker must return for a parameter record p
                     (the declared geometry equals the arguments);
   j2k_walk_main / j2k_walk_tiles  the walker j2k_walk cut at the first SOT (the cut is
                     proved to be exact: PstProofsWalk.j2k_walk_split). *)
From V Require Import Common.Base Framing.FrmBase Framing.FrmJ2k Pipe.PipeModel.

(* pff: the byte before l was FF *)
Fixpoint tile_clean_from (pff : bool) (l : list Z) : bool :=
  match l with
  | [] => negb pff
  | b :: r => negb (pff && (144 <=? b)) && tile_clean_from (b =? 255) r
  end.

Definition tile_clean (l : list Z) : bool := tile_clean_from false l.

(* Ssiz of every component: depth - 1, bit 7 = signed *)
Definition pipe_ssiz (p : pparams) : Z := pp_prec p - 1 + (if pp_signed p then 128 else 0).

(* the SIZ the walker must read back for p with a tw x th tile grid (0 = the whole image) *)
Definition pipe_siz_tiles (p : pparams) (tw th : Z) : j2k_siz :=
  {| sz_rsiz := 0; sz_x := pp_w p; sz_y := pp_h p; sz_xo := 0; sz_yo := 0;
     sz_xt := if tw =? 0 then pp_w p else tw; sz_yt := if th =? 0 then pp_h p else th;
     sz_xto := 0; sz_yto := 0; sz_c := pp_nc p;
     sz_comps := repeat (pipe_ssiz p, 1, 1) (Z.to_nat (pp_nc p)) |}.

Definition pipe_siz (p : pparams) : j2k_siz := pipe_siz_tiles p 0 0.

(* the COD the walker must read back: nl layers, no precinct partition, style 0, 5/3 *)
Definition pipe_cod_layers (p : pparams) (nl : Z) : j2k_cod :=
  {| cd_scod := 0; cd_prog := pp_order p; cd_layers := nl;
     cd_mct := if pp_mct p && (pp_nc p >=? 3) then 1 else 0;
     cd_levels := pp_levels p; cd_xcb := Z.log2 (pp_cbw p); cd_ycb := Z.log2 (pp_cbh p);
     cd_style := 0; cd_transform := 1; cd_precincts := [] |}.

Definition pipe_cod (p : pparams) : j2k_cod := pipe_cod_layers p 1.

(* the walker's state at the first SOT *)
Definition pipe_mstate_layers (p : pparams) (nl : Z) : mstate :=
  {| ms_cod := Some (pipe_cod_layers p nl); ms_qcd := Some (64, 3 * pp_levels p + 1);
     ms_tlm := []; ms_tlm_seen := false; ms_ztlm := -1;
     ms_ncom := 1; ms_ncap := 0; ms_nmct := 0; ms_nrgn := 0 |}.

Definition pipe_mstate (p : pparams) : mstate := pipe_mstate_layers p 1.

(* the header the walker returns for the single-tile codestream of p around a tile of tlen bytes *)
Definition pipe_header_layers (p : pparams) (nl tlen : Z) : j2k_header :=
  {| jk_rsiz := 0; jk_xsiz := pp_w p; jk_ysiz := pp_h p; jk_xosiz := 0; jk_yosiz := 0;
     jk_xtsiz := pp_w p; jk_ytsiz := pp_h p; jk_xtosiz := 0; jk_ytosiz := 0;
     jk_csiz := pp_nc p; jk_comps := repeat (pipe_ssiz p, 1, 1) (Z.to_nat (pp_nc p));
     jk_ntiles := 1; jk_cod := pipe_cod_layers p nl; jk_sqcd := 64;
     jk_tileparts := [(0, tlen + 14)]; jk_tlm := false;
     jk_ncom := 1; jk_ncap := 0; jk_nmct := 0; jk_nrgn := 0 |}.

Definition pipe_header (p : pparams) (tlen : Z) : j2k_header := pipe_header_layers p 1 tlen.

(* ---------- the walker cut at the first SOT ---------- *)

(* SOC, SIZ, main header segments: returns the SIZ, the state, the list positioned on the
   first SOT (or EOC) and its offset *)
Definition j2k_walk_main (l : list Z) : wres (j2k_siz * mstate * list Z * Z) :=
  match l with
  | a :: b :: r =>
    if negb ((a =? 255) && (b =? 79)) then WBad RNoStart 0
    else match r with
         | c :: d :: _ =>
           if negb ((c =? 255) && (d =? 81)) then WBad RBadMarker 2
           else match read_segment r with
                | SegBad rs rel => WBad rs (2 + rel)
                | SegOk _ p rest =>
                  match parse_siz p with
                  | WBad rs _ => WBad rs 2
                  | WOk s =>
                    match main_loop (length rest) (sz_c s) ms_init rest (6 + zlen p) with
                    | WBad rs q => WBad rs q
                    | WOk (ms, l2, pos2) => WOk (s, ms, l2, pos2)
                    end
                  end
                end
         | _ => WBad RTruncated 2
         end
  | _ => WBad RNoStart 0
  end.

(* consistency of COD and QCD, the tile-parts, EOC, nothing after *)
Definition j2k_walk_tiles (s : j2k_siz) (ms : mstate) (l2 : list Z) (pos2 : Z) : wres j2k_header :=
  match ms_cod ms, ms_qcd ms with
  | None, _ => WBad RCodMissing pos2
  | _, None => WBad RQcdMissing pos2
  | Some cod, Some (sq, nsp) =>
    let qst := sq mod 32 in
    let part15 := Z.odd (sz_rsiz s / 16384) in
    if negb (nsp =? qcd_bytes qst (cd_levels cod)) then WBad RQcdSyntax pos2
    else if negb (part15 || (cd_style cod <? 64)) then WBad RCodSyntax pos2
    else if part15 && (ms_ncap ms =? 0) then WBad RSegSyntax pos2
    else if negb (Bool.eqb (cd_transform cod =? 1) (qst =? 0)) then WBad RQcdStyle pos2
    else
      let ntiles := siz_tiles_x s * siz_tiles_y s in
      let sop := Z.odd (cd_scod cod / 2) in
      let eph := Z.odd (cd_scod cod / 4) in
      match tiles_loop (length l2) (sz_c s) ntiles sop eph [] [] l2 pos2 with
      | WBad rs q => WBad rs q
      | WOk (tab, parts, rest3, pos3) =>
        let parts' := rev parts in
        match parts with
        | [] => WBad RNoTiles pos3
        | _ =>
          if negb (zlen tab =? ntiles) then WBad RTileMissing pos3
          else if negb (forallb tp_complete tab) then WBad RSotTpsot pos3
          else if ms_tlm_seen ms && negb (tlm_match 0 (rev (ms_tlm ms)) parts')
          then WBad RTlmMismatch pos3
          else match rest3 with
               | _ :: _ => WBad RTrailing (pos3 + 2)
               | [] =>
                 WOk {| jk_rsiz := sz_rsiz s;
                        jk_xsiz := sz_x s; jk_ysiz := sz_y s;
                        jk_xosiz := sz_xo s; jk_yosiz := sz_yo s;
                        jk_xtsiz := sz_xt s; jk_ytsiz := sz_yt s;
                        jk_xtosiz := sz_xto s; jk_ytosiz := sz_yto s;
                        jk_csiz := sz_c s; jk_comps := sz_comps s;
                        jk_ntiles := ntiles; jk_cod := cod; jk_sqcd := sq;
                        jk_tileparts := parts'; jk_tlm := ms_tlm_seen ms;
                        jk_ncom := ms_ncom ms; jk_ncap := ms_ncap ms;
                        jk_nmct := ms_nmct ms; jk_nrgn := ms_nrgn ms |}
               end
        end
      end
  end.
