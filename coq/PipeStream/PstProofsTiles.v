(* PipeStream proofs, part 2: the walker on the tile-parts the composed encoder model writes,
   and the whole single-tile codestream: j2k_wellformed (pipe_codestream p tile) = Some header. *)
From V Require Import Common.Base Framing.FrmBase Framing.FrmJ2k Framing.FrmWriters
  Framing.FrmProofsSeg Framing.FrmProofsHdr Pipe.PipeModel Pipe.PipeProofsFront
  PipeStream.PstModel PipeStream.PstHeader PipeStream.PstProofsWalk.

(* tile_clean is exactly what tile_scan (SOP, EPH off) needs to consume the data *)
Lemma tile_scan_clean : forall tile rest pos pff,
  tile_clean_from pff tile = true ->
  tile_scan false false (tile ++ rest) (zlen tile) pos pff = WOk rest.
Proof.
  induction tile as [|b r IH]; intros rest pos pff Hc.
  - cbn [tile_clean_from] in Hc. destruct pff; [discriminate|]. destruct rest; reflexivity.
  - cbn [tile_clean_from] in Hc. apply andb_prop in Hc. destruct Hc as [H1 H2].
    cbn [app tile_scan]. rewrite zlen_cons. pose proof (zlen_nonneg _ r) as Hn.
    destruct (Z.leb_spec (1 + zlen r) 0) as [Hle|_]; [lia|].
    cbn [andb orb negb]. rewrite Bool.andb_true_r.
    apply Bool.negb_true_iff in H1. rewrite H1.
    replace (1 + zlen r - 1) with (zlen r) by lia. apply IH. exact H2.
Qed.

(* and it is necessary: tile_scan accepts exactly zlen tile bytes only when they are clean *)
Lemma tile_scan_clean_inv : forall tile rest pos pff r,
  tile_scan false false (tile ++ rest) (zlen tile) pos pff = WOk r ->
  tile_clean_from pff tile = true.
Proof.
  induction tile as [|b t IH]; intros rest pos pff r H.
  - cbn [app] in H. change (zlen []) with 0 in H.
    destruct rest; cbn [tile_scan Z.leb Z.compare] in H; destruct pff; try discriminate; reflexivity.
  - cbn [app tile_scan] in H. rewrite zlen_cons in H. pose proof (zlen_nonneg _ t) as Hn.
    destruct (Z.leb_spec (1 + zlen t) 0) as [Hle|_]; [lia|].
    cbn [andb orb negb] in H. rewrite Bool.andb_true_r in H.
    cbn [tile_clean_from]. destruct (pff && (144 <=? b)); [discriminate|]. cbn [negb andb].
    replace (1 + zlen t - 1) with (zlen t) in H by lia. eapply IH. exact H.
Qed.

Lemma tiles_loop_eoc : forall fu csiz ntiles sop eph tab parts r pos,
  tiles_loop (S fu) csiz ntiles sop eph tab parts (255 :: 217 :: r) pos = WOk (tab, parts, r, pos).
Proof. reflexivity. Qed.

(* one tile-part: SOT fields exact, Psot = header + data, data clean *)
Lemma tiles_loop_part : forall fu csiz ntiles tab parts idx t rest pos tab',
  0 <= idx < ntiles -> idx < 65536 -> zlen t + 14 < 4294967296 -> tile_clean t = true ->
  tp_step idx 0 1 tab = Some tab' ->
  tiles_loop (S fu) csiz ntiles false false tab parts (pst_tile_part idx t ++ rest) pos
  = tiles_loop fu csiz ntiles false false tab' ((idx, zlen t + 14) :: parts) rest (pos + (zlen t + 14)).
Proof.
  intros fu csiz ntiles tab parts idx t rest pos tab' Hidx Hidx16 Hlen Hclean Hstep.
  pose proof (zlen_nonneg _ t) as Hn.
  unfold pst_tile_part. change (W.write_marker 65424) with [255; 144]. change (W.write_marker 65427) with [255; 147].
  change (W.be16_bytes 10) with [0; 10].
  change W.be16_bytes with be16_bytes. change W.be32_bytes with be32_bytes.
  rewrite be16_bytes_norm by lia. rewrite be32_bytes_norm by lia.
  rewrite <- !app_assoc. cbn [app].
  set (psot := zlen t + 14) in *.
  cbn [tiles_loop Z.eqb Pos.eqb negb].
  change (be16 0 10 =? 10) with true. cbn [negb].
  rewrite be16_split by lia. rewrite be32_join by lia.
  destruct (Z.ltb_spec idx ntiles) as [_|Hge]; [|lia]. cbn [negb].
  destruct (Z.ltb_spec psot 14) as [Hlt|_]; [unfold psot in Hlt; lia|].
  rewrite Hstep.
  cbn [length tile_header Z.eqb Pos.eqb negb].
  replace (psot - (pos + 12 + 2 - pos)) with (zlen t) by (unfold psot; lia).
  destruct (Z.ltb_spec (zlen t) 0) as [Hlt|_]; [lia|].
  rewrite tile_scan_clean by exact Hclean. reflexivity.
Qed.

(* the consistency checks between COD and QCD pass on the state the header leaves *)
Lemma siz_tiles_single : forall p, pp_scope p ->
  siz_tiles_x (pipe_siz_tiles p 0 0) * siz_tiles_y (pipe_siz_tiles p 0 0) = 1.
Proof.
  intros p Hsc. unfold pp_scope in Hsc. unfold siz_tiles_x, siz_tiles_y, pipe_siz_tiles.
  cbn [sz_x sz_y sz_xto sz_yto sz_xt sz_yt Z.eqb]. rewrite !Z.sub_0_r. rewrite !ceil_div_self by lia. reflexivity.
Qed.

Theorem walk_tiles_single : forall p nl tile pos,
  pp_scope p -> zlen tile + 14 < 4294967296 -> tile_clean tile = true ->
  j2k_walk_tiles (pipe_siz_tiles p 0 0) (pipe_mstate_layers p nl) (pst_tile_part 0 tile ++ [255; 217]) pos
  = WOk (pipe_header_layers p nl (zlen tile)).
Proof.
  intros p nl tile pos Hsc Hlen Hclean.
  pose proof (siz_tiles_single p Hsc) as Hnt.
  unfold j2k_walk_tiles. cbn [pipe_mstate_layers ms_cod ms_qcd ms_ncap ms_tlm_seen ms_tlm ms_ncom ms_nmct ms_nrgn].
  change (64 mod 32) with 0. unfold qcd_bytes. cbn [Z.eqb pipe_cod_layers cd_levels cd_style cd_transform cd_scod].
  rewrite Z.eqb_refl. cbn [negb].
  change (sz_rsiz (pipe_siz_tiles p 0 0)) with 0. change (Z.odd (0 / 16384)) with false.
  change (0 <? 64) with true. cbn [orb andb negb Pos.eqb Bool.eqb].
  change (Z.odd (0 / 2)) with false. change (Z.odd (0 / 4)) with false.
  rewrite Hnt.
  match goal with |- context [tiles_loop (length ?L)] => set (fuel := length L) end.
  assert (Hfuel : (2 <= fuel)%nat).
  { unfold fuel, pst_tile_part. rewrite !app_length. cbn [length]. lia. }
  destruct fuel as [|[|fu]]; try lia.
  rewrite (tiles_loop_part _ _ _ [] [] 0 tile _ _ [(0, 1, 1)]); try lia; try assumption; [|reflexivity].
  rewrite tiles_loop_eoc.
  cbn [rev app]. change (zlen [(0, 1, 1)] =? 1) with true. cbn [negb forallb tp_complete Z.eqb Pos.eqb orb andb].
  reflexivity.
Qed.

(* ---------- the whole codestream ---------- *)

Lemma starts_tiles_part : forall idx t rest, starts_tiles (pst_tile_part idx t ++ rest).
Proof. intros. eexists. left. unfold pst_tile_part. rewrite <- !app_assoc. reflexivity. Qed.

Theorem codestream_layers_wellformed : forall p nl tile,
  pp_scope p -> 1 <= nl <= 65535 -> zlen tile + 14 < 4294967296 -> tile_clean tile = true ->
  j2k_wellformed (pst_main_header p nl 0 0 ++ pst_tile_part 0 tile ++ [255; 217])
  = Some (pipe_header_layers p nl (zlen tile)).
Proof.
  intros p nl tile Hsc Hnl Hlen Hclean. unfold j2k_wellformed. rewrite j2k_walk_split.
  rewrite walk_main_header; [| assumption | assumption | apply tile_grid_ok_single; assumption | apply starts_tiles_part].
  cbn [wbind]. rewrite walk_tiles_single by assumption. reflexivity.
Qed.

(* the size condition follows from the tile fitting a Go slice, stated as a plain bound *)
Theorem pipe_codestream_wellformed : forall p tile,
  pp_scope p -> zlen tile + 14 < 4294967296 -> tile_clean tile = true ->
  j2k_wellformed (pipe_codestream p tile) = Some (pipe_header p (zlen tile)).
Proof.
  intros p tile Hsc Hlen Hclean. rewrite pipe_codestream_eq.
  apply codestream_layers_wellformed; try assumption. lia.
Qed.

Theorem pipe_codestream_layers_wellformed : forall p nl tile,
  pp_scope p -> 1 <= nl <= 65535 -> zlen tile + 14 < 4294967296 -> tile_clean tile = true ->
  j2k_wellformed (pipe_codestream_layers p nl tile) = Some (pipe_header_layers p nl (zlen tile)).
Proof.
  intros p nl tile Hsc Hnl Hlen Hclean. rewrite pipe_codestream_layers_eq.
  apply codestream_layers_wellformed; assumption.
Qed.

(* the converse: a tile that is not clean makes the walker reject the codestream *)
Theorem pipe_codestream_wellformed_inv : forall p tile h,
  pp_scope p -> zlen tile + 14 < 4294967296 ->
  j2k_wellformed (pipe_codestream p tile) = Some h -> tile_clean tile = true.
Proof.
  intros p tile h Hsc Hlen H. destruct (tile_clean tile) eqn:E; [reflexivity|exfalso].
  rewrite pipe_codestream_eq in H. unfold j2k_wellformed in H. rewrite j2k_walk_split in H.
  rewrite walk_main_header in H; [| assumption | lia | apply tile_grid_ok_single; assumption | apply starts_tiles_part].
  cbn [wbind] in H.
  pose proof (siz_tiles_single p Hsc) as Hnt. pose proof (zlen_nonneg _ tile) as Hn.
  unfold j2k_walk_tiles in H. cbn [pipe_mstate_layers ms_cod ms_qcd ms_ncap ms_tlm_seen ms_tlm ms_ncom ms_nmct ms_nrgn] in H.
  change (64 mod 32) with 0 in H. unfold qcd_bytes in H. cbn [Z.eqb pipe_cod_layers cd_levels cd_style cd_transform cd_scod] in H.
  rewrite Z.eqb_refl in H. cbn [negb] in H.
  change (sz_rsiz (pipe_siz_tiles p 0 0)) with 0 in H. change (Z.odd (0 / 16384)) with false in H.
  change (0 <? 64) with true in H. cbn [orb andb negb Pos.eqb Bool.eqb] in H.
  change (Z.odd (0 / 2)) with false in H. change (Z.odd (0 / 4)) with false in H.
  rewrite Hnt in H.
  match type of H with context [tiles_loop (length ?L)] => set (fuel := length L) in H end.
  assert (Hfuel : (2 <= fuel)%nat).
  { unfold fuel, pst_tile_part. rewrite !app_length. cbn [length]. lia. }
  destruct fuel as [|[|fu]]; try lia.
  unfold pst_tile_part in H. change (W.write_marker 65424) with [255; 144] in H. change (W.write_marker 65427) with [255; 147] in H.
  change (W.be16_bytes 10) with [0; 10] in H. change (W.be16_bytes 0) with [0; 0] in H.
  change W.be32_bytes with be32_bytes in H. rewrite be32_bytes_norm in H by lia.
  rewrite <- !app_assoc in H. cbn [app] in H.
  set (psot := zlen tile + 14) in *.
  cbn [tiles_loop Z.eqb Pos.eqb negb] in H.
  change (be16 0 10 =? 10) with true in H. change (be16 0 0 <? 1) with true in H. cbn [negb] in H.
  rewrite be32_join in H by lia.
  destruct (Z.ltb_spec psot 14) as [Hlt|_]; [unfold psot in Hlt; lia|].
  change (tp_step (be16 0 0) 0 1 []) with (Some [(0, 1, 1)]) in H.
  cbn [length tile_header Z.eqb Pos.eqb negb] in H.
  match type of H with context [psot - ?e] => replace (psot - e) with (zlen tile) in H by (unfold psot; lia) end.
  destruct (Z.ltb_spec (zlen tile) 0) as [Hlt|_]; [lia|].
  destruct (tile_scan false false (tile ++ [255; 217]) (zlen tile) _ false) as [r|rs q] eqn:Es; [|discriminate].
  apply tile_scan_clean_inv in Es. unfold tile_clean in E. congruence.
Qed.
