(* PipeStream proofs, part 6: the composed encoder's whole output is a well-formed codestream.
   tile_clean is discharged for the tiles the encoder model produces (PstProofsCleanMain: packet
   headers are bio-writer output, packet bodies are concatenations of MQ Flush outputs, none of
   which ends in FF).  ONE hypothesis remains: the tile is shorter than 2^32 - 14 bytes, so that
   Psot (a uint32) carries its length (psot_fits). *)
From V Require Import Common.Base Framing.FrmBase Framing.FrmJ2k Framing.FrmWriters
  Framing.FrmProofsSeg Framing.FrmProofsHdr Pipe.PipeModel Pipe.PipeProofsFront
  PipeStream.PstModel PipeStream.PstHeader PipeStream.PstProofsWalk PipeStream.PstProofsTiles
  PipeStream.PstProofsTilesN PipeStream.PstProofsTop PipeStream.PstProofsEncTiles
  PipeStream.PstProofsCleanMain.

Definition pipe_encode_wellformed_statement : Prop :=
  forall p pix cs, pp_scope p -> pipe_encode p pix = Ok cs ->
  exists n, j2k_wellformed cs = Some (pipe_header p n).

(* missing for the full statement: a bound zlen tile < 2^32 - 14 on the encoder's output (needs a
   bound on the MQ coder's output length per decision; for larger tiles the Go encoder's uint32(Psot)
   wraps exactly as the model's be32_bytes does and the stream is NOT well formed) *)
Theorem pipe_encode_wellformed_partial : forall p pix cs,
  pp_scope p ->
  (forall tile, pipe_encode_tile p pix = Ok tile -> psot_fits tile) ->
  pipe_encode p pix = Ok cs ->
  exists n, j2k_wellformed cs = Some (pipe_header p n) /\ zlen cs = zlen (pipe_main_header p) + 14 + n + 2.
Proof.
  intros p pix cs Hsc Hfit He. eapply pipe_encode_wellformed_given_clean; try eassumption.
  intros tile Et. split; [apply Hfit; exact Et | eapply pipe_encode_tile_clean; exact Et].
Qed.

Theorem pipe_encode_tiles_wellformed_partial : forall p tw th pix tiles,
  pp_scope p -> tile_grid_ok p tw th ->
  pipe_encode_tiles p tw th pix = Ok tiles -> Forall psot_fits tiles ->
  j2k_wellformed (pipe_codestream_tiles p tw th tiles) = Some (pst_header p 1 tw th tiles).
Proof.
  intros p tw th pix tiles Hsc Hg He Hfit. eapply pipe_encode_tiles_wellformed_given_clean; try eassumption.
  pose proof (pipe_encode_tiles_clean _ _ _ _ _ He) as Hc.
  rewrite Forall_forall in *. intros t Ht. split; [apply Hfit; exact Ht | apply Hc; exact Ht].
Qed.
