(* PipeStream, tile_clean part 5: QUALITY LAYERS (beyond the single-layer task).
   The store invariant of PstProofsCleanT2 generalised to blocks that carry LayerData
   (eb_ld = Some segments): `blk_lclean` = eb_data is clean and EVERY layer segment is clean.
   enc_packets over such a store still yields tile_clean bytes (any number of layers).

   For the composed layered encoder the one missing part is named:
     hyp_layer_blocks_clean p nl alloc : every eblock produced by enc_code_block_layers for the
       block rows of `alloc` is blk_lclean, i.e. the byte ranges finalize_block cuts out of the MQ
       codeword at the (normalised) pass rates do not END in FF.  (Inside a range the FF rule is
       inherited from the codeword; normalizePassRates moves a rate that lands behind an FF one
       byte back, which is exactly what makes the ranges clean: proved in PstProofsCleanCuts.v and
       discharged in PstProofsCleanLayersMain.v, hyp_layer_blocks_clean_holds.)
   pipe_encode_tile_layers_clean_partial : hyp_layer_blocks_clean -> tile_clean tile. *)
From V Require Import Common.Base Framing.FrmBase Framing.FrmWriters Framing.FrmProofsBio.
From V Require Import Pipe.PipeModel.
From V Require Import T2.T2Bio T2.T2TagTree J2KGeo.GeoLayers T2.T2Header T2.T2Packets.
From V Require Import PipeStream.PstModel PipeStream.PstProofsCleanList PipeStream.PstProofsCleanT2
  PipeStream.PstProofsCleanMain.

Definition blk_lclean (b : eblock) : Prop :=
  tile_clean (eb_data b) = true /\
  match eb_ld b with None => True | Some ldl => Forall (fun l => tile_clean l = true) ldl end.
Definition band_lclean (q : eband) : Prop := Forall blk_lclean (ebn_blocks q).
Definition bands_lclean (l : list eband) : Prop := Forall band_lclean l.
Definition cells_lclean (cells : ecells) : Prop := Forall (fun kv => bands_lclean (snd kv)) cells.

Lemma blk_clean_lclean : forall b, blk_clean b -> blk_lclean b.
Proof. intros b [Hl Hd]. split; [exact Hd|]. rewrite Hl. exact I. Qed.

Lemma blk_lclean_with : forall b inc nlb, blk_lclean b -> blk_lclean (eb_with b inc nlb).
Proof. intros b inc nlb H. exact H. Qed.

(* ---------- one code-block ---------- *)
Lemma layer_contribution_lclean : forall b layer,
  blk_lclean b -> tile_clean (snd (layer_contribution (eb_ld b) (eb_lp b) (eb_data b) (eb_npt b) layer)) = true.
Proof.
  intros b layer [Hd Hl]. unfold layer_contribution. destruct (eb_ld b) as [ldl|]; [|exact Hd].
  destruct (layer <? zlen ldl); [|exact Hd].
  destruct (if layer <? zlen (eb_lp b) then _ else _) as [incl np]. cbn [snd].
  generalize (Z.to_nat layer). induction Hl as [|x r Hx Hr IH]; intros [|n]; cbn [nth]; auto.
Qed.

Lemma enc_block_lclean : forall it zt b layer bs inc b' it' zt',
  blk_lclean b -> enc_block it zt b layer = Ok (bs, inc, b', it', zt') -> inc_clean inc /\ blk_lclean b'.
Proof.
  intros it zt b layer bs inc b' it' zt' Hb E.
  pose proof (layer_contribution_lclean b layer Hb) as Hlc.
  unfold enc_block in E.
  destruct (layer_contribution (eb_ld b) (eb_lp b) (eb_data b) (eb_npt b) layer) as [[included np] data].
  cbn [snd] in Hlc. cbv beta iota zeta in E.
  assert (Hcont : forall bs0 b1 it1 zt1,
    blk_lclean b1 ->
    obind (enc_numpasses np) (fun bs3 =>
      let '(prev, total) := prev_and_total_passes false (eb_lp b1) (eb_npt b1) layer np in
      obind (enc_lengths (eb_nlb b1) (zlen data) prev np
               (eb_termall b1 && negb (match block_pass_lens b1 with None => true | Some l => total >? zlen l end))
               (block_pass_lens b1) (block_terms b1)) (fun ln =>
        Ok (bs0 ++ bs3 ++ fst ln,
            {| ei_included := included; ei_np := np; ei_len := zlen data; ei_data := data |},
            eb_with b1 (eb_included b1) (snd ln), it1, zt1))) = Ok (bs, inc, b', it', zt') ->
    inc_clean inc /\ blk_lclean b').
  { intros bs0 b1 it1 zt1 Hb1 E1.
    destruct (enc_numpasses np) as [bs3| | |]; cbn [obind] in E1; try discriminate.
    destruct (prev_and_total_passes false (eb_lp b1) (eb_npt b1) layer np) as [prev total].
    destruct (enc_lengths _ _ _ _ _ _ _) as [ln| | |]; cbn [obind] in E1; try discriminate.
    inversion E1; subst. split; [exact Hlc|]. apply blk_lclean_with. exact Hb1. }
  destruct (negb (eb_included b)).
  - destruct (tt_encode it (eb_cbx b) (eb_cby b) (layer + 1)) as [e1| | |]; cbn [obind] in E; try discriminate.
    destruct (negb included).
    + inversion E; subst. split; [apply inc_clean_skip|exact Hb].
    + destruct (tt_encode zt (eb_cbx b) (eb_cby b) 999) as [e2| | |]; cbn [obind] in E; try discriminate.
      eapply Hcont; [|exact E]. apply blk_lclean_with; exact Hb.
  - destruct included.
    + eapply Hcont; [|exact E]. exact Hb.
    + inversion E; subst. split; [apply inc_clean_skip|exact Hb].
Qed.

Lemma enc_blocks_lclean : forall blocks it zt layer bs incs bl it' zt',
  Forall blk_lclean blocks -> enc_blocks it zt blocks layer = Ok (bs, incs, bl, it', zt') ->
  Forall inc_clean incs /\ Forall blk_lclean bl.
Proof.
  induction blocks as [|b r IH]; intros it zt layer bs incs bl it' zt' Hbl E; cbn [enc_blocks] in E.
  - inversion E; subst. split; constructor.
  - inversion Hbl as [|? ? Hb Hr]; subst.
    destruct (enc_block it zt b layer) as [[[[[bs1 inc1] b1] it1] zt1]| | |] eqn:E1; cbn [obind] in E; try discriminate.
    destruct (enc_blocks it1 zt1 r layer) as [[[[[bs2 incs2] bl2] it2] zt2]| | |] eqn:E2; cbn [obind] in E; try discriminate.
    inversion E; subst.
    destruct (enc_block_lclean _ _ _ _ _ _ _ _ _ Hb E1) as [Hi Hb1].
    destruct (IH _ _ _ _ _ _ _ _ Hr E2) as [His Hbs].
    split; constructor; assumption.
Qed.

(* ---------- a band ---------- *)
Lemma insert_block_lclean : forall b l, blk_lclean b -> Forall blk_lclean l -> Forall blk_lclean (insert_block b l).
Proof.
  intros b l Hb. induction l as [|x r IH]; intros Hl; cbn [insert_block].
  - constructor; [exact Hb|constructor].
  - inversion Hl; subst. destruct (block_lt x b); constructor; auto.
Qed.

Lemma sort_blocks_lclean : forall l, Forall blk_lclean l -> Forall blk_lclean (sort_blocks l).
Proof.
  unfold sort_blocks. induction l as [|x r IH]; intros H; cbn [fold_right]; [constructor|].
  inversion H; subst. apply insert_block_lclean; auto.
Qed.

Lemma prepare_band_lclean : forall q layer, band_lclean q -> band_lclean (prepare_band q layer).
Proof.
  intros q layer H. unfold prepare_band. destruct (ebn_blocks q) as [|b0 r0] eqn:Eb; [exact H|].
  unfold band_lclean in *. rewrite Eb in H.
  repeat match goal with |- context [let '(_, _) := ?x in _] => destruct x end.
  unfold ebn_with. cbn [ebn_blocks]. apply sort_blocks_lclean. exact H.
Qed.

Lemma enc_bands_lclean : forall bands layer bs incs ps,
  bands_lclean bands -> enc_bands bands layer = Ok (bs, incs, ps) -> Forall inc_clean incs /\ bands_lclean ps.
Proof.
  induction bands as [|q r IH]; intros layer bs incs ps Hb E; cbn [enc_bands] in E.
  - inversion E; subst. split; constructor.
  - inversion Hb as [|? ? Hq Hr]; subst.
    destruct (ebn_blocks q) as [|b0 r0] eqn:Eb.
    + destruct (enc_bands r layer) as [[[bs2 incs2] ps2]| | |] eqn:E2; cbn [obind] in E; try discriminate.
      inversion E; subst. destruct (IH _ _ _ _ Hr E2) as [Hi Hp]. split; [exact Hi|constructor; assumption].
    + destruct (ebn_trees q) as [[it zt]|]; [|discriminate].
      destruct (enc_blocks it zt (b0 :: r0) layer) as [[[[[bs1 incs1] bl1] it1] zt1]| | |] eqn:E1;
        cbn [obind] in E; try discriminate.
      destruct (enc_bands r layer) as [[[bs2 incs2] ps2]| | |] eqn:E2; cbn [obind] in E; try discriminate.
      inversion E; subst.
      unfold band_lclean in Hq. rewrite Eb in Hq.
      destruct (enc_blocks_lclean _ _ _ _ _ _ _ _ _ Hq E1) as [Hi1 Hb1].
      destruct (IH _ _ _ _ Hr E2) as [Hi2 Hp2].
      split; [apply Forall_app; split; assumption|].
      constructor; [|exact Hp2]. unfold band_lclean, ebn_with. cbn [ebn_blocks]. exact Hb1.
Qed.

(* ---------- the header ---------- *)
Lemma enc_header_bits_lclean : forall bands layer bs incs ps,
  bands_lclean bands -> enc_header_bits bands layer = Ok (bs, incs, ps) -> Forall inc_clean incs /\ bands_lclean ps.
Proof.
  intros bands layer bs incs ps Hb E. unfold enc_header_bits in E.
  destruct (negb (has_code_blocks bands)).
  - inversion E; subst. split; [constructor|exact Hb].
  - destruct (enc_bands (map (fun p => prepare_band p layer) bands) layer) as [[[bs2 incs2] ps2]| | |] eqn:E2;
      cbn [obind] in E; try discriminate.
    inversion E; subst. eapply enc_bands_lclean; [|exact E2].
    unfold bands_lclean. apply Forall_map. eapply Forall_impl; [|exact Hb].
    intros q Hq. apply prepare_band_lclean. exact Hq.
Qed.

Lemma enc_header_lclean : forall bands layer hdr incs ps,
  bands_lclean bands -> enc_header bands layer = Ok (hdr, incs, ps) ->
  tile_clean hdr = true /\ Forall inc_clean incs /\ bands_lclean ps.
Proof.
  intros bands layer hdr incs ps Hb E. split; [eapply enc_header_hdr_clean; exact E|].
  unfold enc_header in E.
  destruct (enc_header_bits bands layer) as [[[bs incs2] ps2]| | |] eqn:E2; cbn [obind] in E; try discriminate.
  inversion E; subst. eapply enc_header_bits_lclean; [exact Hb|exact E2].
Qed.

(* ---------- one packet ---------- *)
Lemma order_bands_lclean : forall bands res, bands_lclean bands -> bands_lclean (order_bands bands res).
Proof.
  intros bands res H. unfold order_bands, bands_lclean. apply Forall_forall. intros q Hq.
  apply in_flat_map in Hq. destruct Hq as (bid & _ & Hq). apply filter_In in Hq. destruct Hq as [Hq _].
  unfold bands_lclean in H. rewrite Forall_forall in H. apply H. exact Hq.
Qed.

Lemma write_back_lclean : forall bands upd, bands_lclean bands -> bands_lclean upd -> bands_lclean (write_back bands upd).
Proof.
  intros bands upd Hb Hu. unfold write_back, bands_lclean. apply Forall_map. eapply Forall_impl; [|exact Hb].
  intros q Hq. cbv beta. destruct (find _ upd) as [q'|] eqn:Ef; [|exact Hq].
  apply find_some in Ef. destruct Ef as [Hin _]. unfold bands_lclean in Hu. rewrite Forall_forall in Hu. apply Hu. exact Hin.
Qed.

Lemma enc_packet_lclean : forall bands layer res hdr body incs bands',
  bands_lclean bands -> enc_packet bands layer res = Ok (hdr, body, incs, bands') ->
  tile_clean hdr = true /\ tile_clean body = true /\ bands_lclean bands'.
Proof.
  intros bands layer res hdr body incs bands' Hb E. unfold enc_packet in E.
  destruct (enc_header (order_bands bands res) layer) as [[[hdr1 incs1] upd]| | |] eqn:E1; cbn [obind] in E; try discriminate.
  inversion E; subst.
  destruct (enc_header_lclean _ _ _ _ _ (order_bands_lclean bands res Hb) E1) as (Hh & Hi & Hu).
  split; [exact Hh|]. split; [apply packet_body_clean; exact Hi|]. apply write_back_lclean; assumption.
Qed.

(* ---------- the store and the packet sequence ---------- *)
Lemma aget_cells_lclean : forall (cells : ecells) k v, cells_lclean cells -> aget key3_eqb cells k = Some v -> bands_lclean v.
Proof.
  induction cells as [|[k' v'] r IH]; intros k v H E; cbn [aget] in E; [discriminate|].
  inversion H as [|? ? H1 H2]; subst. destruct (key3_eqb k' k).
  - inversion E; subst. exact H1.
  - eapply IH; eassumption.
Qed.

Lemma aset_cells_lclean : forall (cells : ecells) k v, cells_lclean cells -> bands_lclean v -> cells_lclean (aset key3_eqb cells k v).
Proof.
  induction cells as [|[k' v'] r IH]; intros k v H Hv; cbn [aset].
  - constructor; [exact Hv|constructor].
  - inversion H as [|? ? H1 H2]; subst. destruct (key3_eqb k' k).
    + constructor; [exact Hv|exact H2].
    + constructor; [exact H1|apply IH; assumption].
Qed.

Lemma enc_items_lclean : forall items cells ps cells',
  cells_lclean cells -> enc_items cells items = Ok (ps, cells') -> Forall packet_clean ps /\ cells_lclean cells'.
Proof.
  induction items as [|[[[l r] c] p] rest IH]; intros cells ps cells' Hc E; cbn [enc_items] in E.
  - inversion E; subst. split; [constructor|exact Hc].
  - destruct (aget key3_eqb cells (c, r, p)) as [[|b0 br]|] eqn:Ea; try (eapply IH; eassumption).
    pose proof (aget_cells_lclean _ _ _ Hc Ea) as Hb.
    destruct (enc_packet (b0 :: br) l r) as [[[[hdr body] incs] bands']| | |] eqn:Ep; cbn [obind] in E; try discriminate.
    destruct (enc_packet_lclean _ _ _ _ _ _ _ Hb Ep) as (Hh & Hbd & Hb').
    destruct (enc_items (aset key3_eqb cells (c, r, p) bands') rest) as [[ps2 cells2]| | |] eqn:E2; cbn [obind] in E; try discriminate.
    inversion E; subst. cbn [fst snd].
    destruct (IH _ _ _ (aset_cells_lclean _ _ _ Hc Hb') E2) as [Hps Hc2].
    split; [|exact Hc2]. constructor; [|exact Hps]. split; [exact Hh|exact Hbd].
Qed.

(* EncodePackets + packetsToBytes over a clean store *)
Theorem enc_packets_lclean : forall order nl nr nc g cells ps cells',
  cells_lclean cells -> enc_packets order nl nr nc g cells = Ok (ps, cells') ->
  tile_clean (packets_bytes ps) = true /\ cells_lclean cells'.
Proof.
  intros order nl nr nc g cells ps cells' Hc E. unfold enc_packets in E.
  destruct (prog_seq _ _ _ _ _ _) as [items|]; [|discriminate].
  destruct (enc_items_lclean _ _ _ _ Hc E) as [Hps Hc']. split; [apply packets_bytes_clean; exact Hps|exact Hc'].
Qed.

(* ---------- the composed layered encoder ---------- *)
Lemma add_to_bands_lclean : forall bands band b, bands_lclean bands -> blk_lclean b -> bands_lclean (add_to_bands bands band b).
Proof.
  induction bands as [|q r IH]; intros band b Hb Hk; cbn [add_to_bands].
  - constructor; [|constructor]. unfold band_lclean. cbn [ebn_blocks]. constructor; [exact Hk|constructor].
  - inversion Hb as [|? ? Hq Hr]; subst. destruct (ebn_band q =? band).
    + constructor; [|exact Hr]. unfold band_lclean in *. cbn [ebn_blocks]. apply Forall_app. split; [exact Hq|].
      constructor; [exact Hk|constructor].
    + constructor; [exact Hq|]. apply IH; assumption.
Qed.

Lemma add_code_block_lclean : forall cells comp res pidx band b,
  cells_lclean cells -> blk_lclean b -> cells_lclean (add_code_block cells comp res pidx band b).
Proof.
  intros cells comp res pidx band b Hc Hb. unfold add_code_block.
  apply aset_cells_lclean; [exact Hc|]. apply add_to_bands_lclean; [|exact Hb].
  destruct (aget key3_eqb cells (comp, res, pidx)) as [l|] eqn:Ea.
  - eapply aget_cells_lclean; eassumption.
  - constructor.
Qed.

Definition entry_lclean (x : Z * Z * Z * eblock) : Prop := blk_lclean (snd x).

Lemma add_blocks_lclean : forall l comp cells, cells_lclean cells -> Forall entry_lclean l -> cells_lclean (add_blocks comp cells l).
Proof.
  unfold add_blocks. induction l as [|[[[res pidx] band] b] r IH]; intros comp cells Hc Hl; cbn [fold_left]; [exact Hc|].
  inversion Hl as [|? ? Hx Hr]; subst. apply IH; [|exact Hr]. apply add_code_block_lclean; [exact Hc|exact Hx].
Qed.

(* the named missing part *)
Definition hyp_layer_blocks_clean (p : pparams) (nl : Z) (alloc : Z -> bkey -> list Z) : Prop :=
  forall comp key res cb cbx cby b,
    enc_code_block_layers p nl (alloc comp key) res cb cbx cby = Ok b -> blk_lclean b.

Lemma enc_add_comps_layers_lclean : forall p nl alloc, hyp_layer_blocks_clean p nl alloc ->
  forall coeffs comp cells cells',
  cells_lclean cells -> enc_add_comps_layers p nl alloc comp cells coeffs = Ok cells' -> cells_lclean cells'.
Proof.
  intros p nl alloc Hyp. induction coeffs as [|d r IH]; intros comp cells cells' Hc E; cbn [enc_add_comps_layers] in E.
  - inversion E; subst. exact Hc.
  - destruct (omap (enc_one_block_layers p nl (alloc comp)) (PipeModel.enc_blocks p d)) as [bl| | |] eqn:Eo; cbn [obind] in E; try discriminate.
    eapply IH; [|exact E]. apply add_blocks_lclean; [exact Hc|].
    eapply omap_Forall; [|exact Eo]. intros [res cb] x Hx. unfold enc_one_block_layers in Hx.
    destruct (enc_code_block_layers _ _ _ _ _ _ _) as [b| | |] eqn:Eb; cbn [obind] in Hx; try discriminate.
    inversion Hx; subst. unfold entry_lclean. cbn [snd]. eapply Hyp; exact Eb.
Qed.

Theorem pipe_tile_bytes_layers_clean : forall p nl cells tile,
  cells_lclean cells -> pipe_tile_bytes_layers p nl cells = Ok tile -> tile_clean tile = true.
Proof.
  intros p nl cells tile Hc E. unfold pipe_tile_bytes_layers in E.
  destruct (enc_packets _ _ _ _ _ cells) as [[ps cells']| | |] eqn:Ep; try discriminate.
  - inversion E; subst. cbn [fst]. exact (proj1 (enc_packets_lclean _ _ _ _ _ _ _ _ Hc Ep)).
  - inversion E; subst. exact tile_clean_zero.
Qed.

Definition pipe_encode_tile_layers_clean_statement : Prop :=
  forall p nl alloc pix tile,
    pipe_encode_tile_layers p nl alloc pix = Ok tile -> tile_clean tile = true.

Theorem pipe_encode_tile_layers_clean_partial : forall p nl alloc pix tile,
  hyp_layer_blocks_clean p nl alloc ->
  pipe_encode_tile_layers p nl alloc pix = Ok tile -> tile_clean tile = true.
Proof.
  intros p nl alloc pix tile Hyp E. unfold pipe_encode_tile_layers in E.
  destruct (pipe_coeffs p pix) as [coeffs| | |]; cbn [obind] in E; try discriminate.
  destruct (pipe_cells_layers p nl alloc coeffs) as [cells| | |] eqn:Ec; cbn [obind] in E; try discriminate.
  eapply pipe_tile_bytes_layers_clean; [|exact E]. unfold pipe_cells_layers in Ec.
  eapply enc_add_comps_layers_lclean; [exact Hyp| |exact Ec]. constructor.
Qed.
