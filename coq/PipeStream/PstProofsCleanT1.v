(* PipeStream, tile_clean part 3: the code-block bytes.
   T1.T1Bytes.enc_plain / enc_layered for a style without LAZY, TERMALL and PTERM (in particular
   style 0, the pipeline's): the byte string is
       []                                              maxBitplane < fb  (no pass coded)
       enc_flush (enc_new nctx)                         all-zero block (enc_plain only)
       enc_flush (enc_mq_passes reset (enc_new_cx cx0) decisions)   otherwise
   (T1ProofsComp.enc_bytes_mq: when the LAST pass (cleanup of plane 0) is reached the encoder
   runs FlushToOutput = enc_flush_state and returns the buffer, otherwise it returns
   Flush() = enc_flush; both are the MQ `Flush` termination (setbits / two byteouts, ISO
   C.2.9), never the ERTERM / PTERM one).  normalize_rev only rewrites the pass records, not the
   bytes.  MqProofs.enc_flush_no_marker then gives tile_clean.  Holds for ANY data whose max
   bit-plane is <= 30 (all int32 data), any block size, any orientation. *)
From V Require Import Common.Base MQ.MqModel MQ.MqProofs.
From V Require Import T1.T1Store T1.T1Ctx T1.T1CtxProofs T1.T1Model T1.T1Bytes T1.T1ProofsBase
  T1.T1ProofsSeq T1.T1ProofsMqRt T1.T1ProofsComp.
From V Require Import T2.T2Header T2.T2Packets Pipe.PipeModel.
From V Require Import PipeStream.PstModel PipeStream.PstProofsCleanList PipeStream.PstProofsCleanT2.
Require V.J2KGeo.GeoModel.

(* ---------- the bit-plane bound for int32 data ---------- *)
Definition i32_range (v : Z) : Prop := - 2 ^ 31 <= v < 2 ^ 31.

Lemma wrapS32_range : forall x, i32_range (wrapS 32 x).
Proof.
  intros x. unfold i32_range, wrapS. change (2 ^ (32 - 1)) with (2 ^ 31).
  pose proof (Z.mod_pos_bound x (2 ^ 32) ltac:(lia)) as H.
  change (2 ^ 32) with (2 * 2 ^ 31) in *.
  destruct (Z.ltb_spec (x mod (2 * 2 ^ 31)) (2 ^ 31)); lia.
Qed.

Lemma abs32_le : forall v, i32_range v -> abs32 v <= 2 ^ 31 - 1.
Proof.
  intros v Hv. unfold abs32. destruct (Z.ltb_spec v 0); [|unfold i32_range in Hv; lia].
  pose proof (wrapS32_range (- v)) as H1. unfold i32_range in H1. lia.
Qed.

Lemma find_max_bitplane_le30 : forall data, Forall i32_range data -> find_max_bitplane data <= 30.
Proof.
  intros data H. unfold find_max_bitplane, max_abs.
  set (m := fold_left (fun m v => Z.max m (abs32 v)) data 0).
  assert (Hle : m <= 2 ^ 31 - 1).
  { apply max_abs_le; [lia|]. intros v Hv. apply abs32_le. rewrite Forall_forall in H. apply H. exact Hv. }
  destruct (Z.eqb_spec m 0); [lia|].
  destruct (Z_le_gt_dec (Z.log2 m) 30) as [|Hgt]; [assumption|].
  assert (Hm0 : 0 <= m) by apply max_abs_ge_acc.
  destruct (Z.log2_spec m ltac:(lia)) as [Hlo _].
  assert (2 ^ 31 <= 2 ^ Z.log2 m) by (apply Z.pow_le_mono_r; lia). lia.
Qed.

(* ---------- the fresh coder ---------- *)
Lemma enc_new_nctx_inv : enc_inv (enc_new nctx).
Proof. unfold enc_new. apply enc_new_inv. apply zrepeat_Forall. exact cx_ok_0. Qed.

Lemma enc_flush_new_clean : tile_clean (enc_flush (enc_new nctx)) = true.
Proof. apply enc_flush_tile_clean. exact enc_new_nctx_inv. Qed.

(* ---------- EncodeLayered ---------- *)
Theorem enc_layered_clean : forall wn hn orient style fb np data r,
  mq_style style -> 0 <= fb -> find_max_bitplane data <= 30 ->
  enc_layered wn hn orient style fb np data = Ok r -> tile_clean (snd r) = true.
Proof.
  intros wn hn orient style fb np data r Hs Hfb H30 E.
  unfold enc_layered, enc_syms in E. cbv beta iota zeta in E.
  set (maxbp := find_max_bitplane data) in *.
  set (pl := pass_list maxbp fb np) in *.
  set (syms := enc_passes wn hn orient style maxbp (pad_data wn hn data) pl true Leaf) in *.
  destruct (Z.ltb_spec maxbp fb) as [Hlt|Hge].
  - inversion E; subst. reflexivity.
  - assert (Hchain : chain maxbp 2 pl).
    { unfold pl, pass_list. destruct (Z.ltb_spec maxbp fb); [exact I|]. apply chain_firstn. apply chain_all_passes; lia. }
    assert (Hsl : length syms = length pl) by apply enc_passes_length.
    assert (Hsy : Forall (Forall sym_mq) syms) by (apply enc_passes_syms_mq; exact Hs).
    rewrite enc_init in E.
    destruct (enc_bytes_mq style maxbp pl maxbp 2 syms (enc_new_cx cx0) Hs Hchain Hsl Hsy
                (enc_new_inv cx0 cx0_ok) cx0_len) as (e' & term & ps & Eenc & _ & Hbytes).
    rewrite Eenc in E. cbn [obind] in E. inversion E; subst. cbn [snd].
    rewrite Hbytes. apply enc_flush_tile_clean. apply enc_mq_passes_inv. apply enc_new_inv. exact cx0_ok.
Qed.

(* ---------- Encode ---------- *)
Theorem enc_plain_clean : forall wn hn orient style fb np data bytes,
  mq_style style -> 0 <= fb -> find_max_bitplane data <= 30 ->
  enc_plain wn hn orient style fb np data = Ok bytes -> tile_clean bytes = true.
Proof.
  intros wn hn orient style fb np data bytes Hs Hfb H30 E. unfold enc_plain in E.
  destruct (find_max_bitplane data <? 0).
  - inversion E; subst. exact enc_flush_new_clean.
  - destruct (enc_layered wn hn orient style fb np data) as [r| | |] eqn:El; cbn [obind] in E; try discriminate.
    inversion E; subst. eapply enc_layered_clean; eassumption.
Qed.

(* ---------- encodeCodeBlock (PipeModel.enc_code_block): NO hypothesis ---------- *)
Module GMc := V.J2KGeo.GeoModel.

Lemma mq_style_0 : mq_style 0.
Proof. reflexivity. Qed.

Theorem enc_code_block_clean : forall p res cb cbx cby b,
  enc_code_block p res cb cbx cby = Ok b -> blk_clean b.
Proof.
  intros p res cb cbx cby b E. unfold enc_code_block in E. cbv zeta in E.
  set (data := map (fun v => PipeModel.i32 (Z.shiftl v 6)) (GMc.cb_data cb)) in *.
  assert (H30 : find_max_bitplane data <= 30).
  { apply find_max_bitplane_le30. unfold data. apply Forall_map. apply Forall_forall. intros v _.
    unfold PipeModel.i32. apply wrapS32_range. }
  destruct (enc_plain _ _ _ 0 6 _ data) as [bytes| | |] eqn:Ep; try discriminate.
  - inversion E; subst. split; [reflexivity|]. cbn [mk_eblock eb_data].
    eapply enc_plain_clean; [exact mq_style_0| |exact H30|exact Ep]. lia.
  - inversion E; subst. split; reflexivity.
Qed.

Corollary enc_code_block_data_clean : forall p res cb cbx cby b,
  enc_code_block p res cb cbx cby = Ok b -> tile_clean (eb_data b) = true.
Proof. intros p res cb cbx cby b E. exact (proj2 (enc_code_block_clean _ _ _ _ _ _ E)). Qed.
