(* EXTRACT *)
(* PipeStream: the main header shared by the four codestream writers of Pipe/PipeModel.v
   (pipe_codestream, _layers, _tiles, _tiles_layers), parameterised by the layer count nl and the
   tile size tw x th (0 = the whole image); one tile-part (SOT with Psot, SOD, data).
   PstProofsWalk proves that the four writers are these pieces concatenated. *)
From V Require Import Common.Base Framing.FrmBase Framing.FrmJ2k Pipe.PipeModel PipeStream.PstModel.

Definition pst_cod_segment (p : pparams) (nl : Z) : list Z :=
  W.write_segment 65362 (W.j2k_cod_payload (pp_order p) nl (pp_mct p && (pp_nc p >=? 3)) (pp_levels p)
                           (cb_log2 (pp_cbw p) - 2) (cb_log2 (pp_cbh p) - 2) false true).

(* COD, QCD, COM *)
Definition pst_header_tail (p : pparams) (nl : Z) : list Z :=
  pst_cod_segment p nl ++ W.write_segment 65372 (qcd_payload p) ++ W.write_segment 65380 version_com.

Definition pst_main_header (p : pparams) (nl tw th : Z) : list Z :=
  W.write_marker 65359
  ++ W.j2k_siz_segment false (pp_w p) (pp_h p) tw th (pp_nc p) (pp_prec p) (pp_signed p)
  ++ pst_header_tail p nl.

(* SOT (Lsot = 10, Isot = idx, Psot = len + 14, TPsot = 0, TNsot = 1), SOD, data *)
Definition pst_tile_part (idx : Z) (t : list Z) : list Z :=
  W.write_marker 65424 ++ W.be16_bytes 10 ++ W.be16_bytes idx ++ W.be32_bytes (zlen t + 14) ++ [0; 1]
  ++ W.write_marker 65427 ++ t.

(* the header the walker returns for a tiled / layered codestream: tile-parts (i, len_i + 14) *)
Fixpoint pst_parts (idx : Z) (tiles : list (list Z)) : list (Z * Z) :=
  match tiles with [] => [] | t :: r => (idx, zlen t + 14) :: pst_parts (idx + 1) r end.

Definition pst_header (p : pparams) (nl tw th : Z) (tiles : list (list Z)) : j2k_header :=
  let s := pipe_siz_tiles p tw th in
  {| jk_rsiz := 0; jk_xsiz := pp_w p; jk_ysiz := pp_h p; jk_xosiz := 0; jk_yosiz := 0;
     jk_xtsiz := sz_xt s; jk_ytsiz := sz_yt s; jk_xtosiz := 0; jk_ytosiz := 0;
     jk_csiz := pp_nc p; jk_comps := sz_comps s;
     jk_ntiles := siz_tiles_x s * siz_tiles_y s; jk_cod := pipe_cod_layers p nl; jk_sqcd := 64;
     jk_tileparts := pst_parts 0 tiles; jk_tlm := false;
     jk_ncom := 1; jk_ncap := 0; jk_nmct := 0; jk_nrgn := 0 |}.
