(* PipeStream proofs (C04): what the Go decoder reports (PstSizComps.k_siz_report: Width, Height,
   Components, BitDepth, IsSigned read from the SIZ the way Decoder.extractImageParameters does) on the
   codestream the composed encoder writes is exactly the encode arguments. *)
From V Require Import Common.Base Parsers.PrsOutcome Parsers.PrsJ2k Framing.FrmWriters
  Pipe.PipeModel Pipe.PipeProofsFront PipeStream.PstProofsPrs PipeStream.PstSizComps.
Require V.Pipe.PipeProofsMain V.Framing.FrmJ2k V.PipeStream.PstModel V.PipeStream.PstProofsEncodeL.

(* Ssiz as writeSIZ builds it, decoded as ComponentSize.BitDepth / IsSigned do *)
Lemma ssiz_decode : forall (prec : Z) (sg : bool), 1 <= prec <= 16 ->
  let s := Z.lor (wrapU 8 (prec - 1)) (if sg then 128 else 0) in
  ssiz_bit_depth s = prec /\ ssiz_is_signed s = sg.
Proof.
  intros prec sg H.
  assert (E : forallb (fun k => forallb (fun b : bool =>
               let s := Z.lor (wrapU 8 (k - 1)) (if b then 128 else 0) in
               (ssiz_bit_depth s =? k) && Bool.eqb (ssiz_is_signed s) b) [true; false])
             (map Z.of_nat (seq 1 16)) = true) by (vm_compute; reflexivity).
  rewrite forallb_forall in E. specialize (E prec).
  assert (Hin : In prec (map Z.of_nat (seq 1 16))).
  { apply in_map_iff. exists (Z.to_nat prec). split; [lia|]. apply in_seq. lia. }
  specialize (E Hin). rewrite forallb_forall in E. specialize (E sg).
  assert (Hb : In sg [true; false]) by (destruct sg; cbn; auto).
  specialize (E Hb). cbv zeta in E. apply andb_prop in E. destruct E as [E1 E2].
  cbv zeta. split; [apply Z.eqb_eq; exact E1 | apply Bool.eqb_prop; exact E2].
Qed.

(* Components[0].Ssiz sits at offset 42 of the encoder's codestream *)
Lemma comp0_at : forall p tile, pp_scope p -> exists s,
  sfx (pipe_codestream p tile) 42
      (Z.lor (wrapU 8 (pp_prec p - 1)) (if pp_signed p then 128 else 0) :: s).
Proof.
  intros p tile Hsc. unfold pp_scope in Hsc.
  remember (pipe_codestream p tile) as d eqn:Ed.
  pose proof (sfx_0 d) as H. rewrite Ed in H at 2. clear Ed.
  unfold pipe_codestream, pipe_main_header, W.j2k_siz_segment, W.j2k_siz_payload in H. cbv zeta in H.
  destruct (Z.to_nat (pp_nc p)) as [|k] eqn:Ek; [lia|].
  unfold W.write_marker, W.write_u16, W.be16_bytes, W.be32_bytes in H. cbv zeta in H.
  cbn [W.siz_comps app] in H.
  do 42 (apply sfx_cons in H).
  eexists. eapply sfx_eq; [exact H | reflexivity].
Qed.

Theorem pst_stream_reports_geometry : forall p tile, pp_scope p ->
  k_siz_report (pipe_codestream p tile) = Ok (pp_w p, pp_h p, pp_nc p, pp_prec p, pp_signed p).
Proof.
  intros p tile Hsc. unfold k_siz_report.
  rewrite (pst_main_header_parse_fuel_of p tile Hsc). cbn [s_c s_x s_xo s_y s_yo].
  pose proof Hsc as Hsc'. unfold pp_scope in Hsc'.
  destruct (Z.leb_spec (pp_nc p) 0) as [Hle|_]; [lia|].
  destruct (comp0_at p tile Hsc) as [s Hs]. unfold siz_comp0_offset. rewrite (rd8_at _ _ _ _ Hs). cbn [fst ret].
  destruct (ssiz_decode (pp_prec p) (pp_signed p) ltac:(lia)) as [E1 E2]. cbv zeta in E1, E2. rewrite E1, E2.
  rewrite !Z.sub_0_r. unfold wrapU. change (2 ^ 32) with 4294967296. rewrite !Z.mod_small by lia. reflexivity.
Qed.

(* pixels AND the five reported values *)
Theorem pst_stream_roundtrip_reports_partial : forall p, pp_scope p -> forall samples, samples_ok p samples ->
  let pix := pack_image p samples in
  V.Pipe.PipeProofsMain.hyp_block_sizes p pix -> hyp_psot_fits p pix ->
  exists cs hl e n, pipe_encode p pix = Ok cs /\
    V.Framing.FrmJ2k.j2k_wellformed cs = Some (V.PipeStream.PstModel.pipe_header p n) /\
    k_siz_report cs = Ok (pp_w p, pp_h p, pp_nc p, pp_prec p, pp_signed p) /\
    fst (k_main_header (fuel_of cs) cs) = Ok (mkSiz (pp_w p) (pp_h p) 0 0 (pp_w p) (pp_h p) 0 0 (pp_nc p), hl) /\
    fst (k_parse_tile (fuel_of cs) (pp_nc p) cs hl) = Ok (0, e) /\
    hl + 14 <= e /\ e + 2 = zlen cs /\ n = e - (hl + 14) /\
    pipe_decode_tile p (k_slice cs (hl + 14) n) = Ok pix.
Proof.
  intros p Hsc samples Hsm pix Hbs Hps.
  destruct (V.PipeStream.PstProofsEncodeL.pst_stream_roundtrip_wellformed_partial p Hsc samples Hsm Hbs Hps)
    as (cs & hl & e & n & Henc & Hw & Hrest).
  fold pix in Henc. exists cs, hl, e, n. split; [exact Henc|]. split; [exact Hw|]. split; [|exact Hrest].
  unfold pipe_encode in Henc.
  destruct (pipe_encode_tile p pix) as [tile| | |]; cbn [obind] in Henc; try discriminate.
  injection Henc as <-. apply pst_stream_reports_geometry. exact Hsc.
Qed.
