(* PipeStream proofs, part 8: what the COD the encoder writes says about the component transform,
   against what the encoder does.  COD MCT byte = EnableMCT && Components >= 3 (usesColorTransform),
   RCT applied = EnableMCT && Components == 3 (Encoder.Encode).  For 3 components (and for 1, 2) the
   two agree; for 4 components with EnableMCT the header declares a component transform (which by
   15444-1 Annex G applies to components 0..2) that the encoder did not apply. *)
From V Require Import Common.Base Framing.FrmBase Framing.FrmJ2k Pipe.PipeModel Pipe.PipeProofsFront
  PipeStream.PstModel.

Theorem mct_flag_agrees : forall p n, pp_nc p <> 4 -> 1 <= pp_nc p <= 4 ->
  cd_mct (jk_cod (pipe_header p n)) = if uses_rct p then 1 else 0.
Proof.
  intros p n H4 Hnc. unfold pipe_header, pipe_header_layers, pipe_cod_layers, uses_rct. cbn [jk_cod cd_mct].
  destruct (pp_mct p); cbn [andb]; [|reflexivity].
  destruct (Z.eqb_spec (pp_nc p) 3) as [->|Hn]; [reflexivity|].
  unfold Z.geb. destruct (Z.compare_spec (pp_nc p) 3); try reflexivity; lia.
Qed.

Theorem mct_flag_4comp_refuted : exists p, pp_scope p /\
  (forall n, cd_mct (jk_cod (pipe_header p n)) = 1) /\ uses_rct p = false.
Proof.
  exists (mkPP 5 3 4 9 true 1 4 8 true 2 0 0 5). split; [|split; [intros n|]; reflexivity].
  unfold pp_scope, pow2_size. cbn. lia.
Qed.
