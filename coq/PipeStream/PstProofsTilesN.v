(* PipeStream proofs, part 3: the walker on the multi-tile codestreams (pipe_codestream_tiles,
   pipe_codestream_tiles_layers): one tile-part per tile, Isot = 0, 1, 2, ... in order. *)
From V Require Import Common.Base Framing.FrmBase Framing.FrmJ2k Framing.FrmWriters
  Framing.FrmProofsSeg Framing.FrmProofsHdr Pipe.PipeModel Pipe.PipeProofsFront
  PipeStream.PstModel PipeStream.PstHeader PipeStream.PstProofsWalk PipeStream.PstProofsTiles.

(* the walker's per-tile table after the first n tiles *)
Fixpoint tab_of (n : nat) : list (Z * Z * Z) :=
  match n with O => [] | S k => (Z.of_nat k, 1, 1) :: tab_of k end.

Lemma tab_of_lookup : forall n i, Z.of_nat n <= i -> tp_lookup i (tab_of n) = None.
Proof.
  induction n as [|n IH]; intros i Hi; [reflexivity|].
  cbn [tab_of tp_lookup]. destruct (Z.eqb_spec (Z.of_nat n) i) as [E|_]; [lia|]. apply IH. lia.
Qed.

Lemma tab_of_step : forall n, tp_step (Z.of_nat n) 0 1 (tab_of n) = Some (tab_of (S n)).
Proof. intros n. unfold tp_step. rewrite tab_of_lookup by lia. reflexivity. Qed.

Lemma tab_of_complete : forall n, forallb tp_complete (tab_of n) = true.
Proof. induction n as [|n IH]; [reflexivity|]. cbn [tab_of forallb]. rewrite IH. reflexivity. Qed.

Lemma tab_of_len : forall n, zlen (tab_of n) = Z.of_nat n.
Proof. induction n as [|n IH]; [reflexivity|]. cbn [tab_of]. rewrite zlen_cons, IH. lia. Qed.

Definition tile_ok (t : list Z) : Prop := zlen t + 14 < 4294967296 /\ tile_clean t = true.

Lemma tiles_loop_all : forall csiz ntiles tiles k parts fuel pos,
  Forall tile_ok tiles -> Z.of_nat k + zlen tiles <= ntiles -> ntiles <= 65535 ->
  (length tiles + 1 <= fuel)%nat ->
  exists pos',
  tiles_loop fuel csiz ntiles false false (tab_of k) parts
             (tile_parts (Z.of_nat k) tiles ++ [255; 217]) pos
  = WOk (tab_of (k + length tiles), rev (pst_parts (Z.of_nat k) tiles) ++ parts, [], pos').
Proof.
  intros csiz ntiles. induction tiles as [|t r IH]; intros k parts fuel pos Hok Hk Hn Hfuel.
  - cbn [length] in Hfuel. destruct fuel as [|fu]; [lia|]. exists pos.
    cbn [tile_parts app]. rewrite tiles_loop_eoc. rewrite Nat.add_0_r. reflexivity.
  - cbn [length] in Hfuel. destruct fuel as [|fu]; [lia|].
    inversion Hok as [|t' r' [Hlen Hclean] Hok']; subst t' r'.
    rewrite zlen_cons in Hk. pose proof (zlen_nonneg _ r) as Hr.
    rewrite tile_parts_cons.
    rewrite (tiles_loop_part _ _ _ _ _ _ _ _ _ (tab_of (S k))); try lia; try assumption; [|apply tab_of_step].
    replace (Z.of_nat k + 1) with (Z.of_nat (S k)) by lia.
    destruct (IH (S k) ((Z.of_nat k, zlen t + 14) :: parts) fu (pos + (zlen t + 14)) Hok' ltac:(lia) Hn ltac:(lia))
      as [pos' E].
    exists pos'. rewrite E. cbn [pst_parts rev length].
    replace (Z.of_nat k + 1) with (Z.of_nat (S k)) by lia.
    rewrite <- app_assoc. cbn [app]. replace (S k + length r)%nat with (k + S (length r))%nat by lia. reflexivity.
Qed.

Lemma ceil_div_ge1 : forall w t, 1 <= w -> 1 <= t -> 1 <= ceil_div w t.
Proof. intros w t Hw Ht. unfold ceil_div. apply Z.div_le_lower_bound; lia. Qed.

Theorem codestream_tiles_wellformed : forall p nl tw th tiles,
  pp_scope p -> 1 <= nl <= 65535 -> tile_grid_ok p tw th ->
  zlen tiles = siz_tiles_x (pipe_siz_tiles p tw th) * siz_tiles_y (pipe_siz_tiles p tw th) ->
  Forall tile_ok tiles ->
  j2k_wellformed (pst_main_header p nl tw th ++ tile_parts 0 tiles ++ [255; 217])
  = Some (pst_header p nl tw th tiles).
Proof.
  intros p nl tw th tiles Hsc Hnl Hgrid Hcount Hok. unfold j2k_wellformed. rewrite j2k_walk_split.
  assert (Hst : starts_tiles (tile_parts 0 tiles ++ [255; 217])).
  { destruct tiles as [|t r]; [eexists; right; reflexivity|].
    rewrite tile_parts_cons. apply starts_tiles_part. }
  rewrite walk_main_header by assumption. cbn [wbind].
  set (s := pipe_siz_tiles p tw th) in *. set (nt := siz_tiles_x s * siz_tiles_y s) in *.
  assert (Hnt : 1 <= nt <= 65535).
  { destruct Hgrid as (Htw & Hth & Hg). pose proof Hsc as Hsc'. unfold pp_scope in Hsc'.
    unfold nt, siz_tiles_x, siz_tiles_y, s, pipe_siz_tiles. cbn [sz_x sz_y sz_xto sz_yto sz_xt sz_yt].
    rewrite !Z.sub_0_r. fold (tile_dim tw (pp_w p)). fold (tile_dim th (pp_h p)). split; [|exact Hg].
    assert (1 <= tile_dim tw (pp_w p)) by (unfold tile_dim; destruct (Z.eqb_spec tw 0); lia).
    assert (1 <= tile_dim th (pp_h p)) by (unfold tile_dim; destruct (Z.eqb_spec th 0); lia).
    pose proof (ceil_div_ge1 (pp_w p) (tile_dim tw (pp_w p)) ltac:(lia) ltac:(lia)) as Ha.
    pose proof (ceil_div_ge1 (pp_h p) (tile_dim th (pp_h p)) ltac:(lia) ltac:(lia)) as Hb.
    change 1 with (1 * 1) at 1. apply Z.mul_le_mono_nonneg; lia. }
  unfold j2k_walk_tiles. cbn [pipe_mstate_layers ms_cod ms_qcd ms_ncap ms_tlm_seen ms_tlm ms_ncom ms_nmct ms_nrgn].
  change (64 mod 32) with 0. unfold qcd_bytes. cbn [Z.eqb pipe_cod_layers cd_levels cd_style cd_transform cd_scod].
  rewrite Z.eqb_refl. cbn [negb].
  change (sz_rsiz s) with 0. change (Z.odd (0 / 16384)) with false.
  change (0 <? 64) with true. cbn [orb andb negb Pos.eqb Bool.eqb].
  change (Z.odd (0 / 2)) with false. change (Z.odd (0 / 4)) with false.
  fold nt.
  match goal with |- context [tiles_loop (length ?L)] => set (fuel := length L) end.
  assert (Hfuel : (length tiles + 1 <= fuel)%nat).
  { unfold fuel. clear. generalize 0. induction tiles as [|t r IH]; intros i; [cbn; lia|].
    rewrite tile_parts_cons. unfold pst_tile_part. specialize (IH (i + 1)). rewrite !app_length in *. cbn [length] in *. lia. }
  destruct (tiles_loop_all (sz_c s) nt tiles 0 [] fuel (zlen (pst_main_header p nl tw th)) Hok ltac:(cbn [Z.of_nat]; lia)
              ltac:(lia) Hfuel) as [pos' E].
  cbn [tab_of Z.of_nat] in E. rewrite E. cbn [Nat.add]. rewrite app_nil_r.
  rewrite tab_of_len, tab_of_complete. rewrite rev_involutive.
  replace (Z.of_nat (length tiles)) with nt by (rewrite <- Hcount; reflexivity).
  rewrite Z.eqb_refl. cbn [negb].
  destruct tiles as [|t r]; [change (zlen []) with 0 in Hcount; lia|].
  destruct (rev (pst_parts 0 (t :: r))) as [|x y] eqn:Er.
  { apply (f_equal (@length _)) in Er. rewrite rev_length in Er. cbn [pst_parts length] in Er. lia. }
  reflexivity.
Qed.

Theorem pipe_codestream_tiles_wellformed : forall p tw th tiles,
  pp_scope p -> tile_grid_ok p tw th ->
  zlen tiles = siz_tiles_x (pipe_siz_tiles p tw th) * siz_tiles_y (pipe_siz_tiles p tw th) ->
  Forall tile_ok tiles ->
  j2k_wellformed (pipe_codestream_tiles p tw th tiles) = Some (pst_header p 1 tw th tiles).
Proof.
  intros. rewrite pipe_codestream_tiles_eq. apply codestream_tiles_wellformed; try assumption. lia.
Qed.

Theorem pipe_codestream_tiles_layers_wellformed : forall p nl tw th tiles,
  pp_scope p -> 1 <= nl <= 65535 -> tile_grid_ok p tw th ->
  zlen tiles = siz_tiles_x (pipe_siz_tiles p tw th) * siz_tiles_y (pipe_siz_tiles p tw th) ->
  Forall tile_ok tiles ->
  j2k_wellformed (pipe_codestream_tiles_layers p nl tw th tiles) = Some (pst_header p nl tw th tiles).
Proof.
  intros. rewrite pipe_codestream_tiles_layers_eq. apply codestream_tiles_wellformed; assumption.
Qed.
