(* PipeStream, tile_clean part 1: list lemmas about tile_clean / tile_clean_from and the bridges
   from the two existing "no marker" predicates:
     Framing.FrmProofsBio.ff_lt80   (packet-header bit writer: every FF followed by < 0x80, no
                                     trailing FF)
     MQ.MqProofs.no_marker_in       (MQ coder output: every FF followed by <= 0x8F, no trailing FF) *)
From V Require Import Common.Base Framing.FrmBase Framing.FrmWriters Framing.FrmProofsBio.
From V Require Import MQ.MqModel MQ.MqProofs.
From V Require Import PipeStream.PstModel.

(* ---------- basic facts ---------- *)

Lemma tile_clean_nil : tile_clean [] = true.
Proof. reflexivity. Qed.

Lemma tile_clean_zero : tile_clean [0] = true.
Proof. reflexivity. Qed.

Lemma tile_clean_from_true_nil : tile_clean_from true [] = false.
Proof. reflexivity. Qed.

(* a list that is clean after an FF is clean after anything *)
Lemma tile_clean_from_weaken : forall l pff, tile_clean_from true l = true -> tile_clean_from pff l = true.
Proof.
  intros [|b r] pff H; cbn [tile_clean_from] in *; [discriminate|].
  destruct pff; [exact H|]. cbn [andb negb] in *.
  apply andb_true_iff in H. destruct H as [_ H]. exact H.
Qed.

(* a NON-EMPTY clean list is clean whatever precedes it, provided its first byte is < 0x90 *)
Lemma tile_clean_from_cons : forall pff b r,
  tile_clean_from pff (b :: r) = true <-> ((pff = true -> b < 144) /\ tile_clean_from (b =? 255) r = true).
Proof.
  intros pff b r. cbn [tile_clean_from]. rewrite andb_true_iff, negb_true_iff. split.
  - intros [H1 H2]. split; [|exact H2]. intros ->. cbn [andb] in H1. apply Z.leb_gt in H1. exact H1.
  - intros [H1 H2]. split; [|exact H2]. destruct pff; [|reflexivity]. cbn [andb]. apply Z.leb_gt. apply H1. reflexivity.
Qed.

(* ---------- concatenation ---------- *)

(* the general form: the state after `a` is "last byte of a was FF" (pff itself for a = []) *)
Fixpoint ends_ff (pff : bool) (l : list Z) : bool :=
  match l with [] => pff | b :: r => ends_ff (b =? 255) r end.

(* a clean list does not end in FF *)
Lemma tile_clean_from_ends : forall a pff, tile_clean_from pff a = true -> ends_ff pff a = false.
Proof.
  induction a as [|x a IH]; intros pff H; cbn [tile_clean_from ends_ff] in *.
  - apply negb_true_iff in H. exact H.
  - apply andb_true_iff in H. destruct H as [_ H]. apply IH. exact H.
Qed.

(* the lemma asked for: clean a (from any state) followed by clean b *)
Lemma tile_clean_from_app : forall a pff b,
  tile_clean_from pff a = true -> tile_clean b = true -> tile_clean_from pff (a ++ b) = true.
Proof.
  induction a as [|x a IH]; intros pff b Ha Hb; cbn [app].
  - cbn [tile_clean_from] in Ha. apply negb_true_iff in Ha. subst pff. exact Hb.
  - cbn [tile_clean_from] in *. apply andb_true_iff in Ha. destruct Ha as [H1 H2].
    rewrite H1. cbn [andb]. apply IH; assumption.
Qed.

Lemma tile_clean_app : forall a b, tile_clean a = true -> tile_clean b = true -> tile_clean (a ++ b) = true.
Proof. intros a b. unfold tile_clean. apply tile_clean_from_app. Qed.

(* the converse for the first part: a prefix of a clean list is clean up to its last byte; and the
   second part is clean from the state the first part leaves *)
Lemma tile_clean_from_app_inv_r : forall a pff b,
  tile_clean_from pff a = true -> tile_clean_from pff (a ++ b) = true -> tile_clean b = true.
Proof.
  induction a as [|x a IH]; intros pff b Ha Hab; cbn [app tile_clean_from] in *.
  - apply negb_true_iff in Ha. subst pff. exact Hab.
  - apply andb_true_iff in Ha. destruct Ha as [_ Ha]. apply andb_true_iff in Hab. destruct Hab as [_ Hab].
    exact (IH _ _ Ha Hab).
Qed.

Lemma tile_clean_app_inv_r : forall a b, tile_clean a = true -> tile_clean (a ++ b) = true -> tile_clean b = true.
Proof. intros a b. unfold tile_clean at 1 2. apply tile_clean_from_app_inv_r. Qed.

Lemma tile_clean_concat : forall ls, Forall (fun l => tile_clean l = true) ls -> tile_clean (concat ls) = true.
Proof.
  induction ls as [|l ls IH]; intros H; cbn [concat]; [reflexivity|].
  inversion H; subst. apply tile_clean_app; [assumption|apply IH; assumption].
Qed.

Lemma tile_clean_flat_map : forall (A : Type) (f : A -> list Z) (xs : list A),
  Forall (fun x => tile_clean (f x) = true) xs -> tile_clean (flat_map f xs) = true.
Proof.
  intros A f xs. induction xs as [|x xs IH]; intros H; cbn [flat_map]; [reflexivity|].
  inversion H; subst. apply tile_clean_app; [assumption|apply IH; assumption].
Qed.

(* ---------- bridge 1: the bit writer's predicate ---------- *)

(* ff_lt80 already says "no trailing FF" (an FF with nothing behind it fails the test) *)
Lemma ff_lt80_clean_from : forall l pff,
  ff_lt80 l = true -> (pff = true -> match l with b :: _ => b < 128 | [] => False end) ->
  tile_clean_from pff l = true.
Proof.
  induction l as [|b r IH]; intros pff H Hp; cbn [tile_clean_from].
  - destruct pff; [exfalso; apply Hp; reflexivity|reflexivity].
  - cbn [ff_lt80] in H. apply andb_true_iff in H. destruct H as [H1 H2].
    apply andb_true_iff. split.
    + apply negb_true_iff. destruct pff; [|reflexivity]. cbn [andb]. apply Z.leb_gt.
      specialize (Hp eq_refl). lia.
    + apply IH; [exact H2|]. intros E. rewrite E in H1.
      destruct r as [|c r']; [discriminate|]. apply Z.ltb_lt in H1. exact H1.
Qed.

Theorem ff_lt80_tile_clean : forall l, ff_lt80 l = true -> tile_clean l = true.
Proof. intros l H. unfold tile_clean. apply ff_lt80_clean_from; [exact H|discriminate]. Qed.

(* the bit writer: ANY bit sequence, flushed *)
Theorem bio_encode_tile_clean : forall bits, tile_clean (bio_encode bits) = true.
Proof. intros bits. apply ff_lt80_tile_clean. apply bio_no_marker. Qed.

(* ---------- bridge 2: the MQ coder's predicate ---------- *)

Lemma no_marker_in_tail : forall b r, no_marker_in (b :: r) -> no_marker_in r.
Proof.
  intros b r [H1 H2]. split.
  - intros l1 y l2 E. apply (H1 (b :: l1) y l2). rewrite E. reflexivity.
  - intros l1 E. apply (H2 (b :: l1)). rewrite E. reflexivity.
Qed.

Lemma no_marker_clean_from : forall l pff,
  no_marker_in l -> (pff = true -> match l with b :: _ => b <= 143 | [] => False end) ->
  tile_clean_from pff l = true.
Proof.
  induction l as [|b r IH]; intros pff H Hp; cbn [tile_clean_from].
  - destruct pff; [exfalso; apply Hp; reflexivity|reflexivity].
  - apply andb_true_iff. split.
    + apply negb_true_iff. destruct pff; [|reflexivity]. cbn [andb]. apply Z.leb_gt.
      specialize (Hp eq_refl). lia.
    + apply IH; [exact (no_marker_in_tail _ _ H)|]. intros E. apply Z.eqb_eq in E. subst b.
      destruct H as [H1 H2]. destruct r as [|c r'].
      * exfalso. apply (H2 []). reflexivity.
      * apply (H1 [] c r'). reflexivity.
Qed.

(* (the byte-range hypothesis of the task statement is not needed) *)
Theorem no_marker_tile_clean : forall out, no_marker_in out -> tile_clean out = true.
Proof. intros out H. unfold tile_clean. apply no_marker_clean_from; [exact H|discriminate]. Qed.

Theorem no_marker_tile_clean_bytes : forall out, Forall is_byteP out -> no_marker_in out -> tile_clean out = true.
Proof. intros out _ H. apply no_marker_tile_clean. exact H. Qed.

(* the MQ encoder: Flush() of any state reachable under the encoder invariant *)
Theorem enc_flush_tile_clean : forall e, enc_inv e -> tile_clean (enc_flush e) = true.
Proof.
  intros e H. destruct (enc_flush_no_marker e H) as (_ & Hn & _). apply no_marker_tile_clean. exact Hn.
Qed.
