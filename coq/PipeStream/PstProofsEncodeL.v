(* PipeStream proofs, part 7: quality layers and tiles x layers (the encoder's tiles are clean:
   PstProofsCleanLayersMain), and the single statement joining C16 and C04: the codestream the
   encoder returns is well formed AND the parser model + tile decoder give back pixels and geometry. *)
From V Require Import Common.Base Framing.FrmBase Framing.FrmJ2k Framing.FrmWriters
  Framing.FrmProofsSeg Framing.FrmProofsHdr Pipe.PipeModel Pipe.PipeProofsFront
  PipeStream.PstModel PipeStream.PstHeader PipeStream.PstProofsWalk PipeStream.PstProofsTiles
  PipeStream.PstProofsTilesN PipeStream.PstProofsTop PipeStream.PstProofsEncTiles
  PipeStream.PstProofsCleanMain PipeStream.PstProofsCleanLayersMain PipeStream.PstProofsEncode.
Require V.Pipe.PipeProofsMain V.PipeStream.PstProofsPrs V.Parsers.PrsJ2k V.Parsers.PrsOutcome.

Theorem pipe_encode_layers_wellformed_partial : forall p nl alloc pix tile,
  pp_scope p -> 1 <= nl <= 65535 ->
  pipe_encode_tile_layers p nl alloc pix = Ok tile -> psot_fits tile ->
  j2k_wellformed (pipe_codestream_layers p nl tile) = Some (pipe_header_layers p nl (zlen tile)).
Proof.
  intros p nl alloc pix tile Hsc Hnl He Hfit. apply pipe_codestream_layers_wellformed; try assumption.
  eapply pipe_encode_tile_layers_clean. exact He.
Qed.

Lemma tile_count_siz : forall p tw th, pp_scope p -> 0 <= tw -> 0 <= th ->
  tile_count p tw th = siz_tiles_x (pipe_siz_tiles p tw th) * siz_tiles_y (pipe_siz_tiles p tw th).
Proof.
  intros p tw th Hsc Htw Hth. unfold pp_scope in Hsc. unfold tile_count.
  unfold siz_tiles_x, siz_tiles_y, pipe_siz_tiles. cbn [sz_x sz_y sz_xto sz_yto sz_xt sz_yt]. rewrite !Z.sub_0_r.
  fold (tile_dim tw (pp_w p)). fold (tile_dim th (pp_h p)).
  change (G.enc_tile_size (pp_w p) tw) with (tile_dim tw (pp_w p)). change (G.enc_tile_size (pp_h p) th) with (tile_dim th (pp_h p)).
  assert (Ha : 1 <= tile_dim tw (pp_w p)) by (unfold tile_dim; destruct (Z.eqb_spec tw 0); lia).
  assert (Hb : 1 <= tile_dim th (pp_h p)) by (unfold tile_dim; destruct (Z.eqb_spec th 0); lia).
  rewrite !enc_num_tiles_ceil by lia. reflexivity.
Qed.

Theorem pipe_encode_tiles_layers_wellformed_partial : forall p nl talloc tw th pix tiles,
  pp_scope p -> 1 <= nl <= 65535 -> tile_grid_ok p tw th ->
  pipe_encode_tiles_layers p nl talloc tw th pix = Ok tiles -> Forall psot_fits tiles ->
  j2k_wellformed (pipe_codestream_tiles_layers p nl tw th tiles) = Some (pst_header p nl tw th tiles).
Proof.
  intros p nl talloc tw th pix tiles Hsc Hnl Hg He Hfit.
  pose proof (pipe_encode_tiles_layers_clean _ _ _ _ _ _ _ He) as Hc.
  apply pipe_codestream_tiles_layers_wellformed; try assumption.
  - destruct Hg as (Htw & Hth & Hgrid). rewrite <- tile_count_siz by (assumption || lia).
    unfold pipe_encode_tiles_layers in He.
    destruct (pipe_front p pix) as [planes| | |]; cbn [obind] in He; try discriminate.
    apply omap_length in He. unfold zlen. rewrite He. unfold G.zrange. rewrite map_length, seq_length.
    apply Z2Nat.id. rewrite tile_count_siz by (assumption || lia).
    pose proof Hsc as Hsc'. unfold pp_scope in Hsc'.
    unfold siz_tiles_x, siz_tiles_y, pipe_siz_tiles. cbn [sz_x sz_y sz_xto sz_yto sz_xt sz_yt]. rewrite !Z.sub_0_r.
    fold (tile_dim tw (pp_w p)). fold (tile_dim th (pp_h p)).
    assert (Ha : 1 <= tile_dim tw (pp_w p)) by (unfold tile_dim; destruct (Z.eqb_spec tw 0); lia).
    assert (Hb : 1 <= tile_dim th (pp_h p)) by (unfold tile_dim; destruct (Z.eqb_spec th 0); lia).
    pose proof (ceil_div_ge1 (pp_w p) _ ltac:(lia) Ha). pose proof (ceil_div_ge1 (pp_h p) _ ltac:(lia) Hb).
    apply Z.mul_nonneg_nonneg; lia.
  - rewrite Forall_forall in *. intros t Ht. split; [apply Hfit; exact Ht | apply Hc; exact Ht].
Qed.

(* ---------- C16 and C04 in one statement ---------- *)
Import V.Parsers.PrsJ2k V.Parsers.PrsOutcome V.PipeStream.PstProofsPrs.

Lemma hyp_psot_fits_fits : forall p pix, hyp_psot_fits p pix ->
  forall tile, pipe_encode_tile p pix = Ok tile -> psot_fits tile.
Proof. intros p pix H tile Et. unfold psot_fits. exact (H tile Et). Qed.

(* the encoder's output for in-scope parameters and samples: one well-formed codestream whose header
   declares p; the Go parser model finds geometry (w, h, nc) and delimits the tile bytes; the tile
   decoder returns the pixels.  Hypotheses left: hyp_block_sizes (C04_pipe) and hyp_psot_fits. *)
Theorem pst_stream_roundtrip_wellformed_partial : forall p, pp_scope p -> forall samples, samples_ok p samples ->
  let pix := pack_image p samples in
  V.Pipe.PipeProofsMain.hyp_block_sizes p pix -> hyp_psot_fits p pix ->
  exists cs hl e n, pipe_encode p pix = Ok cs /\
    j2k_wellformed cs = Some (pipe_header p n) /\
    fst (k_main_header (fuel_of cs) cs) = Ok (mkSiz (pp_w p) (pp_h p) 0 0 (pp_w p) (pp_h p) 0 0 (pp_nc p), hl) /\
    fst (k_parse_tile (fuel_of cs) (pp_nc p) cs hl) = Ok (0, e) /\
    hl + 14 <= e /\ e + 2 = zlen cs /\ n = e - (hl + 14) /\
    pipe_decode_tile p (k_slice cs (hl + 14) n) = Ok pix.
Proof.
  intros p Hsc samples Hsm pix Hbs Hps.
  destruct (pst_stream_roundtrip_partial p Hsc samples Hsm Hbs Hps) as (cs & hl & e & Henc & Hh & Ht & Hle & Hlen & Hdec).
  fold pix in Henc, Hdec.
  destruct (pipe_encode_wellformed_partial p pix cs Hsc (hyp_psot_fits_fits p pix Hps) Henc) as (n & Hw & Hn).
  exists cs, hl, e, n. repeat (split; [assumption|]).
  assert (Hhl : hl = zlen (pipe_main_header p)).
  { pose proof Henc as Henc'. unfold pipe_encode in Henc'.
    destruct (pipe_encode_tile p pix) as [tile| | |]; cbn [obind] in Henc'; try discriminate.
    injection Henc' as <-. rewrite (pst_main_header_parse_fuel_of p tile Hsc) in Hh. injection Hh as <-. reflexivity. }
  assert (En : n = e - (hl + 14)) by lia.
  split; [exact En|]. rewrite En. exact Hdec.
Qed.
