(* PipeStream, tile_clean part 6: cutting a clean byte string at the normalised pass rates.
   cut_ok data c : the prefix data[0:c] is tile_clean (c <= 0, c >= len, or data[c-1] <> FF).
   - every Go slice data[a:b] of a clean string with cut_ok b is clean;
   - normalizePassRates (T1Bytes.normalize_rev) leaves only rates with cut_ok (a rate landing
     behind an FF is moved one byte back, and a clean string has no FF FF);
   - finalizeBlock (GeoLayers.finalize_block) cuts only at such rates, at 0 or at len(data). *)
From V Require Import Common.Base T1.T1Store T1.T1Ctx T1.T1Model T1.T1Bytes J2KGeo.GeoLayers.
From V Require Import PipeStream.PstModel PipeStream.PstProofsCleanList.

(* ---------- prefixes and suffixes of a clean string ---------- *)
Lemma tile_clean_from_false : forall l pff, tile_clean_from pff l = true -> tile_clean l = true.
Proof.
  intros [|b r] pff H; [reflexivity|]. unfold tile_clean. cbn [tile_clean_from] in *.
  apply andb_true_iff in H. destruct H as [_ H]. exact H.
Qed.

Lemma tile_clean_skipn : forall n l pff, tile_clean_from pff l = true -> tile_clean (skipn n l) = true.
Proof.
  induction n as [|n IH]; intros l pff H; cbn [skipn]; [eapply tile_clean_from_false; exact H|].
  destruct l as [|b r]; [reflexivity|]. cbn [tile_clean_from] in H. apply andb_true_iff in H. destruct H as [_ H].
  eapply IH; exact H.
Qed.

Lemma tile_clean_firstn : forall l pff n, tile_clean_from pff l = true ->
  (n = O -> pff = false) -> ((0 < n <= length l)%nat -> nth (n - 1) l 0 <> 255) ->
  tile_clean_from pff (firstn n l) = true.
Proof.
  induction l as [|b r IH]; intros pff n H H0 Hn.
  - rewrite firstn_nil. exact H.
  - destruct n as [|n]; cbn [firstn tile_clean_from].
    + rewrite (H0 eq_refl). reflexivity.
    + cbn [tile_clean_from] in H. apply andb_true_iff in H. destruct H as [H1 H2]. rewrite H1. cbn [andb].
      apply IH; [exact H2| |].
      * intros ->. apply Z.eqb_neq. specialize (Hn ltac:(cbn [length]; lia)). cbn in Hn. exact Hn.
      * intros Hr. specialize (Hn ltac:(cbn [length]; lia)).
        replace (S n - 1)%nat with (S (n - 1)) in Hn by lia. cbn [nth] in Hn. exact Hn.
Qed.

(* no FF FF in a clean string *)
Lemma tile_clean_ff_next : forall l pff i, tile_clean_from pff l = true ->
  nth i l 0 = 255 -> nth (S i) l 0 < 144.
Proof.
  induction l as [|b r IH]; intros pff i H E; [destruct i; cbn in E; discriminate|].
  cbn [tile_clean_from] in H. apply andb_true_iff in H. destruct H as [_ H].
  destruct i as [|i]; cbn [nth] in *.
  - subst b. change (255 =? 255) with true in H. destruct r as [|c r']; [discriminate|].
    cbn [tile_clean_from andb] in H. apply andb_true_iff in H. destruct H as [H _].
    apply negb_true_iff in H. apply Z.leb_gt in H. cbn [nth]. exact H.
  - eapply IH; eassumption.
Qed.

(* ---------- cuts ---------- *)
Definition cut_ok (data : list Z) (c : Z) : Prop := tile_clean (firstn (Z.to_nat c) data) = true.

Lemma cut_ok_nonpos : forall data c, c <= 0 -> cut_ok data c.
Proof. intros data c H. unfold cut_ok. replace (Z.to_nat c) with O by lia. reflexivity. Qed.

Lemma cut_ok_all : forall data c, tile_clean data = true -> zlen data <= c -> cut_ok data c.
Proof. intros data c H Hc. unfold cut_ok. rewrite firstn_all2 by (unfold zlen in Hc; lia). exact H. Qed.

Lemma cut_ok_byte : forall data c, tile_clean data = true -> 0 < c -> znth data (c - 1) 0 <> 255 -> cut_ok data c.
Proof.
  intros data c H Hc Hb. unfold cut_ok, tile_clean. apply tile_clean_firstn; [exact H|reflexivity|].
  intros Hn. unfold znth in Hb. destruct (Z.ltb_spec (c - 1) 0); [lia|].
  replace (Z.to_nat c - 1)%nat with (Z.to_nat (c - 1)) by lia. exact Hb.
Qed.

(* data[a:b] *)
Lemma go_slice_clean : forall data a b d, cut_ok data b -> go_slice data a b = Ok d -> tile_clean d = true.
Proof.
  intros data a b d Hb E. unfold go_slice in E.
  destruct ((0 <=? a) && (a <=? b) && (b <=? zlen data)) eqn:Eg; [|discriminate].
  apply andb_true_iff in Eg. destruct Eg as [Eg _]. apply andb_true_iff in Eg. destruct Eg as [E0 E1].
  apply Z.leb_le in E0, E1. inversion E; subst.
  rewrite firstn_skipn_comm.
  replace (Z.to_nat a + Z.to_nat (b - a))%nat with (Z.to_nat b) by lia.
  unfold cut_ok, tile_clean in Hb. eapply tile_clean_skipn. exact Hb.
Qed.

(* ---------- normalizePassRates ---------- *)
Definition rec_cut_ok (data : list Z) (q : passrec) : Prop :=
  cut_ok data (p_rate q) /\ (p_rate q = 0 -> p_actual q <= 0).

Lemma normalize_rev_cuts : forall data ps L, tile_clean data = true ->
  Forall (rec_cut_ok data) (normalize_rev data ps L).
Proof.
  intros data ps. induction ps as [|p r IH]; intros L Hd; cbn [normalize_rev]; [constructor|].
  cbv zeta. constructor; [|apply IH; exact Hd].
  set (rate1 := if L <? p_rate p then L else p_rate p).
  destruct ((0 <? rate1) && (rate1 <=? zlen data) && (znth data (rate1 - 1) 0 =? 255)) eqn:Eff.
  - (* the rate lands behind an FF: one byte back *)
    apply andb_true_iff in Eff. destruct Eff as [Eff E3]. apply andb_true_iff in Eff. destruct Eff as [E1 E2].
    apply Z.ltb_lt in E1. apply Z.leb_le in E2. apply Z.eqb_eq in E3.
    unfold rec_cut_ok. cbn [p_rate p_actual]. split.
    + destruct (Z.eq_dec rate1 1) as [->|Hne]; [apply cut_ok_nonpos; lia|].
      apply cut_ok_byte; [exact Hd|lia|]. intros E4.
      unfold znth in E3, E4. destruct (Z.ltb_spec (rate1 - 1) 0); [lia|]. destruct (Z.ltb_spec (rate1 - 1 - 1) 0); [lia|].
      pose proof (tile_clean_ff_next data false (Z.to_nat (rate1 - 1 - 1)) Hd E4) as Hn.
      replace (S (Z.to_nat (rate1 - 1 - 1))) with (Z.to_nat (rate1 - 1)) in Hn by lia. lia.
    + intros E0. destruct (Z.ltb_spec (rate1 - 1) (p_actual p)); lia.
  - unfold rec_cut_ok. cbn [p_rate p_actual]. split.
    + destruct (Z.ltb_spec 0 rate1) as [H1|H1]; [|apply cut_ok_nonpos; lia].
      destruct (Z.leb_spec rate1 (zlen data)) as [H2|H2]; [|apply cut_ok_all; [exact Hd|lia]].
      cbn [andb] in Eff. apply Z.eqb_neq in Eff. apply cut_ok_byte; assumption.
    + intros E0. destruct (Z.ltb_spec rate1 (p_actual p)); lia.
Qed.

(* the pass table finalizeBlock reads *)
Definition glq (q : passrec) : pass := (p_rate q, p_actual q).

Lemma rate_at_cut_ok : forall data ps k, Forall (rec_cut_ok data) ps -> cut_ok data (rate_at (map glq ps) k).
Proof.
  intros data ps k H. unfold rate_at.
  assert (G : forall n, cut_ok data (pass_rate (nth n (map glq ps) (0, 0)))).
  { induction H as [|q r [Hq1 Hq2] Hr IH]; intros [|n]; cbn [map nth]; try (apply cut_ok_nonpos; reflexivity).
    - unfold pass_rate, glq. cbn [fst snd]. destruct (Z.eqb_spec (p_rate q) 0) as [E|E]; [|exact Hq1].
      apply cut_ok_nonpos. apply Hq2. exact E.
    - apply IH. }
  apply G.
Qed.

(* ---------- finalizeBlock ---------- *)
Definition segs_clean (ld : list (list Z)) : Prop := Forall (fun l => tile_clean l = true) ld.

Lemma alloc_layers_clean : forall passes data, tile_clean data = true ->
  (forall k, cut_ok data (rate_at passes k)) ->
  forall pcs prevEnd res, cut_ok data prevEnd -> alloc_layers passes data pcs prevEnd = Ok res -> segs_clean (snd res).
Proof.
  intros passes data Hd Hr. induction pcs as [|pc0 r IH]; intros prevEnd res Hp E; cbn [alloc_layers] in E.
  - inversion E; subst. constructor.
  - cbv zeta in E.
    set (pc := if pc0 >? zlen passes then zlen passes else pc0) in *.
    set (e0 := if pc >? 0 then rate_at passes pc else prevEnd) in *.
    set (e1 := if e0 <? prevEnd then prevEnd else e0) in *.
    set (e2 := if e1 >? zlen data then zlen data else e1) in *.
    assert (H0 : cut_ok data e0) by (unfold e0; destruct (pc >? 0); [apply Hr|exact Hp]).
    assert (H1 : cut_ok data e1) by (unfold e1; destruct (e0 <? prevEnd); assumption).
    assert (H2 : cut_ok data e2) by (unfold e2; destruct (e1 >? zlen data); [apply cut_ok_all; [exact Hd|lia]|exact H1]).
    destruct (go_slice data prevEnd e2) as [d| | |] eqn:Es; cbn [obind] in E; try discriminate.
    destruct (alloc_layers passes data r e2) as [res2| | |] eqn:Ea; cbn [obind] in E; try discriminate.
    inversion E; subst. cbn [snd]. constructor; [eapply go_slice_clean; eassumption|]. eapply IH; eassumption.
Qed.

Lemma segs_firstn : forall n ld, segs_clean ld -> segs_clean (firstn n ld).
Proof.
  induction n as [|n IH]; intros ld H; cbn [firstn]; [constructor|].
  destruct ld as [|x r]; [constructor|]. inversion H; subst. constructor; [assumption|apply IH; assumption].
Qed.

Lemma segs_skipn : forall n ld, segs_clean ld -> segs_clean (skipn n ld).
Proof.
  induction n as [|n IH]; intros ld H; cbn [skipn]; [exact H|].
  destruct ld as [|x r]; [constructor|]. inversion H; subst. apply IH; assumption.
Qed.

Lemma set_nth_clean : forall ld i d, segs_clean ld -> tile_clean d = true -> segs_clean (set_nth ld i d).
Proof.
  intros ld i d H Hd. unfold set_nth. apply Forall_app. split; [apply segs_firstn; exact H|].
  constructor; [exact Hd|]. apply segs_skipn. exact H.
Qed.

Lemma append_lossless_clean : forall passes data nl lp ld res, tile_clean data = true ->
  (forall k, cut_ok data (rate_at passes k)) -> segs_clean ld ->
  append_lossless passes data nl lp ld = Ok res -> segs_clean (snd res).
Proof.
  intros passes data nl lp ld res Hd Hr Hl E. unfold append_lossless in E. cbv zeta in E.
  destruct ((nl - 1 <? 0) || (nl - 1 >=? zlen lp)); [discriminate|].
  match type of E with obind (go_slice data ?a ?b) _ = _ =>
    assert (Hb : cut_ok data b); [|destruct (go_slice data a b) as [d| | |] eqn:Es; cbn [obind] in E; try discriminate] end.
  { match goal with |- cut_ok data (if ?e1 >? zlen data then zlen data else ?e1') =>
      destruct (e1 >? zlen data); [apply cut_ok_all; [exact Hd|lia]|] end.
    match goal with |- cut_ok data (if ?c then ?s else ?e) => destruct c; [|apply Hr] end.
    match goal with |- cut_ok data (if ?c then 0 else ?s) => destruct c; [apply cut_ok_nonpos; lia|] end.
    match goal with |- cut_ok data (if ?c then _ else 0) => destruct c; [apply Hr|apply cut_ok_nonpos; lia] end. }
  inversion E; subst. cbn [snd]. apply set_nth_clean; [exact Hl|]. eapply go_slice_clean; eassumption.
Qed.

Theorem finalize_block_clean : forall data ps nl row al lp ld, tile_clean data = true ->
  Forall (rec_cut_ok data) ps ->
  finalize_block (map glq ps) (Some data) nl row al = Ok (Some (lp, ld)) -> segs_clean ld.
Proof.
  intros data ps nl row al lp ld Hd Hps E. unfold finalize_block in E.
  assert (Hr : forall k, cut_ok data (rate_at (map glq ps) k)) by (intros k; apply rate_at_cut_ok; exact Hps).
  destruct (zlen (map glq ps) =? 0); [discriminate|]. destruct (nl <? 0); [discriminate|].
  destruct (alloc_layers _ _ _ 0) as [res| | |] eqn:Ea; cbn [obind] in E; try discriminate.
  pose proof (alloc_layers_clean _ _ Hd Hr _ _ _ (cut_ok_nonpos data 0 ltac:(lia)) Ea) as Hres.
  destruct (al && (zlen (map glq ps) >? 0)).
  - destruct (append_lossless _ _ _ _ _) as [r2| | |] eqn:Eap; cbn [obind] in E; try discriminate.
    inversion E; subst. exact (append_lossless_clean _ _ _ _ _ _ Hd Hr Hres Eap).
  - inversion E; subst. exact Hres.
Qed.
