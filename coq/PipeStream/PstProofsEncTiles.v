(* PipeStream proofs, part 5: the tile list the composed encoder produces has exactly the number of
   tiles the SIZ it writes declares. *)
From V Require Import Common.Base Framing.FrmBase Framing.FrmJ2k Framing.FrmWriters
  Framing.FrmProofsSeg Framing.FrmProofsHdr Pipe.PipeModel Pipe.PipeProofsFront
  PipeStream.PstModel PipeStream.PstHeader PipeStream.PstProofsWalk PipeStream.PstProofsTiles
  PipeStream.PstProofsTilesN.

Lemma omap_length : forall (A B : Type) (f : A -> outcome B) l bs, omap f l = Ok bs -> length bs = length l.
Proof.
  induction l as [|a r IH]; intros bs H; cbn [omap] in H.
  - injection H as <-. reflexivity.
  - destruct (f a) as [b| | |]; cbn [obind] in H; try discriminate.
    destruct (omap f r) as [bs'| | |]; cbn [obind] in H; try discriminate.
    injection H as <-. cbn [length]. rewrite (IH bs' eq_refl). reflexivity.
Qed.

Lemma enc_num_tiles_ceil : forall w t, 1 <= w -> 1 <= t -> G.enc_num_tiles w t = ceil_div w t.
Proof. intros w t Hw Ht. unfold G.enc_num_tiles, ceil_div. apply Z.quot_div_nonneg; lia. Qed.

Lemma enc_tiles_count : forall p tw th, pp_scope p -> 0 <= tw -> 0 <= th ->
  zlen (G.enc_tiles (pp_w p) (pp_h p) (G.enc_tile_size (pp_w p) tw) (G.enc_tile_size (pp_h p) th))
  = siz_tiles_x (pipe_siz_tiles p tw th) * siz_tiles_y (pipe_siz_tiles p tw th).
Proof.
  intros p tw th Hsc Htw Hth. unfold pp_scope in Hsc.
  unfold G.enc_tiles, zlen. rewrite map_length. unfold G.zrange. rewrite map_length, seq_length.
  unfold siz_tiles_x, siz_tiles_y, pipe_siz_tiles. cbn [sz_x sz_y sz_xto sz_yto sz_xt sz_yt]. rewrite !Z.sub_0_r.
  fold (tile_dim tw (pp_w p)). fold (tile_dim th (pp_h p)). change (G.enc_tile_size (pp_w p) tw) with (tile_dim tw (pp_w p)). change (G.enc_tile_size (pp_h p) th) with (tile_dim th (pp_h p)).
  assert (Ha : 1 <= tile_dim tw (pp_w p)) by (unfold tile_dim; destruct (Z.eqb_spec tw 0); lia).
  assert (Hb : 1 <= tile_dim th (pp_h p)) by (unfold tile_dim; destruct (Z.eqb_spec th 0); lia).
  rewrite !enc_num_tiles_ceil by lia.
  pose proof (ceil_div_ge1 (pp_w p) _ ltac:(lia) Ha). pose proof (ceil_div_ge1 (pp_h p) _ ltac:(lia) Hb).
  rewrite Z2Nat.id by (apply Z.mul_nonneg_nonneg; lia). reflexivity.
Qed.

Theorem pipe_encode_tiles_count : forall p tw th pix tiles, pp_scope p -> 0 <= tw -> 0 <= th ->
  pipe_encode_tiles p tw th pix = Ok tiles ->
  zlen tiles = siz_tiles_x (pipe_siz_tiles p tw th) * siz_tiles_y (pipe_siz_tiles p tw th).
Proof.
  intros p tw th pix tiles Hsc Htw Hth H. unfold pipe_encode_tiles in H.
  destruct (pipe_front p pix) as [planes| | |]; cbn [obind] in H; try discriminate.
  apply omap_length in H. unfold zlen. rewrite H. apply enc_tiles_count; assumption.
Qed.

Theorem pipe_encode_tiles_wellformed_given_clean : forall p tw th pix tiles,
  pp_scope p -> tile_grid_ok p tw th ->
  pipe_encode_tiles p tw th pix = Ok tiles -> Forall tile_ok tiles ->
  j2k_wellformed (pipe_codestream_tiles p tw th tiles) = Some (pst_header p 1 tw th tiles).
Proof.
  intros p tw th pix tiles Hsc Hg He Hok. apply pipe_codestream_tiles_wellformed; try assumption.
  destruct Hg as (Htw & Hth & _). eapply pipe_encode_tiles_count; try eassumption; lia.
Qed.
