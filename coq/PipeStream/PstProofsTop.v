(* PipeStream proofs, part 4: the statements in the form the property files quote them. *)
From V Require Import Common.Base Framing.FrmBase Framing.FrmJ2k Framing.FrmWriters
  Framing.FrmProofsSeg Framing.FrmProofsHdr Pipe.PipeModel Pipe.PipeProofsFront
  PipeStream.PstModel PipeStream.PstHeader PipeStream.PstProofsWalk PipeStream.PstProofsTiles
  PipeStream.PstProofsTilesN.

(* the main header of the single-tile writer: accepted by the walker's header part (which is
   j2k_walk up to the first SOT, j2k_walk_split), whatever tile-part follows; the SIZ it reads
   back is the geometry of p *)
Theorem pipe_header_wellformed : forall p rest, pp_scope p -> starts_tiles rest ->
  j2k_walk_main (pipe_main_header p ++ rest)
    = WOk (pipe_siz p, pipe_mstate p, rest, zlen (pipe_main_header p)) /\
  sz_x (pipe_siz p) - sz_xo (pipe_siz p) = pp_w p /\
  sz_y (pipe_siz p) - sz_yo (pipe_siz p) = pp_h p /\
  sz_c (pipe_siz p) = pp_nc p /\
  sz_comps (pipe_siz p)
    = repeat (pp_prec p - 1 + (if pp_signed p then 128 else 0), 1, 1) (Z.to_nat (pp_nc p)) /\
  ms_cod (pipe_mstate p) = Some (pipe_cod p) /\ ms_qcd (pipe_mstate p) = Some (64, 3 * pp_levels p + 1).
Proof.
  intros p rest Hsc Hr. split.
  - rewrite pipe_main_header_eq. apply walk_main_header; try assumption; [lia | apply tile_grid_ok_single; assumption].
  - unfold pipe_siz, pipe_siz_tiles. cbn [sz_x sz_xo sz_y sz_yo sz_c sz_comps]. repeat split; try lia; reflexivity.
Qed.

(* what the returned header says: the declared geometry equals the arguments *)
Theorem pipe_header_declares : forall p n,
  jk_width (pipe_header p n) = pp_w p /\ jk_height (pipe_header p n) = pp_h p /\
  jk_csiz (pipe_header p n) = pp_nc p /\
  jk_comps (pipe_header p n)
    = repeat (pp_prec p - 1 + (if pp_signed p then 128 else 0), 1, 1) (Z.to_nat (pp_nc p)) /\
  jk_xtsiz (pipe_header p n) = pp_w p /\ jk_ytsiz (pipe_header p n) = pp_h p /\
  jk_ntiles (pipe_header p n) = 1 /\
  jk_tileparts (pipe_header p n) = [(0, n + 14)] /\
  cd_levels (jk_cod (pipe_header p n)) = pp_levels p /\ cd_layers (jk_cod (pipe_header p n)) = 1 /\
  cd_prog (jk_cod (pipe_header p n)) = pp_order p /\ cd_transform (jk_cod (pipe_header p n)) = 1 /\
  2 ^ cd_xcb (jk_cod (pipe_header p n)) = 2 ^ Z.log2 (pp_cbw p) /\
  2 ^ cd_ycb (jk_cod (pipe_header p n)) = 2 ^ Z.log2 (pp_cbh p).
Proof.
  intros p n. unfold jk_width, jk_height, pipe_header, pipe_header_layers, pipe_cod_layers, pipe_ssiz.
  cbn [jk_xsiz jk_xosiz jk_ysiz jk_yosiz jk_csiz jk_comps jk_xtsiz jk_ytsiz jk_ntiles jk_tileparts jk_cod
       cd_levels cd_layers cd_prog cd_transform cd_xcb cd_ycb].
  repeat split; try lia; reflexivity.
Qed.

(* the size the SOT can carry: Psot is a uint32 *)
Definition psot_fits (tile : list Z) : Prop := zlen tile + 14 < 4294967296.

Theorem pipe_encode_wellformed_given_clean : forall p pix cs,
  pp_scope p ->
  (forall tile, pipe_encode_tile p pix = Ok tile -> psot_fits tile /\ tile_clean tile = true) ->
  pipe_encode p pix = Ok cs ->
  exists n, j2k_wellformed cs = Some (pipe_header p n) /\ zlen cs = zlen (pipe_main_header p) + 14 + n + 2.
Proof.
  intros p pix cs Hsc Hc He. unfold pipe_encode in He.
  destruct (pipe_encode_tile p pix) as [tile| | |] eqn:Et; cbn [obind] in He; try discriminate.
  injection He as <-. destruct (Hc tile eq_refl) as [Hfit Hclean].
  exists (zlen tile). split; [apply pipe_codestream_wellformed; assumption|].
  unfold pipe_codestream. rewrite !zlen_app.
  change (zlen (W.write_marker 65424)) with 2. change (zlen (W.be16_bytes 10)) with 2.
  change (zlen (W.be16_bytes 0)) with 2. change (zlen (W.be32_bytes (zlen tile + 14))) with 4.
  change (zlen [0; 1]) with 2. change (zlen (W.write_marker 65427)) with 2.
  change (zlen (W.write_marker 65497)) with 2. lia.
Qed.
