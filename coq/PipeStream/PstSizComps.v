(* EXTRACT *)
(* PipeStream (C04): what jpeg2000.Decoder.Decode REPORTS about the image through its getters
   Width / Height / Components / BitDepth / IsSigned, as a function of the codestream bytes.

     Decoder.Decode                  parser.Parse(); d.cs = cs; extractImageParameters()
     Parser.parseMainHeader          = Parsers.PrsJ2k.k_main_header (SOC, consumeMainHeader, SIZ/COD/QCD
                                       required).  Every handler except mainSIZ refuses to run before a
                                       SIZ was seen and a second SIZ is refused, so when it succeeds the
                                       SIZ marker is the one at offset 2 and parseSIZ ran at offset 4.
     Parser.parseSIZ                 Lsiz(2) Rsiz(2) Xsiz..YTOsiz(8 x 4) Csiz(2), then Csiz triples
                                       Ssiz, XRsiz, YRsiz read with readUint8: Components[0].Ssiz is the
                                       byte at offset 4 + 38 = 42 (the PrsJ2k model checks the triples
                                       but does not keep them; this is the same read, kept)
     Decoder.extractImageParameters  width = int(Xsiz - XOsiz), height = int(Ysiz - YOsiz) (uint32
                                       subtraction; XOsiz < Xsiz was validated), components = int(Csiz),
                                       bitDepth = Components[0].BitDepth() = int(Ssiz & 0x7F) + 1,
                                       isSigned = Components[0].IsSigned() = Ssiz & 0x80 != 0
                                       -- the FIRST component's Ssiz stands for all components.
   The tile-parts (Parse's tile loop, Parsers.PrsJ2k.k_parse_tile) must also parse for Decode to get
   this far; k_siz_report models the reported values given that they do.  Components[0] on an empty
   table would be an index panic; Csiz >= 1 is validated by parseSIZ, the branch is kept explicit. *)
From V Require Import Common.Base Parsers.PrsOutcome Parsers.PrsJ2k.

(* offset of Components[0].Ssiz when the SIZ segment is the first one after SOC *)
Definition siz_comp0_offset : Z := 42.

(* ComponentSize.BitDepth / IsSigned *)
Definition ssiz_bit_depth (ssiz : Z) : Z := Z.land ssiz 127 + 1.
Definition ssiz_is_signed (ssiz : Z) : bool := negb (Z.land ssiz 128 =? 0).

(* (Width, Height, Components, BitDepth, IsSigned) *)
Definition k_siz_report (d : list Z) : outcome (Z * Z * Z * Z * bool) :=
  match fst (k_main_header (fuel_of d) d) with
  | Ok (s, _) =>
    if s_c s <=? 0 then Panic                                   (* Components[0] of an empty slice *)
    else match fst (k_rd8 d siz_comp0_offset) with
         | Ok (ssiz, _) =>
           Ok (wrapU 32 (s_x s - s_xo s), wrapU 32 (s_y s - s_yo s), s_c s,
               ssiz_bit_depth ssiz, ssiz_is_signed ssiz)
         | _ => Panic                                           (* cannot happen: parseSIZ read it *)
         end
  | Err => Err
  | Panic => Panic
  | OutOfFuel => OutOfFuel
  end.
