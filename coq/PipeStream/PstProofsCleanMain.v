(* PipeStream, tile_clean part 4: the composed encoder.
     pipe_encode_tile_clean : every tile pipe_encode_tile returns is tile_clean - no FF is
       followed by a byte >= 0x90 and the tile does not end in FF - for EVERY parameter record
       and EVERY pixel string (no scope hypothesis is needed: the bit writer is clean for any
       bit sequence, the MQ Flush output is clean for any decision sequence, int32 scaling keeps
       the bit-planes <= 30, and the fallbacks [0] are clean).
   Also for every tile of the tiled encoder (pipe_encode_tiles). *)
From V Require Import Common.Base.
From V Require Import T2.T2Header T2.T2Packets Pipe.PipeModel.
From V Require Import PipeStream.PstModel PipeStream.PstProofsCleanList PipeStream.PstProofsCleanT2
  PipeStream.PstProofsCleanT1.
Require V.J2KGeo.GeoModel.

(* ---------- PacketEncoder.AddCodeBlock ---------- *)
Lemma add_to_bands_clean : forall bands band b, bands_clean bands -> blk_clean b -> bands_clean (add_to_bands bands band b).
Proof.
  induction bands as [|q r IH]; intros band b Hb Hk; cbn [add_to_bands].
  - constructor; [|constructor]. unfold band_clean. cbn [ebn_blocks]. constructor; [exact Hk|constructor].
  - inversion Hb as [|? ? Hq Hr]; subst. destruct (ebn_band q =? band).
    + constructor; [|exact Hr]. unfold band_clean in *. cbn [ebn_blocks]. apply Forall_app. split; [exact Hq|].
      constructor; [exact Hk|constructor].
    + constructor; [exact Hq|]. apply IH; assumption.
Qed.

Lemma add_code_block_clean : forall cells comp res pidx band b,
  cells_clean cells -> blk_clean b -> cells_clean (add_code_block cells comp res pidx band b).
Proof.
  intros cells comp res pidx band b Hc Hb. unfold add_code_block.
  apply aset_cells_clean; [exact Hc|]. apply add_to_bands_clean; [|exact Hb].
  destruct (aget key3_eqb cells (comp, res, pidx)) as [l|] eqn:Ea.
  - eapply aget_cells_clean; eassumption.
  - constructor.
Qed.

Definition entry_clean (x : Z * Z * Z * eblock) : Prop := blk_clean (snd x).

Lemma add_blocks_clean : forall l comp cells, cells_clean cells -> Forall entry_clean l -> cells_clean (add_blocks comp cells l).
Proof.
  unfold add_blocks. induction l as [|[[[res pidx] band] b] r IH]; intros comp cells Hc Hl; cbn [fold_left]; [exact Hc|].
  inversion Hl as [|? ? Hx Hr]; subst. apply IH; [|exact Hr]. apply add_code_block_clean; [exact Hc|exact Hx].
Qed.

(* ---------- the block loop ---------- *)
Lemma enc_one_block_clean : forall p rc x, enc_one_block p rc = Ok x -> entry_clean x.
Proof.
  intros p [res cb] x E. unfold enc_one_block in E.
  destruct (enc_code_block p res cb _ _) as [b| | |] eqn:Eb; cbn [obind] in E; try discriminate.
  inversion E; subst. unfold entry_clean. cbn [snd]. eapply enc_code_block_clean; exact Eb.
Qed.

Lemma omap_Forall : forall (A B : Type) (f : A -> outcome B) (P : B -> Prop),
  (forall a b, f a = Ok b -> P b) -> forall l bs, omap f l = Ok bs -> Forall P bs.
Proof.
  intros A B f P Hf. induction l as [|a r IH]; intros bs E; cbn [omap] in E.
  - inversion E; subst. constructor.
  - destruct (f a) as [b| | |] eqn:Ea; cbn [obind] in E; try discriminate.
    destruct (omap f r) as [bs2| | |] eqn:Er; cbn [obind] in E; try discriminate.
    inversion E; subst. constructor; [eapply Hf; exact Ea|apply IH; reflexivity].
Qed.

Lemma enc_add_comps_clean : forall p coeffs comp cells cells',
  cells_clean cells -> enc_add_comps p comp cells coeffs = Ok cells' -> cells_clean cells'.
Proof.
  intros p. induction coeffs as [|d r IH]; intros comp cells cells' Hc E; cbn [enc_add_comps] in E.
  - inversion E; subst. exact Hc.
  - destruct (omap (enc_one_block p) (enc_blocks p d)) as [bl| | |] eqn:Eo; cbn [obind] in E; try discriminate.
    eapply IH; [|exact E]. apply add_blocks_clean; [exact Hc|].
    eapply omap_Forall; [|exact Eo]. intros a b Hab. eapply enc_one_block_clean; exact Hab.
Qed.

(* buildTilePacketEncoderAt: every block in the store has LayerData == nil and clean data *)
Theorem pipe_cells_clean : forall p coeffs cells, pipe_cells p coeffs = Ok cells -> cells_clean cells.
Proof.
  intros p coeffs cells E. unfold pipe_cells in E. eapply enc_add_comps_clean; [|exact E]. constructor.
Qed.

(* encodeTileData *)
Theorem pipe_tile_bytes_clean : forall p cells tile,
  cells_clean cells -> pipe_tile_bytes p cells = Ok tile -> tile_clean tile = true.
Proof.
  intros p cells tile Hc E. unfold pipe_tile_bytes in E.
  destruct (enc_packets _ _ _ _ _ cells) as [[ps cells']| | |] eqn:Ep; try discriminate.
  - inversion E; subst. cbn [fst]. exact (proj1 (enc_packets_clean _ _ _ _ _ _ _ _ Hc Ep)).
  - inversion E; subst. exact tile_clean_zero.
Qed.

(* ===== the theorem ===== *)
Theorem pipe_encode_tile_clean : forall p pix tile,
  pipe_encode_tile p pix = Ok tile -> tile_clean tile = true.
Proof.
  intros p pix tile E. unfold pipe_encode_tile in E.
  destruct (pipe_coeffs p pix) as [coeffs| | |]; cbn [obind] in E; try discriminate.
  destruct (pipe_cells p coeffs) as [cells| | |] eqn:Ec; cbn [obind] in E; try discriminate.
  eapply pipe_tile_bytes_clean; [|exact E]. eapply pipe_cells_clean; exact Ec.
Qed.

(* the same for every tile of the tiled encoder (writeTiles) *)
Theorem pipe_tile_of_planes_clean : forall p planes r tile,
  pipe_tile_of_planes p planes r = Ok tile -> tile_clean tile = true.
Proof.
  intros p planes r tile E. unfold pipe_tile_of_planes in E. cbv zeta in E.
  destruct (pipe_cells _ _) as [cells| | |] eqn:Ec; cbn [obind] in E; try discriminate.
  eapply pipe_tile_bytes_clean; [|exact E]. eapply pipe_cells_clean; exact Ec.
Qed.

Theorem pipe_encode_tiles_clean : forall p tw th pix tiles,
  pipe_encode_tiles p tw th pix = Ok tiles -> Forall (fun t => tile_clean t = true) tiles.
Proof.
  intros p tw th pix tiles E. unfold pipe_encode_tiles in E.
  destruct (pipe_front p pix) as [planes| | |]; cbn [obind] in E; try discriminate.
  eapply omap_Forall; [|exact E]. intros r t Hr. eapply pipe_tile_of_planes_clean; exact Hr.
Qed.
