(* PipeStream, tile_clean part 2: the packet encoder (T2/T2Header.v, T2/T2Packets.v).
   - every packet header is the output of the bit writer (bio_encode), hence tile_clean
     (including the empty-packet header, bio_encode [0]);
   - every packet body is the concatenation of the ei_data of the included code-blocks; with
     LayerData == nil (eb_ld = None, the single-layer path) ei_data is the WHOLE eb_data of the
     block, and the header encoder never changes eb_data / eb_ld of the Precinct objects it
     writes back.  Invariant over the store: `cells_clean`.
   Result: packets_bytes of enc_packets over a clean store is tile_clean - for any progression
   order, any layer count, any geometry. *)
From V Require Import Common.Base Framing.FrmBase Framing.FrmWriters Framing.FrmProofsBio.
From V Require Import T2.T2Bio T2.T2TagTree J2KGeo.GeoLayers T2.T2Header T2.T2Packets.
From V Require Import PipeStream.PstModel PipeStream.PstProofsCleanList.

(* ---------- the invariant ---------- *)
Definition blk_clean (b : eblock) : Prop := eb_ld b = None /\ tile_clean (eb_data b) = true.
Definition band_clean (q : eband) : Prop := Forall blk_clean (ebn_blocks q).
Definition bands_clean (l : list eband) : Prop := Forall band_clean l.
Definition cells_clean (cells : ecells) : Prop := Forall (fun kv => bands_clean (snd kv)) cells.
Definition inc_clean (i : eincl) : Prop := tile_clean (ei_data i) = true.
Definition packet_clean (q : epacket) : Prop :=
  tile_clean (ep_header q) = true /\ tile_clean (ep_body q) = true.

Lemma blk_clean_with : forall b inc nlb, blk_clean b -> blk_clean (eb_with b inc nlb).
Proof. intros b inc nlb H. exact H. Qed.

Lemma inc_clean_skip : forall i, inc_clean (eincl_skip i).
Proof. intros i. reflexivity. Qed.

(* ---------- one code-block ---------- *)
Lemma enc_block_clean : forall it zt b layer bs inc b' it' zt',
  blk_clean b -> enc_block it zt b layer = Ok (bs, inc, b', it', zt') -> inc_clean inc /\ blk_clean b'.
Proof.
  intros it zt b layer bs inc b' it' zt' Hb E. pose proof Hb as [Hld Hd].
  unfold enc_block in E. rewrite Hld in E. unfold layer_contribution in E. cbv beta iota zeta in E.
  assert (Hcont : forall bs0 b1 it1 zt1,
    blk_clean b1 -> eb_data b1 = eb_data b ->
    obind (enc_numpasses (eb_npt b)) (fun bs3 =>
      let '(prev, total) := prev_and_total_passes false (eb_lp b1) (eb_npt b1) layer (eb_npt b) in
      obind (enc_lengths (eb_nlb b1) (zlen (eb_data b)) prev (eb_npt b)
               (eb_termall b1 && negb (match block_pass_lens b1 with None => true | Some l => total >? zlen l end))
               (block_pass_lens b1) (block_terms b1)) (fun ln =>
        Ok (bs0 ++ bs3 ++ fst ln,
            {| ei_included := zlen (eb_data b) >? 0; ei_np := eb_npt b; ei_len := zlen (eb_data b); ei_data := eb_data b |},
            eb_with b1 (eb_included b1) (snd ln), it1, zt1))) = Ok (bs, inc, b', it', zt') ->
    inc_clean inc /\ blk_clean b').
  { intros bs0 b1 it1 zt1 Hb1 Ed E1.
    destruct (enc_numpasses (eb_npt b)) as [bs3| | |]; cbn [obind] in E1; try discriminate.
    destruct (prev_and_total_passes false (eb_lp b1) (eb_npt b1) layer (eb_npt b)) as [prev total].
    destruct (enc_lengths _ _ _ _ _ _ _) as [ln| | |]; cbn [obind] in E1; try discriminate.
    inversion E1; subst. split; [exact Hd|]. apply blk_clean_with. exact Hb1. }
  destruct (negb (eb_included b)).
  - destruct (tt_encode it (eb_cbx b) (eb_cby b) (layer + 1)) as [e1| | |]; cbn [obind] in E; try discriminate.
    destruct (negb (zlen (eb_data b) >? 0)).
    + inversion E; subst. split; [apply inc_clean_skip|exact Hb].
    + destruct (tt_encode zt (eb_cbx b) (eb_cby b) 999) as [e2| | |]; cbn [obind] in E; try discriminate.
      eapply Hcont; [| |exact E]; [apply blk_clean_with; exact Hb|reflexivity].
  - destruct (zlen (eb_data b) >? 0).
    + eapply Hcont; [| |exact E]; [exact Hb|reflexivity].
    + inversion E; subst. split; [apply inc_clean_skip|exact Hb].
Qed.

Lemma enc_blocks_clean : forall blocks it zt layer bs incs bl it' zt',
  Forall blk_clean blocks -> enc_blocks it zt blocks layer = Ok (bs, incs, bl, it', zt') ->
  Forall inc_clean incs /\ Forall blk_clean bl.
Proof.
  induction blocks as [|b r IH]; intros it zt layer bs incs bl it' zt' Hbl E; cbn [enc_blocks] in E.
  - inversion E; subst. split; constructor.
  - inversion Hbl as [|? ? Hb Hr]; subst.
    destruct (enc_block it zt b layer) as [[[[[bs1 inc1] b1] it1] zt1]| | |] eqn:E1; cbn [obind] in E; try discriminate.
    destruct (enc_blocks it1 zt1 r layer) as [[[[[bs2 incs2] bl2] it2] zt2]| | |] eqn:E2; cbn [obind] in E; try discriminate.
    inversion E; subst.
    destruct (enc_block_clean _ _ _ _ _ _ _ _ _ Hb E1) as [Hi Hb1].
    destruct (IH _ _ _ _ _ _ _ _ Hr E2) as [His Hbs].
    split; constructor; assumption.
Qed.

(* ---------- a band ---------- *)
Lemma insert_block_clean : forall b l, blk_clean b -> Forall blk_clean l -> Forall blk_clean (insert_block b l).
Proof.
  intros b l Hb. induction l as [|x r IH]; intros Hl; cbn [insert_block].
  - constructor; [exact Hb|constructor].
  - inversion Hl; subst. destruct (block_lt x b); constructor; auto.
Qed.

Lemma sort_blocks_clean : forall l, Forall blk_clean l -> Forall blk_clean (sort_blocks l).
Proof.
  unfold sort_blocks. induction l as [|x r IH]; intros H; cbn [fold_right]; [constructor|].
  inversion H; subst. apply insert_block_clean; auto.
Qed.

Lemma prepare_band_clean : forall q layer, band_clean q -> band_clean (prepare_band q layer).
Proof.
  intros q layer H. unfold prepare_band. destruct (ebn_blocks q) as [|b0 r0] eqn:Eb; [exact H|].
  unfold band_clean in *. rewrite Eb in H.
  repeat match goal with |- context [let '(_, _) := ?x in _] => destruct x end.
  unfold ebn_with. cbn [ebn_blocks]. apply sort_blocks_clean. exact H.
Qed.

Lemma enc_bands_clean : forall bands layer bs incs ps,
  bands_clean bands -> enc_bands bands layer = Ok (bs, incs, ps) -> Forall inc_clean incs /\ bands_clean ps.
Proof.
  induction bands as [|q r IH]; intros layer bs incs ps Hb E; cbn [enc_bands] in E.
  - inversion E; subst. split; constructor.
  - inversion Hb as [|? ? Hq Hr]; subst.
    destruct (ebn_blocks q) as [|b0 r0] eqn:Eb.
    + destruct (enc_bands r layer) as [[[bs2 incs2] ps2]| | |] eqn:E2; cbn [obind] in E; try discriminate.
      inversion E; subst. destruct (IH _ _ _ _ Hr E2) as [Hi Hp]. split; [exact Hi|constructor; assumption].
    + destruct (ebn_trees q) as [[it zt]|]; [|discriminate].
      destruct (enc_blocks it zt (b0 :: r0) layer) as [[[[[bs1 incs1] bl1] it1] zt1]| | |] eqn:E1;
        cbn [obind] in E; try discriminate.
      destruct (enc_bands r layer) as [[[bs2 incs2] ps2]| | |] eqn:E2; cbn [obind] in E; try discriminate.
      inversion E; subst.
      unfold band_clean in Hq. rewrite Eb in Hq.
      destruct (enc_blocks_clean _ _ _ _ _ _ _ _ _ Hq E1) as [Hi1 Hb1].
      destruct (IH _ _ _ _ Hr E2) as [Hi2 Hp2].
      split; [apply Forall_app; split; assumption|].
      constructor; [|exact Hp2]. unfold band_clean, ebn_with. cbn [ebn_blocks]. exact Hb1.
Qed.

(* ---------- the header ---------- *)
Lemma enc_header_bits_clean : forall bands layer bs incs ps,
  bands_clean bands -> enc_header_bits bands layer = Ok (bs, incs, ps) -> Forall inc_clean incs /\ bands_clean ps.
Proof.
  intros bands layer bs incs ps Hb E. unfold enc_header_bits in E.
  destruct (negb (has_code_blocks bands)).
  - inversion E; subst. split; [constructor|exact Hb].
  - destruct (enc_bands (map (fun p => prepare_band p layer) bands) layer) as [[[bs2 incs2] ps2]| | |] eqn:E2;
      cbn [obind] in E; try discriminate.
    inversion E; subst. eapply enc_bands_clean; [|exact E2].
    unfold bands_clean. apply Forall_map. eapply Forall_impl; [|exact Hb].
    intros q Hq. apply prepare_band_clean. exact Hq.
Qed.

(* every header enc_header produces is bit-writer output: no hypothesis at all *)
Theorem enc_header_hdr_clean : forall bands layer hdr incs ps,
  enc_header bands layer = Ok (hdr, incs, ps) -> tile_clean hdr = true.
Proof.
  intros bands layer hdr incs ps E. unfold enc_header in E.
  destruct (enc_header_bits bands layer) as [[[bs incs2] ps2]| | |]; cbn [obind] in E; try discriminate.
  inversion E; subst. apply bio_encode_tile_clean.
Qed.

Lemma enc_header_clean : forall bands layer hdr incs ps,
  bands_clean bands -> enc_header bands layer = Ok (hdr, incs, ps) ->
  tile_clean hdr = true /\ Forall inc_clean incs /\ bands_clean ps.
Proof.
  intros bands layer hdr incs ps Hb E. split; [eapply enc_header_hdr_clean; exact E|].
  unfold enc_header in E.
  destruct (enc_header_bits bands layer) as [[[bs incs2] ps2]| | |] eqn:E2; cbn [obind] in E; try discriminate.
  inversion E; subst. eapply enc_header_bits_clean; [exact Hb|exact E2].
Qed.

(* ---------- one packet ---------- *)
Lemma order_bands_clean : forall bands res, bands_clean bands -> bands_clean (order_bands bands res).
Proof.
  intros bands res H. unfold order_bands, bands_clean. apply Forall_forall. intros q Hq.
  apply in_flat_map in Hq. destruct Hq as (bid & _ & Hq). apply filter_In in Hq. destruct Hq as [Hq _].
  unfold bands_clean in H. rewrite Forall_forall in H. apply H. exact Hq.
Qed.

Lemma write_back_clean : forall bands upd, bands_clean bands -> bands_clean upd -> bands_clean (write_back bands upd).
Proof.
  intros bands upd Hb Hu. unfold write_back, bands_clean. apply Forall_map. eapply Forall_impl; [|exact Hb].
  intros q Hq. cbv beta. destruct (find _ upd) as [q'|] eqn:Ef; [|exact Hq].
  apply find_some in Ef. destruct Ef as [Hin _]. unfold bands_clean in Hu. rewrite Forall_forall in Hu. apply Hu. exact Hin.
Qed.

Lemma packet_body_clean : forall incs, Forall inc_clean incs -> tile_clean (packet_body incs) = true.
Proof.
  intros incs H. unfold packet_body. apply tile_clean_flat_map. eapply Forall_impl; [|exact H].
  intros i Hi. cbv beta. destruct (ei_included i); [exact Hi|reflexivity].
Qed.

Lemma enc_packet_clean : forall bands layer res hdr body incs bands',
  bands_clean bands -> enc_packet bands layer res = Ok (hdr, body, incs, bands') ->
  tile_clean hdr = true /\ tile_clean body = true /\ bands_clean bands'.
Proof.
  intros bands layer res hdr body incs bands' Hb E. unfold enc_packet in E.
  destruct (enc_header (order_bands bands res) layer) as [[[hdr1 incs1] upd]| | |] eqn:E1; cbn [obind] in E; try discriminate.
  inversion E; subst.
  destruct (enc_header_clean _ _ _ _ _ (order_bands_clean bands res Hb) E1) as (Hh & Hi & Hu).
  split; [exact Hh|]. split; [apply packet_body_clean; exact Hi|]. apply write_back_clean; assumption.
Qed.

(* ---------- the store and the packet sequence ---------- *)
Lemma aget_cells_clean : forall (cells : ecells) k v, cells_clean cells -> aget key3_eqb cells k = Some v -> bands_clean v.
Proof.
  induction cells as [|[k' v'] r IH]; intros k v H E; cbn [aget] in E; [discriminate|].
  inversion H as [|? ? H1 H2]; subst. destruct (key3_eqb k' k).
  - inversion E; subst. exact H1.
  - eapply IH; eassumption.
Qed.

Lemma aset_cells_clean : forall (cells : ecells) k v, cells_clean cells -> bands_clean v -> cells_clean (aset key3_eqb cells k v).
Proof.
  induction cells as [|[k' v'] r IH]; intros k v H Hv; cbn [aset].
  - constructor; [exact Hv|constructor].
  - inversion H as [|? ? H1 H2]; subst. destruct (key3_eqb k' k).
    + constructor; [exact Hv|exact H2].
    + constructor; [exact H1|apply IH; assumption].
Qed.

Lemma enc_items_clean : forall items cells ps cells',
  cells_clean cells -> enc_items cells items = Ok (ps, cells') -> Forall packet_clean ps /\ cells_clean cells'.
Proof.
  induction items as [|[[[l r] c] p] rest IH]; intros cells ps cells' Hc E; cbn [enc_items] in E.
  - inversion E; subst. split; [constructor|exact Hc].
  - destruct (aget key3_eqb cells (c, r, p)) as [[|b0 br]|] eqn:Ea; try (eapply IH; eassumption).
    pose proof (aget_cells_clean _ _ _ Hc Ea) as Hb.
    destruct (enc_packet (b0 :: br) l r) as [[[[hdr body] incs] bands']| | |] eqn:Ep; cbn [obind] in E; try discriminate.
    destruct (enc_packet_clean _ _ _ _ _ _ _ Hb Ep) as (Hh & Hbd & Hb').
    destruct (enc_items (aset key3_eqb cells (c, r, p) bands') rest) as [[ps2 cells2]| | |] eqn:E2; cbn [obind] in E; try discriminate.
    inversion E; subst. cbn [fst snd].
    destruct (IH _ _ _ (aset_cells_clean _ _ _ Hc Hb') E2) as [Hps Hc2].
    split; [|exact Hc2]. constructor; [|exact Hps]. split; [exact Hh|exact Hbd].
Qed.

Lemma packets_bytes_clean : forall ps, Forall packet_clean ps -> tile_clean (packets_bytes ps) = true.
Proof.
  intros ps H. unfold packets_bytes. apply tile_clean_flat_map. eapply Forall_impl; [|exact H].
  intros q [Hh Hb]. cbv beta. apply tile_clean_app; assumption.
Qed.

(* every header in the packet list is clean without any hypothesis on the store *)
Lemma enc_items_headers_clean : forall items cells ps cells',
  enc_items cells items = Ok (ps, cells') -> Forall (fun q => tile_clean (ep_header q) = true) ps.
Proof.
  induction items as [|[[[l r] c] p] rest IH]; intros cells ps cells' E; cbn [enc_items] in E.
  - inversion E; subst. constructor.
  - destruct (aget key3_eqb cells (c, r, p)) as [[|b0 br]|] eqn:Ea; try (eapply IH; eassumption).
    destruct (enc_packet (b0 :: br) l r) as [[[[hdr body] incs] bands']| | |] eqn:Ep; cbn [obind] in E; try discriminate.
    destruct (enc_items (aset key3_eqb cells (c, r, p) bands') rest) as [[ps2 cells2]| | |] eqn:E2; cbn [obind] in E; try discriminate.
    inversion E; subst. cbn [fst]. constructor; [|eapply IH; exact E2]. cbn [ep_header].
    unfold enc_packet in Ep.
    destruct (enc_header (order_bands (b0 :: br) r) l) as [[[hdr1 incs1] upd]| | |] eqn:E1; cbn [obind] in Ep; try discriminate.
    inversion Ep; subst. eapply enc_header_hdr_clean; exact E1.
Qed.

Theorem enc_packets_headers_clean : forall order nl nr nc g cells ps cells',
  enc_packets order nl nr nc g cells = Ok (ps, cells') -> Forall (fun q => tile_clean (ep_header q) = true) ps.
Proof.
  intros order nl nr nc g cells ps cells' E. unfold enc_packets in E.
  destruct (prog_seq _ _ _ _ _ _) as [items|]; [|discriminate]. eapply enc_items_headers_clean; exact E.
Qed.

(* EncodePackets + packetsToBytes over a clean store *)
Theorem enc_packets_clean : forall order nl nr nc g cells ps cells',
  cells_clean cells -> enc_packets order nl nr nc g cells = Ok (ps, cells') ->
  tile_clean (packets_bytes ps) = true /\ cells_clean cells'.
Proof.
  intros order nl nr nc g cells ps cells' Hc E. unfold enc_packets in E.
  destruct (prog_seq _ _ _ _ _ _) as [items|]; [|discriminate].
  destruct (enc_items_clean _ _ _ _ Hc E) as [Hps Hc']. split; [apply packets_bytes_clean; exact Hps|exact Hc'].
Qed.
