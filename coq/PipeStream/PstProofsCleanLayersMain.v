(* PipeStream, tile_clean part 7: the layered encoder without the named hypothesis.
     enc_code_block_layers_lclean : every block encodeLayeredCodeBlock + finalizeBlock produce
       carries clean Data and clean LayerData segments (PstProofsCleanCuts);
     pipe_encode_tile_layers_clean : every tile of pipe_encode_tile_layers is tile_clean, for
       any parameters, any layer count, any allocation, any pixels. *)
From V Require Import Common.Base MQ.MqModel MQ.MqProofs.
From V Require Import T1.T1Store T1.T1Ctx T1.T1Model T1.T1Bytes T1.T1ProofsComp.
From V Require Import J2KGeo.GeoLayers T2.T2Header T2.T2Packets Pipe.PipeModel.
From V Require Import PipeStream.PstModel PipeStream.PstProofsCleanList PipeStream.PstProofsCleanT2
  PipeStream.PstProofsCleanT1 PipeStream.PstProofsCleanMain PipeStream.PstProofsCleanLayers
  PipeStream.PstProofsCleanCuts.
Require V.J2KGeo.GeoModel.

(* the pass records EncodeLayered returns are normalize_rev output over the returned bytes *)
Lemma enc_layered_shape : forall wn hn orient style fb np data mb ps bytes,
  enc_layered wn hn orient style fb np data = Ok (mb, ps, bytes) ->
  exists ps0 L, ps = rev (normalize_rev bytes ps0 L).
Proof.
  intros wn hn orient style fb np data mb ps bytes E. unfold enc_layered in E.
  destruct (enc_syms wn hn orient style fb np data) as [maxbp syms].
  destruct (maxbp <? fb).
  - inversion E; subst. exists [], 0. reflexivity.
  - destruct (enc_bytes_passes _ _ _ _ _ _) as [[[e prevTerm] ps1]| | |]; cbn [obind] in E; try discriminate.
    inversion E; subst. eexists _, _. reflexivity.
Qed.

Lemma enc_layered_cuts : forall wn hn orient style fb np data mb ps bytes,
  tile_clean bytes = true ->
  enc_layered wn hn orient style fb np data = Ok (mb, ps, bytes) -> Forall (rec_cut_ok bytes) ps.
Proof.
  intros wn hn orient style fb np data mb ps bytes Hb E.
  destruct (enc_layered_shape _ _ _ _ _ _ _ _ _ _ E) as (ps0 & L & ->).
  apply Forall_rev. apply normalize_rev_cuts. exact Hb.
Qed.

Module GMl := V.J2KGeo.GeoModel.

Theorem enc_code_block_layers_lclean : forall p nl row res cb cbx cby b,
  enc_code_block_layers p nl row res cb cbx cby = Ok b -> blk_lclean b.
Proof.
  intros p nl row res cb cbx cby b E. unfold enc_code_block_layers in E. cbv zeta in E.
  set (data := map (fun v => PipeModel.i32 (Z.shiftl v 6)) (GMl.cb_data cb)) in *.
  assert (H30 : find_max_bitplane data <= 30).
  { apply find_max_bitplane_le30. unfold data. apply Forall_map. apply Forall_forall. intros v _.
    unfold PipeModel.i32. apply wrapS32_range. }
  destruct (enc_layered _ _ _ 0 6 _ data) as [[[mb ps] bytes]| | |] eqn:El; try discriminate.
  - assert (Hb : tile_clean bytes = true).
    { refine (enc_layered_clean _ _ _ 0 6 _ _ (mb, ps, bytes) mq_style_0 _ H30 El). lia. }
    pose proof (enc_layered_cuts _ _ _ _ _ _ _ _ _ _ Hb El) as Hps.
    destruct ps as [|q0 psr].
    + inversion E; subst. split; [reflexivity|exact I].
    + change (map (fun q => (p_rate q, p_actual q)) (q0 :: psr)) with (map glq (q0 :: psr)) in E.
      destruct (finalize_block (map glq (q0 :: psr)) (Some bytes) nl row true) as [[[lp ld]|]| | |] eqn:Ef;
        try discriminate; inversion E; subst; (split; [exact Hb|]); cbn [eb_ld]; [|exact I].
      exact (finalize_block_clean _ _ _ _ _ _ _ Hb Hps Ef).
  - inversion E; subst. split; [reflexivity|]. cbn [eb_ld]. repeat constructor.
Qed.

Lemma hyp_layer_blocks_clean_holds : forall p nl alloc, hyp_layer_blocks_clean p nl alloc.
Proof. intros p nl alloc comp key res cb cbx cby b E. eapply enc_code_block_layers_lclean; exact E. Qed.

(* ===== the layered theorem (pipe_encode_tile_layers_clean_statement) ===== *)
Theorem pipe_encode_tile_layers_clean : pipe_encode_tile_layers_clean_statement.
Proof.
  intros p nl alloc pix tile E.
  eapply pipe_encode_tile_layers_clean_partial; [apply hyp_layer_blocks_clean_holds|exact E].
Qed.

(* tiles x layers *)
Theorem pipe_encode_tiles_layers_clean : forall p nl talloc tw th pix tiles,
  pipe_encode_tiles_layers p nl talloc tw th pix = Ok tiles -> Forall (fun t => tile_clean t = true) tiles.
Proof.
  intros p nl talloc tw th pix tiles E. unfold pipe_encode_tiles_layers in E.
  destruct (pipe_front p pix) as [planes| | |]; cbn [obind] in E; try discriminate.
  eapply omap_Forall; [|exact E]. intros idx t Ht. unfold pipe_tile_of_planes_layers in Ht. cbv zeta in Ht.
  destruct (pipe_cells_layers _ _ _ _) as [cells| | |] eqn:Ec; cbn [obind] in Ht; try discriminate.
  eapply pipe_tile_bytes_layers_clean; [|exact Ht]. unfold pipe_cells_layers in Ec.
  eapply enc_add_comps_layers_lclean; [apply hyp_layer_blocks_clean_holds| |exact Ec]. constructor.
Qed.
